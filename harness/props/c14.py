"""C14 — the bipartite vertex cover is a cover and has maximum-matching size.

Stage B (correspondence with the Lean model Ptn.C14): adjacency lists built by `BipartiteGraph`
(duplicate entries dropped, order of first appearance), the matching returned by
`HopcroftKarp(graph)()` and both lists returned by `minimum_vertex_cover(graph)` are compared
*exactly* (the algorithm is deterministic) with the model, on every edge set of small sides
(exhaustive) and on random / structured graphs up to 12x12.
Stage C (oracle): an own augmenting-path maximum matching (Kuhn) gives the maximum matching size;
the returned sets must touch every edge, contain only existing vertices and have that combined
size; the internal matching must consist of pairwise vertex-disjoint edges of the graph.

Order independence (Lean: `mvc_order_independent`, `hk_matching_maximum_order_independent`,
`mvc_cover_graph_determined`):
 * every case is also sent to the model with a non-ascending enumeration policy of the three Python
   sets (`C14 coverord ka ku kv …`); the answer must be the `cover` line;
 * "permutation groups": the same edge set is fed to the library and to the model in every order of the
   entry list (exhaustive for <= 4 distinct edges, random beyond) and with duplicated entries. Per order
   the exact lists are compared with the model (the algorithm is deterministic per order); over the
   group the SET of covers returned by the library must equal the model's set, which by the theorem is a
   single pair although the internal matchings differ; the oracle demands only what the property
   demands (every returned cover valid and of maximum-matching size).
"""
from __future__ import annotations

import glob
import itertools
import json
import os
import signal

RULE = ("cases: every edge set on sides a x b (quick: a,b <= 3 in canonical, reversed and shuffled/duplicated "
        "entry order plus 3x4, 4x3 canonical; thorough: a,b <= 4 plus 5x2, 2x5, 6x2, 2x6, 5x3, 3x5); random "
        "graphs up to 12x12 (uniform density, sparse, dense, planted isolated vertices, long vertex-disjoint "
        "paths, crowns, unbalanced, near-perfect, hub layers), entry order shuffled, entries duplicated; a few "
        "malformed inputs (constructor asserts); corpus of mutation witnesses first; permutation groups: every "
        "order of the entry list of every edge set with 2..4 edges (quick: sides <= 3, thorough: sides <= 4) plus "
        "duplicated entries, and random orders of random graphs; every case additionally under a non-ascending "
        "enumeration policy of the Python sets (model only). non-trivial = distinct "
        "(sides, entry list) with at least one edge for which first-fit greedy matching in adjacency order is "
        "not maximum, or the cover uses both sides, or entries are duplicated")
PARTIAL = ["Python exceptions for missing dict keys / list indices are not modelled (the model uses total "
           "functions; every key read is written before); an exception on the implementation side is an "
           "oracle failure",
           "CPython's actual enumeration order of a set cannot be chosen from outside (for small ints it is "
           "ascending); the model is parametrised by the order and proved independent of it "
           "(mvc_order_independent), the library is run with the order CPython picks"]
ASSUMPTIONS = ["asserts are enabled (no python -O)"]

CASE_TIMEOUT_S = 30.0   # generous: the machine may be heavily loaded; a genuine non-termination still trips it
MAX_TIMEOUTS = 3      # after that many non-terminating cases the run stops (failures are recorded)
_timeouts = [0]


class _Timeout(Exception):
    pass


def _alarm(signum, frame):
    raise _Timeout()


# ------------------------------------------------------------------ independent oracle

def max_matching_size(nU, nV, edges):
    """Kuhn's augmenting path algorithm on the set of edges (own implementation)."""
    adj = [[] for _ in range(nU)]
    for (u, v) in sorted(set((int(u), int(v)) for u, v in edges)):
        adj[u].append(v)
    match_v = [-1] * nV

    def try_u(u, seen):
        for v in adj[u]:
            if v in seen:
                continue
            seen.add(v)
            if match_v[v] == -1 or try_u(match_v[v], seen):
                match_v[v] = u
                return True
        return False

    size = 0
    for u in range(nU):
        if try_u(u, set()):
            size += 1
    return size


def greedy_size(adj_u, nV):
    used = [False] * nV
    k = 0
    for vs in adj_u:
        for v in vs:
            if not used[v]:
                used[v] = True
                k += 1
                break
    return k


# ------------------------------------------------------------------ generators

def _variants(rng, edges, how):
    edges = [list(e) for e in edges]
    if how == "canon":
        return edges
    if how == "rev":
        return edges[::-1]
    # shuffled with duplicated entries
    out = list(edges)
    ndup = rng.randint(0, max(1, len(edges)))
    for _ in range(ndup if edges else 0):
        out.append(list(rng.choice(edges)))
    rng.shuffle(out)
    return out


def exhaustive_cases(rng, amax, nvariants):
    for a in range(1, amax + 1):
        for b in range(1, amax + 1):
            cells = [(u, v) for u in range(a) for v in range(b)]
            for mask in range(1 << (a * b)):
                edges = [cells[i] for i in range(a * b) if mask >> i & 1]
                yield {"nU": a, "nV": b, "edges": _variants(rng, edges, "canon")}
                if len(edges) >= 2:
                    if nvariants >= 2:
                        yield {"nU": a, "nV": b, "edges": _variants(rng, edges, "rev")}
                    for _ in range(max(0, nvariants - 2) if nvariants > 1 else 0):
                        yield {"nU": a, "nV": b, "edges": _variants(rng, edges, "shuf")}
                elif edges and nvariants > 1:
                    yield {"nU": a, "nV": b, "edges": [list(edges[0])] * rng.randint(2, 3)}
                if nvariants == 1 and edges and mask % 3 == 0:
                    yield {"nU": a, "nV": b, "edges": _variants(rng, edges, "shuf")}


def random_case(rng):
    fam = rng.choice(["uniform", "uniform", "uniform", "sparse", "path", "crown", "unbalanced",
                      "nearperfect", "layers", "isolated", "dense"])
    nU = rng.randint(1, 12)
    nV = rng.randint(1, 12)
    edges = []
    if fam in ("uniform", "sparse", "dense", "isolated"):
        p = {"uniform": rng.choice([0.1, 0.2, 0.3, 0.5, 0.7]), "sparse": rng.uniform(0.02, 0.15),
             "dense": rng.uniform(0.8, 1.0), "isolated": rng.choice([0.2, 0.4])}[fam]
        deadU = set(rng.sample(range(nU), rng.randint(0, nU // 2))) if fam == "isolated" else set()
        deadV = set(rng.sample(range(nV), rng.randint(0, nV // 2))) if fam == "isolated" else set()
        for u in range(nU):
            for v in range(nV):
                if u not in deadU and v not in deadV and rng.random() < p:
                    edges.append((u, v))
    elif fam == "path":
        # one or several vertex-disjoint paths through randomly labelled vertices: long augmenting paths
        pu = list(range(nU))
        pv = list(range(nV))
        rng.shuffle(pu)
        rng.shuffle(pv)
        k = min(nU, nV)
        for i in range(k):
            edges.append((pu[i], pv[i]))
            if i + 1 < k and rng.random() < 0.9:
                edges.append((pu[i + 1], pv[i]))
        if rng.random() < 0.5 and nV > k:
            edges.append((pu[0], pv[k]))
        for _ in range(rng.randint(0, 3)):
            edges.append((rng.randrange(nU), rng.randrange(nV)))
    elif fam == "crown":
        k = min(nU, nV)
        for u in range(k):
            for v in range(k):
                if u != v:
                    edges.append((u, v))
        for _ in range(rng.randint(0, 2)):
            edges.append((rng.randrange(nU), rng.randrange(nV)))
    elif fam == "unbalanced":
        if rng.random() < 0.5:
            nU, nV = rng.randint(1, 3), rng.randint(6, 12)
        else:
            nU, nV = rng.randint(6, 12), rng.randint(1, 3)
        for u in range(nU):
            for v in range(nV):
                if rng.random() < 0.5:
                    edges.append((u, v))
    elif fam == "nearperfect":
        k = min(nU, nV)
        pu = rng.sample(range(nU), k)
        pv = rng.sample(range(nV), k)
        for i in range(k):
            if rng.random() < 0.9:
                edges.append((pu[i], pv[i]))
        for _ in range(rng.randint(0, 2 * k)):
            edges.append((rng.randrange(nU), rng.randrange(nV)))
    elif fam == "layers":
        # many left vertices competing for few right vertices, then a private exit: several phases
        k = rng.randint(1, min(nU, nV))
        hubs = rng.sample(range(nV), k)
        for u in range(nU):
            for h in rng.sample(hubs, rng.randint(1, k)):
                edges.append((u, h))
            if rng.random() < 0.4:
                edges.append((u, rng.randrange(nV)))
    edges = sorted(set(edges))
    mode = rng.choice(["canon", "shuf", "shuf", "rev", "shufnodup"])
    if mode == "shufnodup":
        rng.shuffle(edges)
        ev = [list(e) for e in edges]
    else:
        ev = _variants(rng, edges, mode)
    return {"nU": nU, "nV": nV, "edges": ev, "family": fam}


MALFORMED = [
    {"nU": 0, "nV": 2, "edges": []},
    {"nU": 2, "nV": 0, "edges": []},
    {"nU": 2, "nV": 2, "edges": [[0, 0], [2, 1]]},
    {"nU": 2, "nV": 2, "edges": [[0, 2]]},
    {"nU": 1, "nV": 1, "edges": [[0, 0], [0, 0], [1, 0]]},
]


def group_cases(rng, amax, kmax=4):
    """Every edge set with 2..kmax edges on sides <= amax, to be run in every order of the entry list."""
    for a in range(1, amax + 1):
        for b in range(1, amax + 1):
            cells = [(u, v) for u in range(a) for v in range(b)]
            for k in range(2, min(kmax, a * b) + 1):
                for sub in itertools.combinations(cells, k):
                    yield {"nU": a, "nV": b, "edges": [list(e) for e in sub],
                           "group": {"mode": "all", "seed": rng.randrange(1 << 30), "dups": 3 if k < 4 else 2}}


def gen_cases(ctx):
    rng = ctx.rng
    cases = []
    big = ctx.tier == "thorough" or ctx.scale > 1
    grng = ctx.subrng("groups")
    cases.extend(group_cases(grng, 4 if big else 3))
    for _ in range(ctx.n(150, 3000)):
        c = random_case(grng)
        c["edges"] = sorted(set((int(u), int(v)) for u, v in c["edges"]))
        c["edges"] = [list(e) for e in c["edges"]]
        c["group"] = {"mode": "random", "seed": grng.randrange(1 << 30), "n": 6}
        cases.append(c)
    ctx.notes["permutation_groups"] = ("every order of the entry list for every edge set with 2..4 edges on sides <= "
                                       + ("4" if big else "3") + " (+ duplicated entries); 6 random orders of random graphs")
    if big:
        cases.extend(exhaustive_cases(rng, 4, 1))
        for (a, b) in ((5, 2), (2, 5), (6, 2), (2, 6), (5, 3), (3, 5)):
            cells = [(u, v) for u in range(a) for v in range(b)]
            for mask in range(1 << (a * b)):
                cases.append({"nU": a, "nV": b, "edges": [list(cells[i]) for i in range(a * b) if mask >> i & 1]})
        ctx.notes["exhaustive_sides"] = ("all edge sets for a x b, a,b <= 4 (canonical order + every third "
                                         "shuffled/duplicated) and 5x2, 2x5, 6x2, 2x6, 5x3, 3x5 (canonical)")
    else:
        cases.extend(exhaustive_cases(rng, 3, 4))
        for (a, b) in ((3, 4), (4, 3)):
            cells = [(u, v) for u in range(a) for v in range(b)]
            for mask in range(1 << (a * b)):
                cases.append({"nU": a, "nV": b, "edges": [list(cells[i]) for i in range(a * b) if mask >> i & 1]})
        ctx.notes["exhaustive_sides"] = ("all edge sets for a x b, a,b <= 3 (canonical, reversed, 2 shuffled/duplicated) "
                                         "and 3x4, 4x3 (canonical)")
    ctx.exhaustive = True
    for c in MALFORMED:
        cases.append(dict(c))
    for _ in range(ctx.n(2000, 50000)):
        cases.append(random_case(rng))
    return cases


# ------------------------------------------------------------------ running

def _policy(case):
    """Enumeration policies (alist, list(u_cover), list(v_cover)) derived from the case; never all ascending."""
    h = 7 * int(case["nU"]) + 13 * int(case["nV"])
    for i, (u, v) in enumerate(case["edges"]):
        h += (i + 1) * (3 * int(u) + 5 * int(v) + 1)
    return 1 + h % 4, (h // 4) % 5, (h // 20) % 5


def _lines1(case):
    toks = " ".join(f"{int(u)}:{int(v)}" for u, v in case["edges"])
    head = f"{int(case['nU'])} {int(case['nV'])}" + (" " + toks if toks else "")
    ka, ku, kv = _policy(case)
    return [f"C14 graph {head}", f"C14 cover {head}", f"C14 coverord {ka} {ku} {kv} {head}"]


def group_variants(case):
    """The entry lists of a permutation group (identity order first), fully determined by the case."""
    import random as _random
    edges = [[int(u), int(v)] for u, v in case["edges"]]
    grp = case["group"]
    rng = _random.Random(int(grp.get("seed", 0)))
    out = [list(edges)]
    if grp.get("mode") == "all":
        perms = [list(p) for p in itertools.permutations(edges)]
        out.extend(perms[1:])
        ndupv = min(int(grp.get("dups", 3)), len(perms))
        for p in rng.sample(perms, ndupv):
            q = list(p)
            for _ in range(rng.randint(1, 3)):
                q.insert(rng.randint(0, len(q)), list(rng.choice(edges)))
            out.append(q)
    else:
        for k in range(int(grp.get("n", 6))):
            q = list(edges)
            rng.shuffle(q)
            if k % 2 == 1 and edges:
                for _ in range(rng.randint(1, 3)):
                    q.insert(rng.randint(0, len(q)), list(rng.choice(edges)))
            out.append(q)
    return out


def _subcases(case):
    if case.get("group"):
        return [{"nU": case["nU"], "nV": case["nV"], "edges": ev} for ev in group_variants(case)]
    return [case]


def _lines(case):
    out = []
    for c in _subcases(case):
        out.extend(_lines1(c))
    return out


def run(ctx):
    _timeouts[0] = 0
    corpus = []
    for path in sorted(glob.glob(os.path.join(os.path.dirname(__file__), "..", "..", "corpus", "C14", "*.json"))):
        try:
            data = json.load(open(path))
        except Exception:  # noqa: BLE001
            continue
        for c in (data if isinstance(data, list) else [data]):
            corpus.append(c.get("case", c))
    cases = corpus + gen_cases(ctx)
    lines = []
    spans = []
    for c in cases:
        ls = _lines(c)
        spans.append((len(lines), len(lines) + len(ls)))
        lines.extend(ls)
    outs = ctx.lean.batch(lines)
    old = signal.signal(signal.SIGALRM, _alarm)
    try:
        for (lo, hi), c in zip(spans, cases):
            if ctx.time_left() < 0 or _timeouts[0] >= MAX_TIMEOUTS:
                break
            run_case(ctx, c, tuple(outs[lo:hi]))
    finally:
        signal.setitimer(signal.ITIMER_REAL, 0)
        signal.signal(signal.SIGALRM, old)


def _impl(case):
    """Run the real code. Returns dict with adjacency, matching, cover or the exception kind."""
    from pytreenet.ttno.bipartite_graph import BipartiteGraph, HopcroftKarp, minimum_vertex_cover
    nU, nV = int(case["nU"]), int(case["nV"])
    edges = [(int(u), int(v)) for u, v in case["edges"]]
    res = {}
    try:
        g = BipartiteGraph(nU, nV, edges)
    except AssertionError:
        res["graph_error"] = "assert"
        return res
    res["adj_u"] = [list(x) for x in g.adj_u]
    res["adj_v"] = [list(x) for x in g.adj_v]

    class Counting(HopcroftKarp):
        phases = 0

        def _HopcroftKarp__connect_unmatched_vertices(self):
            self.phases += 1
            return super()._HopcroftKarp__connect_unmatched_vertices()

    signal.setitimer(signal.ITIMER_REAL, CASE_TIMEOUT_S)
    try:
        try:
            hk = Counting(g)
            res["matching"] = [(int(a), int(b)) for a, b in hk()]
            res["phases"] = hk.phases
        except _Timeout:
            _timeouts[0] += 1
            res["matching_error"] = f"HopcroftKarp did not return within {CASE_TIMEOUT_S}s"
        except Exception as e:  # noqa: BLE001
            res["matching_error"] = f"HopcroftKarp raised {type(e).__name__}: {str(e)[:100]}"
        signal.setitimer(signal.ITIMER_REAL, CASE_TIMEOUT_S)
        try:
            cu, cv = minimum_vertex_cover(g)
            res["cover"] = (list(cu), list(cv))
        except _Timeout:
            _timeouts[0] += 1
            res["cover_error"] = f"minimum_vertex_cover did not return within {CASE_TIMEOUT_S}s"
        except AssertionError:
            res["cover_error"] = "minimum_vertex_cover raised AssertionError (size of cover != size of matching)"
            res["cover_assert"] = True
        except Exception as e:  # noqa: BLE001
            res["cover_error"] = f"minimum_vertex_cover raised {type(e).__name__}: {str(e)[:100]}"
    finally:
        signal.setitimer(signal.ITIMER_REAL, 0)
    return res


def run_case(ctx, case, model_out=None):
    if model_out is None:
        model_out = tuple(ctx.lean.batch(_lines(case)))
        prev = signal.signal(signal.SIGALRM, _alarm)
    else:
        prev = None
    try:
        if case.get("group"):
            _run_group(ctx, case, model_out)
        else:
            _run_case(ctx, case, model_out)
    finally:
        if prev is not None:
            signal.setitimer(signal.ITIMER_REAL, 0)
            signal.signal(signal.SIGALRM, prev)


def _fmt_list(xs):
    return ",".join(str(x) for x in xs)


def _parse_cover_line(line):
    """`M=…;U=…;V=…[;cert=…]` -> (matching size, (U tuple, V tuple)) or None."""
    if not line.startswith("M="):
        return None
    parts = dict(x.split("=", 1) for x in line.split(";"))
    M = [x for x in parts.get("M", "").split(",") if x]
    cu = tuple(int(x) for x in parts.get("U", "").split(",") if x)
    cv = tuple(int(x) for x in parts.get("V", "").split(",") if x)
    return len(M), (cu, cv)


def _run_group(ctx, case, model_out):
    """One edge set in many entry orders: every order is a full case of its own; over the group the set of
    covers of the library must be the set of covers of the model (a single pair: mvc_cover_graph_determined)."""
    subs = _subcases(case)
    impl_covers, model_covers, impl_msizes, model_msizes, impl_matchings = set(), set(), set(), set(), set()
    complete = True
    for k, sub in enumerate(subs):
        res = _run_case(ctx, sub, tuple(model_out[3 * k:3 * k + 3]))
        if res is None:
            complete = False
            continue
        pm = _parse_cover_line(model_out[3 * k + 1])
        if pm is not None:
            model_msizes.add(pm[0])
            model_covers.add(pm[1])
        if "cover" in res and "matching" in res:
            impl_covers.add((tuple(res["cover"][0]), tuple(res["cover"][1])))
            impl_msizes.add(len(res["matching"]))
            impl_matchings.add(tuple(sorted(res["matching"])))
        else:
            complete = False
    ctx.tally("group_orders", len(subs) if len(subs) <= 8 else (">8" if len(subs) <= 27 else ">27"))
    ctx.tally("group_distinct_matchings", len(impl_matchings))
    ctx.tally("group_distinct_covers", len(impl_covers))
    if len(model_covers) > 1 or len(model_msizes) > 1:
        ctx.corr_fail(case, f"model returns different covers / matching sizes for reordered entries: covers={sorted(model_covers)} "
                            f"sizes={sorted(model_msizes)} (contradicts mvc_cover_graph_determined)")
    if complete and impl_covers != model_covers:
        ctx.corr_fail(case, f"set of covers over all entry orders: impl={sorted(impl_covers)} model={sorted(model_covers)}")
    if complete and impl_msizes != model_msizes:
        ctx.corr_fail(case, f"matching sizes over all entry orders: impl={sorted(impl_msizes)} model={sorted(model_msizes)}")


def _run_case(ctx, case, model_out):
    m_graph, m_cover, m_ord = model_out
    if m_ord != m_cover:
        ctx.corr_fail(case, f"model: enumeration policy {_policy(case)} of the Python sets changes the answer: "
                            f"{m_ord} vs ascending {m_cover} (contradicts mvc_order_independent)")
    nU, nV = int(case["nU"]), int(case["nV"])
    edges = [(int(u), int(v)) for u, v in case["edges"]]
    res = _impl(case)
    key = (nU, nV, tuple(edges))

    # ---- malformed input: both sides must refuse
    valid_input = nU >= 1 and nV >= 1 and all(0 <= u < nU and 0 <= v < nV for u, v in edges)
    if not valid_input:
        ctx.count(key, nontrivial=False, corr=True)
        ctx.tally("kind", "malformed")
        impl = res.get("graph_error", "accepted")
        if impl != m_graph or m_cover != m_graph:
            ctx.corr_fail(case, f"malformed input: impl={impl} model graph={m_graph} cover={m_cover}")
        return None
    if "graph_error" in res:
        ctx.count(key, nontrivial=False, corr=True)
        ctx.oracle_fail(case, "BipartiteGraph refused a well-formed input (AssertionError)")
        return None

    eset = set(edges)
    nmax = max_matching_size(nU, nV, edges)
    dup = len(eset) != len(edges)

    # ---- correspondence
    impl_graph = ("AU=" + "|".join(_fmt_list(x) for x in res["adj_u"]) +
                  ";AV=" + "|".join(_fmt_list(x) for x in res["adj_v"]))
    if impl_graph != m_graph:
        ctx.corr_fail(case, f"adjacency lists: impl={impl_graph} model={m_graph}")
    if "matching" in res and "cover" in res:
        impl_cover = ("M=" + ",".join(f"{a}:{b}" for a, b in res["matching"]) +
                      ";U=" + _fmt_list(res["cover"][0]) + ";V=" + _fmt_list(res["cover"][1]))
    elif res.get("cover_assert") and "matching" in res:
        impl_cover = "assert-cover"
    else:
        impl_cover = "error:" + res.get("matching_error", "") + res.get("cover_error", "")
    model_cmp = m_cover.rsplit(";cert=", 1)[0] if ";cert=" in m_cover else m_cover
    if impl_cover != model_cmp:
        ctx.corr_fail(case, f"matching/cover: impl={impl_cover} model={m_cover}")
    elif m_cover.endswith(";cert=0"):
        ctx.corr_fail(case, f"model output fails its own certificate check: {m_cover}")

    # ---- oracle on the implementation's output
    probs = []
    both_sides = False
    if "matching_error" in res:
        probs.append(res["matching_error"])
    else:
        M = res["matching"]
        if any(e not in eset for e in M):
            probs.append(f"internal matching {M} contains a pair that is not an edge")
        if len({a for a, _ in M}) != len(M) or len({b for _, b in M}) != len(M):
            probs.append(f"internal matching {M} uses a vertex twice")
    if "cover_error" in res:
        probs.append(res["cover_error"])
    else:
        cu, cv = res["cover"]
        su, sv = set(cu), set(cv)
        both_sides = bool(su) and bool(sv)
        bad_u = [u for u in cu if not (isinstance(u, int) and 0 <= u < nU)]
        bad_v = [v for v in cv if not (isinstance(v, int) and 0 <= v < nV)]
        if bad_u or bad_v:
            probs.append(f"cover contains non-existing vertices U:{bad_u} V:{bad_v}")
        unc = [e for e in sorted(eset) if e[0] not in su and e[1] not in sv]
        if unc:
            probs.append(f"cover ({cu},{cv}) misses edge(s) {unc[:3]}")
        if len(su) + len(sv) != nmax:
            probs.append(f"cover ({cu},{cv}) has size {len(su) + len(sv)}, maximum matching has size {nmax}")
        if len(su) != len(cu) or len(sv) != len(cv):
            probs.append(f"cover lists contain repeated vertices ({cu},{cv})")
    greedy_ok = greedy_size(res["adj_u"], nV) == nmax
    nontrivial = bool(eset) and ((not greedy_ok) or both_sides or dup)
    ctx.count(key, nontrivial=nontrivial, corr=True)
    ctx.tally("sides", f"{nU}x{nV}" if max(nU, nV) <= 4 else f"{(nU + 3) // 4 * 4}x{(nV + 3) // 4 * 4}-ish")
    ctx.tally("matching_size", nmax)
    ctx.tally("phases", res.get("phases", "n/a"))
    ctx.tally("greedy_is_maximum", greedy_ok)
    ctx.tally("duplicate_entries", dup)
    ctx.tally("cover_both_sides", both_sides)
    ctx.tally("isolated_vertices", any(not a for a in res["adj_u"]) or any(not a for a in res["adj_v"]))
    if "family" in case:
        ctx.tally("family", case["family"])
    if nontrivial and nU >= 3:
        ctx.sample({"nU": nU, "nV": nV, "edges": [list(e) for e in edges]}, 4)
    if probs:
        ctx.oracle_fail(case, "; ".join(probs[:3]))
    return res


def shrink(case):
    nU, nV = int(case["nU"]), int(case["nV"])
    edges = [list(e) for e in case["edges"]]
    base = {"nU": nU, "nV": nV}
    if case.get("group"):
        base["group"] = dict(case["group"])
        if len(edges) > 4:
            base["group"]["mode"] = "random"
        # first try the single orders of the group
        for ev in group_variants(case):
            yield {"nU": nU, "nV": nV, "edges": ev}
    # drop the highest vertex of a side if unused
    if nU > 1 and all(u != nU - 1 for u, _ in edges):
        yield dict(base, nU=nU - 1, edges=edges)
    if nV > 1 and all(v != nV - 1 for _, v in edges):
        yield dict(base, nV=nV - 1, edges=edges)
    # drop a vertex entirely (renumber)
    for u0 in range(nU):
        if nU > 1:
            yield dict(base, nU=nU - 1,
                       edges=[[u - (u > u0), v] for u, v in edges if u != u0])
    for v0 in range(nV):
        if nV > 1:
            yield dict(base, nV=nV - 1,
                       edges=[[u, v - (v > v0)] for u, v in edges if v != v0])
    # drop one entry
    for i in range(len(edges)):
        yield dict(base, edges=edges[:i] + edges[i + 1:])
