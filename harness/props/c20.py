"""C20 — the local propagator computes exp(-/+ iHt) psi in every evolution mode.

Stage B (correspondence with Lean model Ptn.C20): the *route* `time_evolve` takes is observed from
outside (the names `solve_ivp` / `fast_exp_action` in `time_evolution`, `expm` / `eigsh` /
`expm_multiply` / sparse `expm` in `util.std_utils` are wrapped by pass-through recorders) and is
compared, as a canonical string, with the model's answer: which routine, which `method` / mode
string, which scalar in front of H (recovered from the generator the routine really received),
how the duration enters, dtype of the initial value, `k` of the eigsh branch, output shape.  The
placement of the routine's flat result in the returned tensor is compared entry by entry (bitwise)
with the model's `unravel` (C order).
Stage C (oracle): value against an independent propagator (eigh-based for Hermitian H, own
scaled-and-squared Taylor series otherwise), shape, forward-then-backward = identity, norm
preservation for Hermitian H, zero duration = identity.
"""
from __future__ import annotations

import math
import sys
import warnings

import numpy as np

RULE = ("cases: every TimeEvoMode x dimension 1..12 (each pair at least once Hermitian and once "
        "non-Hermitian) plus random draws; psi of a random tensor shape (ordered factorisation of n "
        "with inserted dimension-1 axes, 0-d for n=1), complex or real dtype, real or complex H, "
        "t from {0, 1e-3, 0.1, 0.5, 1, U(0,2)}, ||H||_2 in [0.3,1.5], both directions; plus direct "
        "fast_exp_action calls incl. 'none' and unknown mode strings, also with the mode argument omitted and "
        "real / int / read-only vectors. Input-space audit axes (one or two per case, ~330 cases): call forms of "
        "time_evolve (defaults omitted / keywords), forward as int / numpy.bool_, duration as int / numpy.float64 / "
        "numpy.float32, psi int64 / float32 / complex64 / read-only / zero / scaled by 1e-8..1e+8, H int64 / float32 / "
        "complex64 / Fortran / transposed / strided view / read-only / zero / 1e-8 / ||H|| t up to 30 (non-ODE modes), "
        "dimensions 16, 24, 32; TimeEvoMode.is_scipy / fastest_equivalent / str on every member. non-trivial = distinct "
        "(mode, n, shape, herm, direction, t>0, dtype) whose route is not the default expm_multiply "
        "on a flat complex vector")
PARTIAL = ["accuracy of scipy expm / expm_multiply / sparse expm / solve_ivp is by contract "
           "(hypothesis of the theorems; validated against the independent propagator on every case); "
           "that the exact solution of the ODE branch is exp(exponent) y0 is proved (ode_branch_flow, matrix form)",
           "ODE modes are only accurate to the solver's default rtol=1e-3/atol=1e-6: the oracle "
           "demands 5e-2 (RK23), 3e-2 (BDF), 1e-2 (RK45), 5e-3 (DOP853) relative to ||U|| ||psi|| "
           "(>= 6x the maxima measured over 20k cases with ||H||t <= 3)",
           "mode eigsh with dimension >= 4 is wrong (open finding F-C20, theorem eigsh_not_exact_witness)"]
ASSUMPTIONS = ["||H|| t <= 3 (moderate): the per-mode tolerances were calibrated there",
               "floating point is not modelled; the route and the placement of entries are compared exactly, values by tolerance"]

MODES = ["fastest", "expm", "eigsh", "chebyshev", "sparse", "RK45", "RK23", "DOP853", "BDF"]
SCIPY_MODES = ("RK45", "RK23", "DOP853", "BDF")
# relative to ||U||_2 ||psi||; measured maxima over 20k cases with ||H||t <= 3 are in notes/C20.md
TOL = {"fastest": 1e-9, "expm": 1e-9, "eigsh": 1e-9, "chebyshev": 1e-9, "sparse": 1e-9,
       "RK45": 1e-2, "RK23": 5e-2, "DOP853": 5e-3, "BDF": 3e-2}
T_CHOICES = [0.0, 1e-3, 0.1, 0.5, 1.0]


# ------------------------------------------------------------------ modules under observation

def _mods():
    import pytreenet  # noqa: F401
    from pytreenet.time_evolution.time_evolution import time_evolve, TimeEvoMode
    te = sys.modules["pytreenet.time_evolution.time_evolution"]
    su = sys.modules["pytreenet.util.std_utils"]
    return te, su, time_evolve, TimeEvoMode


class Recorder:
    """Pass-through wrappers around the names the anchored code looks up at call time."""

    def __init__(self):
        self.te, self.su, _, _ = _mods()
        self.events = []
        self.saved = {}

    def __enter__(self):
        te, su, ev = self.te, self.su, self.events
        self.saved = {(te, "solve_ivp"): te.solve_ivp, (te, "fast_exp_action"): te.fast_exp_action,
                      (su, "expm"): su.expm, (su, "eigsh"): su.eigsh,
                      (su, "expm_multiply"): su.expm_multiply, (su, "expm_sparse"): su.expm_sparse}
        o = {k[1]: v for k, v in self.saved.items()}

        def solve_ivp(fun, t_span, y0, *a, **k):
            sol = o["solve_ivp"](fun, t_span, y0, *a, **k)
            ev.append(("solve_ivp", {"fun": fun, "t_span": t_span, "y0": np.array(y0, copy=True),
                                     "args": a, "kwargs": dict(k), "sol": sol}))
            return sol

        def fast_exp_action(exponent, vector, *a, **k):
            rec = {"E": np.array(exponent, copy=True), "v": np.array(vector, copy=True), "args": a,
                   "kwargs": dict(k)}
            ev.append(("fast_exp_action", rec))
            res = o["fast_exp_action"](exponent, vector, *a, **k)
            rec["ret"] = res
            return res

        def expm(A, *a, **k):
            ev.append(("expm", {"A": np.array(A, copy=True)}))
            return o["expm"](A, *a, **k)

        def eigsh(A, *a, **k):
            ev.append(("eigsh", {"A": np.array(A, copy=True), "args": a, "kwargs": dict(k)}))
            return o["eigsh"](A, *a, **k)

        def expm_multiply(A, B, *a, **k):
            ev.append(("expm_multiply", {"A": np.array(A, copy=True), "B": np.array(B, copy=True),
                                         "args": a, "kwargs": dict(k)}))
            return o["expm_multiply"](A, B, *a, **k)

        def expm_sparse(A, *a, **k):
            ev.append(("expm_sparse", {"A": A}))
            return o["expm_sparse"](A, *a, **k)

        loc = locals()
        for (mod, name) in self.saved:
            setattr(mod, name, loc[name])
        return self

    def __exit__(self, *exc):
        for (mod, name), f in self.saved.items():
            setattr(mod, name, f)
        return False


# ------------------------------------------------------------------ independent references

def taylor_expm(A: np.ndarray) -> np.ndarray:
    """exp(A) by scaling and squaring with a plain Taylor series (no scipy)."""
    A = np.asarray(A, dtype=complex)
    n = A.shape[0]
    nrm = np.abs(A).sum(axis=0).max() if n else 0.0
    s = 0 if nrm <= 0.25 else int(math.ceil(math.log2(nrm / 0.25)))
    B = A / (2.0 ** s)
    term = np.eye(n, dtype=complex)
    acc = np.eye(n, dtype=complex)
    for j in range(1, 30):
        term = term @ B / j
        acc = acc + term
    for _ in range(s):
        acc = acc @ acc
    return acc


def eigh_propagator(H: np.ndarray, c: complex, t: float) -> np.ndarray:
    w, V = np.linalg.eigh(H)
    return (V * np.exp(c * t * w)) @ V.conj().T


def reference_propagators(H, t, herm):
    """(U_forward, U_backward) = (exp(-iHt), exp(+iHt))."""
    if herm:
        return eigh_propagator(H, -1j, t), eigh_propagator(H, 1j, t)
    return taylor_expm(-1j * t * np.asarray(H, dtype=complex)), taylor_expm(1j * t * np.asarray(H, dtype=complex))


# ------------------------------------------------------------------ cases

def _shapes_for(rng, n):
    if n == 1:
        base = []
    else:
        base = [n]
        for _ in range(3):
            # split one factor if possible
            cand = [(i, d) for i, f in enumerate(base) for d in range(2, f) if f % d == 0]
            if not cand or rng.random() < 0.35:
                break
            i, d = rng.choice(cand)
            base[i:i + 1] = [d, base[i] // d]
        rng.shuffle(base)
    ones = rng.choice([0, 0, 1, 1, 2])
    if n == 1:
        ones = rng.choice([0, 1, 1, 2, 3])
    for _ in range(ones):
        base.insert(rng.randint(0, len(base)), 1)
    return base


def _mk_case(rng, mode=None, n=None, herm=None):
    n = n if n is not None else rng.randint(1, 12)
    return {"kind": "evolve",
            "mode": mode if mode is not None else rng.choice(MODES),
            "n": n,
            "shape": _shapes_for(rng, n),
            "herm": herm if herm is not None else rng.random() < 0.5,
            # the library itself calls time_evolve with NEGATIVE durations (link updates, backward site update of the
            # two-site scheme): a quarter of the cases has t < 0 (round-4 seed C05-R4B: t_span = (0, |t|))
            "t": rng.choice(T_CHOICES + [round(rng.uniform(0.0, 2.0), 3)] * 3) * rng.choice([1, 1, 1, -1]),
            "forward": rng.random() < 0.5,
            "real_psi": rng.random() < 0.3,
            "real_h": rng.random() < 0.25,
            "hnorm": round(rng.uniform(0.3, 1.5), 3),
            "seed": rng.randrange(10 ** 9)}


def _audit_axes(case, arng, force=None):
    """Input-space audit axes (separate generator stream).  One or two axes per case, so that a failure names its
    regime; `force` selects the first axis."""
    ode = case["mode"] in SCIPY_MODES
    axes = ["call", "fwd_type", "t_type", "psi_dtype", "psi_ro", "h_dtype", "h_layout", "mag", "hscale", "zero_psi",
            "big_n"]
    chosen = [force] if force else []
    while len(chosen) < arng.choice([1, 1, 2]):
        a = arng.choice(axes)
        if a not in chosen:
            chosen.append(a)
    for a in chosen:
        if a == "call":
            # "omit": every argument that equals its documented default (forward=True, mode=FASTEST) is left out
            if arng.random() < 0.6:
                case["mode"] = arng.choice(["fastest", "fastest", case["mode"]])
                case["forward"] = arng.random() < 0.7
                case["call"] = "omit"
            else:
                case["call"] = arng.choice(["kw", "allkw"])
        elif a == "fwd_type":
            case["fwd_type"] = arng.choice(["int", "npbool"])
        elif a == "t_type" and case.get("h_dtype") != "int":
            case["t_type"] = arng.choice(["int", "np64", "np32"])
            case["t"] = {"int": arng.choice([0, 1, 2]), "np64": case["t"], "np32": arng.choice([0.5, 0.25, 1.5, 0.0])}[
                case["t_type"]]
        elif a == "psi_dtype":
            case["psi_dtype"] = arng.choice(["int", "f32", "c64"])
            case["real_psi"] = False
        elif a == "psi_ro":
            case["psi_ro"] = 1
        elif a == "h_dtype":
            case["h_dtype"] = arng.choice(["int", "f32", "c64"])
            if case["h_dtype"] == "int":        # ||H|| is what it is: keep ||H|| t moderate through the duration
                case.pop("t_type", None)
                case["t"] = min(float(case["t"]), 0.25)
        elif a == "h_layout":
            case["h_layout"] = arng.choice(["F", "view", "ro", "T"])
        elif a == "mag":
            case["mag"] = arng.choice([8, 6] if ode else [8, 6, -6, -8])
        elif a == "hscale":
            case["hscale"] = arng.choice(["tiny", "zero"] if ode else ["tiny", "zero", "big", "big"])
            if case["hscale"] == "big":
                case["hnorm"] = round(arng.uniform(5.0, 15.0), 3)
                case["t"] = min(float(case["t"]), 2.0)
        elif a == "zero_psi":
            case["zero_psi"] = 1
        elif a == "big_n":
            case["n"] = arng.choice([16, 24, 32]) if not ode else 16
            case["shape"] = _shapes_for(arng, case["n"])
    return case


def gen_cases(ctx):
    rng = ctx.rng
    arng = ctx.subrng("audit")
    cases = []
    for mode in MODES:
        for n in range(1, 13):
            for herm in (True, False):
                cases.append(_mk_case(rng, mode, n, herm))
    for _ in range(ctx.n(1200, 12000)):
        cases.append(_mk_case(rng))
    # input-space audit: every axis at least a few times with every kind of mode, then random combinations
    for ax in ("call", "fwd_type", "t_type", "psi_dtype", "psi_ro", "h_dtype", "h_layout", "mag", "hscale", "zero_psi",
               "big_n"):
        for mode in ("fastest", "expm", "sparse", "RK45", "BDF", "chebyshev"):
            cases.append(_audit_axes(_mk_case(arng, mode), arng, force=ax))
    for _ in range(ctx.n(260, 2600)):
        cases.append(_audit_axes(_mk_case(arng), arng))
    cases.append({"kind": "enum"})
    fea_modes = MODES[:5] + ["none", "none", "Fastest", "foo", "RK45", "EXPM"]
    for _ in range(ctx.n(80, 600)):
        cases.append({"kind": "fea", "mode": rng.choice(fea_modes), "n": rng.randint(1, 12),
                      "seed": rng.randrange(10 ** 9)})
    for _ in range(ctx.n(30, 300)):            # the documented default mode="fastest" left out; other vector types
        cases.append({"kind": "fea", "mode": "fastest", "n": arng.randint(1, 12), "seed": arng.randrange(10 ** 9),
                      "omit_mode": 1, "vec": arng.choice(["complex", "real", "int", "ro"])})
    return cases


def build(case):
    nprng = np.random.default_rng(case["seed"])
    n = case["n"]
    if case.get("real_h"):
        A = nprng.normal(size=(n, n))
    else:
        A = nprng.normal(size=(n, n)) + 1j * nprng.normal(size=(n, n))
    if case["herm"]:
        A = (A + A.conj().T) / 2
    nrm = np.linalg.norm(A, 2)
    H = A * (case["hnorm"] / nrm) if nrm > 0 else A
    hd = case.get("h_dtype")
    if hd == "int":                 # integer entries (int64); the norm is what it is, the duration is adapted below
        B = nprng.integers(-1, 2, size=(n, n))
        H = (B + B.T) if case["herm"] else B
    elif hd == "f32":
        H = H.real.astype(np.float32)
        if case["herm"]:
            H = (H + H.T) / np.float32(2)
    elif hd == "c64":
        H = H.astype(np.complex64)
        if case["herm"]:
            H = (H + H.conj().T) / np.complex64(2)
    hs = case.get("hscale")
    if hs == "tiny" and hd != "int":
        H = H * H.dtype.type(1e-8)
    elif hs == "zero":
        H = np.zeros_like(H)
    hl = case.get("h_layout")
    if hl == "F":
        H = np.asfortranarray(H)
    elif hl == "T":                 # a transposed view of the transposed data: same values, other strides
        H = np.ascontiguousarray(H.T).T
    elif hl == "view":              # strided view into a larger buffer
        big = np.zeros((2 * n, 2 * n), dtype=H.dtype)
        big[1::2, ::2] = H
        H = big[1::2, ::2]
    elif hl == "ro":
        H = H.copy()
        H.flags.writeable = False
    shape = tuple(case["shape"])
    pd = case.get("psi_dtype")
    if pd == "int":
        psi = nprng.integers(-3, 4, size=shape)
    elif case.get("real_psi") or pd == "f32":
        psi = nprng.normal(size=shape)
    else:
        psi = nprng.normal(size=shape) + 1j * nprng.normal(size=shape)
    psi = np.asarray(psi)
    if pd == "f32":
        psi = psi.astype(np.float32)
    elif pd == "c64":
        psi = psi.astype(np.complex64)
    if case.get("mag") and pd != "int":
        psi = psi * psi.dtype.type(10.0 ** case["mag"])
    if case.get("zero_psi"):
        psi = np.zeros_like(psi)
    # memory layout of the input: C-contiguous, Fortran-ordered, or a transposed view (as produced by the lazy
    # leg permutation of the tensor dictionary); decided from the seed so that old replays keep their meaning
    layout = case["seed"] % 3 if psi.ndim >= 2 else 0
    if layout == 1:
        psi = np.asfortranarray(psi)
    elif layout == 2:
        perm = list(range(psi.ndim))[::-1]
        psi = np.ascontiguousarray(np.transpose(psi, perm)).transpose(perm)   # same values, non-contiguous view
    if case.get("psi_ro"):
        psi = np.array(psi, order="K")
        psi.flags.writeable = False
    return H, psi


def duration_of(case):
    """The duration in the type the case asks for."""
    t = case["t"]
    tt = case.get("t_type")
    if tt == "int":
        return int(t)
    if tt == "np64":
        return np.float64(t)
    if tt == "np32":
        return np.float32(t)
    return t


def shape_str(shape):
    return "x".join(str(d) for d in shape) if len(shape) else "scalar"


def route_line(case):
    return f"C20 route {case['mode']} {1 if case['forward'] else 0} {case['n']} {shape_str(case['shape'])}"


def unravel_lines(shape):
    n = int(np.prod(shape, dtype=int)) if len(shape) else 1
    return [f"C20 unravel {shape_str(shape)} {k}" for k in range(n)]


def parse_idx(s):
    return () if s == "scalar" else tuple(int(x) for x in s.split(","))


def _corpus():
    import glob
    import json
    import os
    from harness import common
    out = []
    for path in sorted(glob.glob(os.path.join(common.CORPUS_DIR, "C20", "*.json"))):
        out.append(common.unjson(json.load(open(path))).get("case", {}))
    return out


def run(ctx):
    cases = _corpus() + gen_cases(ctx)
    lines, owner = [], []
    shapes = {}
    for i, c in enumerate(cases):
        if c["kind"] == "enum":
            continue
        if c["kind"] == "evolve":
            lines.append(route_line(c))
            owner.append(("route", i))
            key = tuple(c["shape"])
            if key not in shapes:
                shapes[key] = None
                for ln in unravel_lines(key):
                    lines.append(ln)
                    owner.append(("unravel", key))
        else:
            lines.append(f"C20 fea {c['mode'] if c['mode'] else '<empty>'} {c['n']}")
            owner.append(("fea", i))
    outs = ctx.lean.batch(lines)
    model = {}
    unr = {}
    for (what, key), o in zip(owner, outs):
        if what == "unravel":
            unr.setdefault(key, []).append(o)
        else:
            model[key] = o
    for i, c in enumerate(cases):
        if ctx.time_left() < 0:
            break
        if c["kind"] == "enum":
            run_case(ctx, c)
        elif c["kind"] == "evolve":
            run_case(ctx, c, (model[i], unr[tuple(c["shape"])]))
        else:
            run_case(ctx, c, (model[i], None))


def _case_enum(ctx, case):
    """TimeEvoMode.is_scipy / fastest_equivalent / str on every member (the dispatch of time_evolve rests on them)."""
    _, _, _, TimeEvoMode = _mods()
    probs = []
    members = {m.value: m for m in TimeEvoMode}
    if sorted(members) != sorted(MODES):
        probs.append(f"members {sorted(members)} != documented {sorted(MODES)}")
    for v, m in members.items():
        ctx.count(("enum", v), nontrivial=True)
        ctx.tally("enum_member", v)
        want = v in SCIPY_MODES
        try:
            if bool(m.is_scipy()) != want:
                probs.append(f"TimeEvoMode.{m.name}.is_scipy() = {m.is_scipy()} (an ODE solver of scipy: {want})")
            if str(m) != v:
                probs.append(f"str(TimeEvoMode.{m.name}) = {str(m)!r} != {v!r}")
        except Exception as e:      # noqa: BLE001
            probs.append(f"TimeEvoMode.{m.name}: {type(e).__name__}: {e}")
    try:
        fe = TimeEvoMode.fastest_equivalent()
        if fe.value != "chebyshev" or fe.is_scipy():
            probs.append(f"fastest_equivalent() = {fe} (documented: the expm_multiply mode, not an ODE solver)")
    except Exception as e:          # noqa: BLE001
        probs.append(f"fastest_equivalent(): {type(e).__name__}: {e}")
    if probs:
        ctx.oracle_fail(case, "; ".join(probs[:4]))


def run_case(ctx, case, model=None):
    if case["kind"] == "enum":
        _case_enum(ctx, case)
        return
    if case["kind"] == "evolve":
        if model is None:
            outs = ctx.lean.batch([route_line(case)] + unravel_lines(tuple(case["shape"])))
            model = (outs[0], outs[1:])
        _case_evolve(ctx, case, model[0], model[1])
    else:
        if model is None:
            model = (ctx.lean.batch([f"C20 fea {case['mode'] if case['mode'] else '<empty>'} {case['n']}"])[0], None)
        _case_fea(ctx, case, model[0])


# ------------------------------------------------------------------ observed route

def _gauss(z: complex, tol: float = 1e-12) -> str:
    """canonical text of a complex scalar: Gaussian integer `re,im` when it is one to `tol`"""
    re, im = round(z.real), round(z.imag)
    if abs(z - complex(re, im)) <= tol:
        return f"{re},{im}"
    return f"{z.real:.6g},{z.imag:.6g}"


def _coeff_of(G, H, divide_by=None, tol: float = 1e-12):
    """scalar c with G = c * H (Frobenius projection), None when G is not a multiple of H"""
    H = np.asarray(H, dtype=complex)
    G = np.asarray(G, dtype=complex)
    hh = np.vdot(H, H)
    if hh == 0:
        return None
    c = np.vdot(H, G) / hh
    if np.linalg.norm(G - c * H) > tol * np.linalg.norm(H) * max(1.0, abs(c)):
        return None
    if divide_by is not None:
        c = c / divide_by
    return c


def observed_route(events, case, H, psi, out):
    """Canonical route string of the implementation + the flat result the routine returned."""
    t, n = float(duration_of(case)), case["n"]
    # single-precision inputs: the generator the routine receives is a multiple of H to single precision only
    ctol = 1e-5 if (case.get("h_dtype") in ("f32", "c64") or case.get("t_type") == "np32") else 1e-12
    zero_h = not np.any(H)
    top = [e for e in events if e[0] in ("solve_ivp", "fast_exp_action")]
    low = [e for e in events if e[0] in ("expm", "eigsh", "expm_multiply", "expm_sparse")]
    notes = []
    flat = None
    coeff_known = True
    if len(top) != 1:
        return f"calls={[e[0] for e in top]}", None, True, notes
    name, rec = top[0]
    if name == "solve_ivp":
        method = rec["kwargs"].get("method", rec["args"][0] if rec["args"] else "RK45(default)")
        G = np.zeros((n, n), dtype=complex)
        for j in range(n):
            e = np.zeros(n, dtype=complex)
            e[j] = 1.0
            G[:, j] = rec["fun"](0.0, e)
        c = _coeff_of(G, H, tol=ctol)
        coeff = _gauss(c, ctol) if c is not None else "not-a-multiple-of-H"
        if zero_h:
            coeff_known = False
            coeff = "*" if not np.any(G) else "nonzero-generator-for-H=0"
        ts = tuple(float(x) for x in rec["t_span"])
        sol = rec["sol"]
        tu = "span" if ts == (0.0, float(t)) else f"span{ts}"
        te = rec["kwargs"].get("t_eval")
        if te is not None and [float(x) for x in te] != [float(t)]:
            tu += f"+t_eval{list(te)}"
        y0 = "complex" if np.iscomplexobj(rec["y0"]) else "asis"
        if not np.array_equal(rec["y0"], psi.flatten()):
            notes.append("y0 differs from psi.flatten()")
        if low:
            notes.append(f"unexpected low-level calls {[e[0] for e in low]}")
        # the column of the solution that belongs to the end of the span
        try:
            tt = np.asarray(sol.t, dtype=float)
            yy = np.asarray(sol.y)
            cols = [j for j in range(len(tt)) if tt[j] == float(t)]
            if cols and yy.ndim == 2:
                flat = yy[:, cols[-1]]
        except Exception:       # noqa: BLE001
            flat = None
        head = f"solve_ivp method={method}"
    else:
        mode_arg = rec["kwargs"].get("mode", rec["args"][0] if rec["args"] else "fastest(default)")
        E = rec["E"]
        if t != 0 and not zero_h:
            c = _coeff_of(E, H, divide_by=t, tol=ctol)
            coeff = _gauss(c, ctol) if c is not None else "not-a-multiple-of-H"
        else:
            coeff_known = False
            coeff = "*" if not np.any(E) else "nonzero-exponent-at-t=0-or-H=0"
        tu = "factor"
        y0 = "asis" if rec["v"].dtype == psi.dtype else f"cast:{rec['v'].dtype}"
        if not np.array_equal(rec["v"], psi.flatten()):
            notes.append("vector differs from psi.flatten()")
        names = []
        for nm, r in low:
            if nm == "eigsh":
                k = r["kwargs"].get("k", r["args"][0] if r["args"] else 6)
                names.append(f"eigsh:{k}")
                if not np.array_equal(r["A"], E):
                    notes.append("eigsh did not receive the exponent")
            elif nm == "expm_multiply":
                tr = r["kwargs"].get("traceA")
                if tr is None:
                    names.append("expm_multiply(no-traceA)")
                elif abs(tr - np.trace(E)) > 1e-12 * max(1.0, abs(np.trace(E))):
                    names.append("expm_multiply(wrong-traceA)")
                else:
                    names.append("expm_multiply")
                if not np.array_equal(r["A"], E) or not np.array_equal(r["B"], rec["v"]):
                    notes.append("expm_multiply did not receive (exponent, vector)")
            elif nm == "expm":
                names.append("expm")
                if not np.array_equal(r["A"], E):
                    notes.append("expm did not receive the exponent")
            else:
                names.append("expm_sparse")
                try:
                    if not np.array_equal(r["A"].toarray(), E):
                        notes.append("sparse expm did not receive the exponent")
                except Exception:   # noqa: BLE001
                    notes.append("sparse expm argument is not a sparse matrix")
        routine = "+".join(names) if names else "no-routine"
        ret = rec.get("ret")
        if ret is not None:
            flat = np.asarray(ret).reshape(-1) if np.asarray(ret).size == n else None
        head = f"fast_exp_action arg={mode_arg} routine={routine}"
    s = f"{head} coeff={coeff} time={tu} y0={y0} shape={shape_str(np.shape(out))}"
    return s, flat, coeff_known, notes


def _strip_coeff(s):
    parts = s.split(" ")
    return " ".join("coeff=*" if p.startswith("coeff=") else p for p in parts)


# ------------------------------------------------------------------ evolve case

def _call(time_evolve, TimeEvoMode, psi, H, t, forward, mode, form="pos", fwd_type=None):
    """form: pos (all positional) | kw (forward / mode by keyword) | allkw (every argument by keyword) |
    omit (arguments equal to their documented defaults forward=True, mode=TimeEvoMode.FASTEST are left out)."""
    fw = forward
    if fwd_type == "int":
        fw = 1 if forward else 0
    elif fwd_type == "npbool":
        fw = np.bool_(forward)
    m = TimeEvoMode(mode)
    with warnings.catch_warnings():
        warnings.simplefilter("ignore")
        if form == "pos":
            return time_evolve(psi, H, t, fw, m)
        if form == "kw":
            return time_evolve(psi, H, t, forward=fw, mode=m)
        if form == "allkw":
            return time_evolve(mode=m, forward=fw, time_difference=t, hamiltonian=H, psi=psi)
        if form == "omit":
            kw = {}
            if not forward:
                kw["forward"] = fw
            if mode != "fastest":
                kw["mode"] = m
            return time_evolve(psi, H, t, **kw)
        raise ValueError(form)


def _case_evolve(ctx, case, model_route, model_unravel):
    te, su, time_evolve, TimeEvoMode = _mods()
    mode, n, fwd, herm = case["mode"], case["n"], case["forward"], case["herm"]
    t = duration_of(case)
    form, fwd_type = case.get("call", "pos"), case.get("fwd_type")
    H, psi = build(case)
    psi0 = psi.copy()
    H0 = H.copy()
    shape = tuple(case["shape"])
    known = "F-C20" if (mode == "eigsh" and n >= 4) else None       # signature of the open finding
    default_route = (mode in ("fastest", "chebyshev") and len(shape) == 1 and not case.get("real_psi"))
    ctx.count(("evolve", mode, n, shape, herm, fwd, t > 0, bool(case.get("real_psi")), bool(case.get("real_h"))),
              nontrivial=not default_route, corr=True)
    ctx.tally("mode", mode)
    ctx.tally("dimension", n)
    ctx.tally("rank_of_psi", len(shape))
    ctx.tally("duration", "0" if t == 0 else ("<=0.1" if t <= 0.1 else ">0.1"))
    ctx.tally("matrix", ("hermitian" if herm else "general") + ("/real" if case.get("real_h") else "/complex"))
    ctx.tally("psi_dtype", "real" if case.get("real_psi") else "complex")
    ctx.tally("direction", "forward" if fwd else "backward")
    ctx.tally("call_form", form + ("" if form != "omit" else
                                   f" ({'forward ' if fwd else ''}{'mode' if mode == 'fastest' else ''})".replace(" )", ")")))
    ctx.tally("forward_type", fwd_type or "bool")
    ctx.tally("duration_type", case.get("t_type", "float"))
    ctx.tally("psi_element_type", case.get("psi_dtype") or ("real" if case.get("real_psi") else "complex"))
    ctx.tally("psi_flags", ("read-only" if case.get("psi_ro") else "writeable") + ("/zero" if case.get("zero_psi") else ""))
    ctx.tally("matrix_element_type", case.get("h_dtype") or ("real" if case.get("real_h") else "complex"))
    ctx.tally("matrix_layout", case.get("h_layout", "C"))
    ctx.tally("matrix_scale", case.get("hscale", "||H|| in [0.3, 1.5]"))
    ctx.tally("psi_magnitude_exponent", case.get("mag", 0))
    ctx.sample(case, 5)

    rec = Recorder()
    try:
        with rec:
            out = _call(time_evolve, TimeEvoMode, psi, H, t, fwd, mode, form, fwd_type)
    except Exception as e:          # noqa: BLE001
        ctx.tally("exception", f"{mode}:{type(e).__name__}")
        ctx.oracle_fail(case, f"time_evolve raised {type(e).__name__}: {str(e)[:160]} "
                              f"(mode={mode}, n={n}, t={t})", finding=known)
        return
    out = np.asarray(out)

    # ---------------- stage B: route and placement against the model
    impl_route, flat, coeff_known, notes = observed_route(rec.events, case, H, psi, out)
    want = model_route if coeff_known else _strip_coeff(model_route)
    got = impl_route if coeff_known else _strip_coeff(impl_route)
    if not coeff_known:
        ctx.boundary_skipped += 1          # t == 0: the scalar cannot be read off a zero exponent
    if got != want:
        ctx.corr_fail(case, f"route: impl `{impl_route}` model `{model_route}`")
    if notes:
        ctx.corr_fail(case, "route arguments: " + "; ".join(notes))
    if flat is not None and out.shape == shape:
        bad = []
        for k, s in enumerate(model_unravel):
            idx = parse_idx(s)
            a, b = out[idx], flat[k]
            if not (a == b or (np.isnan(a) and np.isnan(b))):
                bad.append((k, idx))
        if bad:
            ctx.corr_fail(case, f"placement: result{list(bad[0][1])} is not entry {bad[0][0]} of the routine's "
                                f"flat output (C order by the model), {len(bad)} entries misplaced")
    elif flat is None and out.shape == shape:
        ctx.corr_fail(case, "placement: the flat output of the routine could not be observed")

    # ---------------- stage C: oracle
    probs = []
    if not np.array_equal(psi, psi0) or not np.array_equal(H, H0):
        probs.append("inputs were modified in place")
    if out.shape != shape:
        ctx.oracle_fail(case, f"shape: result has shape {out.shape}, psi has {shape} (mode={mode})")
        return
    Hc = np.asarray(H, dtype=complex)
    tf = float(t)
    Uf, Ub = reference_propagators(Hc, tf, herm)
    if herm:                        # the two independent references agree (contract of eigh / own Taylor)
        Ut = taylor_expm(-1j * tf * Hc)
        if np.linalg.norm(Ut - Uf) <= 1e-11 * max(1.0, float(np.linalg.norm(Hc, 2)) * tf):
            ctx.hyp_validated += 1
        else:
            raise AssertionError("harness: eigh and Taylor references disagree")
    U, Uinv = (Uf, Ub) if fwd else (Ub, Uf)
    ref = (U @ psi.reshape(-1)).reshape(shape)
    npsi = float(np.linalg.norm(np.asarray(psi, dtype=complex)))     # in double precision also for single inputs
    nU, nUi = np.linalg.norm(U, 2), np.linalg.norm(Uinv, 2)
    tol = TOL[mode]
    if case.get("h_dtype") in ("f32", "c64"):
        tol = max(tol, 1e-5)        # the generator is formed in single precision
    err = np.linalg.norm(out - ref)
    scale = nU * npsi
    rel = err / scale if scale > 0 else err
    ctx.notes.setdefault("max_rel_err_over_tol", {})
    if known is None:
        prev = ctx.notes["max_rel_err_over_tol"].get(mode, 0.0)
        ctx.notes["max_rel_err_over_tol"][mode] = max(prev, float(rel / tol))
    if not np.all(np.isfinite(out)) or rel > tol:
        probs.append(f"value: ||out - exp({'-' if fwd else '+'}iHt)psi|| / (||U|| ||psi||) = {rel:.3e} > {tol:g}")
    else:
        ctx.hyp_validated += 1      # contract of the selected routine held on this live call
    if t == 0 and not np.allclose(out, psi, rtol=0, atol=1e-12 * (npsi if case.get("mag") else max(1.0, npsi))):
        probs.append("zero duration does not return psi")
    if herm:
        dn = abs(np.linalg.norm(out) - npsi)
        if dn > tol * npsi:
            probs.append(f"norm: | ||out|| - ||psi|| | = {dn:.3e} > {tol:g} ||psi|| = {tol * npsi:.3e} for Hermitian H")
    # forward then backward (resp. backward then forward)
    try:
        back = np.asarray(_call(time_evolve, TimeEvoMode, out, H, t, not fwd, mode, form, fwd_type))
        if back.shape != shape:
            probs.append(f"round trip: shape {back.shape}")
        else:
            rt = np.linalg.norm(back - psi) / (nU * nUi * npsi) if npsi > 0 else np.linalg.norm(back - psi)
            if not np.all(np.isfinite(back)) or rt > 2 * tol:
                probs.append(f"round trip: ||backward(forward(psi)) - psi|| / (||U|| ||U^-1|| ||psi||) = {rt:.3e} > {2 * tol:g}")
    except Exception as e:          # noqa: BLE001
        probs.append(f"round trip raised {type(e).__name__}: {str(e)[:100]}")
    if probs:
        extra = "".join(f" {k}={case[k]}" for k in ("call", "fwd_type", "t_type", "psi_dtype", "psi_ro", "h_dtype",
                                                     "h_layout", "mag", "hscale", "zero_psi") if case.get(k))
        ctx.oracle_fail(case, f"mode={mode} n={n} shape={list(shape)} t={t} forward={fwd} herm={herm}{extra}: "
                        + "; ".join(probs[:4]), finding=known)


# ------------------------------------------------------------------ direct fast_exp_action case

def _case_fea(ctx, case, model_out):
    te, su, _, _ = _mods()
    mode, n = case["mode"], case["n"]
    nprng = np.random.default_rng(case["seed"])
    A = nprng.normal(size=(n, n)) + 1j * nprng.normal(size=(n, n))
    A = (A - A.conj().T) / 2                 # anti-Hermitian, as in time_evolve with Hermitian H
    nrm = np.linalg.norm(A, 2)
    E = A / nrm if nrm > 0 else A
    v = nprng.normal(size=n) + 1j * nprng.normal(size=n)
    vt = case.get("vec", "complex")
    if vt == "real":
        v = v.real.copy()
    elif vt == "int":
        v = nprng.integers(-3, 4, size=n)
    elif vt == "ro":
        v.flags.writeable = False
    known = "F-C20" if (mode == "eigsh" and n >= 4) else None
    ctx.count(("fea", mode, n, bool(case.get("omit_mode")), vt), nontrivial=mode not in ("fastest", "chebyshev") or
              bool(case.get("omit_mode")), corr=True)
    ctx.tally("fea_mode", (mode if mode else "<empty>") + (" (argument omitted)" if case.get("omit_mode") else ""))
    ctx.tally("fea_vector", vt)
    rec = Recorder()
    exc = None
    out = None
    try:
        with rec, warnings.catch_warnings():
            warnings.simplefilter("ignore")
            out = su.fast_exp_action(E, v) if case.get("omit_mode") else su.fast_exp_action(E, v, mode=mode)
    except NotImplementedError:
        exc = "NotImplementedError"
    except Exception as e:          # noqa: BLE001
        exc = type(e).__name__
        if known is None:
            ctx.oracle_fail(case, f"fast_exp_action(mode={mode!r}) raised {exc}: {str(e)[:120]}")
        else:
            ctx.oracle_fail(case, f"fast_exp_action(mode={mode!r}) raised {exc}: {str(e)[:120]}", finding=known)
        return
    low = [e for e in rec.events if e[0] in ("expm", "eigsh", "expm_multiply", "expm_sparse")]
    if exc:
        impl = exc
    elif not low:
        impl = "none"
    else:
        names = []
        for nm, r in low:
            if nm == "eigsh":
                names.append(f"eigsh:{r['kwargs'].get('k', r['args'][0] if r['args'] else 6)}")
            else:
                names.append(nm)
        impl = "+".join(names)
    want_model = model_out if mode else None
    if mode and impl != want_model:
        ctx.corr_fail(case, f"fast_exp_action route: impl `{impl}` model `{model_out}` (mode={mode!r}, n={n})")
    # oracle
    real_modes = ("fastest", "expm", "eigsh", "chebyshev", "sparse")
    if mode in real_modes:
        ref = taylor_expm(E) @ v
        o = np.asarray(out).reshape(-1)
        if o.shape != ref.shape or np.linalg.norm(o - ref) > 1e-9 * np.linalg.norm(v):
            ctx.oracle_fail(case, f"fast_exp_action(mode={mode!r}, n={n}) differs from exp(E) v by "
                                  f"{np.linalg.norm(o - ref) if o.shape == ref.shape else 'shape'}", finding=known)
    elif mode == "none":
        if exc or not np.array_equal(np.asarray(out), v):
            ctx.oracle_fail(case, "fast_exp_action(mode='none') does not return the vector unchanged")
    else:
        if exc != "NotImplementedError":
            ctx.oracle_fail(case, f"fast_exp_action(mode={mode!r}) did not raise NotImplementedError (got {impl})")


def shrink(case):
    if case["kind"] == "enum":
        return
    if case["kind"] != "evolve":
        if case["n"] > 1:
            yield dict(case, n=case["n"] - 1)
        return
    n = case["n"]
    for k in ("call", "fwd_type", "t_type", "psi_dtype", "psi_ro", "h_dtype", "h_layout", "mag", "hscale", "zero_psi"):
        if case.get(k):
            yield {kk: vv for kk, vv in case.items() if kk != k}
    if len(case["shape"]) != 1:
        yield dict(case, shape=[n])
    for m in (n // 2, n - 1):
        if 1 <= m < n:
            yield dict(case, n=m, shape=[m])
    if any(d == 1 for d in case["shape"]) and len(case["shape"]) > 1:
        yield dict(case, shape=[d for d in case["shape"] if d != 1] or [1])
    if case.get("real_psi"):
        yield dict(case, real_psi=False)
    if case.get("real_h"):
        yield dict(case, real_h=False)
    if case["t"] not in (0.0, 0.5, 1.0):
        yield dict(case, t=1.0)
        yield dict(case, t=0.5)
    if not case["herm"]:
        yield dict(case, herm=True)
    if case["hnorm"] != 1.0:
        yield dict(case, hnorm=1.0)
