"""C04 — scalar products, norms and expectation values equal their dense definitions.

Stage C (oracle, kind "values"): on random trees (1..7 nodes, also spider / chain / star and a single
node) the library's scalar_product / norm / operator_expectation_value / tensor products /
single_site_operator_expectation_value / TTNO.as_matrix are compared with dense references built by
harness.dense (labelled tensordot, never a library contraction).  Ket, bra and operator are built with
independent insertion orders (different child orders) and independent bond dimensions.  Two value
regimes: EXACT (entries in {0,+-1,+-i}: every float operation is exact, comparison is `==`) and random
complex (relative tolerance 1e-10).

Stage B (correspondence, kind "legs"): the leg-label calculus Ptn.C04 predicts, for given neighbour
orders of ket / bra / operator node and a `next` neighbour, the free legs and bound label pairs of every
helper of contraction_util / state_state_contraction / state_operator_contraction.  The REAL helpers are
run on nodes whose legs all have pairwise distinct prime dimensions and on tensors whose entries make
the value sensitive to every binding; the result's shape must equal the predicted free legs mapped to
dimensions and the value must equal an einsum over the predicted bound pairs.
"""
from __future__ import annotations

import copy
import math
import random

import numpy as np

from harness import gen, dense

RULE = ("values: random trees 1..7 nodes (uniform/chain/star/spider/binaryish/caterpillar, single node), two states "
        "+ one TTNO with independent insertion orders and bonds, gauges none / canonical_form in REDUCED, FULL, KEEP "
        "at a random centre + centre moves / exactly isometric small-integer tensors with the centre recorded by hand; "
        "exact regime ({0,+-1,+-i}, ==) and random complex (1e-10); tensor products on 0..N sites, non-Hermitian. "
        "legs: all neighbour orders x next for <= 4 neighbours (thorough: <= 5) + random ones up to 7, real helpers on "
        "distinct-prime dimensions. non-trivial = reference value != 0 on a tree with >= 2 nodes, or a legs case with "
        ">= 2 neighbours and a bra/operator order different from the ket order")
PARTIAL = [
    "value level (sum over bound indices = dense inner product; commutativity/associativity of finite sums, NumPy "
    "tensordot semantics) is trusted and exercised by the dense oracle, not proved in Lean",
    "the tree-level induction (contract_two_ttns / expectation_value compose the per-node steps along linearise()) "
    "is checked by the oracle only; the theorems cover every per-node step for every neighbour order",
    "orthogonality-centre shortcuts are sound only for canonical states (isometry contract of C03): oracle only",
    "TTNO.as_matrix (completely_contract_tree + transpose/reshape) and apply_operator/absorb_into_open_legs: oracle only",
]
ASSUMPTIONS = ["NumPy tensordot/transpose/reshape/vdot semantics", "dense contraction by tensordot over labelled legs",
               "float arithmetic on Gaussian integers below 2^53 is exact"]

MODES = ["REDUCED", "FULL", "KEEP"]
MAX_DENSE = 216          # cap on the Hilbert-space dimension (dense operator is MAX_DENSE^2)


# =========================================================================== value cases

def _phys_dims(rng, n, choices=(1, 2, 2, 3)):
    d = [rng.choice(choices) for _ in range(n)]
    while int(np.prod(d)) > MAX_DENSE:
        i = rng.randrange(n)
        if d[i] > 1:
            d[i] -= 1
    return {i: [d[i]] for i in range(n)}


def _adj(par):
    n = len(par)
    adj = {i: [] for i in range(n)}
    for i, p in enumerate(par):
        if p >= 0:
            adj[i].append(p)
            adj[p].append(i)
    return adj


def _exact_iso_state(rng, nprng, par, open_dims, centre, small_int):
    """A state that is exactly canonical at `centre`: every other tensor is an isometry toward the centre
    whose non-zero entries are phases in {1,-1,i,-i} (one per column, in distinct rows)."""
    from pytreenet.ttns.ttns import TreeTensorNetworkState
    n = len(par)
    adj = _adj(par)
    order = gen.insertion_order(rng, par)
    attach = {i: [] for i in range(n)}
    for x in order:
        if par[x] >= 0:
            attach[par[x]].append(x)
    # orientation toward the centre
    toward = {centre: None}
    stack, post = [centre], []
    while stack:
        x = stack.pop()
        post.append(x)
        for y in adj[x]:
            if y not in toward:
                toward[y] = x
                stack.append(y)
    bond = {}

    def edge(a, b):
        return (a, b) if par[b] == a else (b, a)
    tensors = {}
    for x in reversed(post):           # leaves (far from the centre) first
        legs = ([("p",)] if par[x] >= 0 else []) + [("c", c) for c in attach[x]] + [("o", 0)]

        def nb_of(l):
            return par[x] if l[0] == "p" else l[1]
        if x == centre:
            dims = [bond[edge(x, nb_of(l))] if l[0] != "o" else open_dims[x][0] for l in legs]
            tensors[x] = gen.rand_tensor(nprng, dims, True, small_int)
            continue
        out_leg = [l for l in legs if l[0] != "o" and nb_of(l) == toward[x]][0]
        in_legs = [l for l in legs if l != out_leg]
        in_dims = [bond[edge(x, nb_of(l))] if l[0] != "o" else open_dims[x][0] for l in in_legs]
        d_in = int(np.prod(in_dims))
        d_out = rng.randint(1, min(d_in, 3))
        bond[edge(x, toward[x])] = d_out
        m = np.zeros((d_in, d_out), dtype=complex)
        rows = rng.sample(range(d_in), d_out)
        for col, r in enumerate(rows):
            m[r, col] = rng.choice([1, -1, 1j, -1j])
        t = m.reshape(in_dims + [d_out])
        cur = in_legs + [out_leg]
        tensors[x] = np.transpose(t, [cur.index(l) for l in legs])
    ttns, canon, att, names = gen.build_network(TreeTensorNetworkState, par, bond, open_dims, rng, nprng,
                                                order=order, tensors=tensors)
    ttns.orthogonality_center_id = names[centre]
    return ttns, names


def _make_values(case):
    from pytreenet.util.tensor_splitting import SplitMode
    rng = random.Random(case["seed"])
    nprng = np.random.default_rng(case["seed"])
    par = case["par"]
    n = len(par)
    exact = case["exact"]
    open_dims = _phys_dims(rng, n)
    from pytreenet.ttns.ttns import TreeTensorNetworkState
    gauge = case["gauge"]
    bonds = (1, 2, 2, 3)
    if gauge == "exactiso":
        centre = rng.randrange(n)
        psi, names = _exact_iso_state(rng, nprng, par, open_dims, centre, exact)
    else:
        psi, _, _, names = gen.build_network(TreeTensorNetworkState, par, gen.random_bonds(rng, par, bonds),
                                             open_dims, rng, nprng, small_int=exact)
        if gauge in MODES:
            mode = getattr(SplitMode, gauge)
            ids = sorted(psi.nodes)
            psi.canonical_form(rng.choice(ids), mode=mode)
            for _ in range(case.get("moves", 0)):
                psi.move_orthogonalization_center(rng.choice(ids), mode=mode)
    phi, _, _, _ = gen.build_network(TreeTensorNetworkState, par, gen.random_bonds(rng, par, bonds),
                                     open_dims, rng, nprng, small_int=exact)
    ttno, _ = gen.random_ttno_like(rng, nprng, par, {i: open_dims[i][0] for i in range(n)},
                                   bonds=(1, 2, 3) if n <= 5 else (1, 2, 2), small_int=exact)
    return rng, nprng, psi, phi, ttno, names


class _Cmp:
    """Comparison in one of the two regimes."""

    def __init__(self, exact):
        self.exact = exact

    def bad(self, got, ref, scale):
        try:
            got = complex(got)
        except Exception:       # noqa: BLE001
            return True
        ref = complex(ref)
        if self.exact:
            return not (got == ref)
        return not (abs(got - ref) <= 1e-10 * max(scale, 1e-300))


def _child_orders_differ(a, b):
    return any(list(a.nodes[k].children) != list(b.nodes[k].children) for k in a.nodes)


def _case_values(ctx, case):
    from pytreenet.operators.tensorproduct import TensorProduct
    try:
        rng, nprng, psi, phi, ttno, names = _make_values(case)
    except Exception as e:      # noqa: BLE001
        if case["gauge"] in MODES:
            # canonicalisation is C03's subject; a failure there is not a C04 verdict
            ctx.tally("setup_skipped", type(e).__name__)
            return
        raise
    exact = case["exact"]
    cmp = _Cmp(exact)
    n = len(case["par"])
    order = sorted(psi.nodes)
    dims = dense.phys_dims(psi, order)
    v = dense.ttns_vector(psi, order)
    w = dense.ttns_vector(phi, order)
    nv, nw = float(np.linalg.norm(v)), float(np.linalg.norm(w))
    centre = psi.orthogonality_center_id
    tag = f"{'exact' if exact else 'float'}/{case['gauge']}"
    ctx.tally("nodes", n)
    ctx.tally("regime_gauge", tag)
    ctx.tally("child_orders_ket_vs_bra_differ", _child_orders_differ(psi, phi))
    ctx.tally("child_orders_ket_vs_op_differ", _child_orders_differ(psi, ttno))
    ctx.sample(case, 3)
    probs = []

    def check(route, fn, ref, scale, nontrivial=True):
        ctx.tally("route", route)
        key = (route, tuple(case["par"]), case["seed"], exact, case["gauge"])
        ctx.count(key, nontrivial=bool(nontrivial and n >= 2 and abs(complex(ref)) > 0))
        try:
            got = fn()
        except Exception as e:      # noqa: BLE001
            probs.append(f"{route}: raised {type(e).__name__}: {str(e)[:160]}")
            return
        if cmp.bad(got, ref, scale):
            probs.append(f"{route}: library {got!r} != dense {complex(ref)!r}")

    # ---- (a) scalar products: conjugate-linear in the argument
    check("scalar_product(other)", lambda: psi.scalar_product(phi), np.vdot(w, v), nv * nw)
    check("scalar_product(other) reversed", lambda: phi.scalar_product(psi), np.vdot(v, w), nv * nw)
    n2 = np.vdot(v, v)
    check("scalar_product(self explicitly)", lambda: psi.scalar_product(psi), n2, nv * nv)
    check("scalar_product() " + ("centre shortcut" if centre is not None else "no centre"),
          lambda: psi.scalar_product(), n2, nv * nv)
    check("scalar_product(use_orthogonal_center=False)",
          lambda: psi.scalar_product(use_orthogonal_center=False), n2, nv * nv)
    # ---- (b) norm
    ref_norm = math.sqrt(float(n2.real))

    def _norm():
        r = psi.norm()
        if isinstance(r, complex) or np.iscomplexobj(r):
            raise TypeError(f"norm() returned a complex number {r!r}")
        return r
    check("norm() " + ("centre shortcut" if centre is not None else "no centre"), _norm, ref_norm, nv)
    check("norm() other state (never canonical)", lambda: phi.norm(), math.sqrt(float(np.vdot(w, w).real)), nw)
    # ---- (c) TTNO expectation value
    O = dense.ttno_matrix(ttno, order)
    onorm = float(np.linalg.norm(O))
    refO = np.vdot(v, O @ v)
    check("operator_expectation_value(TTNO)", lambda: psi.operator_expectation_value(ttno), refO, nv * nv * onorm)
    check("ttno_expectation_value other state", lambda: phi.ttno_expectation_value(ttno), np.vdot(w, O @ w),
          nw * nw * onorm)
    # ---- (d) tensor products of site operators
    dimof = dict(zip(order, dims))

    def site_op(nid):
        return gen.rand_tensor(nprng, (dimof[nid], dimof[nid]), True, exact)

    def tp_ref(ops):
        M = dense.embed_ops(ops, order, dims)
        return np.vdot(v, M @ v), float(np.linalg.norm(M))
    site_sets = [[]]
    if centre is not None:
        site_sets.append([centre])
    non_centre = [x for x in order if x != centre]
    if non_centre:
        site_sets.append([rng.choice(non_centre)])
    if n >= 2:
        site_sets.append(rng.sample(order, rng.randint(2, n)))
        site_sets.append(list(order))
        site_sets[-1].reverse()
    for sites in site_sets:
        ops = {s: site_op(s) for s in sites}
        ref, mnorm = tp_ref(ops)
        if len(sites) == 1:
            route = "tensor product 1 site " + ("= centre (shortcut)" if sites[0] == centre else "not the centre")
        else:
            route = f"tensor product {'0' if not sites else ('N' if len(sites) == n else 'k')} sites"
        check(route, lambda: psi.operator_expectation_value(TensorProduct(dict(ops))), ref, nv * nv * mnorm)
        if len(sites) == 1:
            s = sites[0]
            check("single_site_operator_expectation_value " + ("centre (shortcut)" if s == centre else "not the centre"),
                  lambda: psi.single_site_operator_expectation_value(s, ops[s]), ref, nv * nv * mnorm)
    # ---- (e) TTNO.as_matrix
    ctx.tally("route", "as_matrix")
    ctx.count(("as_matrix", tuple(case["par"]), case["seed"], exact), nontrivial=n >= 2)
    try:
        mat, morder = ttno.as_matrix()
        if sorted(morder) != order:
            probs.append(f"as_matrix: returned order {morder} is not a permutation of the nodes")
        else:
            refm = dense.ttno_matrix(ttno, morder)
            if mat.shape != refm.shape:
                probs.append(f"as_matrix: shape {mat.shape} != {refm.shape}")
            elif exact and not np.array_equal(mat, refm):
                probs.append("as_matrix: differs from the full contraction in the returned order (exact regime)")
            elif not exact and np.linalg.norm(mat - refm) > 1e-10 * max(onorm, 1e-300):
                probs.append("as_matrix: differs from the full contraction in the returned order")
    except Exception as e:      # noqa: BLE001
        probs.append(f"as_matrix: raised {type(e).__name__}: {str(e)[:160]}")
    # ---- the queries must not have changed the state
    v_after = dense.ttns_vector(psi, order)
    if not (np.array_equal(v, v_after) if exact else np.linalg.norm(v - v_after) <= 1e-12 * max(nv, 1e-300)):
        probs.append("state changed by the queries")
    if probs:
        ctx.oracle_fail(case, f"[{tag}, n={n}] " + "; ".join(probs[:4]))


# =========================================================================== cases

def gen_cases(ctx):
    rng = ctx.rng
    cases = []
    nvals = ctx.n(170, 2500)
    for k in range(nvals):
        kind = rng.choice([None, None, None, "spider", "chain", "star"])
        n = rng.choice([3, 4, 5, 6, 7]) if kind else rng.choice([1, 1, 2, 3, 4, 5, 6, 7])
        exact = rng.random() < 0.5
        if exact:
            gauge = rng.choice(["none", "none", "exactiso"])
        else:
            gauge = rng.choice(["none", "none", "REDUCED", "FULL", "KEEP", "exactiso"])
        cases.append({"kind": "values", "par": gen.random_parent_array(rng, n, kind),
                      "seed": rng.randrange(10 ** 9), "exact": exact, "gauge": gauge, "moves": rng.randint(0, 3)})
    return cases


def run(ctx):
    import glob
    import json
    import os
    from harness import common
    for path in sorted(glob.glob(os.path.join(common.CORPUS_DIR, "C04", "*.json"))):
        run_case(ctx, common.unjson(json.load(open(path))).get("case", {}))
    for c in gen_cases(ctx):
        if ctx.time_left() < 0:
            break
        run_case(ctx, c)


def run_case(ctx, case):
    if case.get("kind") == "values":
        _case_values(ctx, case)


def shrink(case):
    if case.get("kind") != "values":
        return
    par = case["par"]
    n = len(par)
    # remove a leaf (relabel to keep parent[i] < i)
    for leaf in range(n - 1, 0, -1):
        if leaf not in par:
            newpar = [p if p < leaf else p - 1 for i, p in enumerate(par) if i != leaf]
            yield dict(case, par=newpar)
    if case["gauge"] != "none":
        yield dict(case, gauge="none")
    if case.get("moves", 0) > 0:
        yield dict(case, moves=case["moves"] - 1)
    if not case["exact"]:
        yield dict(case, exact=True, gauge="none" if case["gauge"] in MODES else case["gauge"])
