"""C04 — scalar products, norms and expectation values equal their dense definitions.

Stage C (oracle, kind "values"): on random trees (1..7 nodes, also spider / chain / star and a single
node) the library's scalar_product / norm / operator_expectation_value / tensor products /
single_site_operator_expectation_value / TTNO.as_matrix are compared with dense references built by
harness.dense (labelled tensordot, never a library contraction).  Ket, bra and operator are built with
independent insertion orders (different child orders) and independent bond dimensions.  Two value
regimes: EXACT (entries in {0,+-1,+-i}: every float operation is exact, comparison is `==`) and random
complex (relative tolerance 1e-10).

Stage B (correspondence, kind "legs"): the leg-label calculus Ptn.C04 predicts, for given neighbour
orders of ket / bra / operator node and a `next` neighbour, the free legs and bound label pairs of every
helper of contraction_util / state_state_contraction / state_operator_contraction.  The REAL helpers are
run on nodes whose legs all have pairwise distinct prime dimensions and on tensors whose entries make
the value sensitive to every binding; the result's shape must equal the predicted free legs mapped to
dimensions and the value must equal an einsum over the predicted bound pairs.
Kind "tree": the tree-level model (loop over linearise() + block dictionary + root step) returns the GLOBAL
binding list of contract_two_ttns / expectation_value / as_matrix for a random tree with independent child
orders; the library's scalar (matrix, node order) on networks whose edge and physical legs have distinct
dimensions must equal the einsum over that binding list.
"""
from __future__ import annotations

import copy
import math
import random

import numpy as np

from harness import gen, dense

RULE = ("centre: trees 1..6 nodes, every centre, exactly canonical integer states (signed-permutation isometries), "
        "integer operator on the centre and on a random node: shortcut vs full values vs Lean einrec; "
        "values: random trees 1..7 nodes (uniform/chain/star/spider/binaryish/caterpillar, single node), two states "
        "+ one TTNO with independent insertion orders and bonds, gauges none / canonical_form in REDUCED, FULL, KEEP "
        "at a random centre + centre moves / exactly isometric small-integer tensors with the centre recorded by hand; "
        "exact regime ({0,+-1,+-i}, ==) and random complex (1e-10); tensor products on 0..N sites, non-Hermitian. "
        "legs: all neighbour orders x next for <= 4 neighbours (thorough: <= 5) + random ones up to 7, real helpers on "
        "distinct-prime dimensions. non-trivial = reference value != 0 on a tree with >= 2 nodes, or a legs case with "
        ">= 2 neighbours and a bra/operator order different from the ket order. "
        "input-space audit axes (values): element type (real float64 / int64 / complex64 / read-only strided views, "
        "mixed with a complex bra), identifier schemes with prefixes and _ket/_bra substrings, histories of public "
        "mutators before the queries (normalise, apply_operator, absorb_into_open_legs, centre moves, "
        "re-canonicalisation, repeated queries), magnitudes 1e-8..1e+8 also on canonical states and on the operator; "
        "get_equivalent_legs with ignore_legs as None / omitted / str on identifiers that are substrings of each other; "
        "nb1: contract_neighbour_block_to_ket/_to_hamiltonian directly with the default and an explicit leg; "
        "single: single_node_expectation_value with and without the optional bra")
PARTIAL = [
    "value level: contract_two_ttns_value proves (all trees, child orders, semirings, dimensions, tensor values) that the "
    "loop's own tensordot sequence evaluates to the dense inner product, expectation_value_loop_value the same for "
    "<psi|O|psi> (given equal dimensions on both legs of every pair), as_matrix_value_partial for the dense operator "
    "(contract_nodes modelled by _data_contraction); that Ptn.Ein.sumPairs / Expr.eval are what "
    "numpy.tensordot computes is checked per run on integer tensors (ein, einrec, _model_value incl. the node-level "
    "helpers any/root/opany/oproot), not proved",
    "orthogonality-centre shortcuts (scalar_product, norm, single-site and one-site tensor product on the centre): "
    "centre_shortcut_value / centre_operator_value prove them equal to the full contraction GIVEN the index-form "
    "canonicity Centre.Canon (the isometry contract, established by C03 canonical_form_centre_norm); the link from the "
    "C04 tree labels (gKet/gBra) to the Centre/Kids structure of Ptn/Common/EinsumIso.lean is proved for scalar_product "
    "and EVERY centre (scalar_product_centre_shortcut: the loop runs on the tree as rooted, the centre is the root of any "
    "re-rooting `Rerooted`, reroot_exists: every node has one; every expression the loop's output is built from "
    "evaluates to the centre-only contraction, given the per-edge index-form isometry IsoKids toward the centre and "
    "equal dimensions at both ends of every bond); for the operator sandwich (single-site shortcut, expectation_value "
    "loop) the theorem centre_operator_value still quantifies over every program with the "
    "sandwich record; stream `centre` compares the library's shortcut and "
    "full values with the Lean model's evaluation on exactly canonical integer states; the shortcut's leg bookkeeping "
    "(centreScalarProduct / centreSingleSite) is modelled but not served by the driver",
    "TTNO.as_matrix: as_matrix_graph_partial takes contract_nodes by its _data_contraction tensordot (= documented "
    "leg order when the child has no children left); the lazily stored leg permutation (C02) is not modelled",
    "apply_operator/absorb_into_open_legs: absorb_into_open_legs_legs (labels), apply_operator_node_value (value), "
    "apply_operator_orth_centre (recorded centre) proved; the model absorbIntoOpenLegs is not served by the driver: the "
    "library's new state is compared with the Lean evaluation of the network with the operator bound (stream `centre`); "
    "conjugate(): conjugate_value proved for every ring homomorphism, structure equality by oracle; deepcopy in "
    "tensor_product_expectation_value: oracle only",
]
ASSUMPTIONS = ["NumPy tensordot/transpose/reshape/vdot semantics", "dense contraction by tensordot over labelled legs",
               "float arithmetic on Gaussian integers below 2^53 is exact"]

# ---------------------------------------------------------------------------------------------------------------------
# PENDING FINDINGS (input-space audit).  Behaviour of the UNCHANGED /repo that violates the property on inputs the
# audit added; reported to the coordinator, not yet repaired in /repo nor recorded in known_findings.json.  While an
# entry is present the named routes are not judged on the named inputs (they are tallied under `pending_finding`);
# delete the entry to arm the check.
PENDING_FINDINGS = {
    "P-C04-norm-single": {
        "inputs": "a state with complex64 (single precision) tensors and no orthogonality centre recorded, e.g. two "
                  "nodes a(3,2)-b(3,2) with random complex64 entries (notes/C04.md, 'Input-space audit', script)",
        "message": "norm(): raised AssertionError (ttns.py: `assert abs(scal_prod.imag) <= 1e-10 * max(1.0, "
                   "abs(scal_prod.real))`; the imaginary part of <psi|psi> is single-precision round-off, ~1e-7 relative)",
        "disabled": "routes 'norm() ...' and the history operations query / normalise (both call norm()) with "
                    "dtype == 'single' when the call raises AssertionError",
    },
}
# ---------------------------------------------------------------------------------------------------------------------

MODES = ["REDUCED", "FULL", "KEEP"]
MAX_DENSE = 216          # cap on the Hilbert-space dimension (dense operator is MAX_DENSE^2)


# =========================================================================== value cases

def _phys_dims(rng, n, choices=(1, 2, 2, 3)):
    d = [rng.choice(choices) for _ in range(n)]
    while int(np.prod(d)) > MAX_DENSE:
        i = rng.randrange(n)
        if d[i] > 1:
            d[i] -= 1
    return {i: [d[i]] for i in range(n)}


def _adj(par):
    n = len(par)
    adj = {i: [] for i in range(n)}
    for i, p in enumerate(par):
        if p >= 0:
            adj[i].append(p)
            adj[p].append(i)
    return adj


def _exact_iso_state(rng, nprng, par, open_dims, centre, small_int, names=None, phases=(1, -1, 1j, -1j)):
    """A state that is exactly canonical at `centre`: every other tensor is an isometry toward the centre
    whose non-zero entries are phases in {1,-1,i,-i} (one per column, in distinct rows)."""
    from pytreenet.ttns.ttns import TreeTensorNetworkState
    n = len(par)
    adj = _adj(par)
    order = gen.insertion_order(rng, par)
    attach = {i: [] for i in range(n)}
    for x in order:
        if par[x] >= 0:
            attach[par[x]].append(x)
    # orientation toward the centre
    toward = {centre: None}
    stack, post = [centre], []
    while stack:
        x = stack.pop()
        post.append(x)
        for y in adj[x]:
            if y not in toward:
                toward[y] = x
                stack.append(y)
    bond = {}

    def edge(a, b):
        return (a, b) if par[b] == a else (b, a)
    tensors = {}
    for x in reversed(post):           # leaves (far from the centre) first
        legs = ([("p",)] if par[x] >= 0 else []) + [("c", c) for c in attach[x]] + [("o", 0)]

        def nb_of(l):
            return par[x] if l[0] == "p" else l[1]
        if x == centre:
            dims = [bond[edge(x, nb_of(l))] if l[0] != "o" else open_dims[x][0] for l in legs]
            tensors[x] = gen.rand_tensor(nprng, dims, True, small_int)
            continue
        out_leg = [l for l in legs if l[0] != "o" and nb_of(l) == toward[x]][0]
        in_legs = [l for l in legs if l != out_leg]
        in_dims = [bond[edge(x, nb_of(l))] if l[0] != "o" else open_dims[x][0] for l in in_legs]
        d_in = int(np.prod(in_dims))
        d_out = rng.randint(1, min(d_in, 3))
        bond[edge(x, toward[x])] = d_out
        m = np.zeros((d_in, d_out), dtype=complex)
        rows = rng.sample(range(d_in), d_out)
        for col, r in enumerate(rows):
            m[r, col] = rng.choice(list(phases))
        t = m.reshape(in_dims + [d_out])
        cur = in_legs + [out_leg]
        tensors[x] = np.transpose(t, [cur.index(l) for l in legs])
    ttns, canon, att, names = gen.build_network(TreeTensorNetworkState, par, bond, open_dims, rng, nprng,
                                                order=order, tensors=tensors, names=names)
    ttns.orthogonality_center_id = names[centre]
    return ttns, names


# Identifier schemes (input-space audit): identifiers that are prefixes / substrings of each other and identifiers that
# contain the suffixes the density-operator code uses.  "default" = n0..n6 (never a prefix of another one).
NAME_SCHEMES = {
    "default": None,
    "prefix": ["n1", "n10", "n11", "n100", "n101", "n110", "n1000"],
    "suffix": ["s", "s_ket", "s_bra", "s_ket_bra", "ket", "bra_s", "s_"],
}
# Element types (input-space audit).  "c128" = complex128 everywhere (the default of the generators).
#   real   : ket and operator real float64 (built that way, lazy leg permutations kept), bra complex (mixed types)
#   int    : ket and operator int64 (exact regime only), bra complex
#   single : complex64 everywhere (tolerance widened to single precision)
#   view   : every tensor a READ-ONLY, non-contiguous strided view into a larger buffer
DTYPES = ["c128", "real", "int", "single", "view"]
SINGLE_TOL = 2e-4


def _names_of(case, n):
    pool = NAME_SCHEMES.get(case.get("names", "default"))
    return None if pool is None else {i: pool[i] for i in range(n)}


def _convert(ttn, how):
    for nid in list(ttn.nodes):
        t = np.asarray(ttn.tensors[nid])
        if how == "int":
            t2 = np.rint(t.real).astype(np.int64)
        elif how == "single":
            t2 = t.astype(np.complex64)
        elif how == "view":
            big = np.zeros(tuple(2 * s for s in t.shape), dtype=t.dtype)
            sl = tuple(slice(1, None, 2) for _ in t.shape)
            big[sl] = t
            t2 = big[sl] if t.ndim else big
            t2.flags.writeable = False
        else:
            raise ValueError(how)
        ttn.replace_tensor(nid, t2)


def _make_values(case):
    from pytreenet.util.tensor_splitting import SplitMode
    rng = random.Random(case["seed"])
    nprng = np.random.default_rng(case["seed"])
    par = case["par"]
    n = len(par)
    exact = case["exact"]
    open_dims = _phys_dims(rng, n)
    from pytreenet.ttns.ttns import TreeTensorNetworkState
    gauge = case["gauge"]
    dt = case.get("dtype", "c128")
    nm = _names_of(case, n)
    real = dt in ("real", "int")
    bonds = (1, 2, 2, 3)
    if gauge == "exactiso":
        centre = rng.randrange(n)
        psi, names = _exact_iso_state(rng, nprng, par, open_dims, centre, exact, names=nm)
    else:
        psi, _, _, names = gen.build_network(TreeTensorNetworkState, par, gen.random_bonds(rng, par, bonds),
                                             open_dims, rng, nprng, small_int=exact, names=nm, complex_=not real)
        if dt in ("int", "single", "view"):
            _convert(psi, dt)
        if gauge in MODES:
            mode = getattr(SplitMode, gauge)
            ids = sorted(psi.nodes)
            psi.canonical_form(rng.choice(ids), mode=mode)
            for _ in range(case.get("moves", 0)):
                psi.move_orthogonalization_center(rng.choice(ids), mode=mode)
    if gauge == "exactiso" and dt in ("single", "view"):
        _convert(psi, dt)               # phases are exact in complex64; the recorded centre stays valid
    phi, _, _, _ = gen.build_network(TreeTensorNetworkState, par, gen.random_bonds(rng, par, bonds),
                                     open_dims, rng, nprng, small_int=exact, names=nm)
    ttno, _ = gen.random_ttno_like(rng, nprng, par, {i: open_dims[i][0] for i in range(n)},
                                   bonds=(1, 2, 3) if n <= 5 else (1, 2, 2), small_int=exact, names=nm,
                                   complex_=not real)
    if dt in ("single", "view"):
        _convert(phi, dt)
    if dt in ("int", "single", "view"):
        _convert(ttno, dt)
    mag = case.get("mag", 0)
    if mag and not exact:
        # very large / very small unnormalised states: absolute tolerances inside the library are failing inputs.
        # phi is never canonical; a psi with a recorded centre is rescaled at the centre only (the gauge stays valid:
        # the shortcuts see the magnitude), otherwise on every tensor.
        for st in (phi, psi):
            c = st.orthogonality_center_id
            f = 10.0 ** (mag / (1 if c is not None else len(st.nodes)))
            for nid in ([c] if c is not None else list(st.nodes)):
                t = np.asarray(st.tensors[nid])
                st.replace_tensor(nid, (t * f).astype(t.dtype))
        if case.get("mag_op"):
            t = np.asarray(ttno.tensors[ttno.root_id])
            ttno.replace_tensor(ttno.root_id, (t * 10.0 ** case["mag_op"]).astype(t.dtype))
    return rng, nprng, psi, phi, ttno, names


def _apply_history(case, psi, rng, nprng, probs, ctx):
    """Public mutators interleaved before the queries (input-space audit: histories).  Every query afterwards is judged
    against the dense vector of the state AS IT IS NOW; the mutators' own documented effect is judged here."""
    from pytreenet.operators.tensorproduct import TensorProduct
    from pytreenet.util.tensor_splitting import SplitMode
    exact = case["exact"]
    order = sorted(psi.nodes)
    dims = dense.phys_dims(psi, order)
    dimof = dict(zip(order, dims))
    tol = SINGLE_TOL if case.get("dtype") == "single" else 1e-10
    for op in case.get("pre", []):
        if op not in ("normalise", "apply", "absorb", "move", "canon", "query"):
            raise ValueError(op)
        if exact and op not in ("apply", "absorb", "query"):
            continue                    # not exact in floating point (only reachable through the shrinker)
        v0 = np.array(dense.ttns_vector(psi, order))        # a copy: for a single node the vector is a view
        n0 = float(np.linalg.norm(v0))
        ctx.tally("history_op", op + ("/centre recorded" if psi.orthogonality_center_id is not None else "/no centre"))
        try:
            if op == "normalise":
                if n0 == 0:
                    continue
                r = psi.normalise()
                v1 = dense.ttns_vector(psi, order)
                if not abs(complex(r) - n0) <= tol * n0:
                    probs.append(f"history normalise(): returned {r!r}, dense norm before was {n0!r}")
                if not np.linalg.norm(v1 - v0 / n0) <= max(tol, 1e-9):
                    probs.append("history normalise(): the new vector is not the old one divided by its norm")
            elif op in ("apply", "absorb"):
                k = 1 if op == "absorb" else rng.randint(1, len(order))
                sites = rng.sample(order, k)
                ops = {s: gen.rand_tensor(nprng, (dimof[s], dimof[s]), True, exact) for s in sites}
                if op == "absorb":
                    psi.absorb_into_open_legs(sites[0], ops[sites[0]])
                else:
                    psi.apply_operator(TensorProduct(dict(ops)))
                M = dense.embed_ops(ops, order, dims)
                v1 = dense.ttns_vector(psi, order)
                ref = M @ v0
                bad = (not np.array_equal(v1, ref)) if exact else \
                    (np.linalg.norm(v1 - ref) > tol * max(float(np.linalg.norm(M)) * n0, 1e-300))
                if bad:
                    probs.append(f"history {op}: the new vector is not (operator x identities) applied to the old one")
            elif op == "move":
                if psi.orthogonality_center_id is not None:
                    psi.move_orthogonalization_center(rng.choice(order), mode=SplitMode.REDUCED)
            elif op == "canon":
                psi.canonical_form(rng.choice(order), mode=SplitMode.REDUCED)
            elif op == "query":
                psi.norm()
                psi.scalar_product()
        except Exception as e:      # noqa: BLE001
            if op in ("move", "canon"):
                ctx.tally("setup_skipped", "history " + type(e).__name__)   # C03's subject
                continue
            if ("P-C04-norm-single" in PENDING_FINDINGS and case.get("dtype") == "single"
                    and op in ("query", "normalise") and isinstance(e, AssertionError)):
                ctx.tally("pending_finding", "P-C04-norm-single")
                continue
            probs.append(f"history {op}: raised {type(e).__name__}: {str(e)[:120]}")


class _Cmp:
    """Comparison in one of the two regimes."""

    def __init__(self, exact, tol=1e-10):
        self.exact = exact
        self.tol = tol

    def bad(self, got, ref, scale):
        try:
            got = complex(got)
        except Exception:       # noqa: BLE001
            return True
        ref = complex(ref)
        if self.exact:
            return not (got == ref)
        return not (abs(got - ref) <= self.tol * max(scale, 1e-300))


def _child_orders_differ(a, b):
    return any(list(a.nodes[k].children) != list(b.nodes[k].children) for k in a.nodes)


def _case_values(ctx, case):
    from pytreenet.operators.tensorproduct import TensorProduct
    try:
        rng, nprng, psi, phi, ttno, names = _make_values(case)
    except Exception as e:      # noqa: BLE001
        if case["gauge"] in MODES:
            # canonicalisation is C03's subject; a failure there is not a C04 verdict
            ctx.tally("setup_skipped", type(e).__name__)
            return
        raise
    exact = case["exact"] and not case.get("near")      # perturbed / rescaled states are compared as floats
    dt = case.get("dtype", "c128")
    tol = SINGLE_TOL if dt == "single" else 1e-10
    cmp = _Cmp(exact, tol)
    n = len(case["par"])
    probs = []
    if case.get("near") == "copy":
        # the second state is a DIFFERENT object that is merely close to the first one (entrywise relative 1e-6):
        # <phi|psi> differs from <psi|psi> by about 1e-6, far above the comparison tolerance (round-4 seed C04-R4A:
        # `other == self` decided by numpy.allclose)
        import copy as _copy
        phi = _copy.deepcopy(psi)
        for nid in list(phi.nodes):
            t = np.asarray(phi.tensors[nid])
            phi.replace_tensor(nid, t * (1.0 + 1e-6 * nprng.standard_normal(t.shape)))
        phi.orthogonality_center_id = None      # the perturbed copy is not canonical any more (caller's bookkeeping)
    elif case.get("near") == "tiny":
        # two unrelated states whose entries are all below numpy.allclose's absolute tolerance
        for st in (psi, phi):
            for nid in list(st.nodes):
                st.replace_tensor(nid, np.asarray(st.tensors[nid]) * 1e-9)
    if case.get("pre"):
        _apply_history(case, psi, rng, nprng, probs, ctx)
    order = sorted(psi.nodes)
    dims = dense.phys_dims(psi, order)
    v = dense.ttns_vector(psi, order)
    w = dense.ttns_vector(phi, order)
    nv, nw = float(np.linalg.norm(v)), float(np.linalg.norm(w))
    centre = psi.orthogonality_center_id
    tag = f"{'exact' if exact else 'float'}/{case['gauge']}"
    ctx.tally("nodes", n)
    ctx.tally("regime_gauge", tag)
    ctx.tally("magnitude_exponent", f"{case.get('mag', 0)}" + ("/centre recorded" if centre is not None and
                                                                  case.get("mag", 0) else ""))
    ctx.tally("element_type", dt)
    ctx.tally("identifier_scheme", case.get("names", "default"))
    ctx.tally("history_length", len(case.get("pre", [])))
    ctx.tally("state_vector_is_zero", nv == 0)
    ctx.tally("child_orders_ket_vs_bra_differ", _child_orders_differ(psi, phi))
    ctx.tally("child_orders_ket_vs_op_differ", _child_orders_differ(psi, ttno))
    ctx.sample(case, 3)

    def check(route, fn, ref, scale, nontrivial=True):
        ctx.tally("route", route)
        key = (route, tuple(case["par"]), case["seed"], exact, case["gauge"])
        ctx.count(key, nontrivial=bool(nontrivial and n >= 2 and abs(complex(ref)) > 0))
        try:
            got = fn()
        except Exception as e:      # noqa: BLE001
            if ("P-C04-norm-single" in PENDING_FINDINGS and dt == "single" and route.startswith("norm()")
                    and isinstance(e, AssertionError)):
                ctx.tally("pending_finding", "P-C04-norm-single")
                return
            probs.append(f"{route}: raised {type(e).__name__}: {str(e)[:160]}")
            return
        if cmp.bad(got, ref, scale):
            probs.append(f"{route}: library {got!r} != dense {complex(ref)!r}")

    # ---- (a) scalar products: conjugate-linear in the argument
    check("scalar_product(other)", lambda: psi.scalar_product(phi), np.vdot(w, v), nv * nw)
    check("scalar_product(other) reversed", lambda: phi.scalar_product(psi), np.vdot(v, w), nv * nw)
    n2 = np.vdot(v, v)
    check("scalar_product(self explicitly)", lambda: psi.scalar_product(psi), n2, nv * nv)
    check("scalar_product() " + ("centre shortcut" if centre is not None else "no centre"),
          lambda: psi.scalar_product(), n2, nv * nv)
    check("scalar_product(use_orthogonal_center=False)",
          lambda: psi.scalar_product(use_orthogonal_center=False), n2, nv * nv)
    check("scalar_product(other, use_orthogonal_center=False)",
          lambda: psi.scalar_product(phi, use_orthogonal_center=False), np.vdot(w, v), nv * nw)
    # ---- (b) norm
    ref_norm = math.sqrt(float(n2.real))

    def _norm():
        r = psi.norm()
        if isinstance(r, complex) or np.iscomplexobj(r):
            raise TypeError(f"norm() returned a complex number {r!r}")
        return r
    check("norm() " + ("centre shortcut" if centre is not None else "no centre"), _norm, ref_norm, nv)
    check("norm() other state (never canonical)", lambda: phi.norm(), math.sqrt(float(np.vdot(w, w).real)), nw)
    # ---- (c) TTNO expectation value
    O = dense.ttno_matrix(ttno, order)
    onorm = float(np.linalg.norm(O))
    refO = np.vdot(v, O @ v)
    check("operator_expectation_value(TTNO)", lambda: psi.operator_expectation_value(ttno), refO, nv * nv * onorm)
    check("ttno_expectation_value other state", lambda: phi.ttno_expectation_value(ttno), np.vdot(w, O @ w),
          nw * nw * onorm)
    # ---- (d) tensor products of site operators
    dimof = dict(zip(order, dims))

    def site_op(nid):
        return gen.rand_tensor(nprng, (dimof[nid], dimof[nid]), True, exact)

    def tp_ref(ops):
        M = dense.embed_ops(ops, order, dims)
        return np.vdot(v, M @ v), float(np.linalg.norm(M))
    site_sets = [[]]
    if centre is not None:
        site_sets.append([centre])
    non_centre = [x for x in order if x != centre]
    if non_centre:
        site_sets.append([rng.choice(non_centre)])
    if n >= 2:
        site_sets.append(rng.sample(order, rng.randint(2, n)))
        site_sets.append(list(order))
        site_sets[-1].reverse()
    for sites in site_sets:
        ops = {s: site_op(s) for s in sites}
        ref, mnorm = tp_ref(ops)
        if len(sites) == 1:
            route = "tensor product 1 site " + ("= centre (shortcut)" if sites[0] == centre else "not the centre")
        else:
            route = f"tensor product {'0' if not sites else ('N' if len(sites) == n else 'k')} sites"
        check(route, lambda: psi.operator_expectation_value(TensorProduct(dict(ops))), ref, nv * nv * mnorm)
        if len(sites) == 1:
            s = sites[0]
            check("single_site_operator_expectation_value " + ("centre (shortcut)" if s == centre else "not the centre"),
                  lambda: psi.single_site_operator_expectation_value(s, ops[s]), ref, nv * nv * mnorm)
    # ---- (e) TTNO.as_matrix
    ctx.tally("route", "as_matrix")
    ctx.count(("as_matrix", tuple(case["par"]), case["seed"], exact), nontrivial=n >= 2)
    try:
        mat, morder = ttno.as_matrix()
        if sorted(morder) != order:
            probs.append(f"as_matrix: returned order {morder} is not a permutation of the nodes")
        else:
            refm = dense.ttno_matrix(ttno, morder)
            if mat.shape != refm.shape:
                probs.append(f"as_matrix: shape {mat.shape} != {refm.shape}")
            elif exact and not np.array_equal(mat, refm):
                probs.append("as_matrix: differs from the full contraction in the returned order (exact regime)")
            elif not exact and np.linalg.norm(mat - refm) > tol * max(onorm, 1e-300):
                probs.append("as_matrix: differs from the full contraction in the returned order")
            # repeated call on the same object, and the operator itself is left as it was
            mat2, morder2 = ttno.as_matrix()
            if list(morder2) != list(morder) or mat2.shape != mat.shape or not np.array_equal(mat2, mat):
                probs.append("as_matrix: a second call on the same TTNO returns something else")
            O_after = dense.ttno_matrix(ttno, order)
            if O_after.shape != O.shape or not np.array_equal(O_after, O):
                probs.append("as_matrix: the TTNO was changed by the call")
    except Exception as e:      # noqa: BLE001
        probs.append(f"as_matrix: raised {type(e).__name__}: {str(e)[:160]}")
    # ---- the queries must not have changed the state
    v_after = dense.ttns_vector(psi, order)
    if not (np.array_equal(v, v_after) if exact else np.linalg.norm(v - v_after) <= 1e-12 * max(nv, 1e-300)):
        probs.append("state changed by the queries")
    if probs:
        extra = "".join(f", {k}={case[k]}" for k in ("dtype", "names", "pre", "mag") if case.get(k))
        ctx.oracle_fail(case, f"[{tag}, n={n}{extra}] " + "; ".join(probs[:4]))


# =========================================================================== leg-calculus cases

def _node_tok(nd):
    p, ch = nd
    return f"{'-' if p is None else p}/{','.join(str(c) for c in ch) or '-'}"


def _nbrs(nd):
    p, ch = nd
    return ([] if p is None else [p]) + list(ch)


def _mk_node(ident, nd, ndim):
    from pytreenet.core.node import Node
    p, ch = nd
    node = Node(identifier=str(ident))
    if p is not None:
        node.add_parent(str(p))
    node.add_children([str(c) for c in ch])
    return node


def legs_line(case):
    fn = case["fn"]
    if fn == "detidx":
        return f"C04 detidx {_node_tok(case['ket'])} {case['nb']} {case['ign']}"
    if fn == "equiv":
        ign = ",".join(str(x) for x in case["ignore"]) or "-"
        return f"C04 equiv {_node_tok(case['ket'])} {_node_tok(case['bra'])} {ign} {case['off']}"
    if fn == "allbut":
        return f"C04 allbut {case['axis']} {case['three']} {_node_tok(case['ket'])} {case['next']}"
    if fn == "all":
        return f"C04 all {case['axis']} {case['three']} {_node_tok(case['ket'])}"
    if fn == "any":
        return f"C04 any {_node_tok(case['ket'])} {_node_tok(case['bra'])} {case['next']} {case['off']}"
    if fn == "root":
        return f"C04 root {_node_tok(case['ket'])} {_node_tok(case['bra'])}"
    if fn == "opany":
        return (f"C04 opany {_node_tok(case['ket'])} {_node_tok(case['op'])} {_node_tok(case['bra'])} {case['next']} "
                f"{case['offop']} {case['off']}")
    if fn == "oproot":
        return f"C04 oproot {_node_tok(case['ket'])} {_node_tok(case['op'])}"
    raise ValueError(fn)


class _Dims:
    """One dimension per label class; bound partners share the class."""

    def __init__(self, rng, distinct, small=False):
        self.rng = rng
        self.distinct = distinct
        self.small = small
        self.pool = list(range(2, 40))
        rng.shuffle(self.pool)
        self.pool.sort(key=lambda x: x // 4)      # small numbers first, shuffled inside groups
        self.d = {}

    def get(self, cls):
        if cls not in self.d:
            if self.small:
                self.d[cls] = self.rng.choice([1, 2, 2, 2])
            else:
                self.d[cls] = self.pool.pop(0) if self.distinct else self.rng.choice([1, 2, 2, 3])
        return self.d[cls]


def _run_legs_impl(case):
    """Run the real helper. Returns ('int', value) | ('tensor', array, operands) | ('error', text);
    operands: list of (array, labels)."""
    from pytreenet.contractions import contraction_util as cu
    from pytreenet.contractions import state_state_contraction as ss
    from pytreenet.contractions import state_operator_contraction as so
    from pytreenet.contractions.tree_cach_dict import PartialTreeCachDict
    fn = case["fn"]
    rng = random.Random(case["seed"])
    nprng = np.random.default_rng(case["seed"])
    off = case.get("off", 0)
    offop = case.get("offop", 0)
    me = 1000
    ket = case["ket"]
    knb = _nbrs(ket)
    ints = bool(case.get("ints"))      # small integer tensors, small dimensions: the Lean model evaluates them exactly
    dims = _Dims(rng, case.get("distinct", True), small=ints)
    square = fn == "oproot"

    def dk(n):
        return dims.get(("K", n))

    def db(n):          # n: ket-side identifier
        return dk(n) if square else dims.get(("B", n))

    def do(n):
        return dims.get(("O", n))
    d_in = dims.get("in")
    d_out = d_in if (square or fn in ("any", "root")) else dims.get("out")

    def rnd(shape):
        return gen.rand_tensor(nprng, shape, not ints, ints)
    ket_node = _mk_node(me, ket, len(knb) + 1)
    ket_t = rnd([dk(n) for n in knb] + [d_in])
    ket_node.link_tensor(ket_t)
    ket_op = (ket_t, [f"kN{n}" for n in knb] + ["kP"])
    try:
        if fn == "detidx":
            return ("int", cu.determine_index_with_ignored_leg(ket_node, str(case["nb"]), str(case["ign"])))
        if fn == "equiv":
            n2 = _mk_node(me, case["bra"], 0)
            trafo = (lambda s: str(int(s) + off)) if off else None
            ign = [str(x) for x in case["ignore"]]
            form = case.get("ignore_form", "list")      # how the documented Union[None, List[str], str] is passed
            if form == "list":
                l1, l2 = cu.get_equivalent_legs(ket_node, n2, ign, id_trafo=trafo)
            elif form == "str" and len(ign) == 1:
                l1, l2 = cu.get_equivalent_legs(ket_node, n2, ign[0], id_trafo=trafo)
            elif form == "none" and not ign:
                l1, l2 = cu.get_equivalent_legs(ket_node, n2, None, id_trafo=trafo)
            elif form == "omitted" and not ign:
                l1, l2 = (cu.get_equivalent_legs(ket_node, n2, id_trafo=trafo) if trafo else
                          cu.get_equivalent_legs(ket_node, n2))
            else:
                raise ValueError(f"ignore_form {form!r} with ignore {ign}")
            return ("int", (list(l1), list(l2)))
        three = bool(case.get("three", 0)) or fn in ("opany", "oproot")
        cache = PartialTreeCachDict()
        blocks = []
        nxt = case.get("next")
        for n in knb:
            if fn in ("allbut", "any", "opany") and n == nxt:
                continue
            if fn in ("any", "opany") and not ket[1]:
                continue            # a leaf: the dictionary is never consulted
            if three:
                b = rnd([dk(n), do(n), db(n)])
                labs = [f"BK{n}", f"BO{n}", f"BB{n}"]
            else:
                b = rnd([dk(n), db(n)])
                labs = [f"BK{n}", f"BB{n}"]
            cache.add_entry(str(n), str(me), b)
            blocks.append((b, labs))
        if fn in ("allbut", "all"):
            if case["axis"] == 0:
                ops = [ket_op] + blocks
                if fn == "allbut":
                    r = cu.contract_all_but_one_neighbour_block_to_ket(ket_t, ket_node, str(nxt), cache)
                else:
                    r = cu.contract_all_neighbour_blocks_to_ket(ket_t, ket_node, cache)
            else:       # the node is an operator node, blocks bound at axis 1
                op_t = rnd([do(n) for n in knb] + [d_out, d_in])
                ket_node.link_tensor(op_t)
                ops = [(op_t, [f"oN{n}" for n in knb] + ["oO", "oI"])] + blocks
                if fn == "allbut":
                    r = cu.contract_all_but_one_neighbour_block_to_hamiltonian(op_t, ket_node, str(nxt), cache)
                else:
                    r = cu.contract_all_neighbour_blocks_to_hamiltonian(op_t, ket_node, cache)
            return ("tensor", r, ops)
        # functions with a bra node
        bra = case.get("bra", ket)
        bnb = _nbrs(bra)
        bra_node = _mk_node(me + off if off else me, bra, len(bnb) + 1)

        def inv_b(x):       # bra-side identifier -> ket-side identifier (for the dimension class)
            return x - off
        bra_t = rnd([db(inv_b(x)) for x in bnb] + [d_out])
        bra_node.link_tensor(bra_t)
        bra_op = (bra_t, [f"bN{x}" for x in bnb] + ["bP"])
        trafo_b = (lambda s: str(int(s) + off)) if off else None
        if fn == "any":
            r = ss.contract_any_nodes(str(nxt), ket_node, bra_node, ket_t, bra_t, cache, id_trafo=trafo_b)
            return ("tensor", r, [ket_op, bra_op] + blocks)
        if fn == "root":
            r = ss.contract_node_with_environment_nodes(ket_node, ket_t, bra_node, bra_t, cache)
            return ("tensor", r, [ket_op, bra_op] + blocks)
        opn = case["op"]
        onb = _nbrs(opn)
        op_node = _mk_node(me + offop if offop else me, opn, len(onb) + 2)
        op_t = rnd([do(x - offop) for x in onb] + [d_out, d_in])
        op_node.link_tensor(op_t)
        op_op = (op_t, [f"oN{x}" for x in onb] + ["oO", "oI"])
        trafo_o = (lambda s: str(int(s) + offop)) if offop else None
        if fn == "opany":
            r = so.contract_any_node_environment_but_one(str(nxt), ket_node, ket_t, op_node, op_t, cache,
                                                         bra_node=bra_node, bra_tensor=bra_t,
                                                         id_trafo_op=trafo_o, id_trafo_bra=trafo_b)
            return ("tensor", r, [ket_op, op_op, bra_op] + blocks)
        if fn == "oproot":
            r = so.contract_node_with_environment(str(me), {str(me): (ket_node, ket_t)},
                                                  {str(me): (op_node, op_t)}, cache)
            bra_op = (ket_t.conj(), [f"bN{n}" for n in knb] + ["bP"])
            return ("tensor", r, [ket_op, op_op, bra_op] + blocks)
    except Exception as e:      # noqa: BLE001
        return ("error", f"{type(e).__name__}: {str(e)[:120]}")
    raise ValueError(fn)


def _einsum_from_model(model_out, operands):
    """Evaluate the model's answer: returns (array, None) or (None, problem)."""
    if " | " not in model_out or not model_out.startswith("legs"):
        return None, f"unparsable model answer {model_out!r}"
    lpart, bpart = model_out.split(" | ")
    legs = lpart.split()[1:]
    binds = [tuple(x.split("~")) for x in bpart.split()[1:]]
    all_labels = [l for _, labs in operands for l in labs]
    if len(set(all_labels)) != len(all_labels):
        return None, "harness: duplicate operand labels"
    used = list(legs) + [x for b in binds for x in b]
    if sorted(used) != sorted(all_labels):
        return None, f"model: free+bound legs {sorted(used)} are not exactly the operand legs {sorted(all_labels)}"
    sym = {}
    nxt = 0
    for a, b in binds:
        sym[a] = sym[b] = nxt
        nxt += 1
    for l in legs:
        sym[l] = nxt
        nxt += 1
    if nxt > 50:
        return None, "harness: too many indices"
    args = []
    for arr, labs in operands:
        args += [arr, [sym[l] for l in labs]]
    args.append([sym[l] for l in legs])
    try:
        return np.einsum(*args, optimize="greedy"), None
    except Exception as e:      # noqa: BLE001
        return None, f"model binding is not executable on these dimensions: {type(e).__name__}: {str(e)[:100]}"


def _case_legs(ctx, case, model_out=None):
    if model_out is None:
        model_out = ctx.lean.batch([legs_line(case)])[0]
    fn = case["fn"]
    res = _run_legs_impl(case)
    knb = _nbrs(case["ket"])
    differs = any(k in case and _nbrs(case[k]) != [x + case.get("off" if k == "bra" else "offop", 0) for x in knb]
                  for k in ("bra", "op"))
    ctx.tally("legs_fn", fn + ("/3-layer" if case.get("three") else "") + ("/ham" if case.get("axis") else ""))
    ctx.tally("legs_neighbours", len(knb))
    if fn == "equiv":
        ctx.tally("equiv_ignore_form", case.get("ignore_form", "list"))
        ids = [str(x) for x in knb]
        ctx.tally("equiv_ids_prefix_of_each_other", any(a != b and a in b for a in ids for b in ids))
    ctx.tally("legs_outcome", res[0])
    ctx.count(("legs", legs_line(case), case.get("distinct", True), case.get("ignore_form", "list")),
              nontrivial=len(knb) >= 2 and (differs or fn in ("allbut", "all", "detidx")), corr=True)
    if model_out == "bad-op":
        ctx.corr_fail(case, f"model rejects the request {legs_line(case)!r}")
        return
    if res[0] == "error":
        if model_out != "error":
            ctx.corr_fail(case, f"{fn}: library raised {res[1]} but the model answers [{model_out}]")
        return
    if model_out == "error":
        ctx.corr_fail(case, f"{fn}: model predicts an exception, library returned a result")
        return
    if res[0] == "int":
        if fn == "detidx":
            impl = str(res[1])
        else:
            impl = " | ".join(",".join(str(x) for x in l) or "-" for l in res[1])
        if impl != model_out:
            ctx.corr_fail(case, f"{fn}: library [{impl}] model [{model_out}]")
        return
    _, arr, operands = res
    ref, prob = _einsum_from_model(model_out, operands)
    if prob:
        ctx.corr_fail(case, f"{fn}: {prob}; model [{model_out}]")
        return
    arr = np.asarray(arr)
    if arr.shape != ref.shape:
        ctx.corr_fail(case, f"{fn}: library result shape {arr.shape} != predicted free legs {ref.shape} [{model_out}]")
        return
    scale = max(float(np.linalg.norm(ref)), 1e-300)
    if float(np.linalg.norm(arr - ref)) > 1e-9 * scale:
        ctx.corr_fail(case, f"{fn}: library value differs from the contraction over the predicted bound pairs "
                            f"[{model_out}]")
        return
    if case.get("ints") and fn in ("any", "root", "opany", "oproot"):
        # node-level helpers on integer tensors: the Lean model evaluates its own binding record (`netValue`) on the
        # library's operands; the library's (small) result tensor must be that table exactly, entry by entry
        _model_value(ctx, case, model_out, operands, [complex(x) for x in arr.reshape(-1)])


# ---- direct entry points judged by einsum alone (no model): one neighbour block, single-node expectation value

def _case_nb1(ctx, case):
    """contract_neighbour_block_to_ket / _to_hamiltonian called directly, with the documented default
    tensor_leg_to_neighbour=None (= the node's leg toward the neighbour) and with an explicit leg."""
    from pytreenet.contractions import contraction_util as cu
    from pytreenet.contractions.tree_cach_dict import PartialTreeCachDict
    rng = random.Random(case["seed"])
    nprng = np.random.default_rng(case["seed"])
    ket = (case["ket"][0], list(case["ket"][1]))
    knb = _nbrs(ket)
    m = len(knb)
    axis, leg, nb, d = case["axis"], case["leg"], case["nb"], case["dim"]
    node = _mk_node(1000, ket, 0)
    rest = [5, 7] if axis == 1 else [5]
    t = gen.rand_tensor(nprng, [d] * m + rest, True, False)      # every neighbour leg has the same dimension
    node.link_tensor(t)
    bshape = [11, 13, 17][:(3 if (axis == 1 or case.get("three")) else 2)]
    bshape[axis] = d
    block = gen.rand_tensor(nprng, bshape, True, False)
    cache = PartialTreeCachDict()
    cache.add_entry(str(nb), str(1000), block)
    for other in knb:                  # decoys: entries of the other neighbours must not be touched
        if other != nb:
            cache.add_entry(str(other), str(1000), gen.rand_tensor(nprng, bshape, True, False))
    fn = cu.contract_neighbour_block_to_hamiltonian if axis == 1 else cu.contract_neighbour_block_to_ket
    ctx.tally("nb1", f"{'hamiltonian' if axis else 'ket'}/leg {'default (None)' if leg is None else 'explicit'}")
    ctx.count(("nb1", tuple(knb), nb, axis, leg, case["seed"]), nontrivial=m >= 2)
    try:
        got = fn(t, node, str(nb), cache) if leg is None else fn(t, node, str(nb), cache, tensor_leg_to_neighbour=leg)
    except Exception as e:      # noqa: BLE001
        ctx.oracle_fail(case, f"nb1 {fn.__name__}: raised {type(e).__name__}: {str(e)[:120]}")
        return
    eff = knb.index(nb) if leg is None else leg
    ti = list(range(t.ndim))
    bi = [20 + k for k in range(block.ndim)]
    bi[axis] = eff
    out = [i for i in ti if i != eff] + [i for k, i in enumerate(bi) if k != axis]
    ref = np.einsum(t, ti, block, bi, out)
    got = np.asarray(got)
    if got.shape != ref.shape or np.linalg.norm(got - ref) > 1e-10 * max(float(np.linalg.norm(ref)), 1e-300):
        ctx.oracle_fail(case, f"nb1 {fn.__name__}(tensor_leg_to_neighbour={leg}): result is not the node tensor "
                              f"contracted over its leg {eff} (toward neighbour {nb}) with axis {axis} of the block, "
                              f"legs (tensor legs without it, block legs without that axis)")


def gen_nb1_cases(ctx):
    rng = ctx.subrng("nb1")
    cases = []
    for _ in range(ctx.n(120, 1200)):
        m = rng.randint(1, 5)
        ids = rng.sample(range(1, 40), m)
        ket = (ids[0], ids[1:]) if rng.random() < 0.5 else (None, ids)
        axis = rng.choice([0, 1])
        nb = rng.choice(ids)
        leg = None if rng.random() < 0.6 else rng.randrange(m)
        cases.append({"kind": "nb1", "ket": ket, "nb": nb, "axis": axis, "leg": leg, "dim": rng.choice([2, 3]),
                      "three": rng.randint(0, 1), "seed": rng.randrange(10 ** 9)})
    return cases


def _case_single(ctx, case):
    """single_node_expectation_value(node, ket, op, bra_tensor=None): the one-node special case, with and without
    the optional bra (used as given, like every explicit bra tensor of this module)."""
    from pytreenet.core.node import Node
    from pytreenet.contractions.state_operator_contraction import single_node_expectation_value, expectation_value
    from pytreenet.ttns.ttns import TreeTensorNetworkState
    from pytreenet.ttno.ttno_class import TreeTensorNetworkOperator
    nprng = np.random.default_rng(case["seed"])
    d, exact, cplx = case["d"], case["exact"], case["complex"]
    ket = gen.rand_tensor(nprng, (d,), cplx, exact)
    op = gen.rand_tensor(nprng, (d, d), cplx, exact)
    bra = gen.rand_tensor(nprng, (d,), cplx, exact) if case["bra"] else None
    if case.get("mag") and not exact:
        ket = ket * 10.0 ** case["mag"]
    node = Node(identifier="only")
    node.link_tensor(ket)
    b = ket.conj() if bra is None else bra
    ref = complex(sum(b[i] * op[i, j] * ket[j] for i in range(d) for j in range(d)))
    scale = float(np.linalg.norm(b) * np.linalg.norm(op) * np.linalg.norm(ket))
    ctx.tally("single_node", f"bra {'given' if case['bra'] else 'default (None)'}/{'complex' if cplx else 'real'}")
    ctx.count(("single", d, case["seed"], case["bra"]), nontrivial=d >= 2 and ref != 0)
    cmp = _Cmp(exact)
    probs = []
    try:
        got = (single_node_expectation_value(node, ket, op) if bra is None else
               (single_node_expectation_value(node, ket, op, bra) if case["bra"] == 1 else
                single_node_expectation_value(node, ket, op, bra_tensor=bra)))
        if np.ndim(got) != 0 or cmp.bad(got, ref, scale):
            probs.append(f"single_node_expectation_value: library {got!r} != dense {ref!r}")
    except Exception as e:      # noqa: BLE001
        probs.append(f"single_node_expectation_value: raised {type(e).__name__}: {str(e)[:120]}")
    if bra is None:
        try:
            st, ho = TreeTensorNetworkState(), TreeTensorNetworkOperator()
            st.add_root(Node(identifier="only"), ket)
            ho.add_root(Node(identifier="only"), op)
            got = expectation_value(st, ho)
            if cmp.bad(got, ref, scale):
                probs.append(f"expectation_value on the one-node networks: library {got!r} != dense {ref!r}")
        except Exception as e:      # noqa: BLE001
            probs.append(f"expectation_value on the one-node networks: raised {type(e).__name__}: {str(e)[:120]}")
    if probs:
        ctx.oracle_fail(case, "; ".join(probs))


def gen_single_cases(ctx):
    rng = ctx.subrng("single")
    return [{"kind": "single", "d": rng.choice([1, 2, 2, 3, 4, 6]), "exact": rng.random() < 0.5,
             "complex": rng.random() < 0.75, "bra": rng.choice([0, 1, 2]), "seed": rng.randrange(10 ** 9),
             "mag": rng.choice([0, 0, 0, 8, -8])}
            for _ in range(ctx.n(60, 600))]


def _perms_of(lst, rng, limit):
    import itertools
    ps = list(itertools.permutations(lst))
    if len(ps) > limit:
        ps = [tuple(lst)] + rng.sample(ps, limit - 1)
    return [list(p) for p in ps]


def gen_legs_cases(ctx):
    rng = ctx.subrng("legs")
    cases = []
    max_exh = 3 if ctx.tier == "quick" else 4
    shapes = []
    for m in range(0, max_exh + 1):                 # number of neighbours
        ids = rng.sample(range(1, 30), m)
        for has_parent in ([False] if m == 0 else [False, True]):
            ket = (ids[0], ids[1:]) if has_parent else (None, ids)
            shapes.append((ket, True, 24))
    for m in (2, 3, 4, 5):                          # identifiers that are substrings of each other ("1" in "12")
        ids = rng.sample([1, 11, 12, 2, 21, 121, 112], m)
        ket = (ids[0], ids[1:]) if rng.random() < 0.5 else (None, ids)
        shapes.append((ket, m <= 3, 6))
    for _ in range(ctx.n(80, 800)):                # larger random ones, small (also equal / unit) dimensions
        m = rng.randint(3, 6)
        ids = rng.sample(range(1, 60), m)
        ket = (ids[0], ids[1:]) if rng.random() < 0.6 else (None, ids)
        shapes.append((ket, rng.random() < 0.3 and m <= 4, 3))
    for ket, distinct, plimit in shapes:
        knb = _nbrs(ket)
        m = len(knb)
        seed = rng.randrange(10 ** 9)
        # other layers: same parent with permuted children, or a root node with all neighbours as children
        def others(off):
            outs = []
            for ch in _perms_of([c + off for c in ket[1]], rng, plimit):
                outs.append((None if ket[0] is None else ket[0] + off, ch))
            if ket[0] is not None and m <= 3:
                for ch in _perms_of([x + off for x in knb], rng, 4):
                    outs.append((None, ch))
            return outs
        base = {"kind": "legs", "ket": ket, "seed": seed, "distinct": distinct}
        for three in (0, 1):
            if m <= (4 if three == 0 else 3) or not distinct:
                cases.append(dict(base, fn="all", axis=0, three=three, distinct=distinct and m <= 3))
                for nxt in knb:
                    cases.append(dict(base, fn="allbut", axis=0, three=three, next=nxt, distinct=distinct and m <= 3))
        if m <= 4:
            cases.append(dict(base, fn="all", axis=1, three=1, distinct=distinct and m <= 2))
            for nxt in knb:
                cases.append(dict(base, fn="allbut", axis=1, three=1, next=nxt, distinct=distinct and m <= 3))
        for a in knb:
            for b in knb:
                cases.append(dict(base, fn="detidx", nb=a, ign=b))
        off = rng.choice([0, 0, 100])
        for bra in others(off):
            cases.append(dict(base, fn="root", bra=_shift(bra, -off)))
            ign_sets = [[]] + [[x] for x in knb[:2]]
            for ign in ign_sets:
                cases.append(dict(base, fn="equiv", bra=bra, ignore=ign, off=off))
                # the other documented spellings of `ignore_legs`: None / omitted / a single identifier as str
                cases.append(dict(base, fn="equiv", bra=bra, ignore=ign, off=off,
                                  ignore_form=("str" if ign else rng.choice(["none", "omitted"]))))
            for x in knb[2:]:
                cases.append(dict(base, fn="equiv", bra=bra, ignore=[x], off=off, ignore_form="str"))
            for nxt in knb:
                cases.append(dict(base, fn="any", bra=bra, next=nxt, off=off))
        if m <= 5:
            offop = rng.choice([0, 0, 200])
            obs = others(offop)
            bbs = others(off)
            pairs = [(o, b) for o in obs for b in bbs]
            if len(pairs) > 12:
                pairs = rng.sample(pairs, 12)
            for o, b in pairs:
                dd = distinct and m <= 2
                for nxt in knb:
                    cases.append(dict(base, fn="opany", op=o, bra=b, next=nxt, off=off, offop=offop, distinct=dd))
            for o in obs[:8]:
                cases.append(dict(base, fn="oproot", op=_shift(o, -offop), distinct=distinct and m <= 2))
        # malformed: next not a neighbour, a neighbour replaced in the bra node
        if m >= 1:
            cases.append(dict(base, fn="allbut", axis=0, three=0, next=99))
            cases.append(dict(base, fn="any", bra=ket, next=99, off=0))
            bad = (ket[0], list(ket[1][:-1]) + [98]) if ket[1] else (98, [])
            cases.append(dict(base, fn="any", bra=bad, next=knb[0], off=0))
            cases.append(dict(base, fn="root", bra=bad))
            cases.append(dict(base, fn="opany", op=bad, bra=ket, next=knb[0], off=0, offop=0, distinct=False))
            cases.append(dict(base, fn="detidx", nb=knb[0], ign=knb[0]))
    # value-level correspondence of the node-level helpers (separate generator stream: the cases above stay what they
    # were): a sample of the well-formed `any` / `root` / `opany` / `oproot` cases again with small integer tensors
    irng = ctx.subrng("legs-ints")
    cand = [c for c in cases if c["fn"] in ("any", "root", "opany", "oproot") and c.get("next") != 99
            and len(_nbrs(c["ket"])) <= (3 if c["fn"] in ("opany", "oproot") else 4)
            and all(98 not in _nbrs(c[k]) for k in ("bra", "op") if k in c)]
    want = ctx.n(48, 480)
    by_fn = {}
    for c in cand:
        by_fn.setdefault(c["fn"], []).append(c)
    for fn in sorted(by_fn):
        pool = by_fn[fn]
        for c in (irng.sample(pool, want // 4) if len(pool) > want // 4 else pool):
            cases.append(dict(c, ints=True, distinct=False, seed=irng.randrange(10 ** 9)))
    return cases


def _shift(nd, d):
    return (None if nd[0] is None else nd[0] + d, [x + d for x in nd[1]])


# =========================================================================== tree-level graph cases

def _build_tree_case(case):
    """The real networks of a tree case and the labelled operands (global labels of the Lean model)."""
    from pytreenet.ttns.ttns import TreeTensorNetworkState
    from pytreenet.ttno.ttno_class import TreeTensorNetworkOperator
    rng = random.Random(case["seed"])
    nprng = np.random.default_rng(case["seed"])
    par = case["par"]
    n = len(par)
    ints = bool(case.get("ints"))
    dims = _Dims(rng, case.get("distinct", True), small=ints)
    kw = {"complex_": False, "small_int": True} if ints else {}
    three = case["fn"] == "tree3"
    phys = {i: [dims.get(("P", i))] for i in range(n)}
    if case["fn"] == "asmat":
        names = {i: gen.node_name(i) for i in range(n)}
        inv = {v: k for k, v in names.items()}
        bo = {(p, i): dims.get(("O", i)) for i, p in enumerate(par) if p >= 0}
        ttno, _, _, _ = gen.build_network(TreeTensorNetworkOperator, par, bo, {i: phys[i] * 2 for i in range(n)},
                                          rng, nprng, **kw)

        def nbo(i):
            nd = ttno.nodes[names[i]]
            return ([] if nd.parent is None else [inv[nd.parent]]) + [inv[c] for c in nd.children]
        operands = [(ttno.tensors[names[i]], [f"gO{i}_{x}" for x in nbo(i)] + [f"gOO{i}", f"gOI{i}"])
                    for i in range(n)]
        line = "C04 asmat 0 " + " ".join(
            f"{i}:{','.join(str(inv[c]) for c in ttno.nodes[names[i]].children) or '-'};-" for i in range(n))
        return ttno, ttno, operands, line, n >= 3
    bk = {(p, i): dims.get(("K", i)) for i, p in enumerate(par) if p >= 0}
    ket, _, _, names = gen.build_network(TreeTensorNetworkState, par, bk, phys, rng, nprng, **kw)
    inv = {v: k for k, v in names.items()}

    def nb(ttn, i):
        nd = ttn.nodes[names[i]]
        return ([] if nd.parent is None else [inv[nd.parent]]) + [inv[c] for c in nd.children]
    operands = [(ket.tensors[names[i]], [f"gK{i}_{x}" for x in nb(ket, i)] + [f"gKP{i}"]) for i in range(n)]
    if three:
        bo = {(p, i): dims.get(("O", i)) for i, p in enumerate(par) if p >= 0}
        other, _, _, _ = gen.build_network(TreeTensorNetworkOperator, par, bo, {i: phys[i] * 2 for i in range(n)},
                                           rng, nprng, **kw)
        operands += [(other.tensors[names[i]], [f"gO{i}_{x}" for x in nb(other, i)] + [f"gOO{i}", f"gOI{i}"])
                     for i in range(n)]
        operands += [(ket.tensors[names[i]].conj(), [f"gB{i}_{x}" for x in nb(ket, i)] + [f"gBP{i}"])
                     for i in range(n)]
    else:
        bb = {(p, i): dims.get(("B", i)) for i, p in enumerate(par) if p >= 0}
        other, _, _, _ = gen.build_network(TreeTensorNetworkState, par, bb, phys, rng, nprng, **kw)
        operands += [(other.tensors[names[i]], [f"gB{i}_{x}" for x in nb(other, i)] + [f"gBP{i}"]) for i in range(n)]

    def kids(ttn, i):
        return ",".join(str(inv[c]) for c in ttn.nodes[names[i]].children) or "-"
    line = f"C04 {case['fn']} 0 " + " ".join(f"{i}:{kids(ket, i)};{kids(other, i)}" for i in range(n))
    differ = any(kids(ket, i) != kids(other, i) for i in range(n))
    return ket, other, operands, line, differ


def tree_line(case):
    return _build_tree_case(case)[3]


def _case_tree(ctx, case, model_out=None):
    from pytreenet.contractions.state_state_contraction import contract_two_ttns
    from pytreenet.contractions.state_operator_contraction import expectation_value
    ket, other, operands, line, differ = _build_tree_case(case)
    if model_out is None:
        model_out = ctx.lean.batch([line])[0]
    n = len(case["par"])
    if case["fn"] == "asmat":
        _case_asmat(ctx, case, ket, operands, line, model_out)
        return
    ctx.tally("tree_fn", case["fn"])
    ctx.tally("tree_nodes", n)
    ctx.tally("tree_child_orders_differ", differ)
    ctx.count(("tree", line, case.get("distinct", True)), nontrivial=n >= 3 and differ, corr=True)
    if not (model_out.startswith("legs |") or model_out == "legs | binds"):
        ctx.corr_fail(case, f"{case['fn']}: the model leaves free legs / fails on a well-formed tree: [{model_out}]")
        return
    ref, prob = _einsum_from_model(model_out, operands)
    if prob:
        ctx.corr_fail(case, f"{case['fn']}: {prob}; model [{model_out[:300]}]")
        return
    try:
        got = contract_two_ttns(ket, other) if case["fn"] == "tree2" else expectation_value(ket, other)
    except Exception as e:      # noqa: BLE001
        ctx.corr_fail(case, f"{case['fn']}: library raised {type(e).__name__}: {str(e)[:120]} on a well-formed pair "
                            f"of networks; model [{model_out[:200]}]")
        return
    scale = 1.0
    for arr, _ in operands:
        scale *= max(float(np.linalg.norm(arr)), 1e-300)
    if abs(complex(got) - complex(ref)) > 1e-9 * max(abs(complex(ref)), 1e-6 * scale):
        ctx.corr_fail(case, f"{case['fn']}: library value {complex(got)!r} differs from the contraction over the "
                            f"model's global binding list {complex(ref)!r}")
        return
    if case.get("ints"):
        _model_value(ctx, case, model_out, operands, [complex(got)])


def _model_value(ctx, case, model_out, operands, got_flat):
    """Integer tensors: the Lean model itself evaluates its binding record on the library's tensors (`netValue` of
    Ptn/Common/EinsumModel.lean, the function the value-level theorems are about); the library's result must be that number
    exactly."""
    from harness import einsum_corr
    lpart, bpart = model_out.split(" | ")
    legs = lpart.split()[1:]
    binds = [tuple(x.split("~")) for x in bpart.split()[1:]]
    num = {}
    dims = []
    leaves = []
    for arr, labs in operands:
        if np.abs(np.asarray(arr).imag).max(initial=0) != 0 or np.abs(arr - np.round(arr.real)).max(initial=0) != 0:
            return
        ll = []
        for l, d in zip(labs, np.asarray(arr).shape):
            num[l] = len(dims)
            dims.append(int(d))
            ll.append(num[l])
        leaves.append((ll, np.round(np.asarray(arr).real).astype(np.int64)))
    size = 1
    for a, _ in binds:
        size *= dims[num[a]]
    for l in legs:
        size *= dims[num[l]]
    if size > 40000:
        ctx.tally("model_value", "skipped (too large)")
        return
    line = einsum_corr.einrec_line(dims, [num[l] for l in legs], [(num[a], num[b]) for a, b in binds], leaves)
    ans = ctx.lean.batch([line])[0]
    ctx.tally("model_value", case["fn"])
    ctx.count(("model_value", line), nontrivial=len(binds) >= 4, corr=True)
    tab = einsum_corr.parse_table(ans, "full")
    if tab is None:
        ctx.corr_fail(case, f"{case['fn']}: the value-level model rejects its own binding record: [{ans[:120]}]")
        return
    if len(tab) != len(got_flat) or any(complex(t) != complex(g) for t, g in zip(tab, got_flat)):
        ctx.corr_fail(case, f"{case['fn']}: library value {got_flat[:6]} differs from the Lean model's evaluation of its "
                            f"binding record on the same integer tensors {tab[:6]}")


def _case_asmat(ctx, case, ttno, operands, line, model_out):
    n = len(case["par"])
    ctx.tally("tree_fn", "asmat")
    ctx.tally("tree_nodes", n)
    ctx.count(("tree", line, case.get("distinct", True)), nontrivial=n >= 3, corr=True)
    parts = model_out.split(" | ")
    if len(parts) != 4 or not parts[0].startswith("order"):
        ctx.corr_fail(case, f"asmat: model answers [{model_out[:200]}] on a well-formed TTNO")
        return
    m_order = [f"n{x}" for x in parts[0].split()[1].split(",")]
    rows, cols = parts[1].split()[1:], parts[2].split()[1:]
    ref, prob = _einsum_from_model("legs " + " ".join(rows + cols) + " | " + parts[3], operands)
    if prob:
        ctx.corr_fail(case, f"asmat: {prob}")
        return
    try:
        mat, order = ttno.as_matrix()
    except Exception as e:      # noqa: BLE001
        ctx.corr_fail(case, f"asmat: library raised {type(e).__name__}: {str(e)[:120]}")
        return
    if list(order) != m_order:
        ctx.corr_fail(case, f"asmat: returned node order {list(order)} != model {m_order}")
        return
    d = int(np.prod(ref.shape[:len(rows)])) if rows else 1
    refm = ref.reshape(d, -1)
    if mat.shape != refm.shape or np.linalg.norm(mat - refm) > 1e-9 * max(float(np.linalg.norm(refm)), 1e-300):
        ctx.corr_fail(case, "asmat: matrix differs from rows = all output legs, columns = all input legs in the "
                            "returned node order (contraction over the model's bindings)")
        return
    if case.get("ints"):
        _model_value(ctx, case, "legs " + " ".join(rows + cols) + " | " + parts[3], operands,
                     [complex(x) for x in np.asarray(mat).reshape(-1)])


def gen_tree_cases(ctx):
    rng = ctx.subrng("tree")
    cases = []
    for _ in range(ctx.n(260, 3000)):
        distinct = rng.random() < 0.5
        kind = rng.choice([None, None, "spider", "chain", "star", "binaryish"])
        n = rng.choice([1, 2, 3, 4, 5] if distinct else [1, 2, 3, 4, 5, 6, 7])
        fn = rng.choice(["tree2", "tree3", "tree2", "tree3", "asmat"])
        if fn == "tree3" and distinct:
            n = min(n, 4)
        c = {"kind": "tree", "fn": fn, "par": gen.random_parent_array(rng, n, kind),
             "seed": rng.randrange(10 ** 9), "distinct": distinct}
        if rng.random() < 0.4:
            # integer tensors with small dimensions: the Lean model itself evaluates its binding record (exact)
            c["ints"] = True
            c["distinct"] = False
            if fn == "tree3" and n > 3 or n > 5:
                c["par"] = gen.random_parent_array(rng, 3 if fn == "tree3" else 5, kind)
        cases.append(c)
    return cases


# =========================================================================== effective Hamiltonians (exported to C05)

def heff_line(case):
    fn = case["fn"]
    if fn == "siteheff":
        return f"C04 siteheff {case['i']} {_node_tok(case['state'])} {_node_tok(case['ham'])}"
    if fn == "linkheff":
        return f"C04 linkheff {_node_tok(case['link'])} {case['node']} {case['next']}"
    if fn == "twoheff":
        return (f"C04 twoheff {case['t']} {case['x']} {_node_tok(case['hamt'])} {_node_tok(case['hamx'])} "
                f"{_node_tok(case['two'])}")
    raise ValueError(fn)


class _LayerDims:
    """Dimensions distinct within each layer (ket / bra / operator bonds, output / input legs), small enough
    for the matricised effective Hamiltonian."""

    def __init__(self, rng, distinct):
        self.rng, self.distinct, self.d, self.pools = rng, distinct, {}, {}

    def get(self, cls):
        # In the library the bra is the conjugate of the ket and an operator maps a site space to itself: the bra leg
        # of a block has the dimension of its ket leg and the input leg of an operator that of its output leg.
        # Inputs violating this are outside the domain of the functions (a rewrite may rely on it), so the two are
        # drawn together; swapped ket/bra or in/out legs are still seen by the value comparison (einsum).
        if cls[0] == "B":
            cls = ("K",) + tuple(cls[1:])
        elif cls[0] == "in":
            cls = ("out",) + tuple(cls[1:])
        if cls not in self.d:
            layer = cls[0]
            if self.distinct:
                pool = self.pools.setdefault(layer, self.rng.sample([2, 3, 4, 5], 4))
                self.d[cls] = pool.pop() if pool else self.rng.choice([2, 3])
            else:
                self.d[cls] = self.rng.choice([1, 2, 2, 3])
        return self.d[cls]


def _run_heff_impl(case):
    """Run the real function; returns ('mat', tensor_before_matricisation|None, matrix, operands) | ('error', text)."""
    import types
    from pytreenet.contractions import effective_hamiltonians as eh
    from pytreenet.contractions.tree_cach_dict import PartialTreeCachDict
    from pytreenet.time_evolution.tdvp_algorithms.onesitetdvp import OneSiteTDVP
    from pytreenet.time_evolution.tdvp_algorithms.twositetdvp import TwoSiteTDVP
    rng = random.Random(case["seed"])
    nprng = np.random.default_rng(case["seed"])
    dims = _LayerDims(rng, case.get("distinct", True))
    fn = case["fn"]

    def rnd(shape):
        return gen.rand_tensor(nprng, shape, True, False)

    def block(n, i):
        arr = rnd([dims.get(("K", n, i)), dims.get(("O", n, i)), dims.get(("B", n, i))])
        return arr, [f"gK{n}_{i}", f"gO{n}_{i}", f"gB{n}_{i}"]

    def op_tensor(i, nd):
        nbs = _nbrs(nd)
        # the operator leg toward n pairs with the ham leg of block n->i
        arr = rnd([dims.get(("O", n, i)) for n in nbs] + [dims.get(("out", i)), dims.get(("in", i))])
        return arr, [f"gO{i}_{n}" for n in nbs] + [f"gOO{i}", f"gOI{i}"]
    cache = PartialTreeCachDict()
    try:
        if fn == "siteheff":
            i = case["i"]
            st, hm = case["state"], case["ham"]
            sn, hn = _mk_node(i, st, 0), _mk_node(i, hm, 0)
            h_arr, h_lab = op_tensor(i, hm)
            hn.link_tensor(h_arr)
            operands = [(h_arr, h_lab)]
            for n in _nbrs(hm):
                b, lab = block(n, i)
                cache.add_entry(str(n), str(i), b)
                operands.append((b, lab))
            ten = eh.contract_all_except_node(sn, hn, h_arr, cache)
            mat = eh.get_effective_single_site_hamiltonian_nodes(sn, hn, h_arr, cache)
            return ("mat", ten, mat, operands)
        if fn == "linkheff":
            a, b = case["node"], case["next"]
            link = case["link"]
            link_id = OneSiteTDVP.create_link_id(str(a), str(b))
            ln = _mk_node(link_id, link, 0)
            ba, la = block(a, b)
            # the two ham legs are bound to each other: same dimension
            bb_arr = rnd([dims.get(("K", b, a)), dims.get(("O", a, b)), dims.get(("B", b, a))])
            lb = [f"gK{b}_{a}", f"gO{b}_{a}", f"gB{b}_{a}"]
            cache.add_entry(str(a), str(b), ba)
            cache.add_entry(str(b), str(a), bb_arr)
            fake = types.SimpleNamespace(state=types.SimpleNamespace(nodes={link_id: ln}), partial_tree_cache=cache,
                                         create_link_id=OneSiteTDVP.create_link_id)
            mat = OneSiteTDVP._get_effective_link_hamiltonian(fake, str(a), str(b))
            return ("mat", None, mat, [(ba, la), (bb_arr, lb)])
        if fn == "twoheff":
            t, x = case["t"], case["x"]
            ht, hx, two = case["hamt"], case["hamx"], case["two"]
            two_id = TwoSiteTDVP.create_two_site_id(str(t), str(x))
            # the operator bond t-x: one dimension for both ends
            dims.d[("O", x, t)] = dims.get(("O", t, x))
            nt, nx = _mk_node(t, ht, 0), _mk_node(x, hx, 0)
            at, lt = op_tensor(t, ht)
            ax, lx = op_tensor(x, hx)
            nt.link_tensor(at)
            nx.link_tensor(ax)
            operands = [(at, lt), (ax, lx)]
            for n in _nbrs(ht):
                if n != x:
                    b, lab = block(n, t)
                    cache.add_entry(str(n), str(t), b)
                    operands.append((b, lab))
            for n in _nbrs(hx):
                if n != t:
                    b, lab = block(n, x)
                    cache.add_entry(str(n), str(x), b)
                    operands.append((b, lab))
            ham = types.SimpleNamespace(nodes={str(t): nt, str(x): nx}, tensors={str(t): at, str(x): ax})
            fake = types.SimpleNamespace(hamiltonian=ham, partial_tree_cache=cache,
                                         state=types.SimpleNamespace(nodes={two_id: _mk_node(two_id, two, 0)}),
                                         create_two_site_id=TwoSiteTDVP.create_two_site_id)
            for name in ("_find_block_leg_target_node", "_find_block_leg_next_node",
                         "_determine_two_site_leg_permutation", "_contract_all_except_two_nodes"):
                setattr(fake, name, types.MethodType(getattr(TwoSiteTDVP, name), fake))
            ten = fake._contract_all_except_two_nodes(str(t), str(x))
            mat = TwoSiteTDVP._get_effective_two_site_hamiltonian(fake, str(t), str(x))
            return ("mat", ten, mat, operands)
    except Exception as e:      # noqa: BLE001
        return ("error", f"{type(e).__name__}: {str(e)[:120]}")
    raise ValueError(fn)


def _case_heff(ctx, case, model_out=None):
    if model_out is None:
        model_out = ctx.lean.batch([heff_line(case)])[0]
    fn = case["fn"]
    res = _run_heff_impl(case)
    ctx.tally("heff_fn", fn)
    ctx.tally("heff_outcome", res[0])
    ctx.count(("heff", heff_line(case), case.get("distinct", True)), nontrivial=case.get("nontrivial", True),
              corr=True)
    if model_out == "bad-op":
        ctx.corr_fail(case, f"model rejects {heff_line(case)!r}")
        return
    if res[0] == "error":
        if model_out != "error":
            ctx.corr_fail(case, f"{fn}: library raised {res[1]} but the model answers [{model_out[:200]}]")
        return
    if model_out == "error":
        ctx.corr_fail(case, f"{fn}: model predicts an exception, library returned a matrix")
        return
    _, ten, mat, operands = res
    parts = model_out.split(" | ")
    rows, cols = parts[0].split()[1:], parts[1].split()[1:]
    ref, prob = _einsum_from_model("legs " + " ".join(rows + cols) + " | " + parts[2], operands)
    if prob:
        ctx.corr_fail(case, f"{fn}: {prob}; model [{model_out[:300]}]")
        return
    if ten is not None and tuple(np.asarray(ten).shape) != tuple(ref.shape):
        ctx.corr_fail(case, f"{fn}: tensor shape {np.asarray(ten).shape} != predicted (rows, cols) legs {ref.shape}")
        return
    d = int(np.prod(ref.shape[:len(rows)])) if rows else 1
    refm = ref.reshape(d, -1)
    mat = np.asarray(mat)
    if mat.shape != refm.shape or np.linalg.norm(mat - refm) > 1e-9 * max(float(np.linalg.norm(refm)), 1e-300):
        ctx.corr_fail(case, f"{fn}: H_eff differs from rows/cols/bindings predicted by the model [{model_out[:300]}]")


def gen_heff_cases(ctx):
    rng = ctx.subrng("heff")
    cases = []
    for _ in range(ctx.n(220, 2500)):
        fn = rng.choice(["siteheff", "siteheff", "twoheff", "twoheff", "linkheff"])
        seed = rng.randrange(10 ** 9)
        if fn == "siteheff":
            m = rng.choice([0, 1, 2, 3, 3, 4])
            distinct = m <= 3 and rng.random() < 0.6
            ids = rng.sample(range(1, 40), m + 1)
            i, nb = ids[0], ids[1:]
            has_parent = m > 0 and rng.random() < 0.6
            st = (nb[0], nb[1:]) if has_parent else (None, nb)
            ch = list(st[1])
            rng.shuffle(ch)
            hm = (st[0], ch)
            if has_parent and rng.random() < 0.2:        # re-rooted operator node (parent differs)
                allnb = list(nb)
                rng.shuffle(allnb)
                hm = (None, allnb)
            c = {"kind": "heff", "fn": fn, "i": i, "state": st, "ham": hm, "seed": seed, "distinct": distinct,
                 "nontrivial": m >= 2 and _nbrs(st) != _nbrs(hm)}
            if rng.random() < 0.08 and m >= 1:           # malformed: foreign neighbour in the operator node
                c["ham"] = (hm[0], list(hm[1][:-1]) + [99]) if hm[1] else (99, [])
            cases.append(c)
        elif fn == "linkheff":
            a, b = rng.sample(range(1, 40), 2)
            link = (b, [a]) if rng.random() < 0.5 else (a, [b])
            c = {"kind": "heff", "fn": fn, "link": link, "node": a, "next": b, "seed": seed,
                 "distinct": True, "nontrivial": True}
            r = rng.random()
            if r < 0.1:
                c["link"] = (None, [a])                  # a root: the assertion fails
            elif r < 0.2:
                c["link"] = (b, [a, 77])
            cases.append(c)
        else:
            mt, mx = rng.choice([0, 1, 2, 2]), rng.choice([0, 1, 2, 2])
            ids = rng.sample(range(1, 40), 2 + mt + mx)
            t, x = ids[0], ids[1]
            nt, nx = ids[2:2 + mt], ids[2 + mt:]
            # tree orientation: x child of t, or t child of x
            if rng.random() < 0.5:
                par_t = nt[0] if (nt and rng.random() < 0.6) else None
                kt = [n for n in nt if n != par_t] + [x]
                rng.shuffle(kt)
                hamt, hamx = (par_t, kt), (t, rng.sample(nx, len(nx)))
                two_par = par_t
            else:
                par_x = nx[0] if (nx and rng.random() < 0.6) else None
                kx = [n for n in nx if n != par_x] + [t]
                rng.shuffle(kx)
                hamx, hamt = (par_x, kx), (x, rng.sample(nt, len(nt)))
                two_par = par_x
            kids2 = [n for n in nt + nx if n != two_par]
            rng.shuffle(kids2)
            two = (two_par, kids2)
            distinct = (mt + mx) <= 3 and rng.random() < 0.6
            c = {"kind": "heff", "fn": fn, "t": t, "x": x, "hamt": hamt, "hamx": hamx, "two": two, "seed": seed,
                 "distinct": distinct, "nontrivial": mt + mx >= 2}
            if rng.random() < 0.06 and kids2:
                c["two"] = (two_par, kids2[:-1] + [98])  # foreign neighbour: NotCompatibleException
            cases.append(c)
    return cases


# =========================================================================== cases

# ---------------------------------------------------------------------------------------------------------------------
# stream `centre` (B39): the orthogonality-centre shortcuts, apply_operator, conjugate on exactly canonical INTEGER states
# (signed-permutation isometries toward the centre, integer centre tensor): the Lean model (`netValue`, line `einrec`)
# evaluates (1) the full norm network, (2) the centre tensor alone, (3) the full sandwich with an operator on the centre,
# (4) centre . operator . centre*, (5) the state network with an operator bound to the open leg of a node; the library's
# scalar_product() / single_site_operator_expectation_value / apply_operator must give exactly these integers
# (theorems centre_shortcut_value, centre_operator_value, apply_operator_node_value, apply_operator_orth_centre).

def gen_centre_cases(ctx):
    rng = ctx.subrng("centre")
    cases = []
    for _ in range(ctx.n(60, 600)):
        n = rng.choice([1, 2, 3, 3, 4, 4, 5, 6])
        par = gen.random_parent_array(rng, n, rng.choice([None, None, "chain", "star"]) if n >= 3 else None)
        cases.append({"kind": "centre", "par": par, "seed": rng.randrange(10 ** 9), "centre": rng.randrange(n),
                      "target": rng.randrange(n)})
    return cases


def _centre_network(ttns):
    """labels, dims, ket / bra leaves (node order of the library) and the bonds of both copies"""
    num, dims, ket, bra = {}, [], {}, {}
    for nid in sorted(ttns.nodes):
        node = ttns.nodes[nid]
        t = np.asarray(ttns.tensors[nid])
        nbs = ([node.parent] if node.parent is not None else []) + list(node.children) + ["|open"]
        arr = np.round(t.real).astype(np.int64)
        for lay, store in (("k", ket), ("b", bra)):
            ll = []
            for nb, d in zip(nbs, t.shape):
                num[(lay, nid, nb)] = len(dims)
                dims.append(int(d))
                ll.append(num[(lay, nid, nb)])
            store[nid] = (ll, arr)
    bonds = []
    for nid in sorted(ttns.nodes):
        for ch in ttns.nodes[nid].children:
            bonds.append((num[("k", nid, ch)], num[("k", ch, nid)]))
            bonds.append((num[("b", nid, ch)], num[("b", ch, nid)]))
    return num, dims, ket, bra, bonds


def _as_int(z):
    z = complex(z)
    return int(round(z.real)) if abs(z - round(z.real)) < 1e-9 else z


def _case_centre(ctx, case):
    import random
    from copy import deepcopy
    from harness import einsum_corr
    from pytreenet.operators.tensorproduct import TensorProduct
    rng = random.Random(case["seed"])
    nprng = np.random.default_rng(case["seed"])
    par, c, tg = case["par"], case["centre"], case["target"]
    n = len(par)
    open_dims = _phys_dims(rng, n, (2, 2, 3))
    ttns, names = _exact_iso_state(rng, nprng, par, open_dims, c, True, phases=(1, -1))
    cid, tid = names[c], names[tg]
    t = np.asarray(ttns.tensors[cid])
    ttns.tensors[cid] = (t.real + t.imag).astype(complex)
    ttns.orthogonality_center_id = cid
    num, dims, ket, bra, bonds = _centre_network(ttns)
    ids = sorted(ttns.nodes)
    ctx.tally("variant", "centre")
    ctx.tally("centre_nodes", n)
    ctx.count(("centre", tuple(par), case["seed"], c, tg), nontrivial=n >= 2, corr=True)
    phys = [(num[("k", i, "|open")], num[("b", i, "|open")]) for i in ids]
    leaves = [ket[i] for i in ids] + [bra[i] for i in ids]
    d = dims[num[("k", cid, "|open")]]
    op = nprng.integers(-2, 3, size=(d, d)).astype(np.int64)
    o_out, o_in = len(dims), len(dims) + 1
    dims2 = dims + [d, d]
    cpairs = [(a, b) for a, b in zip(ket[cid][0], bra[cid][0])]
    sand = [(num[("k", cid, "|open")], o_in), (o_out, num[("b", cid, "|open")])]
    phys_c = [p for p in phys if p[0] != num[("k", cid, "|open")]]
    dt = dims[num[("k", tid, "|open")]]
    opt = nprng.integers(-2, 3, size=(dt, dt)).astype(np.int64)
    t_out, t_in = len(dims), len(dims) + 1
    dims3 = dims + [dt, dt]
    kbonds = [bd for k, bd in enumerate(bonds) if k % 2 == 0]
    free5 = [t_out if i == tid else num[("k", i, "|open")] for i in ids]
    if int(np.prod([dims3[l] for l in free5])) * int(np.prod([dims[a] for a, _ in kbonds] or [1])) * dt > 60000:
        ctx.tally("centre", "skipped (too large)")
        return
    lines = [einsum_corr.einrec_line(dims, [], phys + bonds, leaves),
             einsum_corr.einrec_line(dims, [], cpairs, [ket[cid], bra[cid]]),
             einsum_corr.einrec_line(dims2, [], sand + phys_c + bonds, leaves + [([o_out, o_in], op)]),
             einsum_corr.einrec_line(dims2, [], sand + cpairs[:-1], [ket[cid], ([o_out, o_in], op), bra[cid]]),
             einsum_corr.einrec_line(dims3, free5, kbonds + [(num[("k", tid, "|open")], t_in)],
                                     [([t_out, t_in], opt)] + [ket[i] for i in ids])]
    outs = ctx.lean.batch(lines)
    tabs = [einsum_corr.parse_table(o, "full") for o in outs]
    if any(x is None for x in tabs):
        ctx.corr_fail(case, f"centre: the value-level model rejects a network of a canonical state: {[o[:80] for o in outs]}")
        return
    # theorems: full = shortcut (norm and operator)
    if tabs[0] != tabs[1] or tabs[2] != tabs[3]:
        ctx.corr_fail(case, f"centre: Lean model: full norm {tabs[0]} vs centre alone {tabs[1]}; full sandwich {tabs[2]} vs "
                            f"centre.op.centre* {tabs[3]} on an exactly canonical state (centre_shortcut_value / "
                            f"centre_operator_value)")
    v = dense.ttns_vector(ttns, ids)
    libs = {}
    try:
        libs["scalar_product() shortcut"] = (_as_int(ttns.scalar_product()), tabs[1])
        libs["scalar_product(use_orthogonal_center=False)"] = (_as_int(ttns.scalar_product(use_orthogonal_center=False)), tabs[0])
        libs["single_site_operator_expectation_value shortcut"] = (
            _as_int(ttns.single_site_operator_expectation_value(cid, op.astype(complex))), tabs[3])
        other = deepcopy(ttns)
        other.orthogonality_center_id = None
        libs["operator_expectation_value, no centre recorded"] = (
            _as_int(other.operator_expectation_value(TensorProduct({cid: op.astype(complex)}))), tabs[2])
    except Exception as e:          # noqa: BLE001
        ctx.oracle_fail(case, f"centre: raised {type(e).__name__}: {e}")
        return
    for route, (got, tab) in libs.items():
        if [got] != tab:
            ctx.corr_fail(case, f"centre: {route} = {got}, the Lean model evaluates the same network on the same integer "
                                f"tensors to {tab}")
    nrm2 = _as_int(np.vdot(v, v))
    if libs["scalar_product() shortcut"][0] != nrm2:
        ctx.oracle_fail(case, f"centre: scalar_product() from the centre tensor = {libs['scalar_product() shortcut'][0]}, "
                              f"dense <psi|psi> = {nrm2}")
    # apply_operator on one node: new state = (1 x op x 1) psi, leg order kept, centre record kept iff target == centre
    new = deepcopy(ttns)
    try:
        new.apply_operator(TensorProduct({tid: opt.astype(complex)}))
    except Exception as e:          # noqa: BLE001
        ctx.oracle_fail(case, f"centre: apply_operator raised {type(e).__name__}: {e}")
        return
    want_oc = cid if tid == cid else None           # Ptn.C04.apply_operator_orth_centre
    if new.orthogonality_center_id != want_oc:
        ctx.oracle_fail(case, f"centre: apply_operator on {tid} with recorded centre {cid}: record is "
                              f"{new.orthogonality_center_id}, must be {want_oc}")
    if np.asarray(new.tensors[tid]).shape != np.asarray(ttns.tensors[tid]).shape:
        ctx.oracle_fail(case, "centre: apply_operator changed the leg order / shape of the node tensor")
        return
    w = dense.ttns_vector(new, ids)
    got5 = [_as_int(x) for x in np.asarray(w).reshape(-1)]
    if got5 != tabs[4]:
        ctx.corr_fail(case, f"centre: state after apply_operator on {tid} {got5[:8]} differs from the Lean model's "
                            f"evaluation of the network with the operator bound to the open leg {tabs[4][:8]}")
    # conjugate(): same structure, every tensor conjugated; value = conj(value)
    cj = ttns.conjugate()
    if sorted(cj.nodes) != ids or any(not np.array_equal(np.asarray(cj.tensors[i]), np.conj(np.asarray(ttns.tensors[i])))
                                      for i in ids):
        ctx.oracle_fail(case, "centre: conjugate() is not the entry-wise conjugate on the same structure")
    ctx.tally("centre", "target is centre" if tid == cid else "target is not centre")


def gen_cases(ctx):
    rng = ctx.rng
    arng = ctx.subrng("audit-values")
    cases = []
    nvals = ctx.n(700, 8000)
    for k in range(nvals):
        kind = rng.choice([None, None, None, "spider", "chain", "star"])
        n = rng.choice([3, 4, 5, 6, 7]) if kind else rng.choice([1, 1, 2, 3, 4, 5, 6, 7])
        exact = rng.random() < 0.5
        if exact:
            gauge = rng.choice(["none", "none", "exactiso"])
        else:
            gauge = rng.choice(["none", "none", "REDUCED", "FULL", "KEEP", "exactiso"])
        case = {"kind": "values", "par": gen.random_parent_array(rng, n, kind),
                "seed": rng.randrange(10 ** 9), "exact": exact, "gauge": gauge, "moves": rng.randint(0, 3),
                "mag": 0 if exact else rng.choice([0, 0, 0, 0, 6, 8, -6, -8])}
        # ---- input-space audit axes (separate generator stream: the cases above stay what they were)
        if case["mag"] and arng.random() < 0.4:
            case["mag_op"] = arng.choice([-8, 6, 8])
        r = arng.random()
        if r < 0.30:
            if gauge == "exactiso":
                case["dtype"] = arng.choice(["single", "view"])
            elif exact:
                case["dtype"] = arng.choice(["real", "int", "int", "single", "view"])
            else:
                case["dtype"] = arng.choice(["real", "real", "single", "view"])
        if arng.random() < 0.25:
            case["names"] = arng.choice(["prefix", "suffix"])
        if not exact and "dtype" not in case and arng.random() < 0.08:
            case["near"] = arng.choice(["copy", "copy", "tiny"])
            if case["near"] == "tiny":
                case["gauge"], case["moves"], case["mag"] = "none", 0, 0
                case["par"] = case["par"][:3] if len(case["par"]) > 3 else case["par"]
        if arng.random() < 0.30:
            ops = ["apply", "absorb", "query"] if exact else ["apply", "absorb", "query", "normalise", "move", "canon"]
            if case.get("dtype") == "view":
                ops = [o for o in ops if o != "normalise"]      # in-place division of a read-only buffer
            case["pre"] = [arng.choice(ops) for _ in range(arng.randint(1, 3))]
        cases.append(case)
    return cases


def run(ctx):
    import glob
    import json
    import os
    from harness import common
    for path in sorted(glob.glob(os.path.join(common.CORPUS_DIR, "C04", "*.json"))):
        run_case(ctx, common.unjson(json.load(open(path))).get("case", {}))
    legs = gen_legs_cases(ctx)
    outs = ctx.lean.batch([legs_line(c) for c in legs])
    for c, mo in zip(legs, outs):
        if ctx.time_left() < 0:
            break
        _case_legs(ctx, c, mo)
    # the effective-Hamiltonian cases tie the model Ptn.C05.Heff to the code: they are run and judged by the check of
    # C05 (run_heff below), not by C04
    from harness import einsum_corr
    einsum_corr.run_ein(ctx)
    trees = gen_tree_cases(ctx)
    outs = ctx.lean.batch([tree_line(c) for c in trees])
    for c, mo in zip(trees, outs):
        if ctx.time_left() < 0:
            break
        _case_tree(ctx, c, mo)
    for c in gen_centre_cases(ctx) + gen_nb1_cases(ctx) + gen_single_cases(ctx) + gen_cases(ctx):
        if ctx.time_left() < 0:
            break
        run_case(ctx, c)


def run_heff(ctx):
    """Entry point for the check of C05: the real effective-Hamiltonian functions on hand-built nodes against the
    leg graphs of `Ptn.C05.Heff` (rows, columns, bound pairs), value level by einsum over the model's bindings."""
    heffs = gen_heff_cases(ctx)
    for c in heffs:
        c["via"] = "c04"
    outs = ctx.lean.batch([heff_line(c) for c in heffs])
    for c, mo in zip(heffs, outs):
        if ctx.time_left() < 0:
            break
        _case_heff(ctx, c, mo)


def run_case(ctx, case):
    if case.get("kind") == "values":
        _case_values(ctx, case)
    elif case.get("kind") == "centre":
        _case_centre(ctx, case)
    elif case.get("kind") == "nb1":
        _case_nb1(ctx, case)
    elif case.get("kind") == "single":
        _case_single(ctx, case)
    elif case.get("kind") == "tree":
        _case_tree(ctx, case)
    elif case.get("kind") == "heff":
        case = dict(case)
        for k in ("state", "ham", "link", "hamt", "hamx", "two"):
            if k in case:
                case[k] = (case[k][0], list(case[k][1]))
        _case_heff(ctx, case)
    elif case.get("kind") == "legs":
        case = dict(case)
        for k in ("ket", "bra", "op"):      # JSON round trip turns the pairs into lists
            if k in case:
                case[k] = (case[k][0], list(case[k][1]))
        _case_legs(ctx, case)


def _shrink_legs(case):
    ket = (case["ket"][0], list(case["ket"][1]))
    keep = {case.get("next"), case.get("nb"), case.get("ign")}
    for n in ket[1]:
        if n in keep:
            continue
        c = dict(case, ket=(ket[0], [x for x in ket[1] if x != n]))
        for k, off in (("bra", case.get("off", 0)), ("op", case.get("offop", 0))):
            if k in case:
                other = (case[k][0], list(case[k][1]))
                hit = [x for x in (n, n + off) if x in other[1]]
                if not hit:
                    c = None
                    break
                c[k] = (other[0], [x for x in other[1] if x != hit[0]])
        if c is not None:
            yield c
    if case.get("distinct", True):
        yield dict(case, distinct=False)


def shrink(case):
    if case.get("kind") == "tree":
        par = case["par"]
        for leaf in range(len(par) - 1, 0, -1):
            if leaf not in par:
                yield dict(case, par=[p if p < leaf else p - 1 for i, p in enumerate(par) if i != leaf])
        if case.get("distinct", True):
            yield dict(case, distinct=False)
        return
    if case.get("kind") == "legs":
        yield from _shrink_legs(case)
        return
    if case.get("kind") != "values":
        return
    par = case["par"]
    n = len(par)
    # remove a leaf (relabel to keep parent[i] < i)
    for leaf in range(n - 1, 0, -1):
        if leaf not in par:
            newpar = [p if p < leaf else p - 1 for i, p in enumerate(par) if i != leaf]
            yield dict(case, par=newpar)
    if case["gauge"] != "none":
        yield dict(case, gauge="none")
    if case.get("moves", 0) > 0:
        yield dict(case, moves=case["moves"] - 1)
    for k in ("pre", "names", "dtype", "mag_op"):
        if case.get(k):
            yield {kk: vv for kk, vv in case.items() if kk != k}
    if len(case.get("pre", [])) > 1:
        for i in range(len(case["pre"])):
            yield dict(case, pre=case["pre"][:i] + case["pre"][i + 1:])
    if not case["exact"] and case.get("dtype") in (None, "c128", "view"):
        yield dict(case, exact=True, mag=0, gauge="none" if case["gauge"] in MODES else case["gauge"],
                   pre=[o for o in case.get("pre", []) if o in ("apply", "absorb", "query")])
