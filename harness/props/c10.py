"""C10 — truncation keeps the right singular values and bounds the error it introduces.

Stage B (correspondence with Lean model Ptn.C10): `SVDParameters` validation, `truncate_singular_values`
(and `value_truncation` / `_sum_truncation_index` directly) on spectra whose float arithmetic is exact
(dyadic / integer), so that kept and discarded vectors are compared EXACTLY with the model's rationals;
renormalised values to 1e-12 relative.  Comparisons whose verdict depends on a float rounding (threshold
or tail weight within 1e-12 of the decision boundary and the float computation not exact) are skipped
and counted in `boundary_skipped`.
Stage C (oracle): the selection rule re-evaluated independently with `fractions` on the returned
arrays (prefix, length, cap, keep-one, scale); tree level: `recursive_truncation` / `svd_truncation`
on random tree states with `truncate_singular_values` wrapped from outside to learn what was discarded.
Value level (stream `value`, theorems `projector_matrix_value`, `projector_identity_value`, `projector_linear_value`,
`recursive_truncation_value_telescope`): integer tree states; integer projectors (identity, permutation, 0/1 selection,
general) are inserted on bonds through the library's own `insert_projection_operator_and_conjugate`; the dense state
before / after every insertion (independent contraction) is compared EXACTLY with the Lean model's `netValue`
(`C04 einrec`, Ptn/Common/EinsumDriver.lean) of the flat network the theorems are about (left-hand and right-hand side),
and the real `recursive_truncation` with nothing discarded is compared with the model's value of the original network.
"""
from __future__ import annotations

import copy
import math
import warnings
from fractions import Fraction

import numpy as np

from harness import gen, dense, common

RULE = ("cases: (spectrum, parameter object) pairs — dyadic/integer spectra with exact ties at the threshold, "
        "zeros, single values, all-zero vectors, Pythagorean / power-of-four spectra for exact sum-mode "
        "boundaries, random float spectra; max_bond_dim in {1..len+1, 100, inf}, tolerances in {-inf, 0, "
        "dyadics, values of the spectrum, 1e-15, +inf}, all flag combinations; validation of parameter "
        "objects; random tree states (<= 8 nodes, decaying or rank-deficient bonds) truncated recursively or "
        "by sweeping. Input-space audit: spectra scaled by 2^+-27 .. 2^+-60, integer / single-precision / strided / "
        "read-only spectrum arrays, parameter objects built positionally, with documented defaults by omission, by "
        "setting attributes, or one shared object re-used for all calls; truncated_tensor_svd and "
        "contr_truncated_svd_splitting (all contraction modes) on tensors with designed spectra for arbitrary "
        "parameters; tree states with prefix-related identifiers, nodes with 0 / 2 open legs, norms 1e-8 .. 1e8, and "
        "a second truncation of the same object. Value level (own random stream `value`): integer tree states (2-5 "
        "nodes, bonds 1-3) with integer projectors - identity, permutation, 0/1 selection, general - inserted on one "
        "bond or on all bonds in truncate_node order through insert_projection_operator_and_conjugate, and "
        "recursive_truncation with nothing to discard; compared exactly with the Lean model's netValue (einrec). "
        "non-trivial = distinct case in which something is discarded, the cap or the keep-one "
        "branch is taken, a tie occurs, or renormalisation rescales")
PARTIAL = ["tree level, error bound: proved are (i) one projector insertion at the orthogonality centre changes the "
           "state by exactly the discarded weight (single_projector_error, root_step_bound; SVD and isometric "
           "embedding as hypotheses), (ii) an insertion below the centre changes it by at most N times the locally "
           "discarded weight GIVEN that the rest of the network is bounded by N (general_step_bound), (iii) the "
           "accumulation over all insertions incl. the l2 <= l1 step (recursive_truncation_error_bound_partial, "
           "trunc_error_telescoping). ASSUMED, validated by the dense error check on every run: that for the "
           "insertions below the root the rest of the network has norm <= max(1,|psi|), and that the contractions "
           "between two insertions leave the state unchanged; svd_truncation's sweep is covered only by (i)+(iii)",
           "tree level, structure: proved on the C02 structural model under well-formedness and the label invariant "
           "(truncate_node_structure, recursive_truncation_core_structure: same root, identifiers, parents, children "
           "lists order included; recursive_truncation_structure, svd_truncation_structure: children up to order; "
           "contract_split_structure: the lower node becomes the first child) - each with well-formedness and the label "
           "invariant preserved and every node keeping exactly its open axes (labels, order, dimensions); the older "
           "*_structure_partial theorems are kept with their weaker statements (identifiers / parents / children only). "
           "The kept dimensions and the order of the canonicalisation moves are INPUTS of that model (compared with the "
           "library by the comp stream of C02); that every kept dimension produced by the selection model is in "
           "[1, max_bond_dim] is proved (keptDim_bounds); for recursive_truncation it is lifted to EVERY bond of the "
           "structural result without further hypothesis (recursive_truncation_bond_axes: the bond above the non-root node "
           "c has exactly the dimension chosen for c; recursive_truncation_bonds_le; truncOrder_perm: every non-root node "
           "is visited exactly once); svd_truncation: PROVED for every well-formed network (svd_truncation_bonds_le, "
           "svd_truncation_all_bonds_le): centreMove / contractSplit change only their own bond "
           "(centre_move_bond_local, contract_split_bond_local: every other virtual leg keeps neighbour, label and "
           "dimension, every open axis is kept), the sweep order linearise()[:-1] with moves along path_from_to cuts "
           "every edge of the tree exactly once (svd_sweep_cuts_every_edge, svd_sweep_events_along_edges, on the C17 "
           "tree model), hence after the modelled sweep EVERY bond is <= max_bond_dim; what stays an INPUT of the "
           "structural model: the new dimension of each event (a cut keeps <= max_bond_dim: keptDim_bounds; a QR move "
           "does not exceed the dimension of the bond it crosses: contract of the reduced QR) and that the event list "
           "of the real run is the modelled sweep (compared per run)",
           "value level: projector_matrix_value / projector_identity_value / projector_linear_value / "
           "recursive_truncation_value_telescope are about the flat-network semantics netValue with the inserted tensors "
           "P, Pc ARBITRARY; for P = U1.conj(), Pc = U1.T GIVEN the SVD contract in index form svd_projector_value proves "
           "that P.Pc is the projector onto the kept left singular vectors, Pi.M = sum over the kept triples, = M when "
           "nothing is discarded, and svd_projector_full_value that the network is then unchanged (U square or not); that "
           "the library's projector IS the U1 of numpy's SVD of that matricisation is checked per run, not proved; that "
           "the contractions after the insertions (contract_all_children) leave the value unchanged is proved for one child "
           "bond GIVEN that the steps form a simulated history of the C02 simulation (truncate_node_value_partial: after "
           "insert_identity, with ANY matrix Pi in place of the delta, every simulated history keeps the value of the "
           "network with Pi on the bond; Pi = delta gives the original value), not yet along the whole truncateNode "
           "recursion; that netValue is what the library's dense state is is checked per run on integer "
           "tensors (stream value), not proved; the norm of the single-step defect is bounded by "
           "single_projector_error / general_step_bound under their SVD / isometry hypotheses",
           "floating point: the model is exact; decisions closer than 1e-12 to a boundary are skipped unless "
           "the float computation is exact"]
ASSUMPTIONS = ["svd_truncation is given a state with an orthogonality centre (it raises AssertionError otherwise: "
               "precondition of move_orthogonalization_center); recursive_truncation canonicalises by itself",
               "spectra are non-negative and descending (what numpy.linalg.svd returns)",
               "the product rel_tol * s_max with an infinite rel_tol and s_max = 0 is read as 0 "
               "(IEEE gives nan; both readings select nothing)",
               "numpy.linalg.svd contract for the tree-level oracle (validated in C11)"]

INF = float("inf")


# ------------------------------------------------------------------ tokens

def _frac(x) -> Fraction:
    return Fraction(float(x))


def tok_num(x) -> str:
    f = _frac(x)
    return str(f.numerator) if f.denominator == 1 else f"{f.numerator}/{f.denominator}"


def tok_tol(x) -> str:
    if x == INF:
        return "inf"
    if x == -INF:
        return "-inf"
    return tok_num(x)


def tok_bond(d) -> str:
    if isinstance(d, bool):
        return "float"
    if isinstance(d, int):
        return str(d)
    if d == INF:
        return "inf"
    return "float"


def parse_rats(txt: str):
    if txt == "-":
        return []
    return [Fraction(t) for t in txt.split(",")]


# ------------------------------------------------------------------ independent rule (fractions)

def ext_lt_tol(t, x: Fraction) -> bool:
    """t < x for an extended tolerance t (float, possibly +-inf)."""
    if t == -INF:
        return True
    if t == INF:
        return False
    return _frac(t) < x


def rule_value_count(s, rel, tot):
    """#{x in s : x > max(rel*s0, tot)} with (+-inf)*0 = 0; also whether the set is a prefix."""
    s0 = s[0]
    if s0 == 0:
        rel_thr = 0.0
    elif rel in (INF, -INF):
        rel_thr = rel
    else:
        rel_thr = None
    flags = []
    for x in s:
        a = (_frac(rel) * s0 < x) if rel_thr is None else ext_lt_tol(rel_thr, x)
        flags.append(a and ext_lt_tol(tot, x))
    n = sum(flags)
    return n, flags == [True] * n + [False] * (len(s) - n)


def rule_sum_index(s, tot, norming):
    """Start of the longest tail whose (relative) squared weight is <= tot^2, and the boundary margin."""
    total = sum(x * x for x in s)
    if total == 0:
        return 0, 1.0
    fin = tot not in (INF, -INF)
    thr = _frac(tot) ** 2 if fin else None
    margin = 1.0
    best = len(s)
    for j in range(len(s), -1, -1):           # tails s[j:], growing
        w = sum(x * x for x in s[j:])
        if norming:
            w = w / total
        if fin:
            big = max(w, thr)
            if big > 0 and j < len(s):
                margin = min(margin, float(abs(w - thr) / big))
            fits = w <= thr
        else:
            fits = True
        if fits:
            best = j
        else:
            break
    return best, margin


def sum_float_exact(s_float, tot, norming) -> bool:
    """True iff every float operation of `_sum_truncation_index` on this input is exact, so that its
    comparisons are the exact ones (replays the arithmetic, not the control flow)."""
    with warnings.catch_warnings():
        warnings.simplefilter("ignore")
        arr = np.asarray(s_float, dtype=float)
        normsq = np.linalg.norm(arr) ** 2
        ex_total = sum(_frac(x) ** 2 for x in s_float)
        if not math.isfinite(normsq) or _frac(normsq) != ex_total:
            return False
        if tot in (INF, -INF):
            return True
        thresh = tot ** 2
        if not math.isfinite(thresh) or _frac(thresh) != _frac(tot) ** 2:
            return False
        acc_f, acc = np.float64(0.0), Fraction(0)
        for v in arr[::-1]:
            acc_f = acc_f + v ** 2
            acc += _frac(v) ** 2
            if _frac(acc_f) != acc:
                return False
            if norming and _frac(acc_f / normsq) != acc / ex_total:
                return False
    return True


def value_boundary(s_float, rel, tot) -> bool:
    """True iff the float cutoff differs from the exact one and some value lies between them."""
    s0 = float(s_float[0])
    with warnings.catch_warnings():
        warnings.simplefilter("ignore")
        prod = rel * np.float64(s0)
    if rel in (INF, -INF) or not math.isfinite(prod):
        return False
    exact = _frac(rel) * _frac(s0)
    fl = _frac(prod)
    if exact == fl:
        return False
    lo, hi = min(exact, fl), max(exact, fl)
    return any(lo <= _frac(x) <= hi for x in s_float)


def check_selection(s_float, prm, new_s, s_trunc):
    """Independent oracle for one call. Returns (problems, boundary, info). prm = dict of parameters."""
    probs = []
    s = [_frac(x) for x in s_float]
    D = prm["D"]
    k = len(new_s)
    info = {"k": k}
    if k < 1:
        probs.append("kept vector is empty")
        return probs, False, info
    if k > len(s):
        probs.append(f"kept {k} values of {len(s)}")
        return probs, False, info
    if D != INF and k > D:
        probs.append(f"kept {k} values > max_bond_dim {D}")
    if [_frac(x) for x in s_trunc] != s[k:]:
        probs.append(f"discarded vector {list(map(float, s_trunc))} is not s[{k}:]")
    kept = s[:k]
    nan = any(not math.isfinite(float(x)) for x in list(new_s) + list(s_trunc))
    if nan:
        probs.append(f"non-finite value in the output: kept {list(map(float, new_s))} discarded {list(map(float, s_trunc))}")
    if not prm["renorm"]:
        if nan or [_frac(x) for x in new_s] != kept:
            probs.append(f"kept vector {list(map(float, new_s))} is not the prefix s[:{k}] (no renormalisation requested)")
    elif s[0] > 0:
        # "rescaled as a whole": one positive factor for all kept values (the property does not fix the
        # factor; the model does — sum ratio — and that is compared in the correspondence stage)
        c = float(new_s[0]) / float(kept[0])
        if nan or not (c > 0 and math.isfinite(c)) or any(
                abs(float(x) - c * float(y)) > 1e-12 * max(c * float(y), 1e-300) for x, y in zip(new_s, kept)):
            probs.append(f"kept vector {list(map(float, new_s))} is not a positive multiple of s[:{k}]")
    else:
        info["zero_renorm"] = True
        if not nan and any(float(x) != 0.0 for x in new_s):
            probs.append(f"renormalising the all-zero spectrum must leave zeros, got {list(map(float, new_s))}")
    # which k does the rule prescribe
    boundary = False
    if prm["sum_trunc"]:
        K, margin = rule_sum_index(s, prm["tot"], prm["sum_renorm"])
        if margin < 1e-12 and not sum_float_exact(s_float, prm["tot"], prm["sum_renorm"]):
            boundary = True
        info["tie"] = margin == 0.0
        sel = K
    else:
        n, is_prefix = rule_value_count(s, prm["rel"], prm["tot"])
        if not is_prefix:
            probs.append("values above the threshold do not form a prefix (input not descending?)")
        if value_boundary(s_float, prm["rel"], prm["tot"]):
            boundary = True
        thr = [t for t in ((None if prm["rel"] in (INF, -INF) else _frac(prm["rel"]) * s[0]),
                           (None if prm["tot"] in (INF, -INF) else _frac(prm["tot"]))) if t is not None]
        info["tie"] = bool(thr) and max(thr) in s
        sel = n
    want = max(sel, 1)
    if D != INF:
        want = min(want, D)
    info.update(sel=sel, want=want)
    if not boundary and k != want:
        mode = "sum" if prm["sum_trunc"] else "value"
        probs.append(f"{mode} rule selects {sel} value(s), so min(max({sel},1),{D}) = {want} must be kept, but {k} were kept")
    return probs, boundary, info


# ------------------------------------------------------------------ case generation

DYADIC_REL = [-INF, -INF, 0.0, 0.0, 2.0 ** -10, 2.0 ** -10, 0.125, 0.125, 0.25, 0.25, 0.375, 0.5, 0.5, 0.75, 1.0,
              2.0, 1e-15, 1e-15, INF]


def _desc(vals):
    return sorted((float(v) for v in vals), reverse=True)


def gen_spectrum(rng):
    kind = rng.choice(["dyadic", "dyadic", "tie", "zeros", "single", "ints", "pow4", "float", "float", "zero_tail",
                       "scaled"])
    if kind == "scaled":
        # very large / very small spectra (|psi|^2 ~ 1e+-16 and beyond); a power-of-two factor keeps every value and
        # every threshold product exact, so these are compared exactly like the O(1) spectra
        _, base = gen_spectrum(rng)
        while not any(base):
            _, base = gen_spectrum(rng)
        f = 2.0 ** rng.choice([-60, -40, -27, 27, 30, 40, 60])
        return kind, [x * f for x in base]
    if kind == "dyadic":
        n = rng.randint(1, 8)
        return kind, _desc(rng.randint(0, 16) / 2 ** rng.randint(0, 4) for _ in range(n))
    if kind == "tie":
        n = rng.randint(2, 7)
        s0 = rng.choice([1.0, 2.0, 4.0, 8.0, 3.0, 0.5])
        rel = rng.choice([0.125, 0.25, 0.5, 0.375, 0.75])
        t = rel * s0
        pool = [t, t, t + 2.0 ** -20, t - 2.0 ** -20, t * 2, t / 2, s0, 0.0]
        return kind, _desc([s0] + [min(rng.choice(pool), s0) for _ in range(n - 1)])
    if kind == "zeros":
        return kind, [0.0] * rng.randint(1, 5)
    if kind == "single":
        return kind, [rng.choice([0.0, 1.0, 0.5, 3.0, 1e-20, 7.25])]
    if kind == "zero_tail":
        n = rng.randint(1, 4)
        return kind, _desc(rng.randint(1, 9) for _ in range(n)) + [0.0] * rng.randint(1, 3)
    if kind == "ints":
        # integer spectra; Pythagorean tails appear often (3,4 | 5,12 | 8,15 | 1,2,2 | 2,3,6 ...)
        base = rng.choice([[4, 3], [12, 5], [15, 8], [2, 2, 1], [6, 3, 2], [12, 4, 3], [8, 4, 1], [7, 4, 4],
                           [84, 12, 4, 3], [5, 4, 3], [13, 12, 4, 3], [1, 1, 1, 1], [2, 1, 1, 1, 1]])
        extra = [rng.randint(0, 20) for _ in range(rng.randint(0, 2))]
        return kind, _desc(base + extra)
    if kind == "pow4":
        # sum of squares a power of four: the relative tail weights are dyadic, norm exactly representable
        target = rng.choice([4, 16, 64])
        vals, left = [], target
        while left > 0:
            m = rng.randint(1, int(math.isqrt(left)))
            vals.append(m)
            left -= m * m
        scale = 2.0 ** rng.randint(-3, 2)
        return kind, _desc(v * scale for v in vals)
    n = rng.randint(1, 8)
    if rng.random() < 0.5:
        return kind, _desc(rng.random() for _ in range(n))
    return kind, _desc(10 ** rng.uniform(-16, 1) for _ in range(n))


def gen_params(rng, s, kind):
    n = len(s)
    D = rng.choice([1, 2, 3, 4, max(n - 1, 1), n, n + 1, 100, INF, INF])
    rel = rng.choice(DYADIC_REL)
    pool = [-INF, -INF, 0.0, 0.0, 0.125, 0.25, 0.5, 1.0, 3.0, 1e-15, 1e-15, INF, rng.choice(s), s[-1], s[-1] / 2,
            rng.choice(s) / 2, rng.choice(s) / 4]
    sum_trunc = rng.random() < 0.45
    sum_renorm = rng.random() < 0.5
    if sum_trunc:
        sq = [x * x for x in s]
        tails = [sum(sq[j:]) for j in range(n)]
        if sum_renorm and tails[0] > 0:
            tails = [t / tails[0] for t in tails]
        roots = [math.sqrt(t) for t in tails]
        pool += [r for r in roots if r * r in tails] * 2 + [rng.choice(roots)] + [rng.choice(roots) * (1 + 2.0 ** -30)]
    tot = rng.choice(pool)
    if kind in ("float",) and rng.random() < 0.5:
        rel = rng.choice([-INF, 0.0, 1e-15, rng.random(), 2.0 ** -rng.randint(1, 40)])
    return {"D": D, "rel": rel, "tot": tot, "renorm": rng.random() < 0.3, "sum_trunc": sum_trunc,
            "sum_renorm": sum_renorm}


FIELDS = ("D", "rel", "tot", "renorm", "sum_trunc", "sum_renorm")
KWNAMES = {"D": "max_bond_dim", "rel": "rel_tol", "tot": "total_tol", "renorm": "renorm", "sum_trunc": "sum_trunc",
           "sum_renorm": "sum_renorm"}
# documented defaults of SVDParameters (class docstring; sum_renorm: signature and the `norming` default of
# sum_truncation / _sum_truncation_index)
DEFAULTS = {"D": 100, "rel": 1e-15, "tot": 1e-15, "renorm": False, "sum_trunc": False, "sum_renorm": True}


def _is_f32(x) -> bool:
    return math.isinf(x) or float(np.float32(x)) == float(x)


def audit_trunc(rng, case):
    """Input-space audit (notes/C10.md): how the parameter object comes into being (keywords / positional /
    documented defaults by omission / attributes set on an existing object / one shared object re-used for all
    calls), element type and memory layout of the spectrum."""
    import random as _r
    r = _r.Random(rng.randrange(10 ** 9))
    s, prm = case["s"], case["prm"]
    case["ctor"] = r.choice(["kw", "kw", "pos", "omit", "set", "reuse"])
    if case["ctor"] == "omit":
        om = [f for f in FIELDS if r.random() < 0.5] or [r.choice(FIELDS)]
        for f in om:
            prm[f] = DEFAULTS[f]
        case["omit"] = om
    arr = r.choice(["f64", "f64", "readonly", "strided", "int", "f32"])
    if arr == "int" and not all(float(x).is_integer() and abs(x) < 2 ** 20 for x in s):
        arr = "f64"      # (integer-typed spectra >= 2**31.5 overflow in `s_val**2`: outside, SVD never returns integers)
    if arr == "f32":
        # single precision only where every float32 operation of the value rule is exact (no renormalisation,
        # no sum rule: their float32 round-off is not modelled)
        ok = (not prm["renorm"] and not prm["sum_trunc"] and all(_is_f32(x) for x in s)
              and _is_f32(prm["rel"]) and _is_f32(prm["tot"])
              and (math.isinf(prm["rel"]) or _is_f32(prm["rel"] * s[0])))
        if not ok:
            arr = "f64"
    case["arr"] = arr
    return case


def make_arr(s, case):
    how = case.get("arr", "f64")
    if how == "int":
        return np.array([int(x) for x in s], dtype=np.int64)
    if how == "f32":
        return np.array(s, dtype=np.float32)
    a = np.array(s, dtype=float)
    if how == "strided":
        big = np.full(2 * len(s), -5.0)
        big[::2] = a
        return big[::2]
    if how == "readonly":
        a.flags.writeable = False
    return a


VALID_D = [1, 2, 100, 0, -1, -7, INF, -INF, 2.5, 3.0, float("nan"), 10 ** 6]
VALID_T = [-INF, -1.0, -1e-300, -0.0, 0.0, 1e-15, 0.5, 1.0, INF]


def gen_cases(ctx):
    rng = ctx.rng
    cases = []
    # validation: the whole grid is small
    grid = [(d, r, t) for d in VALID_D for r in VALID_T for t in VALID_T]
    if ctx.tier == "quick" and ctx.scale == 1:
        grid = rng.sample(grid, 250)
    for d, r, t in grid:
        cases.append({"kind": "valid", "D": d, "rel": r, "tot": t})
    # hand-written boundary cases (always)
    hand = [
        ([4.0, 2.0, 2.0, 1.0], dict(D=INF, rel=0.5, tot=-INF, renorm=False, sum_trunc=False, sum_renorm=True)),
        ([4.0, 2.0, 2.0, 1.0], dict(D=2, rel=0.25, tot=-INF, renorm=False, sum_trunc=False, sum_renorm=True)),
        ([0.0, 0.0], dict(D=INF, rel=-INF, tot=-INF, renorm=False, sum_trunc=False, sum_renorm=True)),
        ([0.0, 0.0], dict(D=INF, rel=0.0, tot=0.0, renorm=True, sum_trunc=False, sum_renorm=True)),
        ([4.0, 3.0], dict(D=INF, rel=0.0, tot=3.0, renorm=False, sum_trunc=True, sum_renorm=False)),
        ([1.0, 1.0, 1.0, 1.0], dict(D=INF, rel=0.0, tot=0.5, renorm=False, sum_trunc=True, sum_renorm=True)),
        ([4.0, 3.0, 1.0], dict(D=INF, rel=0.0, tot=-INF, renorm=False, sum_trunc=True, sum_renorm=True)),
        ([4.0, 3.0, 2.0, 1.0], dict(D=2, rel=0.0, tot=0.0, renorm=False, sum_trunc=True, sum_renorm=False)),
        ([4.0, 3.0, 2.0, 1.0], dict(D=2, rel=0.0, tot=0.0, renorm=True, sum_trunc=True, sum_renorm=True)),
        ([5.0], dict(D=1, rel=INF, tot=INF, renorm=True, sum_trunc=False, sum_renorm=True)),
    ]
    for s, prm in hand:
        cases.append({"kind": "trunc", "gen": "hand", "s": s, "prm": prm})
    for _ in range(ctx.n(5000, 100000)):
        kind, s = gen_spectrum(rng)
        cases.append(audit_trunc(rng, {"kind": "trunc", "gen": kind, "s": s, "prm": gen_params(rng, s, kind)}))
    for _ in range(ctx.n(160, 2000)):
        cases.append(gen_tsvd_case(rng))
    for _ in range(ctx.n(400, 2500)):
        cases.append({"kind": "tree", "seed": rng.randrange(10 ** 9), "n": rng.choice([1, 2, 3, 3, 4, 5, 6, 7, 8]),
                      "method": rng.choice(["recursive", "svd"]),
                      "shape": rng.choice(["decay", "decay", "random", "lowrank"]),
                      "prm": _tree_prm(rng)})
        audit_tree(rng, cases[-1])
    return cases


def _tree_prm(rng):
    return {"D": rng.choice([1, 2, 3, 4, 100, INF]),
            "rel": rng.choice([-INF, 1e-15, 0.05, 0.3]),
            "tot": rng.choice([-INF, 1e-15, 0.05, 0.3]),
            "renorm": rng.random() < 0.2, "sum_trunc": rng.random() < 0.4,
            "sum_renorm": rng.random() < 0.5}


# (identifiers that EQUAL a temporary identifier of recursive_truncation, "<a>_identity_<b>" / "<a>_projector_<b>" /
#  "<a>_projectorstar_<b>" of two other nodes a, b, make it fail with KeyError: recorded in notes/C10.md as outside)
NAME_POOL = ["n1", "n10", "n100", "n", "1", "10", "n1_identity", "projector_n1", "n1contrn10", "N1", "n 1",
             "n1_", "_n1", "n01"]


def audit_tree(rng, case):
    """Input-space audit: identifiers that are prefixes / substrings of each other (and of the temporary identifiers
    recursive_truncation builds), nodes with no or two open legs, norms from 1e-8 to 1e8, and a SECOND truncation of
    the same object (other method / other parameters): every call is judged on its own."""
    import random as _r
    r = _r.Random(rng.randrange(10 ** 9))
    case["names"] = r.random() < 0.35
    case["opens"] = r.choice(["one", "one", "mixed"])
    case["norm"] = r.choice([None, None, None, 1e-8, 1e8])
    if r.random() < 0.3:
        case["again"] = {"method": r.choice(["recursive", "svd"]), "prm": _tree_prm(r)}
    return case


# ------------------------------------------------------------------ tensor level: truncated SVD with any parameters

TSVD_SPECTRA = [[1.0, 0.5, 0.25, 0.1, 1e-3, 1e-8], [1.0, 1.0, 0.5, 0.5, 0.0, 0.0], [3.0, 0.3, 0.03, 0.003],
                [1.0, 0.9, 0.8, 0.7, 0.6, 0.5], [2.0, 1e-4, 1e-9, 0.0], [1.0], [5.0, 4.0, 3.0, 0.0]]


def gen_tsvd_case(rng):
    order = rng.choice([2, 2, 3, 3, 4])
    while True:
        sh = [rng.choice([1, 2, 2, 3, 4]) for _ in range(order)]
        if 1 < int(np.prod(sh)) <= 96:
            break
    legs = list(range(order))
    rng.shuffle(legs)
    cut = rng.randint(1, order - 1) if order > 1 else 1
    sc = rng.choice([1.0, 1.0, 1.0, 30.0, 1e-8, 1e8])
    prm = {"D": rng.choice([1, 2, 3, 100, INF]), "rel": rng.choice([-INF, 1e-15, 0.05, 0.3, 0.6]),
           "tot": rng.choice([-INF, 1e-15, 0.05, 0.3]) , "renorm": rng.random() < 0.4,
           "sum_trunc": rng.random() < 0.4, "sum_renorm": rng.random() < 0.5}
    if prm["tot"] > 0 and rng.random() < 0.6:
        prm["tot"] = prm["tot"] * sc            # an absolute tolerance that bites at the scale of the data
    return {"kind": "tsvd", "shape": sh, "a": legs[:cut], "b": legs[cut:], "seed": rng.randrange(10 ** 9),
            "spec": rng.randrange(len(TSVD_SPECTRA)), "scale": sc, "complex": rng.random() < 0.6, "prm": prm,
            "ctor": rng.choice(["kw", "pos", "set"])}


def model_lines(case):
    if case["kind"] == "valid":
        return [f"C10 valid {tok_bond(case['D'])} {tok_tol(case['rel'])} {tok_tol(case['tot'])}"]
    if case["kind"] == "trunc":
        p, s = case["prm"], case["s"]
        ss = " ".join(tok_num(x) for x in s)
        lines = [f"C10 trunc {tok_bond(p['D'])} {tok_tol(p['rel'])} {tok_tol(p['tot'])} {int(p['renorm'])} "
                 f"{int(p['sum_trunc'])} {int(p['sum_renorm'])} {ss}"]
        if p["sum_trunc"]:
            lines.append(f"C10 sumidx {tok_tol(p['tot'])} {int(p['sum_renorm'])} {ss}")
        else:
            lines.append(f"C10 value {tok_tol(p['tot'])} {tok_tol(p['rel'])} {ss}")
        return lines
    return []


def run(ctx):
    import glob
    import json
    import os
    cases = []
    for path in sorted(glob.glob(os.path.join(common.CORPUS_DIR, "C10", "*.json"))):
        cases.append(common.unjson(json.load(open(path)))["case"])
    cases += gen_cases(ctx)
    lines, where = [], []
    for i, c in enumerate(cases):
        ls = model_lines(c)
        where.append((len(lines), len(ls)))
        lines.extend(ls)
    outs = ctx.lean.batch(lines)
    for c, (a, n) in zip(cases, where):
        if ctx.time_left() < 0:
            break
        if c["kind"] == "value":
            continue
        run_case(ctx, c, outs[a:a + n] if n else None)
    run_values(ctx, [c for c in cases if c["kind"] == "value"] + gen_value_cases(ctx))


def run_case(ctx, case, model_out=None):
    if model_out is None:
        ls = model_lines(case)
        model_out = ctx.lean.batch(ls) if ls else None
    kind = case["kind"]
    if kind == "valid":
        _case_valid(ctx, case, model_out[0])
    elif kind == "trunc":
        _case_trunc(ctx, case, model_out)
    elif kind == "tsvd":
        _case_tsvd(ctx, case)
    elif kind == "value":
        run_values(ctx, [case])
    else:
        _case_tree(ctx, case)


# ------------------------------------------------------------------ validation

def _case_valid(ctx, case, model_out):
    from pytreenet.util.tensor_splitting import SVDParameters
    D, rel, tot = case["D"], case["rel"], case["tot"]
    try:
        with warnings.catch_warnings():
            warnings.simplefilter("ignore")
            p = SVDParameters(max_bond_dim=D, rel_tol=rel, total_tol=tot)
        impl = "ok"
    except TypeError:
        impl = "TypeError"
    except ValueError as e:
        msg = str(e)
        impl = "ValueError:" + ("max_bond_dim" if "max_bond_dim" in msg else "rel_tol" if "rel_tol" in msg
                                else "total_tol" if "total_tol" in msg else "?")
    except Exception as e:          # noqa: BLE001
        impl = type(e).__name__
    ctx.count(("valid", repr(D), rel, tot), nontrivial=impl != "ok", corr=True)
    ctx.tally("validation", impl)
    if impl != model_out:
        ctx.corr_fail(case, f"validation of max_bond_dim={D!r} rel_tol={rel!r} total_tol={tot!r}: impl={impl} model={model_out}")
    # oracle: what the docstring of check_truncation_parameters promises
    d_ok = (isinstance(D, int) and D > 0) or D == INF
    t_ok = all(t >= 0 or t == -INF for t in (rel, tot))
    if (impl == "ok") != (d_ok and t_ok):
        ctx.oracle_fail(case, f"validation: max_bond_dim={D!r} rel_tol={rel!r} total_tol={tot!r} gives {impl}, "
                              f"but the parameters are {'valid' if d_ok and t_ok else 'invalid'}")


# ------------------------------------------------------------------ one truncation call

_SHARED = []


def _params(prm, case=None):
    from pytreenet.util.tensor_splitting import SVDParameters
    ctor = (case or {}).get("ctor", "kw")
    vals = [prm[f] for f in FIELDS]
    if ctor == "pos":                   # field order of the dataclass is part of the public signature
        return SVDParameters(*vals)
    if ctor == "omit":                  # documented defaults
        return SVDParameters(**{KWNAMES[f]: prm[f] for f in FIELDS if f not in case["omit"]})
    if ctor in ("set", "reuse"):        # public attributes of a plain dataclass, set after construction
        if ctor == "reuse":
            if not _SHARED:
                _SHARED.append(SVDParameters())
            p = _SHARED[0]
        else:
            p = SVDParameters()
        for f in FIELDS:
            setattr(p, KWNAMES[f], prm[f])
        p.check_truncation_parameters()
        return p
    return SVDParameters(max_bond_dim=prm["D"], rel_tol=prm["rel"], total_tol=prm["tot"], renorm=prm["renorm"],
                         sum_trunc=prm["sum_trunc"], sum_renorm=prm["sum_renorm"])


def _case_trunc(ctx, case, model_out):
    from pytreenet.util import tensor_splitting as ts
    s, prm = [float(x) for x in case["s"]], case["prm"]
    try:
        with warnings.catch_warnings():
            warnings.simplefilter("ignore")
            p = _params(prm, case)
            new_s, s_trunc = ts.truncate_singular_values(make_arr(s, case), p)
            if prm["sum_trunc"]:
                if prm["sum_renorm"] and case.get("ctor") == "omit":       # `norming` omitted: default True
                    direct = int(ts._sum_truncation_index(make_arr(s, case), prm["tot"]))
                    d2 = ts.sum_truncation(make_arr(s, case), prm["tot"])
                else:
                    direct = int(ts._sum_truncation_index(make_arr(s, case), prm["tot"], prm["sum_renorm"]))
                    d2 = ts.sum_truncation(make_arr(s, case), prm["tot"], norming=prm["sum_renorm"])
                if len(d2) != direct or [float(x) for x in d2] != s[:direct]:
                    ctx.oracle_fail(case, f"sum_truncation(s={s}, {prm['tot']}, norming={prm['sum_renorm']}) returns "
                                          f"{[float(x) for x in d2]}, not the prefix s[:{direct}] that "
                                          f"_sum_truncation_index announces")
            else:
                direct = [float(x) for x in ts.value_truncation(make_arr(s, case), prm["tot"], prm["rel"])]
        new_s = np.asarray(new_s, dtype=float).reshape(-1)
        s_trunc = np.asarray(s_trunc, dtype=float).reshape(-1)
    except Exception as e:          # noqa: BLE001
        ctx.oracle_fail(case, f"truncate_singular_values raised {type(e).__name__}: {str(e)[:200]}")
        return
    probs, boundary, info = check_selection(s, prm, new_s, s_trunc)
    k = len(new_s)
    branch = ("cap" if prm["D"] != INF and info.get("sel", 0) > prm["D"] else
              "keep_one" if info.get("sel", 1) == 0 else "all" if k == len(s) else "rule")
    nontriv = branch != "all" or prm["renorm"]
    ctx.count(("trunc", tuple(s), tuple(sorted(prm.items()))), nontrivial=nontriv, corr=not boundary)
    ctx.tally("branch", branch)
    ctx.tally("mode", ("sum" if prm["sum_trunc"] else "value") + ("+renorm" if prm["renorm"] else ""))
    ctx.tally("spectrum", case.get("gen", "?"))
    ctx.tally("len", len(s))
    ctx.tally("parameter_object", case.get("ctor", "kw"))
    for f in case.get("omit", []):
        ctx.tally("omitted_field", KWNAMES[f])
    ctx.tally("spectrum_array", case.get("arr", "f64"))
    ctx.tally("magnitude", "zero" if s[0] == 0 else f"1e{int(math.floor(math.log10(s[0]) / 4) * 4):+d}")
    ctx.tally("exact_tie_at_boundary", bool(info.get("tie")) and not boundary)
    ctx.sample(case, 4)
    if info.get("zero_renorm"):
        ctx.tally("observations", "renorm of an all-zero spectrum (stays zero)")
    if boundary:
        ctx.boundary_skipped += 1
    else:
        # ---- correspondence with the model
        m_main, m_direct = model_out[0], model_out[1]
        if ";" not in m_main:
            ctx.corr_fail(case, f"model answered {m_main!r} for a valid call")
        else:
            mk, md = m_main.split(";")
            if any(not math.isfinite(x) for x in new_s):
                same_k = False
            else:
                mvals = parse_rats(mk)
                if prm["renorm"]:
                    same_k = len(mvals) == k and all(abs(float(a) - float(b)) <= 1e-12 * max(abs(float(b)), 1e-300)
                                                     for a, b in zip(new_s, mvals))
                else:
                    same_k = [_frac(x) for x in new_s] == mvals
            same_d = [_frac(x) for x in s_trunc] == parse_rats(md)
            if not (same_k and same_d):
                ctx.corr_fail(case, f"truncate_singular_values(s={s}, {prm}): impl kept={new_s.tolist()} "
                                    f"discarded={s_trunc.tolist()} model={m_main}")
        if prm["sum_trunc"]:
            if str(direct) != m_direct:
                ctx.corr_fail(case, f"_sum_truncation_index(s={s}, {prm['tot']}, {prm['sum_renorm']}): impl={direct} model={m_direct}")
        else:
            if [_frac(x) for x in direct] != parse_rats(m_direct):
                ctx.corr_fail(case, f"value_truncation(s={s}, tot={prm['tot']}, rel={prm['rel']}): impl={direct} model={m_direct}")
    # ---- oracle
    if probs:
        ctx.oracle_fail(case, f"selection rule: s={s} {prm}: " + "; ".join(probs[:3]))


# ------------------------------------------------------------------ tensor level

def _tsvd_tensor(case):
    import random
    rng = random.Random(case["seed"])
    nprng = np.random.default_rng(case["seed"])
    sh, a, b = case["shape"], case["a"], case["b"]
    m = int(np.prod([sh[i] for i in a], dtype=int))
    n = int(np.prod([sh[i] for i in b], dtype=int))
    k = min(m, n)
    spec = (TSVD_SPECTRA[case["spec"]] + [0.0] * k)[:k]
    cplx = case["complex"]

    def unitary(d, cols):
        x = nprng.standard_normal((d, d)) + (1j * nprng.standard_normal((d, d)) if cplx else 0)
        return np.linalg.qr(x)[0][:, :cols]
    mat = (unitary(m, k) * np.array(spec)) @ unitary(n, k).conj().T * case["scale"]
    t = mat.reshape([sh[i] for i in a] + [sh[i] for i in b])
    return np.ascontiguousarray(np.transpose(t, np.argsort(a + b))), mat


def _case_tsvd(ctx, case):
    """truncated_tensor_svd and contr_truncated_svd_splitting (all three contraction modes) with ARBITRARY truncation
    parameters.  `truncate_singular_values` is wrapped from outside: the selection rule is re-evaluated on the live
    spectrum (check_selection), the returned S must be exactly the kept vector, U / Vh must be the singular vectors
    of the kept values of the ORIGINAL tensor (U^H T Vh^H = diag(s[:k]), isometries), and the two-factor product
    must be c times a best rank-k approximation (Eckart-Young equality; c = the renormalisation factor)."""
    from pytreenet.util import tensor_splitting as ts
    sh, a, b, prm = case["shape"], case["a"], case["b"], case["prm"]
    t, mat = _tsvd_tensor(case)
    m, n = mat.shape
    s_ref = np.linalg.svd(mat, compute_uv=False)
    scale = float(np.linalg.norm(mat)) or 1.0
    calls = []
    orig = ts.truncate_singular_values

    def spy(sv, svd_params):
        res = orig(sv, svd_params)
        calls.append((np.array(sv, dtype=float, copy=True), np.array(res[0], dtype=float, copy=True),
                      np.array(res[1], dtype=float, copy=True)))
        return res
    ua, vb = tuple(a), tuple(b)
    ud, vd = [sh[i] for i in a], [sh[i] for i in b]
    la = "".join(chr(97 + i) for i in a)
    lb = "".join(chr(97 + i) for i in b)
    full = "".join(chr(97 + i) for i in range(len(sh)))
    probs = []
    skipped = False
    nontriv = False
    ts.truncate_singular_values = spy
    try:
        with warnings.catch_warnings():
            warnings.simplefilter("ignore")
            p = _params(prm, case)
            u, sv, vh = ts.truncated_tensor_svd(t.copy(), ua, vb, p)
            outs = {}
            for name, cm in (("vcontr", ts.ContractionMode.VCONTR), ("ucontr", ts.ContractionMode.UCONTR),
                             ("equal", ts.ContractionMode.EQUAL)):
                outs[name] = ts.contr_truncated_svd_splitting(t.copy(), ua, vb, cm, p)
    except Exception as e:          # noqa: BLE001
        ctx.oracle_fail(case, f"truncated SVD of a tensor raised {type(e).__name__}: {str(e)[:200]}")
        return
    finally:
        ts.truncate_singular_values = orig
    if len(calls) != 4:
        probs.append(f"{len(calls)} calls of truncate_singular_values for 4 truncated decompositions")
    else:
        for idx, (s_live, new_s, s_tr) in enumerate(calls):
            if s_live.shape != s_ref.shape or np.max(np.abs(s_live - s_ref)) > 1e-10 * max(s_ref[0], 1e-300):
                probs.append(f"spectrum handed to the truncation {s_live[:5]} is not the spectrum of the matricised "
                             f"tensor {s_ref[:5]}")
                break
            q, boundary, info = check_selection(list(s_live), prm, new_s, s_tr)
            if boundary or (info.get("sel") is not None and _near_boundary(s_live, prm)):
                skipped = True
                continue
            ctx.hyp_validated += 1
            if q:
                probs.append(f"live spectrum {s_live.tolist()}: " + "; ".join(q[:2]))
                break
    if not probs and not skipped:
        s_live, new_s, _ = calls[0]
        k = len(new_s)
        nontriv = k < len(s_live) or prm["renorm"]
        c = float(new_s[0] / s_live[0]) if s_live[0] > 0 else 1.0
        tol = 1e-9 * scale
        if not np.array_equal(np.asarray(sv, dtype=float), new_s):
            probs.append(f"returned S {np.asarray(sv)[:5]} is not the kept vector {new_s[:5]}")
        elif list(u.shape) != ud + [k] or list(vh.shape) != [k] + vd:
            probs.append(f"U / Vh shapes {u.shape} {vh.shape}, expected {ud + [k]} {[k] + vd}")
        else:
            um, vm = u.reshape(-1, k), vh.reshape(k, -1)
            if (np.linalg.norm(um.conj().T @ um - np.eye(k)) > 1e-9 * math.sqrt(k)
                    or np.linalg.norm(vm @ vm.conj().T - np.eye(k)) > 1e-9 * math.sqrt(k)):
                probs.append("truncated U / Vh are not isometries")
            core = np.einsum(f"{la}y,{full},z{lb}->yz", u.conj(), t, vh.conj())
            if np.linalg.norm(core - np.diag(s_live[:k])) > tol:
                probs.append(f"U^H T Vh^H is not diag of the {k} largest singular values (error "
                             f"{np.linalg.norm(core - np.diag(s_live[:k])):.3e}): wrong columns / rows were kept")
        want = float(np.sqrt(np.sum(s_ref[k:] ** 2)))
        for j, name in enumerate(("vcontr", "ucontr", "equal")):
            fa, fb = outs[name]
            _, ns_j, _ = calls[j + 1]
            kj = len(ns_j)
            cj = float(ns_j[0] / s_live[0]) if s_live[0] > 0 else 1.0
            if kj != k or list(fa.shape) != ud + [kj] or list(fb.shape) != [kj] + vd:
                probs.append(f"{name}: factor shapes {fa.shape} {fb.shape}, expected {ud + [k]} {[k] + vd}")
                continue
            prod = np.einsum(f"{la}z,z{lb}->{full}", fa, fb)
            err = float(np.linalg.norm(prod / cj - t))
            if abs(err - want) > tol:
                probs.append(f"{name}: (product / {cj:.6g}) misses the tensor by {err:.6e}; a best rank-{k} "
                             f"approximation misses it by {want:.6e}")
            fam, fbm = fa.reshape(-1, kj), fb.reshape(kj, -1)
            ga, gb = fam.conj().T @ fam, fbm @ fbm.conj().T
            ea, eb = {"vcontr": (0, 2), "ucontr": (2, 0), "equal": (1, 1)}[name]
            big = max(float(ns_j[0]), 1e-300)

            def off(g, e):      # distance of a Gram matrix from S^e, relative to the size of S^e
                return float(np.linalg.norm(g - np.diag(ns_j ** e))) / (big ** e)
            if off(ga, ea) > 1e-8 * math.sqrt(kj) or off(gb, eb) > 1e-8 * math.sqrt(kj):
                probs.append(f"{name}: the (renormalised) singular values are not absorbed as the mode says "
                             f"(Gram matrices of the factors are not S^{ea} and S^{eb})")
    ctx.count(("tsvd", case["seed"], tuple(sh), tuple(a)), nontrivial=nontriv, corr=False)
    ctx.tally("tsvd", "skipped (float boundary)" if skipped else "discarded" if nontriv else "nothing discarded")
    ctx.tally("tsvd_params", ("sum" if prm["sum_trunc"] else "value") + ("+renorm" if prm["renorm"] else ""))
    ctx.tally("tsvd_scale", f"{case['scale']:g}")
    if skipped:
        ctx.boundary_skipped += 1
    if probs:
        ctx.oracle_fail(case, f"tensor-level truncation shape={sh} u={a} v={b} {prm}: " + "; ".join(probs[:3]))


def _near_boundary(s_live, prm) -> bool:
    """Live (rounded) spectra: a decision is not judged when a value / a tail weight is within 1e-9 (relative) of
    its threshold, because the designed spectrum and the computed one differ by round-off."""
    s = [float(x) for x in s_live]
    s0 = s[0]
    if prm["sum_trunc"]:
        tot = prm["tot"]
        if tot in (INF, -INF):
            return False
        total = sum(x * x for x in s)
        thr = tot * tot
        for j in range(len(s)):
            w = sum(x * x for x in s[j:])
            if prm["sum_renorm"] and total > 0:
                w = w / total
            if abs(w - thr) <= 1e-9 * max(w, thr):
                return True
        return False
    cuts = [c for c in ((prm["rel"] * s0 if prm["rel"] not in (INF, -INF) else None),
                        (prm["tot"] if prm["tot"] not in (INF, -INF) else None)) if c is not None]
    return any(abs(x - c) <= 1e-9 * max(abs(x), abs(c)) + 1e-13 * s0 for x in s for c in cuts)


# ------------------------------------------------------------------ tree level

def _build_state(case):
    import random
    from pytreenet.ttns.ttns import TreeTensorNetworkState
    rng = random.Random(case["seed"])
    nprng = np.random.default_rng(case["seed"])
    n = case["n"]
    par = gen.random_parent_array(rng, n)
    bond = gen.random_bonds(rng, par, (1, 2, 3, 3, 4, 5))
    open_dims = {i: [rng.choice((1, 2, 2, 3))] for i in range(n)}
    if case.get("opens") == "mixed":
        # nodes without an open leg (pure branching tensors) and with two open legs
        arng = random.Random(case["seed"] ^ 0x9E3779B1)
        for i in range(n):
            r = arng.random()
            if r < 0.25 and n > 1:
                open_dims[i] = []
            elif r < 0.45:
                open_dims[i] = [arng.choice((1, 2, 2, 3)), arng.choice((1, 2))]
        if not any(open_dims.values()):
            open_dims[0] = [2]
    names = None
    if case.get("names"):
        arng = random.Random(case["seed"] ^ 0x85EBCA6B)
        names = dict(enumerate(arng.sample(NAME_POOL, n)))
    order = gen.insertion_order(rng, par)
    attach = {i: [] for i in range(n)}
    for x in order:
        if par[x] >= 0:
            attach[par[x]].append(x)
    tensors = {}
    for x in range(n):
        dims = ([bond[(par[x], x)]] if par[x] >= 0 else []) + [bond[(x, c)] for c in attach[x]] + open_dims[x]
        t = gen.rand_tensor(nprng, dims, complex_=rng.random() < 0.7)
        if par[x] >= 0 and case["shape"] == "decay":
            d = dims[0]
            dec = np.array([rng.choice([1.0, 0.5, 0.1, 1e-3, 1e-8]) ** j for j in range(d)])
            t = t * dec.reshape([d] + [1] * (t.ndim - 1))
        if par[x] >= 0 and case["shape"] == "lowrank" and dims[0] > 1:
            r = rng.randint(1, dims[0] - 1)
            t[r:] = t[:1] * rng.choice([0.0, 1.0])       # rows beyond r: zero or copies of row 0
        tensors[x] = t
    tensors[0] = tensors[0] * rng.choice([1.0, 1.0, 0.01, 30.0, 1e-6, 1e4])
    if case.get("norm"):
        # a prescribed norm of the state, spread over all tensors (no single tensor is extreme)
        f = case["norm"] ** (1.0 / n)
        tensors = {x: t * f for x, t in tensors.items()}
    ttns, canon, att, names = gen.build_network(TreeTensorNetworkState, par, bond, open_dims, rng, nprng,
                                                order=order, tensors=tensors, names=names)
    if case["method"] == "svd" or rng.random() < 0.3:
        # svd_truncation needs an orthogonality centre (move_orthogonalization_center asserts one);
        # recursive_truncation canonicalises by itself, so it is also fed non-canonical states
        ttns.canonical_form(names[rng.randrange(n)])
    return ttns


def _case_tree(ctx, case):
    try:
        ttns = _build_state(case)
    except Exception as e:          # noqa: BLE001
        raise common.HarnessError(f"C10 tree generator failed: {type(e).__name__}: {e}")
    rounds = [(case["method"], case["prm"], "")]
    if case.get("again"):
        rounds.append((case["again"]["method"], case["again"]["prm"], "second truncation of the same object: "))
    any_disc_total, ncalls_total = False, 0
    for method, prm, label in rounds:
        probs, any_disc, ncalls = _truncate_once(ctx, case, ttns, method, prm)
        if probs is None:
            return
        any_disc_total = any_disc_total or any_disc
        ncalls_total += ncalls
        ctx.tally("tree_method", method + (" (2nd call)" if label else ""))
        ctx.tally("tree_discarded", "some" if any_disc else "nothing")
        if probs:
            ctx.oracle_fail(case, f"{label}{method} truncation, n={case['n']} {prm}: " + "; ".join(probs[:3]))
            break
    ctx.count(("tree", case["seed"], case["n"], case["method"]), nontrivial=any_disc_total or ncalls_total > 0,
              corr=False)
    ctx.tally("tree_nodes", case["n"])
    ctx.tally("tree_identifiers", "prefix pool" if case.get("names") else "n<i>")
    ctx.tally("tree_open_legs", case.get("opens", "one"))
    ctx.tally("tree_norm", f"{case['norm']:g}" if case.get("norm") else "O(1)")
    ctx.sample(case, 6)


def _truncate_once(ctx, case, ttns, method, prm):
    """One call of a tree-level truncation routine, judged on its own (state before = whatever the object holds).
    Returns (problems, something discarded?, number of live truncation calls); problems None = already reported."""
    from pytreenet.util import tensor_splitting as ts
    from pytreenet.core.truncation.recursive_truncation import recursive_truncation
    from pytreenet.core.truncation.svd_truncation import svd_truncation
    order = sorted(ttns.nodes)
    before = copy.deepcopy(ttns)
    v0 = dense.ttns_vector(before, order)
    struct0 = dense.structure(before)
    if method == "svd" and ttns.orthogonality_center_id is None:
        ttns.canonical_form(order[0])         # documented precondition of svd_truncation (see ASSUMPTIONS)
    calls = []
    orig = ts.truncate_singular_values

    def spy(s, svd_params):
        res = orig(s, svd_params)
        calls.append((np.array(s, dtype=float, copy=True), np.array(res[0], dtype=float, copy=True),
                      np.array(res[1], dtype=float, copy=True)))
        return res
    ts.truncate_singular_values = spy
    try:
        with warnings.catch_warnings():
            warnings.simplefilter("ignore")
            p = _params(prm)
            out = recursive_truncation(ttns, p) if method == "recursive" else svd_truncation(ttns, p)
    except Exception as e:          # noqa: BLE001
        ctx.oracle_fail(case, f"{method} truncation raised {type(e).__name__}: {str(e)[:200]}")
        return None, False, 0
    finally:
        ts.truncate_singular_values = orig
    probs = []
    if out is not ttns:
        probs.append("the truncated tree is not the object passed in")
    wf = dense.well_formed(ttns)
    if wf:
        probs.append("result not well-formed: " + "; ".join(wf[:2]))
    struct1 = dense.structure(ttns)
    if struct1 != struct0:
        probs.append(f"identifiers / parent-child relations changed: {struct0} -> {struct1}")
    discarded = 0.0
    any_disc = False
    for s, new_s, s_tr in calls:
        tail = s[len(new_s):]
        discarded += float(np.sum(tail))
        any_disc = any_disc or len(tail) > 0
        # the selection rule on the live spectrum (float spectra: boundary cases are skipped)
        q, boundary, _ = check_selection(list(s), prm, new_s, s_tr)
        if boundary:
            ctx.boundary_skipped += 1
        else:
            ctx.hyp_validated += 1
            if q:
                probs.append(f"live call on spectrum {s.tolist()}: " + "; ".join(q[:2]))
    if not probs and method == "recursive" and calls and len(order) >= 2:
        # "the descending spectrum" a tree truncation acts on is the spectrum of the STATE across the bond.  The first
        # call of recursive_truncation decomposes the root tensor of the state canonicalised at the root, so its spectrum
        # must be the Schmidt spectrum of the state before the call across one of the root's bonds (singular values are
        # perfectly conditioned: absolute error ~ eps * norm).  A routine that trusts a centre recorded elsewhere
        # decomposes an isometry instead (round-4 seed C10-R4A: all other clauses stay satisfied by the wrong spectra).
        s_first = np.sort(np.asarray(calls[0][0], dtype=float))[::-1]
        dims0 = []
        for x in order:                  # all open legs of a node together (a node may have none or several)
            nd = before.nodes[x]
            dims0.append(int(np.prod([int(d) for d in nd.shape[nd.nvirt_legs():]])) if nd.nopen_legs() > 0 else 1)
        T0 = np.asarray(v0).reshape(dims0)
        root = before.root_id
        nrm0 = float(np.linalg.norm(v0))
        matches = []
        for c in before.nodes[root].children:
            sub, stack = [c], [c]
            while stack:
                x = stack.pop()
                for y in before.nodes[x].children:
                    sub.append(y)
                    stack.append(y)
            ax = [order.index(x) for x in sub]
            rest = [i for i in range(len(order)) if i not in ax]
            M = np.transpose(T0, ax + rest).reshape(int(np.prod([dims0[i] for i in ax])), -1)
            sv = np.linalg.svd(M, compute_uv=False)
            k = max(len(sv), len(s_first))
            a = np.zeros(k)
            b = np.zeros(k)
            a[:len(sv)] = sv
            b[:len(s_first)] = s_first
            matches.append(float(np.max(np.abs(a - b))))
        ctx.tally("first_spectrum_checked", True)
        if matches and min(matches) > 1e-8 * max(nrm0, 1e-300):
            probs.append(f"the first truncation acts on the spectrum {s_first[:4].tolist()}, which is not the singular "
                         f"value spectrum of the state across any bond at the root (closest deviation {min(matches):.3e}, "
                         f"norm {nrm0:.3e})")
    if not probs:
        D = prm["D"]
        for nid, node in ttns.nodes.items():
            if node.parent is not None and D != INF and ttns.tensors[nid].shape[0] > D:
                probs.append(f"bond {node.parent}-{nid} has dimension {ttns.tensors[nid].shape[0]} > max_bond_dim {D}")
        v1 = dense.ttns_vector(ttns, order)
        nrm = float(np.linalg.norm(v0))
        if v1.shape != v0.shape:
            probs.append(f"physical dimensions changed: {v0.shape} -> {v1.shape}")
        elif not np.all(np.isfinite(v1)):
            probs.append("the truncated state contains non-finite entries")
        else:
            diff = float(np.linalg.norm(v1 - v0))
            # every slack is relative to the norm of the state (round-off of the QR/SVD sweeps is ~1e-15 * norm);
            # the bound itself is the property's: discarded weight times max(1, norm)
            if not any_disc and diff > 1e-10 * nrm:
                probs.append(f"nothing was discarded but the state changed by {diff:.3e} (norm {nrm:.3e})")
            if not prm["renorm"] and diff > discarded * max(1.0, nrm) + 1e-9 * nrm:
                probs.append(f"state changed by {diff:.6e} > discarded weight {discarded:.6e} * max(1, {nrm:.3e}) "
                             f"+ round-off 1e-9 * norm")
    return probs, any_disc, len(calls)


# ------------------------------------------------------------------ value level

VALUE_KINDS = ["identity", "perm", "select", "select", "general"]


def gen_value_cases(ctx):
    rng = ctx.subrng("value")            # own stream: the other streams replay unchanged
    cases = []
    for _ in range(ctx.n(60, 600)):
        cases.append({"kind": "value", "seed": rng.randrange(10 ** 9), "n": rng.choice([2, 3, 3, 4, 4, 5]),
                      "mode": rng.choice(["one", "one", "run", "run", "rt"])})
    return cases


def _int_state(case):
    """A small tree state with integer tensors (real, entries -2..2), built through the public API."""
    import random
    from pytreenet.ttns.ttns import TreeTensorNetworkState
    rng = random.Random(case["seed"])
    nprng = np.random.default_rng(case["seed"])
    n = case["n"]
    par = gen.random_parent_array(rng, n)
    bond = gen.random_bonds(rng, par, (1, 2, 2, 2, 3))
    open_dims = {i: [rng.choice((1, 2, 2))] for i in range(n)}
    order = gen.insertion_order(rng, par)
    attach = {i: [] for i in range(n)}
    for x in order:
        if par[x] >= 0:
            attach[par[x]].append(x)
    tensors = {}
    for x in range(n):
        dims = ([bond[(par[x], x)]] if par[x] >= 0 else []) + [bond[(x, c)] for c in attach[x]] + open_dims[x]
        tensors[x] = nprng.integers(-2, 3, size=tuple(dims)).astype(float)
    ttns, _, _, _ = gen.build_network(TreeTensorNetworkState, par, bond, open_dims, rng, nprng, order=order,
                                      tensors=tensors)
    return ttns, rng


def _flat_network(ttns, order):
    """The flat network of the state: one leg number per (node, axis); a bond = (parent's leg, child's leg)."""
    dims, leaves, legnum = [], [], {}
    for nid in ttns.nodes:
        t = np.asarray(ttns.tensors[nid])
        ll = []
        for lab, d in zip(dense.node_labels(ttns, nid), t.shape):
            legnum[(nid, lab)] = len(dims)
            ll.append(len(dims))
            dims.append(int(d))
        leaves.append((ll, np.round(t.real).astype(np.int64)))
    bonds = {}
    for nid, node in ttns.nodes.items():
        if node.parent is not None:
            lab = ("e", "", node.parent, nid)
            bonds[(node.parent, nid)] = (legnum[(node.parent, lab)], legnum[(nid, lab)])
    free = [legnum[(nid, ("o", "", nid, k))] for nid in order for k in range(ttns.nodes[nid].nopen_legs())]
    return dims, free, bonds, leaves


def _trunc_order(ttns):
    """(parent, child) in the order `truncate_node` cuts the bonds (= `Ptn.C10.truncOrder`)."""
    out = []

    def rec(nid):
        cs = list(ttns.nodes[nid].children)
        out.extend((nid, c) for c in cs)
        for c in cs:
            rec(c)
    rec(ttns.root_id)
    return out


def _int_projector(rng, d, kind):
    """Integer matrix P of shape (d, k) (leg order of `get_truncation_projector`: child leg, new leg)."""
    perm = list(range(d))
    rng.shuffle(perm)
    pm = np.zeros((d, d))
    for i, j in enumerate(perm):
        pm[i, j] = 1.0
    if kind == "identity":
        return np.eye(d)
    if kind == "perm":
        return pm
    if kind == "select":
        return pm[:, :rng.randint(1, d)]
    k = rng.randint(1, d)
    return np.array([[float(rng.randint(-1, 2)) for _ in range(k)] for _ in range(d)])


def _vsize(dims, free, pairs):
    size = 1
    for a, _ in pairs:
        size *= dims[a]
    for l in free:
        size *= dims[l]
    return size


def _prepare_value(ctx, case):
    """Runs the library; returns (lines, judge) where judge(tables) reports; None when the case was settled."""
    from harness import einsum_corr
    from pytreenet.core.truncation.recursive_truncation import (insert_projection_operator_and_conjugate,
                                                                recursive_truncation)
    try:
        ttns, rng = _int_state(case)
    except Exception as e:          # noqa: BLE001
        raise common.HarnessError(f"C10 value generator failed: {type(e).__name__}: {e}")
    order = sorted(ttns.nodes)
    dims, free, bonds, leaves = _flat_network(ttns, order)
    v0 = dense.ttns_vector(ttns, order)
    mode = case["mode"]
    ctx.tally("value_mode", mode)
    ctx.tally("value_nodes", case["n"])
    if not bonds:
        mode = "rt"                 # a single node: only the whole routine is left
    plain = lambda skip=(): [bonds[e] for e in bonds if e not in skip]      # noqa: E731
    lines = [einsum_corr.einrec_line(dims, free, plain(), leaves)]          # [0]: the original network
    if mode == "rt":
        work = copy.deepcopy(ttns)
        try:
            with warnings.catch_warnings():
                warnings.simplefilter("ignore")
                recursive_truncation(work, SVDParameters_full())
            v1 = dense.ttns_vector(work, order)
        except Exception as e:      # noqa: BLE001
            ctx.oracle_fail(case, f"value/rt: recursive_truncation with nothing to discard raised "
                                  f"{type(e).__name__}: {str(e)[:160]}")
            return None

        def judge(tabs):
            ctx.count(("value", "rt", case["seed"]), nontrivial=len(bonds) >= 1, corr=True)
            m0 = np.array(tabs[0], dtype=float)
            if m0.shape != v0.shape or np.any(m0 != v0.real) or np.any(v0.imag != 0):
                ctx.corr_fail(case, f"value: model netValue of the integer state {m0[:6]} != dense state {v0[:6]}")
                return
            # round-off of the QR / SVD passes is relative to the size of the TENSORS, not of the contracted vector:
            # integer tensors may contract to exactly zero (false alarm at ten-fold budget: |after| = 3e-15, state 0)
            tscale = float(np.prod([max(float(np.linalg.norm(ttns.tensors[x])), 1.0) for x in ttns.nodes]))
            nrm = max(float(np.linalg.norm(m0)), tscale, 1e-300)
            if v1.shape != m0.shape or float(np.linalg.norm(v1 - m0)) > 1e-10 * nrm:
                ctx.oracle_fail(case, f"value/rt: recursive_truncation with max_bond_dim=inf and tolerances -inf (nothing "
                                      f"discarded) changed the state: |after - model value of the original network| = "
                                      f"{float(np.linalg.norm(v1 - m0)):.3e} (norm {nrm:.3e})")
        return lines, judge
    # hand insertions through the library's own insertion routine
    edges = _trunc_order(ttns)
    if mode == "one":
        edges = [rng.choice(edges)]
    steps, states = [], [v0]
    work = copy.deepcopy(ttns)
    nxt = len(dims)
    dims2 = list(dims)
    for (p, c) in edges:
        a, b = bonds[(p, c)]
        d = dims[a]
        kind = rng.choice(VALUE_KINDS)
        P = _int_projector(rng, d, kind)
        k = P.shape[1]
        try:
            insert_projection_operator_and_conjugate(c, p, P.copy(), work)
            states.append(dense.ttns_vector(work, order))
        except Exception as e:      # noqa: BLE001
            ctx.oracle_fail(case, f"value: insert_projection_operator_and_conjugate({c!r}, {p!r}, {kind} projector "
                                  f"{P.shape}) raised {type(e).__name__}: {str(e)[:160]}")
            return None
        a1, kk, kk1, b1 = nxt, nxt + 1, nxt + 2, nxt + 3
        nxt += 4
        dims2 += [d, k, k, d]
        Pi = np.round(P.conj() @ P.T).astype(np.int64)          # the matrix on the bond, rows: parent side
        steps.append({"edge": (p, c), "a": a, "b": b, "a1": a1, "b1": b1, "k": kk, "k1": kk1, "kind": kind,
                      "P": np.round(P).astype(np.int64), "Pi": Pi, "complete": bool(np.array_equal(Pi, np.eye(d)))})
        ctx.tally("value_projector", kind)
    # model lines.  For step t: L_t = network with P, Pc leaves on the bonds 0..t (left-hand side of
    # projector_matrix_value, what the library built); M_t = the same with the matrices Pi on the bonds (right-hand side);
    # D_t = Pi on the bonds < t, 1 - Pi_t on bond t, later bonds plain (stepDefect of the telescoping theorem)
    def net(upto, form, defect=None):
        ls = list(leaves)
        prs = plain(skip=[st["edge"] for st in steps[:upto]])
        for j, st in enumerate(steps[:upto]):
            if form == "pp":
                ls += [([st["a1"], st["k"]], st["P"]), ([st["k1"], st["b1"]], st["P"].T)]
                prs += [(st["a"], st["a1"]), (st["k"], st["k1"]), (st["b1"], st["b"])]
            else:
                mat = st["Pi"]
                if defect is not None and j == defect:
                    mat = np.eye(mat.shape[0], dtype=np.int64) - mat
                ls += [([st["a1"], st["b1"]], mat)]
                prs += [(st["a"], st["a1"]), (st["b1"], st["b"])]
        return dims2, free, prs, ls
    plan = []
    for t in range(len(steps)):
        for form, defect in (("pp", None), ("mat", None), ("mat", t)):
            dd, ff, prs, ls = net(t + 1, form, defect)
            if _vsize(dd, ff, prs) > 30000:
                ctx.tally("value_mode", "skipped (too large)")
                return None
            plan.append((t, form, defect))
            lines.append(einsum_corr.einrec_line(dd, ff, prs, ls))

    def judge(tabs):
        ctx.count(("value", mode, case["seed"]), nontrivial=any(not st["complete"] for st in steps) or len(steps) > 1,
                  corr=True)
        if any(tb is None for tb in tabs):
            ctx.corr_fail(case, "value: the value-level model rejects a flat network built from the library's tensors")
            return
        m0 = np.array(tabs[0], dtype=float)
        if m0.shape != v0.shape or np.any(m0 != v0.real) or np.any(v0.imag != 0):
            ctx.corr_fail(case, f"value: model netValue of the integer state {m0[:6]} != dense state {v0[:6]}")
            return
        got = {key: np.array(tb, dtype=float) for key, tb in zip(plan, tabs[1:])}
        total = np.zeros_like(m0)
        for t, st in enumerate(steps):
            lib_before, lib_after = states[t].real, states[t + 1].real
            what = f"bond {st['edge']}, {st['kind']} projector {st['P'].shape}"
            if st["complete"] and np.any(lib_after != lib_before):
                ctx.oracle_fail(case, f"value: a complete projector (P.Pc = 1) inserted on {what} changed the state "
                                      f"(identity clause)")
                return
            if np.any(got[(t, "mat", t)] != lib_before - lib_after):
                ctx.oracle_fail(case, f"value: state before - state after the insertion on {what} is not the network with "
                                      f"1 - P.Pc on that bond (projector_linear_value): {(lib_before - lib_after)[:6]} vs "
                                      f"{got[(t, 'mat', t)][:6]}")
                return
            if np.any(got[(t, "pp", None)] != lib_after):
                ctx.corr_fail(case, f"value: after the insertion on {what} the library's dense state {lib_after[:6]} != model "
                                    f"netValue of the network with P, Pc on the bond {got[(t, 'pp', None)][:6]}")
                return
            if np.any(got[(t, "mat", None)] != got[(t, "pp", None)]):
                ctx.corr_fail(case, f"value: model: network with P, Pc != network with the matrix P.Pc on {what} "
                                    f"(contradicts projector_matrix_value)")
                return
            total += got[(t, "mat", t)]
        if np.any(total != states[0].real - states[-1].real):
            ctx.oracle_fail(case, "value: the change of the state over the run of insertions is not the telescoping sum of "
                                  "the single-step defects (recursive_truncation_value_telescope)")
        ctx.sample(case, 8)
    return lines, judge


def SVDParameters_full():
    from pytreenet.util.tensor_splitting import SVDParameters
    return SVDParameters(max_bond_dim=INF, rel_tol=-INF, total_tol=-INF)


def run_values(ctx, cases):
    """All value cases: the library first, one batch for the model, then the verdicts."""
    from harness import einsum_corr
    prepared, lines = [], []
    for case in cases:
        if ctx.time_left() < 0:
            break
        res = _prepare_value(ctx, case)
        if res is None:
            continue
        ls, judge = res
        prepared.append((len(lines), len(ls), judge))
        lines.extend(ls)
    outs = ctx.lean.batch(lines) if lines else []
    for a, n, judge in prepared:
        judge([einsum_corr.parse_table(x, "full") for x in outs[a:a + n]])


# ------------------------------------------------------------------ shrinking

def shrink(case):
    if case["kind"] == "trunc":
        s = case["s"]
        for i in range(len(s)):
            if len(s) > 1:
                yield dict(case, s=s[:i] + s[i + 1:])
        prm = case["prm"]
        if case.get("ctor", "kw") != "kw":
            yield {k: v for k, v in dict(case, ctor="kw").items() if k != "omit"}
        if case.get("arr", "f64") != "f64":
            yield dict(case, arr="f64")
        for key, val in (("renorm", False), ("D", INF), ("rel", -INF), ("tot", -INF if not prm["sum_trunc"] else 0.0)):
            if prm[key] != val:
                c = dict(case, prm=dict(prm, **{key: val}))
                if key in c.get("omit", []):
                    c["omit"] = [f for f in c["omit"] if f != key]
                    if not c["omit"]:
                        c["ctor"] = "kw"
                yield c
    elif case["kind"] == "tree":
        if case["n"] > 1:
            yield dict(case, n=case["n"] - 1)
        if case["shape"] != "random":
            yield dict(case, shape="random")
        if case["prm"]["renorm"]:
            yield dict(case, prm=dict(case["prm"], renorm=False))
        for key, val in (("again", None), ("names", False), ("opens", "one"), ("norm", None)):
            if case.get(key):
                yield dict(case, **{key: val})
    elif case["kind"] == "value":
        if case["n"] > 2:
            yield dict(case, n=case["n"] - 1)
        if case["mode"] == "run":
            yield dict(case, mode="one")
    elif case["kind"] == "tsvd":
        if case["scale"] != 1.0:
            yield dict(case, scale=1.0)
        if case["complex"]:
            yield dict(case, complex=False)
        prm = case["prm"]
        for key, val in (("renorm", False), ("D", INF), ("rel", -INF), ("tot", -INF if not prm["sum_trunc"] else 0.0)):
            if prm[key] != val:
                yield dict(case, prm=dict(prm, **{key: val}))
