"""C11 — tensor QR/SVD reproduce the tensor for every leg bipartition and mode.

Stage B (correspondence with Lean model Ptn.C11): shapes of Q,R / U,S,Vh / truncated SVD for every
mode, including which inputs are rejected (leg lists that are not a bipartition; KEEP with an empty
second side), and which factor absorbs the singular values in each contraction mode (observed through
column / row norms), all compared exactly with the model.
Stage C (oracle): einsum reconstruction of the input from the factors with the documented leg order
(FULL SVD: leading len(S) columns / rows), isometry of Q, U, Vh (KEEP: Q^H Q an orthogonal projector),
S >= 0 descending, prescribed bond dimension, KEEP single-leg shape, all contraction modes give the
same product, truncated SVD attains the Eckart-Young error.
Value level (`tdot`): the Lean model `arrTensordot` (NumPy's implementation of `tensordot` - transpose, reshape,
matrix product, reshape - on shape + flat C-order data; proved to compute `Ptn.Ein.sumPairs`) is compared exactly with
`numpy.tensordot` on small integer arrays, including which requests are rejected; oracle: the definition of the
contraction as one `numpy.einsum` over labelled axes.
"""
from __future__ import annotations

import itertools
import math
import random
import string
import warnings

import numpy as np
from harness.common import hash_str

from harness import common

RULE = ("cases: tensors of order 1-6 with dims from {1,2,3,5} (size-capped), every subset of legs as first side "
        "(all subsets per shape in the thorough tier, sampled in quick; either side may be empty) with random "
        "orders inside each side (natural, reversed, shuffled; lists in natural order to reach the "
        "no-transposition path), modes REDUCED/FULL/KEEP for QR and SVD, real and complex entries, "
        "full-rank / rank-deficient / integer / zero tensors, all contraction modes with truncation disabled, "
        "truncated SVD with a bond cap, and leg lists that are not a bipartition. Input-space audit: the optional "
        "`mode` omitted / positional / keyword, contr_truncated_svd_splitting with both optional arguments omitted "
        "(documented defaults), input arrays in C / Fortran order, as offset or strided views and read-only, single "
        "precision, overall scales 1e-12 .. 1e8, NumPy integers as legs, tensor_matricization(correctly_ordered=True) "
        "and transpose_tensor_by_leg_list called directly. Family `tdot`: two integer arrays of order 0-4 with dims "
        "from {1,2,3}, 0..min(order) contracted axis pairs at random positions in random order (none contracted, all "
        "contracted, dimension-1 axes), every fifth request malformed (unequal dimensions, a repeated axis, an axis out "
        "of range, axis lists of different length). "
        "non-trivial = distinct case with a non-identity leg permutation, an empty side, a wide or tall "
        "matricisation under FULL/KEEP, a rank-deficient tensor, or a rejected input")
PARTIAL = ["numerical clauses: that Q R = M, U S Vh = M entrywise, that Q/U/Vh are isometries and S >= 0 descending is the "
           "contract of numpy.linalg.qr / numpy.linalg.svd (hypothesis of the theorems, validated on every live call). "
           "GIVEN the contract, reconstruction of the tensor with the documented leg order is proved at the level of "
           "entries for all modes (matricize_unmatricize, qr_reconstructs, keep_reconstructs incl. zero padding, "
           "svd_reconstructs incl. FULL's leading len(S) columns/rows), on a value-level model of transpose / C-order "
           "reshape / pad (Ptn/C11/Value.lean) that is compared with NumPy on every QR/SVD case (`matidx`)",
           "that np.transpose / np.reshape / np.pad / np.dot implement that value-level model is trusted (DESIGN.md section 2) "
           "and exercised by the matidx comparison, the einsum reconstruction and the `tdot` family; GIVEN that model, "
           "numpy.tensordot (its Python implementation transcribed as arrTensordot) is PROVED to compute the labelled "
           "contraction Ptn.Ein.sumPairs / Expr.dot (arr_tensordot_entry, arr_tensordot_is_sumPairs, arr_tensordot_is_dot; whole "
           "programs of nested calls: tensordot_program_is_eval), "
           "to accept exactly the well-formed requests (arr_tensordot_accepts_iff), and a transposition to be a relabelling "
           "(arr_transpose_relabel)"]
ASSUMPTIONS = ["leg lists contain non-negative Python ints (NumPy would also accept negative axes)",
               "both leg lists have the same sequence type (tuple + list raises TypeError in the library)"]

TOL = 1e-10          # relative to the norm of the tensor (every slack scales with the data)
ISO_TOL = 1e-9       # isometries have entries of order one whatever the data; grows with sqrt(bond)


def _scale(t) -> float:
    nrm = float(np.linalg.norm(t))
    return nrm if nrm > 0 and math.isfinite(nrm) else 1.0


def _iso_tol(bond) -> float:
    return ISO_TOL * max(1.0, math.sqrt(max(int(bond), 1)))
LETTERS = string.ascii_lowercase


def _prod(xs):
    out = 1
    for x in xs:
        out *= int(x)
    return out


def tok_list(xs):
    return " ".join(str(int(x)) for x in xs)


def line_three(cmd, shape, a, b):
    return f"C11 {cmd} {tok_list(shape)} | {tok_list(a)} | {tok_list(b)}".replace("  ", " ")


def fmt_shape(sh):
    return ",".join(str(int(x)) for x in sh) if len(sh) else "-"


# ------------------------------------------------------------------ generation

def gen_shape(rng):
    order = rng.choice([1, 2, 2, 3, 3, 3, 4, 4, 4, 5, 5, 6])
    while True:
        sh = [rng.choice([1, 1, 2, 2, 3, 5]) for _ in range(order)]
        if _prod(sh) <= 720:
            return sh


def side_orders(rng, legs, k):
    """k orderings of a side: natural, reversed, random."""
    legs = list(legs)
    outs = [legs, legs[::-1]]
    for _ in range(k):
        p = legs[:]
        rng.shuffle(p)
        outs.append(p)
    return outs


LAYOUTS = ["c", "c", "c", "f", "view", "strided", "readonly"]


def _audit_fields(rng, case):
    """Input-space audit (notes/C11.md): memory layout of the input array, single-precision element types,
    how the optional `mode` argument is passed (omitted / positional / keyword), NumPy integers as legs."""
    r = random.Random(rng.randrange(10 ** 9))      # one draw from the main stream, the rest from a private one
    case["layout"] = r.choice(LAYOUTS)
    case["f32"] = r.random() < 0.15
    if case["kind"] in ("qr", "svd"):
        case["call"] = "omit" if (case["mode"] == "reduced" and r.random() < 0.6) else r.choice(["pos", "kw"])
    case["npint"] = r.random() < 0.15 and not case.get("aslist")
    return case


def gen_cases(ctx):
    rng = ctx.rng
    cases = []
    n_shapes = ctx.n(330, 1200)
    modes = ["reduced", "full", "keep"]
    for _ in range(n_shapes):
        sh = gen_shape(rng)
        n = len(sh)
        subsets = [tuple(c) for r in range(n + 1) for c in itertools.combinations(range(n), r)]
        if ctx.tier == "quick" and ctx.scale == 1:
            pick = {(), tuple(range(n))} if rng.random() < 0.35 else set()
            while len(pick) < min(3, len(subsets)):
                pick.add(rng.choice(subsets))
            subsets = sorted(pick)
        for sub in subsets:
            rest = [i for i in range(n) if i not in sub]
            q = rng.choice(side_orders(rng, sub, 1))
            r = rng.choice(side_orders(rng, rest, 1))
            kind = rng.choice(["qr", "qr", "svd", "svd", "contr"])
            case = {"kind": kind, "shape": sh, "a": list(q), "b": list(r), "mode": rng.choice(modes),
                    "complex": rng.random() < 0.5,
                    "fill": rng.choice(["normal", "normal", "lowrank", "lowrank", "int", "zero", "dupcol"]),
                    "seed": rng.randrange(10 ** 9),
                    "aslist": rng.random() < 0.25,
                    "scale": rng.choice([1.0, 1.0, 1.0, 1e-6, 1e3, 1e6, 1e-12, 1e8, 1e-8])}
            if kind == "contr":
                case["cap"] = rng.choice([1, 1, 2, 3])
            _audit_fields(rng, case)
            cases.append(case)
    # natural order with lists (the `correctly_ordered` path) and single-leg KEEP, always present
    for _ in range(ctx.n(60, 300)):
        sh = gen_shape(rng)
        n = len(sh)
        cut = rng.randint(0, n)
        cases.append({"kind": rng.choice(["qr", "svd"]), "shape": sh, "a": list(range(cut)), "b": list(range(cut, n)),
                      "mode": rng.choice(modes), "complex": rng.random() < 0.5, "fill": "normal",
                      "seed": rng.randrange(10 ** 9), "aslist": True})
        j = rng.randrange(n)
        others = [i for i in range(n) if i != j]
        if rng.random() < 0.5:
            rng.shuffle(others)
        cases.append({"kind": "qr", "shape": sh, "a": others, "b": [j], "mode": "keep", "complex": rng.random() < 0.5,
                      "fill": rng.choice(["normal", "lowrank"]), "seed": rng.randrange(10 ** 9), "aslist": False})
    # invalid leg lists
    for _ in range(ctx.n(100, 400)):
        sh = gen_shape(rng)
        n = len(sh)
        legs = list(range(n))
        rng.shuffle(legs)
        how = rng.choice(["dup", "missing", "range", "extra"])
        if how == "dup":
            legs[rng.randrange(n)] = legs[rng.randrange(n)] if n > 1 else 0
            if sorted(legs) == list(range(n)):
                legs[0] = legs[-1] if n > 1 else 1
        elif how == "missing":
            legs = legs[:-1]
        elif how == "range":
            legs[rng.randrange(n)] = n + rng.randint(0, 2)
        else:
            legs = legs + [rng.randrange(n)]
        cut = rng.randint(0, len(legs))
        cases.append({"kind": "invalid", "shape": sh, "a": legs[:cut], "b": legs[cut:], "mode": rng.choice(modes),
                      "dec": rng.choice(["qr", "svd"]), "seed": rng.randrange(10 ** 9), "how": how})
    return cases


def build_tensor(case):
    t = _build_tensor(case)
    sc = case.get("scale", 1.0)
    t = t * sc if sc != 1.0 else t
    if case.get("f32") and t.dtype.kind in "fc":
        t = t.astype(np.complex64 if t.dtype.kind == "c" else np.float32)
    return t


def layout(t, case):
    """The array object handed to the library: same values as `t`, other memory layout / flags.  The oracle
    always compares with `t` (taken before the call), i.e. with the ORIGINAL tensor."""
    how = case.get("layout", "c")
    if how == "f":
        return np.asfortranarray(t)
    if how == "view" and t.ndim:                    # interior of a larger array: non-contiguous, offset
        big = np.full(tuple(d + 2 for d in t.shape), 7, dtype=t.dtype)
        sl = tuple(slice(1, d + 1) for d in t.shape)
        big[sl] = t
        return big[sl]
    if how == "strided" and t.ndim:                 # every second entry along the last axis
        big = np.full(t.shape[:-1] + (2 * t.shape[-1],), 7, dtype=t.dtype)
        big[..., ::2] = t
        return big[..., ::2]
    a = t.copy()
    if how == "readonly":
        a.flags.writeable = False
    return a


def _mult(t) -> float:
    """Tolerances are stated for double precision; single precision inputs get eps(float32)/eps(float64) ~ 1e5 more."""
    return 1e5 if t.dtype in (np.float32, np.complex64) else 1.0


def _build_tensor(case):
    sh = tuple(case["shape"])
    rng = random.Random(case["seed"])
    nprng = np.random.default_rng(case["seed"])
    cplx = case.get("complex", False)
    fill = case.get("fill", "normal")

    def rnd(shape):
        x = nprng.standard_normal(shape)
        return x + 1j * nprng.standard_normal(shape) if cplx else x
    if fill == "zero":
        return np.zeros(sh, dtype=complex if cplx else float)
    if fill == "int":
        t = nprng.integers(-2, 3, size=sh).astype(float)
        if not cplx and nprng.random() < 0.5:
            # a genuinely integer-typed array (hand-written tensors): results must not inherit the integer type
            return nprng.integers(-2, 3, size=sh).astype(np.int64)
        return t + 1j * nprng.integers(-2, 3, size=sh) if cplx else t
    if fill in ("lowrank", "dupcol"):
        a, b = case["a"], case["b"]
        if sorted(a + b) == list(range(len(sh))):
            m = _prod(sh[i] for i in a)
            n = _prod(sh[i] for i in b)
            k = min(m, n)
            if fill == "lowrank":
                r = rng.randint(0, max(k - 1, 0)) if k > 1 else k
                mat = rnd((m, r)) @ rnd((r, n)) if r > 0 else np.zeros((m, n), dtype=complex if cplx else float)
            else:
                mat = rnd((m, n))
                if n > 1:
                    mat[:, -1] = mat[:, 0]
                if m > 1:
                    mat[-1, :] = mat[0, :]
            t = mat.reshape([sh[i] for i in a] + [sh[i] for i in b])
            return np.ascontiguousarray(np.transpose(t, np.argsort(a + b)))
    return rnd(sh)


# ------------------------------------------------------------------ tensordot (value-level model of numpy.tensordot)

def gen_tdot_cases(ctx):
    """Random `numpy.tensordot` requests on small integer arrays (private random stream: the other families are
    unchanged).  Every fifth request is malformed."""
    rng = ctx.subrng("tdot")
    cases = []
    dims = [1, 2, 2, 3, 3]
    for k in range(ctx.n(400, 4000)):
        while True:
            na, nb = rng.choice([0, 1, 2, 2, 3, 3, 4]), rng.choice([0, 1, 2, 2, 3, 3, 4])
            style = rng.choice(["none", "all", "all", "rand", "rand", "rand", "rand", "rand"])
            c = {"none": 0, "all": min(na, nb)}.get(style, rng.randint(min(1, na, nb), min(na, nb)))
            if style == "all":
                if rng.random() < 0.5:
                    na = nb = c                        # both arrays fully contracted: a scalar
                elif rng.random() < 0.5:
                    nb = c
            cd = [rng.choice(dims) for _ in range(c)]
            ia = rng.sample(range(na), c)
            ib = rng.sample(range(nb), c)
            sa = [rng.choice(dims) for _ in range(na)]
            sb = [rng.choice(dims) for _ in range(nb)]
            for d, x, y in zip(cd, ia, ib):
                sa[x] = d
                sb[y] = d
            if k % 5 == 4 and c == 0 and rng.random() < 0.8:
                continue                               # malformed requests mostly derive from a real contraction
            if _prod(sa) <= 120 and _prod(sb) <= 120 and _prod(sa) * _prod(sb) <= 1500 * max(1, _prod(cd)) ** 2:
                break
        bad = None
        if k % 5 == 4:
            bad = rng.choice(["dim", "repeat", "range", "length"])
            if bad == "dim":
                if c == 0:
                    bad = "length"
                else:
                    j = rng.randrange(c)
                    sb[ib[j]] = rng.choice([d for d in (1, 2, 3, 4) if d != sa[ia[j]]])
            if bad == "repeat":
                if c == 0 or (c == 1 and rng.random() < 0.5 and na >= 1 and nb >= 1):
                    if na >= 1 and nb >= 1 and sa[0] == sb[0]:
                        ia, ib = [0, 0], [0, 0]        # the same axis twice on both sides
                    else:
                        bad = "length"
                else:
                    j = rng.randrange(c)
                    which = rng.choice(["a", "b"])
                    if which == "a":
                        ia = ia + [ia[j]]
                        extra = [y for y in range(nb) if y not in ib and sb[y] == sa[ia[j]]]
                        ib = ib + [rng.choice(extra) if extra else ib[j]]
                    else:
                        ib = ib + [ib[j]]
                        extra = [x for x in range(na) if x not in ia and sa[x] == sb[ib[j]]]
                        ia = ia + [rng.choice(extra) if extra else ia[j]]
            if bad == "range":
                if c == 0:
                    ia, ib = [na + rng.randint(0, 1)], [nb + rng.randint(0, 1)]
                else:
                    j = rng.randrange(c)
                    if rng.random() < 0.5:
                        ia = ia[:j] + [na + rng.randint(0, 2)] + ia[j + 1:]
                    else:
                        ib = ib[:j] + [nb + rng.randint(0, 2)] + ib[j + 1:]
            if bad == "length":
                if c >= 1 and rng.random() < 0.6:
                    if rng.random() < 0.5:
                        ia = ia[:-1]
                    else:
                        ib = ib[:-1]
                else:
                    free_a = [x for x in range(na) if x not in ia]
                    free_b = [y for y in range(nb) if y not in ib]
                    if free_a and (not free_b or rng.random() < 0.5):
                        ia = ia + [rng.choice(free_a)]
                    elif free_b:
                        ib = ib + [rng.choice(free_b)]
                    else:
                        bad = None                     # two scalars: nothing to break
        cases.append({"kind": "tdot", "sa": sa, "sb": sb, "ia": list(ia), "ib": list(ib),
                      "seed": rng.randrange(10 ** 9), "bad": bad})
    return cases


def _tdot_arrays(case):
    nprng = np.random.default_rng(case["seed"])
    a = nprng.integers(-4, 5, size=tuple(case["sa"])).astype(np.int64)
    b = nprng.integers(-4, 5, size=tuple(case["sb"])).astype(np.int64)
    return a, b


def _csv(xs):
    return ",".join(str(int(x)) for x in xs) or "-"


def _tdot_line(case):
    a, b = _tdot_arrays(case)
    return " ".join(["C11", "tdot", _csv(case["sa"]), _csv(a.reshape(-1)), _csv(case["sb"]), _csv(b.reshape(-1)),
                     _csv(case["ia"]), _csv(case["ib"])])


def _tdot_definition(a, b, ia, ib):
    """The definition of the contraction, independent of numpy.tensordot: one einsum over labelled axes - the axes of
    `a` are labelled 0.., those of `b` after them, a contracted axis of `b` takes the label of its partner; output =
    remaining labels of `a`, then of `b`.  Returns None when the request is not well formed."""
    na, nb = a.ndim, b.ndim
    if len(ia) != len(ib) or len(set(ia)) != len(ia) or len(set(ib)) != len(ib):
        return None
    if any(x >= na for x in ia) or any(y >= nb for y in ib):
        return None
    if any(a.shape[x] != b.shape[y] for x, y in zip(ia, ib)):
        return None
    la = list(range(na))
    lb = [na + y for y in range(nb)]
    for x, y in zip(ia, ib):
        lb[y] = la[x]
    out = [la[x] for x in range(na) if x not in ia] + [na + y for y in range(nb) if y not in ib]
    return np.einsum(a, la, b, lb, out)


def _case_tdot(ctx, case, model_out):
    a, b = _tdot_arrays(case)
    ia, ib = case["ia"], case["ib"]
    c = len(ia)
    ref = _tdot_definition(a, b, ia, ib)
    wellformed = ref is not None
    ctx.tally("tdot_request", case.get("bad") or "ok")
    ctx.tally("tdot_contracted", f"{c} of ({a.ndim},{b.ndim})")
    ctx.tally("tdot_dim1", any(a.shape[x] == 1 for x in ia if x < a.ndim))
    key = ("tdot", tuple(case["sa"]), tuple(case["sb"]), tuple(ia), tuple(ib), case["seed"])
    ctx.count(key, nontrivial=(not wellformed) or (c >= 1 and a.ndim + b.ndim >= 3), corr=True)
    try:
        got = np.tensordot(a, b, axes=(list(ia), list(ib)))
        err = None
    except Exception as e:              # noqa: BLE001
        got, err = None, type(e).__name__
    if model_out == "bad-op":
        ctx.corr_fail(case, "tdot: the driver did not understand the request")
        return
    if err is not None:
        if wellformed:
            ctx.oracle_fail(case, f"tdot: numpy.tensordot raised {err} on a well-formed request {case['sa']} {case['sb']} "
                                  f"axes {ia} {ib}")
        if model_out != "error":
            ctx.corr_fail(case, f"tdot: numpy.tensordot rejects shapes {case['sa']} {case['sb']} axes {ia} {ib} ({err}), "
                                f"the model answers {model_out[:100]}")
        elif wellformed:
            ctx.corr_fail(case, "tdot: model and NumPy both reject a well-formed request")
        return
    if not wellformed:
        ctx.oracle_fail(case, f"tdot: numpy.tensordot accepts the malformed request shapes {case['sa']} {case['sb']} "
                              f"axes {ia} {ib}")
        if model_out != "error":
            ctx.corr_fail(case, f"tdot: the model accepts a malformed request: {model_out[:100]}")
        return
    if model_out == "error":
        ctx.corr_fail(case, f"tdot: the model rejects shapes {case['sa']} {case['sb']} axes {ia} {ib}, numpy.tensordot "
                            f"returns shape {list(got.shape)}")
        return
    want = f"shape={_csv(got.shape)} data={_csv(np.asarray(got).reshape(-1))}"
    if model_out != want:
        ctx.corr_fail(case, f"tdot: shapes {case['sa']} {case['sb']} axes {ia} {ib}: model [{model_out[:160]}] != "
                            f"numpy.tensordot [{want[:160]}]")
    if got.shape != ref.shape or not np.array_equal(got, ref):
        ctx.oracle_fail(case, f"tdot: numpy.tensordot differs from the labelled contraction (einsum) for shapes "
                              f"{case['sa']} {case['sb']} axes {ia} {ib}")
    if len(ctx.samples) < 6 and c >= 2:
        ctx.sample(case, limit=6)


def _mat_ij(case):
    """A seeded entry (i, j) of the matricised tensor."""
    sh, a, b = case["shape"], case["a"], case["b"]
    r = random.Random(case["seed"] ^ 0x5BD1E995)
    return r.randrange(_prod(sh[i] for i in a)), r.randrange(_prod(sh[i] for i in b))


def _matidx_line(case):
    i, j = _mat_ij(case)
    return line_three("matidx", case["shape"], case["a"], case["b"]) + f" | {i} {j}"


def model_lines(case):
    k = case["kind"]
    if k == "tdot":
        return [_tdot_line(case)]
    if k == "qr":
        return [line_three(f"qr {case['mode']}", case["shape"], case["a"], case["b"]), _matidx_line(case)]
    if k == "svd":
        return [line_three(f"svd {case['mode']}", case["shape"], case["a"], case["b"]), _matidx_line(case)]
    if k == "contr":
        return [line_three("svd reduced", case["shape"], case["a"], case["b"]),
                line_three(f"tsvd {case['cap']}", case["shape"], case["a"], case["b"]),
                "C11 contr vcontr", "C11 contr ucontr", "C11 contr equal"]
    return [line_three(f"{case['dec']} {case['mode']}", case["shape"], case["a"], case["b"])]


def run(ctx):
    import glob
    import json
    import os
    cases = []
    for path in sorted(glob.glob(os.path.join(common.CORPUS_DIR, "C11", "*.json"))):
        cases.append(common.unjson(json.load(open(path)))["case"])
    cases += gen_tdot_cases(ctx)
    cases += gen_cases(ctx)
    lines, where = [], []
    for c in cases:
        ls = model_lines(c)
        where.append((len(lines), len(ls)))
        lines.extend(ls)
    outs = ctx.lean.batch(lines)
    for c, (a, n) in zip(cases, where):
        if ctx.time_left() < 0:
            break
        run_case(ctx, c, outs[a:a + n])


def run_case(ctx, case, model_out=None):
    if model_out is None:
        model_out = ctx.lean.batch(model_lines(case))
    kind = case["kind"]
    with warnings.catch_warnings():
        warnings.simplefilter("ignore")
        if kind == "qr":
            _case_qr(ctx, case, model_out[0])
            _check_matidx(ctx, case, model_out[1])
        elif kind == "svd":
            _case_svd(ctx, case, model_out[0])
            _check_matidx(ctx, case, model_out[1])
        elif kind == "contr":
            _case_contr(ctx, case, model_out)
        elif kind == "tdot":
            _case_tdot(ctx, case, model_out[0])
        else:
            _case_invalid(ctx, case, model_out[0])


# ------------------------------------------------------------------ helpers for the oracle

def _legs(case):
    a, b = case["a"], case["b"]
    if case.get("aslist"):
        return list(a), list(b)
    if case.get("npint"):                           # legs computed with NumPy (np.argsort, np.arange ...)
        return tuple(np.int64(x) for x in a), tuple(np.int64(x) for x in b)
    return tuple(a), tuple(b)


def _call_split(fn, arg, la, lb, case):
    """Pass the optional `mode` argument the way the case says (omitted = documented default REDUCED)."""
    how = case.get("call", "pos")
    if how == "omit" and case["mode"] == "reduced":
        return fn(arg, la, lb)
    if how == "kw":
        return fn(arg, la, lb, mode=_mode(case["mode"]))
    return fn(arg, la, lb, _mode(case["mode"]))


def _mode(name):
    from pytreenet.util.tensor_splitting import SplitMode
    return {"reduced": SplitMode.REDUCED, "full": SplitMode.FULL, "keep": SplitMode.KEEP}[name]


def _reconstruct(first, second, a, b, order, mid=None):
    """einsum of first[a-legs, z] (times mid[z]) second[z, b-legs] into the original axis order."""
    la = "".join(LETTERS[i] for i in a)
    lb = "".join(LETTERS[i] for i in b)
    out = "".join(LETTERS[i] for i in range(order))
    if mid is None:
        return np.einsum(f"{la}z,z{lb}->{out}", first, second)
    return np.einsum(f"{la}z,z,z{lb}->{out}", first, mid, second)


def _nontrivial(case, m, n):
    a, b = case["a"], case["b"]
    return (a + b != sorted(a + b) or not a or not b or (case.get("mode") in ("full", "keep") and m != n)
            or case.get("fill") in ("lowrank", "zero", "dupcol"))


def _tally(ctx, case, m, n):
    ctx.tally("order", len(case["shape"]))
    ctx.tally("kind_mode", f"{case['kind']}:{case.get('mode', '-')}")
    ctx.tally("matricisation", "wide" if m < n else "tall" if m > n else "square")
    ctx.tally("sides", "empty-first" if not case["a"] else "empty-second" if not case["b"] else "both")
    ctx.tally("fill", case.get("fill", "-") + (":c" if case.get("complex") else ":r"))
    ctx.tally("has_dim1", 1 in case["shape"])
    ctx.tally("layout", case.get("layout", "c"))
    ctx.tally("precision", "single" if case.get("f32") and case.get("fill") not in ("int",) else "double")
    ctx.tally("mode_argument", case.get("call", "-"))
    ctx.tally("leg_type", "list" if case.get("aslist") else "np.int64" if case.get("npint") else "int")
    ctx.tally("magnitude", f"{case.get('scale', 1.0):g}")


# ------------------------------------------------------------------ value level of the matricisation

def _check_matidx(ctx, case, model_out):
    """Which entry of the input does `tensor_matricization` put at [i, j]?  Implementation (on an
    arange tensor, so the entry IS its flat position), value-level model, and the definition."""
    from pytreenet.util.tensor_util import tensor_matricization
    sh, a, b = case["shape"], case["a"], case["b"]
    i, j = _mat_ij(case)
    t = np.arange(_prod(sh)).reshape(tuple(sh))
    try:
        impl = int(tensor_matricization(t, tuple(a), tuple(b))[i, j])
    except Exception as e:          # noqa: BLE001
        ctx.oracle_fail(case, f"tensor_matricization shape={sh} out={a} in={b} raised {type(e).__name__}: {str(e)[:100]}")
        return
    if str(impl) != model_out:
        ctx.corr_fail(case, f"tensor_matricization shape={sh} out={a} in={b}: entry [{i},{j}] is input position {impl}, model says {model_out}")
    qd, rd = [sh[x] for x in a], [sh[x] for x in b]
    ia = np.unravel_index(i, qd) if qd else ()
    ib = np.unravel_index(j, rd) if rd else ()
    idx = [0] * len(sh)
    for ax, v in zip(a, ia):
        idx[ax] = int(v)
    for ax, v in zip(b, ib):
        idx[ax] = int(v)
    want = int(np.ravel_multi_index(idx, sh)) if sh else 0
    # other entry points of the same mechanism: the no-transposition flag (only legal for legs in natural order)
    # and transpose_tensor_by_leg_list called directly
    from pytreenet.util.tensor_util import transpose_tensor_by_leg_list
    try:
        if a + b == list(range(len(sh))):
            ctx.tally("matricisation_entry", "correctly_ordered=True")
            got = int(tensor_matricization(t, tuple(a), tuple(b), correctly_ordered=True)[i, j])
            if got != want:
                ctx.oracle_fail(case, f"tensor_matricization(correctly_ordered=True) shape={sh} out={a} in={b}: entry "
                                      f"[{i},{j}] comes from input position {got}, expected {want}")
        tt = transpose_tensor_by_leg_list(t, list(a), list(b))
        ctx.tally("matricisation_entry", "transpose_tensor_by_leg_list")
        got = int(tt[tuple(int(v) for v in ia) + tuple(int(v) for v in ib)]) if sh else int(tt)
        if list(tt.shape) != qd + rd or got != want:
            ctx.oracle_fail(case, f"transpose_tensor_by_leg_list shape={sh} first={a} last={b}: shape {tt.shape} "
                                  f"(expected {qd + rd}), entry {list(map(int, ia)) + list(map(int, ib))} comes from "
                                  f"input position {got}, expected {want}")
    except Exception as e:          # noqa: BLE001
        ctx.oracle_fail(case, f"matricisation entry points shape={sh} out={a} in={b} raised {type(e).__name__}: {str(e)[:100]}")
    if impl != want:
        ctx.oracle_fail(case, f"tensor_matricization shape={sh} out={a} in={b}: entry [{i},{j}] comes from input "
                              f"position {impl}, but row {i} = legs {list(map(int, ia))}, column {j} = legs "
                              f"{list(map(int, ib))} is input position {want}")


# ------------------------------------------------------------------ QR

def _case_qr(ctx, case, model_out):
    from pytreenet.util.tensor_splitting import tensor_qr_decomposition
    sh, a, b, mode = case["shape"], case["a"], case["b"], case["mode"]
    t = build_tensor(case)
    qa, rb = _legs(case)
    m, n = _prod(sh[i] for i in a), _prod(sh[i] for i in b)
    key = ("qr", tuple(sh), tuple(a), tuple(b), mode, case.get("fill"), case.get("complex"))
    ctx.count(key, nontrivial=_nontrivial(case, m, n), corr=True)
    _tally(ctx, case, m, n)
    ctx.sample(case, 4)
    keep_empty = mode == "keep" and not b
    try:
        q, r = _call_split(tensor_qr_decomposition, layout(t, case), qa, rb, case)
        impl = f"Q={fmt_shape(q.shape)} R={fmt_shape(r.shape)} bond={q.shape[-1]}"
    except Exception as e:          # noqa: BLE001
        impl = "error"
        err = f"{type(e).__name__}: {str(e)[:120]}"
    mo = model_out if model_out == "error" else " ".join(model_out.split(" ")[:3])
    if impl != mo and not keep_empty:
        # KEEP with an empty second side is excluded by the property: whether the code rejects it is not compared
        ctx.corr_fail(case, f"tensor_qr_decomposition shape={sh} q_legs={a} r_legs={b} {mode}: impl [{impl}] model [{mo}]")
    if impl == "error":
        if keep_empty:
            ctx.tally("rejected", "keep with empty second side")
            return                      # the property excludes this combination
        ctx.oracle_fail(case, f"tensor_qr_decomposition shape={sh} q_legs={a} r_legs={b} {mode} raised {err}")
        return
    if keep_empty:
        return                          # accepted although excluded: nothing promised
    probs = []
    qd, rd = [sh[i] for i in a], [sh[i] for i in b]
    want_bond = {"reduced": min(m, n), "full": m, "keep": n}[mode]
    if q.shape[-1] != want_bond or r.shape[0] != want_bond:
        probs.append(f"bond dimension Q:{q.shape[-1]} R:{r.shape[0]}, the mode prescribes {want_bond}")
    if list(q.shape[:-1]) != qd:
        probs.append(f"Q shape {q.shape} is not q-leg dims {qd} + bond")
    if list(r.shape[1:]) != rd:
        probs.append(f"R shape {r.shape} is not bond + r-leg dims {rd}")
    if mode == "keep" and len(b) == 1:
        if q.shape != np.transpose(t, a + b).shape:
            probs.append(f"KEEP with a single R-leg: Q shape {q.shape} is not the input shape with that leg last")
        if a + b == list(range(len(sh))) and q.shape != t.shape:
            probs.append(f"KEEP with the last leg split off: Q shape {q.shape} != input shape {t.shape}")
    if not probs:
        scale = _scale(t)
        mult = _mult(t)
        rec = _reconstruct(q, r, a, b, len(sh))
        err = float(np.linalg.norm(rec - t))
        if err > TOL * mult * scale:
            probs.append(f"Q·R does not reproduce the tensor (error {err:.3e})")
        qm = q.reshape(-1, q.shape[-1])
        g = qm.conj().T @ qm
        if mode == "keep":
            if (np.linalg.norm(g @ g - g) > mult * _iso_tol(g.shape[0])
                    or np.linalg.norm(g - g.conj().T) > mult * _iso_tol(g.shape[0])):
                probs.append("KEEP: Q^H Q is not an orthogonal projector (Q not a partial isometry)")
        elif np.linalg.norm(g - np.eye(g.shape[0])) > mult * _iso_tol(g.shape[0]):
            probs.append(f"Q is not an isometry (|Q^H Q - 1| = {np.linalg.norm(g - np.eye(g.shape[0])):.3e})")
        ctx.hyp_validated += 1
    if probs:
        ctx.oracle_fail(case, f"QR shape={sh} q_legs={a} r_legs={b} {mode} fill={case.get('fill')}: " + "; ".join(probs[:3]))


# ------------------------------------------------------------------ SVD

def _svd_checks(u, s, vh, t, sh, a, b, bu, bv, k, label):
    probs = []
    mult = _mult(t)
    ud, vd = [sh[i] for i in a], [sh[i] for i in b]
    if list(u.shape) != ud + [bu]:
        probs.append(f"{label}: U shape {u.shape} is not u-leg dims {ud} + bond {bu}")
    if list(vh.shape) != [bv] + vd:
        probs.append(f"{label}: Vh shape {vh.shape} is not bond {bv} + v-leg dims {vd}")
    if s.shape != (k,):
        probs.append(f"{label}: S has shape {s.shape}, expected ({k},)")
    if probs:
        return probs
    if not np.all(np.isfinite(s)) or np.any(s < 0) or np.any(np.diff(s) > 1e-12 * mult * (float(s[0]) if len(s) else 0.0)):
        probs.append(f"{label}: singular values not non-negative descending: {s[:6]}")
    um = u.reshape(-1, bu)
    vm = vh.reshape(bv, -1)
    if np.linalg.norm(um.conj().T @ um - np.eye(bu)) > mult * _iso_tol(bu):
        probs.append(f"{label}: U is not an isometry")
    if np.linalg.norm(vm @ vm.conj().T - np.eye(bv)) > mult * _iso_tol(bv):
        probs.append(f"{label}: Vh is not an isometry (rows not orthonormal)")
    return probs


def _case_svd(ctx, case, model_out):
    from pytreenet.util.tensor_splitting import tensor_svd
    sh, a, b, mode = case["shape"], case["a"], case["b"], case["mode"]
    t = build_tensor(case)
    ua, vb = _legs(case)
    m, n = _prod(sh[i] for i in a), _prod(sh[i] for i in b)
    key = ("svd", tuple(sh), tuple(a), tuple(b), mode, case.get("fill"), case.get("complex"))
    ctx.count(key, nontrivial=_nontrivial(case, m, n), corr=True)
    _tally(ctx, case, m, n)
    ctx.sample(case, 4)
    try:
        u, s, vh = _call_split(tensor_svd, layout(t, case), ua, vb, case)
        impl = f"U={fmt_shape(u.shape)} S={len(s)} Vh={fmt_shape(vh.shape)}"
    except Exception as e:          # noqa: BLE001
        impl = "error"
        err = f"{type(e).__name__}: {str(e)[:120]}"
    mo = model_out if model_out == "error" else " ".join(model_out.split(" ")[:3])
    if impl != mo:
        ctx.corr_fail(case, f"tensor_svd shape={sh} u_legs={a} v_legs={b} {mode}: impl [{impl}] model [{mo}]")
    if impl == "error":
        ctx.oracle_fail(case, f"tensor_svd shape={sh} u_legs={a} v_legs={b} {mode} raised {err}")
        return
    k = min(m, n)
    bu, bv = (k, k) if mode == "reduced" else (m, n)
    if mode == "keep" and u.shape[-1] == k and vh.shape[0] == k:
        bu, bv = k, k       # the property does not fix what KEEP means for an SVD: reduced would do as well
    probs = _svd_checks(u, s, vh, t, sh, a, b, bu, bv, k, mode)
    if not probs:
        scale = _scale(t)
        rec = _reconstruct(u[..., :k], vh[:k, ...], a, b, len(sh), mid=s)
        err = float(np.linalg.norm(rec - t))
        if err > TOL * _mult(t) * scale:
            probs.append(f"U[..,:k]·S·Vh[:k,..] does not reproduce the tensor (error {err:.3e})")
        ctx.hyp_validated += 1
    if probs:
        ctx.oracle_fail(case, f"SVD shape={sh} u_legs={a} v_legs={b} {mode} fill={case.get('fill')}: " + "; ".join(probs[:3]))


# ------------------------------------------------------------------ contraction modes, truncated SVD

def _case_contr(ctx, case, model_out):
    from pytreenet.util.tensor_splitting import (contr_truncated_svd_splitting, truncated_tensor_svd,
                                                 ContractionMode, SVDParameters)
    sh, a, b = case["shape"], case["a"], case["b"]
    t = build_tensor(case)
    ua, vb = _legs(case)
    m, n = _prod(sh[i] for i in a), _prod(sh[i] for i in b)
    k = min(m, n)
    key = ("contr", tuple(sh), tuple(a), tuple(b), case.get("fill"), case.get("complex"), case["cap"])
    ctx.count(key, nontrivial=True, corr=True)
    _tally(ctx, case, m, n)
    m_svd, m_tsvd, m_v, m_u, m_e = model_out
    # every second case asks for renormalisation: with nothing truncated the kept spectrum is rescaled by
    # sum(s)/sum(kept) = 1, so the factors must still contract to the tensor (round-4 seed C11-R4A)
    renorm = bool(hash_str(repr(key)) % 2)
    ctx.tally("contr_renorm_flag", renorm)
    no_trunc = SVDParameters(max_bond_dim=float("inf"), rel_tol=float("-inf"), total_tol=float("-inf"), renorm=renorm)
    scale = _scale(t)
    mult = _mult(t)
    tol = TOL * mult
    # reference singular values from an independent matricisation (always in double precision)
    mat = np.transpose(t, a + b).reshape(m, n)
    s_ref = np.linalg.svd(mat.astype(complex if np.iscomplexobj(mat) else float), compute_uv=False)
    probs = []
    ud, vd = [sh[i] for i in a], [sh[i] for i in b]
    modes = {"vcontr": (ContractionMode.VCONTR, m_v), "ucontr": (ContractionMode.UCONTR, m_u),
             "equal": (ContractionMode.EQUAL, m_e)}
    prods = {}
    # An exactly zero tensor has s_max = 0: the cutoff `-inf * 0.0` is NaN and the "keep the largest" branch
    # leaves a single (zero) singular value even with every tolerance disabled (see C10): any bond 1..k is fine.
    zero_spec = len(s_ref) > 0 and float(s_ref[0]) == 0.0
    if zero_spec:
        ctx.tally("observations", "zero tensor: truncation cannot be disabled, bond 1 kept")
    for name, (cm, mline) in modes.items():
        try:
            if case.get("layout") == "f":        # keyword form of the optional arguments
                fa, fb = contr_truncated_svd_splitting(layout(t, case), ua, vb, svd_params=no_trunc, contr_mode=cm)
            else:
                fa, fb = contr_truncated_svd_splitting(layout(t, case), ua, vb, cm, no_trunc)
        except Exception as e:          # noqa: BLE001
            ctx.oracle_fail(case, f"contr_truncated_svd_splitting {name} shape={sh} u={a} v={b} raised {type(e).__name__}: {str(e)[:120]}")
            return
        impl = f"U={fmt_shape(fa.shape)} S={fa.shape[-1]} Vh={fmt_shape(fb.shape)}"
        mo = " ".join(m_svd.split(" ")[:3])
        kb = k
        if zero_spec and 1 <= fa.shape[-1] <= k:
            kb = fa.shape[-1]
        elif impl != mo:
            ctx.corr_fail(case, f"contr splitting {name} shape={sh} u={a} v={b}: impl [{impl}] model [{mo}]")
        if list(fa.shape) != ud + [kb] or list(fb.shape) != [kb] + vd:
            probs.append(f"{name}: factor shapes {fa.shape}, {fb.shape}; expected {ud + [kb]}, {[kb] + vd}")
            continue
        rec = _reconstruct(fa, fb, a, b, len(sh))
        prods[name] = rec
        if np.linalg.norm(rec - t) > tol * scale:
            probs.append(f"{name}: the two factors do not contract to the tensor (error {np.linalg.norm(rec - t):.3e})")
        # which factor absorbed S: column norms of the first, row norms of the second factor
        ea, eb = (int(x) for x in mline.split())
        cn = np.linalg.norm(fa.reshape(-1, kb), axis=0)
        rn = np.linalg.norm(fb.reshape(kb, -1), axis=1)
        s0 = float(s_ref[0]) if len(s_ref) and s_ref[0] > 0 else 1.0
        # loose (a wrong absorbing factor is off by O(1) relative); sqrt amplifies round-off of tiny values
        loose = 1e-6 * max(1.0, mult / 1e2)
        if (np.max(np.abs(cn - s_ref[:kb] ** (ea / 2))) > loose * s0 ** (ea / 2)
                or np.max(np.abs(rn - s_ref[:kb] ** (eb / 2))) > loose * s0 ** (eb / 2)):
            ctx.corr_fail(case, f"contr splitting {name}: model says S^{ea}/2 into U and S^{eb}/2 into Vh; "
                                f"column norms {cn[:4]}, row norms {rn[:4]}, S {s_ref[:4]}")
    if len(prods) == 3:
        d = max(float(np.linalg.norm(prods[x] - prods["vcontr"])) for x in prods)
        if d > tol * scale:
            probs.append(f"contraction modes give different products (max difference {d:.3e})")
    probs += _contr_defaults(ctx, case, t, ua, vb, s_ref, k, ud, vd, scale, mult)
    # truncated SVD with a bond cap
    cap = case["cap"]
    try:
        u, s, vh = truncated_tensor_svd(layout(t, case), ua, vb, SVDParameters(max_bond_dim=cap, rel_tol=float("-inf"),
                                                                         total_tol=float("-inf")))
    except Exception as e:          # noqa: BLE001
        ctx.oracle_fail(case, f"truncated_tensor_svd cap={cap} shape={sh} u={a} v={b} raised {type(e).__name__}: {str(e)[:120]}")
        return
    kept = min(cap, k)
    impl = f"U={fmt_shape(u.shape)} S={len(s)} Vh={fmt_shape(vh.shape)}"
    mo = " ".join(m_tsvd.split(" ")[:3])
    if zero_spec and 1 <= len(s) <= kept:
        kept = len(s)
    elif impl != mo:
        ctx.corr_fail(case, f"truncated_tensor_svd cap={cap} shape={sh} u={a} v={b}: impl [{impl}] model [{mo}]")
    q = _svd_checks(u, np.asarray(s), vh, t, sh, a, b, kept, kept, kept, f"truncated(cap={cap})")
    if not q:
        if np.max(np.abs(np.asarray(s) - s_ref[:kept])) > 1e-9 * mult * float(s_ref[0]):
            q.append(f"truncated SVD keeps {np.asarray(s)[:4]} but the largest singular values are {s_ref[:kept][:4]}")
        rec = _reconstruct(u, vh, a, b, len(sh), mid=np.asarray(s))
        err = float(np.linalg.norm(rec - t))
        want = float(np.sqrt(np.sum(s_ref[kept:] ** 2)))
        if abs(err - want) > 1e-9 * mult * scale:
            q.append(f"truncated SVD error {err:.6e} != weight of the discarded values {want:.6e}")
        ctx.hyp_validated += 1
    probs += q
    if probs:
        ctx.oracle_fail(case, f"splitting shape={sh} u_legs={a} v_legs={b} fill={case.get('fill')}: " + "; ".join(probs[:3]))


def _contr_defaults(ctx, case, t, ua, vb, s_ref, k, ud, vd, scale, mult):
    """`contr_truncated_svd_splitting(tensor, u_legs, v_legs)` with BOTH optional arguments omitted: documented
    defaults are ContractionMode.VCONTR and SVDParameters() = (max_bond_dim 100, rel_tol 1e-15, total_tol 1e-15).
    Oracle (reference singular values from the harness' own matricisation): the bond lies between the number of
    values clearly above and the number not clearly below the cutoff max(1e-15*s_max, 1e-15) (at least 1, at
    most 100), U is untouched (isometry: the values went into the SECOND factor), and the product misses the
    tensor by exactly the weight of the discarded values."""
    from pytreenet.util.tensor_splitting import contr_truncated_svd_splitting
    sh, a, b = case["shape"], case["a"], case["b"]
    try:
        fa, fb = contr_truncated_svd_splitting(layout(t, case), ua, vb)
    except Exception as e:          # noqa: BLE001
        return [f"contr_truncated_svd_splitting with default arguments raised {type(e).__name__}: {str(e)[:120]}"]
    s0 = float(s_ref[0]) if len(s_ref) else 0.0
    cutoff = max(1e-15 * s0, 1e-15)
    noise = 1e-13 * mult * s0                      # round-off of a singular value
    lo = max(1, int(np.sum(s_ref > cutoff * 1.001 + noise)))
    hi = min(100, max(1, int(np.sum(s_ref > cutoff * 0.999 - noise))))
    kd = fa.shape[-1] if fa.ndim else -1
    ctx.tally("default_arguments", "something discarded" if kd < k else "nothing discarded")
    if not (lo <= kd <= hi) or list(fa.shape) != ud + [kd] or list(fb.shape) != [kd] + vd:
        return [f"default arguments: factor shapes {fa.shape}, {fb.shape}; expected {ud}+[k], [k]+{vd} with "
                f"{lo} <= k <= {hi} (singular values {s_ref[:6]}, cutoff {cutoff:.3e})"]
    probs = []
    um = fa.reshape(-1, kd)
    if np.linalg.norm(um.conj().T @ um - np.eye(kd)) > mult * _iso_tol(kd):
        probs.append("default arguments: the first factor is not an isometry although the default contraction mode "
                     "(VCONTR) puts the singular values into the second factor")
    rec = _reconstruct(fa, fb, a, b, len(sh))
    err = float(np.linalg.norm(rec - t))
    want = float(np.sqrt(np.sum(s_ref[kd:] ** 2)))
    if abs(err - want) > 1e-9 * mult * scale:
        probs.append(f"default arguments: product misses the tensor by {err:.6e}, weight of the values below the "
                     f"default cutoff is {want:.6e}")
    ctx.hyp_validated += 1
    return probs


# ------------------------------------------------------------------ invalid leg lists

def _case_invalid(ctx, case, model_out):
    from pytreenet.util.tensor_splitting import tensor_qr_decomposition, tensor_svd
    sh, a, b, mode = case["shape"], case["a"], case["b"], case["mode"]
    t = np.ones(tuple(sh))
    ctx.count(("invalid", tuple(sh), tuple(a), tuple(b), case["dec"], mode), nontrivial=True, corr=True)
    ctx.tally("invalid", case["how"])
    try:
        if case["dec"] == "qr":
            tensor_qr_decomposition(t, tuple(a), tuple(b), _mode(mode))
        else:
            tensor_svd(t, tuple(a), tuple(b), _mode(mode))
        impl = "accepted"
    except Exception:               # noqa: BLE001
        impl = "error"
    if model_out != "error":
        ctx.corr_fail(case, f"model accepts leg lists {a} | {b} for shape {sh}: {model_out}")
    elif impl != "error":
        ctx.corr_fail(case, f"{case['dec']} accepted leg lists {a} | {b} for shape {sh} that are not a bipartition")


# ------------------------------------------------------------------ shrinking

def _shrink_tdot(case):
    sa, sb, ia, ib = case["sa"], case["sb"], case["ia"], case["ib"]

    def drop(sh, axes, x):
        return sh[:x] + sh[x + 1:], [y - (y > x) for y in axes if y != x]
    for x in range(len(sa)):                            # drop a remaining axis of a / of b
        if x not in ia:
            s2, i2 = drop(sa, ia, x)
            yield dict(case, sa=s2, ia=i2)
    for y in range(len(sb)):
        if y not in ib:
            s2, i2 = drop(sb, ib, y)
            yield dict(case, sb=s2, ib=i2)
    if len(ia) == len(ib) and len(set(ia)) == len(ia) and len(set(ib)) == len(ib) and \
            all(x < len(sa) for x in ia) and all(y < len(sb) for y in ib):
        for j in range(len(ia)):                        # drop a contracted pair
            s2, i2 = drop(sa, ia[:j] + ia[j + 1:], ia[j])
            t2, j2 = drop(sb, ib[:j] + ib[j + 1:], ib[j])
            yield dict(case, sa=s2, ia=i2, sb=t2, ib=j2)
    for x, d in enumerate(sa):                          # smaller dimensions of remaining axes
        if d > 1 and x not in ia:
            yield dict(case, sa=sa[:x] + [d - 1] + sa[x + 1:])
    for y, d in enumerate(sb):
        if d > 1 and y not in ib:
            yield dict(case, sb=sb[:y] + [d - 1] + sb[y + 1:])


def shrink(case):
    if case["kind"] == "tdot":
        yield from _shrink_tdot(case)
        return
    sh = case["shape"]
    if case["kind"] != "invalid":
        if case.get("fill") != "normal":
            yield dict(case, fill="normal")
        if case.get("complex"):
            yield dict(case, complex=False)
        if case.get("scale", 1.0) != 1.0:
            yield dict(case, scale=1.0)
        # drop a leg
        for i in range(len(sh)):
            if len(sh) > 1:
                ren = lambda l: [x - (x > i) for x in l if x != i]
                yield dict(case, shape=sh[:i] + sh[i + 1:], a=ren(case["a"]), b=ren(case["b"]))
        for i, d in enumerate(sh):
            if d > 2:
                yield dict(case, shape=sh[:i] + [2] + sh[i + 1:])
            elif d == 2:
                yield dict(case, shape=sh[:i] + [1] + sh[i + 1:])
        if case["a"] != sorted(case["a"]):
            yield dict(case, a=sorted(case["a"]))
        if case["b"] != sorted(case["b"]):
            yield dict(case, b=sorted(case["b"]))
