"""C17 - tree navigation and the TDVP sweep order are correct on every rooted tree.

Stage B (correspondence with the Lean models Ptn.C17): for a tree instance (shape, dict insertion
order, child order, labels) every query - path a b for the node pairs, root paths, distance tables,
linearise, subtree / leaves / size queries, get_leaves, nearest_neighbours, the update-path start and
the update path, the keys created by SandwichCache.init_cache_but_one for every left-out node - is
answered by the real code, by the line-by-line flat model and by the structural model the theorems
are about; the three answers (identifier lists, order included) have to be equal.
Stage C (oracle): elementary graph search on the adjacency read from nodes[..].parent/.children.
"""
from __future__ import annotations

import itertools
import random
from collections import deque
from typing import Dict, List, Optional, Tuple

from harness import gen

RULE = ("a case = one tree instance (shape, labels, dict insertion order incl. orders only reachable by "
        "add_parent_to_root / renaming, child order) with all its queries: exhaustive over all ordered "
        "rooted trees with <= 7 nodes (thorough: also all 429 trees with 8 nodes) x several instances each, "
        "random trees up to 40 nodes, and a few real TTNS/TTNO instances (SandwichCache with real "
        "contractions, every navigation query on the network object, constructors of all three TDVP classes: "
        "update path, segments, cache toward its first node - also after one time step + reset_to_initial_state). "
        "Input-space families on top (every run): identifiers that are digits / contain blanks / are prefixes of "
        "one another / look like constants; histories (the same object queried, changed by add_child_to_parent / "
        "add_parent_to_root / change_node_identifier / an exchange of two identifiers / a child-order change, and "
        "queried again after every change); trees of 41-150 nodes (thorough: 300) incl. deep chains; a second "
        "find_path() on the same finder. non-trivial = distinct instance with >= 3 nodes")
PARTIAL = [
    "the theorems are stated about the structural model on RTree; its equality with the line-by-line flat port "
    "(dict order, parent pointers, fuel-bounded recursion) is PROVED on every valid mirror in any dict order for "
    "every routine that has a structural twin (toRTree_mirror, flat_*_eq_struct: root path, path_from_to, "
    "linearise, subtree / leaf / size queries, distance_to_node with any centre, find_start_node_id, furthest "
    "leaf, path_down_from_root, update path, cache keys, sweep segments); the tie flat port = code is the "
    "correspondence (exhaustive up to 7 nodes, several dict/child orders each), which also re-checks flat = "
    "structural on every run",
    "get_leaves and nearest_neighbours (dict-order dependent, no structural twin) exist only in the flat model: "
    "correspondence + oracle",
    "init_cache_but_one is reduced to its keys in creation order (init_cache_keys); that its internal build order "
    "reads only blocks already built is checked per run by the recording contract_any, not proved",
    "the event sequences of the TDVP sweeps and the environment reads of BUG (models Ptn.C05.Disc, Ptn.C09.Env, "
    "driver queries `events` / `bugenv`) are observed by code of this file (run_real_parts) but run and judged by the "
    "checks of C05 and C09, not by C17, whose property is navigation only",
    "the stronger statement 'update path = post-order of the re-rooted tree' has no theorem "
    "(next_hop_is_new_parent is segs_point_to_last); every clause of the property statement has one",
]
ASSUMPTIONS = ["Python dicts iterate in insertion order; max(d, key=d.get) returns the first maximal key",
               "node identifiers are distinct (enforced by TreeStructure.ensure_uniqueness)"]

ABSENT = 999            # label of a node that is never in the tree


def nm(label: int) -> str:
    return f"n{label}"


def lab(name: str) -> int:
    return int(name[1:])


class Naming:
    """Bijection between the canonical names `n<label>` (used by the models, the oracle and every comparison)
    and the identifiers the real tree is built with.  `plain` is the identity; the other schemes give
    identifiers that are digits only, contain blanks, are prefixes of one another or look like Python
    constants / attribute names (the anchored code only ever compares identifiers and uses them as keys)."""

    ODD = ["0", "None", "False", " ", "root", "parent", "-1", "n", "nn", "n_n", "\u00f1", "n1 ", "\tn1", "children",
           "[]", "n1_ket", "n1_bra", "tmp"]

    def __init__(self, scheme: str = "plain", labels=()):
        self.scheme = scheme
        self.fw: Dict[str, str] = {}
        self.bw: Dict[str, str] = {}
        labels = list(labels)
        if scheme == "achain":                  # a, aa, aaa, ...: every identifier is a prefix of the longer ones
            for r, l in enumerate(sorted(labels)):
                self._put(nm(l), "a" * (r + 1))
        elif scheme == "odd":
            for r, l in enumerate(labels):
                if r < len(self.ODD):
                    self._put(nm(l), self.ODD[(r + len(labels)) % len(self.ODD)])
        elif scheme not in ("plain", "digits", "spaced"):
            raise ValueError(scheme)

    def _put(self, canon, real):
        self.fw[canon] = real
        self.bw[real] = canon

    def real(self, canon: str) -> str:
        if canon in self.fw:
            return self.fw[canon]
        if self.scheme == "digits":
            return canon[1:]
        if self.scheme == "spaced":
            return f" n {canon[1:]} "
        return canon

    def canon(self, real: str) -> str:
        if real in self.bw:
            return self.bw[real]
        if self.scheme == "digits":
            return "n" + real
        if self.scheme == "spaced":
            return "n" + real.split()[1]
        return real


PLAIN = Naming()
ID_SCHEMES = ["digits", "spaced", "achain", "odd"]


def naming_of(ex: dict) -> Naming:
    scheme = ex.get("ids", "plain")
    return PLAIN if scheme == "plain" else Naming(scheme, ex["label"])


# ------------------------------------------------------------------ cases

def expand(case: dict) -> dict:
    """Explicit form: n, par (index based, -1 for the root), label, order (final dict order, indices),
    kids (child order per index), build ('grow' | 'rename'), pairs ('all' | int seed), stub (bool)."""
    kind = case["kind"]
    if kind == "explicit":
        return case
    if kind == "enum":
        par = gen.all_ordered_trees(case["n"])[case["index"]]
    elif kind == "random":
        rng0 = random.Random(case["seed"])
        par = gen.random_parent_array(rng0, case["n"], case.get("shape"))
    else:
        raise ValueError(kind)
    n = len(par)
    rng = random.Random(case["seed"] * 7919 + 17)
    variant = case["variant"]
    ch = gen.children_of(par)
    label = list(range(n))
    kids = [list(ch[i]) for i in range(n)]
    build = "grow"
    if variant == "dfs":
        order = list(range(n)) if kind == "enum" else _dfs_order(par)
    elif variant == "bfs":
        order = _bfs_order(par)
    elif variant == "valid":
        order = gen.insertion_order(rng, par)
        att = {i: [] for i in range(n)}
        for x in order:
            if par[x] >= 0:
                att[par[x]].append(x)
        kids = [att[i] for i in range(n)]
    elif variant == "fromleaf":
        # start somewhere below the root and grow in both directions (add_parent_to_root)
        order = _connected_order(rng, par, rng.randrange(n))
        for k in kids:
            rng.shuffle(k)
        label = rng.sample(range(0, 3 * n + 5), n)
    elif variant == "perm":
        order = list(range(n))
        rng.shuffle(order)
        for k in kids:
            rng.shuffle(k)
        label = rng.sample(range(0, 3 * n + 5), n)
        build = "rename"
    else:
        raise ValueError(variant)
    out = {"kind": "explicit", "n": n, "par": list(par), "label": label, "order": order, "kids": kids,
           "build": build, "pairs": case.get("pairs", "all"), "stub": True}
    if case.get("ids", "plain") != "plain":
        out["ids"] = case["ids"]
    return out


def _dfs_order(par):
    ch = gen.children_of(par)
    out, stack = [], [list(par).index(-1)]
    while stack:
        x = stack.pop()
        out.append(x)
        stack.extend(reversed(ch[x]))
    return out


def _bfs_order(par):
    ch = gen.children_of(par)
    out, dq = [], deque([list(par).index(-1)])
    while dq:
        x = dq.popleft()
        out.append(x)
        dq.extend(ch[x])
    return out


def _connected_order(rng, par, start):
    n = len(par)
    adj = {i: [] for i in range(n)}
    for i, p in enumerate(par):
        if p >= 0:
            adj[i].append(p)
            adj[p].append(i)
    order, seen, avail = [], {start}, [start]
    while avail:
        x = avail.pop(rng.randrange(len(avail)))
        order.append(x)
        for y in adj[x]:
            if y not in seen:
                seen.add(y)
                avail.append(y)
    return order


def build_tree(ex: dict):
    """Build the TreeStructure of an explicit case through the public API only."""
    from pytreenet.core.tree_structure import TreeStructure
    from pytreenet.core.graph_node import GraphNode
    n, par, label, order, kids = ex["n"], ex["par"], ex["label"], ex["order"], ex["kids"]
    naming = naming_of(ex)
    name = [naming.real(nm(label[i])) for i in range(n)]
    ts = TreeStructure()
    if ex["build"] == "grow":
        top = order[0]
        ts.add_root(GraphNode(name[top]))
        inside = {top}
        for x in order[1:]:
            if par[x] in inside:
                ts.add_child_to_parent(GraphNode(name[x]), name[par[x]])
            elif par[top] == x:
                ts.add_parent_to_root(GraphNode(name[x]))
                top = x
            else:
                raise ValueError("insertion order is not connected")
            inside.add(x)
    else:
        for x in _bfs_order(par):
            if par[x] < 0:
                ts.add_root(GraphNode(name[x]))
            else:
                ts.add_child_to_parent(GraphNode(name[x]), name[par[x]])
    for i in range(n):                      # child order (remove_child / add_child moves to the end)
        node = ts.nodes[name[i]]
        assert sorted(node.children) == sorted(name[c] for c in kids[i])
        for c in kids[i]:
            node.remove_child(name[c])
            node.add_child(name[c])
    if ex["build"] == "rename":             # renaming re-inserts at the end of the dict
        for x in order:
            ts.change_node_identifier("tmp_identifier", name[x])
            ts.change_node_identifier(name[x], "tmp_identifier")
    return ts


def read_structure(ts, naming: Naming = PLAIN) -> Tuple[Optional[str], List[Tuple[str, Optional[str], List[str]]]]:
    """(root, [(node, parent, children)]) in dict order, in canonical names"""
    c = naming.canon
    return (None if ts.root_id is None else c(ts.root_id),
            [(c(k), None if ts.nodes[k].parent is None else c(ts.nodes[k].parent),
              [c(x) for x in ts.nodes[k].children]) for k in ts.nodes])


def model_tree_tokens(root, nodes) -> str:
    toks = ["-" if root is None else str(lab(root))]
    for k, p, cs in nodes:
        toks.append(f"{lab(k)}:{'-' if p is None else lab(p)}:{','.join(str(lab(c)) for c in cs)}")
    return " ".join(toks)


def gen_cases(ctx):
    rng = ctx.rng
    cases = []
    thorough = ctx.tier == "thorough" or ctx.scale > 1
    variants = ["dfs", "bfs", "valid", "fromleaf", "perm"]
    reps_extra = 15 if thorough else 3
    for n in range(1, 8):
        for idx in range(len(gen.all_ordered_trees(n))):
            for v in variants:
                cases.append({"kind": "enum", "n": n, "index": idx, "variant": v, "seed": rng.randrange(10 ** 9)})
            for _ in range(reps_extra):
                cases.append({"kind": "enum", "n": n, "index": idx, "variant": rng.choice(["perm", "fromleaf", "valid"]),
                              "seed": rng.randrange(10 ** 9)})
    if thorough:                           # all 429 ordered trees with 8 nodes as well
        for idx in range(len(gen.all_ordered_trees(8))):
            for v in ("dfs", "fromleaf", "perm"):
                cases.append({"kind": "enum", "n": 8, "index": idx, "variant": v, "seed": rng.randrange(10 ** 9)})
    for _ in range(ctx.n(300, 5000)):
        n = rng.choice([rng.randint(8, 14), rng.randint(8, 40), rng.randint(15, 40)])
        cases.append({"kind": "random", "n": n, "seed": rng.randrange(10 ** 9),
                      "shape": rng.choice(["uniform", "uniform", "chain", "star", "binaryish", "caterpillar"]),
                      "variant": rng.choice(variants), "pairs": rng.randrange(10 ** 9)})
    for i in range(ctx.n(10, 100)):
        cases.append({"kind": "real", "n": 1 if i == 0 else rng.randint(2, 7), "seed": rng.randrange(10 ** 9),
                      "parts": ["nav"]})
    # ---- input-space families (notes/C17.md, "Input-space audit"); own generator so that the cases above are
    # the same as before for a given seed
    frng = ctx.subrng("families")
    shapes = ["uniform", "chain", "star", "binaryish", "caterpillar", "spider", "twig", "bush"]
    # (1) identifiers that are digits / contain blanks / are prefixes of one another / look like constants
    for i in range(ctx.n(100, 1500)):
        scheme = ID_SCHEMES[i % len(ID_SCHEMES)]
        if i % 3 == 0:
            n = frng.randint(1, 6)
            c = {"kind": "enum", "n": n, "index": frng.randrange(len(gen.all_ordered_trees(n))),
                 "variant": frng.choice(variants), "seed": frng.randrange(10 ** 9)}
        else:
            c = {"kind": "random", "n": frng.randint(7, 24), "seed": frng.randrange(10 ** 9),
                 "shape": frng.choice(shapes), "variant": frng.choice(variants), "pairs": frng.randrange(10 ** 9)}
        c["ids"] = scheme
        cases.append(c)
    # (2) histories: the same object is queried, changed by a public mutator, and queried again
    for i in range(ctx.n(150, 2000)):
        if i % 2 == 0:
            n = frng.randint(1, 6)
            base = {"kind": "enum", "n": n, "index": frng.randrange(len(gen.all_ordered_trees(n))),
                    "variant": frng.choice(variants), "seed": frng.randrange(10 ** 9)}
        else:
            base = {"kind": "random", "n": frng.randint(7, 16), "seed": frng.randrange(10 ** 9),
                    "shape": frng.choice(shapes), "variant": frng.choice(variants), "pairs": frng.randrange(10 ** 9)}
        if i % 5 == 0:
            base["ids"] = frng.choice(["digits", "spaced"])
        cases.append({"kind": "history", "base": base, "hseed": frng.randrange(10 ** 9), "nsteps": frng.randint(1, 3)})
    # (3) trees well beyond 40 nodes (deep chains, wide stars, everything in between)
    big = [(frng.randint(41, 90), frng.choice(shapes)) for _ in range(ctx.n(3, 40))]
    big += [(frng.randint(100, 130), "chain"), (frng.randint(100, 150), frng.choice(["star", "spider", "twig", "bush"]))]
    if thorough:
        big += [(300, "chain"), (300, "spider"), (250, "uniform")]
    for n, shape in big:
        cases.append({"kind": "random", "n": n, "seed": frng.randrange(10 ** 9), "shape": shape,
                      "variant": frng.choice(variants), "pairs": frng.randrange(10 ** 9)})
    return cases


def run_real_parts(ctx, parts, count):
    """Entry point for the checks of C05 (parts=['events']) and C09 (parts=['bugenv']): real TTNS/TTNO pairs on
    random trees, the observed event / environment-read traces compared with the Lean models."""
    rng = ctx.subrng("c17-real-" + "-".join(parts))
    for _ in range(count):
        if ctx.time_left() < 0:
            break
        case = {"kind": "real", "n": rng.randint(2, 7), "seed": rng.randrange(10 ** 9), "parts": list(parts),
                "via": "c17"}
        run_case(ctx, case)


# ------------------------------------------------------------------ queries

def query_list(labels: List[int], pairs) -> List[Tuple[str, ...]]:
    """The canonical list of queries for a tree whose node labels (dict order) are `labels`."""
    qs: List[Tuple[str, ...]] = [("linearise",), ("leaves",), ("nn",), ("start",), ("updatepath",), ("segs",)]
    for x in labels:
        for q in ("rootpath", "dist", "subtree", "leavesunder", "subsize", "cachekeys", "nbrs"):
            qs.append((q, str(x)))
    if pairs == "all":
        pl = [(a, b) for a in labels for b in labels]
    else:
        prng = random.Random(pairs)
        pl = [(prng.choice(labels), prng.choice(labels)) for _ in range(60)]
        pl += [(labels[0], x) for x in labels[:10]] + [(x, x) for x in labels[:3]]
    for a, b in pl:
        qs.append(("path", str(a), str(b)))
    a = ABSENT
    x0 = labels[0]
    qs += [("path", str(a), str(a)), ("path", str(a), str(x0)), ("path", str(x0), str(a)),
           ("rootpath", str(a)), ("dist", str(a)), ("subtree", str(a)), ("leavesunder", str(a)),
           ("subsize", str(a)), ("cachekeys", str(a))]
    return qs


STRUCT_SKIP = {"leaves", "nn"}          # depend on the dict order: flat model only


def fmt_ids(names, naming: "Naming" = None) -> str:
    c = (naming or PLAIN).canon
    return " ".join(["ok"] + [str(lab(c(x))) for x in names])


def fmt_segs(update_path, orth_path, naming: "Naming" = None) -> str:
    """segments (u_i, orthogonalization_path[i][0]) and the last node of the sweep"""
    c = (naming or PLAIN).canon
    segs = [f"{lab(c(update_path[i]))}>{lab(c(orth_path[i][0]))}" for i in range(len(orth_path))]
    return " ".join(["ok"] + segs + ["last", str(lab(c(update_path[-1])))])


class CacheStub:
    """Replaces contract_any while the keys are observed: records the call order and checks that
    every block the contraction would read is already in the cache."""

    def __init__(self, adj, naming: "Naming" = None):
        self.adj = adj                          # canonical names
        self.naming = naming or PLAIN
        self.calls: List[Tuple[str, str]] = []  # real identifiers, as passed by the code
        self.missing: List[str] = []

    def __call__(self, node_id, next_node_id, state, hamiltonian, cache):
        r, c = self.naming.real, self.naming.canon
        for w in self.adj[c(node_id)]:
            if r(w) != next_node_id and (r(w), node_id) not in cache:
                self.missing.append(f"block ({c(node_id)},{c(next_node_id)}) built before ({w},{c(node_id)})")
        self.calls.append((node_id, next_node_id))
        return ("block", node_id, next_node_id)


def impl_answer(ts, q, adj, extra, naming: "Naming" = None) -> str:
    """Run one query on the real code; canonical answer string ('err' = the code raised)."""
    from pytreenet.time_evolution.time_evo_util.update_path import TDVPUpdatePathFinder
    import pytreenet.contractions.sandwich_caching as sc
    naming = naming or PLAIN
    kind = q[0]

    def arg(i):                                 # the identifier the real tree uses for the i-th argument
        return naming.real(nm(int(q[i])))

    def L(x):                                   # label of a real identifier
        return lab(naming.canon(x))

    def ids(names):
        return fmt_ids(names, naming)
    try:
        if kind == "path":
            return ids(ts.path_from_to(arg(1), arg(2)))
        if kind == "rootpath":
            return ids(ts.find_path_to_root(arg(1)))
        if kind == "dist":
            d = ts.distance_to_node(arg(1))
            return " ".join(["ok"] + [f"{L(k)}:{v}" for k, v in d.items()])
        if kind == "linearise":
            return ids(ts.linearise())
        if kind == "subtree":
            d = ts.find_subtree_of_node(arg(1))
            if any(v is not ts.nodes[k] for k, v in d.items()):
                extra.append(f"find_subtree_of_node({q[1]}): a value is not the node of its key")
            return ids(d.keys())
        if kind == "leavesunder":
            d = ts.leaves_under_node(arg(1))
            if any(v is not ts.nodes[k] for k, v in d.items()):
                extra.append(f"leaves_under_node({q[1]}): a value is not the node of its key")
            return ids(d.keys())
        if kind == "subsize":
            return f"ok {ts.find_subtree_size_of_node(arg(1))}"
        if kind == "leaves":
            return ids(ts.get_leaves())
        if kind == "nn":
            return " ".join(["ok"] + [f"{L(a)}>{L(b)}" for a, b in ts.nearest_neighbours()])
        if kind == "start":
            return ids([TDVPUpdatePathFinder(ts).start])
        if kind == "updatepath":
            finder = TDVPUpdatePathFinder(ts)
            first = ids(finder.find_path())
            again = ids(finder.find_path())     # a second call on the same finder object
            if again != first:
                extra.append(("second find_path", again))
            return first
        if kind == "segs":
            # the real `_find_tdvp_orthogonalization_path` run on this tree (it only uses `self.state`)
            import types
            from pytreenet.time_evolution.tdvp_algorithms.tdvp_algorithm import TDVPAlgorithm
            up = TDVPUpdatePathFinder(ts).find_path()
            orth = TDVPAlgorithm._find_tdvp_orthogonalization_path(types.SimpleNamespace(state=ts), up)
            return fmt_segs(up, orth, naming)
        if kind == "nbrs":
            return ids(ts.nodes[arg(1)].neighbouring_nodes())
        if kind == "cachekeys":
            stub = CacheStub(adj, naming)
            saved = sc.contract_any
            sc.contract_any = stub
            try:
                cache = sc.SandwichCache.init_cache_but_one(ts, None, arg(1))
            finally:
                sc.contract_any = saved
            extra.extend(stub.missing[:2])
            keys = list(cache.keys())
            if keys != stub.calls:
                extra.append(f"cache keys {keys} differ from the blocks computed {stub.calls}")
            return " ".join(["ok"] + [f"{L(a)}>{L(b)}" for a, b in keys])
    except Exception as e:                  # noqa: BLE001
        extra_exc = f"{type(e).__name__}: {str(e)[:80]}"
        impl_answer.last_exc = extra_exc
        if not hasattr(impl_answer, "exc_of"):
            impl_answer.exc_of = {}
        if len(impl_answer.exc_of) > 5000:
            impl_answer.exc_of.clear()
        impl_answer.exc_of[(id(extra), tuple(q))] = extra_exc
        return "err"
    raise ValueError(q)


# ------------------------------------------------------------------ oracle (elementary graph search)

def adjacency(nodes) -> Dict[str, List[str]]:
    adj: Dict[str, List[str]] = {k: [] for k, _, _ in nodes}
    for k, p, cs in nodes:
        for c in cs:
            adj[k].append(c)
            adj[c].append(k)
    return adj


def bfs(adj, src):
    dist, prev = {src: 0}, {src: None}
    dq = deque([src])
    while dq:
        x = dq.popleft()
        for y in adj[x]:
            if y not in dist:
                dist[y] = dist[x] + 1
                prev[y] = x
                dq.append(y)
    return dist, prev


def bfs_path(adj, a, b, cache):
    """The path from a to b: walk back from a in the search tree grown from b."""
    if b not in cache:
        cache[b] = bfs(adj, b)
    _, prev = cache[b]
    out, x = [], a
    while x is not None:
        out.append(x)
        x = prev[x]
    return out


def parse_ids(ans: str) -> List[str]:
    return [nm(int(t)) for t in ans.split()[1:]]


def oracle(root, nodes, adj, queries, answers, errkey=None) -> List[str]:
    """Property predicate on the implementation's answers; returns the list of violations."""
    probs: List[str] = []
    ids = [k for k, _, _ in nodes]
    idset = set(ids)
    n = len(ids)
    kids = {k: cs for k, _, cs in nodes}
    par = {k: p for k, p, _ in nodes}
    edges = {frozenset((k, c)) for k, _, cs in nodes for c in cs}
    bc: Dict[str, tuple] = {}

    def below(x):
        out, st = [], [x]
        while st:
            y = st.pop()
            out.append(y)
            st.extend(kids[y])
        return out

    depth = bfs(adj, root)[0] if root is not None else {}
    for q, ans in zip(queries, answers):
        kind = q[0]
        args = [nm(int(a)) for a in q[1:]]
        present = all(a in idset for a in args)
        if not present:
            # outside the property (it speaks about nodes of the tree); only path a a is defined
            continue
        if ans == "err":
            exc = getattr(impl_answer, "exc_of", {}).get((errkey, tuple(q)), getattr(impl_answer, "last_exc", "?"))
            probs.append(f"{' '.join(q)}: raised {exc}")
            continue
        if kind == "path":
            want = bfs_path(adj, args[0], args[1], bc)
            if parse_ids(ans) != want:
                probs.append(f"path_from_to({q[1]},{q[2]}) = {ans[3:]} but graph search finds {fmt_ids(want)[3:]}")
        elif kind == "rootpath":
            want = bfs_path(adj, args[0], root, bc)
            if parse_ids(ans) != want:
                probs.append(f"find_path_to_root({q[1]}) = {ans[3:]} but graph search finds {fmt_ids(want)[3:]}")
        elif kind == "dist":
            got = {}
            toks = ans.split()[1:]
            for t in toks:
                k, v = t.split(":")
                got[nm(int(k))] = int(v)
            if args[0] not in bc:
                bc[args[0]] = bfs(adj, args[0])
            want = bc[args[0]][0]
            if got != want or len(toks) != n:
                probs.append(f"distance_to_node({q[1]}) = {ans[3:]} differs from breadth-first distances")
        elif kind == "linearise":
            lin = parse_ids(ans)
            pos = {x: i for i, x in enumerate(lin)}
            if sorted(lin) != sorted(ids):
                probs.append(f"linearise = {ans[3:]} is not a permutation of the nodes")
            elif any(pos[c] > pos[k] for k in ids for c in kids[k]):
                probs.append(f"linearise = {ans[3:]}: a child comes after its parent")
            elif lin and lin[-1] != root:
                probs.append(f"linearise = {ans[3:]}: the root is not last")
        elif kind == "subtree":
            got = parse_ids(ans)
            if sorted(got) != sorted(below(args[0])):
                probs.append(f"find_subtree_of_node({q[1]}) = {ans[3:]} is not the set of descendants")
        elif kind == "leavesunder":
            got = parse_ids(ans)
            if sorted(got) != sorted(x for x in below(args[0]) if not kids[x]):
                probs.append(f"leaves_under_node({q[1]}) = {ans[3:]} is not the set of leaves below")
        elif kind == "subsize":
            if int(ans.split()[1]) != len(below(args[0])):
                probs.append(f"find_subtree_size_of_node({q[1]}) = {ans[3:]}, {len(below(args[0]))} nodes below")
        elif kind == "leaves":
            if sorted(parse_ids(ans)) != sorted(x for x in ids if not kids[x]):
                probs.append(f"get_leaves = {ans[3:]} is not the set of leaves")
        elif kind == "nn":
            got = [tuple(nm(int(v)) for v in t.split(">")) for t in ans.split()[1:]]
            if sorted(got) != sorted((k, c) for k in ids for c in kids[k]):
                probs.append(f"nearest_neighbours = {ans[3:]} is not the set of (parent, child) pairs")
        elif kind == "start":
            s = parse_ids(ans)[0]
            if kids[s] or depth[s] != max(depth.values()):
                probs.append(f"update path start {lab(s)} is not a leaf of maximal depth")
        elif kind == "updatepath":
            up = parse_ids(ans)
            if sorted(up) != sorted(ids):
                probs.append(f"update path {ans[3:]} does not visit every node exactly once")
                continue
            if kids[up[0]] or depth[up[0]] != max(depth.values()):
                probs.append(f"update path {ans[3:]} does not start at a deepest leaf")
            if len(adj[up[-1]]) > 1:
                probs.append(f"update path {ans[3:]} ends at {lab(up[-1])} of degree {len(adj[up[-1]])}")
            crossings: Dict[frozenset, int] = {}
            for u, v in zip(up, up[1:]):
                walk = bfs_path(adj, u, v, bc)
                for x, y in zip(walk, walk[1:]):
                    e = frozenset((x, y))
                    crossings[e] = crossings.get(e, 0) + 1
            worst = max(crossings.values(), default=0)
            if worst > 2:
                probs.append(f"walking the update path {ans[3:]} crosses an edge {worst} times")
        elif kind == "nbrs":
            if sorted(parse_ids(ans)) != sorted(adj[args[0]]):
                probs.append(f"neighbouring_nodes({q[1]}) = {ans[3:]} is not the set of neighbours")
        elif kind == "segs":
            toks = ans.split()[1:]
            segs = [tuple(nm(int(v)) for v in t.split(">")) for t in toks[:-2]]
            last = nm(int(toks[-1]))
            ups = [u for u, _ in segs] + [last]
            if len(segs) != n - 1 or {frozenset(sg) for sg in segs} != edges:
                probs.append(f"sweep segments {ans[3:]} are not the edges of the tree, each once")
            else:
                for i, (u, h) in enumerate(segs):
                    if u == ups[i + 1] or u == last:
                        probs.append(f"segment ({lab(u)},{lab(h)}) starts at the node it is meant to lead to")
                        break
                    if bfs_path(adj, u, ups[i + 1], bc)[1] != h:
                        probs.append(f"segment ({lab(u)},{lab(h)}): {lab(h)} is not the first node toward {lab(ups[i + 1])}")
                        break
                    if bfs_path(adj, u, last, bc)[1] != h:
                        probs.append(f"segment ({lab(u)},{lab(h)}) does not point toward the last node {lab(last)}")
                        break
                if n >= 2 and segs[-1][1] != last:
                    probs.append(f"last segment {segs[-1]} does not end at the last node of the sweep")
        elif kind == "cachekeys":
            keys = [tuple(nm(int(v)) for v in t.split(">")) for t in ans.split()[1:]]
            c = args[0]
            if len(keys) != n - 1:
                probs.append(f"init_cache_but_one({q[1]}): {len(keys)} blocks for {n - 1} edges")
            elif {frozenset(k) for k in keys} != edges:
                probs.append(f"init_cache_but_one({q[1]}): keys {ans[3:]} are not one block per edge")
            else:
                for u, v in keys:
                    if u == c or bfs_path(adj, u, c, bc)[1] != v:
                        probs.append(f"init_cache_but_one({q[1]}): block ({lab(u)},{lab(v)}) does not point toward {q[1]}")
                        break
    return probs


# ------------------------------------------------------------------ running

def run(ctx):
    import glob
    import json
    import os
    from harness import common
    ctx.exhaustive = True
    corpus = sorted(glob.glob(os.path.join(common.CORPUS_DIR, "C17", "*.json")))
    cases = []
    for path in corpus:
        payload = common.unjson(json.load(open(path)))
        cases.append(payload.get("case", payload))
    cases += gen_cases(ctx)
    chunk = 400
    for i in range(0, len(cases), chunk):
        if ctx.time_left() < 0:
            ctx.exhaustive = False
            break
        part = cases[i:i + chunk]
        prepared = [prepare(ctx, c) for c in part]
        lines = []
        for p in prepared:
            if p is not None:
                lines.extend(p["lines"])
        outs = iter(ctx.lean.batch(lines))
        for c, p in zip(part, prepared):
            if p is None:
                continue
            finish(ctx, c, p, [next(outs) for _ in p["lines"]])


def run_case(ctx, case, model_out=None):
    p = prepare(ctx, case)
    if p is None:
        return
    finish(ctx, case, p, ctx.lean.batch(p["lines"]))


def prepare(ctx, case):
    """Build the object, run the implementation, assemble the model request lines."""
    if case["kind"] == "real":
        return prepare_real(ctx, case)
    base = case["base"] if case["kind"] == "history" else case
    try:
        ex = expand(base)
        ts = build_tree(ex)
    except Exception as e:                  # noqa: BLE001
        ctx.oracle_fail(case, f"building the tree through the public API raised {type(e).__name__}: {e}")
        return None
    naming = naming_of(ex)
    segments = [tree_segment(ts, ex["pairs"], naming)]
    steps = []
    if case["kind"] == "history":
        # the SAME object is changed through the public mutators and asked again after every change
        rng = random.Random(case["hseed"])
        for _ in range(case["nsteps"]):
            try:
                steps.append(apply_step(rng, ts, naming))
            except Exception as e:              # noqa: BLE001
                ctx.oracle_fail(case, f"history {steps}: mutator raised {type(e).__name__}: {str(e)[:120]}")
                return None
            segments.append(tree_segment(ts, ex["pairs"] if ex["pairs"] == "all" and len(ts.nodes) <= 8
                                         else case["hseed"], naming))
    lines = []
    for seg in segments:
        lines.extend(seg["lines"])
    return {"kind": "tree", "ex": ex, "segments": segments, "steps": steps, "lines": lines}


def tree_segment(ts, pairs, naming):
    """All queries on the tree as it is now: the implementation's answers and the two model requests."""
    root, nodes = read_structure(ts, naming)
    adj = adjacency(nodes)
    labels = [lab(k) for k, _, _ in nodes]
    queries = query_list(labels, pairs)
    extra: List = []
    answers = [impl_answer(ts, q, adj, extra, naming) for q in queries]
    root2, nodes2 = read_structure(ts, naming)
    if (root2, nodes2) != (root, nodes):
        extra.append("a query modified the tree structure")
    tree = model_tree_tokens(root, nodes)
    qflat = " ".join("q " + " ".join(q) for q in queries)
    squeries = [q for q in queries if q[0] not in STRUCT_SKIP]
    qstruct = " ".join("q " + " ".join(q) for q in squeries)
    return {"root": root, "nodes": nodes, "adj": adj, "queries": queries, "squeries": squeries,
            "answers": answers, "extra": extra,
            "lines": [f"C17 flat tree {tree} {qflat}", f"C17 struct tree {tree} {qstruct}"]}


STEP_KINDS = ["leaf", "leaf", "root", "rename", "swap", "reorder"]


def apply_step(rng, ts, naming):
    """One public mutator on the live tree; returns its description (canonical labels)."""
    from pytreenet.core.graph_node import GraphNode
    canon = [naming.canon(k) for k in ts.nodes]
    used = {lab(k) for k in canon}
    fresh = max(used) + 1 + rng.randrange(3)
    r = naming.real
    kind = rng.choice(STEP_KINDS)
    if kind in ("swap", "reorder") and len(canon) < 2:
        kind = "leaf"
    if kind == "leaf":
        parent = rng.choice(canon)
        ts.add_child_to_parent(GraphNode(r(nm(fresh))), r(parent))
        return ["leaf", lab(parent), fresh]
    if kind == "root":
        ts.add_parent_to_root(GraphNode(r(nm(fresh))))
        return ["root", fresh]
    if kind == "rename":
        old = rng.choice(canon)
        ts.change_node_identifier(r(nm(fresh)), r(old))
        return ["rename", lab(old), fresh]
    if kind == "swap":                      # two nodes exchange their identifiers
        a, b = rng.sample(canon, 2)
        ts.change_node_identifier("tmp_identifier", r(a))
        ts.change_node_identifier(r(a), r(b))
        ts.change_node_identifier(r(b), "tmp_identifier")
        return ["swap", lab(a), lab(b)]
    inner = [k for k in canon if len(ts.nodes[r(k)].children) >= 2]
    if not inner:
        parent = rng.choice(canon)
        ts.add_child_to_parent(GraphNode(r(nm(fresh))), r(parent))
        return ["leaf", lab(parent), fresh]
    k = rng.choice(inner)                   # the first child moves to the end of the child list
    node = ts.nodes[r(k)]
    c = node.children[0]
    node.remove_child(c)
    node.add_child(c)
    return ["reorder", lab(k)]


def finish(ctx, case, p, outs):
    if p["kind"] == "real":
        return finish_real(ctx, case, p, outs)
    ex = p["ex"]
    n = ex["n"]
    key = (tuple(ex["par"]), tuple(ex["label"]), tuple(ex["order"]), tuple(map(tuple, ex["kids"])),
           ex.get("ids", "plain"), tuple(map(tuple, p["steps"])))
    ctx.count(key, nontrivial=n >= 3, corr=True)
    ctx.tally("nodes", n if n <= 7 else ("8-14" if n <= 14 else ("15-40" if n <= 40 else "41-300")))
    base = case["base"] if case["kind"] == "history" else case
    ctx.tally("variant", base.get("variant", "explicit"))
    ctx.tally("identifiers", ex.get("ids", "plain"))
    ctx.tally("history_steps", len(p["steps"]))
    for st in p["steps"]:
        ctx.tally("history_mutator", st[0])
    rootdeg = len(ex["kids"][ex["par"].index(-1)])
    ctx.tally("root_children", rootdeg if rootdeg < 3 else ">=3")
    ctx.sample(case, 3)
    pos = 0
    for i, seg in enumerate(p["segments"]):
        where = "" if i == 0 else f"after {p['steps'][:i]}: "
        finish_segment(ctx, case, seg, outs[pos:pos + 2], where)
        pos += 2


def finish_segment(ctx, case, seg, outs, where=""):
    queries, answers = seg["queries"], seg["answers"]
    flat = outs[0].split(" | ")
    struct = outs[1].split(" | ")
    if outs[0] == "bad-op" or len(flat) != len(queries):
        ctx.corr_fail(case, f"{where}flat model rejected the request: {outs[0][:80]}")
        flat = None
    if outs[1] == "bad-op" or len(struct) != len(seg["squeries"]):
        ctx.corr_fail(case, f"{where}structural model rejected the request: {outs[1][:80]}")
        struct = None
    bad = 0
    if flat is not None:
        for q, a, m in zip(queries, answers, flat):
            if a != m and bad < 3:
                bad += 1
                ctx.corr_fail(case, f"{where}{' '.join(q)}: impl '{a}' flat model '{m}'")
    if struct is not None:
        amap = dict(zip(queries, answers))
        for q, m in zip(seg["squeries"], struct):
            if amap[q] != m and bad < 6:
                bad += 1
                ctx.corr_fail(case, f"{where}{' '.join(q)}: impl '{amap[q]}' structural model '{m}'")
    probs = [x for x in seg["extra"] if isinstance(x, str)]
    probs += oracle(seg["root"], seg["nodes"], seg["adj"], queries, answers, errkey=id(seg["extra"]))
    for x in seg["extra"]:
        if isinstance(x, tuple) and x[0] == "second find_path":
            # a second call on the same finder gave another list: it has to be a valid update path as well
            probs += [f"second find_path() on the same finder: {m}"
                      for m in oracle(seg["root"], seg["nodes"], seg["adj"], [("updatepath",)], [x[1]])]
    if probs:
        ctx.oracle_fail(case, where + "; ".join(probs[:3]))


# ------------------------------------------------------------------ real networks

def prepare_real(ctx, case):
    """A real TTNS / TTNO pair: SandwichCache.init_cache_but_one with real contractions for every
    left-out node, and the constructor of a TDVP algorithm (update path, initial cache)."""
    import numpy as np
    from harness import algos
    from pytreenet.contractions.sandwich_caching import SandwichCache
    from pytreenet.time_evolution.time_evo_util.update_path import TDVPUpdatePathFinder
    rng = random.Random(case["seed"])
    nprng = np.random.default_rng(case["seed"])
    n = case["n"]
    par = gen.random_parent_array(rng, n)
    names = {i: nm(i) for i in range(n)}
    try:
        ttns, info = gen.random_ttns(rng, nprng, par, phys=(2,), bonds=(1, 2), names=names)
        phys = {i: info["open"][i][0] for i in range(n)}
        ttno, _ = algos.hermitian_ttno(rng, nprng, par, phys, names, n_terms=2)
    except Exception as e:                  # noqa: BLE001
        from harness.common import HarnessError
        raise HarnessError(f"C17 real case construction failed: {type(e).__name__}: {e}")
    root, nodes = read_structure(ttns)
    adj = adjacency(nodes)
    labels = [lab(k) for k, _, _ in nodes]
    queries: List[Tuple[str, ...]] = [("updatepath",), ("segs",)] + [("cachekeys", str(x)) for x in labels]
    parts = case.get("parts", ["nav"])
    # every navigation query on the real network object as well (TreeTensorNetworkState is a TreeStructure whose
    # nodes are `Node`s): asked after the cache keys so that the positions used below stay the same
    navq = [q for q in query_list(labels, "all") if q[0] not in ("updatepath", "segs", "cachekeys")] \
        if "nav" in parts else []
    answers, extra = [], []
    try:
        answers.append(fmt_ids(TDVPUpdatePathFinder(ttns).find_path()))
    except Exception as e:                  # noqa: BLE001
        impl_answer.last_exc = f"{type(e).__name__}: {str(e)[:80]}"
        answers.append("err")
    answers.append(impl_answer(ttns, ("segs",), adj, extra))
    for x in labels:
        try:
            cache = SandwichCache.init_cache_but_one(ttns, ttno, nm(x))
            answers.append(" ".join(["ok"] + [f"{lab(a)}>{lab(b)}" for a, b in cache.keys()]))
        except Exception as e:              # noqa: BLE001
            impl_answer.last_exc = f"{type(e).__name__}: {str(e)[:80]}"
            answers.append("err")
    for q in navq:
        answers.append(impl_answer(ttns, q, adj, extra))
    if navq:
        root2, nodes2 = read_structure(ttns)
        if (root2, nodes2) != (root, nodes):
            extra.append("a query modified the tree structure of the network")
    # the TDVP constructors (all three classes share `_finds_update_path` / `_init_partial_tree_cache`): update
    # path of the initial state, cache toward its first node; then - on one of them - a history: one time step,
    # `reset_to_initial_state()`, and the initial cache / update path again
    tdvp = None
    tdvp_all = {}
    kinds = ("tdvp1", "tdvp2", "tdvp2site") if "nav" in parts else ("tdvp1",)
    for kind in kinds:
        try:
            algo = algos.make_algo(kind, ttns, ttno, 0.1, 0.1, [])
            tdvp_all[kind] = (fmt_ids(algo.update_path), sorted(algo.partial_tree_cache.keys()),
                              fmt_segs(algo.update_path, algo.orthogonalization_path))
        except Exception as e:                  # noqa: BLE001
            extra.append(f"{kind} constructor raised {type(e).__name__}: {str(e)[:80]}")
            continue
        if "nav" in parts and kind == kinds[case["seed"] % len(kinds)] and (n >= 2 or kind == "tdvp1"):
            try:
                algo.run_one_time_step()
                algo.reset_to_initial_state()
                tdvp_all[kind + "+step+reset"] = (fmt_ids(algo.update_path), sorted(algo.partial_tree_cache.keys()),
                                                  fmt_segs(algo.update_path, algo.orthogonalization_path))
            except Exception as e:              # noqa: BLE001
                extra.append(f"{kind}: run_one_time_step / reset_to_initial_state raised "
                             f"{type(e).__name__}: {str(e)[:80]}")
    tdvp = tdvp_all.get("tdvp1")
    # the event / environment traces tie the models Ptn.C05.Disc and Ptn.C09.Env to the code: they are run and
    # judged by the checks of C05 and C09 (case["parts"]), not by C17, whose property is navigation only
    events = observe_events(ttns, ttno) if "events" in parts else {}
    bugenv = observe_bugenv(ttns, ttno) if "bugenv" in parts else {}
    tree = model_tree_tokens(root, nodes)
    queries = queries + navq
    qs = " ".join("q " + " ".join(q) for q in queries)
    squeries = [q for q in queries if q[0] not in STRUCT_SKIP]
    qstruct = " ".join("q " + " ".join(q) for q in squeries)
    return {"kind": "real", "events": events, "bugenv": bugenv, "root": root, "nodes": nodes, "adj": adj, "queries": queries, "answers": answers,
            "squeries": squeries, "extra": extra, "tdvp": tdvp, "tdvp_all": tdvp_all, "n": n, "navq": len(navq),
            "lines": [f"C17 flat tree {tree} {qs}", f"C17 struct tree {tree} {qstruct}",
                      f"C17 struct tree {tree} q events first q events second q events twosite q bugenv"]}


EVENT_KINDS = (("tdvp1", "first"), ("tdvp2", "second"), ("tdvp2site", "twosite"))


def observe_events(ttns, ttno):
    """One time step of the three TDVP variants with the methods that make up the events of
    `Ptn.C05.Disc` wrapped: `_update_site` -> site, `_update_link` -> link, `_update_two_site_nodes` ->
    two, every hop of `_move_orth_and_update_cache_for_path` -> move, `_reset_for_next_time_step` ->
    hops along the way back to the start and `init`."""
    from harness import algos
    out = {}
    for kind, which in EVENT_KINDS:
        log: List[str] = []
        try:
            algo = algos.make_algo(kind, ttns, ttno, 0.01, 0.01, [])

            def wrap(name, fn, algo=algo):
                orig = getattr(algo, name)

                def w(*a, **k):
                    fn(*a, **k)
                    return orig(*a, **k)
                setattr(algo, name, w)

            wrap("_update_site", lambda v, *a, **k: log.append(f"site {lab(v)}"))
            if hasattr(algo, "_update_link"):
                wrap("_update_link", lambda a, b, *x, **k: log.append(f"link {lab(a)}>{lab(b)}"))
            if hasattr(algo, "_update_two_site_nodes"):
                wrap("_update_two_site_nodes", lambda a, b, *x, **k: log.append(f"two {lab(a)}>{lab(b)}"))

            def mv(path):
                for a, b in zip(path, path[1:]):
                    log.append(f"move {lab(a)}>{lab(b)}")
            wrap("_move_orth_and_update_cache_for_path", mv)
            if hasattr(algo, "_reset_for_next_time_step"):
                def rs(algo=algo):
                    pth = algo.state.path_from_to(algo.state.orthogonality_center_id, algo.update_path[0])
                    for a, b in zip(pth, pth[1:]):
                        log.append(f"hop {lab(a)}>{lab(b)}")
                    log.append(f"init {lab(algo.update_path[0])}")
                wrap("_reset_for_next_time_step", rs)
            algo.run_one_time_step()
            out[which] = " ".join(["ok"] + log)
        except Exception as e:              # noqa: BLE001
            out[which] = f"err ({type(e).__name__}: {str(e)[:60]})"
    return out


def parse_bugenv(out: str):
    """model answer of `bugenv` -> set of (kind, node(s), sorted reads with generation)"""
    evs = set()
    for ev in out[3:].split(" ; "):
        tk = ev.split()
        if not tk or tk[0] == "init":
            continue
        rds = tuple(sorted((int(r.split(">")[0]), int(r.split(">")[1].split(":")[0]), r.split(":")[1])
                           for r in tk[2:]))
        if tk[0] == "evolve":
            evs.add(("evolve", int(tk[1]), rds))
        elif tk[0] == "descend":
            a, b = tk[1].split(">")
            evs.add(("descend", int(a), int(b), rds))
        elif tk[0] == "build" and rds:         # leaves use contract_leaf: nothing is read
            evs.add(("build", int(tk[1].split(">")[0]), rds))
    return evs


def observe_bugenv(ttns, ttno):
    """One step of BUG and FixedBUG with every cached block tagged by the generation of tensors it was
    built from (`old`: `init_cache_but_one` / `update_tree_cache` inside `update_node`; `new`: the block
    returned by `update_node`) and every `get_entry` during a local evolution, a rebuild on the way down
    and `contract_any` recorded.  Returns {class: set of events} in the format of `parse_bugenv`."""
    import sys as _sys
    from harness import algos
    from pytreenet.time_evolution.bug import BUG  # noqa: F401  (loads the module below)
    from pytreenet.contractions.sandwich_caching import SandwichCache
    from pytreenet.contractions.tree_cach_dict import PartialTreeCachDict
    cb = _sys.modules["pytreenet.time_evolution.time_evo_util.common_bug"]
    tags, log, cur, in_init = {}, [], [None], [False]
    saved = (PartialTreeCachDict.get_entry, SandwichCache.__dict__["init_cache_but_one"],
             SandwichCache.update_tree_cache, cb.single_site_time_evolution, cb.update_node, cb.contract_any)
    orig_get, orig_init_cm, orig_utc, orig_ss, orig_un, orig_ca = saved
    orig_init = orig_init_cm.__func__

    def get_entry(self, a, b):
        val = orig_get(self, a, b)
        if cur[0] is not None:
            cur[0].append((lab(a), lab(b), tags.get(id(val), "missing")))
        return val

    def init(cls, state, ham, lo):
        in_init[0] = True
        try:
            cache = orig_init(cls, state, ham, lo)
        finally:
            in_init[0] = False
        for v in cache.values():
            tags[id(v)] = "old"
        return cache

    def utc(self, a, b):
        rd, prev = [], cur[0]
        cur[0] = rd
        try:
            orig_utc(self, a, b)
        finally:
            cur[0] = prev
        tags[id(self[(a, b)])] = "old"
        if not in_init[0]:
            log.append(("descend", lab(a), lab(b), tuple(sorted(rd))))

    def ss(node_id, state, ham, dt, cache, **kw):
        rd = []
        cur[0] = rd
        try:
            return orig_ss(node_id, state, ham, dt, cache, **kw)
        finally:
            cur[0] = None
            log.append(("evolve", lab(node_id), tuple(sorted(rd))))

    def un(node_id, *a, **kw):
        res = orig_un(node_id, *a, **kw)
        tags[id(res[1])] = "new"
        return res

    def ca(node_id, next_id, state, ham, cache):
        rd, prev = [], cur[0]
        cur[0] = rd
        try:
            return orig_ca(node_id, next_id, state, ham, cache)
        finally:
            cur[0] = prev
            log.append(("build", lab(node_id), tuple(sorted(rd))))

    out = {}
    try:
        PartialTreeCachDict.get_entry = get_entry
        SandwichCache.init_cache_but_one = classmethod(init)
        SandwichCache.update_tree_cache = utc
        cb.single_site_time_evolution = ss
        cb.update_node = un
        cb.contract_any = ca
        for kind in ("bug", "fixedbug"):
            log.clear()
            tags.clear()
            try:
                algo = algos.make_algo(kind, ttns, ttno, 0.01, 0.01, [])
                algo.run_one_time_step()
                out[kind] = set(log)
            except Exception as e:          # noqa: BLE001
                out[kind] = f"raised {type(e).__name__}: {str(e)[:60]}"
    finally:
        PartialTreeCachDict.get_entry = orig_get
        SandwichCache.init_cache_but_one = orig_init_cm
        SandwichCache.update_tree_cache = orig_utc
        cb.single_site_time_evolution = orig_ss
        cb.update_node = orig_un
        cb.contract_any = orig_ca
    return out


def finish_real(ctx, case, p, outs):
    queries, answers = p["queries"], p["answers"]
    ctx.count(("real", case["seed"], case["n"]), nontrivial=p["n"] >= 3, corr=True)
    ctx.tally("nodes", f"real-{p['n']}")
    if p.get("navq"):
        ctx.tally("real_network_navigation_queries", p["navq"])
    for k in p.get("tdvp_all", {}):
        ctx.tally("real_tdvp_objects", k)
    probs = [x for x in p["extra"] if isinstance(x, str)]
    ev_model = outs[2].split(" | ")
    bug_model = parse_bugenv(ev_model[3])
    for kind, obs in p["bugenv"].items():
        if isinstance(obs, str):
            # rank-adaptive BUG is known to raise on some bond configurations (F-C09, property C09)
            ctx.tally("bugenv_skipped", kind)
        elif obs != bug_model:
            ctx.corr_fail(case, f"{kind}: environment reads differ from the model: only impl "
                                f"{sorted(obs - bug_model)[:3]} only model {sorted(bug_model - obs)[:3]}")
    for (_, which), m in zip(EVENT_KINDS, ev_model[:3]):
        if which not in p["events"]:
            continue
        obs = p["events"][which]
        if obs.split(" (")[0] != m:
            ctx.corr_fail(case, f"events of one {which} time step: impl '{obs[:160]}' model '{m[:160]}'")
    amap = dict(zip(queries, answers))
    for which, out in zip(("flat", "structural"), outs):
        model = out.split(" | ")
        mq = queries if which == "flat" else p.get("squeries", queries)
        if out == "bad-op" or len(model) != len(mq):
            ctx.corr_fail(case, f"{which} model rejected the request: {out[:80]}")
            continue
        for q, m in zip(mq, model):
            if amap[q] != m:
                ctx.corr_fail(case, f"real network, {' '.join(q)}: impl '{amap[q]}' {which} model '{m}'")
                break
        if which == "flat":
            for name, (up, keys, segs) in p.get("tdvp_all", {}).items():
                if up != model[0]:
                    ctx.corr_fail(case, f"{name}: update_path '{up}' model '{model[0]}'")
                if segs != model[1]:
                    ctx.corr_fail(case, f"{name}: (update_path[i], orthogonalization_path[i][0]) "
                                        f"'{segs}' model '{model[1]}'")
                first = up.split()[1]
                if ("cachekeys", first) not in queries:
                    continue                    # (the oracle below reports the wrong first node)
                qi = queries.index(("cachekeys", first))
                want = sorted(tuple(nm(int(v)) for v in t.split(">")) for t in model[qi].split()[1:])
                if keys != want:
                    ctx.corr_fail(case, f"{name}: cache keys {keys} model {want}")
    probs += oracle(p["root"], p["nodes"], p["adj"], queries, answers, errkey=id(p["extra"]))
    for name, (up, keys, segs) in p.get("tdvp_all", {}).items():
        first = up.split()[1]
        ans = " ".join(["ok"] + [f"{lab(a)}>{lab(b)}" for a, b in keys])
        probs += [f"{name}: {m}" for m in
                  oracle(p["root"], p["nodes"], p["adj"], [("updatepath",), ("segs",), ("cachekeys", first)],
                         [up, segs, ans])]
    if probs:
        ctx.oracle_fail(case, "; ".join(probs[:3]))


# ------------------------------------------------------------------ shrinking

def shrink(case):
    """Remove one leaf / simplify the instance."""
    if case["kind"] == "real":
        if case["n"] > 2:
            yield dict(case, n=case["n"] - 1)
        return
    if case["kind"] == "history":
        if case["nsteps"] > 1:
            yield dict(case, nsteps=case["nsteps"] - 1)
        base = expand(case["base"])
        if case["base"].get("kind") != "explicit":
            yield dict(case, base=base)
        return
    ex = expand(case)
    n = ex["n"]
    if n <= 1:
        return
    for leaf in range(n - 1, -1, -1):
        if ex["kids"][leaf] or ex["par"][leaf] < 0:
            continue
        ren = {i: (i if i < leaf else i - 1) for i in range(n) if i != leaf}
        yield {"kind": "explicit", "n": n - 1,
               "par": [(-1 if ex["par"][i] < 0 else ren[ex["par"][i]]) for i in range(n) if i != leaf],
               "label": [ex["label"][i] for i in range(n) if i != leaf],
               "order": [ren[i] for i in ex["order"] if i != leaf],
               "kids": [[ren[c] for c in ex["kids"][i] if c != leaf] for i in range(n) if i != leaf],
               "build": "rename", "pairs": "all", "stub": True, **({"ids": ex["ids"]} if "ids" in ex else {})}
    if "ids" in ex:
        yield {k: v for k, v in ex.items() if k != "ids"}
    if ex["build"] != "rename" or ex["label"] != list(range(n)):
        yield dict(ex, label=list(range(n)), build="rename", pairs="all")
