"""C16 — a density-operator network built from a pure state behaves as |psi><psi|.

Stage B (correspondence with Ptn.C16): the structure produced by `from_ttns` (every node's parent and
ordered child list, in dict order) is compared exactly with the Lean model of from_ttns /
_rec_add_children / add_symmetric_children_to_parent; the model's `order` answer (the regex filter of
ttndo_contraction_order on the real identifier strings) is compared with the library's.
Stage B (value): on real small-integer tensors the Lean model evaluates the binding record it computed for `trace_ttndo` /
`ttndo_ttno_expectation_value` on the TTNDO's actual tensors (`C04 einrec`, `netValue`: the function and the record the
value-level theorems trace_value / ttndo_ttno_value are about); the library's number must be that integer exactly.
Stage C (oracle): trace() = <psi|psi> (unnormalised states), TTNO expectation = <psi|O|psi>, tensor
products on 0..N sites with non-Hermitian factors = <psi|O|psi>, for root bond dimensions 1..4; the
dense contraction of the TTNDO itself = psi (x) conj(psi); only index 0 of the padded root bond is
non-zero.  Exact regime ({0,+-1,+-i}, ==) and random complex (1e-10).  Identifiers are fuzzed with
names that already end in / contain the suffix strings `_ket` and `_bra`.
"""
from __future__ import annotations

import json
import random

import numpy as np

from harness import gen, dense, algos

RULE = ("random trees 1..6 nodes (uniform/chain/star/spider/..., single node), complex unnormalised states, root bond "
        "dimension 1..4, TTNO from gen.random_ttno_like (own child order, non-Hermitian) or algos.ttno_from_terms, "
        "tensor products on 0,1,2,..,N sites; exact and float regimes; identifier styles plain / ending in _bra / "
        "containing _ket (regression cases of the fixed F-C16b). non-trivial = reference != 0 on a tree with >= 2 nodes or root bond > 1. "
        "input-space audit axes: call forms of from_ttns (both defaults / root_id only / root_bond_dim only / positional / "
        "keywords), custom root identifiers, root bond 5..8 and NumPy integers, element types real / int64 / complex64 / "
        "read-only strided views, canonical source states, magnitudes 1e-8..1e+8, identifiers that are prefixes of each "
        "other; 160 networks built by hand through add_trivial_root / add_symmetric_children_to_parent with custom "
        "(bra, ket) suffixes and parent_bra_leg omitted / None / explicit (oracle only), the documented ValueError; the "
        "network must be unchanged by the queries")
PARTIAL = [
    "value level: Lean proves (trace_value, trace_value_padded_root, ttndo_ttno_value, ttndo_ttno_value_padded_root; any "
    "commutative semiring, all sizes and dimensions) that EVERY strongly well-formed contraction program whose binding "
    "record is the one the model of trace_ttndo / ttndo_ttno_expectation_value produces (trace_graph, ttndo_ttno_graph) "
    "evaluates to sum_{a,b} root[a,b] * sum_phys K_a * B_b (resp. the sandwich of the dense operator, inputs on the ket "
    "copy, outputs on the bra copy), and with the identity root tensor and the padded root bond to sum_phys K_0 * B_0 for "
    "every root bond dimension >= 1.  Provenance (a) is now PROVED for the model: trace_loop_value / "
    "ttndo_ttno_loop_value (+ _padded_root) show that the result of the model's own sequence of tensordot calls (loop, "
    "_contract_ttno_root / _single_site_contraction, _contract_final_block: `Built`, one lemma per model function) is "
    "built from exactly the root tensor and the node tensors, and that EVERY expression it is built from is such a "
    "program and evaluates to the dense value with the canonical dense vectors / operator - for all trees, semirings, "
    "dimensions and tensor values reading only their own legs.  NOT proved: that the LIBRARY performs the model's calls "
    "(tied to the code by the `trace` / `ttno` record comparison and, on integer tensors, by the Lean model evaluating its "
    "own record "
    "on the TTNDO's tensors: `model_value`); (b) the hypothesis `PaddedRoot` (dense vectors vanish off index 0 of the root "
    "bond) is proved from the padded root TENSORS (padded_root_of_tensors); that the tensors from_ttns builds are padded "
    "that way is padded_root_index for the model of numpy.pad plus the oracle on the real tensors; (c) that the bra tensors "
    "are the conjugates of the ket tensors (<psi|psi> rather than a bilinear form) is decided by the dense oracle",
    "Lean also proves the structure of from_ttns (ttndo_structure), the identifier maps (suffix_tagging, "
    "reverseId_append), the padding lemma (padded_root_index, padded_root_no_contribution), the contraction-order filter "
    "(contraction_order_kets); the model of from_ttns has no legs: that _rec_add_children attaches the right legs is "
    "decided by the dense contraction of the TTNDO",
    "tensor-product expectation values: Lean proves (all trees, any commutative semiring, all dimensions, any list of "
    "sites) absorb_value (one absorb_into_open_legs call: record AND value, built by its single tensordot), "
    "tensor_product_ket_value (the dense vector of the absorbed ket tensors is (x)_s O_s applied to the dense vector), "
    "tensor_product_value / _padded_root (trace_ttndo on the network with the absorbed tensors evaluates to "
    "sum_phys ((x)O psi) * psi', identity root + padded bond: <psi'|(x)O|psi> for every root bond dimension >= 1), "
    "tensor_product_value_no_factor, tensor_product_factor_order.  NOT proved: in these theorems the output index of an "
    "absorbed operator is read on the leg that carries the NAME of the physical leg, while the model "
    "tensorProductExpectationValue calls that axis gOpOut s; that trace_ttndo treats both names alike (tensordot is "
    "positional: tensordot_positional) is proved for one 4-node tree only (tensor_product_graph_partial) - "
    "`tensor_product_graph` for all trees is open; the stream `tprod` compares the model's record, evaluated on the "
    "real tensors, with the library's number; that the operator is applied to the KET copy un-conjugated is the oracle",
]
ASSUMPTIONS = ["NumPy tensordot/pad/reshape semantics (tensordot = sum over a common index per pair: checked against the "
               "Lean semantics by the `ein` stream of C04 and by `model_value` here)", "dense contraction by tensordot over labelled legs",
               "the caller passes a root_id that is not an identifier of the TTNDO's ket/bra copies"]

MAX_DENSE = 72
ROOT_ID = "ttndo_root"

# ---------------------------------------------------------------------------------------------------------------------
# PENDING FINDINGS (input-space audit).  Behaviour of the UNCHANGED /repo that violates the property on inputs the
# audit added; reported to the coordinator, not yet repaired in /repo nor recorded in known_findings.json.  While an
# entry is present the named inputs are NOT generated (gen_cases consults this dict); delete the entry to arm them.
PENDING_FINDINGS = {
    "P-C16-root-id-ket-suffix": {
        "inputs": "from_ttns(psi, root_id=<any string ending in '_ket'>), e.g. root_id='rho_ket' on any state "
                  "(notes/C16.md, 'Input-space audit', script)",
        "message": "trace(): raised KeyError: 'rho_bra' (ttndo_contraction_order keeps every identifier that ends with "
                   "the ket suffix, so the TTNDO root is taken for a ket copy); every expectation value fails the same way",
        "disabled": "root identifiers ending in the ket suffix are not generated (ROOT_IDS_PENDING for from_ttns; "
                    "replaced by 'R' for the manually built networks with custom suffixes)",
    },
}
ROOT_IDS = ["R", "0", "rho_bra", "a_ket_b", "ttndo_root_", "_bra", "n0_ke", "root"]
ROOT_IDS_PENDING = ["rho_ket", "_ket"]
# ---------------------------------------------------------------------------------------------------------------------

# custom (bra_suffix, ket_suffix) pairs of SymmetricTTNDO for the manually built networks; neither is a suffix of the
# other (otherwise the tagging is ambiguous: outside the property)
SUFFIXES = [("_bra", "_ket"), ("_b", "_k"), (".bra", ".ket"), ("*", "+"), ("_ket", "_bra"), ("]", "["), ("B", "K")]
SINGLE_TOL = 2e-4


# ------------------------------------------------------------------ construction

def _names(style, n, rng):
    if style == "plain":
        return {i: f"n{i}" for i in range(n)}
    if style == "prefix":      # identifiers that are prefixes of each other, also by a partial suffix
        pool = ["q1", "q10", "q100", "q1_", "q1_k", "q1_ke", "q1_b", "q10_"]
        return {i: pool[i] for i in range(n)}
    if style == "bra":         # identifiers ending in / containing `_bra`, also pairs x / x_bra
        names = {}
        for i in range(n):
            r = rng.random()
            if r < 0.4 and i > 0 and not names[i - 1].endswith("_bra_bra"):
                names[i] = names[i - 1] + "_bra"
            elif r < 0.6:
                names[i] = f"q{i}_bra"
            elif r < 0.7:
                names[i] = f"_bra{i}"
            else:
                names[i] = f"q{i}"
        return names
    if style == "ket":         # some identifier contains `_ket` (F-C16b, fixed in 0b7a715: must work)
        names = {i: f"q{i}" for i in range(n)}
        k = rng.randrange(n)
        names[k] = rng.choice([f"q{k}_ket", f"my_ket_{k}", f"_ket{k}", f"q{k}_ket_bra", "_ket", "_ket_ket", f"q{k}_bra_ket"])
        if rng.random() < 0.4 and n > 1:
            j = rng.choice([x for x in range(n) if x != k])
            names[j] = names[k] + rng.choice(["_ket", "_bra"])
        return names
    raise ValueError(style)


def _phys(rng, n):
    d = [rng.choice((1, 2, 2, 3)) for _ in range(n)]
    while int(np.prod(d)) > MAX_DENSE:
        i = rng.randrange(n)
        if d[i] > 1:
            d[i] -= 1
    return d


def _make(case):
    from pytreenet.ttns.ttns import TreeTensorNetworkState
    rng = random.Random(case["seed"])
    nprng = np.random.default_rng(case["seed"])
    par = case["par"]
    n = len(par)
    exact = case["exact"]
    ints = bool(case.get("ints"))         # real small-integer tensors, small dimensions: the Lean model evaluates its record
    d = _phys(rng, n)
    if ints:
        d = [min(x, 2) for x in d]
    names = _names(case["names"], n, rng)
    open_dims = {i: [d[i]] for i in range(n)}
    dt = case.get("dtype", "c128")
    bonds = gen.random_bonds(rng, par, (1, 2, 2)) if ints else gen.random_bonds(rng, par)
    psi, _, _, _ = gen.build_network(TreeTensorNetworkState, par, bonds, open_dims, rng, nprng,
                                     names=names, small_int=exact, complex_=(dt not in ("real", "int")) and not ints)
    if dt in ("int", "single", "view"):
        from harness.props.c04 import _convert
        _convert(psi, dt)
    if case.get("gauge") and not exact:
        # a canonical source state (child orders permuted by the canonicalisation, centre recorded)
        try:
            psi.canonical_form(rng.choice(sorted(psi.nodes)))
        except Exception:       # noqa: BLE001  (C03's subject)
            pass
    mag = case.get("mag", 0)
    if mag and not exact:
        c = psi.orthogonality_center_id         # a recorded centre stays a true centre: rescale there only
        f = 10.0 ** (mag / (1 if c is not None else n))
        for nid in ([c] if c is not None else list(psi.nodes)):
            t = np.asarray(psi.tensors[nid])
            psi.replace_tensor(nid, (t * f).astype(t.dtype))
    phys = {i: d[i] for i in range(n)}
    if case["ttno"] == "terms":
        terms = []
        for _ in range(rng.randint(1, 3)):
            sites = rng.sample(range(n), rng.randint(1, min(3, n)))
            terms.append({s: gen.rand_tensor(nprng, (d[s], d[s]), True, exact) for s in sites})
        ttno, _ = algos.ttno_from_terms(par, phys, names, terms, rng, nprng)
    elif ints:
        ttno, _ = gen.random_ttno_like(rng, nprng, par, phys, bonds=(1, 2), names=names, small_int=True, complex_=False)
    else:
        ttno, _ = gen.random_ttno_like(rng, nprng, par, phys, names=names, small_int=exact)
    return rng, nprng, psi, ttno, names


# ------------------------------------------------------------------ the network under test

def _root_params(case):
    """(root_id, root_bond_dim) the network must end up with."""
    call = case.get("call", "explicit")
    rid = ROOT_ID if call in ("defaults", "dim_only") else case.get("root_id", ROOT_ID)
    rdim = 2 if call in ("defaults", "root_only") else case["rdim"]
    return rid, rdim


def _build_rho(case, psi):
    """The density-operator network of the case: `from_ttns` in one of its call forms (documented defaults
    root_id='ttndo_root', root_bond_dim=2), or built by hand through the public SymmetricTTNDO API with custom
    suffixes.  Returns (rho, root_id, root_bond_dim, bra_suffix, ket_suffix)."""
    from pytreenet.ttns.ttndo import from_ttns, SymmetricTTNDO
    rid, rdim = _root_params(case)
    call = case.get("call", "explicit")
    rd = np.int64(rdim) if case.get("rdim_np") else rdim
    if case.get("build", "from_ttns") == "from_ttns":
        if call == "explicit":
            rho = from_ttns(psi, root_id=rid, root_bond_dim=rd)
        elif call == "defaults":
            rho = from_ttns(psi)
        elif call == "positional":
            rho = from_ttns(psi, rid, rd)
        elif call == "root_only":
            rho = from_ttns(psi, root_id=rid)
        elif call == "dim_only":
            rho = from_ttns(psi, root_bond_dim=rd)
        else:
            raise ValueError(call)
        return rho, rid, rdim, "_bra", "_ket"
    bs, ks = SUFFIXES[case.get("suffix", 0)]
    rho = SymmetricTTNDO(bra_suffix=bs, ket_suffix=ks) if case.get("suffix", 0) else SymmetricTTNDO()
    if call == "defaults":
        rho.add_trivial_root(rid)
    else:
        rho.add_trivial_root(rid, dimension=rd) if call != "positional" else rho.add_trivial_root(rid, rd)
    rnode, rt = psi.root
    rt = np.array(rt)
    padded = np.zeros((rdim,) + rt.shape, dtype=rt.dtype)
    padded[0] = rt
    rho.add_symmetric_children_to_parent(rnode.identifier, padded, padded.conj(), 0, rid, 0, parent_bra_leg=1)
    explicit_bra_leg = case.get("bra_leg", 0)

    def rec(node):
        for pos, cid in enumerate(node.children):
            cnode, ct = psi[cid]
            ct = np.array(ct)
            # tensors[] access has put the legs in (parent, children, open) order; the root got a new leading leg
            pleg = (0 if node.is_root() else 1) + pos + (1 if node.is_root() else 0)
            if explicit_bra_leg == 1:
                rho.add_symmetric_children_to_parent(cid, ct, ct.conj(), 0, node.identifier, pleg, parent_bra_leg=pleg)
            elif explicit_bra_leg == 2:
                rho.add_symmetric_children_to_parent(cid, ct, ct.conj(), 0, node.identifier, pleg, None)
            else:
                rho.add_symmetric_children_to_parent(cid, ct, ct.conj(), 0, node.identifier, pleg)
            rec(cnode)
    rec(rnode)
    return rho, rid, rdim, bs, ks


# ------------------------------------------------------------------ one case

def _struct_line(psi, root_id):
    toks = [_hex(root_id), _hex(psi.root_id)]
    for nid, nd in psi.nodes.items():
        toks.append(f"{_hex(nid)}:{','.join(_hex(c) for c in nd.children)}")
    return "C16 struct " + " ".join(toks)


def _impl_struct(rho):
    toks = []
    for nid, nd in rho.nodes.items():
        p = "-" if nd.parent is None else _hex(nd.parent)
        toks.append(f"{_hex(nid)}^{p}:{','.join(_hex(c) for c in nd.children)}")
    return " ".join(toks)


def _graph_lines(psi, ttno, names):
    inv = {v: k for k, v in names.items()}
    n = len(names)

    def kids(ttn, i):
        return ",".join(str(inv[c]) for c in ttn.nodes[names[i]].children) or "-"
    root = inv[psi.root_id]
    return [f"C16 trace {root} " + " ".join(f"{i}:{kids(psi, i)};-" for i in range(n)),
            f"C16 ttno {root} " + " ".join(f"{i}:{kids(psi, i)};{kids(ttno, i)}" for i in range(n))]


def _graph_check(ctx, case, tag, rho, psi, ttno, names, mo_trace, mo_ttno, rid=ROOT_ID):
    from harness.props.c04 import _einsum_from_model
    inv = {v: k for k, v in names.items()}
    num = {rid: 0}
    for nm, i in inv.items():
        num[nm + "_ket"] = 2 * i + 1
        num[nm + "_bra"] = 2 * i + 2
    operands = []
    for nid, nd in rho.nodes.items():
        if nid not in num:
            return                      # unknown identifier: reported by the structure comparison
        k = num[nid]
        t = rho.tensors[nid]
        nbs = ([] if nd.parent is None else [nd.parent]) + list(nd.children)
        if k == 0:
            labs = ["BK0" if num[c] % 2 == 1 else "BB0" for c in nbs]
            operands.append((t.reshape(t.shape[:-1]), labs))        # the trivial open leg is indexed away
        elif k % 2 == 1:
            operands.append((t, [f"gK{k}_{num[x]}" for x in nbs] + [f"gKP{k}"]))
        else:       # the legs of the bra copy are named after the ket identifiers
            operands.append((t, [f"gB{k - 1}_{max(num[x] - 1, 0)}" for x in nbs] + [f"gBP{k - 1}"]))
    op_operands = []
    for nid, nd in ttno.nodes.items():
        i = inv[nid]
        nbs = ([] if nd.parent is None else [nd.parent]) + list(nd.children)
        k = 2 * i + 1
        op_operands.append((ttno.tensors[nid], [f"gO{k}_{2 * inv[x] + 1}" for x in nbs] + [f"gOO{k}", f"gOI{k}"]))
    for what, mo, ops, fn in (("trace", mo_trace, operands, lambda: rho.trace()),
                              ("ttno", mo_ttno, operands + op_operands, lambda: rho.ttno_expectation_value(ttno))):
        ctx.tally("graph", what)
        if not mo.startswith("legs |") and mo != "legs | binds":
            ctx.corr_fail(case, f"{tag} {what}: the model leaves free legs / fails: [{mo[:200]}]")
            continue
        ref, prob = _einsum_from_model(mo, ops)
        if prob:
            ctx.corr_fail(case, f"{tag} {what}: {prob}")
            continue
        try:
            got = complex(fn())
        except Exception:               # noqa: BLE001  (reported by the oracle)
            continue
        scale = 1.0
        for arr, _ in ops:
            scale *= max(float(np.linalg.norm(arr)), 1e-300)
        gtol, floor = (SINGLE_TOL, 1.0) if case.get("dtype") == "single" else (1e-9, 1e-6)
        if abs(got - complex(ref)) > gtol * max(abs(complex(ref)), floor * scale):
            ctx.corr_fail(case, f"{tag} {what}: library {got!r} differs from the contraction over the model's global "
                                f"binding list {complex(ref)!r}")
            continue
        _model_value(ctx, case, tag, what, mo, ops, got)


def _tprod_plan(case, psi, names):
    """The products of the `tprod` stream of a case (a function of the case alone, so that the protocol lines can be
    sent in the one batch of `run`): sites of the products on 0, 1, all and a random number of sites, and the lines."""
    import random
    inv = {v: k for k, v in names.items()}
    n = len(names)
    r = random.Random("tprod|" + json.dumps(case, sort_keys=True, default=str))
    nr_seed = r.randrange(2 ** 32)

    def kids(i):
        return ",".join(str(inv[c]) for c in psi.nodes[names[i]].children) or "-"
    tree = f"{inv[psi.root_id]} " + " ".join(f"{i}:{kids(i)};-" for i in range(n))
    sizes = sorted({0, 1, n, r.randint(0, n)})
    plans, lines = [], []
    for k in sizes:
        sites = r.sample(range(n), k)
        plans.append(sites)
        lines.append(f"C16 tprod {','.join(map(str, sites)) or '-'} {tree}")
    return nr_seed, plans, lines


def _tprod_check(ctx, case, tag, rho, psi, names, rid=ROOT_ID, mos=None):
    """Stream `tprod` (value-level correspondence of tensor_product_expectation_value): for products on 0, 1, n and a
    random number of sites (`_tprod_plan`; the lines travel in the one batch of `run`) the Lean model (`Ttndo.tensorProductExpectationValue`: EVERY factor absorbed into the ket copy
    of its site, then trace_ttndo) gives the binding record; contracted over the TTNDO's tensors and the single-site
    operators it must reproduce the library's number (integer tensors: the Lean model evaluates the record itself,
    exactly).  The routine is called twice on the same object: it must not modify it (second value == first)."""
    import random
    from pytreenet.operators.tensorproduct import TensorProduct
    from harness.props.c04 import _einsum_from_model
    inv = {v: k for k, v in names.items()}
    n = len(names)
    num = {rid: 0}
    for nm, i in inv.items():
        num[nm + "_ket"] = 2 * i + 1
        num[nm + "_bra"] = 2 * i + 2
    operands = []
    for nid, nd in rho.nodes.items():
        if nid not in num:
            return
        k = num[nid]
        t = rho.tensors[nid]
        nbs = ([] if nd.parent is None else [nd.parent]) + list(nd.children)
        if k == 0:
            labs = ["BK0" if num[c] % 2 == 1 else "BB0" for c in nbs]
            operands.append((t.reshape(t.shape[:-1]), labs))
        elif k % 2 == 1:
            operands.append((t, [f"gK{k}_{num[x]}" for x in nbs] + [f"gKP{k}"]))
        else:
            operands.append((t, [f"gB{k - 1}_{max(num[x] - 1, 0)}" for x in nbs] + [f"gBP{k - 1}"]))
    nr_seed, plans, lines = _tprod_plan(case, psi, names)
    nr = np.random.default_rng(nr_seed)
    exact = bool(case.get("exact"))
    if mos is None or len(mos) != len(lines):
        mos = ctx.lean.batch(lines)
    for sites, mo in zip(plans, mos):
        what = f"tprod on {len(sites) if len(sites) <= 2 else ('N' if len(sites) == n else 'k')} sites"
        ctx.tally("graph", what)
        if not mo.startswith("legs |"):
            ctx.corr_fail(case, f"{tag} {what}: the model leaves free legs / fails: [{mo[:200]}]")
            continue
        ops, op_operands = {}, []
        for i in sites:
            d = rho.tensors[names[i] + "_ket"].shape[-1]
            if exact:
                o = nr.integers(-2, 3, size=(d, d)).astype(float)
            else:
                o = nr.standard_normal((d, d)) + 1j * nr.standard_normal((d, d))
            ops[names[i]] = o
            op_operands.append((o, [f"gOO{2 * i + 1}", f"gOI{2 * i + 1}"]))
        allops = operands + op_operands
        ref, prob = _einsum_from_model(mo, allops)
        if prob:
            ctx.corr_fail(case, f"{tag} {what}: {prob}")
            continue
        try:
            got = complex(rho.tensor_product_expectation_value(TensorProduct(dict(ops))))
            again = complex(rho.tensor_product_expectation_value(TensorProduct(dict(ops))))
        except Exception:               # noqa: BLE001  (reported by the oracle)
            continue
        if again != got:
            ctx.corr_fail(case, f"{tag} {what}: a second call on the same object gives {again!r}, the first gave {got!r} "
                                f"(the routine modified the network)")
            continue
        scale = 1.0
        for arr, _ in allops:
            scale *= max(float(np.linalg.norm(arr)), 1e-300)
        gtol, floor = (SINGLE_TOL, 1.0) if case.get("dtype") == "single" else (1e-9, 1e-6)
        if abs(got - complex(ref)) > gtol * max(abs(complex(ref)), floor * scale):
            ctx.corr_fail(case, f"{tag} {what}: library {got!r} differs from the contraction over the model's binding "
                                f"record (every factor absorbed) {complex(ref)!r}")
            continue
        _model_value(ctx, case, tag, what, mo, allops, got)


MAX_MODEL_SUM = 40000


def _model_value(ctx, case, tag, what, model_out, operands, got):
    """Integer tensors: the Lean model itself evaluates its binding record on the TTNDO's actual tensors (`netValue` of
    Ptn/Common/EinsumModel.lean over the record of `trace_ttndo` / `ttndo_ttno_expectation_value`: the function and the
    record the value-level theorems `trace_value` / `ttndo_ttno_value` are about); the library's number must be that
    integer exactly."""
    from harness import einsum_corr
    arrs = []
    for arr, _ in operands:
        a = np.asarray(arr)
        if np.iscomplexobj(a):
            if np.abs(a.imag).max(initial=0) != 0:
                return
            a = a.real
        if np.abs(a - np.round(a)).max(initial=0) != 0:
            return
        arrs.append(np.round(a).astype(np.int64))
    lpart, bpart = model_out.split(" | ")
    legs = lpart.split()[1:]
    binds = [tuple(x.split("~")) for x in bpart.split()[1:]]
    num, dims, leaves = {}, [], []
    for a, (_, labs) in zip(arrs, operands):
        ll = []
        for l, dd in zip(labs, a.shape):
            num[l] = len(dims)
            dims.append(int(dd))
            ll.append(num[l])
        leaves.append((ll, a))
    size = 1
    for a, _ in binds:
        size *= dims[num[a]]
    if size > MAX_MODEL_SUM:
        ctx.tally("model_value", f"{what}: skipped (sum over more than {MAX_MODEL_SUM} index tuples)")
        return
    line = einsum_corr.einrec_line(dims, [num[l] for l in legs], [(num[a], num[b]) for a, b in binds], leaves)
    ans = ctx.lean.batch([line])[0]
    ctx.tally("model_value", what)
    ctx.tally("model_value_bound_pairs", len(binds))
    tab = einsum_corr.parse_table(ans, "full")
    ctx.count(("model_value", what, line), nontrivial=len(binds) >= 4 and bool(tab) and tab[0] != 0, corr=True)
    if tab is None or len(tab) != 1:
        ctx.corr_fail(case, f"{tag} {what}: the value-level model rejects the model's own binding record on the TTNDO's "
                            f"tensors: [{ans[:120]}]")
        return
    if complex(tab[0]) != complex(got):
        ctx.corr_fail(case, f"{tag} {what}: library value {got!r} differs from the Lean model's evaluation {tab[0]} of its "
                            f"binding record on the same integer tensors")


def _hex(s):
    return s.encode().hex() or "-"


def _order_line(rho):
    """Model of ttndo_contraction_order on the real identifier strings (hex-encoded), linearised order."""
    return "C16 order " + _hex(rho.ket_suffix) + " " + " ".join(_hex(x) for x in rho.linearise())


def _case(ctx, case, model_out=None):
    from pytreenet.operators.tensorproduct import TensorProduct
    from pytreenet.contractions.ttndo_contractions import ttndo_contraction_order
    rng, nprng, psi, ttno, names = _make(case)
    exact = case["exact"]
    n = len(case["par"])
    rid, rdim = _root_params(case)
    manual = case.get("build", "from_ttns") == "manual"
    dt = case.get("dtype", "c128")
    tol = SINGLE_TOL if dt == "single" else 1e-10
    order = sorted(psi.nodes)
    dims = dense.phys_dims(psi, order)
    v = dense.ttns_vector(psi, order)
    nv = float(np.linalg.norm(v))
    style = case["names"]
    ctx.tally("nodes", n)
    ctx.tally("root_bond_dim", rdim)
    ctx.tally("regime", "exact" if exact else "float")
    ctx.tally("names", style)
    ctx.tally("ttno", case["ttno"])
    ctx.tally("build", case.get("build", "from_ttns") + "/" + case.get("call", "explicit"))
    ctx.tally("root_id", "default" if rid == ROOT_ID else ("custom, ends in _bra" if rid.endswith("_bra") else
                                                           ("custom, contains _ket" if "_ket" in rid else "custom")))
    ctx.tally("element_type", dt)
    ctx.tally("magnitude_exponent", case.get("mag", 0))
    ctx.tally("source_state", "canonical (centre recorded)" if psi.orthogonality_center_id is not None else "no centre")
    ctx.tally("state_vector_is_zero", nv == 0)
    if manual:
        ctx.tally("manual_suffixes", "%s / %s" % SUFFIXES[case.get("suffix", 0)])
        ctx.tally("manual_parent_bra_leg", ["omitted", "explicit (= parent_leg)", "None"][case.get("bra_leg", 0)])
    ctx.sample(case, 3)
    extra = "".join(f", {k}={case[k]}" for k in ("build", "call", "root_id", "suffix", "dtype", "gauge", "mag")
                    if case.get(k))
    tag = f"[{'exact' if exact else 'float'}, n={n}, root bond {rdim}, names {style}{extra}]"
    probs = []

    def report(msgs):
        if msgs:
            ctx.oracle_fail(case, f"{tag} " + "; ".join(msgs[:4]), finding=None)

    # ---- construction
    try:
        rho, rid, rdim, bs, ks = _build_rho(case, psi)
    except Exception as e:      # noqa: BLE001
        report([f"{'manual construction' if manual else 'from_ttns'} raised {type(e).__name__}: {str(e)[:160]}"])
        return
    if not manual:
        # ---- stage B: structure and contraction-order filter against the model
        impl_struct = _impl_struct(rho)
        impl_order = " ".join(_hex(x) for x in ttndo_contraction_order(rho))
        lines = [_struct_line(psi, rid), _order_line(rho)] + _graph_lines(psi, ttno, names)
        mo = model_out[:4] if model_out is not None else ctx.lean.batch(lines)
        ctx.corr_cases += 1
        # the insertion order of the node dictionary is not part of the stated structure (identifiers, parents, ordered
        # children): the node records are compared as sorted lists
        if sorted(mo[0].split(" ")) != sorted(impl_struct.split(" ")):
            ctx.corr_fail(case, f"{tag} structure: impl=[{impl_struct}] model=[{mo[0]}]")
        if mo[1] != (impl_order or "-"):
            ctx.corr_fail(case, f"{tag} contraction order filter: impl=[{impl_order}] model=[{mo[1]}]")
        # ---- stage B (graph): the model's global binding list of trace_ttndo / ttndo_ttno_expectation_value,
        #      evaluated by einsum on the real tensors, against the library's values
        _graph_check(ctx, case, tag, rho, psi, ttno, names, mo[2], mo[3], rid)
        _tprod_check(ctx, case, tag, rho, psi, names, rid, mos=(model_out[4:] if model_out is not None else None))
    else:
        # the documented refusal: a separate bra leg for a parent that is not the root
        inner = [x for x in order if psi.nodes[x].parent is not None and psi.nodes[x].children]
        if inner:
            ctx.tally("route", "parent_bra_leg != parent_leg on a non-root parent (documented ValueError)")
            x = inner[0]
            c = psi.nodes[x].children[0]
            ct = np.array(psi.tensors[c])
            import copy
            probe = copy.deepcopy(rho)
            try:
                probe.add_symmetric_children_to_parent(c + "#", ct, ct.conj(), 0, x, 1, parent_bra_leg=2)
                probs.append("add_symmetric_children_to_parent accepted parent_bra_leg != parent_leg for a non-root "
                             "parent (documented: ValueError)")
            except ValueError:
                pass
            except Exception as e:      # noqa: BLE001
                probs.append(f"add_symmetric_children_to_parent(parent_bra_leg != parent_leg, non-root parent) raised "
                             f"{type(e).__name__} instead of the documented ValueError")
    # ---- the TTNDO itself: well-formed, = psi (x) conj(psi), padding
    wf = dense.well_formed(rho)
    if wf:
        report([f"TTNDO not well-formed: {wf[:2]}"])
        return
    kets = [x + ks for x in order]
    bras = [x + bs for x in order]
    try:
        arr, _ = dense.ttn_dense(rho, [rid] + kets + bras)
        full = np.asarray(arr).reshape(v.size, v.size)
        ref = np.outer(v, v.conj())
        if (not np.array_equal(full, ref)) if exact else (np.linalg.norm(full - ref) > tol * max(nv * nv, 1e-300)):
            probs.append("dense contraction of the TTNDO != psi (x) conj(psi)")
    except Exception as e:      # noqa: BLE001
        probs.append(f"dense contraction of the TTNDO impossible: {type(e).__name__}: {str(e)[:120]}")
    snapshot = {nid: np.array(rho.tensors[nid]) for nid in rho.nodes}
    struct_before = dense.structure(rho)
    rk = rho.tensors[psi.root_id + ks]
    rb = rho.tensors[psi.root_id + bs]
    rt = psi.tensors[psi.root_id]
    if rk.shape[0] != rdim or np.any(rk[1:] != 0) or np.any(rb[1:] != 0):
        probs.append("padded root bond carries non-zero entries beyond index 0")
    elif not (np.array_equal(rk[0], rt) and np.array_equal(rb[0], rt.conj())):
        probs.append("index 0 of the padded root bond is not the state's root tensor / its conjugate")
    cmpx = exact

    def check(route, fn, ref, scale):
        ctx.tally("route", route)
        ctx.count((route, tuple(case["par"]), case["seed"], exact, rdim, style),
                  nontrivial=bool((n >= 2 or rdim > 1) and abs(complex(ref)) > 0))
        try:
            got = complex(fn())
        except Exception as e:      # noqa: BLE001
            probs.append(f"{route}: raised {type(e).__name__}: {str(e)[:140]}")
            return
        ref = complex(ref)
        ok = (got == ref) if cmpx else (abs(got - ref) <= tol * max(scale, 1e-300))
        if not ok:
            probs.append(f"{route}: library {got!r} != dense {ref!r}")

    n2 = np.vdot(v, v)
    check("trace()", lambda: rho.trace(), n2, nv * nv)
    check("norm() (= trace)", lambda: rho.norm(), n2, nv * nv)
    O = dense.ttno_matrix(ttno, order)
    onorm = float(np.linalg.norm(O))
    refO = np.vdot(v, O @ v)
    check(f"ttno_expectation_value ({case['ttno']})", lambda: rho.ttno_expectation_value(ttno), refO, nv * nv * onorm)
    check("operator_expectation_value(TTNO)", lambda: rho.operator_expectation_value(ttno), refO, nv * nv * onorm)
    dimof = dict(zip(order, dims))
    ks = sorted({0, 1, min(2, n), min(3, n), n, rng.randint(0, n)})
    for k in ks:
        sites = rng.sample(order, k)
        ops = {s: gen.rand_tensor(nprng, (dimof[s], dimof[s]), True, exact) for s in sites}
        M = dense.embed_ops(ops, order, dims)
        ref = np.vdot(v, M @ v)
        lab = str(k) if k <= 2 else ("N" if k == n else "k")
        check(f"tensor product on {lab} sites", lambda: rho.operator_expectation_value(TensorProduct(dict(ops))),
              ref, nv * nv * float(np.linalg.norm(M)))
        if k == 1:
            s = sites[0]
            check("single_site_operator_expectation_value", lambda: rho.single_site_operator_expectation_value(s, ops[s]),
                  ref, nv * nv * float(np.linalg.norm(M)))
    # the source state must be untouched and the TTNDO unchanged by the queries
    if not np.array_equal(v, dense.ttns_vector(psi, order)):
        probs.append("source state changed")
    if dense.structure(rho) != struct_before or set(rho.tensors.keys()) != set(snapshot) or any(
            not np.array_equal(np.asarray(rho.tensors[nid]), snapshot[nid]) for nid in snapshot):
        probs.append("the density-operator network was changed by the queries")
    report(probs)


# ------------------------------------------------------------------ driver

def gen_cases(ctx):
    rng = ctx.rng
    arng = ctx.subrng("audit")
    cases = []
    for _ in range(ctx.n(1500, 15000)):
        kind = rng.choice([None, None, None, "spider", "chain", "star"])
        n = rng.choice([3, 4, 5, 6]) if kind else rng.choice([1, 1, 2, 3, 4, 5, 6])
        case = {"par": gen.random_parent_array(rng, n, kind), "seed": rng.randrange(10 ** 9),
                "exact": rng.random() < 0.5, "rdim": rng.choice([1, 2, 2, 3, 4]),
                "names": rng.choice(["plain", "plain", "bra", "bra", "ket"]),
                "ttno": rng.choice(["random", "terms"])}
        _audit_axes(case, arng)
        cases.append(case)
    # real small-integer states and TTNOs with small dimensions: the Lean model evaluates its own binding record
    irng = ctx.subrng("ints")
    for _ in range(ctx.n(150, 1500)):
        kind = irng.choice([None, None, "chain", "star"])
        n = irng.choice([3, 4]) if kind else irng.choice([1, 2, 2, 3, 3, 4])
        cases.append({"par": gen.random_parent_array(irng, n, kind), "seed": irng.randrange(10 ** 9), "exact": True,
                      "rdim": irng.choice([1, 2, 2, 3]), "names": "plain", "ttno": "random", "ints": True})
    for _ in range(ctx.n(160, 1600)):
        kind = arng.choice([None, None, "spider", "chain", "star"])
        n = arng.choice([3, 4, 5, 6]) if kind else arng.choice([1, 2, 3, 4, 5])
        case = {"par": gen.random_parent_array(arng, n, kind), "seed": arng.randrange(10 ** 9),
                "exact": arng.random() < 0.5, "rdim": arng.choice([1, 2, 3, 5]),
                "names": arng.choice(["plain", "prefix", "bra", "ket"]), "ttno": arng.choice(["random", "terms"]),
                "build": "manual", "suffix": arng.randrange(len(SUFFIXES)), "bra_leg": arng.randrange(3),
                "call": arng.choice(["explicit", "explicit", "defaults", "positional"]),
                "root_id": arng.choice([ROOT_ID] + ROOT_IDS)}
        if "P-C16-root-id-ket-suffix" in PENDING_FINDINGS and case["root_id"].endswith(SUFFIXES[case["suffix"]][1]):
            case["root_id"] = "R"       # pending finding: a root identifier ending in the ket suffix
        if arng.random() < 0.3:
            _audit_axes(case, arng, call=False)
        cases.append(case)
    return cases


def _audit_axes(case, arng, call=True):
    """Input-space audit axes, drawn from a separate generator stream (the base cases stay what they were)."""
    exact = case["exact"]
    if call and arng.random() < 0.35:
        case["call"] = arng.choice(["defaults", "positional", "root_only", "dim_only", "explicit"])
        pool = ROOT_IDS + ([] if "P-C16-root-id-ket-suffix" in PENDING_FINDINGS else ROOT_IDS_PENDING)
        case["root_id"] = arng.choice(pool)
        if arng.random() < 0.3:
            case["rdim"] = arng.choice([5, 6, 8])
        if arng.random() < 0.3:
            case["rdim_np"] = 1
    r = arng.random()
    if r < 0.25:
        case["dtype"] = arng.choice(["real", "int", "single", "view"] if exact else ["real", "single", "view"])
    if arng.random() < 0.15 and len(case["par"]) <= 6:
        case["names"] = "prefix"
    if not exact:
        if arng.random() < 0.25:
            case["gauge"] = 1
        if arng.random() < 0.25:
            case["mag"] = arng.choice([8, 6, -6, -8])


def _model_lines(case):
    """The two protocol lines of a case (None when the construction itself fails: reported by _case)."""
    if case.get("build", "from_ttns") == "manual":
        return None
    try:
        _, _, psi, ttno, names = _make(case)
        rho, rid, _, _, _ = _build_rho(case, psi)
        return [_struct_line(psi, rid), _order_line(rho)] + _graph_lines(psi, ttno, names) + _tprod_plan(case, psi, names)[2]
    except Exception:           # noqa: BLE001
        return None


def run(ctx):
    import glob
    import json
    import os
    from harness import common
    cases = []
    for path in sorted(glob.glob(os.path.join(common.CORPUS_DIR, "C16", "*.json"))):
        cases.append(common.unjson(json.load(open(path))).get("case", {}))
    cases += gen_cases(ctx)
    lines, owner = [], {}
    for i, c in enumerate(cases):
        ls = _model_lines(c)
        if ls:
            owner[i] = (len(lines), len(ls))
            lines += ls
    outs = ctx.lean.batch(lines)
    for i, c in enumerate(cases):
        if ctx.time_left() < 0:
            break
        _case(ctx, c, outs[owner[i][0]:owner[i][0] + owner[i][1]] if i in owner else None)


def run_case(ctx, case):
    _case(ctx, case)


def shrink(case):
    par = case["par"]
    n = len(par)
    for leaf in range(n - 1, 0, -1):
        if leaf not in par:
            yield dict(case, par=[p if p < leaf else p - 1 for i, p in enumerate(par) if i != leaf])
    if case["rdim"] > 1:
        yield dict(case, rdim=case["rdim"] - 1)
    if case["names"] == "bra":
        yield dict(case, names="plain")
    if case["ttno"] == "random":
        yield dict(case, ttno="terms")
    for k in ("dtype", "gauge", "mag", "rdim_np", "call", "root_id", "bra_leg"):
        if case.get(k):
            yield {kk: vv for kk, vv in case.items() if kk != k}
    if case.get("suffix"):
        yield dict(case, suffix=0)
    if case["names"] == "prefix":
        yield dict(case, names="plain")
    if not case["exact"] and case.get("dtype") in (None, "c128", "view"):
        yield dict(case, exact=True)
