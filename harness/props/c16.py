"""C16 — a density-operator network built from a pure state behaves as |psi><psi|.

Stage B (correspondence with Ptn.C16): the structure produced by `from_ttns` (every node's parent and
ordered child list, in dict order) is compared exactly with the Lean model of from_ttns /
_rec_add_children / add_symmetric_children_to_parent; the model's `order` answer (the regex filter of
ttndo_contraction_order on the real identifier strings) is compared with the library's.
Stage C (oracle): trace() = <psi|psi> (unnormalised states), TTNO expectation = <psi|O|psi>, tensor
products on 0..N sites with non-Hermitian factors = <psi|O|psi>, for root bond dimensions 1..4; the
dense contraction of the TTNDO itself = psi (x) conj(psi); only index 0 of the padded root bond is
non-zero.  Exact regime ({0,+-1,+-i}, ==) and random complex (1e-10).  Identifiers are fuzzed with
names that already end in / contain the suffix strings `_ket` and `_bra`.
"""
from __future__ import annotations

import random

import numpy as np

from harness import gen, dense, algos

RULE = ("random trees 1..6 nodes (uniform/chain/star/spider/..., single node), complex unnormalised states, root bond "
        "dimension 1..4, TTNO from gen.random_ttno_like (own child order, non-Hermitian) or algos.ttno_from_terms, "
        "tensor products on 0,1,2,..,N sites; exact and float regimes; identifier styles plain / ending in _bra / "
        "containing _ket (regression cases of the fixed F-C16b). non-trivial = reference != 0 on a tree with >= 2 nodes or root bond > 1")
PARTIAL = [
    "value level (the contraction equals <psi|O|psi>) is decided by the dense oracle; Lean proves the structure of "
    "from_ttns (ttndo_structure), the identifier maps (suffix_tagging, reverseId_append), the padding lemma "
    "(padded_root_index, padded_root_no_contribution), the contraction-order filter (contraction_order_kets) and the "
    "contraction GRAPHS of trace_ttndo and ttndo_ttno_expectation_value incl. _contract_ttno_root, "
    "_single_site_contraction and _contract_final_block (trace_graph, ttndo_ttno_graph: no exception, no free leg, "
    "the bound pairs are the specification graph, for every tree and independent child orders of the TTNO), on top "
    "of the C04 tree model; the graphs are tied to the code by the einsum comparison of the `trace` / `ttno` cases",
    "that a sum over the bound index pairs equals the dense value (NumPy tensordot semantics, finite-sum algebra) is "
    "trusted; the model of from_ttns has no legs: that _rec_add_children attaches the right legs is decided by the "
    "dense contraction of the TTNDO; tensor-product expectation values (deepcopy + absorb) are oracle only",
]
ASSUMPTIONS = ["NumPy tensordot/pad/reshape semantics", "dense contraction by tensordot over labelled legs",
               "the caller passes a root_id that is not an identifier of the TTNDO's ket/bra copies"]

MAX_DENSE = 72
ROOT_ID = "ttndo_root"


# ------------------------------------------------------------------ construction

def _names(style, n, rng):
    if style == "plain":
        return {i: f"n{i}" for i in range(n)}
    if style == "bra":         # identifiers ending in / containing `_bra`, also pairs x / x_bra
        names = {}
        for i in range(n):
            r = rng.random()
            if r < 0.4 and i > 0 and not names[i - 1].endswith("_bra_bra"):
                names[i] = names[i - 1] + "_bra"
            elif r < 0.6:
                names[i] = f"q{i}_bra"
            elif r < 0.7:
                names[i] = f"_bra{i}"
            else:
                names[i] = f"q{i}"
        return names
    if style == "ket":         # some identifier contains `_ket` (F-C16b, fixed in 0b7a715: must work)
        names = {i: f"q{i}" for i in range(n)}
        k = rng.randrange(n)
        names[k] = rng.choice([f"q{k}_ket", f"my_ket_{k}", f"_ket{k}", f"q{k}_ket_bra", "_ket", "_ket_ket", f"q{k}_bra_ket"])
        if rng.random() < 0.4 and n > 1:
            j = rng.choice([x for x in range(n) if x != k])
            names[j] = names[k] + rng.choice(["_ket", "_bra"])
        return names
    raise ValueError(style)


def _phys(rng, n):
    d = [rng.choice((1, 2, 2, 3)) for _ in range(n)]
    while int(np.prod(d)) > MAX_DENSE:
        i = rng.randrange(n)
        if d[i] > 1:
            d[i] -= 1
    return d


def _make(case):
    from pytreenet.ttns.ttns import TreeTensorNetworkState
    rng = random.Random(case["seed"])
    nprng = np.random.default_rng(case["seed"])
    par = case["par"]
    n = len(par)
    exact = case["exact"]
    d = _phys(rng, n)
    names = _names(case["names"], n, rng)
    open_dims = {i: [d[i]] for i in range(n)}
    psi, _, _, _ = gen.build_network(TreeTensorNetworkState, par, gen.random_bonds(rng, par), open_dims, rng, nprng,
                                     names=names, small_int=exact)
    phys = {i: d[i] for i in range(n)}
    if case["ttno"] == "terms":
        terms = []
        for _ in range(rng.randint(1, 3)):
            sites = rng.sample(range(n), rng.randint(1, min(3, n)))
            terms.append({s: gen.rand_tensor(nprng, (d[s], d[s]), True, exact) for s in sites})
        ttno, _ = algos.ttno_from_terms(par, phys, names, terms, rng, nprng)
    else:
        ttno, _ = gen.random_ttno_like(rng, nprng, par, phys, names=names, small_int=exact)
    return rng, nprng, psi, ttno, names


# ------------------------------------------------------------------ one case

def _struct_line(psi, root_id):
    toks = [_hex(root_id), _hex(psi.root_id)]
    for nid, nd in psi.nodes.items():
        toks.append(f"{_hex(nid)}:{','.join(_hex(c) for c in nd.children)}")
    return "C16 struct " + " ".join(toks)


def _impl_struct(rho):
    toks = []
    for nid, nd in rho.nodes.items():
        p = "-" if nd.parent is None else _hex(nd.parent)
        toks.append(f"{_hex(nid)}^{p}:{','.join(_hex(c) for c in nd.children)}")
    return " ".join(toks)


def _graph_lines(psi, ttno, names):
    inv = {v: k for k, v in names.items()}
    n = len(names)

    def kids(ttn, i):
        return ",".join(str(inv[c]) for c in ttn.nodes[names[i]].children) or "-"
    root = inv[psi.root_id]
    return [f"C16 trace {root} " + " ".join(f"{i}:{kids(psi, i)};-" for i in range(n)),
            f"C16 ttno {root} " + " ".join(f"{i}:{kids(psi, i)};{kids(ttno, i)}" for i in range(n))]


def _graph_check(ctx, case, tag, rho, psi, ttno, names, mo_trace, mo_ttno):
    from harness.props.c04 import _einsum_from_model
    inv = {v: k for k, v in names.items()}
    num = {ROOT_ID: 0}
    for nm, i in inv.items():
        num[nm + "_ket"] = 2 * i + 1
        num[nm + "_bra"] = 2 * i + 2
    operands = []
    for nid, nd in rho.nodes.items():
        if nid not in num:
            return                      # unknown identifier: reported by the structure comparison
        k = num[nid]
        t = rho.tensors[nid]
        nbs = ([] if nd.parent is None else [nd.parent]) + list(nd.children)
        if k == 0:
            labs = ["BK0" if num[c] % 2 == 1 else "BB0" for c in nbs]
            operands.append((t.reshape(t.shape[:-1]), labs))        # the trivial open leg is indexed away
        elif k % 2 == 1:
            operands.append((t, [f"gK{k}_{num[x]}" for x in nbs] + [f"gKP{k}"]))
        else:       # the legs of the bra copy are named after the ket identifiers
            operands.append((t, [f"gB{k - 1}_{max(num[x] - 1, 0)}" for x in nbs] + [f"gBP{k - 1}"]))
    op_operands = []
    for nid, nd in ttno.nodes.items():
        i = inv[nid]
        nbs = ([] if nd.parent is None else [nd.parent]) + list(nd.children)
        k = 2 * i + 1
        op_operands.append((ttno.tensors[nid], [f"gO{k}_{2 * inv[x] + 1}" for x in nbs] + [f"gOO{k}", f"gOI{k}"]))
    for what, mo, ops, fn in (("trace", mo_trace, operands, lambda: rho.trace()),
                              ("ttno", mo_ttno, operands + op_operands, lambda: rho.ttno_expectation_value(ttno))):
        ctx.tally("graph", what)
        if not mo.startswith("legs |") and mo != "legs | binds":
            ctx.corr_fail(case, f"{tag} {what}: the model leaves free legs / fails: [{mo[:200]}]")
            continue
        ref, prob = _einsum_from_model(mo, ops)
        if prob:
            ctx.corr_fail(case, f"{tag} {what}: {prob}")
            continue
        try:
            got = complex(fn())
        except Exception:               # noqa: BLE001  (reported by the oracle)
            continue
        scale = 1.0
        for arr, _ in ops:
            scale *= max(float(np.linalg.norm(arr)), 1e-300)
        if abs(got - complex(ref)) > 1e-9 * max(abs(complex(ref)), 1e-6 * scale):
            ctx.corr_fail(case, f"{tag} {what}: library {got!r} differs from the contraction over the model's global "
                                f"binding list {complex(ref)!r}")


def _hex(s):
    return s.encode().hex() or "-"


def _order_line(rho):
    """Model of ttndo_contraction_order on the real identifier strings (hex-encoded), linearised order."""
    return "C16 order " + _hex("_ket") + " " + " ".join(_hex(x) for x in rho.linearise())


def _case(ctx, case, model_out=None):
    from pytreenet.ttns.ttndo import from_ttns
    from pytreenet.operators.tensorproduct import TensorProduct
    from pytreenet.contractions.ttndo_contractions import ttndo_contraction_order
    rng, nprng, psi, ttno, names = _make(case)
    exact = case["exact"]
    n = len(case["par"])
    rdim = case["rdim"]
    order = sorted(psi.nodes)
    dims = dense.phys_dims(psi, order)
    v = dense.ttns_vector(psi, order)
    nv = float(np.linalg.norm(v))
    style = case["names"]
    ctx.tally("nodes", n)
    ctx.tally("root_bond_dim", rdim)
    ctx.tally("regime", "exact" if exact else "float")
    ctx.tally("names", style)
    ctx.tally("ttno", case["ttno"])
    ctx.sample(case, 3)
    tag = f"[{'exact' if exact else 'float'}, n={n}, root bond {rdim}, names {style}]"
    probs = []

    def report(msgs):
        if msgs:
            ctx.oracle_fail(case, f"{tag} " + "; ".join(msgs[:4]), finding=None)

    # ---- construction
    try:
        rho = from_ttns(psi, root_id=ROOT_ID, root_bond_dim=rdim)
    except Exception as e:      # noqa: BLE001
        report([f"from_ttns raised {type(e).__name__}: {str(e)[:160]}"])
        return
    # ---- stage B: structure and contraction-order filter against the model
    impl_struct = _impl_struct(rho)
    impl_order = " ".join(_hex(x) for x in ttndo_contraction_order(rho))
    lines = [_struct_line(psi, ROOT_ID), _order_line(rho)] + _graph_lines(psi, ttno, names)
    mo = model_out if model_out is not None else ctx.lean.batch(lines)
    ctx.corr_cases += 1
    # the insertion order of the node dictionary is not part of the stated structure (identifiers, parents, ordered
    # children): the node records are compared as sorted lists
    if sorted(mo[0].split(" ")) != sorted(impl_struct.split(" ")):
        ctx.corr_fail(case, f"{tag} structure: impl=[{impl_struct}] model=[{mo[0]}]")
    if mo[1] != (impl_order or "-"):
        ctx.corr_fail(case, f"{tag} contraction order filter: impl=[{impl_order}] model=[{mo[1]}]")
    # ---- stage B (graph): the model's global binding list of trace_ttndo / ttndo_ttno_expectation_value,
    #      evaluated by einsum on the real tensors, against the library's values
    if style != "ket" or True:
        _graph_check(ctx, case, tag, rho, psi, ttno, names, mo[2], mo[3])
    # ---- the TTNDO itself: well-formed, = psi (x) conj(psi), padding
    wf = dense.well_formed(rho)
    if wf:
        report([f"TTNDO not well-formed: {wf[:2]}"])
        return
    kets = [x + "_ket" for x in order]
    bras = [x + "_bra" for x in order]
    try:
        arr, _ = dense.ttn_dense(rho, [ROOT_ID] + kets + bras)
        full = np.asarray(arr).reshape(v.size, v.size)
        ref = np.outer(v, v.conj())
        if (not np.array_equal(full, ref)) if exact else (np.linalg.norm(full - ref) > 1e-10 * max(nv * nv, 1e-300)):
            probs.append("dense contraction of the TTNDO != psi (x) conj(psi)")
    except Exception as e:      # noqa: BLE001
        probs.append(f"dense contraction of the TTNDO impossible: {type(e).__name__}: {str(e)[:120]}")
    rk = rho.tensors[psi.root_id + "_ket"]
    rb = rho.tensors[psi.root_id + "_bra"]
    rt = psi.tensors[psi.root_id]
    if rk.shape[0] != rdim or np.any(rk[1:] != 0) or np.any(rb[1:] != 0):
        probs.append("padded root bond carries non-zero entries beyond index 0")
    elif not (np.array_equal(rk[0], rt) and np.array_equal(rb[0], rt.conj())):
        probs.append("index 0 of the padded root bond is not the state's root tensor / its conjugate")
    cmpx = exact

    def check(route, fn, ref, scale):
        ctx.tally("route", route)
        ctx.count((route, tuple(case["par"]), case["seed"], exact, rdim, style),
                  nontrivial=bool((n >= 2 or rdim > 1) and abs(complex(ref)) > 0))
        try:
            got = complex(fn())
        except Exception as e:      # noqa: BLE001
            probs.append(f"{route}: raised {type(e).__name__}: {str(e)[:140]}")
            return
        ref = complex(ref)
        ok = (got == ref) if cmpx else (abs(got - ref) <= 1e-10 * max(scale, 1e-300))
        if not ok:
            probs.append(f"{route}: library {got!r} != dense {ref!r}")

    n2 = np.vdot(v, v)
    check("trace()", lambda: rho.trace(), n2, nv * nv)
    check("norm() (= trace)", lambda: rho.norm(), n2, nv * nv)
    O = dense.ttno_matrix(ttno, order)
    onorm = float(np.linalg.norm(O))
    refO = np.vdot(v, O @ v)
    check(f"ttno_expectation_value ({case['ttno']})", lambda: rho.ttno_expectation_value(ttno), refO, nv * nv * onorm)
    check("operator_expectation_value(TTNO)", lambda: rho.operator_expectation_value(ttno), refO, nv * nv * onorm)
    dimof = dict(zip(order, dims))
    ks = sorted({0, 1, min(2, n), min(3, n), n, rng.randint(0, n)})
    for k in ks:
        sites = rng.sample(order, k)
        ops = {s: gen.rand_tensor(nprng, (dimof[s], dimof[s]), True, exact) for s in sites}
        M = dense.embed_ops(ops, order, dims)
        ref = np.vdot(v, M @ v)
        lab = str(k) if k <= 2 else ("N" if k == n else "k")
        check(f"tensor product on {lab} sites", lambda: rho.operator_expectation_value(TensorProduct(dict(ops))),
              ref, nv * nv * float(np.linalg.norm(M)))
        if k == 1:
            s = sites[0]
            check("single_site_operator_expectation_value", lambda: rho.single_site_operator_expectation_value(s, ops[s]),
                  ref, nv * nv * float(np.linalg.norm(M)))
    # the source state must be untouched and the TTNDO unchanged by the queries
    if not np.array_equal(v, dense.ttns_vector(psi, order)):
        probs.append("source state changed")
    report(probs)


# ------------------------------------------------------------------ driver

def gen_cases(ctx):
    rng = ctx.rng
    cases = []
    for _ in range(ctx.n(1500, 15000)):
        kind = rng.choice([None, None, None, "spider", "chain", "star"])
        n = rng.choice([3, 4, 5, 6]) if kind else rng.choice([1, 1, 2, 3, 4, 5, 6])
        cases.append({"par": gen.random_parent_array(rng, n, kind), "seed": rng.randrange(10 ** 9),
                      "exact": rng.random() < 0.5, "rdim": rng.choice([1, 2, 2, 3, 4]),
                      "names": rng.choice(["plain", "plain", "bra", "bra", "ket"]),
                      "ttno": rng.choice(["random", "terms"])})
    return cases


def _model_lines(case):
    """The two protocol lines of a case (None when the construction itself fails: reported by _case)."""
    from pytreenet.ttns.ttndo import from_ttns
    try:
        _, _, psi, ttno, names = _make(case)
        rho = from_ttns(psi, root_id=ROOT_ID, root_bond_dim=case["rdim"])
        return [_struct_line(psi, ROOT_ID), _order_line(rho)] + _graph_lines(psi, ttno, names)
    except Exception:           # noqa: BLE001
        return None


def run(ctx):
    import glob
    import json
    import os
    from harness import common
    cases = []
    for path in sorted(glob.glob(os.path.join(common.CORPUS_DIR, "C16", "*.json"))):
        cases.append(common.unjson(json.load(open(path))).get("case", {}))
    cases += gen_cases(ctx)
    lines, owner = [], {}
    for i, c in enumerate(cases):
        ls = _model_lines(c)
        if ls:
            owner[i] = len(lines)
            lines += ls
    outs = ctx.lean.batch(lines)
    for i, c in enumerate(cases):
        if ctx.time_left() < 0:
            break
        _case(ctx, c, outs[owner[i]:owner[i] + 4] if i in owner else None)


def run_case(ctx, case):
    _case(ctx, case)


def shrink(case):
    par = case["par"]
    n = len(par)
    for leaf in range(n - 1, 0, -1):
        if leaf not in par:
            yield dict(case, par=[p if p < leaf else p - 1 for i, p in enumerate(par) if i != leaf])
    if case["rdim"] > 1:
        yield dict(case, rdim=case["rdim"] - 1)
    if case["names"] == "bra":
        yield dict(case, names="plain")
    if case["ttno"] == "random":
        yield dict(case, ttno="terms")
    if not case["exact"]:
        yield dict(case, exact=True)
