"""Seeded generators: tree shapes, networks with arbitrary insertion-time leg order, tensors."""
from __future__ import annotations

import itertools
import random
from typing import Dict, List, Optional, Sequence, Tuple

import numpy as np


# ------------------------------------------------------------------ tree shapes
# A shape is a list `parent` with parent[0] == -1 and parent[i] < i (insertion order = index order).
# Child order of a node = increasing index, unless permuted by the builder.

def random_parent_array(rng: random.Random, n: int, kind: Optional[str] = None) -> List[int]:
    kind = kind or rng.choice(["uniform", "chain", "star", "binaryish", "caterpillar", "uniform", "spider"])
    par = [-1]
    legs = rng.randint(2, 3)
    for i in range(1, n):
        if kind == "spider":          # `legs` chains hanging from the root (deep leaves in several branches)
            par.append(0 if i <= legs else i - legs)
        elif kind == "twig":          # a spine with side branches of depth 2 hanging off inner spine nodes
            # nodes are added in groups of three: spine node s, then twig t1 (child of s), t2 (child of t1)
            g, r = divmod(i, 3)
            if r == 0:
                par.append(i - 3)          # next spine node under the previous spine node
            elif r == 1:
                par.append(i - 1)          # first twig node under the spine node
            else:
                par.append(i - 1)          # second twig node under the first
        elif kind == "bush":          # root with >= 3 children, some of them with children of their own
            par.append(0 if i <= 3 else rng.randrange(1, i))
        elif kind == "chain":
            par.append(i - 1)
        elif kind == "star":
            par.append(0)
        elif kind == "binaryish":
            par.append((i - 1) // 2)
        elif kind == "caterpillar":
            spine = [j for j in range(i) if j == 0 or (par[j] != -1 and j % 2 == 1)]
            par.append(rng.choice(spine) if rng.random() < 0.7 else rng.randrange(i))
        else:
            par.append(rng.randrange(i))
    return par


def all_ordered_trees(n: int) -> List[List[int]]:
    """All ordered rooted trees with n nodes as parent arrays in DFS preorder numbering."""
    # ordered trees <-> sequences; generate recursively as nested child lists
    def forests(k):  # all ordered forests with k nodes
        if k == 0:
            yield []
            return
        for first in range(1, k + 1):
            for t in forests(first - 1):      # children of the first tree's root
                for rest in forests(k - first):
                    yield [t] + rest
    res = []
    for f in forests(n - 1):
        par = [-1]

        def walk(children, p):
            for ch in children:
                idx = len(par)
                par.append(p)
                walk(ch, idx)
        walk(f, 0)
        res.append(par)
    return res


def children_of(par: Sequence[int]) -> Dict[int, List[int]]:
    ch: Dict[int, List[int]] = {i: [] for i in range(len(par))}
    for i, p in enumerate(par):
        if p >= 0:
            ch[p].append(i)
    return ch


def reroot(par: Sequence[int], new_root: int) -> List[int]:
    """Relabel so that `new_root` is the root; returns parent array over the same labels (not index-ordered)."""
    n = len(par)
    adj = {i: [] for i in range(n)}
    for i, p in enumerate(par):
        if p >= 0:
            adj[i].append(p)
            adj[p].append(i)
    new_par = [-2] * n
    new_par[new_root] = -1
    stack = [new_root]
    while stack:
        x = stack.pop()
        for y in adj[x]:
            if new_par[y] == -2:
                new_par[y] = x
                stack.append(y)
    return new_par


def insertion_order(rng: random.Random, par: Sequence[int]) -> List[int]:
    """A random order in which every node comes after its parent."""
    n = len(par)
    root = list(par).index(-1)
    ch = {i: [] for i in range(n)}
    for i, p in enumerate(par):
        if p >= 0:
            ch[p].append(i)
    avail = [root]
    order = []
    while avail:
        x = avail.pop(rng.randrange(len(avail)))
        order.append(x)
        kids = ch[x][:]
        rng.shuffle(kids)
        avail.extend(kids)
    return order


# ------------------------------------------------------------------ tensors

def rand_tensor(nprng, shape, complex_=True, small_int=False):
    shape = tuple(int(s) for s in shape)
    if small_int:
        re = nprng.integers(-1, 2, size=shape).astype(float)
        if complex_:
            im = nprng.integers(-1, 2, size=shape).astype(float)
            # entries in {0, +-1, +-i}: zero out one of the parts
            mask = nprng.integers(0, 2, size=shape).astype(bool)
            return np.where(mask, re, 0).astype(complex) + 1j * np.where(~mask, im, 0)
        return re
    if complex_:
        return nprng.standard_normal(shape) + 1j * nprng.standard_normal(shape)
    return nprng.standard_normal(shape)


def rand_hermitian(nprng, d):
    a = nprng.standard_normal((d, d)) + 1j * nprng.standard_normal((d, d))
    return (a + a.conj().T) / 2


# ------------------------------------------------------------------ networks

def node_name(i: int, prefix: str = "n") -> str:
    return f"{prefix}{i}"


def build_network(cls, par: Sequence[int], bond: Dict[Tuple[int, int], int], open_dims: Dict[int, List[int]],
                  rng: random.Random, nprng, *, names: Optional[Dict[int, str]] = None,
                  order: Optional[List[int]] = None, shuffle_legs: bool = True,
                  complex_: bool = True, small_int: bool = False,
                  tensors: Optional[Dict[int, np.ndarray]] = None):
    """Build a TreeTensorNetwork(-subclass) through the public add_root/add_child_to_parent API.

    bond[(p, c)] is the dimension of the edge; open_dims[i] the open-leg dimensions in their final order.
    With shuffle_legs the raw tensor handed to the library has its virtual legs at random positions, so
    that the lazily stored permutation is non-trivial (open legs keep their relative order: the library
    never reorders the legs that remain open).
    Returns (ttn, canon, attach_order, names): canon[i] has legs (parent, children in attach order, open),
    attach_order[i] is the child order the library must record for node i.
    """
    import pytreenet as ptn
    n = len(par)
    names = names or {i: node_name(i) for i in range(n)}
    order = order or insertion_order(rng, par)
    attach_order: Dict[int, List[int]] = {i: [] for i in range(n)}
    for x in order:
        if par[x] >= 0:
            attach_order[par[x]].append(x)
    ttn = cls()
    canon: Dict[int, np.ndarray] = {}
    cur: Dict[int, List[object]] = {}      # current logical leg order of every inserted node
    nvirt: Dict[int, int] = {}
    for x in order:
        legs = _legs_of(x, par, attach_order, open_dims)
        dims = []
        for l in legs:
            if l[0] == "p":
                dims.append(bond[(par[x], x)])
            elif l[0] == "c":
                dims.append(bond[(x, l[1])])
            else:
                dims.append(open_dims[x][l[1]])
        if tensors is not None and x in tensors:
            t = np.asarray(tensors[x])
            assert t.shape == tuple(dims), (t.shape, dims)
        else:
            t = rand_tensor(nprng, dims, complex_, small_int)
        canon[x] = t
        virt = [l for l in legs if l[0] != "o"]
        opens = [l for l in legs if l[0] == "o"]
        if shuffle_legs:
            rng.shuffle(virt)
            slots = ["v"] * len(virt) + ["o"] * len(opens)
            rng.shuffle(slots)
            vi, oi = iter(virt), iter(opens)
            raw_order = [next(vi) if s == "v" else next(oi) for s in slots]
        else:
            raw_order = list(legs)
        raw_t = np.transpose(t, [legs.index(l) for l in raw_order]) if legs else t
        node = ptn.Node(identifier=names[x])
        cur[x] = list(raw_order)
        nvirt[x] = 0
        if par[x] < 0:
            ttn.add_root(node, raw_t)
        else:
            p = par[x]
            child_leg = cur[x].index(("p",))
            parent_leg = cur[p].index(("c", x))
            ttn.add_child_to_parent(node, raw_t, child_leg, names[p], parent_leg)
            cur[p].remove(("c", x))
            cur[p].insert(nvirt[p], ("c", x))
            nvirt[p] += 1
            cur[x].remove(("p",))
            cur[x].insert(0, ("p",))
            nvirt[x] = 1
    return ttn, canon, attach_order, names


def _legs_of(x, par, attach_order, open_dims):
    legs = []
    if par[x] >= 0:
        legs.append(("p",))
    for c in attach_order[x]:
        legs.append(("c", c))
    for k in range(len(open_dims[x])):
        legs.append(("o", k))
    return legs


def random_bonds(rng: random.Random, par: Sequence[int], choices=(1, 2, 2, 3)) -> Dict[Tuple[int, int], int]:
    return {(p, i): rng.choice(choices) for i, p in enumerate(par) if p >= 0}


def random_ttns(rng, nprng, par, *, phys=(2, 2, 3, 1), bonds=(1, 2, 2, 3), **kw):
    import pytreenet as ptn
    from pytreenet.ttns.ttns import TreeTensorNetworkState
    bond = random_bonds(rng, par, bonds)
    open_dims = {i: [rng.choice(phys)] for i in range(len(par))}
    ttn, canon, attach, names = build_network(TreeTensorNetworkState, par, bond, open_dims, rng, nprng, **kw)
    return ttn, {"par": list(par), "bond": bond, "open": open_dims, "attach": attach, "names": names, "canon": canon}


def random_ttno_like(rng, nprng, par, phys_dims: Dict[int, int], *, bonds=(1, 2, 3), hermitian=False, **kw):
    """A TTNO on the given shape with physical dims; open legs (out, in)."""
    from pytreenet.ttno.ttno_class import TreeTensorNetworkOperator
    bond = random_bonds(rng, par, bonds)
    open_dims = {i: [phys_dims[i], phys_dims[i]] for i in range(len(par))}
    ttn, canon, attach, names = build_network(TreeTensorNetworkOperator, par, bond, open_dims, rng, nprng, **kw)
    return ttn, {"par": list(par), "bond": bond, "open": open_dims, "attach": attach, "names": names, "canon": canon}


# Shapes that exercise multi-hop centre moves, deep side branches, high-degree nodes and roots with
# a single child; included deterministically in the quick tier of the TDVP/BUG checks.
HARD_SHAPES = [
    [-1, 0, 1, 0, 3, 4, 3],          # twig: spine 0-3-6 with side branches 1-2 and 4-5 of depth 2
    [-1, 0, 0, 1, 2, 3, 4],          # spider with two legs of length 3
    [-1, 0, 0, 0, 1, 2, 3],          # spider with three legs of length 2
    [-1, 0, 1, 2, 2, 4, 1],          # chain rooted at an end with branches below
    [-1, 0, 0, 0, 0, 1],             # bush: root with four children
    [-1, 0, 1, 1, 1, 2, 5],          # inner node with three children, one of them deep
    [-1, 0, 1, 2],                   # chain rooted at an end (root with a single child)
    [-1, 0, 1, 1, 2, 3],             # single-child root above a node with two depth-2 branches
]


def fit_bonds(par, phys: Dict[int, int], bond: Dict[Tuple[int, int], int]) -> Dict[Tuple[int, int], int]:
    """Shrink bond dimensions until no tensor has a virtual leg larger than the product of its other legs
    (so that generic tensors have full-rank bonds and no zero padding is needed)."""
    n = len(par)
    bond = dict(bond)
    changed = True
    while changed:
        changed = False
        for x in range(n):
            edges = [(par[x], x)] if par[x] >= 0 else []
            edges += [(x, c) for c in range(n) if par[c] == x]
            for e in edges:
                others = phys[x]
                for f in edges:
                    if f != e:
                        others *= bond[f]
                if bond[e] > others:
                    bond[e] = others
                    changed = True
    return bond


def random_fullrank_ttns(rng, nprng, par, *, phys=(2, 3), bonds=(1, 2, 2, 3), **kw):
    from pytreenet.ttns.ttns import TreeTensorNetworkState
    n = len(par)
    ph = {i: rng.choice(phys) for i in range(n)}
    bond = fit_bonds(par, ph, random_bonds(rng, par, bonds))
    open_dims = {i: [ph[i]] for i in range(n)}
    ttn, canon, attach, names = build_network(TreeTensorNetworkState, par, bond, open_dims, rng, nprng, **kw)
    return ttn, {"par": list(par), "bond": bond, "open": open_dims, "attach": attach, "names": names, "canon": canon}
