"""Builders for small evolution problems shared by C05-C09, C18."""
from __future__ import annotations

import random
from typing import Dict, List, Optional, Sequence, Tuple

import numpy as np

from . import gen, dense


def hermitian_ttno(rng, nprng, par, phys: Dict[int, int], names: Dict[int, str], n_terms: int = 3,
                   scale: float = 1.0):
    """A Hermitian Hamiltonian as a TTNO built through the dense decomposition-free route:
    sum of a few tensor-product terms, each Hermitian, assembled as a TTNO with bond = n_terms by
    direct block construction (independent of the library's Hamiltonian->TTNO compiler).
    Returns (ttno, dense_matrix over sorted names)."""
    from pytreenet.ttno.ttno_class import TreeTensorNetworkOperator
    n = len(par)
    terms = []
    for _ in range(n_terms):
        k = rng.randint(1, min(2, n))
        sites = rng.sample(range(n), k)
        ops = {}
        for s in sites:
            ops[s] = gen.rand_hermitian(nprng, phys[s]) * scale
        terms.append(ops)
    return ttno_from_terms(par, phys, names, terms, rng, nprng)


def ttno_from_terms(par, phys, names, terms: List[Dict[int, np.ndarray]], rng=None, nprng=None,
                    shuffle_children: bool = True):
    """TTNO = sum_t (x)_i terms[t].get(i, 1): every bond has dimension len(terms) and tensors are
    'diagonal' in the bond index (a direct sum of product operators)."""
    from pytreenet.ttno.ttno_class import TreeTensorNetworkOperator
    n = len(par)
    T = len(terms)
    rng = rng or random.Random(0)
    order = gen.insertion_order(rng, par) if shuffle_children else None
    attach: Dict[int, List[int]] = {i: [] for i in range(n)}
    for x in (order or range(n)):
        if par[x] >= 0:
            attach[par[x]].append(x)
    tensors = {}
    for i in range(n):
        nv = (1 if par[i] >= 0 else 0) + len(attach[i])
        d = phys[i]
        t = np.zeros([T] * nv + [d, d], dtype=complex)
        for k in range(T):
            op = terms[k].get(i, np.eye(d))
            t[tuple([k] * nv)] = op
        if nv == 0:
            t = sum(terms[k].get(i, np.eye(d)) for k in range(T)).astype(complex)
        tensors[i] = t
    bond = {(p, i): T for i, p in enumerate(par) if p >= 0}
    open_dims = {i: [phys[i], phys[i]] for i in range(n)}
    ttno, canon, att, nm = gen.build_network(TreeTensorNetworkOperator, par, bond, open_dims, rng,
                                             nprng, names=names, order=order, tensors=tensors)
    srt = sorted(names.values())
    inv = {v: k for k, v in names.items()}
    dims = [phys[inv[s]] for s in srt]
    mat = np.zeros((int(np.prod(dims)),) * 2, dtype=complex)
    for tdict in terms:
        mat = mat + dense.embed_ops({names[i]: o for i, o in tdict.items()}, srt, dims)
    return ttno, mat


def tdvp_classes():
    from pytreenet.time_evolution.tdvp_algorithms import (FirstOrderOneSiteTDVP, SecondOrderOneSiteTDVP,
                                                          SecondOrderTwoSiteTDVP)
    return {"tdvp1": FirstOrderOneSiteTDVP, "tdvp2": SecondOrderOneSiteTDVP, "tdvp2site": SecondOrderTwoSiteTDVP}


def make_algo(kind: str, ttns, ttno, dt: float, T: float, ops, *, mode=None, svd=None, deep=False,
              trotter=None):
    """kind in tdvp1 | tdvp2 | tdvp2site | bug | fixedbug | tebd."""
    import sys
    from pytreenet.time_evolution.time_evolution import TimeEvoMode
    mode = mode or TimeEvoMode.EXPM
    if kind in ("tdvp1", "tdvp2"):
        from pytreenet.time_evolution.tdvp_algorithms.tdvp_algorithm import TDVPConfig
        cfg = TDVPConfig(time_evo_mode=mode)
        return tdvp_classes()[kind](ttns, ttno, dt, T, ops, config=cfg)
    if kind == "tdvp2site":
        from pytreenet.time_evolution.tdvp_algorithms.tdvp_algorithm import TDVPConfig
        from pytreenet.util.tensor_splitting import SVDParameters
        if svd is None:
            svd = dict(max_bond_dim=float("inf"), rel_tol=float("-inf"), total_tol=float("-inf"))
        cfg = TDVPConfig(time_evo_mode=mode)
        return tdvp_classes()[kind](ttns, ttno, dt, T, ops, SVDParameters(**svd), config=cfg)
    if kind == "bug":
        from pytreenet.time_evolution.bug import BUG, BUGConfig
        if svd is None:
            svd = dict(max_bond_dim=float("inf"), rel_tol=float("-inf"), total_tol=float("-inf"))
        cfg = BUGConfig(time_evo_mode=mode, deep=deep, **svd)
        return BUG(ttns, ttno, dt, T, ops, config=cfg)
    if kind == "fixedbug":
        from pytreenet.time_evolution.fixed_bug import FixedBUG, FixedBUGConfig
        cfg = FixedBUGConfig(time_evo_mode=mode, deep=deep)
        return FixedBUG(ttns, ttno, dt, T, ops, config=cfg)
    if kind == "tebd":
        from pytreenet.time_evolution.tebd import TEBD
        from pytreenet.util.tensor_splitting import SVDParameters
        svdp = SVDParameters(**(svd or dict(max_bond_dim=float("inf"), rel_tol=float("-inf"),
                                            total_tol=float("-inf"))))
        return TEBD(ttns, trotter, dt, T, ops, svd_parameters=svdp)
    raise ValueError(kind)


def expval_dense(vec: np.ndarray, mat: np.ndarray) -> complex:
    return complex(vec.conj() @ (mat @ vec))
