"""Correspondence between the value-level network semantics `Ptn.Ein` (lean/Ptn/Common/EinsumModel.lean) and NumPy.

The theorems of `Ptn/Common/Einsum*.lean` (nested pairwise contraction = one big sum, order independence, exact
factorisations / centre moves / gates leave or transform the network value as stated) are about `sumPairs`, `Expr.eval`,
`Expr.full`, `netValue`.  That these ARE what `numpy.tensordot` / the contraction of a labelled network compute is
checked here on every run, exactly (small integers):

  * `ein` cases: a random nesting of pairwise contractions over random leaf tensors; the model's free-leg order, its nested
    evaluation and its big sum must equal nested `numpy.tensordot` calls and one `numpy.einsum` over the binding record;
  * malformed cases (a pair joining legs of different dimension, a pair naming a leg that is not free on that side) must be
    rejected by both;
  * `einrec(...)`: evaluates a flat network (leaf tensors + binding record) in the model, for callers that hold a binding
    record produced by another model (C04 tree contractions, C03 centre moves) and integer tensors of the library.

Used by the checks of C04 (streams `ein`), C03 and C02 (flat networks).  Every random choice comes from the `rng` handed in.
"""
import numpy as np


def _fmt(xs):
    return ",".join(str(int(x)) for x in xs) or "-"


def leaf_tokens(legs, arr):
    return ["L", _fmt(legs), _fmt(np.asarray(arr).reshape(-1))]


def einrec_line(dims, free, pairs, leaves, prefix="C04"):
    """leaves: list of (legs, integer ndarray)."""
    toks = [prefix, "einrec", _fmt(dims), _fmt(free), ",".join(f"{a}:{b}" for a, b in pairs) or "-"]
    for legs, arr in leaves:
        toks += leaf_tokens(legs, arr)
    return " ".join(toks)


def parse_table(ans, key):
    """value list after `<key> ` in a `… | key v,v,… | …` answer"""
    for part in ans.split(" | "):
        if part.startswith(key + " "):
            body = part[len(key) + 1:]
            return [] if body == "-" else [int(x) for x in body.split(",")]
    return None


def gen_expr(rng, max_leaves=5, malformed=False):
    """A random expression tree.  Returns (dims, tree) with tree = ('L', legs, array) | ('D', pairs, a, b)."""
    dims = []
    nleaves = rng.randint(1, max_leaves)

    def new_leaf():
        k = rng.choice([0, 1, 1, 2, 2, 3])
        legs = []
        for _ in range(k):
            legs.append(len(dims))
            dims.append(rng.choice([1, 2, 2, 3]))
        shape = [dims[l] for l in legs]
        arr = np.array([rng.randint(-3, 3) for _ in range(int(np.prod(shape)) if shape else 1)],
                       dtype=np.int64).reshape(shape)
        return ("L", legs, arr)

    def free(t):
        if t[0] == "L":
            return list(t[1])
        _, ps, a, b = t
        fa = [l for l in free(a) if l not in [p[0] for p in ps]]
        fb = [l for l in free(b) if l not in [p[1] for p in ps]]
        return fa + fb

    forest = [new_leaf() for _ in range(nleaves)]
    while len(forest) > 1:
        i = rng.randrange(len(forest))
        a = forest.pop(i)
        j = rng.randrange(len(forest))
        b = forest.pop(j)
        fa, fb = free(a), free(b)
        rng.shuffle(fa)
        rng.shuffle(fb)
        ps = []
        usedb = set()
        for x in fa:
            cands = [y for y in fb if y not in usedb and dims[y] == dims[x]]
            if cands and rng.random() < 0.6:
                y = rng.choice(cands)
                usedb.add(y)
                ps.append((x, y))
        forest.append(("D", ps, a, b))
    tree = forest[0]
    if malformed:
        # break one contraction: unequal dimensions, or a leg that is not free on its side
        def nodes(t, acc):
            if t[0] == "D":
                acc.append(t)
                nodes(t[2], acc)
                nodes(t[3], acc)
            return acc
        ds = nodes(tree, [])
        if not ds:
            return None
        target = rng.choice(ds)
        fa, fb = free(target[2]), free(target[3])
        fa = [l for l in fa if l not in [p[0] for p in target[1]]]
        fb = [l for l in fb if l not in [p[1] for p in target[1]]]
        kind = rng.choice(["dim", "side"])
        if kind == "dim":
            bad = [(x, y) for x in fa for y in fb if dims[x] != dims[y]]
            if not bad:
                return None
            newp = rng.choice(bad)
        else:
            if len(fa) < 2:
                return None
            newp = (fa[0], fa[1])       # the second leg is on the left side

        def rebuild(t):
            if t is target:
                return ("D", list(t[1]) + [newp], t[2], t[3])
            if t[0] == "D":
                return ("D", t[1], rebuild(t[2]), rebuild(t[3]))
            return t
        tree = rebuild(tree)
    return dims, tree


def expr_tokens(t):
    if t[0] == "L":
        return leaf_tokens(t[1], t[2])
    _, ps, a, b = t
    return ["D", ",".join(f"{x}:{y}" for x, y in ps) or "-"] + expr_tokens(a) + expr_tokens(b)


def numpy_nested(t):
    """(array, free legs) by nested numpy.tensordot — raises what NumPy raises"""
    if t[0] == "L":
        return np.asarray(t[2]), list(t[1])
    _, ps, a, b = t
    va, fa = numpy_nested(a)
    vb, fb = numpy_nested(b)
    ia = [fa.index(x) for x, _ in ps]       # ValueError when the leg is not free on that side
    ib = [fb.index(y) for _, y in ps]
    out = np.tensordot(va, vb, axes=(ia, ib))
    return out, [l for l in fa if l not in [p[0] for p in ps]] + [l for l in fb if l not in [p[1] for p in ps]]


def numpy_full(t, free):
    leaves, binds = [], []

    def walk(u):
        if u[0] == "L":
            leaves.append(u)
        else:
            binds.extend(u[1])
            walk(u[2])
            walk(u[3])
    walk(t)
    sym = {}
    for k, (x, y) in enumerate(binds):
        sym[x] = sym[y] = k
    for l in free:
        sym[l] = len(binds) + free.index(l)
    args = []
    for _, legs, arr in leaves:
        args += [arr, [sym[l] for l in legs]]
    args.append([sym[l] for l in free])
    return np.einsum(*args)


def run_ein(ctx, tag="ein", prefix="C04", quick=400, thorough=6000):
    rng = ctx.subrng(tag)
    cases = []
    for k in range(ctx.n(quick, thorough)):
        bad = k % 8 == 7
        g = gen_expr(rng, malformed=bad)
        if g is None:
            continue
        dims, tree = g
        size = 1
        for d in dims:
            size *= d
        if size > 60000:
            continue
        cases.append((dims, tree, bad))
    lines = [" ".join([prefix, "ein", _fmt(dims)] + expr_tokens(tree)) for dims, tree, _ in cases]
    outs = ctx.lean.batch(lines)
    for (dims, tree, bad), line, ans in zip(cases, lines, outs):
        case = {"kind": "ein", "line": line}
        nleaves = line.split().count("L")
        ctx.tally("ein_leaves", nleaves)
        ctx.tally("ein_malformed", bad)
        ctx.count(("ein", line), nontrivial=nleaves >= 3 and not bad, corr=True)
        try:
            val, free = numpy_nested(tree)
            err = None
        except Exception as e:      # noqa: BLE001
            err = type(e).__name__
        if bad:
            if err is None:
                continue            # NumPy accepted it (e.g. dimension-1 broadcasting is not a thing for tensordot) - not compared
            if ans != "bad-op":
                ctx.corr_fail(case, f"ein: NumPy rejects the contraction ({err}) but the model answers [{ans[:120]}]")
            continue
        if err is not None:
            ctx.corr_fail(case, f"ein: harness/NumPy raised {err} on a well-formed expression")
            continue
        if ans == "bad-op":
            ctx.corr_fail(case, "ein: the model rejects a well-formed expression that NumPy evaluates")
            continue
        mfree = ans.split(" | ")[0].split()[1]
        mfree = [] if mfree == "-" else [int(x) for x in mfree.split(",")]
        if mfree != free:
            ctx.corr_fail(case, f"ein: free-leg order of nested tensordot {free} != model {mfree}")
            continue
        ref_full = numpy_full(tree, free)
        want = [int(x) for x in np.asarray(val).reshape(-1)]
        if [int(x) for x in np.asarray(ref_full).reshape(-1)] != want:
            ctx.corr_fail(case, "ein: harness: numpy nested tensordot != numpy einsum over the record")
            continue
        if parse_table(ans, "eval") != want:
            ctx.corr_fail(case, f"ein: model nested evaluation {parse_table(ans, 'eval')} != numpy.tensordot nesting {want}")
        elif parse_table(ans, "full") != want:
            ctx.corr_fail(case, f"ein: model big sum {parse_table(ans, 'full')} != numpy {want}")
