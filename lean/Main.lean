import Ptn.C01.Driver
import Ptn.C02.Driver
import Ptn.C03.Driver
import Ptn.C04.Driver
import Ptn.C05.Driver
import Ptn.C06.Driver
import Ptn.C07.Driver
import Ptn.C08.Driver
import Ptn.C09.Driver
import Ptn.C10.Driver
import Ptn.C11.Driver
import Ptn.C12.Driver
import Ptn.C13.Driver
import Ptn.C14.Driver
import Ptn.C15.Driver
import Ptn.C16.Driver
import Ptn.C17.Driver
import Ptn.C18.Driver
import Ptn.C19.Driver
import Ptn.C20.Driver

/-! Line-protocol driver: one request per line, `Cxx arg arg ...`; one answer per line.
    Imports only the Mathlib-free model/driver modules so it can be a `lean_exe`. -/

def dispatch (line : String) : String :=
  match (line.trimAscii.toString.splitOn " ").filter (· ≠ "") with
  | "C01" :: rest => Ptn.C01.handle rest
  | "C02" :: rest => Ptn.C02.handle rest
  | "C03" :: rest => Ptn.C03.handle rest
  | "C04" :: rest => Ptn.C04.handle rest
  | "C05" :: rest => Ptn.C05.handle rest
  | "C06" :: rest => Ptn.C06.handle rest
  | "C07" :: rest => Ptn.C07.handle rest
  | "C08" :: rest => Ptn.C08.handle rest
  | "C09" :: rest => Ptn.C09.handle rest
  | "C10" :: rest => Ptn.C10.handle rest
  | "C11" :: rest => Ptn.C11.handle rest
  | "C12" :: rest => Ptn.C12.handle rest
  | "C13" :: rest => Ptn.C13.handle rest
  | "C14" :: rest => Ptn.C14.handle rest
  | "C15" :: rest => Ptn.C15.handle rest
  | "C16" :: rest => Ptn.C16.handle rest
  | "C17" :: rest => Ptn.C17.handle rest
  | "C18" :: rest => Ptn.C18.handle rest
  | "C19" :: rest => Ptn.C19.handle rest
  | "C20" :: rest => Ptn.C20.handle rest
  | _ => "bad-op"

partial def loop (hin hout : IO.FS.Stream) : IO Unit := do
  let line ← hin.getLine
  if line.isEmpty then return ()
  hout.putStrLn (dispatch line)
  hout.flush
  loop hin hout

def main : IO Unit := do loop (← IO.getStdin) (← IO.getStdout)
