import Ptn.C13.Checked
import Ptn.C13.Total
import Ptn.C13.Scale
/-! Per-primitive lemmas for the checked model of C13 (core Lean only): under exactly the index bounds its
caller guarantees, every checked primitive raises nothing and returns what the totalised primitive of
`Model` returns. -/
namespace Ptn.C13

@[simp] theorem chk_bind_ok {α β : Type} (x : α) (f : α → Chk β) : ((Except.ok x : Chk α) >>= f) = f x := rfl
@[simp] theorem chk_bind_error {α β : Type} (e : Err) (f : α → Chk β) :
    ((Except.error e : Chk α) >>= f) = .error e := rfl
@[simp] theorem chk_pure {α : Type} (x : α) : (pure x : Chk α) = .ok x := rfl
@[simp] theorem chk_throw {α : Type} (e : Err) : (throw e : Chk α) = .error e := rfl

/-! ### list primitives -/

theorem getC_ok {α : Type} {l : List α} {i : Nat} (h : i < l.length) : getC l i = .ok l[i] := by
  simp [getC, List.getElem?_eq_getElem h]

theorem getC_getD {α : Type} {l : List α} {i : Nat} (d : α) (h : i < l.length) :
    getC l i = .ok (l.getD i d) := by
  simp [getC, List.getElem?_eq_getElem h, List.getD_eq_getElem?_getD]

theorem getC_error {α : Type} {l : List α} {i : Nat} (h : l.length ≤ i) : getC l i = .error .index := by
  simp [getC, List.getElem?_eq_none h]

theorem setC_ok {α : Type} {l : List α} {i : Nat} (v : α) (h : i < l.length) :
    setC l i v = .ok (l.set i v) := by simp [setC, h]

theorem delC_ok {α : Type} {l : List α} {i : Nat} (h : i < l.length) :
    delC l i = .ok (l.eraseIdx i) := by simp [delC, h]

theorem getD_row_length {α : Type} {X : List (List α)} {w i : Nat} (hX : Rect X w) (hi : i < X.length) :
    (X.getD i []).length = w := by
  simp only [List.getD_eq_getElem?_getD, List.getElem?_eq_getElem hi, Option.getD_some]
  exact hX _ (List.getElem_mem hi)

theorem gMC_ok {α : Type} (d : α) {X : List (List α)} {w i j : Nat} (hX : Rect X w) (hi : i < X.length)
    (hj : j < w) : gMC X i j = .ok (gM d X i j) := by
  have hl := getD_row_length hX hi
  simp only [gMC, getC_getD [] hi, gM]
  exact getC_getD d (by omega)

theorem widthC_ok {α : Type} {X : List (List α)} (h : 0 < X.length) : widthC X = .ok (width X) := by
  cases X with
  | nil => simp at h
  | cons r rest => rfl

theorem mapC_ok {α β : Type} (f : α → Chk β) (g : α → β) :
    ∀ l : List α, (∀ a, a ∈ l → f a = .ok (g a)) → mapC f l = .ok (l.map g) := by
  intro l
  induction l with
  | nil => intro _; rfl
  | cons a as ih =>
    intro h
    simp only [mapC, h a (by simp), ih (fun x hx => h x (by simp [hx])), List.map_cons]

theorem listSwapC_ok {α : Type} {l : List α} {i j : Nat} (hi : i < l.length) (hj : j < l.length) :
    listSwapC l i j = .ok (listSwap l i j) := by
  simp only [listSwapC, getC_ok hi, getC_ok hj, chk_bind_ok, setC_ok _ hi]
  rw [setC_ok _ (by simpa using hj)]
  simp [listSwap, List.getElem?_eq_getElem hi, List.getElem?_eq_getElem hj]

theorem rowSwapMC_ok {α : Type} {X : List (List α)} {i j : Nat} (hi : i < X.length) (hj : j < X.length) :
    rowSwapMC X i j = .ok (rowSwapM X i j) := listSwapC_ok hi hj

theorem colSwapMC_ok {α : Type} {X : List (List α)} {w i j : Nat} (hX : Rect X w) (hi : i < w) (hj : j < w) :
    colSwapMC X i j = .ok (colSwapM X i j) := by
  unfold colSwapMC colSwapM
  apply mapC_ok
  intro r hr
  have := hX r hr
  exact listSwapC_ok (by omega) (by omega)

theorem delColC_ok {α : Type} {X : List (List α)} {w z : Nat} (hX : Rect X w) (hz : z < w) :
    delColC X z = .ok (delCol X z) := by
  unfold delColC delCol
  apply mapC_ok
  intro r hr
  have := hX r hr
  exact delC_ok (by omega)

/-! ### operator matrices -/

theorem colAddFloatC_ok {X : RMat} {w t s : Nat} (f : Rat) (hX : Rect X w) (ht : t < w) (hs : s < w) :
    colAddFloatC X t s f = .ok (colAddFloat X t s f) := by
  unfold colAddFloatC colAddFloat
  apply mapC_ok
  intro r hr
  have := hX r hr
  simp only [getC_getD 0 (show s < r.length by omega), getC_getD 0 (show t < r.length by omega),
    chk_bind_ok]
  exact setC_ok _ (by omega)

theorem zipAddC_ok (f : Rat) : ∀ (as bs : List Rat), as.length ≤ bs.length →
    zipAddC f as bs = .ok (List.zipWith (fun a b => a + f * b) as bs) := by
  intro as
  induction as with
  | nil => intro bs _; rfl
  | cons a as ih =>
    intro bs h
    cases bs with
    | nil => simp at h
    | cons b bs =>
      simp only [zipAddC, ih bs (by simpa using h), List.zipWith_cons_cons]

theorem rowAddFloatC_ok {X : RMat} {w t s : Nat} (f : Rat) (hX : Rect X w) (ht : t < X.length)
    (hs : s < X.length) : rowAddFloatC X t s f = .ok (rowAddFloat X t s f) := by
  have lt := getD_row_length hX ht
  have ls := getD_row_length hX hs
  unfold rowAddFloatC rowAddFloat
  simp only [getC_getD [] ht, chk_bind_ok]
  cases hrt : X.getD t [] with
  | nil => simp only [chk_pure, chk_bind_ok, List.zipWith_nil_left]; exact setC_ok _ ht
  | cons a as =>
    simp only [getC_getD [] hs, chk_bind_ok]
    rw [← hrt, zipAddC_ok f _ _ (by omega)]
    simp only [chk_bind_ok]
    exact setC_ok _ ht

theorem rowScaleFloatC_ok {X : RMat} {r : Nat} (f : Rat) (hr : r < X.length) :
    rowScaleFloatC X r f = .ok (rowScaleFloat X r f) := by
  unfold rowScaleFloatC rowScaleFloat
  simp only [getC_getD [] hr, chk_bind_ok]
  exact setC_ok _ hr

theorem colScaleFloatC_ok {X : RMat} {w c : Nat} (f : Rat) (hX : Rect X w) (hc : c < w) :
    colScaleFloatC X c f = .ok (colScaleFloat X c f) := by
  unfold colScaleFloatC colScaleFloat
  apply mapC_ok
  intro r hr
  have := hX r hr
  simp only [getC_getD 0 (show c < r.length by omega), chk_bind_ok]
  exact setC_ok _ (by omega)

/-! ### `_row_add` / `_col_add` -/

theorem addLineC_ok (f : Rat) : ∀ (ts ss : List Entry), ts.length ≤ ss.length →
    addLineC f ts ss = .ok (addLine f ts ss) := by
  intro ts
  induction ts with
  | nil => intro ss _; cases ss <;> rfl
  | cons t ts ih =>
    intro ss h
    cases ss with
    | nil => simp at h
    | cons s ss =>
      have := ih ss (by simpa using h)
      simp only [addLineC, addLine, this]
      cases addEntry f t s with
      | none => rfl
      | some e =>
        cases addLine f ts ss with
        | none => rfl
        | some es => rfl

theorem rowAddRawC_ok {A : EMat} {w t s : Nat} (f : Rat) (hA : Rect A w) (ht : t < A.length)
    (hs : s < A.length) : rowAddRawC A t s f = .ok (rowAddRaw A t s f) := by
  have lt := getD_row_length hA ht
  have ls := getD_row_length hA hs
  unfold rowAddRawC rowAddRaw
  simp only [getC_getD [] ht, chk_bind_ok]
  have key : addLineOfC A (A.getD t []) s f = .ok (addLine f (A.getD t []) (A.getD s [])) := by
    unfold addLineOfC
    cases hrt : A.getD t [] with
    | nil => cases A.getD s [] <;> rfl
    | cons a as =>
      simp only [getC_getD [] hs]
      rw [← hrt]
      exact addLineC_ok f _ _ (by omega)
  rw [key]
  simp only [chk_bind_ok]
  cases addLine f (A.getD t []) (A.getD s []) with
  | none => rfl
  | some r => simp only [setC_ok _ ht, chk_bind_ok, chk_pure]

theorem addColC_ok (f : Rat) (t s : Nat) : ∀ (A : EMat), (∀ r, r ∈ A → t < r.length ∧ s < r.length) →
    addColC f t s A = .ok (addCol f t s A) := by
  intro A
  induction A with
  | nil => intro _; rfl
  | cons row rest ih =>
    intro h
    have h1 := h row (by simp)
    have := ih (fun r hr => h r (by simp [hr]))
    simp only [addColC, addCol, getC_getD (Entry.num 0) h1.1, getC_getD (Entry.num 0) h1.2, this]
    cases addEntry f (row.getD t (Entry.num 0)) (row.getD s (Entry.num 0)) with
    | none => rfl
    | some e =>
      cases addCol f t s rest with
      | none => rfl
      | some es => rfl

theorem setColC_ok (t : Nat) : ∀ (A : EMat) (c : List Entry), (∀ r, r ∈ A → t < r.length) →
    setColC t A c = .ok (List.zipWith (fun row e => row.set t e) A c) := by
  intro A
  induction A with
  | nil => intro c _; cases c <;> rfl
  | cons row rest ih =>
    intro c h
    cases c with
    | nil => rfl
    | cons e es =>
      simp only [setColC, setC_ok _ (h row (by simp)), ih es (fun r hr => h r (by simp [hr])),
        List.zipWith_cons_cons]

theorem colAddRawC_ok {A : EMat} {w t s : Nat} (f : Rat) (hA : Rect A w) (ht : t < w) (hs : s < w) :
    colAddRawC A t s f = .ok (colAddRaw A t s f) := by
  have hrows : ∀ r, r ∈ A → t < r.length ∧ s < r.length := by
    intro r hr
    have := hA r hr
    omega
  unfold colAddRawC colAddRaw
  rw [mapC_ok (fun row => getC row t) (fun row => row.getD t (Entry.num 0)) A
    (fun r hr => getC_getD _ (hrows r hr).1)]
  simp only [chk_bind_ok, addColC_ok f t s A hrows]
  cases addCol f t s A with
  | none => rfl
  | some c => simp only [setColC_ok t A c (fun r hr => (hrows r hr).1), chk_bind_ok, chk_pure]

/-! ### scaling -/

theorem rowScaleEC_ok {A : EMat} {r : Nat} (f : Rat) (hr : r < A.length) :
    rowScaleEC A r f = .ok (rowScaleE A r f) := by
  unfold rowScaleEC rowScaleE
  simp only [getC_getD [] hr, chk_bind_ok]
  exact setC_ok _ hr

theorem colScaleEC_ok {A : EMat} {w c : Nat} (f : Rat) (hA : Rect A w) (hc : c < w) :
    colScaleEC A c f = .ok (colScaleE A c f) := by
  unfold colScaleEC colScaleE
  apply mapC_ok
  intro r hr
  have := hA r hr
  simp only [getC_getD (Entry.num 0) (show c < r.length by omega), chk_bind_ok]
  exact setC_ok _ (by omega)

/-! ### `are_parallel_col` -/

theorem parColLoopC_ok (c1 c2 : Nat) : ∀ (A : EMat) (ratio : Rat),
    (∀ r, r ∈ A → c1 < r.length ∧ c2 < r.length) →
    parColLoopC c1 c2 ratio A
      = .ok (parLoop ratio (A.map fun row => (row.getD c1 (Entry.num 0), row.getD c2 (Entry.num 0)))) := by
  intro A
  induction A with
  | nil => intro ratio _; rfl
  | cons row rest ih =>
    intro ratio h
    have h1 := h row (by simp)
    have ih' := fun q => ih q (fun r hr => h r (by simp [hr]))
    simp only [parColLoopC, List.map_cons, parLoop, getC_getD (Entry.num 0) h1.1,
      getC_getD (Entry.num 0) h1.2]
    split
    · rfl
    · split
      · exact ih' _
      · split
        · rfl
        · split
          · exact ih' _
          · split
            · rfl
            · exact ih' _

theorem areParallelColC_ok {A : EMat} {w c1 c2 : Nat} (hA : Rect A w) (h1 : c1 < w) (h2 : c2 < w) :
    areParallelColC A c1 c2 = .ok (areParallelCol A c1 c2) := by
  unfold areParallelColC areParallelCol
  apply parColLoopC_ok
  intro r hr
  have := hA r hr
  omega

/-! ### paired operations on the state -/

theorem rowSwapC_ok {s : St} {i j : Nat} (hL : Rect s.L s.A.length) (hi : i < s.A.length)
    (hj : j < s.A.length) : s.rowSwapC i j = .ok (s.rowSwap i j) := by
  simp only [St.rowSwapC, rowSwapMC_ok hi hj, colSwapMC_ok hL hi hj, chk_bind_ok, chk_pure]
  rfl

theorem colSwapC_ok {s : St} {i j : Nat} (hA : Rect s.A s.R.length) (hi : i < s.R.length)
    (hj : j < s.R.length) : s.colSwapC i j = .ok (s.colSwap i j) := by
  simp only [St.colSwapC, colSwapMC_ok hA hi hj, rowSwapMC_ok hi hj, chk_bind_ok, chk_pure]
  rfl

theorem rowAddC_ok {st : St} {w t s : Nat} (f : Rat) (hL : Rect st.L st.A.length) (hA : Rect st.A w)
    (ht : t < st.A.length) (hs : s < st.A.length) : st.rowAddC t s f = .ok (st.rowAdd t s f) := by
  unfold St.rowAddC St.rowAdd
  simp only [rowAddRawC_ok f hA ht hs, chk_bind_ok]
  cases rowAddRaw st.A t s f with
  | none => rfl
  | some p =>
    obtain ⟨A', z⟩ := p
    simp only [colAddFloatC_ok (-f) hL hs ht, chk_bind_ok, chk_pure]

theorem colAddC_ok {st : St} {n t s : Nat} (f : Rat) (hA : Rect st.A st.R.length) (hR : Rect st.R n)
    (ht : t < st.R.length) (hs : s < st.R.length) : st.colAddC t s f = .ok (st.colAdd t s f) := by
  unfold St.colAddC St.colAdd
  simp only [colAddRawC_ok f hA ht hs, chk_bind_ok]
  cases colAddRaw st.A t s f with
  | none => rfl
  | some p =>
    obtain ⟨A', z⟩ := p
    simp only [rowAddFloatC_ok (-f) hR hs ht, chk_bind_ok, chk_pure]

/-- `row_scale` with the row in range: `ZeroDivisionError` exactly for the factor `0`. -/
theorem rowScaleC_ok {st : St} {r : Nat} (f : Rat) (hL : Rect st.L st.A.length) (hr : r < st.A.length) :
    st.rowScaleC r f = (match st.rowScale r f with | some s' => .ok s' | none => .error .zeroDiv) := by
  unfold St.rowScaleC St.rowScale
  simp only [rowScaleEC_ok f hr, chk_bind_ok]
  by_cases h : f = 0
  · simp [h]
  · simp only [h, if_false, colScaleFloatC_ok (1 / f) hL hr, chk_bind_ok, chk_pure]

theorem colScaleC_ok {st : St} {c : Nat} (f : Rat) (hA : Rect st.A st.R.length) (hc : c < st.R.length) :
    st.colScaleC c f = (match st.colScale c f with | some s' => .ok s' | none => .error .zeroDiv) := by
  unfold St.colScaleC St.colScale
  simp only [colScaleEC_ok f hA hc, chk_bind_ok]
  by_cases h : f = 0
  · simp [h]
  · simp only [h, if_false, rowScaleFloatC_ok (1 / f) hc, chk_bind_ok, chk_pure]

/-- Deleting a strictly decreasing list of in-range rows never leaves the range. -/
theorem delRowsC_ok : ∀ (zs : List Nat) (s : St),
    List.Pairwise (fun a b => b < a) zs → (∀ z, z ∈ zs → z < s.A.length) → Rect s.L s.A.length →
    s.delRowsC zs = .ok (s.delRows zs) := by
  intro zs
  induction zs with
  | nil => intro s _ _ _; rfl
  | cons z zs ih =>
    intro s hp hlt hL
    have hz : z < s.A.length := hlt z (by simp)
    have hp' := List.pairwise_cons.mp hp
    let s1 : St := { s with A := delRow s.A z, L := delCol s.L z }
    have hlen1 : s1.A.length + 1 = s.A.length := length_delRow s.A z hz
    have hL1 : Rect s1.L s1.A.length := by
      have : Rect s.L (s1.A.length + 1) := by rw [hlen1]; exact hL
      exact rect_delCol this z (by omega)
    have hlt1 : ∀ y, y ∈ zs → y < s1.A.length := by
      intro y hy
      have := hp'.1 y hy
      omega
    have := ih s1 hp'.2 hlt1 hL1
    rw [delRows_cons]
    unfold St.delRowsC at this ⊢
    simp only [foldC, delC_ok hz, delColC_ok hL hz, chk_bind_ok, chk_pure]
    exact this

theorem delColsC_ok : ∀ (zs : List Nat) (s : St),
    List.Pairwise (fun a b => b < a) zs → (∀ z, z ∈ zs → z < s.R.length) → Rect s.A s.R.length →
    s.delColsC zs = .ok (s.delCols zs) := by
  intro zs
  induction zs with
  | nil => intro s _ _ _; rfl
  | cons z zs ih =>
    intro s hp hlt hA
    have hz : z < s.R.length := hlt z (by simp)
    have hp' := List.pairwise_cons.mp hp
    let s1 : St := { s with A := delCol s.A z, R := delRow s.R z }
    have hlen1 : s1.R.length + 1 = s.R.length := length_delRow s.R z hz
    have hA1 : Rect s1.A s1.R.length := by
      have : Rect s.A (s1.R.length + 1) := by rw [hlen1]; exact hA
      exact rect_delCol this z (by omega)
    have hlt1 : ∀ y, y ∈ zs → y < s1.R.length := by
      intro y hy
      have := hp'.1 y hy
      omega
    have := ih s1 hp'.2 hlt1 hA1
    rw [delCols_cons]
    unfold St.delColsC at this ⊢
    simp only [foldC, delC_ok hz, delColC_ok hA hz, chk_bind_ok, chk_pure]
    exact this

end Ptn.C13
