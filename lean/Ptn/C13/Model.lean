/-! Model for property C13 (core Lean only; no Mathlib). -/
namespace Ptn.C13
end Ptn.C13
