/-! Model for property C13 (core Lean only; no Mathlib).

Literal port of `pytreenet/ttno/symbolic_gaussian_elimination_fraction.py`.

* A matrix entry of the Python code is `Fraction`, the integer `0` (written by the
  `new_coeff == 0` normalisation) or a tuple `(Fraction, str)`.  Here: `Entry.num q` for both kinds of
  numbers (the two kinds of zero are distinguished by the Python code only inside
  `are_parallel_row/col`, which run on the *input* only, where zeros are `Fraction(0)`), and
  `Entry.sym q s` for the tuple `(q, symbol s)`.  Symbols are natural numbers; **`0` stands for the
  empty string `''`**, which `are_parallel_*` uses as the pseudo-symbol of a number.
* Python truthiness / `== 0` (`0`, `Fraction(0)` falsy, every tuple truthy - also `(0,'a')`) is
  `Entry.isZero`.
* The operator matrices `Op_l`, `Op_r` are `List (List Rat)`.
* Python mutates in place; the model is functional on the state `St = (L, A, R, flag)`.
* An exception of the Python code that can be reached from well-shaped input is the
  `ZeroDivisionError` of `-x / pivot[0]` for a pivot `(0, s)`; it is recorded in `flag`
  (`Flag.zeroDiv`), never replaced by Lean's `x / 0 = 0`.  Running out of the fuel that replaces the
  two `while` loops is recorded as `Flag.fuel`.
-/
namespace Ptn.C13

inductive Entry where
  | num (q : Rat)
  | sym (q : Rat) (s : Nat)
  deriving DecidableEq, Repr, Inhabited

abbrev EMat := List (List Entry)
abbrev RMat := List (List Rat)

namespace Entry

/-- Python `entry == 0` / `not entry`. -/
def isZero : Entry → Bool
  | num q => decide (q = 0)
  | sym _ _ => false

/-- `a_coeff` of `a_coeff, a_var = (a, '') if isinstance(a, Fraction) else a`. -/
def coeff : Entry → Rat
  | num q => q
  | sym q _ => q

/-- `a_var` of the same line; the symbol `0` is the empty string. -/
def var : Entry → Nat
  | num _ => 0
  | sym _ s => s

/-- Value of an entry under a valuation of the symbols (specification level). -/
def eval (ρ : Nat → Rat) : Entry → Rat
  | num q => q
  | sym q s => q * ρ s

end Entry

/-! ### generic list-of-lists helpers -/

/-- `X[i][j]` with a default (never used on well-shaped in-range accesses). -/
def gM {α : Type} (d : α) (X : List (List α)) (i j : Nat) : α := (X.getD i []).getD j d

/-- `len(matrix[0])`. -/
def width {α : Type} (X : List (List α)) : Nat :=
  match X with
  | [] => 0
  | r :: _ => r.length

/-- `l[i], l[j] = l[j], l[i]`. -/
def listSwap {α : Type} (l : List α) (i j : Nat) : List α :=
  match l[i]?, l[j]? with
  | some a, some b => (l.set i b).set j a
  | _, _ => l

/-- `_row_swap`. -/
def rowSwapM {α : Type} (X : List (List α)) (i j : Nat) : List (List α) := listSwap X i j

/-- `_col_swap`. -/
def colSwapM {α : Type} (X : List (List α)) (i j : Nat) : List (List α) := X.map (listSwap · i j)

/-- `del matrix[z]`. -/
def delRow {α : Type} (X : List (List α)) (z : Nat) : List (List α) := X.eraseIdx z

/-- `for row in matrix: del row[z]`. -/
def delCol {α : Type} (X : List (List α)) (z : Nat) : List (List α) := X.map (·.eraseIdx z)

/-- `sorted(zs, reverse=True)`. -/
def sortDesc (zs : List Nat) : List Nat := zs.mergeSort (fun a b => decide (b ≤ a))

/-! ### operations on the operator matrices -/

/-- `_col_add_float(matrix, target_col, source_col, factor)`. -/
def colAddFloat (X : RMat) (t s : Nat) (f : Rat) : RMat :=
  X.map fun row => row.set t (row.getD t 0 + f * row.getD s 0)

/-- `_row_add_float(matrix, target_row, source_row, factor)`. -/
def rowAddFloat (X : RMat) (t s : Nat) (f : Rat) : RMat :=
  X.set t (List.zipWith (fun a b => a + f * b) (X.getD t []) (X.getD s []))

/-- `_row_scale` / `_col_scale` on an operator matrix. -/
def rowScaleFloat (X : RMat) (r : Nat) (f : Rat) : RMat :=
  X.set r ((X.getD r []).map (· * f))

def colScaleFloat (X : RMat) (c : Nat) (f : Rat) : RMat :=
  X.map fun row => row.set c (row.getD c 0 * f)

def identity (n : Nat) : RMat :=
  (List.range n).map fun i => (List.range n).map fun j => if i = j then (1 : Rat) else 0

/-! ### `_row_add` / `_col_add` -/

/-- One position of `_row_add` / `_col_add`: `none` is `return (False, False)`. -/
def addEntry (f : Rat) (tgt src : Entry) : Option Entry :=
  match src, tgt with
  | .sym sc sv, .sym tc tv =>
      if tv = sv then
        let n := tc + f * sc
        if n = 0 then some (.num 0) else some (.sym n sv)
      else none
  | .sym sc sv, .num t => if t = 0 then some (.sym (f * sc) sv) else none
  | .num s, .num t => some (.num (t + f * s))
  | .num s, .sym tc tv => if s ≠ 0 then none else some (.sym tc tv)

/-- The loop of `_row_add` over the positions of the target row. -/
def addLine (f : Rat) : List Entry → List Entry → Option (List Entry)
  | t :: ts, s :: ss =>
      match addEntry f t s, addLine f ts ss with
      | some e, some es => some (e :: es)
      | _, _ => none
  | _, _ => some []

/-- `_row_add(matrix, target_row, source_row, factor)`: `none` = not successful (matrix unchanged),
    `some (matrix', is_zero)` otherwise. -/
def rowAddRaw (A : EMat) (t s : Nat) (f : Rat) : Option (EMat × Bool) :=
  match addLine f (A.getD t []) (A.getD s []) with
  | none => none
  | some r => some (A.set t r, r.all Entry.isZero)

/-- The loop of `_col_add` over the rows: the new column. -/
def addCol (f : Rat) (t s : Nat) : EMat → Option (List Entry)
  | [] => some []
  | row :: rest =>
      match addEntry f (row.getD t (.num 0)) (row.getD s (.num 0)), addCol f t s rest with
      | some e, some es => some (e :: es)
      | _, _ => none

/-- `_col_add(matrix, target_col, source_col, factor)`. -/
def colAddRaw (A : EMat) (t s : Nat) (f : Rat) : Option (EMat × Bool) :=
  match addCol f t s A with
  | none => none
  | some c => some (List.zipWith (fun row e => row.set t e) A c, c.all Entry.isZero)

/-! ### scaling (present in the file, not used by `gaussian_elimination`) -/

def scaleEntry (f : Rat) : Entry → Entry
  | .num q => .num (q * f)
  | .sym q s => .sym (q * f) s

def rowScaleE (A : EMat) (r : Nat) (f : Rat) : EMat := A.set r ((A.getD r []).map (scaleEntry f))

def colScaleE (A : EMat) (c : Nat) (f : Rat) : EMat :=
  A.map fun row => row.set c (scaleEntry f (row.getD c (.num 0)))

/-! ### `are_parallel_row` / `are_parallel_col` -/

/-- Loop of `are_parallel_*` over the zipped pairs `(a, b)`; first argument is `ratio`. -/
def parLoop : Rat → List (Entry × Entry) → Rat
  | ratio, [] => ratio
  | ratio, (a, b) :: rest =>
      if a.var ≠ b.var then 0
      else if a.coeff = 0 ∧ b.coeff = 0 then parLoop ratio rest
      else if a.coeff = 0 ∨ b.coeff = 0 then 0
      else
        let cur := b.coeff / a.coeff
        if ratio = 0 then parLoop cur rest
        else if cur ≠ ratio then 0
        else parLoop ratio rest

def areParallelRow (r1 r2 : List Entry) : Rat := parLoop 0 (r1.zip r2)

def areParallelCol (A : EMat) (c1 c2 : Nat) : Rat :=
  parLoop 0 (A.map fun row => (row.getD c1 (.num 0), row.getD c2 (.num 0)))

/-! ### state -/

inductive Flag where
  | ok | zeroDiv | fuel
  deriving DecidableEq, Repr

structure St where
  L : RMat
  A : EMat
  R : RMat
  flag : Flag
  deriving DecidableEq

/-- Record an abnormal event; the first one wins. -/
def St.raise (s : St) (f : Flag) : St := if s.flag = .ok then { s with flag := f } else s

/-- `row_swap`. -/
def St.rowSwap (s : St) (i j : Nat) : St := { s with A := rowSwapM s.A i j, L := colSwapM s.L i j }

/-- `col_swap`. -/
def St.colSwap (s : St) (i j : Nat) : St := { s with A := colSwapM s.A i j, R := rowSwapM s.R i j }

/-- `row_add` (the factor is always a `Fraction` here). -/
def St.rowAdd (st : St) (t s : Nat) (f : Rat) : St × Bool :=
  match rowAddRaw st.A t s f with
  | none => (st, false)
  | some (A', z) => ({ st with A := A', L := colAddFloat st.L s t (-f) }, z)

/-- `col_add`. -/
def St.colAdd (st : St) (t s : Nat) (f : Rat) : St × Bool :=
  match colAddRaw st.A t s f with
  | none => (st, false)
  | some (A', z) => ({ st with A := A', R := rowAddFloat st.R s t (-f) }, z)

/-- `row_scale`: `none` is the `ZeroDivisionError` of `1/factor`. -/
def St.rowScale (st : St) (r : Nat) (f : Rat) : Option St :=
  if f = 0 then none else some { st with A := rowScaleE st.A r f, L := colScaleFloat st.L r (1 / f) }

/-- `col_scale`. -/
def St.colScale (st : St) (c : Nat) (f : Rat) : Option St :=
  if f = 0 then none else some { st with A := colScaleE st.A c f, R := rowScaleFloat st.R c (1 / f) }

/-- `for row_0 in zs: del matrix[row_0]; for row in Op_l: del row[row_0]`. -/
def St.delRows (s : St) (zs : List Nat) : St :=
  zs.foldl (fun s z => { s with A := delRow s.A z, L := delCol s.L z }) s

/-- `for col_0 in zs: (for row in matrix: del row[col_0]); del Op_r[col_0]`. -/
def St.delCols (s : St) (zs : List Nat) : St :=
  zs.foldl (fun s z => { s with A := delCol s.A z, R := delRow s.R z }) s

/-! ### deparallelisation -/

def deparRowsInner (A : EMat) (i : Nat) (acc : St × List Nat) (j : Nat) : St × List Nat :=
  if j ∈ acc.2 then acc
  else
    let mult := areParallelRow (A.getD i []) (A.getD j [])
    if mult ≠ 0 then ({ acc.1 with L := colAddFloat acc.1.L i j mult }, acc.2 ++ [j]) else acc

def deparRowsOuter (A : EMat) (acc : St × List Nat) (i : Nat) : St × List Nat :=
  if i ∈ acc.2 then acc
  else (List.range' (i + 1) (A.length - (i + 1))).foldl (deparRowsInner A i) acc

/-- `deparallelize_rows(Op_l, matrix)`. -/
def deparallelizeRows (s : St) : St :=
  let r := (List.range s.A.length).foldl (deparRowsOuter s.A) (s, [])
  r.1.delRows (sortDesc r.2)

def deparColsInner (A : EMat) (i : Nat) (acc : St × List Nat) (j : Nat) : St × List Nat :=
  if j ∈ acc.2 then acc
  else
    let mult := areParallelCol A i j
    if mult ≠ 0 then ({ acc.1 with R := rowAddFloat acc.1.R i j mult }, acc.2 ++ [j]) else acc

def deparColsOuter (A : EMat) (acc : St × List Nat) (i : Nat) : St × List Nat :=
  if i ∈ acc.2 then acc
  else (List.range' (i + 1) (width A - (i + 1))).foldl (deparColsInner A i) acc

/-- `deparallelize_cols(Op_r, matrix)`. -/
def deparallelizeCols (s : St) : St :=
  let r := (List.range (width s.A)).foldl (deparColsOuter s.A) (s, [])
  r.1.delCols (sortDesc r.2)

/-! ### elimination -/

/-- The two branches computing the factor `-matrix[j][i] / pivot`; `none`: neither branch applies.
    The Boolean says that the division raises `ZeroDivisionError`. -/
def elimFactor (pivot e : Entry) : Option (Rat × Bool) :=
  match pivot, e with
  | .sym pc ps, .sym ec es => if ps = es then some ((-ec) / pc, decide (pc = 0)) else none
  | .num pq, .num eq => some ((-eq) / pq, decide (pq = 0))
  | _, _ => none

/-- Body of `while j < len(matrix)` in `row_elimination` (pivot row/column `i`). -/
def rowElimInner (i : Nat) (pivot : Entry) (acc : St × List Nat) (j : Nat) : St × List Nat :=
  let e := gM (Entry.num 0) acc.1.A j i
  if j ≠ i ∧ !e.isZero then
    match elimFactor pivot e with
    | none => acc
    | some (f, zd) =>
        let r := (if zd then acc.1.raise .zeroDiv else acc.1).rowAdd j i f
        (r.1, if r.2 then acc.2 ++ [j] else acc.2)
  else acc

/-- The pivot search at the head of the body of `while i < min(...)`. -/
def rowPivot (i : Nat) (s : St) : St :=
  if (gM (Entry.num 0) s.A i i).isZero then
    match (List.range' (i + 1) (s.A.length - (i + 1))).find?
        (fun j => !(gM (Entry.num 0) s.A j i).isZero) with
    | some j => s.rowSwap i j
    | none => s
  else s

/-- One pass of the body of `while i < min(len(matrix), len(matrix[0]))` in `row_elimination`. -/
def rowElimStep (i : Nat) (s : St) : St :=
  let s1 := rowPivot i s
  let pivot := gM (Entry.num 0) s1.A i i
  if pivot.isZero then s1
  else
    let r := (List.range s1.A.length).foldl (rowElimInner i pivot) (s1, [])
    r.1.delRows (sortDesc r.2)

/-- `while i < min(len(matrix), len(matrix[0]))` with fuel. -/
def rowElimLoop : Nat → Nat → St → St
  | 0, i, s => if i < min s.A.length (width s.A) then s.raise .fuel else s
  | fuel + 1, i, s =>
      if i < min s.A.length (width s.A) then rowElimLoop fuel (i + 1) (rowElimStep i s) else s

/-- `row_elimination(Op_l, matrix)`. -/
def rowElimination (s : St) : St := rowElimLoop (min s.A.length (width s.A)) 0 s

/-- Body of `while i < len(matrix[0])` in `column_elimination` (pivot row/column `j`). -/
def colElimInner (j : Nat) (pivot : Entry) (acc : St × List Nat) (i : Nat) : St × List Nat :=
  let e := gM (Entry.num 0) acc.1.A j i
  if i ≠ j ∧ !e.isZero then
    match elimFactor pivot e with
    | none => acc
    | some (f, zd) =>
        let r := (if zd then acc.1.raise .zeroDiv else acc.1).colAdd i j f
        (r.1, if r.2 then acc.2 ++ [i] else acc.2)
  else acc

def colPivot (j : Nat) (s : St) : St :=
  if (gM (Entry.num 0) s.A j j).isZero then
    match (List.range' (j + 1) (width s.A - (j + 1))).find?
        (fun i => !(gM (Entry.num 0) s.A j i).isZero) with
    | some i => s.colSwap j i
    | none => s
  else s

def colElimStep (j : Nat) (s : St) : St :=
  let s1 := colPivot j s
  let pivot := gM (Entry.num 0) s1.A j j
  if pivot.isZero then s1
  else
    let r := (List.range (width s1.A)).foldl (colElimInner j pivot) (s1, [])
    r.1.delCols (sortDesc r.2)

def colElimLoop : Nat → Nat → St → St
  | 0, j, s => if j < min s.A.length (width s.A) then s.raise .fuel else s
  | fuel + 1, j, s =>
      if j < min s.A.length (width s.A) then colElimLoop fuel (j + 1) (colElimStep j s) else s

/-- `column_elimination(Op_r, matrix)`. -/
def columnElimination (s : St) : St := colElimLoop (min s.A.length (width s.A)) 0 s

/-- `while (n_rows != n_rows_old or n_cols != n_cols_old)` with fuel. -/
def mainLoop : Nat → Nat → Nat → Nat → Nat → St → St
  | 0, nr, nro, nc, nco, s => if nr ≠ nro ∨ nc ≠ nco then s.raise .fuel else s
  | fuel + 1, nr, nro, nc, nco, s =>
      if nr ≠ nro ∨ nc ≠ nco then
        let s2 := columnElimination (rowElimination s)
        mainLoop fuel s2.A.length nr (width s2.A) nc s2
      else s

/-- State at the `return` of `gaussian_elimination(matrix)`. -/
def gaussSt (M : EMat) : St :=
  let nr := M.length
  let nc := width M
  let s0 : St := { L := identity nr, A := M, R := identity nc, flag := .ok }
  let s1 := deparallelizeCols (deparallelizeRows s0)
  mainLoop (nr + nc + 1) nr 0 nc 0 s1

inductive Outcome where
  | ok (L : RMat) (A : EMat) (R : RMat)
  | zeroDiv
  | fuelOut
  deriving DecidableEq, Repr

/-- `gaussian_elimination(matrix) -> (Op_l, matrix, Op_r)`. -/
def gaussianElimination (M : EMat) : Outcome :=
  let s := gaussSt M
  match s.flag with
  | .ok => .ok s.L s.A s.R
  | .zeroDiv => .zeroDiv
  | .fuel => .fuelOut

end Ptn.C13
