import Ptn.C13.ColSteps
/-! `row_scale` / `col_scale` (present in the Python file, not used by `gaussian_elimination`):
scaling a line by `f ≠ 0` and the matching line of the operator matrix by `1/f` preserves the product
(core Lean only). -/
namespace Ptn.C13

theorem scaleEntry_eval (f : Rat) (e : Entry) (ρ : Nat → Rat) :
    (scaleEntry f e).eval ρ = e.eval ρ * f := by
  cases e with
  | num q => simp [scaleEntry, Entry.eval]
  | sym q s => simp only [scaleEntry, Entry.eval]; grind

theorem gE_rowScaleE (ρ : Nat → Rat) (A : EMat) (r : Nat) (f : Rat) (k l : Nat) :
    gE ρ (rowScaleE A r f) k l = if k = r then gE ρ A r l * f else gE ρ A k l := by
  simp only [gE_def, rowScaleE, List.getElem?_set, List.getD_eq_getElem?_getD]
  by_cases hk : k = r
  · subst hk
    simp only [if_true]
    by_cases hlt : k < A.length
    · simp only [hlt, if_true, Option.getD_some, List.getElem?_eq_getElem hlt, List.getElem?_map]
      cases (A[k])[l]? with
      | none => simp [Entry.eval] <;> grind
      | some e => simp [scaleEntry_eval]
    · have : A[k]? = none := List.getElem?_eq_none (by omega)
      simp [hlt, Entry.eval] <;> grind
  · have : ¬ r = k := fun e => hk e.symm
    simp [hk, this]

theorem gE_colScaleE (ρ : Nat → Rat) (A : EMat) (c : Nat) (f : Rat) (k l : Nat) :
    gE ρ (colScaleE A c f) k l = if l = c then gE ρ A k c * f else gE ρ A k l := by
  simp only [gE_def, colScaleE, List.getElem?_map, List.getD_eq_getElem?_getD]
  cases A[k]? with
  | none => by_cases hl : l = c <;> simp [hl, Entry.eval] <;> grind
  | some row =>
    simp only [Option.map_some, Option.getD_some, List.getElem?_set]
    by_cases hl : l = c
    · subst hl
      simp only [if_true]
      by_cases hlt : l < row.length
      · simp [hlt, scaleEntry_eval]
      · have : row[l]? = none := List.getElem?_eq_none (by omega)
        simp [hlt, Entry.eval] <;> grind
    · have : ¬ c = l := fun e => hl e.symm
      simp [hl, this]

theorem gR_rowScaleFloat (X : RMat) (r : Nat) (f : Rat) (k l : Nat) :
    gR (rowScaleFloat X r f) k l = if k = r then gR X r l * f else gR X k l := by
  simp only [gR, gM_def, rowScaleFloat, List.getElem?_set, List.getD_eq_getElem?_getD]
  by_cases hk : k = r
  · subst hk
    simp only [if_true]
    by_cases hlt : k < X.length
    · simp only [hlt, if_true, Option.getD_some, List.getElem?_eq_getElem hlt, List.getElem?_map]
      cases (X[k])[l]? with
      | none => simp <;> grind
      | some e => simp
    · have : X[k]? = none := List.getElem?_eq_none (by omega)
      simp [hlt] <;> grind
  · have : ¬ r = k := fun e => hk e.symm
    simp [hk, this]

theorem gR_colScaleFloat (X : RMat) (c : Nat) (f : Rat) (k l : Nat) :
    gR (colScaleFloat X c f) k l = if l = c then gR X k c * f else gR X k l := by
  simp only [gR, gM_def, colScaleFloat, List.getElem?_map, List.getD_eq_getElem?_getD]
  cases X[k]? with
  | none => by_cases hl : l = c <;> simp [hl] <;> grind
  | some row =>
    simp only [Option.map_some, Option.getD_some, List.getElem?_set]
    by_cases hl : l = c
    · subst hl
      simp only [if_true]
      by_cases hlt : l < row.length
      · simp [hlt]
      · have : row[l]? = none := List.getElem?_eq_none (by omega)
        simp [hlt] <;> grind
    · have : ¬ c = l := fun e => hl e.symm
      simp [hl, this]

theorem rect_rowScale {α : Type} {X : List (List α)} {w : Nat} (g : α → α) (hX : Rect X w) (r : Nat) :
    Rect (X.set r ((X.getD r []).map g)) w := by
  intro r' hr'
  by_cases hlt : r < X.length
  · rcases List.mem_or_eq_of_mem_set hr' with h | h
    · exact hX r' h
    · subst h
      simp only [List.getD_eq_getElem?_getD, List.getElem?_eq_getElem hlt, Option.getD_some,
        List.length_map]
      exact hX _ (List.getElem_mem hlt)
  · rw [List.set_eq_of_length_le (by omega)] at hr'
    exact hX r' hr'

theorem rect_colScale {α : Type} {X : List (List α)} {w : Nat} (g : List α → α) (hX : Rect X w) (c : Nat) :
    Rect (X.map fun row => row.set c (g row)) w := by
  intro r' hr'
  simp only [List.mem_map] at hr'
  obtain ⟨r0, hr0, rfl⟩ := hr'
  simpa using hX r0 hr0

/-- `row_scale(matrix, Op_l, r, f)` with `f ≠ 0` (for `f = 0` the code raises on `1/f`). -/
theorem rowRel_rowScale (n : Nat) (st st' : St) (r : Nat) (f : Rat) (h : st.rowScale r f = some st') :
    f ≠ 0 ∧ RowRel n st st' := by
  unfold St.rowScale at h
  by_cases hf : f = 0
  · simp [hf] at h
  · simp only [hf, if_false, Option.some.injEq] at h
    subst h
    refine ⟨hf, ?_⟩
    intro hws
    have hlen : (rowScaleE st.A r f).length = st.A.length := by simp [rowScaleE]
    refine ⟨⟨?_, ?_, hws.Rrect, ?_⟩, rfl, ?_, ?_, ?_⟩
    · show Rect (colScaleFloat st.L r (1 / f)) (rowScaleE st.A r f).length
      rw [hlen]
      exact rect_colScale (fun row => row.getD r 0 * (1 / f)) hws.Lrect r
    · exact rect_rowScale (scaleEntry f) hws.Arect r
    · show 0 < (rowScaleE st.A r f).length
      rw [hlen]; exact hws.Apos
    · show (colScaleFloat st.L r (1 / f)).length = st.L.length
      simp [colScaleFloat]
    · show (rowScaleE st.A r f).length ≤ st.A.length
      rw [hlen]; exact Nat.le_refl _
    · intro ρ i l
      show sumN (rowScaleE st.A r f).length
        (fun k => gR (colScaleFloat st.L r (1 / f)) i k * gE ρ (rowScaleE st.A r f) k l) = _
      rw [hlen]
      apply sumN_congr
      intro k _
      rw [gR_colScaleFloat, gE_rowScaleE]
      by_cases hk : k = r
      · subst hk
        simp only [if_true]
        grind
      · simp [hk]

/-- `col_scale(matrix, Op_r, c, f)` with `f ≠ 0`. -/
theorem colRel_colScale (n : Nat) (st st' : St) (c : Nat) (f : Rat) (h : st.colScale c f = some st') :
    f ≠ 0 ∧ ColRel n st st' := by
  unfold St.colScale at h
  by_cases hf : f = 0
  · simp [hf] at h
  · simp only [hf, if_false, Option.some.injEq] at h
    subst h
    refine ⟨hf, ?_⟩
    intro hws
    have hlen : (rowScaleFloat st.R c (1 / f)).length = st.R.length := by simp [rowScaleFloat]
    refine ⟨⟨?_, ?_, ?_, ?_⟩, rfl, ?_, ?_, ?_⟩
    · show Rect st.L (colScaleE st.A c f).length
      have : (colScaleE st.A c f).length = st.A.length := by simp [colScaleE]
      rw [this]; exact hws.Lrect
    · show Rect (colScaleE st.A c f) (rowScaleFloat st.R c (1 / f)).length
      rw [hlen]
      exact rect_colScale (fun row => scaleEntry f (row.getD c (Entry.num 0))) hws.Arect c
    · exact rect_rowScale (· * (1 / f)) hws.Rrect c
    · show 0 < (colScaleE st.A c f).length
      have : (colScaleE st.A c f).length = st.A.length := by simp [colScaleE]
      rw [this]; exact hws.Apos
    · show (colScaleE st.A c f).length = st.A.length
      simp [colScaleE]
    · show (rowScaleFloat st.R c (1 / f)).length ≤ st.R.length
      rw [hlen]; exact Nat.le_refl _
    · intro ρ k j
      show sumN (rowScaleFloat st.R c (1 / f)).length
        (fun l => gR (rowScaleFloat st.R c (1 / f)) l j * gE ρ (colScaleE st.A c f) k l) = _
      rw [hlen]
      apply sumN_congr
      intro l _
      rw [gR_rowScaleFloat, gE_colScaleE]
      by_cases hl : l = c
      · subst hl
        simp only [if_true]
        grind
      · simp [hl]

end Ptn.C13
