import Ptn.C13.RowSteps
/-! Column side of C13: every paired column operation preserves the shape and the product
`eval ρ A · R` (core Lean only).  Mirror image of `RowSteps.lean`. -/
namespace Ptn.C13

/-- `(eval ρ A · R)[k][j]` (operator factor written first). -/
def rprod (ρ : Nat → Rat) (s : St) (k j : Nat) : Rat :=
  sumN s.R.length (fun l => gR s.R l j * gE ρ s.A k l)

def rprodMask (ρ : Nat → Rat) (zs : List Nat) (s : St) (k j : Nat) : Rat :=
  sumN s.R.length (fun l => if l ∈ zs then 0 else gR s.R l j * gE ρ s.A k l)

/-- `s'` is reachable from `s` by column operations that preserve shape and `A · R`. -/
def ColRel (n : Nat) (s s' : St) : Prop :=
  WS n s → WS n s' ∧ s'.L = s.L ∧ s'.A.length = s.A.length ∧ s'.R.length ≤ s.R.length ∧
    ∀ ρ k j, rprod ρ s' k j = rprod ρ s k j

theorem ColRel.refl (n : Nat) (s : St) : ColRel n s s :=
  fun h => ⟨h, rfl, rfl, Nat.le_refl _, fun _ _ _ => rfl⟩

theorem ColRel.trans {n : Nat} {s1 s2 s3 : St} (h12 : ColRel n s1 s2) (h23 : ColRel n s2 s3) :
    ColRel n s1 s3 := by
  intro h1
  obtain ⟨w2, r2, l2, a2, p2⟩ := h12 h1
  obtain ⟨w3, r3, l3, a3, p3⟩ := h23 w2
  exact ⟨w3, r3.trans r2, l3.trans l2, Nat.le_trans a3 a2, fun ρ i l => (p3 ρ i l).trans (p2 ρ i l)⟩

theorem colRel_of_eq {n : Nat} {s s' : St} (hL : s'.L = s.L) (hA : s'.A = s.A) (hR : s'.R = s.R) :
    ColRel n s s' := by
  intro h
  refine ⟨⟨by rw [hL, hA]; exact h.Lrect, by rw [hA, hR]; exact h.Arect, by rw [hR]; exact h.Rrect,
    by rw [hA]; exact h.Apos⟩, hL, by rw [hA], by rw [hR]; exact Nat.le_refl _, ?_⟩
  intro ρ i l
  simp only [rprod, hR, hA]

theorem colRel_raise (n : Nat) (s : St) (f : Flag) : ColRel n s (s.raise f) :=
  colRel_of_eq (by simp) (by simp) (by simp)

/-- `col_swap` with both indices in range. -/
theorem colRel_colSwap (n : Nat) (s : St) (a b : Nat) (ha : a < s.R.length) (hb : b < s.R.length) :
    ColRel n s (s.colSwap a b) := by
  intro h
  have hlen : (rowSwapM s.R a b).length = s.R.length := length_rowSwap _ _ _
  refine ⟨⟨?_, ?_, ?_, ?_⟩, rfl, ?_, ?_, ?_⟩
  · show Rect s.L (colSwapM s.A a b).length
    rw [length_colSwap]; exact h.Lrect
  · show Rect (colSwapM s.A a b) (rowSwapM s.R a b).length
    rw [hlen]; exact rect_colSwap h.Arect a b
  · exact rect_rowSwap h.Rrect a b
  · show 0 < (colSwapM s.A a b).length
    rw [length_colSwap]; exact h.Apos
  · exact length_colSwap _ _ _
  · show (rowSwapM s.R a b).length ≤ s.R.length
    rw [hlen]; exact Nat.le_refl _
  · intro ρ k j
    show sumN (rowSwapM s.R a b).length
        (fun l => gR (rowSwapM s.R a b) l j * gE ρ (colSwapM s.A a b) k l) = _
    rw [hlen]
    have e : ∀ l, gR (rowSwapM s.R a b) l j * gE ρ (colSwapM s.A a b) k l
        = gR s.R (swapIdx a b l) j * gE ρ s.A k (swapIdx a b l) := by
      intro l
      simp only [gR, gE, gM_rowSwap 0 s.R a b l j ha hb,
        gM_colSwap (Entry.num 0) s.A s.R.length a b k l h.Arect ha hb]
    rw [sumN_congr (fun l _ => e l)]
    exact pair_swap s.R.length a b (fun l => gR s.R l j) (fun l => gE ρ s.A k l) ha hb

/-- `col_add`: shape, product, which columns change, soundness of the zero flag. -/
theorem colAdd_spec (n : Nat) (st : St) (t s : Nat) (f : Rat) (ht : t < st.R.length)
    (hs : s < st.R.length) (hts : t ≠ s) (h : WS n st) :
    ColRel n st (st.colAdd t s f).1 ∧
    (st.colAdd t s f).1.R.length = st.R.length ∧
    (∀ ρ k l, l ≠ t → gE ρ (st.colAdd t s f).1.A k l = gE ρ st.A k l) ∧
    ((st.colAdd t s f).2 = true → ∀ ρ k, gE ρ (st.colAdd t s f).1.A k t = 0) := by
  unfold St.colAdd
  cases hr : colAddRaw st.A t s f with
  | none =>
    exact ⟨ColRel.refl n st, rfl, fun _ _ _ _ => rfl, fun hz => by simp at hz⟩
  | some p =>
    obtain ⟨A', z⟩ := p
    have spec := fun ρ => colAddRaw_spec ρ hr h.Arect ht
    obtain ⟨hlen, hrect, _, _⟩ := spec (fun _ => 0)
    have hRlen : (rowAddFloat st.R s t (-f)).length = st.R.length := length_rowAddFloat _ _ _ _
    refine ⟨?_, hRlen, ?_, ?_⟩
    · intro _
      refine ⟨⟨?_, ?_, ?_, ?_⟩, rfl, hlen, ?_, ?_⟩
      · show Rect st.L A'.length
        rw [hlen]; exact h.Lrect
      · show Rect A' (rowAddFloat st.R s t (-f)).length
        rw [hRlen]; exact hrect
      · exact rect_rowAddFloat h.Rrect s t (-f) hs ht
      · show 0 < A'.length
        rw [hlen]; exact h.Apos
      · show (rowAddFloat st.R s t (-f)).length ≤ st.R.length
        rw [hRlen]; exact Nat.le_refl _
      · intro ρ k j
        show sumN (rowAddFloat st.R s t (-f)).length
          (fun l => gR (rowAddFloat st.R s t (-f)) l j * gE ρ A' k l) = _
        rw [hRlen]
        obtain ⟨_, _, hview, _⟩ := spec ρ
        have e : ∀ l, gR (rowAddFloat st.R s t (-f)) l j * gE ρ A' k l
            = (if l = s then gR st.R s j + (-f) * gR st.R t j else gR st.R l j)
              * (if l = t then gE ρ st.A k t + f * gE ρ st.A k s else gE ρ st.A k l) := by
          intro l
          rw [gR_rowAddFloat st.R n s t (-f) h.Rrect hs ht l j, hview k l]
        rw [sumN_congr (fun l _ => e l)]
        exact pair_add st.R.length t s f (fun l => gR st.R l j) (fun l => gE ρ st.A k l) ht hs hts
    · intro ρ k l hl
      obtain ⟨_, _, hview, _⟩ := spec ρ
      rw [hview k l]; simp [hl]
    · intro hz ρ k
      obtain ⟨_, _, _, hzero⟩ := spec ρ
      exact hzero hz k

/-! ### deletion of columns -/

theorem delCols_cons (s : St) (z : Nat) (zs : List Nat) :
    s.delCols (z :: zs) = St.delCols { s with A := delCol s.A z, R := delRow s.R z } zs := rfl

theorem delCols_spec (n : Nat) : ∀ (zs : List Nat) (s : St),
    List.Pairwise (fun a b => b < a) zs → (∀ z, z ∈ zs → z < s.R.length) →
    Rect s.A s.R.length → Rect s.R n →
    (s.delCols zs).R.length + zs.length = s.R.length ∧
    Rect (s.delCols zs).A (s.delCols zs).R.length ∧
    Rect (s.delCols zs).R n ∧
    (s.delCols zs).L = s.L ∧ (s.delCols zs).A.length = s.A.length ∧
    ∀ ρ k j, rprod ρ (s.delCols zs) k j = rprodMask ρ zs s k j := by
  intro zs
  induction zs with
  | nil =>
    intro s _ _ hA hR
    refine ⟨rfl, hA, hR, rfl, rfl, fun ρ i l => ?_⟩
    simp [St.delCols, rprod, rprodMask]
  | cons z zs ih =>
    intro s hp hlt hA hR
    have hz : z < s.R.length := hlt z (by simp)
    have hp' := List.pairwise_cons.mp hp
    let s1 : St := { s with A := delCol s.A z, R := delRow s.R z }
    have hlen1 : s1.R.length + 1 = s.R.length := length_delRow s.R z hz
    have hA1 : Rect s1.A s1.R.length := by
      have : Rect s.A (s1.R.length + 1) := by rw [hlen1]; exact hA
      exact rect_delCol this z (by omega)
    have hR1 : Rect s1.R n := rect_delRow hR z
    have hlt1 : ∀ y, y ∈ zs → y < s1.R.length := by
      intro y hy
      have := hp'.1 y hy
      omega
    obtain ⟨c1, c2, c3, c4, c5, c6⟩ := ih s1 hp'.2 hlt1 hA1 hR1
    have hcons : s.delCols (z :: zs) = s1.delCols zs := rfl
    rw [hcons]
    refine ⟨?_, c2, c3, c4, ?_, ?_⟩
    · simp only [List.length_cons]; omega
    · rw [c5]; exact length_delCol _ _
    · intro ρ k j
      rw [c6 ρ k j]
      show sumN s1.R.length (fun l => if l ∈ zs then 0 else gR (delRow s.R z) l j * gE ρ (delCol s.A z) k l)
        = sumN s.R.length (fun l => if l ∈ z :: zs then 0 else gR s.R l j * gE ρ s.A k l)
      have e : ∀ l, (if l ∈ zs then (0 : Rat) else gR (delRow s.R z) l j * gE ρ (delCol s.A z) k l)
          = (if l ∈ zs then 0 else (fun l => gR s.R l j * gE ρ s.A k l) (skipIdx z l)) := by
        intro l
        simp only [gR, gE, gM_delCol, gM_delRow]
      rw [sumN_congr (fun l _ => e l), ← hlen1]
      exact pair_skip_mask s1.R.length z zs (fun l => gR s.R l j * gE ρ s.A k l) (by omega) hp'.1

theorem rprodMask_congr (ρ : Nat → Rat) {zs zs' : List Nat} (s : St) (h : ∀ k, k ∈ zs ↔ k ∈ zs')
    (k j : Nat) : rprodMask ρ zs s k j = rprodMask ρ zs' s k j := by
  simp only [rprodMask]
  apply sumN_congr
  intro l _
  by_cases hl : l ∈ zs
  · simp [hl, (h l).mp hl]
  · have : ¬ l ∈ zs' := fun h' => hl ((h l).mpr h')
    simp [hl, this]

theorem rprodMask_of_zero (ρ : Nat → Rat) (zs : List Nat) (s : St)
    (hz : ∀ z, z ∈ zs → ∀ k, gE ρ s.A k z = 0) (k j : Nat) :
    rprodMask ρ zs s k j = rprod ρ s k j := by
  simp only [rprodMask, rprod]
  apply sumN_congr
  intro l _
  by_cases hl : l ∈ zs
  · simp only [hl, if_true, hz l hl k]; grind
  · simp [hl]

theorem colRel_delCols_zero (n : Nat) (s : St) (zs : List Nat) (hnd : zs.Nodup)
    (hlt : ∀ z, z ∈ zs → z < s.R.length)
    (hz : ∀ ρ z, z ∈ zs → ∀ k, gE ρ s.A k z = 0) : ColRel n s (s.delCols (sortDesc zs)) := by
  intro h
  obtain ⟨c1, c2, c3, c4, c5, c6⟩ := delCols_spec n (sortDesc zs) s (pairwise_sortDesc hnd)
    (fun z hz' => hlt z (mem_sortDesc.mp hz')) h.Arect h.Rrect
  rw [length_sortDesc] at c1
  refine ⟨⟨by rw [c4, c5]; exact h.Lrect, c2, c3, by rw [c5]; exact h.Apos⟩, c4, c5, by omega, ?_⟩
  intro ρ k j
  rw [c6 ρ k j, rprodMask_congr ρ s (fun k => mem_sortDesc) k j]
  exact rprodMask_of_zero ρ zs s (hz ρ) k j

/-! ### `column_elimination` -/

theorem colPivot_spec (n : Nat) (j : Nat) (s : St) (hj : j < s.R.length) (hws : WS n s) :
    ColRel n s (colPivot j s) ∧ (colPivot j s).R.length = s.R.length := by
  unfold colPivot
  split
  · split
    · rename_i i hi
      have hm := List.mem_of_find?_eq_some hi
      simp only [List.mem_range'_1, width_eq hws] at hm
      exact ⟨colRel_colSwap n s j i hj (by omega), length_rowSwap _ _ _⟩
    · exact ⟨ColRel.refl n s, rfl⟩
  · exact ⟨ColRel.refl n s, rfl⟩

/-- Invariant of the `while i < len(matrix[0])` loop of `column_elimination`. -/
structure ColInnerInv (n j : Nat) (s1 : St) (i : Nat) (acc : St × List Nat) : Prop where
  ws : WS n acc.1
  rel : ColRel n s1 acc.1
  len : acc.1.R.length = s1.R.length
  nd : acc.2.Nodup
  zs : ∀ z, z ∈ acc.2 → z < i ∧ z ≠ j ∧ ∀ ρ k, gE ρ acc.1.A k z = 0

theorem colElimInner_inv (n j : Nat) (pivot : Entry) (s1 : St) (hj : j < s1.R.length)
    (i : Nat) (acc : St × List Nat) (hi : i < s1.R.length) (h : ColInnerInv n j s1 i acc) :
    ColInnerInv n j s1 (i + 1) (colElimInner j pivot acc i) := by
  have keep : ColInnerInv n j s1 (i + 1) acc :=
    ⟨h.ws, h.rel, h.len, h.nd, fun z hz => ⟨by have := (h.zs z hz).1; omega, (h.zs z hz).2⟩⟩
  unfold colElimInner
  simp only
  split
  · rename_i hc
    split
    · exact keep
    · rename_i f zd _
      generalize hst : (if zd = true then acc.1.raise Flag.zeroDiv else acc.1) = st'
      have hL : st'.L = acc.1.L := by subst hst; split <;> simp
      have hA : st'.A = acc.1.A := by subst hst; split <;> simp
      have hR : st'.R = acc.1.R := by subst hst; split <;> simp
      have hrel' : ColRel n acc.1 st' := colRel_of_eq hL hA hR
      have ws' : WS n st' := (hrel' h.ws).1
      have hij : i ≠ j := hc.1
      have hi' : i < st'.R.length := by rw [hR, h.len]; exact hi
      have hj' : j < st'.R.length := by rw [hR, h.len]; exact hj
      obtain ⟨r1, r2, r3, r4⟩ := colAdd_spec n st' i j f hi' hj' hij ws'
      have relNew : ColRel n s1 (st'.colAdd i j f).1 := (h.rel.trans hrel').trans r1
      have lenNew : (st'.colAdd i j f).1.R.length = s1.R.length := by rw [r2, hR, h.len]
      have old : ∀ z, z ∈ acc.2 → z < i + 1 ∧ z ≠ j ∧ ∀ ρ k, gE ρ (st'.colAdd i j f).1.A k z = 0 := by
        intro z hz
        obtain ⟨z1, z2, z3⟩ := h.zs z hz
        refine ⟨by omega, z2, fun ρ k => ?_⟩
        rw [r3 ρ k z (by omega), hA]
        exact z3 ρ k
      refine ⟨(r1 ws').1, relNew, lenNew, ?_, ?_⟩
      · show (if (st'.colAdd i j f).2 = true then acc.2 ++ [i] else acc.2).Nodup
        split
        · rw [List.nodup_append]
          refine ⟨h.nd, by simp, ?_⟩
          intro a ha b hb
          simp only [List.mem_singleton] at hb
          have := (h.zs a ha).1
          omega
        · exact h.nd
      · show ∀ z, z ∈ (if (st'.colAdd i j f).2 = true then acc.2 ++ [i] else acc.2) → _
        intro z hz
        split at hz
        · rename_i hzero
          rcases List.mem_append.mp hz with hz | hz
          · exact old z hz
          · simp only [List.mem_singleton] at hz
            subst hz
            exact ⟨by omega, hij, fun ρ k => r4 hzero ρ k⟩
        · exact old z hz
  · exact keep

theorem colRel_colElimStep (n j : Nat) (s : St) (hj : j < s.R.length) :
    ColRel n s (colElimStep j s) := by
  intro hws
  obtain ⟨p1, p2⟩ := colPivot_spec n j s hj hws
  have ws1 : WS n (colPivot j s) := (p1 hws).1
  unfold colElimStep
  simp only
  split
  · exact p1 hws
  · rename_i hpz
    have hj1 : j < (colPivot j s).R.length := by rw [p2]; exact hj
    have inv := foldl_range_inv
      (colElimInner j (gM (Entry.num 0) (colPivot j s).A j j))
      (ColInnerInv n j (colPivot j s)) (colPivot j s).R.length (colPivot j s, [])
      ⟨ws1, ColRel.refl n _, rfl, List.nodup_nil, fun z hz => by simp at hz⟩
      (fun i acc hi hinv => colElimInner_inv n j _ (colPivot j s) hj1 i acc hi hinv)
    rw [width_eq ws1]
    generalize (List.range (colPivot j s).R.length).foldl
      (colElimInner j (gM (Entry.num 0) (colPivot j s).A j j)) (colPivot j s, []) = r at inv
    have hdel := colRel_delCols_zero n r.1 r.2 inv.nd
      (fun z hz => by rw [inv.len]; exact (inv.zs z hz).1)
      (fun ρ z hz k => (inv.zs z hz).2.2 ρ k)
    exact ((p1.trans inv.rel).trans hdel) hws

theorem colRel_colElimLoop (n : Nat) : ∀ (fuel j : Nat) (s : St), ColRel n s (colElimLoop fuel j s) := by
  intro fuel
  induction fuel with
  | zero =>
    intro j s
    unfold colElimLoop
    split
    · exact colRel_raise n s _
    · exact ColRel.refl n s
  | succ fuel ih =>
    intro j s
    unfold colElimLoop
    split
    · rename_i hc
      intro hws
      rw [width_eq hws] at hc
      exact ((colRel_colElimStep n j s (by omega)).trans (ih (j + 1) _)) hws
    · exact ColRel.refl n s

theorem colRel_columnElimination (n : Nat) (s : St) : ColRel n s (columnElimination s) :=
  colRel_colElimLoop n _ 0 s

/-! ### `deparallelize_cols` -/

structure DeparColInv (n : Nat) (s : St) (acc : St × List Nat) : Prop where
  hA : acc.1.A = s.A
  hL : acc.1.L = s.L
  Rrect : Rect acc.1.R n
  Rlen : acc.1.R.length = s.R.length
  nd : acc.2.Nodup
  rng : ∀ z, z ∈ acc.2 → 0 < z ∧ z < s.R.length
  prod : ∀ ρ k x, rprodMask ρ acc.2 acc.1 k x = rprod ρ s k x

theorem deparColsInner_inv (n : Nat) (s : St) (hws : WS n s) (hnes : NESM s.A) (i j : Nat)
    (hij : i < j) (hj : j < s.R.length) (acc : St × List Nat)
    (h : DeparColInv n s acc ∧ i ∉ acc.2) :
    DeparColInv n s (deparColsInner s.A i acc j) ∧ i ∉ (deparColsInner s.A i acc j).2 := by
  obtain ⟨hinv, hiz⟩ := h
  unfold deparColsInner
  split
  · exact ⟨hinv, hiz⟩
  · rename_i hjz
    simp only
    split
    · rename_i hmult
      have hi : i < s.R.length := by omega
      have hi' : i < acc.1.R.length := by rw [hinv.Rlen]; exact hi
      have hj' : j < acc.1.R.length := by rw [hinv.Rlen]; exact hj
      refine ⟨⟨hinv.hA, hinv.hL, rect_rowAddFloat hinv.Rrect _ _ _ hi' hj', ?_, ?_, ?_, ?_⟩, ?_⟩
      · show (rowAddFloat acc.1.R i j _).length = s.R.length
        rw [length_rowAddFloat]; exact hinv.Rlen
      · show (acc.2 ++ [j]).Nodup
        rw [List.nodup_append]
        refine ⟨hinv.nd, by simp, ?_⟩
        intro a ha b hb
        simp only [List.mem_singleton] at hb
        subst hb
        exact fun e => hjz (e ▸ ha)
      · intro z hz
        rcases List.mem_append.mp hz with hz | hz
        · exact hinv.rng z hz
        · simp only [List.mem_singleton] at hz
          subst hz
          exact ⟨by omega, hj⟩
      · intro ρ k x
        rw [← hinv.prod ρ k x]
        show sumN (rowAddFloat acc.1.R i j (areParallelCol s.A i j)).length
            (fun l => if l ∈ acc.2 ++ [j] then 0
              else gR (rowAddFloat acc.1.R i j (areParallelCol s.A i j)) l x * gE ρ acc.1.A k l)
          = sumN acc.1.R.length (fun l => if l ∈ acc.2 then 0 else gR acc.1.R l x * gE ρ acc.1.A k l)
        rw [length_rowAddFloat, hinv.hA]
        have e : ∀ l, (if l ∈ acc.2 ++ [j] then (0 : Rat)
            else gR (rowAddFloat acc.1.R i j (areParallelCol s.A i j)) l x * gE ρ s.A k l)
            = (if l ∈ acc.2 ++ [j] then 0
                else (if l = i then gR acc.1.R i x + areParallelCol s.A i j * gR acc.1.R j x
                  else gR acc.1.R l x) * gE ρ s.A k l) := by
          intro l
          rw [gR_rowAddFloat acc.1.R n i j _ hinv.Rrect hi' hj' l x]
        rw [sumN_congr (fun l _ => e l), hinv.Rlen]
        exact pair_merge s.R.length i j _ acc.2 (fun l => gR acc.1.R l x) (fun l => gE ρ s.A k l)
          hi hj (by omega) hiz hjz
          (areParallelCol_sound ρ hws.Arect hnes hi hj rfl hmult k)
      · show i ∉ acc.2 ++ [j]
        intro hm
        rcases List.mem_append.mp hm with hm | hm
        · exact hiz hm
        · simp only [List.mem_singleton] at hm
          omega
    · exact ⟨hinv, hiz⟩

theorem deparColsOuter_inv (n : Nat) (s : St) (hws : WS n s) (hnes : NESM s.A) (i : Nat)
    (acc : St × List Nat) (h : DeparColInv n s acc) : DeparColInv n s (deparColsOuter s.A acc i) := by
  unfold deparColsOuter
  split
  · exact h
  · rename_i hiz
    have := foldl_mem_inv (deparColsInner s.A i) (fun acc => DeparColInv n s acc ∧ i ∉ acc.2)
      (List.range' (i + 1) (width s.A - (i + 1))) acc ⟨h, hiz⟩
      (fun j acc hj hp => by
        simp only [List.mem_range'_1, width_eq hws] at hj
        exact deparColsInner_inv n s hws hnes i j (by omega) (by omega) acc hp)
    exact this.1

theorem deparCols_loop_inv (n : Nat) (s : St) (hws : WS n s) (hnes : NESM s.A) :
    DeparColInv n s ((List.range (width s.A)).foldl (deparColsOuter s.A) (s, [])) := by
  apply foldl_mem_inv (deparColsOuter s.A) (DeparColInv n s)
  · refine ⟨rfl, rfl, hws.Rrect, rfl, List.nodup_nil, fun z hz => by simp at hz, fun ρ x l => ?_⟩
    simp [rprodMask, rprod]
  · intro i acc _ hp
    exact deparColsOuter_inv n s hws hnes i acc hp

theorem colRel_deparallelizeCols (n : Nat) (s : St) (hnes : NESM s.A) :
    ColRel n s (deparallelizeCols s) := by
  intro hws
  have inv := deparCols_loop_inv n s hws hnes
  unfold deparallelizeCols
  simp only
  generalize (List.range (width s.A)).foldl (deparColsOuter s.A) (s, []) = r at inv
  obtain ⟨c1, c2, c3, c4, c5, c6⟩ := delCols_spec n (sortDesc r.2) r.1 (pairwise_sortDesc inv.nd)
    (fun z hz => by rw [inv.Rlen]; exact (inv.rng z (mem_sortDesc.mp hz)).2)
    (by rw [inv.hA, inv.Rlen]; exact hws.Arect) inv.Rrect
  rw [length_sortDesc] at c1
  refine ⟨⟨?_, c2, c3, ?_⟩, by rw [c4, inv.hL], by rw [c5, inv.hA], by rw [← inv.Rlen]; omega, ?_⟩
  · rw [c4, c5, inv.hL, inv.hA]; exact hws.Lrect
  · rw [c5, inv.hA]; exact hws.Apos
  · intro ρ k j
    rw [c6 ρ k j, rprodMask_congr ρ r.1 (fun k => mem_sortDesc) k j]
    exact inv.prod ρ k j

end Ptn.C13
