import Ptn.C13.Model
/-! Checked model for property C13 (core Lean only; no Mathlib).

A second, independent port of `pytreenet/ttno/symbolic_gaussian_elimination_fraction.py` in which **every
access the Python code performs by index** (`l[i]`, `l[i] = v`, `del l[i]`, `matrix[0]`) is an explicit
operation of the monad `Chk = Except Err` that answers `Err.index` (Python: `IndexError`) when the index is
out of range.  Nothing is totalised with a default: there is no `getD`, `[i]!`, `headD` and no default
branch standing for an out-of-range access in this file.  Exceptions abort the computation exactly as in
Python (first exception wins, later statements are not executed):

* `Err.index`    `IndexError` of a subscript, a subscript assignment or a `del`,
* `Err.zeroDiv`  `ZeroDivisionError` of `-x / pivot[0]` (and of `1/factor` in `row_scale/col_scale`),
* `Err.fuel`     the fuel replacing a `while` loop ran out (never happens on rectangular input, see
                 `CheckedProps`).

The order of the accesses follows the Python text where it can matter (early `return (False, False)` of
`_row_add/_col_add` before a later position is touched, early `return 0` of `are_parallel_col`, `break` of
the pivot search, short-circuit `j != i and matrix[j][i] != 0`).  Pure entry arithmetic (`addEntry`,
`elimFactor`, `Entry.isZero`, `areParallelRow` on two rows - `zip` never raises) is shared with `Model`.
The state is `St` of `Model` with `flag = .ok` throughout (the flag is not used by the checked model). -/
namespace Ptn.C13

inductive Err where
  | index | zeroDiv | fuel
  deriving DecidableEq, Repr

abbrev Chk := Except Err

deriving instance DecidableEq for Except

/-! ### checked list primitives -/

/-- `l[i]` -/
def getC {α : Type} (l : List α) (i : Nat) : Chk α :=
  match l[i]? with
  | some a => .ok a
  | none => .error .index

/-- `l[i] = v` -/
def setC {α : Type} (l : List α) (i : Nat) (v : α) : Chk (List α) :=
  if i < l.length then .ok (l.set i v) else .error .index

/-- `del l[i]` -/
def delC {α : Type} (l : List α) (i : Nat) : Chk (List α) :=
  if i < l.length then .ok (l.eraseIdx i) else .error .index

/-- `X[i][j]` -/
def gMC {α : Type} (X : List (List α)) (i j : Nat) : Chk α :=
  match getC X i with
  | .ok r => getC r j
  | .error e => .error e

/-- `len(matrix[0])` -/
def widthC {α : Type} (X : List (List α)) : Chk Nat :=
  match X with
  | [] => .error .index
  | r :: _ => .ok r.length

/-- `for x in l: …` building a list; stops at the first exception. -/
def mapC {α β : Type} (f : α → Chk β) : List α → Chk (List β)
  | [] => .ok []
  | a :: as =>
    match f a with
    | .error e => .error e
    | .ok b =>
      match mapC f as with
      | .error e => .error e
      | .ok bs => .ok (b :: bs)

/-- `for x in l: …` threading a state; stops at the first exception. -/
def foldC {σ β : Type} (f : σ → β → Chk σ) : σ → List β → Chk σ
  | s, [] => .ok s
  | s, b :: bs =>
    match f s b with
    | .error e => .error e
    | .ok s' => foldC f s' bs

/-- `l[i], l[j] = l[j], l[i]` (right-hand side first: `l[j]`, then `l[i]`; then the two assignments). -/
def listSwapC {α : Type} (l : List α) (i j : Nat) : Chk (List α) := do
  let b ← getC l j
  let a ← getC l i
  let l1 ← setC l i b
  setC l1 j a

/-- `_row_swap`. -/
def rowSwapMC {α : Type} (X : List (List α)) (i j : Nat) : Chk (List (List α)) := listSwapC X i j

/-- `_col_swap`. -/
def colSwapMC {α : Type} (X : List (List α)) (i j : Nat) : Chk (List (List α)) :=
  mapC (listSwapC · i j) X

/-- `for row in matrix: del row[z]`. -/
def delColC {α : Type} (X : List (List α)) (z : Nat) : Chk (List (List α)) := mapC (delC · z) X

/-! ### operations on the operator matrices -/

/-- `_col_add_float`: per row `source_entry = row[s]`, then `row[t] += factor * source_entry`. -/
def colAddFloatC (X : RMat) (t s : Nat) (f : Rat) : Chk RMat :=
  mapC (fun row => do
    let src ← getC row s
    let tgt ← getC row t
    setC row t (tgt + f * src)) X

/-- The loop `for i in range(len(matrix[t])): matrix[t][i] += factor * matrix[s][i]` on the two rows. -/
def zipAddC (f : Rat) : List Rat → List Rat → Chk (List Rat)
  | [], _ => .ok []
  | _ :: _, [] => .error .index
  | a :: as, b :: bs =>
    match zipAddC f as bs with
    | .error e => .error e
    | .ok r => .ok ((a + f * b) :: r)

/-- `_row_add_float`: `matrix[t]` is read for its length; `matrix[s]` only inside the loop. -/
def rowAddFloatC (X : RMat) (t s : Nat) (f : Rat) : Chk RMat := do
  let rt ← getC X t
  let new ← match rt with
    | [] => pure []
    | _ :: _ => do
      let rs ← getC X s
      zipAddC f rt rs
  setC X t new

/-- `_row_scale` on an operator matrix. -/
def rowScaleFloatC (X : RMat) (r : Nat) (f : Rat) : Chk RMat := do
  let rr ← getC X r
  setC X r (rr.map (· * f))

/-- `_col_scale` on an operator matrix. -/
def colScaleFloatC (X : RMat) (c : Nat) (f : Rat) : Chk RMat :=
  mapC (fun row => do
    let e ← getC row c
    setC row c (e * f)) X

/-! ### `_row_add` / `_col_add` -/

/-- The loop of `_row_add`: position by position `matrix[s][i]` (may raise), the case analysis (may
    `return (False, False)` at once), then the next position. -/
def addLineC (f : Rat) : List Entry → List Entry → Chk (Option (List Entry))
  | [], _ => .ok (some [])
  | _ :: _, [] => .error .index
  | t :: ts, s :: ss =>
    match addEntry f t s with
    | none => .ok none
    | some e =>
      match addLineC f ts ss with
      | .error err => .error err
      | .ok none => .ok none
      | .ok (some es) => .ok (some (e :: es))

/-- The loop of `_row_add` on the target row `rt`: `matrix[source_row]` is evaluated inside the loop
    only, i.e. not at all when the target row is empty. -/
def addLineOfC (A : EMat) (rt : List Entry) (s : Nat) (f : Rat) : Chk (Option (List Entry)) :=
  match rt with
  | [] => .ok (some [])
  | _ :: _ =>
    match getC A s with
    | .error err => .error err
    | .ok rs => addLineC f rt rs

/-- `_row_add(matrix, target_row, source_row, factor)`. -/
def rowAddRawC (A : EMat) (t s : Nat) (f : Rat) : Chk (Option (EMat × Bool)) := do
  let rt ← getC A t
  let res ← addLineOfC A rt s f
  match res with
  | none => pure none
  | some r => do
    let A' ← setC A t r
    pure (some (A', r.all Entry.isZero))

/-- The loop of `_col_add` over the rows: `row[s]`, `row[t]`, the case analysis (early return). -/
def addColC (f : Rat) (t s : Nat) : EMat → Chk (Option (List Entry))
  | [] => .ok (some [])
  | row :: rest =>
    match getC row s with
    | .error err => .error err
    | .ok se =>
      match getC row t with
      | .error err => .error err
      | .ok te =>
        match addEntry f te se with
        | none => .ok none
        | some e =>
          match addColC f t s rest with
          | .error err => .error err
          | .ok none => .ok none
          | .ok (some es) => .ok (some (e :: es))

/-- `for i, row in enumerate(matrix): row[t] = new_col[i]`. -/
def setColC (t : Nat) : EMat → List Entry → Chk EMat
  | row :: rest, e :: es =>
    match setC row t e with
    | .error err => .error err
    | .ok row' =>
      match setColC t rest es with
      | .error err => .error err
      | .ok rest' => .ok (row' :: rest')
  | _, _ => .ok []

/-- `_col_add(matrix, target_col, source_col, factor)`: first `new_col = [row[t] for row in matrix]`. -/
def colAddRawC (A : EMat) (t s : Nat) (f : Rat) : Chk (Option (EMat × Bool)) := do
  let _ ← mapC (fun row => getC row t) A
  let res ← addColC f t s A
  match res with
  | none => pure none
  | some c => do
    let A' ← setColC t A c
    pure (some (A', c.all Entry.isZero))

/-! ### scaling (present in the file, not used by `gaussian_elimination`) -/

def rowScaleEC (A : EMat) (r : Nat) (f : Rat) : Chk EMat := do
  let rr ← getC A r
  setC A r (rr.map (scaleEntry f))

def colScaleEC (A : EMat) (c : Nat) (f : Rat) : Chk EMat :=
  mapC (fun row => do
    let e ← getC row c
    setC row c (scaleEntry f e)) A

/-! ### `are_parallel_col` -/

/-- Loop of `are_parallel_col` over the rows: `row[col1]`, `row[col2]`, then the tests. -/
def parColLoopC (c1 c2 : Nat) : Rat → EMat → Chk Rat
  | ratio, [] => .ok ratio
  | ratio, row :: rest =>
    match getC row c1 with
    | .error err => .error err
    | .ok a =>
      match getC row c2 with
      | .error err => .error err
      | .ok b =>
        if a.var ≠ b.var then .ok 0
        else if a.coeff = 0 ∧ b.coeff = 0 then parColLoopC c1 c2 ratio rest
        else if a.coeff = 0 ∨ b.coeff = 0 then .ok 0
        else
          let cur := b.coeff / a.coeff
          if ratio = 0 then parColLoopC c1 c2 cur rest
          else if cur ≠ ratio then .ok 0
          else parColLoopC c1 c2 ratio rest

def areParallelColC (A : EMat) (c1 c2 : Nat) : Chk Rat := parColLoopC c1 c2 0 A

/-! ### paired operations on the state -/

/-- `row_swap`. -/
def St.rowSwapC (s : St) (i j : Nat) : Chk St := do
  let A' ← rowSwapMC s.A i j
  let L' ← colSwapMC s.L i j
  pure { s with A := A', L := L' }

/-- `col_swap`. -/
def St.colSwapC (s : St) (i j : Nat) : Chk St := do
  let A' ← colSwapMC s.A i j
  let R' ← rowSwapMC s.R i j
  pure { s with A := A', R := R' }

/-- `row_add`. -/
def St.rowAddC (st : St) (t s : Nat) (f : Rat) : Chk (St × Bool) := do
  let r ← rowAddRawC st.A t s f
  match r with
  | none => pure (st, false)
  | some (A', z) => do
    let L' ← colAddFloatC st.L s t (-f)
    pure ({ st with A := A', L := L' }, z)

/-- `col_add`. -/
def St.colAddC (st : St) (t s : Nat) (f : Rat) : Chk (St × Bool) := do
  let r ← colAddRawC st.A t s f
  match r with
  | none => pure (st, false)
  | some (A', z) => do
    let R' ← rowAddFloatC st.R s t (-f)
    pure ({ st with A := A', R := R' }, z)

/-- `row_scale`: `_row_scale` (may raise `IndexError`), then `1/factor` (may raise `ZeroDivisionError`),
    then `_col_scale`. -/
def St.rowScaleC (st : St) (r : Nat) (f : Rat) : Chk St := do
  let A' ← rowScaleEC st.A r f
  if f = 0 then throw .zeroDiv
  else do
    let L' ← colScaleFloatC st.L r (1 / f)
    pure { st with A := A', L := L' }

/-- `col_scale`. -/
def St.colScaleC (st : St) (c : Nat) (f : Rat) : Chk St := do
  let A' ← colScaleEC st.A c f
  if f = 0 then throw .zeroDiv
  else do
    let R' ← rowScaleFloatC st.R c (1 / f)
    pure { st with A := A', R := R' }

/-- `for row_0 in zs: del matrix[row_0]; for row in Op_l: del row[row_0]`. -/
def St.delRowsC (s : St) (zs : List Nat) : Chk St :=
  foldC (fun s z => do
    let A' ← delC s.A z
    let L' ← delColC s.L z
    pure { s with A := A', L := L' }) s zs

/-- `for col_0 in zs: (for row in matrix: del row[col_0]); del Op_r[col_0]`. -/
def St.delColsC (s : St) (zs : List Nat) : Chk St :=
  foldC (fun s z => do
    let A' ← delColC s.A z
    let R' ← delC s.R z
    pure { s with A := A', R := R' }) s zs

/-! ### deparallelisation -/

def deparRowsInnerC (A : EMat) (i : Nat) (acc : St × List Nat) (j : Nat) : Chk (St × List Nat) :=
  if j ∈ acc.2 then pure acc
  else do
    let ri ← getC A i
    let rj ← getC A j
    let mult := areParallelRow ri rj
    if mult ≠ 0 then do
      let L' ← colAddFloatC acc.1.L i j mult
      pure ({ acc.1 with L := L' }, acc.2 ++ [j])
    else pure acc

def deparRowsOuterC (A : EMat) (acc : St × List Nat) (i : Nat) : Chk (St × List Nat) :=
  if i ∈ acc.2 then pure acc
  else foldC (deparRowsInnerC A i) acc (List.range' (i + 1) (A.length - (i + 1)))

/-- `deparallelize_rows(Op_l, matrix)`. -/
def deparallelizeRowsC (s : St) : Chk St := do
  let r ← foldC (deparRowsOuterC s.A) (s, []) (List.range s.A.length)
  r.1.delRowsC (sortDesc r.2)

def deparColsInnerC (A : EMat) (i : Nat) (acc : St × List Nat) (j : Nat) : Chk (St × List Nat) :=
  if j ∈ acc.2 then pure acc
  else do
    let mult ← areParallelColC A i j
    if mult ≠ 0 then do
      let R' ← rowAddFloatC acc.1.R i j mult
      pure ({ acc.1 with R := R' }, acc.2 ++ [j])
    else pure acc

/-- One pass of `for i in range(len(matrix[0]))`; `len(matrix[0])` is evaluated again for the inner range. -/
def deparColsOuterC (A : EMat) (acc : St × List Nat) (i : Nat) : Chk (St × List Nat) :=
  if i ∈ acc.2 then pure acc
  else do
    let w ← widthC A
    foldC (deparColsInnerC A i) acc (List.range' (i + 1) (w - (i + 1)))

/-- `deparallelize_cols(Op_r, matrix)`. -/
def deparallelizeColsC (s : St) : Chk St := do
  let w ← widthC s.A
  let r ← foldC (deparColsOuterC s.A) (s, []) (List.range w)
  r.1.delColsC (sortDesc r.2)

/-! ### elimination -/

/-- `for j in …: if get(j) != 0: …; break` - the first index whose entry is non-zero. -/
def findNzC (get : Nat → Chk Entry) : List Nat → Chk (Option Nat)
  | [] => .ok none
  | j :: js =>
    match get j with
    | .error err => .error err
    | .ok e => if !e.isZero then .ok (some j) else findNzC get js

/-- Body of `while j < len(matrix)` in `row_elimination`: `j != i and matrix[j][i] != 0` short-circuits. -/
def rowElimInnerC (i : Nat) (pivot : Entry) (acc : St × List Nat) (j : Nat) : Chk (St × List Nat) :=
  if j ≠ i then do
    let e ← gMC acc.1.A j i
    if !e.isZero then
      match elimFactor pivot e with
      | none => pure acc
      | some (f, zd) =>
        if zd then throw .zeroDiv
        else do
          let r ← acc.1.rowAddC j i f
          pure (r.1, if r.2 then acc.2 ++ [j] else acc.2)
    else pure acc
  else pure acc

/-- The pivot search at the head of the body of `while i < min(...)`. -/
def rowPivotC (i : Nat) (s : St) : Chk St := do
  let d ← gMC s.A i i
  if d.isZero then do
    let r ← findNzC (fun j => gMC s.A j i) (List.range' (i + 1) (s.A.length - (i + 1)))
    match r with
    | some j => s.rowSwapC i j
    | none => pure s
  else pure s

/-- One pass of the body of `while i < min(len(matrix), len(matrix[0]))` in `row_elimination`. -/
def rowElimStepC (i : Nat) (s : St) : Chk St := do
  let s1 ← rowPivotC i s
  let pivot ← gMC s1.A i i
  if pivot.isZero then pure s1
  else do
    let r ← foldC (rowElimInnerC i pivot) (s1, []) (List.range s1.A.length)
    r.1.delRowsC (sortDesc r.2)

/-- `while i < min(len(matrix), len(matrix[0]))` with fuel. -/
def rowElimLoopC : Nat → Nat → St → Chk St
  | 0, i, s => do
    let w ← widthC s.A
    if i < min s.A.length w then throw .fuel else pure s
  | fuel + 1, i, s => do
    let w ← widthC s.A
    if i < min s.A.length w then do
      let s' ← rowElimStepC i s
      rowElimLoopC fuel (i + 1) s'
    else pure s

/-- `row_elimination(Op_l, matrix)`; `i` grows by one per pass and `len(matrix)` never grows, so
    `len(matrix)` passes always suffice (also on ragged input). -/
def rowEliminationC (s : St) : Chk St := rowElimLoopC s.A.length 0 s

def colElimInnerC (j : Nat) (pivot : Entry) (acc : St × List Nat) (i : Nat) : Chk (St × List Nat) :=
  if i ≠ j then do
    let e ← gMC acc.1.A j i
    if !e.isZero then
      match elimFactor pivot e with
      | none => pure acc
      | some (f, zd) =>
        if zd then throw .zeroDiv
        else do
          let r ← acc.1.colAddC i j f
          pure (r.1, if r.2 then acc.2 ++ [i] else acc.2)
    else pure acc
  else pure acc

def colPivotC (j : Nat) (s : St) : Chk St := do
  let d ← gMC s.A j j
  if d.isZero then do
    let w ← widthC s.A
    let r ← findNzC (fun i => gMC s.A j i) (List.range' (j + 1) (w - (j + 1)))
    match r with
    | some i => s.colSwapC j i
    | none => pure s
  else pure s

def colElimStepC (j : Nat) (s : St) : Chk St := do
  let s1 ← colPivotC j s
  let pivot ← gMC s1.A j j
  if pivot.isZero then pure s1
  else do
    let w ← widthC s1.A
    let r ← foldC (colElimInnerC j pivot) (s1, []) (List.range w)
    r.1.delColsC (sortDesc r.2)

def colElimLoopC : Nat → Nat → St → Chk St
  | 0, j, s => do
    let w ← widthC s.A
    if j < min s.A.length w then throw .fuel else pure s
  | fuel + 1, j, s => do
    let w ← widthC s.A
    if j < min s.A.length w then do
      let s' ← colElimStepC j s
      colElimLoopC fuel (j + 1) s'
    else pure s

/-- `column_elimination(Op_r, matrix)`. -/
def columnEliminationC (s : St) : Chk St := colElimLoopC s.A.length 0 s

/-- `while (n_rows != n_rows_old or n_cols != n_cols_old)` with fuel. -/
def mainLoopC : Nat → Nat → Nat → Nat → Nat → St → Chk St
  | 0, nr, nro, nc, nco, s => if nr ≠ nro ∨ nc ≠ nco then throw .fuel else pure s
  | fuel + 1, nr, nro, nc, nco, s =>
    if nr ≠ nro ∨ nc ≠ nco then do
      let s1 ← rowEliminationC s
      let s2 ← columnEliminationC s1
      let w ← widthC s2.A
      mainLoopC fuel s2.A.length nr w nc s2
    else pure s

/-- Fuel of the outer loop: rows + number of entries + 1 (at least `rows + cols + 1` when there is a row). -/
def mainFuel (M : EMat) : Nat := M.length + (M.map List.length).sum + 1

/-- State at the `return` of `gaussian_elimination(matrix)`. -/
def gaussStC (M : EMat) : Chk St := do
  let nr := M.length
  let nc ← widthC M
  let s0 : St := { L := identity nr, A := M, R := identity nc, flag := .ok }
  let s1 ← deparallelizeRowsC s0
  let s2 ← deparallelizeColsC s1
  mainLoopC (mainFuel M) nr 0 nc 0 s2

inductive OutcomeC where
  | ok (L : RMat) (A : EMat) (R : RMat)
  | zeroDiv
  | fuelOut
  | indexError
  deriving DecidableEq, Repr

/-- `gaussian_elimination(matrix)` with every exception the code can raise as an explicit outcome. -/
def gaussianEliminationC (M : EMat) : OutcomeC :=
  match gaussStC M with
  | .ok s => .ok s.L s.A s.R
  | .error .index => .indexError
  | .error .zeroDiv => .zeroDiv
  | .error .fuel => .fuelOut

/-- The outcomes of the totalised model as outcomes of the checked model. -/
def Outcome.toC : Outcome → OutcomeC
  | .ok L A R => .ok L A R
  | .zeroDiv => .zeroDiv
  | .fuelOut => .fuelOut

end Ptn.C13
