import Ptn.C13.Model
/-! No new symbols for C13: every symbol of the reduced matrix occurs in the input (core Lean only). -/
namespace Ptn.C13

/-- The symbol of the entry (if it has one) satisfies `S`. -/
def Entry.SymIn (S : Nat → Prop) : Entry → Prop
  | .num _ => True
  | .sym _ s => S s

/-- Every entry of the matrix satisfies `P`. -/
def AllE (P : Entry → Prop) (A : EMat) : Prop := ∀ r, r ∈ A → ∀ e, e ∈ r → P e

theorem allE_getD {P : Entry → Prop} (h0 : P (Entry.num 0)) {r : List Entry} (h : ∀ e, e ∈ r → P e)
    (j : Nat) : P (r.getD j (Entry.num 0)) := by
  simp only [List.getD_eq_getElem?_getD]
  cases hj : r[j]? with
  | none => simpa using h0
  | some e => exact h e (List.mem_of_getElem? hj)

theorem mem_listSwap' {α : Type} {l : List α} {a b : Nat} {x : α} (h : x ∈ listSwap l a b) : x ∈ l := by
  unfold listSwap at h
  split at h
  · rename_i va vb ea eb
    rcases List.mem_or_eq_of_mem_set h with h1 | h1
    · rcases List.mem_or_eq_of_mem_set h1 with h2 | h2
      · exact h2
      · subst h2; exact List.mem_of_getElem? eb
    · subst h1; exact List.mem_of_getElem? ea
  · exact h

theorem allE_rowSwap {P : Entry → Prop} {A : EMat} (h : AllE P A) (a b : Nat) : AllE P (rowSwapM A a b) :=
  fun r hr e he => h r (mem_listSwap' hr) e he

theorem allE_colSwap {P : Entry → Prop} {A : EMat} (h : AllE P A) (a b : Nat) :
    AllE P (colSwapM A a b) := by
  intro r hr e he
  simp only [colSwapM, List.mem_map] at hr
  obtain ⟨r0, hr0, rfl⟩ := hr
  exact h r0 hr0 e (mem_listSwap' he)

theorem allE_delRow {P : Entry → Prop} {A : EMat} (h : AllE P A) (z : Nat) : AllE P (delRow A z) :=
  fun r hr e he => h r (List.mem_of_mem_eraseIdx hr) e he

theorem allE_delCol {P : Entry → Prop} {A : EMat} (h : AllE P A) (z : Nat) : AllE P (delCol A z) := by
  intro r hr e he
  simp only [delCol, List.mem_map] at hr
  obtain ⟨r0, hr0, rfl⟩ := hr
  exact h r0 hr0 e (List.mem_of_mem_eraseIdx he)

theorem addEntry_sym {S : Nat → Prop} {f : Rat} {t s e : Entry} (h : addEntry f t s = some e)
    (ht : t.SymIn S) (hs : s.SymIn S) : e.SymIn S := by
  cases s with
  | num sq =>
    cases t with
    | num tq =>
      simp only [addEntry, Option.some.injEq] at h
      subst h; trivial
    | sym tc tv =>
      simp only [addEntry] at h
      by_cases h0 : sq = 0
      · simp only [h0, ne_eq, not_true_eq_false, if_false, Option.some.injEq] at h
        subst h; exact ht
      · simp [h0] at h
  | sym sc sv =>
    cases t with
    | num tq =>
      simp only [addEntry] at h
      by_cases h0 : tq = 0
      · simp only [h0, if_true, Option.some.injEq] at h
        subst h; exact hs
      · simp [h0] at h
    | sym tc tv =>
      simp only [addEntry] at h
      by_cases hv : tv = sv
      · simp only [hv, if_true] at h
        by_cases hn : tc + f * sc = 0
        · simp only [hn, if_true, Option.some.injEq] at h
          subst h; trivial
        · simp only [hn, if_false, Option.some.injEq] at h
          subst h; exact hs
      · simp [hv] at h

theorem addLine_sym {S : Nat → Prop} (f : Rat) : ∀ (ts ss r : List Entry), addLine f ts ss = some r →
    (∀ e, e ∈ ts → e.SymIn S) → (∀ e, e ∈ ss → e.SymIn S) → ∀ e, e ∈ r → e.SymIn S := by
  intro ts
  induction ts with
  | nil =>
    intro ss r h _ _ e he
    simp only [addLine, Option.some.injEq] at h
    subst h
    simp at he
  | cons t ts ih =>
    intro ss r h ht hs e he
    cases ss with
    | nil =>
      simp only [addLine, Option.some.injEq] at h
      subst h
      simp at he
    | cons s ss =>
      simp only [addLine] at h
      split at h
      · rename_i e0 es he0 hes
        simp only [Option.some.injEq] at h
        subst h
        rcases List.mem_cons.mp he with he | he
        · subst he
          exact addEntry_sym he0 (ht t (by simp)) (hs s (by simp))
        · exact ih ss es hes (fun x hx => ht x (by simp [hx])) (fun x hx => hs x (by simp [hx])) e he
      · simp at h

theorem rowAddRaw_sym {S : Nat → Prop} {A A' : EMat} {t s : Nat} {f : Rat} {z : Bool}
    (h : rowAddRaw A t s f = some (A', z)) (hA : AllE (Entry.SymIn S) A) : AllE (Entry.SymIn S) A' := by
  simp only [rowAddRaw] at h
  split at h
  · simp at h
  · rename_i r hr
    simp only [Option.some.injEq, Prod.mk.injEq] at h
    obtain ⟨rfl, _⟩ := h
    have hrow : ∀ k, ∀ e, e ∈ A.getD k [] → e.SymIn S := by
      intro k e he
      simp only [List.getD_eq_getElem?_getD] at he
      cases hk : A[k]? with
      | none => simp [hk] at he
      | some r0 =>
        simp only [hk, Option.getD_some] at he
        exact hA r0 (List.mem_of_getElem? hk) e he
    intro r' hr' e he
    rcases List.mem_or_eq_of_mem_set hr' with h1 | h1
    · exact hA r' h1 e he
    · subst h1
      exact addLine_sym f _ _ _ hr (hrow t) (hrow s) e he

theorem addCol_sym {S : Nat → Prop} (f : Rat) (t s : Nat) : ∀ (A : EMat) (c : List Entry),
    addCol f t s A = some c → AllE (Entry.SymIn S) A → ∀ e, e ∈ c → e.SymIn S := by
  intro A
  induction A with
  | nil =>
    intro c h _ e he
    simp only [addCol, Option.some.injEq] at h
    subst h
    simp at he
  | cons row rest ih =>
    intro c h hA e he
    simp only [addCol] at h
    split at h
    · rename_i e0 es he0 hes
      simp only [Option.some.injEq] at h
      subst h
      have hrow : ∀ x, x ∈ row → x.SymIn S := hA row (by simp)
      rcases List.mem_cons.mp he with he | he
      · subst he
        exact addEntry_sym he0 (allE_getD trivial hrow t) (allE_getD trivial hrow s)
      · exact ih es hes (fun r hr => hA r (by simp [hr])) e he
    · simp at h

theorem colAddRaw_sym {S : Nat → Prop} {A A' : EMat} {t s : Nat} {f : Rat} {z : Bool}
    (h : colAddRaw A t s f = some (A', z)) (hA : AllE (Entry.SymIn S) A) : AllE (Entry.SymIn S) A' := by
  simp only [colAddRaw] at h
  split at h
  · simp at h
  · rename_i c hc
    simp only [Option.some.injEq, Prod.mk.injEq] at h
    obtain ⟨rfl, _⟩ := h
    have hcz := addCol_sym f t s A c hc hA
    intro r' hr' e he
    obtain ⟨i, hi, rfl⟩ := List.getElem_of_mem hr'
    simp only [List.getElem_zipWith] at he
    rcases List.mem_or_eq_of_mem_set he with h1 | h1
    · exact hA _ (List.getElem_mem _) e h1
    · subst h1
      exact hcz _ (List.getElem_mem _)

/-! ### through the algorithm -/

theorem foldl_inv' {σ β : Type} (f : σ → β → σ) (P : σ → Prop) (l : List β) (s0 : σ)
    (h0 : P s0) (hstep : ∀ x s, P s → P (f s x)) : P (l.foldl f s0) := by
  induction l generalizing s0 with
  | nil => simpa using h0
  | cons a l ih =>
    simp only [List.foldl_cons]
    exact ih (f s0 a) (hstep a s0 h0)

@[simp] theorem raise_A' (s : St) (f : Flag) : (s.raise f).A = s.A := by
  unfold St.raise; split <;> rfl

theorem sym_delRows {S : Nat → Prop} : ∀ (zs : List Nat) (s : St), AllE (Entry.SymIn S) s.A →
    AllE (Entry.SymIn S) (s.delRows zs).A := by
  intro zs s h
  unfold St.delRows
  exact foldl_inv' (fun (s : St) z => { s with A := delRow s.A z, L := delCol s.L z })
    (fun s => AllE (Entry.SymIn S) s.A) zs s h (fun z s hs => allE_delRow hs z)

theorem sym_delCols {S : Nat → Prop} : ∀ (zs : List Nat) (s : St), AllE (Entry.SymIn S) s.A →
    AllE (Entry.SymIn S) (s.delCols zs).A := by
  intro zs s h
  unfold St.delCols
  exact foldl_inv' (fun (s : St) z => { s with A := delCol s.A z, R := delRow s.R z })
    (fun s => AllE (Entry.SymIn S) s.A) zs s h (fun z s hs => allE_delCol hs z)

theorem sym_rowAdd {S : Nat → Prop} (st : St) (t s : Nat) (f : Rat) (h : AllE (Entry.SymIn S) st.A) :
    AllE (Entry.SymIn S) (st.rowAdd t s f).1.A := by
  unfold St.rowAdd
  split
  · exact h
  · rename_i A' z hr
    exact rowAddRaw_sym hr h

theorem sym_colAdd {S : Nat → Prop} (st : St) (t s : Nat) (f : Rat) (h : AllE (Entry.SymIn S) st.A) :
    AllE (Entry.SymIn S) (st.colAdd t s f).1.A := by
  unfold St.colAdd
  split
  · exact h
  · rename_i A' z hr
    exact colAddRaw_sym hr h

theorem sym_rowElimStep {S : Nat → Prop} (i : Nat) (s : St) (h : AllE (Entry.SymIn S) s.A) :
    AllE (Entry.SymIn S) (rowElimStep i s).A := by
  have h1 : AllE (Entry.SymIn S) (rowPivot i s).A := by
    unfold rowPivot
    split
    · split
      · exact allE_rowSwap h _ _
      · exact h
    · exact h
  unfold rowElimStep
  simp only
  split
  · exact h1
  · apply sym_delRows
    apply foldl_inv' (rowElimInner i _) (fun acc => AllE (Entry.SymIn S) acc.1.A) _ _ h1
    intro j acc hacc
    unfold rowElimInner
    simp only
    split
    · split
      · exact hacc
      · apply sym_rowAdd
        split
        · simpa using hacc
        · exact hacc
    · exact hacc

theorem sym_colElimStep {S : Nat → Prop} (j : Nat) (s : St) (h : AllE (Entry.SymIn S) s.A) :
    AllE (Entry.SymIn S) (colElimStep j s).A := by
  have h1 : AllE (Entry.SymIn S) (colPivot j s).A := by
    unfold colPivot
    split
    · split
      · exact allE_colSwap h _ _
      · exact h
    · exact h
  unfold colElimStep
  simp only
  split
  · exact h1
  · apply sym_delCols
    apply foldl_inv' (colElimInner j _) (fun acc => AllE (Entry.SymIn S) acc.1.A) _ _ h1
    intro i acc hacc
    unfold colElimInner
    simp only
    split
    · split
      · exact hacc
      · apply sym_colAdd
        split
        · simpa using hacc
        · exact hacc
    · exact hacc

theorem sym_rowElimLoop {S : Nat → Prop} : ∀ (fuel i : Nat) (s : St), AllE (Entry.SymIn S) s.A →
    AllE (Entry.SymIn S) (rowElimLoop fuel i s).A := by
  intro fuel
  induction fuel with
  | zero =>
    intro i s h
    unfold rowElimLoop
    split
    · simpa using h
    · exact h
  | succ fuel ih =>
    intro i s h
    unfold rowElimLoop
    split
    · exact ih _ _ (sym_rowElimStep i s h)
    · exact h

theorem sym_colElimLoop {S : Nat → Prop} : ∀ (fuel j : Nat) (s : St), AllE (Entry.SymIn S) s.A →
    AllE (Entry.SymIn S) (colElimLoop fuel j s).A := by
  intro fuel
  induction fuel with
  | zero =>
    intro j s h
    unfold colElimLoop
    split
    · simpa using h
    · exact h
  | succ fuel ih =>
    intro j s h
    unfold colElimLoop
    split
    · exact ih _ _ (sym_colElimStep j s h)
    · exact h

theorem sym_mainLoop {S : Nat → Prop} : ∀ (fuel nr nro nc nco : Nat) (s : St),
    AllE (Entry.SymIn S) s.A → AllE (Entry.SymIn S) (mainLoop fuel nr nro nc nco s).A := by
  intro fuel
  induction fuel with
  | zero =>
    intro nr nro nc nco s h
    unfold mainLoop
    split
    · simpa using h
    · exact h
  | succ fuel ih =>
    intro nr nro nc nco s h
    unfold mainLoop
    split
    · simp only
      apply ih
      exact sym_colElimLoop _ _ _ (sym_rowElimLoop _ _ _ h)
    · exact h

theorem sym_deparallelizeRows {S : Nat → Prop} (s : St) (h : AllE (Entry.SymIn S) s.A) :
    AllE (Entry.SymIn S) (deparallelizeRows s).A := by
  unfold deparallelizeRows
  simp only
  apply sym_delRows
  apply foldl_inv' (deparRowsOuter s.A) (fun acc => AllE (Entry.SymIn S) acc.1.A) _ _ h
  intro i acc hacc
  unfold deparRowsOuter
  split
  · exact hacc
  · apply foldl_inv' (deparRowsInner s.A i) (fun acc => AllE (Entry.SymIn S) acc.1.A) _ _ hacc
    intro j acc hacc
    unfold deparRowsInner
    split
    · exact hacc
    · simp only
      split
      · exact hacc
      · exact hacc

theorem sym_deparallelizeCols {S : Nat → Prop} (s : St) (h : AllE (Entry.SymIn S) s.A) :
    AllE (Entry.SymIn S) (deparallelizeCols s).A := by
  unfold deparallelizeCols
  simp only
  apply sym_delCols
  apply foldl_inv' (deparColsOuter s.A) (fun acc => AllE (Entry.SymIn S) acc.1.A) _ _ h
  intro i acc hacc
  unfold deparColsOuter
  split
  · exact hacc
  · apply foldl_inv' (deparColsInner s.A i) (fun acc => AllE (Entry.SymIn S) acc.1.A) _ _ hacc
    intro j acc hacc
    unfold deparColsInner
    split
    · exact hacc
    · simp only
      split
      · exact hacc
      · exact hacc

theorem sym_gaussSt {S : Nat → Prop} (M : EMat) (h : AllE (Entry.SymIn S) M) :
    AllE (Entry.SymIn S) (gaussSt M).A := by
  unfold gaussSt
  simp only
  apply sym_mainLoop
  apply sym_deparallelizeCols
  apply sym_deparallelizeRows
  exact h

end Ptn.C13
