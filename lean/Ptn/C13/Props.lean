import Ptn.C13.Model
/-! Property theorems for C13. Only property theorems and non-vacuity examples live here. -/
namespace Ptn.C13
end Ptn.C13
