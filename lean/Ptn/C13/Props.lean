import Ptn.C13.Model
import Ptn.C13.Lemmas
import Ptn.C13.Total
import Ptn.C13.Scale
import Ptn.C13.Symbols
import Ptn.C13.CheckedSim
/-! Property theorems for C13 (symbolic Gaussian elimination is an exact factorisation).  Only
property theorems and non-vacuity examples live here; helper lemmas are in `Sum`, `Views`,
`EntryLemmas`, `RowSteps`, `ColSteps`, `Lemmas`.

Conventions.  `gR X i k` is the entry `X[i][k]` of an operator matrix, `gE ρ A k l` the value of the
entry `A[k][l]` of a symbolic matrix under the valuation `ρ : Nat → Rat` of the symbols,
`sumN n f = f 0 + … + f (n-1)`.  Equality of two linear forms over ℚ under *every* rational valuation is
equality of their coefficients, i.e. equality as polynomials (the field is infinite); the theorems are
stated with `K = Rat` to stay in core Lean.  `Rect X w`: all rows of `X` have length `w`.
`NESM M`: no entry of `M` uses the empty string (symbol `0`) as its symbol - `are_parallel_*` confuses
that symbol with a number, see `sge_empty_symbol_counterexample`. -/
namespace Ptn.C13

/-! ### the paired primitive operations preserve `L · eval ρ A` / `eval ρ A · R`

Each lemma is stated under exactly the conditions the Python code has tested immediately before the
call; `RowRel n s s'` says: if `s` is well-shaped then so is `s'`, `R` and the number of rows of `L`
are unchanged, `A` has not grown, and `(L · eval ρ A)[i][l]` is the same for all `ρ, i, l`
(`ColRel` is the mirror image for `(eval ρ A · R)[k][j]`). -/

/-- `row_add(matrix, Op_l, t, s, f)` (whether or not the compatibility guard lets it act): product kept,
    only row `t` changes, and a reported zero row is zero under every valuation. -/
theorem row_add_preserves (n : Nat) (st : St) (t s : Nat) (f : Rat) (ht : t < st.A.length)
    (hs : s < st.A.length) (hts : t ≠ s) (h : WS n st) :
    RowRel n st (st.rowAdd t s f).1 ∧
    (∀ ρ k l, k ≠ t → gE ρ (st.rowAdd t s f).1.A k l = gE ρ st.A k l) ∧
    ((st.rowAdd t s f).2 = true → ∀ ρ l, gE ρ (st.rowAdd t s f).1.A t l = 0) :=
  let ⟨a, _, c, d⟩ := rowAdd_spec n st t s f ht hs hts h
  ⟨a, c, d⟩

theorem col_add_preserves (n : Nat) (st : St) (t s : Nat) (f : Rat) (ht : t < st.R.length)
    (hs : s < st.R.length) (hts : t ≠ s) (h : WS n st) :
    ColRel n st (st.colAdd t s f).1 ∧
    (∀ ρ k l, l ≠ t → gE ρ (st.colAdd t s f).1.A k l = gE ρ st.A k l) ∧
    ((st.colAdd t s f).2 = true → ∀ ρ k, gE ρ (st.colAdd t s f).1.A k t = 0) :=
  let ⟨a, _, c, d⟩ := colAdd_spec n st t s f ht hs hts h
  ⟨a, c, d⟩

/-- The entry-wise rule of `_row_add` / `_col_add` never mixes: when it answers, the answer is the
    single entry `target + f · source`. -/
theorem add_entry_exact (f : Rat) (t s e : Entry) (ρ : Nat → Rat) (h : addEntry f t s = some e) :
    e.eval ρ = t.eval ρ + f * s.eval ρ := addEntry_eval ρ h

theorem row_swap_preserves (n : Nat) (s : St) (a b : Nat) (ha : a < s.A.length) (hb : b < s.A.length) :
    RowRel n s (s.rowSwap a b) := rowRel_rowSwap n s a b ha hb

theorem col_swap_preserves (n : Nat) (s : St) (a b : Nat) (ha : a < s.R.length) (hb : b < s.R.length) :
    ColRel n s (s.colSwap a b) := colRel_colSwap n s a b ha hb

/-- Deleting (in descending order) distinct rows that are zero, together with the matching columns of
    `Op_l`, at least one row staying. -/
theorem delete_zero_rows_preserves (n : Nat) (s : St) (zs : List Nat) (hnd : zs.Nodup)
    (hlt : ∀ z, z ∈ zs → z < s.A.length) (hkeep : zs.length < s.A.length)
    (hz : ∀ ρ z, z ∈ zs → ∀ l, gE ρ s.A z l = 0) : RowRel n s (s.delRows (sortDesc zs)) :=
  rowRel_delRows_zero n s zs hnd hlt hkeep hz

theorem delete_zero_cols_preserves (n : Nat) (s : St) (zs : List Nat) (hnd : zs.Nodup)
    (hlt : ∀ z, z ∈ zs → z < s.R.length)
    (hz : ∀ ρ z, z ∈ zs → ∀ k, gE ρ s.A k z = 0) : ColRel n s (s.delCols (sortDesc zs)) :=
  colRel_delCols_zero n s zs hnd hlt hz

/-- `row_scale` / `col_scale` (in the file, not used by `gaussian_elimination`): the model answers only
    for `f ≠ 0` (the code raises on `1/f` otherwise) and then the product is kept. -/
theorem row_scale_preserves (n : Nat) (st st' : St) (r : Nat) (f : Rat) (h : st.rowScale r f = some st') :
    f ≠ 0 ∧ RowRel n st st' := rowRel_rowScale n st st' r f h

theorem col_scale_preserves (n : Nat) (st st' : St) (c : Nat) (f : Rat) (h : st.colScale c f = some st') :
    f ≠ 0 ∧ ColRel n st st' := colRel_colScale n st st' c f h

/-- A non-zero answer of `are_parallel_row` is a true proportionality factor (no empty symbol). -/
theorem are_parallel_row_sound (ρ : Nat → Rat) (A : EMat) (w i j : Nat) (μ : Rat) (hA : Rect A w)
    (hn : NESM A) (hi : i < A.length) (hj : j < A.length)
    (h : areParallelRow (A.getD i []) (A.getD j []) = μ) (hμ : μ ≠ 0) (l : Nat) :
    gE ρ A j l = μ * gE ρ A i l := areParallelRow_sound ρ hA hn hi hj h hμ l

theorem are_parallel_col_sound (ρ : Nat → Rat) (A : EMat) (w i j : Nat) (μ : Rat) (hA : Rect A w)
    (hn : NESM A) (hi : i < w) (hj : j < w) (h : areParallelCol A i j = μ) (hμ : μ ≠ 0) (k : Nat) :
    gE ρ A k j = μ * gE ρ A k i := areParallelCol_sound ρ hA hn hi hj h hμ k

/-- `deparallelize_rows` / `deparallelize_cols`: merging parallel lines into the operator matrices. -/
theorem deparallelize_rows_preserves (n : Nat) (s : St) (hnes : NESM s.A) :
    RowRel n s (deparallelizeRows s) := rowRel_deparallelizeRows n s hnes

theorem deparallelize_cols_preserves (n : Nat) (s : St) (hnes : NESM s.A) :
    ColRel n s (deparallelizeCols s) := colRel_deparallelizeCols n s hnes

/-- `row_elimination` / `column_elimination` (pivot search, additions, deletions, index shifts). -/
theorem row_elimination_preserves (n : Nat) (s : St) : RowRel n s (rowElimination s) :=
  rowRel_rowElimination n s

theorem column_elimination_preserves (n : Nat) (s : St) : ColRel n s (columnElimination s) :=
  colRel_columnElimination n s

/-! Non-vacuity of the hypotheses of the lemmas above on concrete states. -/

example : WS 2 exState := ⟨by unfold Rect; decide, by unfold Rect; decide, by unfold Rect; decide, by decide⟩

/-- `row_add` really acts: row 1 becomes `[0, a]`, column 0 of `L` becomes `[1, 2]`. -/
example : (exState.rowAdd 1 0 (-2)).1.A = [[.num 1, .sym 1 1], [.num 0, .sym 1 1]]
    ∧ (exState.rowAdd 1 0 (-2)).1.L = [[1, 0], [2, 1]] := by decide +kernel

/-- `col_add` is refused by the guard here (number onto a symbol): nothing changes. -/
example : (exState.colAdd 1 0 (-1)).1.A = exState.A ∧ (exState.colAdd 1 0 (-1)).1.R = exState.R := by
  decide +kernel

example : (exState.rowSwap 0 1).A = [[.num 2, .sym 3 1], [.num 1, .sym 1 1]]
    ∧ (exState.rowSwap 0 1).L = [[0, 1], [1, 0]] := by decide +kernel

example : (exState.rowScale 0 2).isSome = true ∧ (exState.rowScale 0 0).isSome = false := by
  decide +kernel

example : WS 2 exStateZeroRow :=
  ⟨by unfold Rect; decide, by unfold Rect; decide, by unfold Rect; decide, by decide⟩

/-- The hypotheses of `delete_zero_rows_preserves` hold for `zs = [1]`, and the deletion acts. -/
example : [1].Nodup ∧ (∀ z, z ∈ [1] → z < exStateZeroRow.A.length) ∧ [1].length < exStateZeroRow.A.length
    ∧ (∀ (ρ : Nat → Rat) z, z ∈ [1] → ∀ l, gE ρ exStateZeroRow.A z l = 0)
    ∧ (exStateZeroRow.delRows (sortDesc [1])).A = [[.num 1, .sym 1 1], [.num 2, .sym 1 2]]
    ∧ (exStateZeroRow.delRows (sortDesc [1])).L = [[1, 0], [0, 0], [0, 1]] := by
  refine ⟨by decide, by decide, by decide, ?_, by decide +kernel, by decide +kernel⟩
  intro ρ z hz l
  simp only [List.mem_singleton] at hz
  subst hz
  match l with
  | 0 => simp [gE, gM, exStateZeroRow, Entry.eval]
  | 1 => simp [gE, gM, exStateZeroRow, Entry.eval]
  | l + 2 => simp [gE, gM, exStateZeroRow, Entry.eval]

/-- `are_parallel_row` answers `3` on the rows of `exStateParallel`, `deparallelize_rows` merges them. -/
example : areParallelRow (exStateParallel.A.getD 0 []) (exStateParallel.A.getD 1 []) = 3
    ∧ areParallelCol exStateParallel.A 0 1 = 0
    ∧ (deparallelizeRows exStateParallel).A = [[.num 1, .sym 1 1]]
    ∧ (deparallelizeRows exStateParallel).L = [[1], [3]] := by decide +kernel

example : NESM exStateParallel.A := by
  intro r hr e he
  simp [exStateParallel] at hr
  rcases hr with rfl | rfl <;> simp at he <;> rcases he with rfl | rfl <;> simp [Entry.NES]

/-! ### the property -/

/-- **Exactness.**  For every rectangular `M` (`m ≥ 1` rows of length `n`, symbols non-empty): if
    `gaussian_elimination` returns `(L, M', R)` then `L` is `m × p`, `M'` is `p × q`, `R` is `q × n`
    with `1 ≤ p ≤ m`, `q ≤ n`, and `(L · eval ρ M' · R)[i][j] = eval ρ M[i][j]` for every valuation
    and all `i < m`, `j < n`. -/
theorem sge_exact (M : EMat) (n : Nat) (hpos : 0 < M.length) (hrect : Rect M n) (hnes : NESM M)
    (L : RMat) (A : EMat) (R : RMat) (h : gaussianElimination M = .ok L A R) :
    (L.length = M.length ∧ Rect L A.length ∧ Rect A R.length ∧ Rect R n) ∧
    (0 < A.length ∧ A.length ≤ M.length ∧ R.length ≤ n) ∧
    ∀ (ρ : Nat → Rat) (i j : Nat), i < M.length → j < n →
      sumN A.length (fun k => sumN R.length (fun l => gR L i k * gE ρ A k l * gR R l j))
        = gE ρ M i j := by
  have hg := good_gaussSt M n hpos hrect hnes
  unfold gaussianElimination at h
  simp only at h
  split at h
  · simp only [Outcome.ok.injEq] at h
    obtain ⟨rfl, rfl, rfl⟩ := h
    refine ⟨⟨hg.Llen, hg.ws.Lrect, hg.ws.Arect, hg.ws.Rrect⟩,
      ⟨hg.ws.Apos, hg.rows_le, hg.cols_le⟩, ?_⟩
    intro ρ i j hi hj
    have := hg.exact ρ i j
    rw [initF_in_range M n ρ i j hi hj] at this
    exact this
  · simp at h
  · simp at h

/-- Exactness as an equation between matrices: `L · eval ρ M' · R = eval ρ M`. -/
theorem sge_exact_matrix (M : EMat) (n : Nat) (hpos : 0 < M.length) (hrect : Rect M n) (hnes : NESM M)
    (L : RMat) (A : EMat) (R : RMat) (h : gaussianElimination M = .ok L A R) (ρ : Nat → Rat) :
    matMul (matMul L (evalM ρ A) R.length) R n = evalM ρ M := by
  obtain ⟨⟨h1, h2, h3, h4⟩, _, hex⟩ := sge_exact M n hpos hrect hnes L A R h
  apply rmat_ext (m := M.length) (n := n)
  · simp [matMul, h1]
  · simp [evalM]
  · exact rect_matMul _ _ _
  · exact rect_evalM ρ hrect
  · intro i j hi hj
    rw [gR_matMul _ _ _ _ _ (by simp [matMul, h1]; exact hi) hj, gR_evalM, ← hex ρ i j hi hj]
    have hlenA : (evalM ρ A).length = A.length := by simp [evalM]
    have e : ∀ l, l < R.length →
        gR (matMul L (evalM ρ A) R.length) i l * gR R l j
          = sumN A.length (fun k => gR L i k * gE ρ A k l * gR R l j) := by
      intro l hl
      rw [gR_matMul _ _ _ _ _ (by rw [h1]; exact hi) hl, hlenA, ← sumN_mul_right]
      apply sumN_congr
      intro k _
      rw [gR_evalM]
    rw [sumN_congr e, sumN_comm]

/-- Non-vacuity of `sge_exact`: a rank-1 numeric matrix is reduced to `1 × 1`. -/
example : gaussianElimination [[.num 1, .num 2], [.num 2, .num 4]]
    = .ok [[1], [2]] [[.num 1]] [[1, 2]] := by decide +kernel

example : Rect [[Entry.num 1, Entry.num 2], [Entry.num 2, Entry.num 4]] 2
    ∧ NESM [[Entry.num 1, Entry.num 2], [Entry.num 2, Entry.num 4]] := by
  refine ⟨?_, ?_⟩
  · intro r hr; simp at hr; rcases hr with rfl | rfl <;> rfl
  · intro r hr e he
    simp at hr
    rcases hr with rfl | rfl <;> simp at he <;> rcases he with rfl | rfl <;> trivial

/-- Non-vacuity with symbols: a symbolic pivot eliminates a same-symbol entry below it. -/
example : gaussianElimination
    [[.num 1, .sym 1 1, .num 0], [.num 2, .num 4, .sym 1 2], [.num 3, .sym 1 1, .sym 1 2]]
    = .ok [[1, 0, 0], [0, 1, 0], [3, 0, 1]]
        [[.num 1, .sym 1 1, .num 0], [.num 2, .num 4, .sym 1 2], [.num 0, .sym (-2) 1, .sym 1 2]]
        [[1, 0, 0], [0, 1, 0], [0, 0, 1]] := by decide +kernel

/-- **Totality.**  On in-domain input (`NZM`: every symbolic entry has a non-zero coefficient) the code
    returns a triple: no `ZeroDivisionError`, and the fuel that replaces the three `while` loops of the
    model (`min(rows, cols)` for the two elimination loops, `m + n + 1` for the fixed-point loop) is
    never exhausted. -/
theorem sge_total (M : EMat) (n : Nat) (hpos : 0 < M.length) (hrect : Rect M n) (hnes : NESM M)
    (hnz : NZM M) : ∃ L A R, gaussianElimination M = .ok L A R := by
  have h := (oks_gaussSt M n hpos hrect hnes hnz).ok
  unfold gaussianElimination
  simp only [h]
  exact ⟨_, _, _, rfl⟩

theorem sge_fuel_suffices (M : EMat) (n : Nat) (hpos : 0 < M.length) (hrect : Rect M n) (hnes : NESM M)
    (hnz : NZM M) : gaussianElimination M ≠ .fuelOut := by
  obtain ⟨L, A, R, h⟩ := sge_total M n hpos hrect hnes hnz
  rw [h]; simp

theorem sge_no_zero_division (M : EMat) (n : Nat) (hpos : 0 < M.length) (hrect : Rect M n)
    (hnes : NESM M) (hnz : NZM M) : gaussianElimination M ≠ .zeroDiv := by
  obtain ⟨L, A, R, h⟩ := sge_total M n hpos hrect hnes hnz
  rw [h]; simp

/-- Totality and exactness together: every in-domain matrix has an exact factorisation returned. -/
theorem sge_exact_total (M : EMat) (n : Nat) (hpos : 0 < M.length) (hrect : Rect M n) (hnes : NESM M)
    (hnz : NZM M) :
    ∃ L A R, gaussianElimination M = .ok L A R ∧
      L.length = M.length ∧ Rect L A.length ∧ Rect A R.length ∧ Rect R n ∧
      0 < A.length ∧ A.length ≤ M.length ∧ R.length ≤ n ∧
      ∀ ρ : Nat → Rat, matMul (matMul L (evalM ρ A) R.length) R n = evalM ρ M := by
  obtain ⟨L, A, R, h⟩ := sge_total M n hpos hrect hnes hnz
  obtain ⟨⟨h1, h2, h3, h4⟩, ⟨h5, h6, h7⟩, _⟩ := sge_exact M n hpos hrect hnes L A R h
  exact ⟨L, A, R, h, h1, h2, h3, h4, h5, h6, h7,
    fun ρ => sge_exact_matrix M n hpos hrect hnes L A R h ρ⟩

/-- Non-vacuity of the domain hypotheses (`NESM`, `NZM`) on a matrix with symbols. -/
example : NESM [[Entry.num 1, Entry.sym 1 1], [Entry.sym 2 1, Entry.num 0]]
    ∧ NZM [[Entry.num 1, Entry.sym 1 1], [Entry.sym 2 1, Entry.num 0]] := by
  refine ⟨?_, ?_⟩ <;>
  · intro r hr e he
    simp at hr
    rcases hr with rfl | rfl <;> simp at he <;> rcases he with rfl | rfl <;> simp [Entry.NES, Entry.NZ]

/-- **No mixing** (by the type of the model): every entry of the reduced matrix is a rational or a
    rational multiple of one symbol; its value is that monomial. -/
theorem sge_no_mixing (M : EMat) (L : RMat) (A : EMat) (R : RMat)
    (_h : gaussianElimination M = .ok L A R) :
    ∀ r, r ∈ A → ∀ e, e ∈ r →
      (∃ q, e = Entry.num q ∧ ∀ ρ, e.eval ρ = q) ∨ (∃ q s, e = Entry.sym q s ∧ ∀ ρ, e.eval ρ = q * ρ s) := by
  intro r _ e _
  cases e with
  | num q => exact Or.inl ⟨q, rfl, fun _ => rfl⟩
  | sym q s => exact Or.inr ⟨q, s, rfl, fun _ => rfl⟩

/-- **No new symbols**: every symbol of the reduced matrix is a symbol of the input (`S` any set of
    symbols containing those of `M`). -/
theorem sge_no_new_symbols (M : EMat) (S : Nat → Prop) (hS : AllE (Entry.SymIn S) M)
    (L : RMat) (A : EMat) (R : RMat) (h : gaussianElimination M = .ok L A R) :
    AllE (Entry.SymIn S) A := by
  have hs := sym_gaussSt (S := S) M hS
  unfold gaussianElimination at h
  simp only at h
  split at h
  · simp only [Outcome.ok.injEq] at h
    obtain ⟨_, rfl, _⟩ := h
    exact hs
  · simp at h
  · simp at h

/-- Non-vacuity: the symbols of `[[1, a],[2a, 0]]` lie in `{a}` (`a` = symbol 1). -/
example : AllE (Entry.SymIn (· = 1)) [[Entry.num 1, Entry.sym 1 1], [Entry.sym 2 1, Entry.num 0]] := by
  intro r hr e he
  simp at hr
  rcases hr with rfl | rfl <;> simp at he <;> rcases he with rfl | rfl <;> simp [Entry.SymIn]

/-! ### what the code does outside the stated input domain (witnesses, replayed on the real code) -/

/-- The hypothesis `NESM` of `sge_exact` cannot be dropped: with the empty string as a symbol the rows
    `[1]` and `[2·'']` are declared parallel and the product is `[[1],[2]] ≠ [[1],[2·'']]`. -/
theorem sge_empty_symbol_counterexample :
    gaussianElimination [[.num 1], [.sym 2 0]] = .ok [[1], [2]] [[.num 1]] [[1]] ∧
    ∃ ρ : Nat → Rat,
      sumN 1 (fun k => sumN 1 (fun l => gR [[1], [2]] 1 k * gE ρ [[.num 1]] k l * gR [[1]] l 0))
        ≠ gE ρ [[.num 1], [.sym 2 0]] 1 0 := by
  refine ⟨by decide +kernel, fun _ => 0, ?_⟩
  decide +kernel

/-- A symbolic entry with coefficient `0` as pivot makes the code raise `ZeroDivisionError`. -/
theorem sge_zero_coefficient_raises :
    gaussianElimination [[.sym 0 1], [.sym 1 1]] = .zeroDiv := by decide +kernel

/-! ### the checked model: no list access of the run is ever out of range

`Checked.lean` is a second port of the Python file in which every subscript, subscript assignment and `del`
is an operation that answers `Err.index` (`IndexError`) when out of range, and exceptions abort the run as
in Python.  The theorems below remove the caveat "accesses of the model are totalised with defaults":
under exactly the index bounds its caller guarantees every checked primitive raises nothing and returns
what the totalised primitive returns, and the whole checked run on a rectangular matrix with `≥ 1` row
equals the totalised run, so every theorem above holds for the checked model. -/

theorem row_swap_checked (s : St) (i j : Nat) (hL : Rect s.L s.A.length) (hi : i < s.A.length)
    (hj : j < s.A.length) : s.rowSwapC i j = .ok (s.rowSwap i j) := rowSwapC_ok hL hi hj

theorem col_swap_checked (s : St) (i j : Nat) (hA : Rect s.A s.R.length) (hi : i < s.R.length)
    (hj : j < s.R.length) : s.colSwapC i j = .ok (s.colSwap i j) := colSwapC_ok hA hi hj

/-- `row_add` with both rows in range on a well-shaped state (whatever the compatibility guard decides). -/
theorem row_add_checked (n : Nat) (st : St) (t s : Nat) (f : Rat) (h : WS n st) (ht : t < st.A.length)
    (hs : s < st.A.length) : st.rowAddC t s f = .ok (st.rowAdd t s f) :=
  rowAddC_ok f h.Lrect h.Arect ht hs

theorem col_add_checked (n : Nat) (st : St) (t s : Nat) (f : Rat) (h : WS n st) (ht : t < st.R.length)
    (hs : s < st.R.length) : st.colAddC t s f = .ok (st.colAdd t s f) :=
  colAddC_ok f h.Arect h.Rrect ht hs

/-- `row_scale` / `col_scale` in range: the only exception is the `ZeroDivisionError` of `1/0`. -/
theorem row_scale_checked (n : Nat) (st : St) (r : Nat) (f : Rat) (h : WS n st) (hr : r < st.A.length) :
    st.rowScaleC r f = (match st.rowScale r f with | some s' => .ok s' | none => .error .zeroDiv) :=
  rowScaleC_ok f h.Lrect hr

theorem col_scale_checked (n : Nat) (st : St) (c : Nat) (f : Rat) (h : WS n st) (hc : c < st.R.length) :
    st.colScaleC c f = (match st.colScale c f with | some s' => .ok s' | none => .error .zeroDiv) :=
  colScaleC_ok f h.Arect hc

/-- Deleting distinct in-range rows in descending order (as the code does after sorting). -/
theorem delete_rows_checked (n : Nat) (s : St) (zs : List Nat) (h : WS n s) (hnd : zs.Nodup)
    (hlt : ∀ z, z ∈ zs → z < s.A.length) : s.delRowsC (sortDesc zs) = .ok (s.delRows (sortDesc zs)) :=
  delRowsC_ok _ _ (pairwise_sortDesc hnd) (fun z hz => hlt z (mem_sortDesc.mp hz)) h.Lrect

theorem delete_cols_checked (n : Nat) (s : St) (zs : List Nat) (h : WS n s) (hnd : zs.Nodup)
    (hlt : ∀ z, z ∈ zs → z < s.R.length) : s.delColsC (sortDesc zs) = .ok (s.delCols (sortDesc zs)) :=
  delColsC_ok _ _ (pairwise_sortDesc hnd) (fun z hz => hlt z (mem_sortDesc.mp hz)) h.Arect

/-- `are_parallel_col` with both columns in range of a rectangular matrix (`are_parallel_row` zips two
    rows and cannot raise; it is shared by both models). -/
theorem are_parallel_col_checked (A : EMat) (w c1 c2 : Nat) (hA : Rect A w) (h1 : c1 < w) (h2 : c2 < w) :
    areParallelColC A c1 c2 = .ok (areParallelCol A c1 c2) := areParallelColC_ok hA h1 h2

theorem deparallelize_rows_checked (n : Nat) (s : St) (h : WS n s) (hnes : NESM s.A) :
    deparallelizeRowsC s = .ok (deparallelizeRows s) := deparallelizeRowsC_ok n s h hnes

theorem deparallelize_cols_checked (n : Nat) (s : St) (h : WS n s) (hnes : NESM s.A) :
    deparallelizeColsC s = .ok (deparallelizeCols s) := deparallelizeColsC_ok n s h hnes

/-- `row_elimination` / `column_elimination` on a well-shaped state: the checked run stops with
    `ZeroDivisionError` exactly when the totalised run ends with that flag (`res`), never with `IndexError`,
    and its own fuel (`len(matrix)` passes) is never exhausted where the totalised one is not. -/
theorem row_elimination_checked (n : Nat) (s : St) (h : WS n s) (hok : s.flag = .ok) :
    rowEliminationC s = res (rowElimination s) := rowEliminationC_sim n s h hok

theorem column_elimination_checked (n : Nat) (s : St) (h : WS n s) (hok : s.flag = .ok) :
    columnEliminationC s = res (columnElimination s) := columnEliminationC_sim n s h hok

/-- Non-vacuity: the checked primitives act on the example state (in range) … -/
example : (exState.rowAddC 1 0 (-2)) = .ok (exState.rowAdd 1 0 (-2))
    ∧ (exState.rowSwapC 0 1) = .ok (exState.rowSwap 0 1)
    ∧ rowEliminationC exState = .ok (rowElimination exState) := by decide +kernel

/-- … and report `IndexError` out of range, where the totalised primitives silently return the state. -/
example : exState.rowAddC 2 0 1 = .error .index ∧ (exState.rowAdd 2 0 1).1.A = exState.A
    ∧ exState.rowSwapC 0 2 = .error .index ∧ (exState.rowSwap 0 2).A = exState.A
    ∧ exState.colAddC 0 2 1 = .error .index ∧ exState.delRowsC [1, 1] = .error .index := by
  decide +kernel

/-- **The checked run equals the totalised run** on every rectangular matrix with at least one row and no
    empty symbol name (symbolic coefficients may be zero: then both report the `ZeroDivisionError`). -/
theorem checked_eq_total (M : EMat) (n : Nat) (hpos : 0 < M.length) (hrect : Rect M n) (hnes : NESM M) :
    gaussianEliminationC M = (gaussianElimination M).toC := by
  unfold gaussianEliminationC gaussianElimination
  rw [gaussStC_eq M n hpos hrect hnes]
  generalize gaussSt M = s
  obtain ⟨L, A, R, fl⟩ := s
  cases fl <;> rfl

/-- **No `IndexError`.**  On every matrix of the property's domain the checked model never reports
    `IndexError` (nor a zero division, nor exhausted fuel): it returns a triple, the one the totalised
    model returns. -/
theorem sge_no_index_error (M : EMat) (n : Nat) (hpos : 0 < M.length) (hrect : Rect M n) (hnes : NESM M)
    (hnz : NZM M) :
    gaussianEliminationC M ≠ .indexError ∧
    ∃ L A R, gaussianEliminationC M = .ok L A R ∧ gaussianElimination M = .ok L A R := by
  obtain ⟨L, A, R, h⟩ := sge_total M n hpos hrect hnes hnz
  have hc := checked_eq_total M n hpos hrect hnes
  rw [h] at hc
  exact ⟨by rw [hc]; simp [Outcome.toC], L, A, R, hc, h⟩

/-- Without the hypothesis on the coefficients: still no `IndexError` (the only exception left is the
    `ZeroDivisionError` of a pivot `(0, s)`). -/
theorem sge_no_index_error_any_coefficients (M : EMat) (n : Nat) (hpos : 0 < M.length) (hrect : Rect M n)
    (hnes : NESM M) : gaussianEliminationC M ≠ .indexError := by
  rw [checked_eq_total M n hpos hrect hnes]
  cases gaussianElimination M <;> simp [Outcome.toC]

/-- **Exactness for the checked model** (headline restatement of `sge_exact` + `sge_total`): on in-domain
    input the checked model returns a triple `(L, M', R)`, no access of the run was out of range, and
    `L · eval ρ M' · R = eval ρ M` with compatible shapes, `M'` not larger than `M`. -/
theorem sge_exact_checked (M : EMat) (n : Nat) (hpos : 0 < M.length) (hrect : Rect M n) (hnes : NESM M)
    (hnz : NZM M) :
    ∃ L A R, gaussianEliminationC M = .ok L A R ∧
      L.length = M.length ∧ Rect L A.length ∧ Rect A R.length ∧ Rect R n ∧
      0 < A.length ∧ A.length ≤ M.length ∧ R.length ≤ n ∧
      (∀ (ρ : Nat → Rat) (i j : Nat), i < M.length → j < n →
        sumN A.length (fun k => sumN R.length (fun l => gR L i k * gE ρ A k l * gR R l j)) = gE ρ M i j) ∧
      ∀ ρ : Nat → Rat, matMul (matMul L (evalM ρ A) R.length) R n = evalM ρ M := by
  obtain ⟨_, L, A, R, hc, h⟩ := sge_no_index_error M n hpos hrect hnes hnz
  obtain ⟨⟨h1, h2, h3, h4⟩, ⟨h5, h6, h7⟩, hex⟩ := sge_exact M n hpos hrect hnes L A R h
  exact ⟨L, A, R, hc, h1, h2, h3, h4, h5, h6, h7, hex,
    fun ρ => sge_exact_matrix M n hpos hrect hnes L A R h ρ⟩

/-- Exactness of whatever triple the checked model returns (no hypothesis on the coefficients). -/
theorem sge_exact_checked_of_ok (M : EMat) (n : Nat) (hpos : 0 < M.length) (hrect : Rect M n)
    (hnes : NESM M) (L : RMat) (A : EMat) (R : RMat) (h : gaussianEliminationC M = .ok L A R) :
    gaussianElimination M = .ok L A R ∧
    ∀ ρ : Nat → Rat, matMul (matMul L (evalM ρ A) R.length) R n = evalM ρ M := by
  have hc := checked_eq_total M n hpos hrect hnes
  rw [h] at hc
  have ht : gaussianElimination M = .ok L A R := by
    cases hg : gaussianElimination M with
    | ok L' A' R' =>
      rw [hg] at hc
      simp only [Outcome.toC, OutcomeC.ok.injEq] at hc
      obtain ⟨rfl, rfl, rfl⟩ := hc
      rfl
    | zeroDiv => rw [hg] at hc; simp [Outcome.toC] at hc
    | fuelOut => rw [hg] at hc; simp [Outcome.toC] at hc
  exact ⟨ht, fun ρ => sge_exact_matrix M n hpos hrect hnes L A R ht ρ⟩

/-- Non-vacuity: the checked model on the examples of `sge_exact`, and the zero-coefficient pivot. -/
example : gaussianEliminationC [[.num 1, .num 2], [.num 2, .num 4]]
    = .ok [[1], [2]] [[.num 1]] [[1, 2]] := by decide +kernel

example : gaussianEliminationC
    [[.num 1, .sym 1 1, .num 0], [.num 2, .num 4, .sym 1 2], [.num 3, .sym 1 1, .sym 1 2]]
    = .ok [[1, 0, 0], [0, 1, 0], [3, 0, 1]]
        [[.num 1, .sym 1 1, .num 0], [.num 2, .num 4, .sym 1 2], [.num 0, .sym (-2) 1, .sym 1 2]]
        [[1, 0, 0], [0, 1, 0], [0, 0, 1]] := by decide +kernel

example : gaussianEliminationC [[.sym 0 1], [.sym 1 1]] = .zeroDiv := by decide +kernel

/-! ### non-rectangular input (outside the domain): where the code raises `IndexError` -/

/-- A ragged matrix on which the Python code raises `IndexError` (in `are_parallel_col`: `row[col2]` of the
    short second row; replayed on the real code by the harness): the checked model reports it, while the
    totalised model reads a default there and returns a triple. -/
theorem ragged_index_error_witness :
    gaussianEliminationC [[.num 1, .num 2], [.sym 1 1]] = .indexError ∧
    gaussianElimination [[.num 1, .num 2], [.sym 1 1]]
      = .ok [[1, 0], [0, 1]] [[.num 1, .num 0], [.sym 1 1]] [[1, 2], [0, 1]] ∧
    ¬ ∃ n, Rect [[Entry.num 1, Entry.num 2], [Entry.sym 1 1]] n := by
  refine ⟨by decide +kernel, by decide +kernel, ?_⟩
  intro ⟨n, h⟩
  have h1 := h [.num 1, .num 2] (by simp)
  have h2 := h [.sym 1 1] (by simp)
  simp at h1 h2
  omega

/-- The empty matrix: `len(matrix[0])` raises `IndexError`. -/
theorem empty_matrix_index_error : gaussianEliminationC [] = .indexError := by decide +kernel

/-- Later sources of `IndexError` on ragged input: the pivot `matrix[i][i]` of `row_elimination`
    (short second row, `[[a, 1], [b]]` reaches `i = 1`), and `del row[col_0]` … -/
theorem ragged_index_error_in_elimination :
    gaussianEliminationC [[.sym 1 1, .num 1], [.sym 1 2]] = .indexError := by decide +kernel

/-- Raggedness alone does not make the code raise: with a short FIRST row every access stays in range and a
    ragged triple is returned (checked model and code agree, see the correspondence). -/
theorem ragged_without_error_witness :
    gaussianEliminationC [[.num 1], [.sym 1 1, .num 2]]
      = .ok [[1, 0], [0, 1]] [[.num 1], [.sym 1 1, .num 2]] [[1]] := by decide +kernel

end Ptn.C13
