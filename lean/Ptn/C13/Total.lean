import Ptn.C13.Lemmas
/-! Totality for C13: on in-domain input (symbolic entries with non-zero coefficient) the model never
reports `zeroDiv`, and the fuel of the three `while` loops always suffices (core Lean only). -/
namespace Ptn.C13

/-- A symbolic entry has a non-zero coefficient. -/
def Entry.NZ : Entry → Prop
  | .num _ => True
  | .sym q _ => q ≠ 0

/-- Every symbolic entry of the matrix has a non-zero coefficient. -/
def NZM (A : EMat) : Prop := ∀ r, r ∈ A → ∀ e, e ∈ r → e.NZ

theorem nz_gM {A : EMat} (h : NZM A) (i j : Nat) : (gM (Entry.num 0) A i j).NZ := by
  simp only [gM_def]
  cases hi : A[i]? with
  | none => simp [Entry.NZ]
  | some r =>
    simp only [Option.getD_some]
    cases hj : r[j]? with
    | none => simp [Entry.NZ]
    | some e => exact h r (List.mem_of_getElem? hi) e (List.mem_of_getElem? hj)

theorem nz_getD {r : List Entry} (h : ∀ e, e ∈ r → e.NZ) (j : Nat) : (r.getD j (Entry.num 0)).NZ := by
  simp only [List.getD_eq_getElem?_getD]
  cases hj : r[j]? with
  | none => simp [Entry.NZ]
  | some e => exact h e (List.mem_of_getElem? hj)

theorem rat_mul_ne_zero {a b : Rat} (ha : a ≠ 0) (hb : b ≠ 0) : a * b ≠ 0 := by
  intro h
  rcases Rat.mul_eq_zero.mp h with h | h
  · exact ha h
  · exact hb h

theorem rat_div_ne_zero {a b : Rat} (ha : a ≠ 0) (hb : b ≠ 0) : a / b ≠ 0 := by
  intro h
  apply ha
  have : a = (a / b) * b := by grind
  rw [this, h]
  grind

theorem rat_neg_ne_zero {a : Rat} (ha : a ≠ 0) : -a ≠ 0 := by
  intro h
  apply ha
  grind

/-- In-domain pivots never divide by zero, and the factor is non-zero. -/
theorem elimFactor_nz {pivot e : Entry} {f : Rat} {zd : Bool} (h : elimFactor pivot e = some (f, zd))
    (hp : pivot.NZ) (hpz : pivot.isZero = false) (he : e.NZ) (hez : e.isZero = false) :
    zd = false ∧ f ≠ 0 := by
  cases pivot with
  | num pq =>
    cases e with
    | num eq =>
      simp only [elimFactor, Option.some.injEq, Prod.mk.injEq] at h
      obtain ⟨rfl, rfl⟩ := h
      have hp0 : pq ≠ 0 := by simpa [Entry.isZero] using hpz
      have he0 : eq ≠ 0 := by simpa [Entry.isZero] using hez
      exact ⟨by simp [hp0], rat_div_ne_zero (rat_neg_ne_zero he0) hp0⟩
    | sym ec es => simp [elimFactor] at h
  | sym pc ps =>
    cases e with
    | num eq => simp [elimFactor] at h
    | sym ec es =>
      simp only [elimFactor] at h
      by_cases hs : ps = es
      · simp only [hs, if_true, Option.some.injEq, Prod.mk.injEq] at h
        obtain ⟨rfl, rfl⟩ := h
        have hp0 : pc ≠ 0 := hp
        have he0 : ec ≠ 0 := he
        exact ⟨by simp [hp0], rat_div_ne_zero (rat_neg_ne_zero he0) hp0⟩
      · simp [hs] at h

theorem addEntry_nz {f : Rat} {t s e : Entry} (h : addEntry f t s = some e) (hf : f ≠ 0)
    (ht : t.NZ) (hs : s.NZ) : e.NZ := by
  cases s with
  | num sq =>
    cases t with
    | num tq =>
      simp only [addEntry, Option.some.injEq] at h
      subst h; trivial
    | sym tc tv =>
      simp only [addEntry] at h
      by_cases h0 : sq = 0
      · simp only [h0, ne_eq, not_true_eq_false, if_false, Option.some.injEq] at h
        subst h; exact ht
      · simp [h0] at h
  | sym sc sv =>
    cases t with
    | num tq =>
      simp only [addEntry] at h
      by_cases h0 : tq = 0
      · simp only [h0, if_true, Option.some.injEq] at h
        subst h
        exact rat_mul_ne_zero hf hs
      · simp [h0] at h
    | sym tc tv =>
      simp only [addEntry] at h
      by_cases hv : tv = sv
      · simp only [hv, if_true] at h
        by_cases hn : tc + f * sc = 0
        · simp only [hn, if_true, Option.some.injEq] at h
          subst h; trivial
        · simp only [hn, if_false, Option.some.injEq] at h
          subst h; exact hn
      · simp [hv] at h

theorem addLine_nz (f : Rat) (hf : f ≠ 0) : ∀ (ts ss r : List Entry), addLine f ts ss = some r →
    (∀ e, e ∈ ts → e.NZ) → (∀ e, e ∈ ss → e.NZ) → ∀ e, e ∈ r → e.NZ := by
  intro ts
  induction ts with
  | nil =>
    intro ss r h _ _ e he
    simp only [addLine, Option.some.injEq] at h
    subst h
    simp at he
  | cons t ts ih =>
    intro ss r h ht hs e he
    cases ss with
    | nil =>
      simp only [addLine, Option.some.injEq] at h
      subst h
      simp at he
    | cons s ss =>
      simp only [addLine] at h
      split at h
      · rename_i e0 es he0 hes
        simp only [Option.some.injEq] at h
        subst h
        rcases List.mem_cons.mp he with he | he
        · subst he
          exact addEntry_nz he0 hf (ht t (by simp)) (hs s (by simp))
        · exact ih ss es hes (fun x hx => ht x (by simp [hx])) (fun x hx => hs x (by simp [hx])) e he
      · simp at h

theorem rowAddRaw_nz {A A' : EMat} {t s : Nat} {f : Rat} {z : Bool} (h : rowAddRaw A t s f = some (A', z))
    (hf : f ≠ 0) (hA : NZM A) : NZM A' := by
  simp only [rowAddRaw] at h
  split at h
  · simp at h
  · rename_i r hr
    simp only [Option.some.injEq, Prod.mk.injEq] at h
    obtain ⟨rfl, _⟩ := h
    have hrow : ∀ k, ∀ e, e ∈ A.getD k [] → e.NZ := by
      intro k e he
      simp only [List.getD_eq_getElem?_getD] at he
      cases hk : A[k]? with
      | none => simp [hk] at he
      | some r0 =>
        simp only [hk, Option.getD_some] at he
        exact hA r0 (List.mem_of_getElem? hk) e he
    intro r' hr' e he
    rcases List.mem_or_eq_of_mem_set hr' with h1 | h1
    · exact hA r' h1 e he
    · subst h1
      exact addLine_nz f hf _ _ _ hr (hrow t) (hrow s) e he

theorem addCol_nz (f : Rat) (hf : f ≠ 0) (t s : Nat) : ∀ (A : EMat) (c : List Entry),
    addCol f t s A = some c → NZM A → ∀ e, e ∈ c → e.NZ := by
  intro A
  induction A with
  | nil =>
    intro c h _ e he
    simp only [addCol, Option.some.injEq] at h
    subst h
    simp at he
  | cons row rest ih =>
    intro c h hA e he
    simp only [addCol] at h
    split at h
    · rename_i e0 es he0 hes
      simp only [Option.some.injEq] at h
      subst h
      have hrow : ∀ x, x ∈ row → x.NZ := hA row (by simp)
      rcases List.mem_cons.mp he with he | he
      · subst he
        exact addEntry_nz he0 hf (nz_getD hrow t) (nz_getD hrow s)
      · exact ih es hes (fun r hr => hA r (by simp [hr])) e he
    · simp at h

theorem colAddRaw_nz {A A' : EMat} {t s : Nat} {f : Rat} {z : Bool} (h : colAddRaw A t s f = some (A', z))
    (hf : f ≠ 0) (hA : NZM A) : NZM A' := by
  simp only [colAddRaw] at h
  split at h
  · simp at h
  · rename_i c hc
    simp only [Option.some.injEq, Prod.mk.injEq] at h
    obtain ⟨rfl, _⟩ := h
    have hcz := addCol_nz f hf t s A c hc hA
    intro r' hr' e he
    obtain ⟨i, hi, rfl⟩ := List.getElem_of_mem hr'
    simp only [List.getElem_zipWith] at he
    rcases List.mem_or_eq_of_mem_set he with h1 | h1
    · exact hA _ (List.getElem_mem _) e h1
    · subst h1
      exact hcz _ (List.getElem_mem _)

theorem nzm_rowSwap {A : EMat} (h : NZM A) (a b : Nat) : NZM (rowSwapM A a b) :=
  fun r hr e he => h r (mem_listSwap hr) e he

theorem nzm_colSwap {A : EMat} (h : NZM A) (a b : Nat) : NZM (colSwapM A a b) := by
  intro r hr e he
  simp only [colSwapM, List.mem_map] at hr
  obtain ⟨r0, hr0, rfl⟩ := hr
  exact h r0 hr0 e (mem_listSwap he)

theorem nzm_delRow {A : EMat} (h : NZM A) (z : Nat) : NZM (delRow A z) :=
  fun r hr e he => h r (List.mem_of_mem_eraseIdx hr) e he

theorem nzm_delCol {A : EMat} (h : NZM A) (z : Nat) : NZM (delCol A z) := by
  intro r hr e he
  simp only [delCol, List.mem_map] at hr
  obtain ⟨r0, hr0, rfl⟩ := hr
  exact h r0 hr0 e (List.mem_of_mem_eraseIdx he)

/-- The part of the state that totality is about. -/
structure OKS (s : St) : Prop where
  nz : NZM s.A
  ok : s.flag = .ok

theorem oks_delRows : ∀ (zs : List Nat) (s : St), OKS s → OKS (s.delRows zs) := by
  intro zs
  induction zs with
  | nil => intro s h; exact h
  | cons z zs ih =>
    intro s h
    rw [delRows_cons]
    exact ih _ ⟨nzm_delRow h.nz z, h.ok⟩

theorem oks_delCols : ∀ (zs : List Nat) (s : St), OKS s → OKS (s.delCols zs) := by
  intro zs
  induction zs with
  | nil => intro s h; exact h
  | cons z zs ih =>
    intro s h
    rw [delCols_cons]
    exact ih _ ⟨nzm_delCol h.nz z, h.ok⟩

theorem oks_rowAdd (st : St) (t s : Nat) (f : Rat) (hf : f ≠ 0) (h : OKS st) : OKS (st.rowAdd t s f).1 := by
  unfold St.rowAdd
  split
  · exact h
  · rename_i A' z hr
    exact ⟨rowAddRaw_nz hr hf h.nz, h.ok⟩

theorem oks_colAdd (st : St) (t s : Nat) (f : Rat) (hf : f ≠ 0) (h : OKS st) : OKS (st.colAdd t s f).1 := by
  unfold St.colAdd
  split
  · exact h
  · rename_i A' z hr
    exact ⟨colAddRaw_nz hr hf h.nz, h.ok⟩

theorem oks_rowPivot (i : Nat) (s : St) (h : OKS s) : OKS (rowPivot i s) := by
  unfold rowPivot
  split
  · split
    · exact ⟨nzm_rowSwap h.nz _ _, h.ok⟩
    · exact h
  · exact h

theorem oks_colPivot (j : Nat) (s : St) (h : OKS s) : OKS (colPivot j s) := by
  unfold colPivot
  split
  · split
    · exact ⟨nzm_colSwap h.nz _ _, h.ok⟩
    · exact h
  · exact h

theorem oks_rowElimInner (i : Nat) (pivot : Entry) (hp : pivot.NZ) (hpz : pivot.isZero = false)
    (acc : St × List Nat) (j : Nat) (h : OKS acc.1) : OKS (rowElimInner i pivot acc j).1 := by
  unfold rowElimInner
  simp only
  split
  · rename_i hc
    split
    · exact h
    · rename_i f zd hf
      have hez : (gM (Entry.num 0) acc.1.A j i).isZero = false := by
        have := hc.2
        simpa using this
      obtain ⟨hzd, hf0⟩ := elimFactor_nz hf hp hpz (nz_gM h.nz j i) hez
      subst hzd
      exact oks_rowAdd _ _ _ _ hf0 h
  · exact h

theorem oks_colElimInner (j : Nat) (pivot : Entry) (hp : pivot.NZ) (hpz : pivot.isZero = false)
    (acc : St × List Nat) (i : Nat) (h : OKS acc.1) : OKS (colElimInner j pivot acc i).1 := by
  unfold colElimInner
  simp only
  split
  · rename_i hc
    split
    · exact h
    · rename_i f zd hf
      have hez : (gM (Entry.num 0) acc.1.A j i).isZero = false := by
        have := hc.2
        simpa using this
      obtain ⟨hzd, hf0⟩ := elimFactor_nz hf hp hpz (nz_gM h.nz j i) hez
      subst hzd
      exact oks_colAdd _ _ _ _ hf0 h
  · exact h

theorem oks_rowElimStep (i : Nat) (s : St) (h : OKS s) : OKS (rowElimStep i s) := by
  have h1 := oks_rowPivot i s h
  unfold rowElimStep
  simp only
  split
  · exact h1
  · rename_i hpz
    apply oks_delRows
    apply foldl_mem_inv (rowElimInner i _) (fun acc => OKS acc.1) _ _ h1
    intro j acc _ hacc
    exact oks_rowElimInner i _ (nz_gM h1.nz i i) (by simpa using hpz) acc j hacc

theorem oks_colElimStep (j : Nat) (s : St) (h : OKS s) : OKS (colElimStep j s) := by
  have h1 := oks_colPivot j s h
  unfold colElimStep
  simp only
  split
  · exact h1
  · rename_i hpz
    apply oks_delCols
    apply foldl_mem_inv (colElimInner j _) (fun acc => OKS acc.1) _ _ h1
    intro i acc _ hacc
    exact oks_colElimInner j _ (nz_gM h1.nz j j) (by simpa using hpz) acc i hacc

/-- `row_elimination` stays in the domain and its fuel suffices. -/
theorem oks_rowElimLoop (n : Nat) : ∀ (fuel i : Nat) (s : St), WS n s → OKS s →
    min s.A.length s.R.length ≤ fuel + i → OKS (rowElimLoop fuel i s) := by
  intro fuel
  induction fuel with
  | zero =>
    intro i s hws h hfuel
    unfold rowElimLoop
    rw [width_eq hws]
    split
    · omega
    · exact h
  | succ fuel ih =>
    intro i s hws h hfuel
    unfold rowElimLoop
    rw [width_eq hws]
    split
    · rename_i hc
      obtain ⟨ws1, hR, _, hA, _⟩ := rowRel_rowElimStep n i s (by omega) hws
      apply ih (i + 1) _ ws1 (oks_rowElimStep i s h)
      rw [hR]
      omega
    · exact h

theorem oks_colElimLoop (n : Nat) : ∀ (fuel j : Nat) (s : St), WS n s → OKS s →
    min s.A.length s.R.length ≤ fuel + j → OKS (colElimLoop fuel j s) := by
  intro fuel
  induction fuel with
  | zero =>
    intro j s hws h hfuel
    unfold colElimLoop
    rw [width_eq hws]
    split
    · omega
    · exact h
  | succ fuel ih =>
    intro j s hws h hfuel
    unfold colElimLoop
    rw [width_eq hws]
    split
    · rename_i hc
      obtain ⟨ws1, _, hA, hR, _⟩ := colRel_colElimStep n j s (by omega) hws
      apply ih (j + 1) _ ws1 (oks_colElimStep j s h)
      rw [hA]
      omega
    · exact h

theorem oks_rowElimination (n : Nat) (s : St) (hws : WS n s) (h : OKS s) : OKS (rowElimination s) := by
  unfold rowElimination
  apply oks_rowElimLoop n _ 0 s hws h
  rw [width_eq hws]
  omega

theorem oks_columnElimination (n : Nat) (s : St) (hws : WS n s) (h : OKS s) :
    OKS (columnElimination s) := by
  unfold columnElimination
  apply oks_colElimLoop n _ 0 s hws h
  rw [width_eq hws]
  omega

/-! ### deparallelisation -/

theorem oks_deparallelizeRows (s : St) (h : OKS s) : OKS (deparallelizeRows s) := by
  unfold deparallelizeRows
  simp only
  apply oks_delRows
  apply foldl_mem_inv (deparRowsOuter s.A) (fun acc => OKS acc.1) _ _ h
  intro i acc _ hacc
  unfold deparRowsOuter
  split
  · exact hacc
  · apply foldl_mem_inv (deparRowsInner s.A i) (fun acc => OKS acc.1) _ _ hacc
    intro j acc _ hacc
    unfold deparRowsInner
    split
    · exact hacc
    · simp only
      split
      · exact ⟨hacc.nz, hacc.ok⟩
      · exact hacc

theorem oks_deparallelizeCols (s : St) (h : OKS s) : OKS (deparallelizeCols s) := by
  unfold deparallelizeCols
  simp only
  apply oks_delCols
  apply foldl_mem_inv (deparColsOuter s.A) (fun acc => OKS acc.1) _ _ h
  intro i acc _ hacc
  unfold deparColsOuter
  split
  · exact hacc
  · apply foldl_mem_inv (deparColsInner s.A i) (fun acc => OKS acc.1) _ _ hacc
    intro j acc _ hacc
    unfold deparColsInner
    split
    · exact hacc
    · simp only
      split
      · exact ⟨hacc.nz, hacc.ok⟩
      · exact hacc

/-! ### the outer fixed-point loop -/

theorem mainLoop_stop (fuel nr nro nc nco : Nat) (s : St) (h : ¬ (nr ≠ nro ∨ nc ≠ nco)) :
    mainLoop fuel nr nro nc nco s = s := by
  cases fuel with
  | zero => unfold mainLoop; simp [h]
  | succ fuel => unfold mainLoop; simp [h]

theorem oks_mainLoop {m n : Nat} {F : (Nat → Rat) → Nat → Nat → Rat} :
    ∀ (fuel nr nro nc nco : Nat) (s : St), Good m n F s → OKS s →
      s.A.length ≤ nr → s.R.length ≤ nc → nr + nc < fuel → OKS (mainLoop fuel nr nro nc nco s) := by
  intro fuel
  induction fuel with
  | zero => intro nr nro nc nco s _ _ _ _ hf; omega
  | succ fuel ih =>
    intro nr nro nc nco s hg h hnr hnc hf
    unfold mainLoop
    split
    · simp only
      have rr := rowRel_rowElimination n s
      have g1 := good_of_rowRel hg rr
      have o1 := oks_rowElimination n s hg.ws h
      have cr := colRel_columnElimination n (rowElimination s)
      have g2 := good_of_colRel g1 cr
      have o2 := oks_columnElimination n _ g1.ws o1
      obtain ⟨_, hR1, _, hA1, _⟩ := rr hg.ws
      obtain ⟨_, _, hA2, hR2, _⟩ := cr g1.ws
      have hw : width (columnElimination (rowElimination s)).A
          = (columnElimination (rowElimination s)).R.length := width_eq g2.ws
      rw [hw]
      by_cases hstop : (columnElimination (rowElimination s)).A.length = nr
          ∧ (columnElimination (rowElimination s)).R.length = nc
      · rw [mainLoop_stop]
        · exact o2
        · simp [hstop.1, hstop.2]
      · apply ih _ _ _ _ _ g2 o2 (Nat.le_refl _) (Nat.le_refl _)
        rw [hR1] at hR2
        omega
    · exact h

/-- On in-domain input the state at the `return` has its flag unset. -/
theorem oks_gaussSt (M : EMat) (n : Nat) (hpos : 0 < M.length) (hrect : Rect M n) (hnes : NESM M)
    (hnz : NZM M) : OKS (gaussSt M) := by
  unfold gaussSt
  simp only
  rw [width_of_rect hrect hpos]
  have g0 := good_init M n hpos hrect
  have o0 : OKS { L := identity M.length, A := M, R := identity n, flag := .ok } := ⟨hnz, rfl⟩
  have g1 := good_of_rowRel g0 (rowRel_deparallelizeRows n _ hnes)
  have o1 := oks_deparallelizeRows _ o0
  have hnes1 := nesm_deparallelizeRows n _ g0.ws hnes
  have g2 := good_of_colRel g1 (colRel_deparallelizeCols n _ hnes1)
  have o2 := oks_deparallelizeCols _ o1
  exact oks_mainLoop _ _ _ _ _ _ g2 o2 g2.rows_le g2.cols_le (by omega)

end Ptn.C13
