import Ptn.C13.CheckedPrim
/-! Simulation for C13 (core Lean only): along the control flow of `gaussian_elimination` the checked model
(`Checked.lean`, exceptions abort) and the totalised model (`Model.lean`, exceptions are recorded in the
flag and the run goes on) agree on every well-shaped state: the checked run never raises `IndexError`, it
stops with `ZeroDivisionError` / exhausted fuel exactly when the totalised run ends with that flag, and
otherwise returns the same state. -/
namespace Ptn.C13

/-- What a run of the checked model answers when the totalised run ends in `a` with flag `fl`. -/
def flagRes {σ : Type} (fl : Flag) (a : σ) : Chk σ :=
  match fl with
  | .ok => .ok a
  | .zeroDiv => .error .zeroDiv
  | .fuel => .error .fuel

def resG {σ : Type} (fl : σ → Flag) (a : σ) : Chk σ := flagRes (fl a) a

/-- A totalised final state as an answer of the checked model. -/
def res (s : St) : Chk St := resG (·.flag) s

/-- The same for the accumulators `(state, zero lines)` of the inner loops. -/
def resP (p : St × List Nat) : Chk (St × List Nat) := resG (·.1.flag) p

theorem resG_ok {σ : Type} {fl : σ → Flag} {a : σ} (h : fl a = .ok) : resG fl a = .ok a := by
  simp [resG, flagRes, h]

theorem resG_congr {σ : Type} {fl : σ → Flag} {a b : σ} (h : fl b = fl a) (hne : fl a ≠ .ok) :
    resG fl b = resG fl a := by
  unfold resG
  rw [h]
  cases hf : fl a with
  | ok => exact absurd hf hne
  | zeroDiv => rfl
  | fuel => rfl

theorem res_ok {s : St} (h : s.flag = .ok) : res s = .ok s := resG_ok h
theorem resP_ok {p : St × List Nat} (h : p.1.flag = .ok) : resP p = .ok p := resG_ok h

/-- `x >>= g` where `x` is the answer for `a`: continue if the flag is unset, else the run has stopped
    and `b` (the totalised continuation) must carry the same flag. -/
theorem resG_bind {σ τ : Type} {fl : σ → Flag} {fl' : τ → Flag} (a : σ) (b : τ) (g : σ → Chk τ)
    (hok : fl a = .ok → g a = resG fl' b) (hst : fl a ≠ .ok → fl' b = fl a) :
    (resG fl a >>= g) = resG fl' b := by
  unfold resG at *
  cases hf : fl a with
  | ok => simp only [flagRes, chk_bind_ok]; exact hok hf
  | zeroDiv =>
    have := hst (by rw [hf]; simp)
    rw [this, hf]; rfl
  | fuel =>
    have := hst (by rw [hf]; simp)
    rw [this, hf]; rfl

theorem foldl_sticky {σ β : Type} (fl : σ → Flag) (f : σ → β → σ)
    (hsticky : ∀ acc x, fl acc ≠ .ok → fl (f acc x) = fl acc) :
    ∀ (l : List β) (s : σ), fl s ≠ .ok → fl (l.foldl f s) = fl s := by
  intro l
  induction l with
  | nil => intro s _; rfl
  | cons x l ih =>
    intro s h
    simp only [List.foldl_cons]
    have h1 := hsticky s x h
    rw [ih _ (by rw [h1]; exact h), h1]

/-- The generic loop lemma: a `for` loop over a range whose body is simulated under an invariant. -/
theorem foldC_range'_sim {σ : Type} (fl : σ → Flag) (fC : σ → Nat → Chk σ) (f : σ → Nat → σ)
    (P : Nat → σ → Prop) (hsticky : ∀ acc x, fl acc ≠ .ok → fl (f acc x) = fl acc) :
    ∀ (m a : Nat) (s0 : σ), P a s0 → fl s0 = .ok →
    (∀ j s, a ≤ j → j < a + m → P j s → P (j + 1) (f s j)) →
    (∀ j s, a ≤ j → j < a + m → P j s → fl s = .ok → fC s j = resG fl (f s j)) →
    foldC fC s0 (List.range' a m) = resG fl ((List.range' a m).foldl f s0) := by
  intro m
  induction m with
  | zero =>
    intro a s0 _ hok _ _
    simp only [List.range'_zero, foldC, List.foldl_nil]
    exact (resG_ok hok).symm
  | succ m ih =>
    intro a s0 hP hok hstep hsim
    rw [List.range'_succ]
    simp only [foldC, List.foldl_cons]
    rw [hsim a s0 (Nat.le_refl a) (by omega) hP hok]
    have hP1 := hstep a s0 (Nat.le_refl a) (by omega) hP
    by_cases h1 : fl (f s0 a) = .ok
    · rw [resG_ok h1]
      exact ih (a + 1) (f s0 a) hP1 h1 (fun j s h2 h3 => hstep j s (by omega) (by omega))
        (fun j s h2 h3 => hsim j s (by omega) (by omega))
    · have hfl := foldl_sticky fl f hsticky (List.range' (a + 1) m) (f s0 a) h1
      rw [resG_congr hfl h1]
      unfold resG
      cases hf : fl (f s0 a) with
      | ok => exact absurd hf h1
      | zeroDiv => rfl
      | fuel => rfl

/-! ### flags of the totalised operations -/

@[simp] theorem raise_flag_of_ok {s : St} (f : Flag) (h : s.flag = .ok) : (s.raise f).flag = f := by
  simp [St.raise, h]

theorem raise_flag_sticky {s : St} (f : Flag) (h : s.flag ≠ .ok) : (s.raise f).flag = s.flag := by
  simp [St.raise, h]

theorem raise_eq_of_ne {s : St} (f : Flag) (h : s.flag ≠ .ok) : s.raise f = s := by
  simp [St.raise, h]

@[simp] theorem rowAdd_flag (st : St) (t s : Nat) (f : Rat) : (st.rowAdd t s f).1.flag = st.flag := by
  unfold St.rowAdd; split <;> rfl

@[simp] theorem colAdd_flag (st : St) (t s : Nat) (f : Rat) : (st.colAdd t s f).1.flag = st.flag := by
  unfold St.colAdd; split <;> rfl

@[simp] theorem delRows_flag : ∀ (zs : List Nat) (s : St), (s.delRows zs).flag = s.flag := by
  intro zs
  induction zs with
  | nil => intro s; rfl
  | cons z zs ih => intro s; rw [delRows_cons, ih]

@[simp] theorem delCols_flag : ∀ (zs : List Nat) (s : St), (s.delCols zs).flag = s.flag := by
  intro zs
  induction zs with
  | nil => intro s; rfl
  | cons z zs ih => intro s; rw [delCols_cons, ih]

@[simp] theorem rowPivot_flag (i : Nat) (s : St) : (rowPivot i s).flag = s.flag := by
  unfold rowPivot; split
  · split <;> rfl
  · rfl

@[simp] theorem colPivot_flag (j : Nat) (s : St) : (colPivot j s).flag = s.flag := by
  unfold colPivot; split
  · split <;> rfl
  · rfl

theorem rowElimInner_sticky (i : Nat) (pivot : Entry) (acc : St × List Nat) (j : Nat)
    (h : acc.1.flag ≠ .ok) : (rowElimInner i pivot acc j).1.flag = acc.1.flag := by
  unfold rowElimInner
  simp only
  split
  · split
    · rfl
    · simp only [rowAdd_flag]
      split
      · exact raise_flag_sticky _ h
      · rfl
  · rfl

theorem colElimInner_sticky (j : Nat) (pivot : Entry) (acc : St × List Nat) (i : Nat)
    (h : acc.1.flag ≠ .ok) : (colElimInner j pivot acc i).1.flag = acc.1.flag := by
  unfold colElimInner
  simp only
  split
  · split
    · rfl
    · simp only [colAdd_flag]
      split
      · exact raise_flag_sticky _ h
      · rfl
  · rfl

theorem rowElimStep_sticky (i : Nat) (s : St) (h : s.flag ≠ .ok) : (rowElimStep i s).flag = s.flag := by
  unfold rowElimStep
  simp only
  split
  · simp
  · rw [delRows_flag]
    have := foldl_sticky (σ := St × List Nat) (·.1.flag) (rowElimInner i (gM (Entry.num 0) (rowPivot i s).A i i))
      (fun acc x hx => rowElimInner_sticky i _ acc x hx) (List.range (rowPivot i s).A.length)
      (rowPivot i s, []) (by simpa using h)
    simpa using this

theorem colElimStep_sticky (j : Nat) (s : St) (h : s.flag ≠ .ok) : (colElimStep j s).flag = s.flag := by
  unfold colElimStep
  simp only
  split
  · simp
  · rw [delCols_flag]
    have := foldl_sticky (σ := St × List Nat) (·.1.flag) (colElimInner j (gM (Entry.num 0) (colPivot j s).A j j))
      (fun acc x hx => colElimInner_sticky j _ acc x hx) (List.range (width (colPivot j s).A))
      (colPivot j s, []) (by simpa using h)
    simpa using this

theorem rowElimLoop_sticky : ∀ (fuel i : Nat) (s : St), s.flag ≠ .ok → (rowElimLoop fuel i s).flag = s.flag := by
  intro fuel
  induction fuel with
  | zero =>
    intro i s h
    unfold rowElimLoop
    split
    · exact raise_flag_sticky _ h
    · rfl
  | succ fuel ih =>
    intro i s h
    unfold rowElimLoop
    split
    · have h1 := rowElimStep_sticky i s h
      rw [ih (i + 1) _ (by rw [h1]; exact h), h1]
    · rfl

theorem colElimLoop_sticky : ∀ (fuel j : Nat) (s : St), s.flag ≠ .ok → (colElimLoop fuel j s).flag = s.flag := by
  intro fuel
  induction fuel with
  | zero =>
    intro j s h
    unfold colElimLoop
    split
    · exact raise_flag_sticky _ h
    · rfl
  | succ fuel ih =>
    intro j s h
    unfold colElimLoop
    split
    · have h1 := colElimStep_sticky j s h
      rw [ih (j + 1) _ (by rw [h1]; exact h), h1]
    · rfl

theorem mainLoop_sticky : ∀ (fuel nr nro nc nco : Nat) (s : St), s.flag ≠ .ok →
    (mainLoop fuel nr nro nc nco s).flag = s.flag := by
  intro fuel
  induction fuel with
  | zero =>
    intro nr nro nc nco s h
    unfold mainLoop
    split
    · exact raise_flag_sticky _ h
    · rfl
  | succ fuel ih =>
    intro nr nro nc nco s h
    unfold mainLoop
    split
    · simp only
      have h1 : (rowElimination s).flag = s.flag := rowElimLoop_sticky _ _ s h
      have h2 : (columnElimination (rowElimination s)).flag = s.flag := by
        rw [← h1]
        exact colElimLoop_sticky _ _ _ (by rw [h1]; exact h)
      rw [ih _ _ _ _ _ (by rw [h2]; exact h), h2]
    · rfl

/-! ### the pivot search -/

theorem findNzC_ok (get : Nat → Chk Entry) (g : Nat → Entry) : ∀ (l : List Nat),
    (∀ j, j ∈ l → get j = .ok (g j)) → findNzC get l = .ok (l.find? (fun j => !(g j).isZero)) := by
  intro l
  induction l with
  | nil => intro _; rfl
  | cons j js ih =>
    intro h
    simp only [findNzC, h j (by simp), List.find?_cons]
    cases hz : !(g j).isZero with
    | true => simp
    | false => simpa using ih (fun x hx => h x (by simp [hx]))

theorem rowPivotC_ok (n i : Nat) (s : St) (hws : WS n s) (hi : i < s.A.length) (hiw : i < s.R.length) :
    rowPivotC i s = .ok (rowPivot i s) := by
  unfold rowPivotC rowPivot
  simp only [gMC_ok (Entry.num 0) hws.Arect hi hiw, chk_bind_ok]
  split
  · rw [findNzC_ok (fun j => gMC s.A j i) (fun j => gM (Entry.num 0) s.A j i)]
    · simp only [chk_bind_ok]
      cases hf : (List.range' (i + 1) (s.A.length - (i + 1))).find?
          (fun j => !(gM (Entry.num 0) s.A j i).isZero) with
      | none => rfl
      | some j =>
        have hm := List.mem_of_find?_eq_some hf
        simp only [List.mem_range'_1] at hm
        exact rowSwapC_ok hws.Lrect hi (by omega)
    · intro j hj
      simp only [List.mem_range'_1] at hj
      exact gMC_ok (Entry.num 0) hws.Arect (by omega) hiw
  · rfl

theorem colPivotC_ok (n j : Nat) (s : St) (hws : WS n s) (hj : j < s.A.length) (hjw : j < s.R.length) :
    colPivotC j s = .ok (colPivot j s) := by
  unfold colPivotC colPivot
  simp only [gMC_ok (Entry.num 0) hws.Arect hj hjw, chk_bind_ok]
  split
  · simp only [widthC_ok hws.Apos, chk_bind_ok]
    rw [findNzC_ok (fun i => gMC s.A j i) (fun i => gM (Entry.num 0) s.A j i)]
    · simp only [chk_bind_ok]
      cases hf : (List.range' (j + 1) (width s.A - (j + 1))).find?
          (fun i => !(gM (Entry.num 0) s.A j i).isZero) with
      | none => rfl
      | some i =>
        have hm := List.mem_of_find?_eq_some hf
        simp only [List.mem_range'_1, width_eq hws] at hm
        exact colSwapC_ok hws.Arect hjw (by omega)
    · intro i hi
      simp only [List.mem_range'_1, width_eq hws] at hi
      exact gMC_ok (Entry.num 0) hws.Arect hj (by omega)
  · rfl

/-! ### the inner loops of the eliminations -/

theorem rowElimInnerC_sim (n i : Nat) (pivot : Entry) (s1 : St) (hws1 : WS n s1) (hi : i < s1.A.length)
    (hiw : i < s1.R.length) (j : Nat) (acc : St × List Nat) (hj : j < s1.A.length)
    (h : RowInnerInv n i s1 j acc) (hok : acc.1.flag = .ok) :
    rowElimInnerC i pivot acc j = resP (rowElimInner i pivot acc j) := by
  have hR : acc.1.R = s1.R := (h.rel hws1).2.1
  have hj' : j < acc.1.A.length := by rw [h.len]; exact hj
  have hi' : i < acc.1.A.length := by rw [h.len]; exact hi
  have hiw' : i < acc.1.R.length := by rw [hR]; exact hiw
  unfold rowElimInnerC rowElimInner
  simp only
  by_cases hji : j = i
  · simp only [hji, ne_eq, not_true_eq_false, false_and, if_false, chk_pure]
    exact (resP_ok hok).symm
  · simp only [ne_eq, hji, not_false_eq_true, true_and, if_true,
      gMC_ok (Entry.num 0) h.ws.Arect hj' hiw', chk_bind_ok]
    generalize gM (Entry.num 0) acc.1.A j i = e
    cases hz : e.isZero with
    | true =>
      simp only [Bool.not_true, Bool.false_eq_true, if_false, chk_pure]
      exact (resP_ok hok).symm
    | false =>
      simp only [Bool.not_false, if_true]
      cases hef : elimFactor pivot e with
      | none => exact (resP_ok hok).symm
      | some p =>
        obtain ⟨f, zd⟩ := p
        cases zd with
        | true =>
          simp only [if_true, chk_throw]
          unfold resP resG
          simp only [rowAdd_flag, raise_flag_of_ok _ hok]
          rfl
        | false =>
          simp only [Bool.false_eq_true, if_false, rowAddC_ok f h.ws.Lrect h.ws.Arect hj' hi', chk_bind_ok, chk_pure]
          rw [resP_ok (by simp only [rowAdd_flag]; exact hok)]

theorem colElimInnerC_sim (n j : Nat) (pivot : Entry) (s1 : St) (hws1 : WS n s1) (hj : j < s1.R.length)
    (hjl : j < s1.A.length) (i : Nat) (acc : St × List Nat) (hi : i < s1.R.length)
    (h : ColInnerInv n j s1 i acc) (hok : acc.1.flag = .ok) :
    colElimInnerC j pivot acc i = resP (colElimInner j pivot acc i) := by
  have hA : acc.1.A.length = s1.A.length := (h.rel hws1).2.2.1
  have hi' : i < acc.1.R.length := by rw [h.len]; exact hi
  have hj' : j < acc.1.R.length := by rw [h.len]; exact hj
  have hjl' : j < acc.1.A.length := by rw [hA]; exact hjl
  unfold colElimInnerC colElimInner
  simp only
  by_cases hij : i = j
  · simp only [hij, ne_eq, not_true_eq_false, false_and, if_false, chk_pure]
    exact (resP_ok hok).symm
  · simp only [ne_eq, hij, not_false_eq_true, true_and, if_true,
      gMC_ok (Entry.num 0) h.ws.Arect hjl' hi', chk_bind_ok]
    generalize gM (Entry.num 0) acc.1.A j i = e
    cases hz : e.isZero with
    | true =>
      simp only [Bool.not_true, Bool.false_eq_true, if_false, chk_pure]
      exact (resP_ok hok).symm
    | false =>
      simp only [Bool.not_false, if_true]
      cases hef : elimFactor pivot e with
      | none => exact (resP_ok hok).symm
      | some p =>
        obtain ⟨f, zd⟩ := p
        cases zd with
        | true =>
          simp only [if_true, chk_throw]
          unfold resP resG
          simp only [colAdd_flag, raise_flag_of_ok _ hok]
          rfl
        | false =>
          simp only [Bool.false_eq_true, if_false, colAddC_ok f h.ws.Arect h.ws.Rrect hi' hj', chk_bind_ok, chk_pure]
          rw [resP_ok (by simp only [colAdd_flag]; exact hok)]

/-! ### one pass of the elimination loops -/

theorem rowElimStepC_sim (n i : Nat) (s : St) (hws : WS n s) (hi : i < s.A.length) (hiw : i < s.R.length)
    (hok : s.flag = .ok) : rowElimStepC i s = res (rowElimStep i s) := by
  obtain ⟨p1, p2⟩ := rowPivot_spec n i s hi
  obtain ⟨ws1, pR, _, _, _⟩ := p1 hws
  have hi1 : i < (rowPivot i s).A.length := by rw [p2]; exact hi
  have hiw1 : i < (rowPivot i s).R.length := by rw [pR]; exact hiw
  have hok1 : (rowPivot i s).flag = .ok := by simp [hok]
  unfold rowElimStepC rowElimStep
  simp only [rowPivotC_ok n i s hws hi hiw, chk_bind_ok, gMC_ok (Entry.num 0) ws1.Arect hi1 hiw1]
  split
  · exact (res_ok hok1).symm
  · have inv0 : RowInnerInv n i (rowPivot i s) 0 (rowPivot i s, []) :=
      ⟨ws1, RowRel.refl n _, rfl, List.nodup_nil, fun z hz => by simp at hz⟩
    have hstep : ∀ j acc, 0 ≤ j → j < 0 + (rowPivot i s).A.length →
        RowInnerInv n i (rowPivot i s) j acc →
        RowInnerInv n i (rowPivot i s) (j + 1)
          (rowElimInner i (gM (Entry.num 0) (rowPivot i s).A i i) acc j) :=
      fun j acc _ hj hinv => rowElimInner_inv n i _ (rowPivot i s) hi1 j acc (by omega) hinv
    have sim := foldC_range'_sim (σ := St × List Nat) (·.1.flag)
      (rowElimInnerC i (gM (Entry.num 0) (rowPivot i s).A i i))
      (rowElimInner i (gM (Entry.num 0) (rowPivot i s).A i i))
      (RowInnerInv n i (rowPivot i s))
      (fun acc x hx => rowElimInner_sticky i _ acc x hx)
      (rowPivot i s).A.length 0 (rowPivot i s, []) inv0 hok1 hstep
      (fun j acc _ hj hinv hf =>
        rowElimInnerC_sim n i _ (rowPivot i s) ws1 hi1 hiw1 j acc (by omega) hinv hf)
    have inv := foldl_range'_inv (rowElimInner i (gM (Entry.num 0) (rowPivot i s).A i i))
      (RowInnerInv n i (rowPivot i s)) 0 (rowPivot i s).A.length (rowPivot i s, []) inv0 hstep
    rw [← List.range_eq_range'] at sim inv
    rw [sim]
    generalize (List.range (rowPivot i s).A.length).foldl
      (rowElimInner i (gM (Entry.num 0) (rowPivot i s).A i i)) (rowPivot i s, []) = r at inv
    simp only [Nat.zero_add] at inv
    refine resG_bind (σ := St × List Nat) (τ := St) (fl := fun x => x.1.flag) (fl' := fun x => x.flag)
      r _ _ ?_ ?_
    · intro hr
      rw [delRowsC_ok _ _ (pairwise_sortDesc inv.nd)
        (fun z hz => by rw [inv.len]; exact (inv.zs z (mem_sortDesc.mp hz)).1) inv.ws.Lrect]
      exact (resG_ok (by simp only [delRows_flag]; exact hr)).symm
    · intro _
      simp only [delRows_flag]

theorem colElimStepC_sim (n j : Nat) (s : St) (hws : WS n s) (hj : j < s.R.length) (hjl : j < s.A.length)
    (hok : s.flag = .ok) : colElimStepC j s = res (colElimStep j s) := by
  obtain ⟨p1, p2⟩ := colPivot_spec n j s hj hws
  obtain ⟨ws1, _, pA, _, _⟩ := p1 hws
  have hj1 : j < (colPivot j s).R.length := by rw [p2]; exact hj
  have hjl1 : j < (colPivot j s).A.length := by rw [pA]; exact hjl
  have hok1 : (colPivot j s).flag = .ok := by simp [hok]
  unfold colElimStepC colElimStep
  simp only [colPivotC_ok n j s hws hjl hj, chk_bind_ok, gMC_ok (Entry.num 0) ws1.Arect hjl1 hj1]
  split
  · exact (res_ok hok1).symm
  · simp only [widthC_ok ws1.Apos, chk_bind_ok, width_eq ws1]
    have inv0 : ColInnerInv n j (colPivot j s) 0 (colPivot j s, []) :=
      ⟨ws1, ColRel.refl n _, rfl, List.nodup_nil, fun z hz => by simp at hz⟩
    have hstep : ∀ i acc, 0 ≤ i → i < 0 + (colPivot j s).R.length →
        ColInnerInv n j (colPivot j s) i acc →
        ColInnerInv n j (colPivot j s) (i + 1)
          (colElimInner j (gM (Entry.num 0) (colPivot j s).A j j) acc i) :=
      fun i acc _ hi hinv => colElimInner_inv n j _ (colPivot j s) hj1 i acc (by omega) hinv
    have sim := foldC_range'_sim (σ := St × List Nat) (·.1.flag)
      (colElimInnerC j (gM (Entry.num 0) (colPivot j s).A j j))
      (colElimInner j (gM (Entry.num 0) (colPivot j s).A j j))
      (ColInnerInv n j (colPivot j s))
      (fun acc x hx => colElimInner_sticky j _ acc x hx)
      (colPivot j s).R.length 0 (colPivot j s, []) inv0 hok1 hstep
      (fun i acc _ hi hinv hf =>
        colElimInnerC_sim n j _ (colPivot j s) ws1 hj1 hjl1 i acc (by omega) hinv hf)
    have inv := foldl_range'_inv (colElimInner j (gM (Entry.num 0) (colPivot j s).A j j))
      (ColInnerInv n j (colPivot j s)) 0 (colPivot j s).R.length (colPivot j s, []) inv0 hstep
    rw [← List.range_eq_range'] at sim inv
    rw [sim]
    generalize (List.range (colPivot j s).R.length).foldl
      (colElimInner j (gM (Entry.num 0) (colPivot j s).A j j)) (colPivot j s, []) = r at inv
    simp only [Nat.zero_add] at inv
    refine resG_bind (σ := St × List Nat) (τ := St) (fl := fun x => x.1.flag) (fl' := fun x => x.flag)
      r _ _ ?_ ?_
    · intro hr
      rw [delColsC_ok _ _ (pairwise_sortDesc inv.nd)
        (fun z hz => by rw [inv.len]; exact (inv.zs z (mem_sortDesc.mp hz)).1) inv.ws.Arect]
      exact (resG_ok (by simp only [delCols_flag]; exact hr)).symm
    · intro _
      simp only [delCols_flag]

/-! ### the `while` loops of the eliminations (any sufficient fuel on either side) -/

theorem rowElimLoopC_sim (n : Nat) : ∀ (fuelC fuelT i : Nat) (s : St), WS n s → s.flag = .ok →
    min s.A.length s.R.length ≤ fuelT + i → min s.A.length s.R.length ≤ fuelC + i →
    rowElimLoopC fuelC i s = res (rowElimLoop fuelT i s) := by
  intro fuelC
  induction fuelC with
  | zero =>
    intro fuelT i s hws hok _ hC
    have hc : ¬ i < min s.A.length s.R.length := by omega
    unfold rowElimLoopC
    simp only [widthC_ok hws.Apos, chk_bind_ok, width_eq hws, hc, if_false, chk_pure]
    cases fuelT <;> (unfold rowElimLoop; rw [width_eq hws]; simp only [hc, if_false]; exact (res_ok hok).symm)
  | succ fuelC ih =>
    intro fuelT i s hws hok hT hC
    unfold rowElimLoopC
    simp only [widthC_ok hws.Apos, chk_bind_ok, width_eq hws]
    by_cases hc : i < min s.A.length s.R.length
    · cases fuelT with
      | zero => omega
      | succ fuelT =>
        unfold rowElimLoop
        rw [width_eq hws]
        simp only [hc, if_true]
        rw [rowElimStepC_sim n i s hws (by omega) (by omega) hok]
        obtain ⟨ws1, hR, _, hA, _⟩ := rowRel_rowElimStep n i s (by omega) hws
        refine resG_bind (σ := St) (τ := St) (fl := fun x => x.flag) (fl' := fun x => x.flag) _ _ _ ?_ ?_
        · intro h1
          exact ih fuelT (i + 1) _ ws1 h1 (by rw [hR]; omega) (by rw [hR]; omega)
        · intro h1
          exact rowElimLoop_sticky _ _ _ h1
    · simp only [hc, if_false, chk_pure]
      cases fuelT <;> (unfold rowElimLoop; rw [width_eq hws]; simp only [hc, if_false]; exact (res_ok hok).symm)

theorem colElimLoopC_sim (n : Nat) : ∀ (fuelC fuelT j : Nat) (s : St), WS n s → s.flag = .ok →
    min s.A.length s.R.length ≤ fuelT + j → min s.A.length s.R.length ≤ fuelC + j →
    colElimLoopC fuelC j s = res (colElimLoop fuelT j s) := by
  intro fuelC
  induction fuelC with
  | zero =>
    intro fuelT j s hws hok _ hC
    have hc : ¬ j < min s.A.length s.R.length := by omega
    unfold colElimLoopC
    simp only [widthC_ok hws.Apos, chk_bind_ok, width_eq hws, hc, if_false, chk_pure]
    cases fuelT <;> (unfold colElimLoop; rw [width_eq hws]; simp only [hc, if_false]; exact (res_ok hok).symm)
  | succ fuelC ih =>
    intro fuelT j s hws hok hT hC
    unfold colElimLoopC
    simp only [widthC_ok hws.Apos, chk_bind_ok, width_eq hws]
    by_cases hc : j < min s.A.length s.R.length
    · cases fuelT with
      | zero => omega
      | succ fuelT =>
        unfold colElimLoop
        rw [width_eq hws]
        simp only [hc, if_true]
        rw [colElimStepC_sim n j s hws (by omega) (by omega) hok]
        obtain ⟨ws1, _, hA, hR, _⟩ := colRel_colElimStep n j s (by omega) hws
        refine resG_bind (σ := St) (τ := St) (fl := fun x => x.flag) (fl' := fun x => x.flag) _ _ _ ?_ ?_
        · intro h1
          exact ih fuelT (j + 1) _ ws1 h1 (by rw [hA]; omega) (by rw [hA]; omega)
        · intro h1
          exact colElimLoop_sticky _ _ _ h1
    · simp only [hc, if_false, chk_pure]
      cases fuelT <;> (unfold colElimLoop; rw [width_eq hws]; simp only [hc, if_false]; exact (res_ok hok).symm)

theorem rowEliminationC_sim (n : Nat) (s : St) (hws : WS n s) (hok : s.flag = .ok) :
    rowEliminationC s = res (rowElimination s) := by
  unfold rowEliminationC rowElimination
  apply rowElimLoopC_sim n _ _ 0 s hws hok
  · rw [width_eq hws]; omega
  · omega

theorem columnEliminationC_sim (n : Nat) (s : St) (hws : WS n s) (hok : s.flag = .ok) :
    columnEliminationC s = res (columnElimination s) := by
  unfold columnEliminationC columnElimination
  apply colElimLoopC_sim n _ _ 0 s hws hok
  · rw [width_eq hws]; omega
  · omega

/-! ### the outer fixed-point loop -/

theorem mainLoopC_stop (fuel nr nro nc nco : Nat) (s : St) (h : ¬ (nr ≠ nro ∨ nc ≠ nco)) :
    mainLoopC fuel nr nro nc nco s = .ok s := by
  cases fuel with
  | zero => unfold mainLoopC; simp only [h, if_false, chk_pure]
  | succ fuel => unfold mainLoopC; simp only [h, if_false, chk_pure]

theorem mainLoopC_sim (n : Nat) : ∀ (fuelC fuelT nr nro nc nco : Nat) (s : St), WS n s → s.flag = .ok →
    s.A.length ≤ nr → s.R.length ≤ nc → nr + nc < fuelT → nr + nc < fuelC →
    mainLoopC fuelC nr nro nc nco s = res (mainLoop fuelT nr nro nc nco s) := by
  intro fuelC
  induction fuelC with
  | zero => intro fuelT nr nro nc nco s _ _ _ _ _ hC; omega
  | succ fuelC ih =>
    intro fuelT nr nro nc nco s hws hok hnr hnc hT hC
    cases fuelT with
    | zero => omega
    | succ fuelT =>
      by_cases hc : nr ≠ nro ∨ nc ≠ nco
      · unfold mainLoopC mainLoop
        simp only [hc, if_true]
        have rr := rowRel_rowElimination n s
        obtain ⟨ws1, hR1, _, hA1, _⟩ := rr hws
        have cr := colRel_columnElimination n (rowElimination s)
        obtain ⟨ws2, _, hA2, hR2, _⟩ := cr ws1
        rw [rowEliminationC_sim n s hws hok]
        refine resG_bind (σ := St) (τ := St) (fl := fun x => x.flag) (fl' := fun x => x.flag) _ _ _ ?_ ?_
        · intro h1
          rw [columnEliminationC_sim n _ ws1 h1]
          refine resG_bind (σ := St) (τ := St) (fl := fun x => x.flag) (fl' := fun x => x.flag) _ _ _ ?_ ?_
          · intro h2
            simp only [widthC_ok ws2.Apos, chk_bind_ok, width_eq ws2]
            by_cases hstop : (columnElimination (rowElimination s)).A.length = nr
                ∧ (columnElimination (rowElimination s)).R.length = nc
            · have hs : ¬ ((columnElimination (rowElimination s)).A.length ≠ nr
                  ∨ (columnElimination (rowElimination s)).R.length ≠ nc) := by
                simp [hstop.1, hstop.2]
              rw [mainLoopC_stop _ _ _ _ _ _ hs, mainLoop_stop _ _ _ _ _ _ hs]
              exact (res_ok h2).symm
            · rw [hR1] at hR2
              exact ih fuelT _ _ _ _ _ ws2 h2 (Nat.le_refl _) (Nat.le_refl _) (by omega) (by omega)
          · intro h2
            exact mainLoop_sticky _ _ _ _ _ _ h2
        · intro h1
          have h2 : (columnElimination (rowElimination s)).flag = (rowElimination s).flag :=
            colElimLoop_sticky _ _ _ h1
          rw [mainLoop_sticky _ _ _ _ _ _ (by rw [h2]; exact h1), h2]
      · rw [mainLoopC_stop _ _ _ _ _ _ hc, mainLoop_stop _ _ _ _ _ _ hc]
        exact (res_ok hok).symm

/-! ### deparallelisation (no exception at all on well-shaped states) -/

/-- A `for` loop over a range whose body never raises under an invariant. -/
theorem foldC_range'_ok {σ : Type} (fC : σ → Nat → Chk σ) (f : σ → Nat → σ) (P : Nat → σ → Prop)
    (m a : Nat) (s0 : σ) (h0 : P a s0)
    (hstep : ∀ j s, a ≤ j → j < a + m → P j s → P (j + 1) (f s j))
    (hsim : ∀ j s, a ≤ j → j < a + m → P j s → fC s j = .ok (f s j)) :
    foldC fC s0 (List.range' a m) = .ok ((List.range' a m).foldl f s0) :=
  foldC_range'_sim (fun _ => Flag.ok) fC f P (fun _ _ h => absurd rfl h) m a s0 h0 rfl hstep
    (fun j s h1 h2 h3 _ => hsim j s h1 h2 h3)

theorem deparRowsInnerC_ok (s : St) (i j : Nat) (hij : i < j) (hj : j < s.A.length)
    (acc : St × List Nat) (h : DeparRowInv s acc) :
    deparRowsInnerC s.A i acc j = .ok (deparRowsInner s.A i acc j) := by
  have hi : i < s.A.length := by omega
  unfold deparRowsInnerC deparRowsInner
  split
  · rfl
  · simp only [getC_getD [] hi, getC_getD [] hj, chk_bind_ok]
    split
    · simp only [colAddFloatC_ok _ h.Lrect hi hj, chk_bind_ok, chk_pure]
    · rfl

theorem deparRowsOuterC_ok (n : Nat) (s : St) (hws : WS n s) (hnes : NESM s.A) (i : Nat)
    (acc : St × List Nat) (h : DeparRowInv s acc) :
    deparRowsOuterC s.A acc i = .ok (deparRowsOuter s.A acc i) := by
  unfold deparRowsOuterC deparRowsOuter
  split
  · rfl
  · rename_i hiz
    exact foldC_range'_ok (deparRowsInnerC s.A i) (deparRowsInner s.A i)
      (fun _ acc => DeparRowInv s acc ∧ i ∉ acc.2) _ _ acc ⟨h, hiz⟩
      (fun j acc h1 h2 hp => deparRowsInner_inv n s hws hnes i j (by omega) (by omega) acc hp)
      (fun j acc h1 h2 hp => deparRowsInnerC_ok s i j (by omega) (by omega) acc hp.1)

theorem deparallelizeRowsC_ok (n : Nat) (s : St) (hws : WS n s) (hnes : NESM s.A) :
    deparallelizeRowsC s = .ok (deparallelizeRows s) := by
  have inv0 : DeparRowInv s (s, []) := by
    refine ⟨rfl, rfl, hws.Lrect, rfl, List.nodup_nil, fun z hz => by simp at hz, fun ρ x l => ?_⟩
    simp [lprodMask, lprod]
  have hfold := foldC_range'_ok (deparRowsOuterC s.A) (deparRowsOuter s.A) (fun _ acc => DeparRowInv s acc)
    s.A.length 0 (s, []) inv0
    (fun i acc _ _ hp => deparRowsOuter_inv n s hws hnes i acc hp)
    (fun i acc _ _ hp => deparRowsOuterC_ok n s hws hnes i acc hp)
  have inv := deparRows_loop_inv n s hws hnes
  rw [← List.range_eq_range'] at hfold
  unfold deparallelizeRowsC deparallelizeRows
  simp only [hfold, chk_bind_ok]
  generalize (List.range s.A.length).foldl (deparRowsOuter s.A) (s, []) = r at inv
  have hlenA : r.1.A.length = s.A.length := by rw [inv.hA]
  exact delRowsC_ok _ _ (pairwise_sortDesc inv.nd)
    (fun z hz => by rw [hlenA]; exact (inv.rng z (mem_sortDesc.mp hz)).2)
    (by rw [hlenA]; exact inv.Lrect)

theorem deparColsInnerC_ok (n : Nat) (s : St) (hws : WS n s) (i j : Nat) (hij : i < j)
    (hj : j < s.R.length) (acc : St × List Nat) (h : DeparColInv n s acc) :
    deparColsInnerC s.A i acc j = .ok (deparColsInner s.A i acc j) := by
  have hi : i < s.R.length := by omega
  unfold deparColsInnerC deparColsInner
  split
  · rfl
  · simp only [areParallelColC_ok hws.Arect hi hj, chk_bind_ok]
    split
    · simp only [rowAddFloatC_ok _ h.Rrect (show i < acc.1.R.length by rw [h.Rlen]; exact hi)
        (show j < acc.1.R.length by rw [h.Rlen]; exact hj), chk_bind_ok, chk_pure]
    · rfl

theorem deparColsOuterC_ok (n : Nat) (s : St) (hws : WS n s) (hnes : NESM s.A) (i : Nat)
    (acc : St × List Nat) (h : DeparColInv n s acc) :
    deparColsOuterC s.A acc i = .ok (deparColsOuter s.A acc i) := by
  unfold deparColsOuterC deparColsOuter
  split
  · rfl
  · rename_i hiz
    simp only [widthC_ok hws.Apos, chk_bind_ok, width_eq hws]
    exact foldC_range'_ok (deparColsInnerC s.A i) (deparColsInner s.A i)
      (fun _ acc => DeparColInv n s acc ∧ i ∉ acc.2) _ _ acc ⟨h, hiz⟩
      (fun j acc h1 h2 hp => deparColsInner_inv n s hws hnes i j (by omega) (by omega) acc hp)
      (fun j acc h1 h2 hp => deparColsInnerC_ok n s hws i j (by omega) (by omega) acc hp.1)

theorem deparallelizeColsC_ok (n : Nat) (s : St) (hws : WS n s) (hnes : NESM s.A) :
    deparallelizeColsC s = .ok (deparallelizeCols s) := by
  have inv0 : DeparColInv n s (s, []) := by
    refine ⟨rfl, rfl, hws.Rrect, rfl, List.nodup_nil, fun z hz => by simp at hz, fun ρ x l => ?_⟩
    simp [rprodMask, rprod]
  have hfold := foldC_range'_ok (deparColsOuterC s.A) (deparColsOuter s.A)
    (fun _ acc => DeparColInv n s acc) (width s.A) 0 (s, []) inv0
    (fun i acc _ _ hp => deparColsOuter_inv n s hws hnes i acc hp)
    (fun i acc _ _ hp => deparColsOuterC_ok n s hws hnes i acc hp)
  have inv := deparCols_loop_inv n s hws hnes
  rw [← List.range_eq_range'] at hfold
  unfold deparallelizeColsC deparallelizeCols
  simp only [widthC_ok hws.Apos, hfold, chk_bind_ok]
  generalize (List.range (width s.A)).foldl (deparColsOuter s.A) (s, []) = r at inv
  exact delColsC_ok _ _ (pairwise_sortDesc inv.nd)
    (fun z hz => by rw [inv.Rlen]; exact (inv.rng z (mem_sortDesc.mp hz)).2)
    (by rw [inv.hA, inv.Rlen]; exact hws.Arect)

theorem deparallelizeRows_flag (s : St) : (deparallelizeRows s).flag = s.flag := by
  unfold deparallelizeRows
  simp only [delRows_flag]
  apply foldl_mem_inv (deparRowsOuter s.A) (fun acc => acc.1.flag = s.flag) _ _ rfl
  intro i acc _ hacc
  unfold deparRowsOuter
  split
  · exact hacc
  · apply foldl_mem_inv (deparRowsInner s.A i) (fun acc => acc.1.flag = s.flag) _ _ hacc
    intro j acc _ hacc
    unfold deparRowsInner
    split
    · exact hacc
    · simp only
      split
      · exact hacc
      · exact hacc

theorem deparallelizeCols_flag (s : St) : (deparallelizeCols s).flag = s.flag := by
  unfold deparallelizeCols
  simp only [delCols_flag]
  apply foldl_mem_inv (deparColsOuter s.A) (fun acc => acc.1.flag = s.flag) _ _ rfl
  intro i acc _ hacc
  unfold deparColsOuter
  split
  · exact hacc
  · apply foldl_mem_inv (deparColsInner s.A i) (fun acc => acc.1.flag = s.flag) _ _ hacc
    intro j acc _ hacc
    unfold deparColsInner
    split
    · exact hacc
    · simp only
      split
      · exact hacc
      · exact hacc

/-! ### the whole run -/

theorem width_le_sum : ∀ (M : EMat) (n : Nat), Rect M n → 0 < M.length → n ≤ (M.map List.length).sum := by
  intro M n h hp
  cases M with
  | nil => simp at hp
  | cons r rest =>
    have := h r (by simp)
    simp only [List.map_cons, List.sum_cons]
    omega

/-- On every rectangular matrix with at least one row (no empty symbol) the checked run and the totalised
    run agree: same state, or both stop for the same reason; never `IndexError`. -/
theorem gaussStC_eq (M : EMat) (n : Nat) (hpos : 0 < M.length) (hrect : Rect M n) (hnes : NESM M) :
    gaussStC M = res (gaussSt M) := by
  unfold gaussStC gaussSt
  simp only [widthC_ok hpos, chk_bind_ok, width_of_rect hrect hpos]
  have g0 := good_init M n hpos hrect
  have r1 := rowRel_deparallelizeRows n _ hnes g0.ws
  have hnes1 := nesm_deparallelizeRows n _ g0.ws hnes
  have r2 := colRel_deparallelizeCols n _ hnes1 r1.1
  rw [deparallelizeRowsC_ok n _ g0.ws hnes]
  simp only [chk_bind_ok]
  rw [deparallelizeColsC_ok n _ r1.1 hnes1]
  simp only [chk_bind_ok]
  have g1 := good_of_rowRel g0 (rowRel_deparallelizeRows n _ hnes)
  have g2 := good_of_colRel g1 (colRel_deparallelizeCols n _ hnes1)
  apply mainLoopC_sim n _ _ _ _ _ _ _ g2.ws
  · simp only [deparallelizeCols_flag, deparallelizeRows_flag]
  · exact g2.rows_le
  · exact g2.cols_le
  · omega
  · have := width_le_sum M n hrect hpos
    unfold mainFuel
    omega

end Ptn.C13
