import Ptn.C13.Model
/-! Finite sums over `Rat` indexed by `0 … n-1` (core Lean only) and the algebraic identities behind
the paired row/column operations of C13. -/
namespace Ptn.C13

/-- `sumN n f = f 0 + f 1 + … + f (n-1)`. -/
def sumN : Nat → (Nat → Rat) → Rat
  | 0, _ => 0
  | n + 1, f => sumN n f + f n

/-- Index map of "delete position `z`". -/
def skipIdx (z k : Nat) : Nat := if k < z then k else k + 1

/-- Index map of "swap positions `a` and `b`". -/
def swapIdx (a b k : Nat) : Nat := if k = a then b else if k = b then a else k

theorem sumN_congr {n : Nat} {f g : Nat → Rat} (h : ∀ k, k < n → f k = g k) :
    sumN n f = sumN n g := by
  induction n with
  | zero => rfl
  | succ n ih =>
    simp only [sumN]
    rw [ih (fun k hk => h k (Nat.lt_succ_of_lt hk)), h n (Nat.lt_succ_self n)]

theorem sumN_zero (n : Nat) : sumN n (fun _ => 0) = 0 := by
  induction n with
  | zero => rfl
  | succ n ih => simp only [sumN, ih]; grind

theorem sumN_add (n : Nat) (f g : Nat → Rat) :
    sumN n (fun k => f k + g k) = sumN n f + sumN n g := by
  induction n with
  | zero => simp only [sumN]; grind
  | succ n ih => simp only [sumN, ih]; grind

theorem sumN_mul_left (n : Nat) (c : Rat) (f : Nat → Rat) :
    sumN n (fun k => c * f k) = c * sumN n f := by
  induction n with
  | zero => simp only [sumN]; grind
  | succ n ih => simp only [sumN, ih]; grind

theorem sumN_mul_right (n : Nat) (c : Rat) (f : Nat → Rat) :
    sumN n (fun k => f k * c) = sumN n f * c := by
  induction n with
  | zero => simp only [sumN]; grind
  | succ n ih => simp only [sumN, ih]; grind

theorem sumN_single (n t : Nat) (c : Rat) (ht : t < n) :
    sumN n (fun k => if k = t then c else 0) = c := by
  induction n with
  | zero => omega
  | succ n ih =>
    simp only [sumN]
    by_cases h : t = n
    · subst h
      have : sumN t (fun k => if k = t then c else 0) = 0 := by
        refine (sumN_congr ?_).trans (sumN_zero t)
        intro k hk
        have : k ≠ t := by omega
        simp [this]
      rw [this]; simp <;> grind
    · have hn : ¬ n = t := fun e => h e.symm
      rw [ih (by omega)]; simp [hn] <;> grind

theorem sumN_single_none (n t : Nat) (c : Rat) (ht : n ≤ t) :
    sumN n (fun k => if k = t then c else 0) = 0 := by
  refine (sumN_congr ?_).trans (sumN_zero n)
  intro k hk
  have : k ≠ t := by omega
  simp [this]

theorem sumN_comm (n m : Nat) (f : Nat → Nat → Rat) :
    sumN n (fun k => sumN m (fun l => f k l)) = sumN m (fun l => sumN n (fun k => f k l)) := by
  induction n with
  | zero => simp [sumN, sumN_zero]
  | succ n ih =>
    simp only [sumN]
    rw [ih, ← sumN_add]

theorem sumN_skip (n z : Nat) (f : Nat → Rat) (hz : z ≤ n) :
    sumN (n + 1) f = f z + sumN n (fun k => f (skipIdx z k)) := by
  induction n with
  | zero =>
    have : z = 0 := by omega
    subst this
    simp only [sumN]; grind
  | succ n ih =>
    by_cases h : z = n + 1
    · subst h
      have : sumN (n + 1) (fun k => f (skipIdx (n + 1) k)) = sumN (n + 1) f := by
        apply sumN_congr
        intro k hk
        simp [skipIdx, hk]
      rw [this]
      simp only [sumN]
      grind
    · have hz' : z ≤ n := by omega
      have e1 : sumN (n + 1 + 1) f = sumN (n + 1) f + f (n + 1) := rfl
      have e2 : sumN (n + 1) (fun k => f (skipIdx z k))
          = sumN n (fun k => f (skipIdx z k)) + f (skipIdx z n) := rfl
      have e3 : skipIdx z n = n + 1 := by
        have : ¬ n < z := by omega
        simp [skipIdx, this]
      rw [e1, e2, e3, ih hz']
      grind

theorem sumN_swap (n a b : Nat) (f : Nat → Rat) (ha : a < n) (hb : b < n) :
    sumN n (fun k => f (swapIdx a b k)) = sumN n f := by
  by_cases hab : a = b
  · subst hab
    apply sumN_congr
    intro k _
    by_cases hk : k = a <;> simp [swapIdx, hk]
  · have hpt : ∀ k, f (swapIdx a b k)
        = f k + ((if k = a then f b - f a else 0) + (if k = b then f a - f b else 0)) := by
      intro k
      by_cases h1 : k = a
      · subst h1
        simp [swapIdx, hab]
        grind
      · by_cases h2 : k = b
        · subst h2
          simp [swapIdx, h1]
          grind
        · simp [swapIdx, h1, h2] <;> grind
    rw [sumN_congr (fun k _ => hpt k), sumN_add, sumN_add, sumN_single n a _ ha, sumN_single n b _ hb]
    grind

/-! ### the algebra of the paired operations (for one fixed row of `L` and one fixed column of `A`) -/

/-- `A[t] += f·A[s]` together with `L[:,s] += (-f)·L[:,t]` leaves `Σ_k L[k]·A[k]` unchanged. -/
theorem pair_add (n t s : Nat) (f : Rat) (lf af : Nat → Rat) (ht : t < n) (hs : s < n) (hts : t ≠ s) :
    sumN n (fun k => (if k = s then lf s + (-f) * lf t else lf k)
                      * (if k = t then af t + f * af s else af k))
      = sumN n (fun k => lf k * af k) := by
  have hpt : ∀ k, (if k = s then lf s + (-f) * lf t else lf k)
                    * (if k = t then af t + f * af s else af k)
      = lf k * af k + ((if k = s then (-f) * lf t * af s else 0)
                        + (if k = t then lf t * (f * af s) else 0)) := by
    intro k
    by_cases h1 : k = s
    · subst h1
      have : ¬ k = t := fun e => hts e.symm
      simp [this]
      grind
    · by_cases h2 : k = t
      · subst h2
        simp [h1]
        grind
      · simp [h1, h2] <;> grind
  rw [sumN_congr (fun k _ => hpt k), sumN_add, sumN_add, sumN_single n s _ hs, sumN_single n t _ ht]
  grind

/-- Swapping `A[a], A[b]` together with `L[:,a], L[:,b]`. -/
theorem pair_swap (n a b : Nat) (lf af : Nat → Rat) (ha : a < n) (hb : b < n) :
    sumN n (fun k => lf (swapIdx a b k) * af (swapIdx a b k)) = sumN n (fun k => lf k * af k) :=
  sumN_swap n a b (fun k => lf k * af k) ha hb

/-- Deleting position `z` of both, all positions in `zs` being masked out. -/
theorem pair_skip_mask (n z : Nat) (zs : List Nat) (g : Nat → Rat) (hz : z ≤ n)
    (hlt : ∀ y, y ∈ zs → y < z) :
    sumN n (fun k => if k ∈ zs then 0 else g (skipIdx z k))
      = sumN (n + 1) (fun k => if k ∈ z :: zs then 0 else g k) := by
  rw [sumN_skip n z _ hz]
  simp only [List.mem_cons, true_or, if_true]
  have : ∀ k, (if skipIdx z k = z ∨ skipIdx z k ∈ zs then (0 : Rat) else g (skipIdx z k))
      = (if k ∈ zs then 0 else g (skipIdx z k)) := by
    intro k
    by_cases hk : k < z
    · have e : skipIdx z k = k := by simp [skipIdx, hk]
      have : ¬ k = z := by omega
      simp [e, this]
    · have e : skipIdx z k = k + 1 := by simp [skipIdx, hk]
      have h1 : ¬ k + 1 = z := by omega
      have h2 : ¬ k + 1 ∈ zs := fun hm => by have := hlt _ hm; omega
      have h3 : ¬ k ∈ zs := fun hm => by have := hlt _ hm; omega
      simp [e, h1, h2, h3]
  rw [sumN_congr (fun k _ => this k)]
  grind

/-- Folding the masked-out position `j` (whose `A`-line is `μ` times line `i`) into position `i` of `L`. -/
theorem pair_merge (n i j : Nat) (μ : Rat) (zs : List Nat) (lf af : Nat → Rat)
    (hi : i < n) (hj : j < n) (hij : i ≠ j) (hiz : i ∉ zs) (hjz : j ∉ zs)
    (hpar : af j = μ * af i) :
    sumN n (fun k => if k ∈ zs ++ [j] then 0
                     else (if k = i then lf i + μ * lf j else lf k) * af k)
      = sumN n (fun k => if k ∈ zs then 0 else lf k * af k) := by
  have hpt : ∀ k, (if k ∈ zs ++ [j] then (0 : Rat)
                     else (if k = i then lf i + μ * lf j else lf k) * af k)
      = (if k ∈ zs then 0 else lf k * af k)
        + ((if k = i then μ * lf j * af i else 0) + (if k = j then -(lf j * af j) else 0)) := by
    intro k
    by_cases h1 : k = i
    · subst h1
      have : ¬ k = j := hij
      simp [hiz, this]
      grind
    · by_cases h2 : k = j
      · subst h2
        simp [hjz, h1] <;> grind
      · by_cases h3 : k ∈ zs <;> simp [h1, h2, h3] <;> grind
  rw [sumN_congr (fun k _ => hpt k), sumN_add, sumN_add, sumN_single n i _ hi, sumN_single n j _ hj, hpar]
  grind

end Ptn.C13
