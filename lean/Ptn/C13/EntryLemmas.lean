import Ptn.C13.Views
/-! Semantics of `_row_add`, `_col_add`, `are_parallel_*` of the C13 model (core Lean only). -/
namespace Ptn.C13

theorem isZero_eval {e : Entry} (ρ : Nat → Rat) (h : e.isZero = true) : e.eval ρ = 0 := by
  cases e with
  | num q => simpa [Entry.isZero, Entry.eval] using h
  | sym q s => simp [Entry.isZero] at h

theorem addEntry_eval {f : Rat} {t s e : Entry} (ρ : Nat → Rat) (h : addEntry f t s = some e) :
    e.eval ρ = t.eval ρ + f * s.eval ρ := by
  cases s with
  | num sq =>
    cases t with
    | num tq =>
      simp only [addEntry, Option.some.injEq] at h
      subst h
      simp [Entry.eval]
    | sym tc tv =>
      simp only [addEntry] at h
      by_cases hs : sq = 0
      · simp only [hs, ne_eq, not_true_eq_false, if_false, Option.some.injEq] at h
        subst h
        simp only [Entry.eval, hs]
        grind
      · simp [hs] at h
  | sym sc sv =>
    cases t with
    | num tq =>
      simp only [addEntry] at h
      by_cases ht : tq = 0
      · simp only [ht, if_true, Option.some.injEq] at h
        subst h
        simp only [Entry.eval, ht]
        grind
      · simp [ht] at h
    | sym tc tv =>
      simp only [addEntry] at h
      by_cases hv : tv = sv
      · subst hv
        simp only [if_true] at h
        by_cases hn : tc + f * sc = 0
        · simp only [hn, if_true, Option.some.injEq] at h
          subst h
          simp only [Entry.eval]
          have : tc * ρ tv + f * (sc * ρ tv) = (tc + f * sc) * ρ tv := by grind
          rw [this, hn]
          grind
        · simp only [hn, if_false, Option.some.injEq] at h
          subst h
          simp only [Entry.eval]
          grind
      · simp [hv] at h

theorem all_isZero_eval {r : List Entry} (ρ : Nat → Rat) (h : r.all Entry.isZero = true) (l : Nat) :
    (r[l]?.getD (Entry.num 0)).eval ρ = 0 := by
  cases hl : r[l]? with
  | none => simp [Entry.eval]
  | some e =>
    have hm : e ∈ r := List.mem_of_getElem? hl
    have := (List.all_eq_true.mp h) e hm
    simpa using isZero_eval ρ this

theorem addLine_spec (f : Rat) (ρ : Nat → Rat) :
    ∀ (ts ss r : List Entry), addLine f ts ss = some r → ts.length = ss.length →
      r.length = ts.length ∧
      ∀ l : Nat, (r[l]?.getD (Entry.num 0)).eval ρ
            = (ts[l]?.getD (Entry.num 0)).eval ρ + f * (ss[l]?.getD (Entry.num 0)).eval ρ := by
  intro ts
  induction ts with
  | nil =>
    intro ss r h hl
    cases ss with
    | nil =>
      simp only [addLine, Option.some.injEq] at h
      subst h
      refine ⟨rfl, fun l => ?_⟩
      simp [Entry.eval]
      grind
    | cons s ss => simp at hl
  | cons t ts ih =>
    intro ss r h hl
    cases ss with
    | nil => simp at hl
    | cons s ss =>
      simp only [addLine] at h
      cases he : addEntry f t s with
      | none => simp [he] at h
      | some e =>
        cases hes : addLine f ts ss with
        | none => simp [he, hes] at h
        | some es =>
          simp only [he, hes, Option.some.injEq] at h
          subst h
          have hl' : ts.length = ss.length := by simpa using hl
          obtain ⟨h1, h2⟩ := ih ss es hes hl'
          refine ⟨by simp [h1], fun l => ?_⟩
          cases l with
          | zero => simpa using addEntry_eval ρ he
          | succ l => simpa using h2 l

theorem gE_def (ρ : Nat → Rat) (A : EMat) (k l : Nat) :
    gE ρ A k l = (((A[k]?).getD [])[l]?.getD (Entry.num 0)).eval ρ := by
  simp [gE, gM_def]

/-- `_row_add` when it succeeds: shape kept, only row `t` changes, to `row t + f·row s`; the zero flag
    is sound. -/
theorem rowAddRaw_spec {A A' : EMat} {w t s : Nat} {f : Rat} {z : Bool} (ρ : Nat → Rat)
    (h : rowAddRaw A t s f = some (A', z)) (hA : Rect A w) (ht : t < A.length) (hs : s < A.length) :
    A'.length = A.length ∧ Rect A' w ∧
    (∀ k l, gE ρ A' k l = if k = t then gE ρ A t l + f * gE ρ A s l else gE ρ A k l) ∧
    (z = true → ∀ l, gE ρ A' t l = 0) := by
  have et : A[t]? = some A[t] := List.getElem?_eq_getElem ht
  have es : A[s]? = some A[s] := List.getElem?_eq_getElem hs
  have lt : (A[t]).length = w := hA _ (List.getElem_mem ht)
  have ls : (A[s]).length = w := hA _ (List.getElem_mem hs)
  simp only [rowAddRaw, List.getD_eq_getElem?_getD, et, es, Option.getD_some] at h
  cases hr : addLine f A[t] A[s] with
  | none => simp [hr] at h
  | some r =>
    simp only [hr, Option.some.injEq, Prod.mk.injEq] at h
    obtain ⟨hA', hz⟩ := h
    subst hA'
    obtain ⟨h1, h2⟩ := addLine_spec f ρ _ _ _ hr (by omega)
    refine ⟨by simp, ?_, ?_, ?_⟩
    · intro r' hr'
      rcases List.mem_or_eq_of_mem_set hr' with h | h
      · exact hA r' h
      · subst h; omega
    · intro k l
      simp only [gE_def, List.getElem?_set]
      by_cases hk : k = t
      · subst hk
        simp only [if_true, ht, et, es, Option.getD_some]
        exact h2 l
      · have : ¬ t = k := fun e => hk e.symm
        simp [hk, this]
    · intro hz' l
      subst hz
      simp only [gE_def, List.getElem?_set, if_true, ht, Option.getD_some]
      exact all_isZero_eval ρ hz' l

theorem addCol_spec (f : Rat) (t s : Nat) (ρ : Nat → Rat) :
    ∀ (A : EMat) (c : List Entry), addCol f t s A = some c →
      c.length = A.length ∧
      ∀ k, (c[k]?.getD (Entry.num 0)).eval ρ = gE ρ A k t + f * gE ρ A k s := by
  intro A
  induction A with
  | nil =>
    intro c h
    simp only [addCol, Option.some.injEq] at h
    subst h
    refine ⟨rfl, fun k => ?_⟩
    simp [gE_def, Entry.eval]
    grind
  | cons row rest ih =>
    intro c h
    simp only [addCol] at h
    split at h
    · rename_i e es he hes
      simp only [Option.some.injEq] at h
      subst h
      obtain ⟨h1, h2⟩ := ih es hes
      refine ⟨by simp [h1], fun k => ?_⟩
      cases k with
      | zero =>
        have := addEntry_eval ρ he
        simpa [gE_def, List.getD_eq_getElem?_getD] using this
      | succ k =>
        have := h2 k
        simpa [gE_def] using this
    · simp at h

/-- `_col_add` when it succeeds. -/
theorem colAddRaw_spec {A A' : EMat} {w t s : Nat} {f : Rat} {z : Bool} (ρ : Nat → Rat)
    (h : colAddRaw A t s f = some (A', z)) (hA : Rect A w) (ht : t < w) :
    A'.length = A.length ∧ Rect A' w ∧
    (∀ k l, gE ρ A' k l = if l = t then gE ρ A k t + f * gE ρ A k s else gE ρ A k l) ∧
    (z = true → ∀ k, gE ρ A' k t = 0) := by
  simp only [colAddRaw] at h
  cases hc : addCol f t s A with
  | none => simp [hc] at h
  | some c =>
    simp only [hc, Option.some.injEq, Prod.mk.injEq] at h
    obtain ⟨hA', hz⟩ := h
    subst hA'
    obtain ⟨h1, h2⟩ := addCol_spec f t s ρ A c hc
    have hview : ∀ k l, gE ρ (List.zipWith (fun row e => row.set t e) A c) k l
        = if l = t then gE ρ A k t + f * gE ρ A k s else gE ρ A k l := by
      intro k l
      simp only [gE_def, List.getElem?_zipWith]
      by_cases hk : k < A.length
      · have e1 : A[k]? = some A[k] := List.getElem?_eq_getElem hk
        have e2 : c[k]? = some c[k] := List.getElem?_eq_getElem (by omega)
        have lk : (A[k]).length = w := hA _ (List.getElem_mem hk)
        have h2k := h2 k
        simp only [gE_def, e1, e2, Option.getD_some] at h2k
        simp only [e1, e2, Option.getD_some, List.getElem?_set]
        by_cases hl : l = t
        · subst hl
          simp only [if_true, lk, ht, Option.getD_some]
          exact h2k
        · have : ¬ t = l := fun e => hl e.symm
          simp [hl, this]
      · have e1 : A[k]? = none := List.getElem?_eq_none (by omega)
        by_cases hl : l = t <;> simp [e1, hl, Entry.eval] <;> grind
    refine ⟨by simp [h1], ?_, hview, ?_⟩
    · intro r' hr'
      obtain ⟨i, hi, rfl⟩ := List.getElem_of_mem hr'
      simp only [List.getElem_zipWith, List.length_set]
      exact hA _ (List.getElem_mem _)
    · intro hz' k
      subst hz
      rw [hview k t]
      simp only [if_true]
      rw [← h2 k]
      exact all_isZero_eval ρ hz' k

/-! ### parallelism test -/

/-- The entry does not use the empty string as a symbol. -/
def Entry.NES : Entry → Prop
  | .num _ => True
  | .sym _ s => s ≠ 0

theorem eval_of_coeff_zero {e : Entry} (ρ : Nat → Rat) (h : e.coeff = 0) : e.eval ρ = 0 := by
  cases e with
  | num q => simpa [Entry.coeff, Entry.eval] using h
  | sym q s =>
    simp only [Entry.coeff] at h
    simp only [Entry.eval, h]
    grind

theorem eval_ratio {a b : Entry} (ρ : Nat → Rat) (hv : a.var = b.var) (ha : a.NES) (hb : b.NES)
    (ha0 : a.coeff ≠ 0) : b.eval ρ = (b.coeff / a.coeff) * a.eval ρ := by
  cases a with
  | num aq =>
    cases b with
    | num bq =>
      simp only [Entry.coeff] at ha0
      simp only [Entry.eval, Entry.coeff]
      grind
    | sym bq bs =>
      simp only [Entry.var] at hv
      simp only [Entry.NES] at hb
      exact absurd hv.symm hb
  | sym aq as =>
    cases b with
    | num bq =>
      simp only [Entry.var] at hv
      simp only [Entry.NES] at ha
      exact absurd hv ha
    | sym bq bs =>
      simp only [Entry.var] at hv
      subst hv
      simp only [Entry.coeff] at ha0
      simp only [Entry.eval, Entry.coeff]
      grind

/-- A non-zero answer of the loop of `are_parallel_*` is a true proportionality factor. -/
theorem parLoop_sound (ρ : Nat → Rat) (μ : Rat) (hμ : μ ≠ 0) :
    ∀ (ps : List (Entry × Entry)) (r : Rat), parLoop r ps = μ →
      (∀ p, p ∈ ps → p.1.NES ∧ p.2.NES) →
      (r = 0 ∨ r = μ) ∧ ∀ p, p ∈ ps → p.2.eval ρ = μ * p.1.eval ρ := by
  intro ps
  induction ps with
  | nil =>
    intro r h _
    simp only [parLoop] at h
    exact ⟨Or.inr h, fun p hp => by simp at hp⟩
  | cons p ps ih =>
    intro r h hnes
    obtain ⟨a, b⟩ := p
    have hab := hnes (a, b) (by simp)
    have hnes' : ∀ p, p ∈ ps → p.1.NES ∧ p.2.NES := fun p hp => hnes p (by simp [hp])
    simp only [parLoop] at h
    by_cases hv : a.var = b.var
    · simp only [hv, ne_eq, not_true_eq_false, if_false] at h
      by_cases h00 : a.coeff = 0 ∧ b.coeff = 0
      · simp only [h00, and_self, if_true] at h
        obtain ⟨h1, h2⟩ := ih r h hnes'
        refine ⟨h1, fun p hp => ?_⟩
        rcases List.mem_cons.mp hp with hp | hp
        · subst hp
          simp only [eval_of_coeff_zero ρ h00.1, eval_of_coeff_zero ρ h00.2]
          grind
        · exact h2 p hp
      · simp only [h00, if_false] at h
        by_cases h0 : a.coeff = 0 ∨ b.coeff = 0
        · simp only [h0, if_true] at h
          exact absurd h.symm hμ
        · simp only [h0, if_false] at h
          have ha0 : a.coeff ≠ 0 := fun e => h0 (Or.inl e)
          have hb0 : b.coeff ≠ 0 := fun e => h0 (Or.inr e)
          have hcur : b.coeff / a.coeff ≠ 0 := by
            intro e
            apply hb0
            have : b.coeff = (b.coeff / a.coeff) * a.coeff := by grind
            rw [this, e]
            grind
          by_cases hr : r = 0
          · simp only [hr, if_true] at h
            obtain ⟨h1, h2⟩ := ih _ h hnes'
            have hc : b.coeff / a.coeff = μ := by
              rcases h1 with h1 | h1
              · exact absurd h1 hcur
              · exact h1
            refine ⟨Or.inl hr, fun p hp => ?_⟩
            rcases List.mem_cons.mp hp with hp | hp
            · subst hp
              rw [← hc]
              exact eval_ratio ρ hv hab.1 hab.2 ha0
            · exact h2 p hp
          · simp only [hr, if_false] at h
            by_cases hne : b.coeff / a.coeff = r
            · simp only [hne, not_true_eq_false, if_false] at h
              obtain ⟨h1, h2⟩ := ih r h hnes'
              have hrμ : r = μ := by
                rcases h1 with h1 | h1
                · exact absurd h1 hr
                · exact h1
              refine ⟨Or.inr hrμ, fun p hp => ?_⟩
              rcases List.mem_cons.mp hp with hp | hp
              · subst hp
                rw [← hrμ, ← hne]
                exact eval_ratio ρ hv hab.1 hab.2 ha0
              · exact h2 p hp
            · simp only [hne, not_false_eq_true, if_true] at h
              exact absurd h.symm hμ
    · simp only [ne_eq, hv, not_false_eq_true, if_true] at h
      exact absurd h.symm hμ

/-- No entry of the matrix uses the empty string as a symbol. -/
def NESM (A : EMat) : Prop := ∀ r, r ∈ A → ∀ e, e ∈ r → e.NES

theorem areParallelRow_sound (ρ : Nat → Rat) {A : EMat} {w i j : Nat} {μ : Rat} (hA : Rect A w)
    (hn : NESM A) (hi : i < A.length) (hj : j < A.length)
    (h : areParallelRow (A.getD i []) (A.getD j []) = μ) (hμ : μ ≠ 0) (l : Nat) :
    gE ρ A j l = μ * gE ρ A i l := by
  have ei : A[i]? = some A[i] := List.getElem?_eq_getElem hi
  have ej : A[j]? = some A[j] := List.getElem?_eq_getElem hj
  have li : (A[i]).length = w := hA _ (List.getElem_mem hi)
  have lj : (A[j]).length = w := hA _ (List.getElem_mem hj)
  simp only [areParallelRow, List.getD_eq_getElem?_getD, ei, ej, Option.getD_some] at h
  have hnes : ∀ p, p ∈ (A[i]).zip (A[j]) → p.1.NES ∧ p.2.NES := by
    intro p hp
    obtain ⟨a, b⟩ := p
    have := List.of_mem_zip hp
    exact ⟨hn _ (List.getElem_mem hi) _ this.1, hn _ (List.getElem_mem hj) _ this.2⟩
  obtain ⟨_, h2⟩ := parLoop_sound ρ μ hμ _ _ h hnes
  simp only [gE_def, ei, ej, Option.getD_some]
  by_cases hl : l < w
  · have e1 : (A[i])[l]? = some (A[i])[l] := List.getElem?_eq_getElem (by omega)
    have e2 : (A[j])[l]? = some (A[j])[l] := List.getElem?_eq_getElem (by omega)
    have hm : ((A[i])[l], (A[j])[l]) ∈ (A[i]).zip (A[j]) := by
      have hl' : l < ((A[i]).zip (A[j])).length := by simp; omega
      have := List.getElem_mem hl'
      simpa [List.getElem_zip] using this
    have := h2 _ hm
    simpa [e1, e2] using this
  · have e1 : (A[i])[l]? = none := List.getElem?_eq_none (by omega)
    have e2 : (A[j])[l]? = none := List.getElem?_eq_none (by omega)
    simp [e1, e2, Entry.eval] <;> grind

theorem areParallelCol_sound (ρ : Nat → Rat) {A : EMat} {w i j : Nat} {μ : Rat} (hA : Rect A w)
    (hn : NESM A) (hi : i < w) (hj : j < w)
    (h : areParallelCol A i j = μ) (hμ : μ ≠ 0) (k : Nat) :
    gE ρ A k j = μ * gE ρ A k i := by
  simp only [areParallelCol] at h
  have hnes : ∀ p, p ∈ A.map (fun row => (row.getD i (Entry.num 0), row.getD j (Entry.num 0))) →
      p.1.NES ∧ p.2.NES := by
    intro p hp
    simp only [List.mem_map] at hp
    obtain ⟨row, hrow, rfl⟩ := hp
    have lr : row.length = w := hA row hrow
    have e1 : row[i]? = some row[i] := List.getElem?_eq_getElem (by omega)
    have e2 : row[j]? = some row[j] := List.getElem?_eq_getElem (by omega)
    simp only [List.getD_eq_getElem?_getD, e1, e2, Option.getD_some]
    exact ⟨hn row hrow _ (List.getElem_mem _), hn row hrow _ (List.getElem_mem _)⟩
  obtain ⟨_, h2⟩ := parLoop_sound ρ μ hμ _ _ h hnes
  simp only [gE_def]
  by_cases hk : k < A.length
  · have ek : A[k]? = some A[k] := List.getElem?_eq_getElem hk
    have hm : ((A[k]).getD i (Entry.num 0), (A[k]).getD j (Entry.num 0))
        ∈ A.map (fun row => (row.getD i (Entry.num 0), row.getD j (Entry.num 0))) :=
      List.mem_map.mpr ⟨A[k], List.getElem_mem hk, rfl⟩
    have := h2 _ hm
    simpa [ek, List.getD_eq_getElem?_getD] using this
  · have ek : A[k]? = none := List.getElem?_eq_none (by omega)
    simp [ek, Entry.eval] <;> grind

end Ptn.C13
