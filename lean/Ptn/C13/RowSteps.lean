import Ptn.C13.EntryLemmas
/-! Row side of C13: every paired row operation preserves the shape and the product `L · eval ρ A`
(core Lean only). -/
namespace Ptn.C13

/-- Well-shapedness of a state: `L` is `? × p`, `A` is `p × q`, `R` is `q × n`, `p ≥ 1`. -/
structure WS (n : Nat) (s : St) : Prop where
  Lrect : Rect s.L s.A.length
  Arect : Rect s.A s.R.length
  Rrect : Rect s.R n
  Apos : 0 < s.A.length

/-- `(L · eval ρ A)[i][l]`. -/
def lprod (ρ : Nat → Rat) (s : St) (i l : Nat) : Rat :=
  sumN s.A.length (fun k => gR s.L i k * gE ρ s.A k l)

/-- The same with the rows in `zs` left out. -/
def lprodMask (ρ : Nat → Rat) (zs : List Nat) (s : St) (i l : Nat) : Rat :=
  sumN s.A.length (fun k => if k ∈ zs then 0 else gR s.L i k * gE ρ s.A k l)

/-- `s'` is reachable from `s` by row operations that preserve shape and `L · A`. -/
def RowRel (n : Nat) (s s' : St) : Prop :=
  WS n s → WS n s' ∧ s'.R = s.R ∧ s'.L.length = s.L.length ∧ s'.A.length ≤ s.A.length ∧
    ∀ ρ i l, lprod ρ s' i l = lprod ρ s i l

theorem RowRel.refl (n : Nat) (s : St) : RowRel n s s :=
  fun h => ⟨h, rfl, rfl, Nat.le_refl _, fun _ _ _ => rfl⟩

theorem RowRel.trans {n : Nat} {s1 s2 s3 : St} (h12 : RowRel n s1 s2) (h23 : RowRel n s2 s3) :
    RowRel n s1 s3 := by
  intro h1
  obtain ⟨w2, r2, l2, a2, p2⟩ := h12 h1
  obtain ⟨w3, r3, l3, a3, p3⟩ := h23 w2
  exact ⟨w3, r3.trans r2, l3.trans l2, Nat.le_trans a3 a2, fun ρ i l => (p3 ρ i l).trans (p2 ρ i l)⟩

theorem width_eq {n : Nat} {s : St} (h : WS n s) : width s.A = s.R.length :=
  width_of_rect h.Arect h.Apos

@[simp] theorem raise_L (s : St) (f : Flag) : (s.raise f).L = s.L := by
  unfold St.raise; split <;> rfl
@[simp] theorem raise_A (s : St) (f : Flag) : (s.raise f).A = s.A := by
  unfold St.raise; split <;> rfl
@[simp] theorem raise_R (s : St) (f : Flag) : (s.raise f).R = s.R := by
  unfold St.raise; split <;> rfl

/-- Two states with the same matrices are related (flags are irrelevant). -/
theorem rowRel_of_eq {n : Nat} {s s' : St} (hL : s'.L = s.L) (hA : s'.A = s.A) (hR : s'.R = s.R) :
    RowRel n s s' := by
  intro h
  refine ⟨⟨by rw [hL, hA]; exact h.Lrect, by rw [hA, hR]; exact h.Arect, by rw [hR]; exact h.Rrect,
    by rw [hA]; exact h.Apos⟩, hR, by rw [hL], by rw [hA]; exact Nat.le_refl _, ?_⟩
  intro ρ i l
  simp only [lprod, hL, hA]

theorem rowRel_raise (n : Nat) (s : St) (f : Flag) : RowRel n s (s.raise f) :=
  rowRel_of_eq (by simp) (by simp) (by simp)

/-- `row_swap` with both indices in range. -/
theorem rowRel_rowSwap (n : Nat) (s : St) (a b : Nat) (ha : a < s.A.length) (hb : b < s.A.length) :
    RowRel n s (s.rowSwap a b) := by
  intro h
  have hlen : (rowSwapM s.A a b).length = s.A.length := length_rowSwap _ _ _
  refine ⟨⟨?_, ?_, h.Rrect, ?_⟩, rfl, ?_, ?_, ?_⟩
  · show Rect (colSwapM s.L a b) (rowSwapM s.A a b).length
    rw [hlen]; exact rect_colSwap h.Lrect a b
  · exact rect_rowSwap h.Arect a b
  · show 0 < (rowSwapM s.A a b).length
    rw [hlen]; exact h.Apos
  · exact length_colSwap _ _ _
  · show (rowSwapM s.A a b).length ≤ s.A.length
    rw [hlen]; exact Nat.le_refl _
  · intro ρ i l
    show sumN (rowSwapM s.A a b).length
        (fun k => gR (colSwapM s.L a b) i k * gE ρ (rowSwapM s.A a b) k l) = _
    rw [hlen]
    have e : ∀ k, gR (colSwapM s.L a b) i k * gE ρ (rowSwapM s.A a b) k l
        = gR s.L i (swapIdx a b k) * gE ρ s.A (swapIdx a b k) l := by
      intro k
      simp only [gR, gE, gM_colSwap 0 s.L s.A.length a b i k h.Lrect ha hb,
        gM_rowSwap (Entry.num 0) s.A a b k l ha hb]
    rw [sumN_congr (fun k _ => e k)]
    exact pair_swap s.A.length a b (fun k => gR s.L i k) (fun k => gE ρ s.A k l) ha hb

/-- `row_add`: shape, product, which rows change, soundness of the zero flag. -/
theorem rowAdd_spec (n : Nat) (st : St) (t s : Nat) (f : Rat) (ht : t < st.A.length)
    (hs : s < st.A.length) (hts : t ≠ s) (h : WS n st) :
    RowRel n st (st.rowAdd t s f).1 ∧
    (st.rowAdd t s f).1.A.length = st.A.length ∧
    (∀ ρ k l, k ≠ t → gE ρ (st.rowAdd t s f).1.A k l = gE ρ st.A k l) ∧
    ((st.rowAdd t s f).2 = true → ∀ ρ l, gE ρ (st.rowAdd t s f).1.A t l = 0) := by
  unfold St.rowAdd
  cases hr : rowAddRaw st.A t s f with
  | none =>
    exact ⟨RowRel.refl n st, rfl, fun _ _ _ _ => rfl, fun hz => by simp at hz⟩
  | some p =>
    obtain ⟨A', z⟩ := p
    have spec := fun ρ => rowAddRaw_spec ρ hr h.Arect ht hs
    obtain ⟨hlen, hrect, _, _⟩ := spec (fun _ => 0)
    refine ⟨?_, hlen, ?_, ?_⟩
    · intro _
      refine ⟨⟨?_, hrect, h.Rrect, ?_⟩, rfl, ?_, ?_, ?_⟩
      · show Rect (colAddFloat st.L s t (-f)) A'.length
        rw [hlen]; exact rect_colAddFloat h.Lrect _ _ _
      · show 0 < A'.length
        rw [hlen]; exact h.Apos
      · exact length_colAddFloat _ _ _ _
      · show A'.length ≤ st.A.length
        rw [hlen]; exact Nat.le_refl _
      · intro ρ i l
        show sumN A'.length (fun k => gR (colAddFloat st.L s t (-f)) i k * gE ρ A' k l) = _
        rw [hlen]
        obtain ⟨_, _, hview, _⟩ := spec ρ
        have e : ∀ k, gR (colAddFloat st.L s t (-f)) i k * gE ρ A' k l
            = (if k = s then gR st.L i s + (-f) * gR st.L i t else gR st.L i k)
              * (if k = t then gE ρ st.A t l + f * gE ρ st.A s l else gE ρ st.A k l) := by
          intro k
          rw [gR_colAddFloat st.L st.A.length s t (-f) h.Lrect hs i k, hview k l]
        rw [sumN_congr (fun k _ => e k)]
        exact pair_add st.A.length t s f (fun k => gR st.L i k) (fun k => gE ρ st.A k l) ht hs hts
    · intro ρ k l hk
      obtain ⟨_, _, hview, _⟩ := spec ρ
      rw [hview k l]; simp [hk]
    · intro hz ρ l
      obtain ⟨_, _, _, hzero⟩ := spec ρ
      exact hzero hz l

/-! ### deletion of rows -/

theorem delRows_cons (s : St) (z : Nat) (zs : List Nat) :
    s.delRows (z :: zs) = St.delRows { s with A := delRow s.A z, L := delCol s.L z } zs := rfl

/-- Deleting a strictly decreasing list of in-range rows: the product keeps exactly the other rows. -/
theorem delRows_spec : ∀ (zs : List Nat) (s : St),
    List.Pairwise (fun a b => b < a) zs → (∀ z, z ∈ zs → z < s.A.length) →
    Rect s.L s.A.length → Rect s.A s.R.length →
    (s.delRows zs).A.length + zs.length = s.A.length ∧
    Rect (s.delRows zs).L (s.delRows zs).A.length ∧
    Rect (s.delRows zs).A s.R.length ∧
    (s.delRows zs).R = s.R ∧ (s.delRows zs).L.length = s.L.length ∧
    ∀ ρ i l, lprod ρ (s.delRows zs) i l = lprodMask ρ zs s i l := by
  intro zs
  induction zs with
  | nil =>
    intro s _ _ hL hA
    refine ⟨rfl, hL, hA, rfl, rfl, fun ρ i l => ?_⟩
    simp [St.delRows, lprod, lprodMask]
  | cons z zs ih =>
    intro s hp hlt hL hA
    have hz : z < s.A.length := hlt z (by simp)
    have hp' := List.pairwise_cons.mp hp
    let s1 : St := { s with A := delRow s.A z, L := delCol s.L z }
    have hlen1 : s1.A.length + 1 = s.A.length := length_delRow s.A z hz
    have hL1 : Rect s1.L s1.A.length := by
      have : Rect s.L (s1.A.length + 1) := by rw [hlen1]; exact hL
      exact rect_delCol this z (by omega)
    have hA1 : Rect s1.A s1.R.length := rect_delRow hA z
    have hlt1 : ∀ y, y ∈ zs → y < s1.A.length := by
      intro y hy
      have := hp'.1 y hy
      omega
    obtain ⟨c1, c2, c3, c4, c5, c6⟩ := ih s1 hp'.2 hlt1 hL1 hA1
    have hcons : s.delRows (z :: zs) = s1.delRows zs := rfl
    rw [hcons]
    refine ⟨?_, c2, c3, c4, ?_, ?_⟩
    · simp only [List.length_cons]; omega
    · rw [c5]; exact length_delCol _ _
    · intro ρ i l
      rw [c6 ρ i l]
      show sumN s1.A.length (fun k => if k ∈ zs then 0 else gR (delCol s.L z) i k * gE ρ (delRow s.A z) k l)
        = sumN s.A.length (fun k => if k ∈ z :: zs then 0 else gR s.L i k * gE ρ s.A k l)
      have e : ∀ k, (if k ∈ zs then (0 : Rat) else gR (delCol s.L z) i k * gE ρ (delRow s.A z) k l)
          = (if k ∈ zs then 0 else (fun k => gR s.L i k * gE ρ s.A k l) (skipIdx z k)) := by
        intro k
        simp only [gR, gE, gM_delCol, gM_delRow]
      rw [sumN_congr (fun k _ => e k), ← hlen1]
      exact pair_skip_mask s1.A.length z zs (fun k => gR s.L i k * gE ρ s.A k l) (by omega) hp'.1

theorem lprodMask_congr (ρ : Nat → Rat) {zs zs' : List Nat} (s : St) (h : ∀ k, k ∈ zs ↔ k ∈ zs')
    (i l : Nat) : lprodMask ρ zs s i l = lprodMask ρ zs' s i l := by
  simp only [lprodMask]
  apply sumN_congr
  intro k _
  by_cases hk : k ∈ zs
  · simp [hk, (h k).mp hk]
  · have : ¬ k ∈ zs' := fun h' => hk ((h k).mpr h')
    simp [hk, this]

/-- If all the left-out rows are zero the mask is invisible. -/
theorem lprodMask_of_zero (ρ : Nat → Rat) (zs : List Nat) (s : St)
    (hz : ∀ z, z ∈ zs → ∀ l, gE ρ s.A z l = 0) (i l : Nat) :
    lprodMask ρ zs s i l = lprod ρ s i l := by
  simp only [lprodMask, lprod]
  apply sumN_congr
  intro k _
  by_cases hk : k ∈ zs
  · simp only [hk, if_true, hz k hk l]; grind
  · simp [hk]

/-! ### sorting the list of rows to delete -/

theorem mem_sortDesc {zs : List Nat} {k : Nat} : k ∈ sortDesc zs ↔ k ∈ zs :=
  (List.mergeSort_perm zs _).mem_iff

theorem length_sortDesc (zs : List Nat) : (sortDesc zs).length = zs.length :=
  (List.mergeSort_perm zs _).length_eq

theorem pairwise_sortDesc {zs : List Nat} (hnd : zs.Nodup) :
    List.Pairwise (fun a b => b < a) (sortDesc zs) := by
  have h1 : List.Pairwise (fun a b => (decide (b ≤ a)) = true) (sortDesc zs) := by
    apply List.pairwise_mergeSort
    · intro a b c hab hbc
      simp only [decide_eq_true_eq] at *
      omega
    · intro a b
      simp only [Bool.or_eq_true, decide_eq_true_eq]
      omega
  have h2 : (sortDesc zs).Nodup := (List.mergeSort_perm zs _).nodup_iff.mpr hnd
  have h3 := List.Pairwise.and h1 h2
  refine h3.imp ?_
  intro a b hab
  simp only [decide_eq_true_eq] at hab
  omega

/-- Deleting (after sorting) distinct in-range rows that are all zero, at least one row staying. -/
theorem rowRel_delRows_zero (n : Nat) (s : St) (zs : List Nat) (hnd : zs.Nodup)
    (hlt : ∀ z, z ∈ zs → z < s.A.length) (hkeep : zs.length < s.A.length)
    (hz : ∀ ρ z, z ∈ zs → ∀ l, gE ρ s.A z l = 0) : RowRel n s (s.delRows (sortDesc zs)) := by
  intro h
  obtain ⟨c1, c2, c3, c4, c5, c6⟩ := delRows_spec (sortDesc zs) s (pairwise_sortDesc hnd)
    (fun z hz' => hlt z (mem_sortDesc.mp hz')) h.Lrect h.Arect
  rw [length_sortDesc] at c1
  refine ⟨⟨c2, by rw [c4]; exact c3, by rw [c4]; exact h.Rrect, by omega⟩, c4, c5, by omega, ?_⟩
  intro ρ i l
  rw [c6 ρ i l, lprodMask_congr ρ s (fun k => mem_sortDesc) i l]
  exact lprodMask_of_zero ρ zs s (hz ρ) i l

end Ptn.C13

namespace Ptn.C13

/-! ### generic loop lemmas -/

theorem foldl_range_inv {σ : Type} (f : σ → Nat → σ) (P : Nat → σ → Prop) (n : Nat) (s0 : σ)
    (h0 : P 0 s0) (hstep : ∀ j s, j < n → P j s → P (j + 1) (f s j)) :
    P n ((List.range n).foldl f s0) := by
  induction n with
  | zero => simpa using h0
  | succ n ih =>
    rw [List.range_succ, List.foldl_append]
    simp only [List.foldl_cons, List.foldl_nil]
    exact hstep n _ (Nat.lt_succ_self n) (ih (fun j s hj hp => hstep j s (Nat.lt_succ_of_lt hj) hp))

theorem foldl_range'_inv {σ : Type} (f : σ → Nat → σ) (P : Nat → σ → Prop) (a m : Nat) (s0 : σ)
    (h0 : P a s0) (hstep : ∀ j s, a ≤ j → j < a + m → P j s → P (j + 1) (f s j)) :
    P (a + m) ((List.range' a m).foldl f s0) := by
  induction m with
  | zero => simpa using h0
  | succ m ih =>
    rw [List.range'_concat, List.foldl_append]
    simp only [List.foldl_cons, List.foldl_nil, Nat.one_mul]
    exact hstep (a + m) _ (Nat.le_add_right a m) (by omega)
      (ih (fun j s h1 h2 hp => hstep j s h1 (by omega) hp))

theorem nodup_length_le : ∀ (n : Nat) (l : List Nat), l.Nodup → (∀ z, z ∈ l → z < n) → l.length ≤ n := by
  intro n
  induction n with
  | zero =>
    intro l _ h
    cases l with
    | nil => simp
    | cons a l => exact absurd (h a (by simp)) (Nat.not_lt_zero a)
  | succ n ih =>
    intro l hnd h
    by_cases hm : n ∈ l
    · have h1 := ih (l.erase n) (hnd.erase n) (by
        intro z hz
        have := (hnd.mem_erase_iff).mp hz
        have := h z this.2
        omega)
      rw [List.length_erase_of_mem hm] at h1
      omega
    · have := ih l hnd (by
        intro z hz
        have h2 := h z hz
        have : z ≠ n := fun e => hm (e ▸ hz)
        omega)
      omega

/-! ### `row_elimination` -/

theorem rowPivot_spec (n : Nat) (i : Nat) (s : St) (hi : i < s.A.length) :
    RowRel n s (rowPivot i s) ∧ (rowPivot i s).A.length = s.A.length := by
  unfold rowPivot
  split
  · split
    · rename_i j hj
      have hm := List.mem_of_find?_eq_some hj
      simp only [List.mem_range'_1] at hm
      exact ⟨rowRel_rowSwap n s i j hi (by omega), length_rowSwap _ _ _⟩
    · exact ⟨RowRel.refl n s, rfl⟩
  · exact ⟨RowRel.refl n s, rfl⟩

/-- Invariant of the `while j < len(matrix)` loop of `row_elimination`. -/
structure RowInnerInv (n i : Nat) (s1 : St) (j : Nat) (acc : St × List Nat) : Prop where
  ws : WS n acc.1
  rel : RowRel n s1 acc.1
  len : acc.1.A.length = s1.A.length
  nd : acc.2.Nodup
  zs : ∀ z, z ∈ acc.2 → z < j ∧ z ≠ i ∧ ∀ ρ l, gE ρ acc.1.A z l = 0

theorem rowElimInner_inv (n i : Nat) (pivot : Entry) (s1 : St) (hi : i < s1.A.length)
    (j : Nat) (acc : St × List Nat) (hj : j < s1.A.length) (h : RowInnerInv n i s1 j acc) :
    RowInnerInv n i s1 (j + 1) (rowElimInner i pivot acc j) := by
  have keep : RowInnerInv n i s1 (j + 1) acc :=
    ⟨h.ws, h.rel, h.len, h.nd, fun z hz => ⟨by have := (h.zs z hz).1; omega, (h.zs z hz).2⟩⟩
  unfold rowElimInner
  simp only
  split
  · rename_i hc
    split
    · exact keep
    · rename_i f zd _
      -- the state the addition starts from (possibly with the flag raised)
      generalize hst : (if zd = true then acc.1.raise Flag.zeroDiv else acc.1) = st'
      have hL : st'.L = acc.1.L := by subst hst; split <;> simp
      have hA : st'.A = acc.1.A := by subst hst; split <;> simp
      have hR : st'.R = acc.1.R := by subst hst; split <;> simp
      have hrel' : RowRel n acc.1 st' := rowRel_of_eq hL hA hR
      have ws' : WS n st' := (hrel' h.ws).1
      have hji : j ≠ i := hc.1
      have hj' : j < st'.A.length := by rw [hA, h.len]; exact hj
      have hi' : i < st'.A.length := by rw [hA, h.len]; exact hi
      obtain ⟨r1, r2, r3, r4⟩ := rowAdd_spec n st' j i f hj' hi' hji ws'
      have relNew : RowRel n s1 (st'.rowAdd j i f).1 := (h.rel.trans hrel').trans r1
      have lenNew : (st'.rowAdd j i f).1.A.length = s1.A.length := by rw [r2, hA, h.len]
      have old : ∀ z, z ∈ acc.2 → z < j + 1 ∧ z ≠ i ∧ ∀ ρ l, gE ρ (st'.rowAdd j i f).1.A z l = 0 := by
        intro z hz
        obtain ⟨z1, z2, z3⟩ := h.zs z hz
        refine ⟨by omega, z2, fun ρ l => ?_⟩
        rw [r3 ρ z l (by omega), hA]
        exact z3 ρ l
      refine ⟨(r1 ws').1, relNew, lenNew, ?_, ?_⟩
      · show (if (st'.rowAdd j i f).2 = true then acc.2 ++ [j] else acc.2).Nodup
        split
        · rw [List.nodup_append]
          refine ⟨h.nd, by simp, ?_⟩
          intro a ha b hb
          simp only [List.mem_singleton] at hb
          have := (h.zs a ha).1
          omega
        · exact h.nd
      · show ∀ z, z ∈ (if (st'.rowAdd j i f).2 = true then acc.2 ++ [j] else acc.2) → _
        intro z hz
        split at hz
        · rename_i hzero
          rcases List.mem_append.mp hz with hz | hz
          · exact old z hz
          · simp only [List.mem_singleton] at hz
            subst hz
            exact ⟨by omega, hji, fun ρ l => r4 hzero ρ l⟩
        · exact old z hz
  · exact keep

theorem rowRel_rowElimStep (n i : Nat) (s : St) (hi : i < s.A.length) :
    RowRel n s (rowElimStep i s) := by
  intro hws
  obtain ⟨p1, p2⟩ := rowPivot_spec n i s hi
  have ws1 : WS n (rowPivot i s) := (p1 hws).1
  unfold rowElimStep
  simp only
  split
  · exact p1 hws
  · rename_i hpz
    have hi1 : i < (rowPivot i s).A.length := by rw [p2]; exact hi
    have inv := foldl_range_inv
      (rowElimInner i (gM (Entry.num 0) (rowPivot i s).A i i))
      (RowInnerInv n i (rowPivot i s)) (rowPivot i s).A.length (rowPivot i s, [])
      ⟨ws1, RowRel.refl n _, rfl, List.nodup_nil, fun z hz => by simp at hz⟩
      (fun j acc hj hinv => rowElimInner_inv n i _ (rowPivot i s) hi1 j acc hj hinv)
    generalize (List.range (rowPivot i s).A.length).foldl
      (rowElimInner i (gM (Entry.num 0) (rowPivot i s).A i i)) (rowPivot i s, []) = r at inv
    have hcount : r.2.length + 1 ≤ r.1.A.length := by
      have : (i :: r.2).Nodup := List.nodup_cons.mpr ⟨fun hm => (inv.zs i hm).2.1 rfl, inv.nd⟩
      have := nodup_length_le r.1.A.length (i :: r.2) this (by
        intro z hz
        rcases List.mem_cons.mp hz with hz | hz
        · subst hz; rw [inv.len]; exact hi1
        · rw [inv.len]; exact (inv.zs z hz).1)
      simpa using this
    have hdel := rowRel_delRows_zero n r.1 r.2 inv.nd
      (fun z hz => by rw [inv.len]; exact (inv.zs z hz).1) (by omega)
      (fun ρ z hz l => (inv.zs z hz).2.2 ρ l)
    exact ((p1.trans inv.rel).trans hdel) hws

theorem rowRel_rowElimLoop (n : Nat) : ∀ (fuel i : Nat) (s : St), RowRel n s (rowElimLoop fuel i s) := by
  intro fuel
  induction fuel with
  | zero =>
    intro i s
    unfold rowElimLoop
    split
    · exact rowRel_raise n s _
    · exact RowRel.refl n s
  | succ fuel ih =>
    intro i s
    unfold rowElimLoop
    split
    · rename_i hc
      exact (rowRel_rowElimStep n i s (by omega)).trans (ih (i + 1) _)
    · exact RowRel.refl n s

theorem rowRel_rowElimination (n : Nat) (s : St) : RowRel n s (rowElimination s) :=
  rowRel_rowElimLoop n _ 0 s

end Ptn.C13

namespace Ptn.C13

/-! ### `deparallelize_rows` -/

theorem foldl_mem_inv {σ β : Type} (f : σ → β → σ) (P : σ → Prop) (l : List β) (s0 : σ)
    (h0 : P s0) (hstep : ∀ x s, x ∈ l → P s → P (f s x)) : P (l.foldl f s0) := by
  induction l generalizing s0 with
  | nil => simpa using h0
  | cons a l ih =>
    simp only [List.foldl_cons]
    exact ih (f s0 a) (hstep a s0 (by simp) h0) (fun x s hx hp => hstep x s (by simp [hx]) hp)

/-- Invariant of the two nested loops of `deparallelize_rows` (started in state `s`). -/
structure DeparRowInv (s : St) (acc : St × List Nat) : Prop where
  hA : acc.1.A = s.A
  hR : acc.1.R = s.R
  Lrect : Rect acc.1.L s.A.length
  Llen : acc.1.L.length = s.L.length
  nd : acc.2.Nodup
  rng : ∀ z, z ∈ acc.2 → 0 < z ∧ z < s.A.length
  prod : ∀ ρ x l, lprodMask ρ acc.2 acc.1 x l = lprod ρ s x l

theorem deparRowsInner_inv (n : Nat) (s : St) (hws : WS n s) (hnes : NESM s.A) (i j : Nat)
    (hij : i < j) (hj : j < s.A.length) (acc : St × List Nat)
    (h : DeparRowInv s acc ∧ i ∉ acc.2) :
    DeparRowInv s (deparRowsInner s.A i acc j) ∧ i ∉ (deparRowsInner s.A i acc j).2 := by
  obtain ⟨hinv, hiz⟩ := h
  unfold deparRowsInner
  split
  · exact ⟨hinv, hiz⟩
  · rename_i hjz
    simp only
    split
    · rename_i hmult
      have hi : i < s.A.length := by omega
      refine ⟨⟨hinv.hA, hinv.hR, rect_colAddFloat hinv.Lrect _ _ _, ?_, ?_, ?_, ?_⟩, ?_⟩
      · show (colAddFloat acc.1.L i j _).length = s.L.length
        rw [length_colAddFloat]; exact hinv.Llen
      · show (acc.2 ++ [j]).Nodup
        rw [List.nodup_append]
        refine ⟨hinv.nd, by simp, ?_⟩
        intro a ha b hb
        simp only [List.mem_singleton] at hb
        subst hb
        exact fun e => hjz (e ▸ ha)
      · intro z hz
        rcases List.mem_append.mp hz with hz | hz
        · exact hinv.rng z hz
        · simp only [List.mem_singleton] at hz
          subst hz
          exact ⟨by omega, hj⟩
      · intro ρ x l
        rw [← hinv.prod ρ x l]
        show sumN acc.1.A.length (fun k => if k ∈ acc.2 ++ [j] then 0
            else gR (colAddFloat acc.1.L i j (areParallelRow (s.A.getD i []) (s.A.getD j []))) x k
              * gE ρ acc.1.A k l)
          = sumN acc.1.A.length (fun k => if k ∈ acc.2 then 0 else gR acc.1.L x k * gE ρ acc.1.A k l)
        rw [hinv.hA]
        have e : ∀ k, (if k ∈ acc.2 ++ [j] then (0 : Rat)
            else gR (colAddFloat acc.1.L i j (areParallelRow (s.A.getD i []) (s.A.getD j []))) x k
              * gE ρ s.A k l)
            = (if k ∈ acc.2 ++ [j] then 0
                else (if k = i then gR acc.1.L x i
                    + areParallelRow (s.A.getD i []) (s.A.getD j []) * gR acc.1.L x j
                  else gR acc.1.L x k) * gE ρ s.A k l) := by
          intro k
          rw [gR_colAddFloat acc.1.L s.A.length i j _ hinv.Lrect hi x k]
        rw [sumN_congr (fun k _ => e k)]
        exact pair_merge s.A.length i j _ acc.2 (fun k => gR acc.1.L x k) (fun k => gE ρ s.A k l)
          hi hj (by omega) hiz hjz
          (areParallelRow_sound ρ hws.Arect hnes hi hj rfl hmult l)
      · show i ∉ acc.2 ++ [j]
        intro hm
        rcases List.mem_append.mp hm with hm | hm
        · exact hiz hm
        · simp only [List.mem_singleton] at hm
          omega
    · exact ⟨hinv, hiz⟩

theorem deparRowsOuter_inv (n : Nat) (s : St) (hws : WS n s) (hnes : NESM s.A) (i : Nat)
    (acc : St × List Nat) (h : DeparRowInv s acc) : DeparRowInv s (deparRowsOuter s.A acc i) := by
  unfold deparRowsOuter
  split
  · exact h
  · rename_i hiz
    have := foldl_mem_inv (deparRowsInner s.A i) (fun acc => DeparRowInv s acc ∧ i ∉ acc.2)
      (List.range' (i + 1) (s.A.length - (i + 1))) acc ⟨h, hiz⟩
      (fun j acc hj hp => by
        simp only [List.mem_range'_1] at hj
        exact deparRowsInner_inv n s hws hnes i j (by omega) (by omega) acc hp)
    exact this.1

theorem deparRows_loop_inv (n : Nat) (s : St) (hws : WS n s) (hnes : NESM s.A) :
    DeparRowInv s ((List.range s.A.length).foldl (deparRowsOuter s.A) (s, [])) := by
  apply foldl_mem_inv (deparRowsOuter s.A) (DeparRowInv s)
  · refine ⟨rfl, rfl, hws.Lrect, rfl, List.nodup_nil, fun z hz => by simp at hz, fun ρ x l => ?_⟩
    simp [lprodMask, lprod]
  · intro i acc _ hp
    exact deparRowsOuter_inv n s hws hnes i acc hp

theorem rowRel_deparallelizeRows (n : Nat) (s : St) (hnes : NESM s.A) :
    RowRel n s (deparallelizeRows s) := by
  intro hws
  have inv := deparRows_loop_inv n s hws hnes
  unfold deparallelizeRows
  simp only
  generalize (List.range s.A.length).foldl (deparRowsOuter s.A) (s, []) = r at inv
  have hlenA : r.1.A.length = s.A.length := by rw [inv.hA]
  obtain ⟨c1, c2, c3, c4, c5, c6⟩ := delRows_spec (sortDesc r.2) r.1 (pairwise_sortDesc inv.nd)
    (fun z hz => by rw [hlenA]; exact (inv.rng z (mem_sortDesc.mp hz)).2)
    (by rw [hlenA]; exact inv.Lrect) (by rw [inv.hA, inv.hR]; exact hws.Arect)
  rw [length_sortDesc] at c1
  have hcount : r.2.length + 1 ≤ s.A.length := by
    have : (0 :: r.2).Nodup :=
      List.nodup_cons.mpr ⟨fun hm => Nat.lt_irrefl 0 (inv.rng 0 hm).1, inv.nd⟩
    have := nodup_length_le s.A.length (0 :: r.2) this (by
      intro z hz
      rcases List.mem_cons.mp hz with hz | hz
      · subst hz; exact hws.Apos
      · exact (inv.rng z hz).2)
    simpa using this
  refine ⟨⟨c2, ?_, ?_, by omega⟩, by rw [c4, inv.hR], by rw [c5, inv.Llen], by omega, ?_⟩
  · rw [c4]; exact c3
  · rw [c4, inv.hR]; exact hws.Rrect
  · intro ρ i l
    rw [c6 ρ i l, lprodMask_congr ρ r.1 (fun k => mem_sortDesc) i l]
    exact inv.prod ρ i l

theorem nesm_delRows : ∀ (zs : List Nat) (s : St), NESM s.A → NESM (s.delRows zs).A := by
  intro zs
  induction zs with
  | nil => intro s h; exact h
  | cons z zs ih =>
    intro s h
    rw [delRows_cons]
    apply ih
    intro r hr e he
    exact h r (List.mem_of_mem_eraseIdx hr) e he

theorem nesm_deparallelizeRows (n : Nat) (s : St) (hws : WS n s) (hnes : NESM s.A) :
    NESM (deparallelizeRows s).A := by
  have inv := deparRows_loop_inv n s hws hnes
  unfold deparallelizeRows
  simp only
  apply nesm_delRows
  rw [inv.hA]
  exact hnes

end Ptn.C13
