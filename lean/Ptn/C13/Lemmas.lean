import Ptn.C13.ColSteps
/-! Composition for C13: the triple product `L · eval ρ A · R` is invariant along the whole run of
`gaussian_elimination` (core Lean only).  Helper lemmas live in `Sum`, `Views`, `EntryLemmas`,
`RowSteps`, `ColSteps`. -/
namespace Ptn.C13

/-- `(L · eval ρ A · R)[i][j]`. -/
def tprod (ρ : Nat → Rat) (s : St) (i j : Nat) : Rat :=
  sumN s.A.length (fun k => sumN s.R.length (fun l => gR s.L i k * gE ρ s.A k l * gR s.R l j))

theorem tprod_eq_lprod (ρ : Nat → Rat) (s : St) (i j : Nat) :
    tprod ρ s i j = sumN s.R.length (fun l => lprod ρ s i l * gR s.R l j) := by
  unfold tprod
  rw [sumN_comm]
  apply sumN_congr
  intro l _
  simp only [lprod]
  rw [← sumN_mul_right]

theorem tprod_eq_rprod (ρ : Nat → Rat) (s : St) (i j : Nat) :
    tprod ρ s i j = sumN s.A.length (fun k => gR s.L i k * rprod ρ s k j) := by
  unfold tprod
  apply sumN_congr
  intro k _
  simp only [rprod]
  rw [← sumN_mul_left]
  apply sumN_congr
  intro l _
  grind

theorem tprod_of_rowRel {n : Nat} {s s' : St} (h : RowRel n s s') (hws : WS n s) (ρ : Nat → Rat)
    (i j : Nat) : tprod ρ s' i j = tprod ρ s i j := by
  obtain ⟨_, hR, _, _, hp⟩ := h hws
  rw [tprod_eq_lprod, tprod_eq_lprod, hR]
  apply sumN_congr
  intro l _
  rw [hp ρ i l]

theorem tprod_of_colRel {n : Nat} {s s' : St} (h : ColRel n s s') (hws : WS n s) (ρ : Nat → Rat)
    (i j : Nat) : tprod ρ s' i j = tprod ρ s i j := by
  obtain ⟨_, hL, hA, _, hp⟩ := h hws
  rw [tprod_eq_rprod, tprod_eq_rprod, hL, hA]
  apply sumN_congr
  intro k _
  rw [hp ρ k j]

/-- The invariant of the whole algorithm, for an `m × n` input with entry function `F`. -/
structure Good (m n : Nat) (F : (Nat → Rat) → Nat → Nat → Rat) (s : St) : Prop where
  ws : WS n s
  Llen : s.L.length = m
  rows_le : s.A.length ≤ m
  cols_le : s.R.length ≤ n
  exact : ∀ ρ i j, tprod ρ s i j = F ρ i j

theorem good_of_rowRel {m n : Nat} {F : (Nat → Rat) → Nat → Nat → Rat} {s s' : St}
    (hg : Good m n F s) (h : RowRel n s s') : Good m n F s' := by
  obtain ⟨ws', hR, hL, hA, _⟩ := h hg.ws
  exact ⟨ws', by rw [hL]; exact hg.Llen, Nat.le_trans hA hg.rows_le, by rw [hR]; exact hg.cols_le,
    fun ρ i j => (tprod_of_rowRel h hg.ws ρ i j).trans (hg.exact ρ i j)⟩

theorem good_of_colRel {m n : Nat} {F : (Nat → Rat) → Nat → Nat → Rat} {s s' : St}
    (hg : Good m n F s) (h : ColRel n s s') : Good m n F s' := by
  obtain ⟨ws', hL, hA, hR, _⟩ := h hg.ws
  exact ⟨ws', by rw [hL]; exact hg.Llen, by rw [hA]; exact hg.rows_le, Nat.le_trans hR hg.cols_le,
    fun ρ i j => (tprod_of_colRel h hg.ws ρ i j).trans (hg.exact ρ i j)⟩

theorem good_mainLoop {m n : Nat} {F : (Nat → Rat) → Nat → Nat → Rat} :
    ∀ (fuel nr nro nc nco : Nat) (s : St), Good m n F s → Good m n F (mainLoop fuel nr nro nc nco s) := by
  intro fuel
  induction fuel with
  | zero =>
    intro nr nro nc nco s hg
    unfold mainLoop
    split
    · exact good_of_rowRel hg (rowRel_raise n s _)
    · exact hg
  | succ fuel ih =>
    intro nr nro nc nco s hg
    unfold mainLoop
    split
    · simp only
      apply ih
      exact good_of_colRel (good_of_rowRel hg (rowRel_rowElimination n s)) (colRel_columnElimination n _)
    · exact hg

/-! ### the initial state -/

theorem sumN_single' (n t : Nat) (f : Nat → Rat) (ht : t < n) :
    sumN n (fun k => if k = t then f k else 0) = f t := by
  have : ∀ k, (if k = t then f k else 0) = (if k = t then f t else 0) := by
    intro k
    by_cases h : k = t
    · subst h; simp
    · simp [h]
  rw [sumN_congr (fun k _ => this k)]
  exact sumN_single n t (f t) ht

theorem gR_identity (n i k : Nat) (hi : i < n) (hk : k < n) :
    gR (identity n) i k = if k = i then 1 else 0 := by
  simp only [gR, gM_def, identity, List.getElem?_map, List.getElem?_range hi, Option.map_some,
    Option.getD_some, List.getElem?_range hk]
  by_cases h : k = i
  · subst h; simp
  · have : ¬ i = k := fun e => h e.symm
    simp [h, this]

theorem rect_identity (n : Nat) : Rect (identity n) n := by
  intro r hr
  simp only [identity, List.mem_map] at hr
  obtain ⟨i, _, rfl⟩ := hr
  simp

theorem length_identity (n : Nat) : (identity n).length = n := by simp [identity]

theorem tprod_init (ρ : Nat → Rat) (M : EMat) (n : Nat) (fl : Flag) (i j : Nat)
    (hi : i < M.length) (hj : j < n) :
    tprod ρ { L := identity M.length, A := M, R := identity n, flag := fl } i j = gE ρ M i j := by
  unfold tprod
  simp only [length_identity]
  have inner : ∀ k, k < M.length →
      sumN n (fun l => gR (identity M.length) i k * gE ρ M k l * gR (identity n) l j)
        = if k = i then gE ρ M k j else 0 := by
    intro k hk
    have e : ∀ l, l < n → gR (identity M.length) i k * gE ρ M k l * gR (identity n) l j
        = if l = j then gR (identity M.length) i k * gE ρ M k l else 0 := by
      intro l hl
      rw [gR_identity n l j hl hj]
      by_cases h : l = j
      · subst h; simp <;> grind
      · have : ¬ j = l := fun e => h e.symm
        simp [h, this] <;> grind
    rw [sumN_congr e, sumN_single' n j _ hj, gR_identity M.length i k hi hk]
    by_cases h : k = i
    · simp [h] <;> grind
    · simp [h] <;> grind
  rw [sumN_congr inner, sumN_single' M.length i (fun k => gE ρ M k j) hi]

/-- Entry function of the input, continued outside the index range by whatever the initial product is. -/
def initF (M : EMat) (n : Nat) : (Nat → Rat) → Nat → Nat → Rat :=
  fun ρ i j => if i < M.length ∧ j < n then gE ρ M i j else
    tprod ρ { L := identity M.length, A := M, R := identity n, flag := .ok } i j

theorem good_init (M : EMat) (n : Nat) (hpos : 0 < M.length) (hrect : Rect M n) :
    Good M.length n (initF M n)
      { L := identity M.length, A := M, R := identity n, flag := .ok } := by
  refine ⟨⟨?_, ?_, rect_identity n, hpos⟩, length_identity _, Nat.le_refl _, ?_, ?_⟩
  · exact rect_identity _
  · show Rect M (identity n).length
    rw [length_identity]; exact hrect
  · show (identity n).length ≤ n
    rw [length_identity]; exact Nat.le_refl _
  · intro ρ i j
    by_cases h : i < M.length ∧ j < n
    · simp only [initF, h, and_self, if_true]
      exact tprod_init ρ M n .ok i j h.1 h.2
    · simp only [initF, h, if_false]

/-- The invariant holds in the state returned by `gaussian_elimination`. -/
theorem good_gaussSt (M : EMat) (n : Nat) (hpos : 0 < M.length) (hrect : Rect M n) (hnes : NESM M) :
    Good M.length n (initF M n) (gaussSt M) := by
  unfold gaussSt
  simp only
  rw [width_of_rect hrect hpos]
  apply good_mainLoop
  have g0 := good_init M n hpos hrect
  have g1 := good_of_rowRel g0 (rowRel_deparallelizeRows n _ hnes)
  have hnes1 := nesm_deparallelizeRows n _ g0.ws hnes
  exact good_of_colRel g1 (colRel_deparallelizeCols n _ hnes1)

theorem initF_in_range (M : EMat) (n : Nat) (ρ : Nat → Rat) (i j : Nat) (hi : i < M.length) (hj : j < n) :
    initF M n ρ i j = gE ρ M i j := by
  simp [initF, hi, hj]

end Ptn.C13

namespace Ptn.C13

/-! ### list-level matrices (for the statement of exactness as an equation between matrices) -/

/-- `eval ρ A` as a matrix of rationals. -/
def evalM (ρ : Nat → Rat) (A : EMat) : RMat := A.map (fun row => row.map (Entry.eval ρ))

/-- Product of `X` with a matrix `Y` that has `n` columns. -/
def matMul (X Y : RMat) (n : Nat) : RMat :=
  X.map fun row => (List.range n).map fun j => sumN Y.length (fun k => row.getD k 0 * gR Y k j)

theorem gR_evalM (ρ : Nat → Rat) (A : EMat) (k l : Nat) : gR (evalM ρ A) k l = gE ρ A k l := by
  simp only [gR, gE_def, gM_def, evalM, List.getElem?_map]
  cases A[k]? with
  | none => simp [Entry.eval]
  | some r =>
    simp only [Option.map_some, Option.getD_some, List.getElem?_map]
    cases r[l]? with
    | none => simp [Entry.eval]
    | some e => simp

theorem gR_matMul (X Y : RMat) (n i j : Nat) (hi : i < X.length) (hj : j < n) :
    gR (matMul X Y n) i j = sumN Y.length (fun k => gR X i k * gR Y k j) := by
  simp only [gR, gM_def, matMul, List.getElem?_map, List.getElem?_eq_getElem hi, Option.map_some,
    Option.getD_some, List.getElem?_range hj, List.getD_eq_getElem?_getD]

/-- Two `m × n` matrices with the same entries are equal. -/
theorem rmat_ext {X Y : RMat} {m n : Nat} (hX : X.length = m) (hY : Y.length = m) (rX : Rect X n)
    (rY : Rect Y n) (h : ∀ i j, i < m → j < n → gR X i j = gR Y i j) : X = Y := by
  apply List.ext_getElem (by omega)
  intro i h1 h2
  have l1 : (X[i]).length = n := rX _ (List.getElem_mem h1)
  have l2 : (Y[i]).length = n := rY _ (List.getElem_mem h2)
  apply List.ext_getElem (by omega)
  intro j h3 h4
  have := h i j (by omega) (by omega)
  simpa [gR, gM_def, List.getElem?_eq_getElem h1, List.getElem?_eq_getElem h2,
    List.getElem?_eq_getElem h3, List.getElem?_eq_getElem h4] using this

theorem rect_matMul (X Y : RMat) (n : Nat) : Rect (matMul X Y n) n := by
  intro r hr
  simp only [matMul, List.mem_map] at hr
  obtain ⟨r0, _, rfl⟩ := hr
  simp

theorem rect_evalM {A : EMat} {w : Nat} (ρ : Nat → Rat) (h : Rect A w) : Rect (evalM ρ A) w := by
  intro r hr
  simp only [evalM, List.mem_map] at hr
  obtain ⟨r0, hr0, rfl⟩ := hr
  simpa using h r0 hr0

end Ptn.C13

namespace Ptn.C13

/-! ### data for the non-vacuity examples of `Props.lean` -/

/-- `L = R = 1`, `A = [[1, a], [2, 3a]]`. -/
def exState : St :=
  ⟨[[1, 0], [0, 1]], [[.num 1, .sym 1 1], [.num 2, .sym 3 1]], [[1, 0], [0, 1]], .ok⟩

/-- `L = 1₃`, `A = [[1, a], [0, 0], [2, b]]`, `R = 1₂`: row 1 is zero. -/
def exStateZeroRow : St :=
  ⟨[[1, 0, 0], [0, 1, 0], [0, 0, 1]], [[.num 1, .sym 1 1], [.num 0, .num 0], [.num 2, .sym 1 2]],
    [[1, 0], [0, 1]], .ok⟩

/-- `A = [[1, a], [3, 3a]]`: parallel rows and (with `a`) non-parallel columns. -/
def exStateParallel : St :=
  ⟨[[1, 0], [0, 1]], [[.num 1, .sym 1 1], [.num 3, .sym 3 1]], [[1, 0], [0, 1]], .ok⟩

end Ptn.C13
