import Ptn.C13.Model
/-! Line-protocol handler for the C13 model (core Lean only). -/
namespace Ptn.C13
def handle (args : List String) : String := "bad-op"
end Ptn.C13
