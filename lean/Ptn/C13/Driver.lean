import Ptn.C13.Model
import Ptn.C13.Checked
/-! Line-protocol handler for the C13 model (core Lean only).

  gauss <rows> <cols> <e_1> … <e_{rows*cols}>      (row-major)
      entry tokens:  `n:<num>/<den>`  (number)      `s:<num>/<den>:<id>`  (coefficient, symbol id;
      id 0 is the empty string)
      → `ok <m> <p> <q> <n> | <L row-major> | <M' row-major> | <R row-major>`
        (L is m×p, M' is p×q, R is q×n; a matrix whose rows do not all have the announced length is
        answered `ragged`), numbers always as `<num>/<den>` in lowest terms, den > 0
      → `zerodiv`   the Python code raises ZeroDivisionError (pivot with coefficient 0)
      → `fuel`      the model ran out of fuel (never expected)
  par <k> <a_1> … <a_k> <b_1> … <b_k>               → are_parallel_row(a, b) as `<num>/<den>`
  rowadd <rows> <cols> <t> <s> <num>/<den> <e…>     → `fail` | `<zero:0|1> | <matrix>`
  coladd <rows> <cols> <t> <s> <num>/<den> <e…>     → same for `_col_add`
  gaussc <rows> <len_1> … <len_rows> <e…>            the CHECKED model (`Checked.lean`) on a possibly ragged
      matrix (row `i` has `len_i` entries; `rows` may be 0)
      → `ok | <L> | <M'> | <R>` every matrix as `<#rows> [<len> <e…>] [<len> <e…>] …` (rows may differ in
        length), → `zerodiv`, → `fuel`, → `index-error` (the Python code raises IndexError)
-/
namespace Ptn.C13

def ratStr (q : Rat) : String := s!"{q.num}/{q.den}"

def parseRat (t : String) : Option Rat :=
  match t.splitOn "/" with
  | [a, b] =>
    match a.toInt?, b.toNat? with
    | some n, some d => if d = 0 then none else some (mkRat n d)
    | _, _ => none
  | _ => none

def parseEntry (t : String) : Option Entry :=
  match t.splitOn ":" with
  | ["n", q] => (parseRat q).map Entry.num
  | ["s", q, s] =>
    match parseRat q, s.toNat? with
    | some q, some s => some (Entry.sym q s)
    | _, _ => none
  | _ => none

def entryStr : Entry → String
  | .num q => s!"n:{ratStr q}"
  | .sym q s => s!"s:{ratStr q}:{s}"

def chunk {α : Type} (n : Nat) : Nat → List α → List (List α)
  | 0, _ => []
  | k + 1, l => l.take n :: chunk n k (l.drop n)

def parseMat (rows cols : Nat) (toks : List String) : Option EMat :=
  if toks.length ≠ rows * cols then none
  else
    match toks.mapM parseEntry with
    | none => none
    | some es => some (chunk cols rows es)

def matStr {α : Type} (f : α → String) (X : List (List α)) : String :=
  " ".intercalate (X.flatten.map f)

def rectangular {α : Type} (X : List (List α)) (c : Nat) : Bool := X.all (fun r => r.length == c)

def outcomeStr (m n : Nat) : Outcome → String
  | .zeroDiv => "zerodiv"
  | .fuelOut => "fuel"
  | .ok L A R =>
    let p := A.length
    let q := R.length
    if L.length == m && rectangular L p && rectangular A q && rectangular R n then
      s!"ok {m} {p} {q} {n} | {matStr ratStr L} | {matStr entryStr A} | {matStr ratStr R}"
    else "ragged"

/-- Split a flat token list into rows of the given lengths. -/
def chunks {α : Type} : List Nat → List α → Option (List (List α))
  | [], [] => some []
  | [], _ :: _ => none
  | n :: ns, l =>
    if l.length < n then none
    else (chunks ns (l.drop n)).map (l.take n :: ·)

def rowStrR {α : Type} (f : α → String) (r : List α) : String :=
  "[" ++ " ".intercalate (toString r.length :: r.map f) ++ "]"

def matStrR {α : Type} (f : α → String) (X : List (List α)) : String :=
  " ".intercalate (toString X.length :: X.map (rowStrR f))

def outcomeStrC : OutcomeC → String
  | .zeroDiv => "zerodiv"
  | .fuelOut => "fuel"
  | .indexError => "index-error"
  | .ok L A R => s!"ok | {matStrR ratStr L} | {matStrR entryStr A} | {matStrR ratStr R}"

def handle (args : List String) : String :=
  match args with
  | "gaussc" :: r :: toks =>
    match r.toNat? with
    | some rows =>
      if toks.length < rows then "bad-op"
      else
        match (toks.take rows).mapM String.toNat?, (toks.drop rows).mapM parseEntry with
        | some lens, some es =>
          match chunks lens es with
          | some M => outcomeStrC (gaussianEliminationC M)
          | none => "bad-op"
        | _, _ => "bad-op"
    | none => "bad-op"
  | "gauss" :: r :: c :: toks =>
    match r.toNat?, c.toNat? with
    | some rows, some cols =>
      if rows = 0 then "bad-op"
      else
        match parseMat rows cols toks with
        | none => "bad-op"
        | some M => outcomeStr rows cols (gaussianElimination M)
    | _, _ => "bad-op"
  | "par" :: k :: toks =>
    match k.toNat? with
    | some k =>
      if toks.length ≠ 2 * k then "bad-op"
      else
        match toks.mapM parseEntry with
        | none => "bad-op"
        | some es => ratStr (areParallelRow (es.take k) (es.drop k))
    | none => "bad-op"
  | kind :: r :: c :: t :: s :: f :: toks =>
    if kind ≠ "rowadd" ∧ kind ≠ "coladd" then "bad-op"
    else
      match r.toNat?, c.toNat?, t.toNat?, s.toNat?, parseRat f with
      | some rows, some cols, some t, some s, some f =>
        if rows = 0 ∨ cols = 0 then "bad-op"
        else if kind = "rowadd" ∧ (t ≥ rows ∨ s ≥ rows) then "bad-op"
        else if kind = "coladd" ∧ (t ≥ cols ∨ s ≥ cols) then "bad-op"
        else
          match parseMat rows cols toks with
          | none => "bad-op"
          | some M =>
            match (if kind = "rowadd" then rowAddRaw M t s f else colAddRaw M t s f) with
            | none => "fail"
            | some (A, z) => s!"{if z then 1 else 0} | {matStr entryStr A}"
      | _, _, _, _, _ => "bad-op"
  | _ => "bad-op"

end Ptn.C13
