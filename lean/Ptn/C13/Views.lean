import Ptn.C13.Sum
/-! Entry-function views of the list-level matrix operations of the C13 model (core Lean only). -/
namespace Ptn.C13

/-- All rows of `X` have length `w`. -/
def Rect {α : Type} (X : List (List α)) (w : Nat) : Prop := ∀ r, r ∈ X → r.length = w

/-- Entry function of an operator matrix. -/
def gR (X : RMat) (i k : Nat) : Rat := gM 0 X i k

/-- Entry function of a symbolic matrix under a valuation. -/
def gE (ρ : Nat → Rat) (A : EMat) (k l : Nat) : Rat := (gM (Entry.num 0) A k l).eval ρ

theorem gM_def {α : Type} (d : α) (X : List (List α)) (i j : Nat) :
    gM d X i j = ((X[i]?).getD [])[j]?.getD d := by
  simp [gM, List.getD_eq_getElem?_getD]

theorem width_of_rect {α : Type} {X : List (List α)} {w : Nat} (h : Rect X w) (hp : 0 < X.length) :
    width X = w := by
  cases X with
  | nil => simp at hp
  | cons r rest => exact h r (by simp)

/-! ### deletion -/

theorem gM_delRow {α : Type} (d : α) (X : List (List α)) (z i j : Nat) :
    gM d (delRow X z) i j = gM d X (skipIdx z i) j := by
  simp only [gM_def, delRow, List.getElem?_eraseIdx, skipIdx]
  by_cases h : i < z <;> simp [h]

theorem gM_delCol {α : Type} (d : α) (X : List (List α)) (z i j : Nat) :
    gM d (delCol X z) i j = gM d X i (skipIdx z j) := by
  simp only [gM_def, delCol, List.getElem?_map, skipIdx]
  cases X[i]? with
  | none => simp
  | some r =>
    simp only [Option.map_some, Option.getD_some, List.getElem?_eraseIdx]
    by_cases h : j < z <;> simp [h]

theorem rect_delRow {α : Type} {X : List (List α)} {w : Nat} (h : Rect X w) (z : Nat) :
    Rect (delRow X z) w := by
  intro r hr
  exact h r (List.mem_of_mem_eraseIdx hr)

theorem rect_delCol {α : Type} {X : List (List α)} {w : Nat} (h : Rect X (w + 1)) (z : Nat)
    (hz : z ≤ w) : Rect (delCol X z) w := by
  intro r hr
  simp only [delCol, List.mem_map] at hr
  obtain ⟨r0, hr0, rfl⟩ := hr
  have := h r0 hr0
  rw [List.length_eraseIdx_of_lt (by omega)]
  omega

theorem length_delCol {α : Type} (X : List (List α)) (z : Nat) : (delCol X z).length = X.length := by
  simp [delCol]

theorem length_delRow {α : Type} (X : List (List α)) (z : Nat) (hz : z < X.length) :
    (delRow X z).length + 1 = X.length := by
  simp only [delRow]
  rw [List.length_eraseIdx_of_lt hz]
  omega

/-! ### swaps -/

theorem getElem?_listSwap {α : Type} (l : List α) (a b k : Nat) (ha : a < l.length) (hb : b < l.length) :
    (listSwap l a b)[k]? = l[swapIdx a b k]? := by
  have ea : l[a]? = some l[a] := List.getElem?_eq_getElem ha
  have eb : l[b]? = some l[b] := List.getElem?_eq_getElem hb
  simp only [listSwap, ea, eb, swapIdx, List.getElem?_set, List.length_set]
  by_cases h1 : k = a
  · subst h1
    by_cases h2 : b = k
    · subst h2; simp [ha]
    · have : ¬ k = b := fun e => h2 e.symm
      simp [h2, ha, eb]
  · have h1' : ¬ a = k := fun e => h1 e.symm
    by_cases h2 : k = b
    · subst h2; simp [hb, h1, h1', ea]
    · have h2' : ¬ b = k := fun e => h2 e.symm
      simp [h1, h2, h1', h2']

theorem length_listSwap {α : Type} (l : List α) (a b : Nat) : (listSwap l a b).length = l.length := by
  unfold listSwap
  split <;> simp

theorem swapIdx_lt {a b k n : Nat} (ha : a < n) (hb : b < n) : swapIdx a b k < n ↔ k < n := by
  unfold swapIdx
  by_cases h1 : k = a
  · subst h1; simp [hb, ha]
  · by_cases h2 : k = b
    · subst h2; simp [h1, ha, hb]
    · simp [h1, h2]

theorem mem_listSwap {α : Type} {l : List α} {a b : Nat} {x : α} (h : x ∈ listSwap l a b) : x ∈ l := by
  unfold listSwap at h
  split at h
  · rename_i va vb ea eb
    have h1 := List.mem_or_eq_of_mem_set h
    rcases h1 with h1 | h1
    · have h2 := List.mem_or_eq_of_mem_set h1
      rcases h2 with h2 | h2
      · exact h2
      · subst h2; exact List.mem_of_getElem? eb
    · subst h1; exact List.mem_of_getElem? ea
  · exact h

theorem gM_rowSwap {α : Type} (d : α) (X : List (List α)) (a b i j : Nat)
    (ha : a < X.length) (hb : b < X.length) :
    gM d (rowSwapM X a b) i j = gM d X (swapIdx a b i) j := by
  simp only [gM_def, rowSwapM, getElem?_listSwap X a b i ha hb]

theorem gM_colSwap {α : Type} (d : α) (X : List (List α)) (w a b i j : Nat) (hX : Rect X w)
    (ha : a < w) (hb : b < w) :
    gM d (colSwapM X a b) i j = gM d X i (swapIdx a b j) := by
  simp only [gM_def, colSwapM, List.getElem?_map]
  cases h : X[i]? with
  | none => simp
  | some r =>
    have hr : r.length = w := hX r (List.mem_of_getElem? h)
    simp only [Option.map_some, Option.getD_some]
    rw [getElem?_listSwap r a b j (by omega) (by omega)]

theorem rect_rowSwap {α : Type} {X : List (List α)} {w : Nat} (h : Rect X w) (a b : Nat) :
    Rect (rowSwapM X a b) w := fun r hr => h r (mem_listSwap hr)

theorem rect_colSwap {α : Type} {X : List (List α)} {w : Nat} (h : Rect X w) (a b : Nat) :
    Rect (colSwapM X a b) w := by
  intro r hr
  simp only [colSwapM, List.mem_map] at hr
  obtain ⟨r0, hr0, rfl⟩ := hr
  rw [length_listSwap]
  exact h r0 hr0

theorem length_rowSwap {α : Type} (X : List (List α)) (a b : Nat) :
    (rowSwapM X a b).length = X.length := length_listSwap X a b

theorem length_colSwap {α : Type} (X : List (List α)) (a b : Nat) :
    (colSwapM X a b).length = X.length := by simp [colSwapM]

/-! ### additions on the operator matrices -/

theorem gR_colAddFloat (X : RMat) (w t s : Nat) (f : Rat) (hX : Rect X w) (ht : t < w) (i k : Nat) :
    gR (colAddFloat X t s f) i k = if k = t then gR X i t + f * gR X i s else gR X i k := by
  simp only [gR, gM_def, colAddFloat, List.getElem?_map]
  cases h : X[i]? with
  | none => by_cases hk : k = t <;> simp [hk] <;> grind
  | some r =>
    have hr : r.length = w := hX r (List.mem_of_getElem? h)
    simp only [Option.map_some, Option.getD_some, List.getElem?_set, List.getD_eq_getElem?_getD]
    by_cases hk : k = t
    · subst hk
      simp [hr, ht]
    · have : ¬ t = k := fun e => hk e.symm
      simp [hk, this]

theorem rect_colAddFloat {X : RMat} {w : Nat} (hX : Rect X w) (t s : Nat) (f : Rat) :
    Rect (colAddFloat X t s f) w := by
  intro r hr
  simp only [colAddFloat, List.mem_map] at hr
  obtain ⟨r0, hr0, rfl⟩ := hr
  simp [hX r0 hr0]

theorem length_colAddFloat (X : RMat) (t s : Nat) (f : Rat) : (colAddFloat X t s f).length = X.length := by
  simp [colAddFloat]

theorem gR_rowAddFloat (X : RMat) (w t s : Nat) (f : Rat) (hX : Rect X w) (ht : t < X.length)
    (hs : s < X.length) (l j : Nat) :
    gR (rowAddFloat X t s f) l j = if l = t then gR X t j + f * gR X s j else gR X l j := by
  have et : X[t]? = some X[t] := List.getElem?_eq_getElem ht
  have es : X[s]? = some X[s] := List.getElem?_eq_getElem hs
  have lt : (X[t]).length = w := hX _ (List.getElem_mem ht)
  have ls : (X[s]).length = w := hX _ (List.getElem_mem hs)
  simp only [gR, gM_def, rowAddFloat, List.getElem?_set, List.getD_eq_getElem?_getD, et, es,
    Option.getD_some]
  by_cases hl : l = t
  · subst hl
    simp only [if_true, ht, Option.getD_some, List.getElem?_zipWith]
    by_cases hj : j < w
    · have e1 : (X[l])[j]? = some (X[l])[j] := List.getElem?_eq_getElem (by omega)
      have e2 : (X[s])[j]? = some (X[s])[j] := List.getElem?_eq_getElem (by omega)
      simp [e1, e2]
    · have e1 : (X[l])[j]? = none := List.getElem?_eq_none (by omega)
      have e2 : (X[s])[j]? = none := List.getElem?_eq_none (by omega)
      simp [e1, e2]
      grind
  · have : ¬ t = l := fun e => hl e.symm
    simp [hl, this]

theorem rect_rowAddFloat {X : RMat} {w : Nat} (hX : Rect X w) (t s : Nat) (f : Rat)
    (ht : t < X.length) (hs : s < X.length) : Rect (rowAddFloat X t s f) w := by
  intro r hr
  simp only [rowAddFloat] at hr
  rcases List.mem_or_eq_of_mem_set hr with h | h
  · exact hX r h
  · subst h
    have lt : (X[t]).length = w := hX _ (List.getElem_mem ht)
    have ls : (X[s]).length = w := hX _ (List.getElem_mem hs)
    simp [List.getD_eq_getElem?_getD, List.getElem?_eq_getElem ht, List.getElem?_eq_getElem hs, lt, ls]

theorem length_rowAddFloat (X : RMat) (t s : Nat) (f : Rat) : (rowAddFloat X t s f).length = X.length := by
  simp [rowAddFloat]

end Ptn.C13
