/-
Abstract linear algebra, part L2: the matrix exponential `NormedSpace.exp` on square matrices
over `𝕜` (`RCLike 𝕜`, in applications `𝕜 = ℂ`).  No norm on matrices has to be chosen by the
user: the statements only mention `NormedSpace.exp`, and the proofs reuse the norm-free lemmas of
`Mathlib.Analysis.Normed.Algebra.MatrixExponential`.
-/
import Mathlib.Analysis.Normed.Algebra.MatrixExponential
import Mathlib.Analysis.RCLike.Basic
import Mathlib.Analysis.Complex.Basic

namespace Ptn.Analysis

open Matrix NormedSpace

section Exp

variable {𝕜 : Type*} [RCLike 𝕜] {n : Type*} [Fintype n] [DecidableEq n]

/-- **L2.** Zero duration: `exp 0 = 1`. Used by C06/C07/C18/C20 (a time step of length `0`, or a
zero Hamiltonian, leaves the state unchanged). -/
theorem exp_zero' : exp (0 : Matrix n n 𝕜) = 1 :=
  NormedSpace.exp_zero

/-- **L2.** Forward evolution followed by backward evolution is the identity.
Used by C06/C07 (the backward link/site update undoes a forward update with the same effective
Hamiltonian) and C18. -/
theorem exp_mul_exp_neg (A : Matrix n n 𝕜) : exp A * exp (-A) = 1 := by
  rw [← Matrix.exp_add_of_commute A (-A) (Commute.neg_right (Commute.refl A)), add_neg_cancel,
    NormedSpace.exp_zero]

/-- **L2.** Backward then forward is the identity as well. -/
theorem exp_neg_mul_exp (A : Matrix n n 𝕜) : exp (-A) * exp A = 1 := by
  rw [← Matrix.exp_add_of_commute (-A) A (Commute.neg_left (Commute.refl A)), neg_add_cancel,
    NormedSpace.exp_zero]

/-- **L2.** The exponential of a skew-Hermitian matrix is unitary (left inverse form).
With `A = (-i t) • H`, `H` Hermitian: Hermitian Hamiltonians preserve the norm (C06, C07, C18,
C20). -/
theorem exp_unitary_of_skewHermitian (A : Matrix n n 𝕜) (hA : Aᴴ = -A) :
    (exp A)ᴴ * exp A = 1 := by
  rw [← Matrix.exp_conjTranspose, hA, exp_neg_mul_exp]

/-- **L2.** The exponential of a skew-Hermitian matrix is unitary (right inverse form). -/
theorem exp_unitary_of_skewHermitian' (A : Matrix n n 𝕜) (hA : Aᴴ = -A) :
    exp A * (exp A)ᴴ = 1 := by
  rw [← Matrix.exp_conjTranspose, hA, exp_mul_exp_neg]

/-- **L2.** Semigroup law in the time parameter: two half steps are one full step
(second-order splitting in C06/C07; merging of consecutive steps in C18/C20). -/
theorem exp_add_same (A : Matrix n n 𝕜) (s t : 𝕜) :
    exp (s • A) * exp (t • A) = exp ((s + t) • A) := by
  rw [add_smul, Matrix.exp_add_of_commute _ _
    (((Commute.refl A).smul_left s).smul_right t)]

/-- **L2.** `j` equal steps are one step of `j`-fold duration. -/
theorem exp_nsmul' (A : Matrix n n 𝕜) (j : ℕ) : exp A ^ j = exp (j • A) :=
  (Matrix.exp_nsmul j A).symm

/-- **L2.** Same as `exp_nsmul'` with the scalar in `𝕜` (the shape in which durations appear). -/
theorem exp_natCast_smul (A : Matrix n n 𝕜) (j : ℕ) : exp A ^ j = exp ((j : 𝕜) • A) := by
  rw [Nat.cast_smul_eq_nsmul, exp_nsmul']

/-- **L2.** `j` steps of duration `t` are one step of duration `j * t` (C18/C20: repeated
application of the one-step propagator). -/
theorem exp_smul_pow (A : Matrix n n 𝕜) (t : 𝕜) (j : ℕ) :
    exp (t • A) ^ j = exp (((j : 𝕜) * t) • A) := by
  rw [exp_natCast_smul, smul_smul]

/-- **L2.** A generator commutes with its own flow. Used in L3 (energy conservation of the
local TDVP/BUG step) and C18. -/
theorem commute_exp (K : Matrix n n 𝕜) (c : 𝕜) : K * exp (c • K) = exp (c • K) * K :=
  (((Commute.refl K).smul_right c).exp_right).eq

/-- **L2.** Anything commuting with the generator commutes with the flow. -/
theorem commute_exp_of_commute (P K : Matrix n n 𝕜) (c : 𝕜) (h : P * K = K * P) :
    P * exp (c • K) = exp (c • K) * P :=
  ((Commute.smul_right (show Commute P K from h) c).exp_right).eq

/-- **L2.** Conjugating the generator by a unitary conjugates the flow:
`U * exp A * Uᴴ = exp (U * A * Uᴴ)` (change of basis / gauge freedom on a bond, C18/C20). -/
theorem exp_unitary_conj (U A : Matrix n n 𝕜) (hU : Uᴴ * U = 1) :
    U * exp A * Uᴴ = exp (U * A * Uᴴ) := by
  have hinv : U⁻¹ = Uᴴ := Matrix.inv_eq_left_inv hU
  have hunit : IsUnit U := by
    rw [Matrix.isUnit_iff_isUnit_det]
    exact Matrix.isUnit_det_of_left_inverse hU
  rw [← hinv, Matrix.exp_conj U A hunit]

end Exp

/-! ### Non-vacuity: concrete instances over `ℂ` -/

section Examples

/-- A Hermitian `2 × 2` matrix that is not diagonal (Pauli `X`). -/
def pauliX : Matrix (Fin 2) (Fin 2) ℂ := !![0, 1; 1, 0]

theorem pauliX_hermitian : pauliXᴴ = pauliX := by
  ext i j
  fin_cases i <;> fin_cases j <;> simp [pauliX]

/-- `(-i t) • X` is skew-Hermitian and non-zero for `t ≠ 0`, so `exp_unitary_of_skewHermitian`
has non-trivial instances. -/
theorem skew_pauliX (t : ℝ) :
    (((-Complex.I * t) : ℂ) • pauliX)ᴴ = -(((-Complex.I * t) : ℂ) • pauliX) := by
  rw [conjTranspose_smul, pauliX_hermitian, ← neg_smul]
  congr 1
  simp

example (t : ℝ) :
    (exp (((-Complex.I * t) : ℂ) • pauliX))ᴴ * exp (((-Complex.I * t) : ℂ) • pauliX) = 1 :=
  exp_unitary_of_skewHermitian _ (skew_pauliX t)

example : ((-Complex.I * (1 : ℝ)) : ℂ) • pauliX ≠ 0 := by
  intro h
  have := congrFun (congrFun h 0) 1
  simp [pauliX] at this

example : exp pauliX * exp (-pauliX) = 1 := exp_mul_exp_neg pauliX

example (t : ℂ) : exp ((t / 2) • pauliX) * exp ((t / 2) • pauliX) = exp (t • pauliX) := by
  rw [exp_add_same, add_halves]

example : exp pauliX ^ 3 = exp ((3 : ℕ) • pauliX) := exp_nsmul' pauliX 3

example (c : ℂ) : pauliX * exp (c • pauliX) = exp (c • pauliX) * pauliX := commute_exp pauliX c

example : pauliX * exp pauliX * pauliXᴴ = exp (pauliX * pauliX * pauliXᴴ) :=
  exp_unitary_conj pauliX pauliX (by
    rw [pauliX_hermitian]
    ext i j
    fin_cases i <;> fin_cases j <;> simp [pauliX, Matrix.mul_apply, Fin.sum_univ_two])

end Examples

end Ptn.Analysis
