import Ptn.Common.EinsumNet
import Ptn.Common.EinsumBuilt
/-! Relabelling of labelled tensor networks (all names carry the prefix `rn_`).

`f : L → L'` is an injective map of leg labels with `dim' (f l) = dim l`.  A tensor `v : Asg L → R` is read in
the new labels through `rn_pull f v = fun σ' => v (σ' ∘ f)`; `Expr.rn_map f e` renames every leaf's legs and
every pair and pulls every leaf value.  Then, over ANY scalar type (only `+`, `*`, `0`, `1` are used; no
commutativity is needed):

* `rn_sumPairs_map`   `sumPairs dim' (rn_pairs f ps) (rn_pull f g) σ' = sumPairs dim ps g (σ' ∘ f)`;
* `rn_netValue_map`   the same for a flat network;
* `Expr.rn_eval_map`  `(e.rn_map f).eval dim' σ' = e.eval dim (σ' ∘ f)`;
* `Expr.rn_binds_map`, `rn_free_map`, `rn_labels_map`, `rn_leaves_map` the record, the free legs, the labels and
                      the leaves are mapped;
* `Expr.rn_swf_map`, `rn_wf_map`, `rn_leavesLocal_map` (strong) well-formedness and locality are preserved;
* `rn_pull_surj`      with a left inverse `g` of `f` every tensor in the new labels that reads only labels in the
                      range of `f` is the pull of a tensor in the old labels (so statements "for all local tensors"
                      transfer to "for all global tensors on the renamed legs").
-/
namespace Ptn.Ein

set_option linter.unusedSectionVars false

section
variable {L L' : Type} [DecidableEq L] [DecidableEq L'] {R : Type}

/-- a tensor over the old labels read in the new ones -/
def rn_pull (f : L → L') (v : Asg L → R) : Asg L' → R := fun σ' => v (fun l => σ' (f l))

/-- pairs renamed -/
def rn_pairs (f : L → L') (ps : List (L × L)) : List (L' × L') := ps.map (fun p => (f p.1, f p.2))

theorem rn_upd_comp (f : L → L') (hf : Function.Injective f) (σ' : Asg L') (a : L) (i : Nat) :
    (fun l => upd σ' (f a) i (f l)) = upd (fun l => σ' (f l)) a i := by
  funext l
  unfold upd
  by_cases h : l = a
  · simp [h]
  · have : f l ≠ f a := fun e => h (hf e)
    simp [h, this]

theorem rn_pairs_fst (f : L → L') (ps : List (L × L)) : (rn_pairs f ps).map Prod.fst = (ps.map Prod.fst).map f := by
  simp [rn_pairs, List.map_map, Function.comp_def]

theorem rn_pairs_snd (f : L → L') (ps : List (L × L)) : (rn_pairs f ps).map Prod.snd = (ps.map Prod.snd).map f := by
  simp [rn_pairs, List.map_map, Function.comp_def]

theorem rn_pairLegs (f : L → L') (ps : List (L × L)) :
    Expr.pairLegs (rn_pairs f ps) = (Expr.pairLegs ps).map f := by
  simp only [Expr.pairLegs, rn_pairs_fst, rn_pairs_snd, List.map_append]

theorem rn_pairs_append (f : L → L') (ps qs : List (L × L)) :
    rn_pairs f (ps ++ qs) = rn_pairs f ps ++ rn_pairs f qs := by
  simp [rn_pairs]

section sums
variable [Add R] [Mul R] [Zero R] [One R]

/-- **`sumPairs` under an injective renaming** that keeps the dimensions. -/
theorem rn_sumPairs_map (f : L → L') (hf : Function.Injective f) (dim : L → Nat) (dim' : L' → Nat)
    (hd : ∀ l, dim' (f l) = dim l) (ps : List (L × L)) (g : Asg L → R) (σ' : Asg L') :
    sumPairs dim' (rn_pairs f ps) (rn_pull f g) σ' = sumPairs dim ps g (fun l => σ' (f l)) := by
  induction ps generalizing σ' with
  | nil => rfl
  | cons p ps ih =>
    obtain ⟨a, b⟩ := p
    simp only [rn_pairs, List.map_cons, sumPairs, hd]
    congr 1; funext i
    have := ih (upd (upd σ' (f a) i) (f b) i)
    simp only [rn_pairs] at this
    rw [this, rn_upd_comp f hf, rn_upd_comp f hf]

/-- the same as an equation of tensors -/
theorem rn_pull_sumPairs (f : L → L') (hf : Function.Injective f) (dim : L → Nat) (dim' : L' → Nat)
    (hd : ∀ l, dim' (f l) = dim l) (ps : List (L × L)) (g : Asg L → R) :
    sumPairs dim' (rn_pairs f ps) (rn_pull f g) = rn_pull f (sumPairs dim ps g) := by
  funext σ'; exact rn_sumPairs_map f hf dim dim' hd ps g σ'

theorem rn_pull_mul (f : L → L') (u v : Asg L → R) :
    rn_pull f (fun σ => u σ * v σ) = fun σ' => rn_pull f u σ' * rn_pull f v σ' := rfl

theorem rn_prodL_map (f : L → L') (leaves : List (Asg L → R)) (σ' : Asg L') :
    prodL ((leaves.map (rn_pull f)).map (fun v => v σ')) = prodL (leaves.map (fun v => v (fun l => σ' (f l)))) := by
  induction leaves with
  | nil => rfl
  | cons v vs ih => simp only [List.map_cons, prodL, ih]; rfl

/-- **A flat network under an injective renaming.** -/
theorem rn_netValue_map (f : L → L') (hf : Function.Injective f) (dim : L → Nat) (dim' : L' → Nat)
    (hd : ∀ l, dim' (f l) = dim l) (binds : List (L × L)) (leaves : List (Asg L → R)) (σ' : Asg L') :
    netValue dim' (rn_pairs f binds) (leaves.map (rn_pull f)) σ' = netValue dim binds leaves (fun l => σ' (f l)) := by
  unfold netValue
  rw [← rn_sumPairs_map f hf dim dim' hd]
  congr 1
  funext τ'
  exact rn_prodL_map f leaves τ'

end sums

/-! ### dependence -/

theorem rn_pull_dependsOn (f : L → L') {S : L → Prop} {S' : L' → Prop} (hS : ∀ l, S l → S' (f l))
    {v : Asg L → R} (hv : DependsOn S v) : DependsOn S' (rn_pull f v) :=
  fun _ _ h => hv _ _ (fun l hl => h (f l) (hS l hl))

theorem rn_pull_dependsOn_mem (f : L → L') (legs : List L) {v : Asg L → R} (hv : DependsOn (· ∈ legs) v) :
    DependsOn (· ∈ legs.map f) (rn_pull f v) :=
  rn_pull_dependsOn f (fun _ hl => List.mem_map_of_mem hl) hv

/-- with a left inverse of the renaming, every tensor over the new labels that reads only renamed labels is the
pull of a tensor over the old labels -/
theorem rn_pull_surj (f : L → L') (g : L' → L) (hgf : ∀ l, g (f l) = l) {S' : L' → Prop}
    (hS : ∀ l', S' l' → ∃ l, f l = l') (v' : Asg L' → R) (hv : DependsOn S' v') :
    rn_pull f (fun σ => v' (fun l' => σ (g l'))) = v' := by
  funext σ'
  apply hv
  intro l' hl'
  obtain ⟨l, rfl⟩ := hS l' hl'
  show σ' (f (g (f l))) = σ' (f l)
  rw [hgf]

namespace Expr

/-- the expression with every label renamed and every leaf value pulled -/
def rn_map (f : L → L') : Expr L R → Expr L' R
  | leaf legs v => leaf (legs.map f) (rn_pull f v)
  | dot a b ps => dot (rn_map f a) (rn_map f b) (rn_pairs f ps)

theorem rn_labels_map (f : L → L') (e : Expr L R) : (e.rn_map f).labels = e.labels.map f := by
  induction e with
  | leaf legs v => rfl
  | dot a b ps iha ihb => simp [rn_map, labels, iha, ihb]

theorem rn_binds_map (f : L → L') (e : Expr L R) : (e.rn_map f).binds = rn_pairs f e.binds := by
  induction e with
  | leaf legs v => rfl
  | dot a b ps iha ihb => simp [rn_map, binds, iha, ihb, rn_pairs_append]

theorem rn_leaves_map (f : L → L') (e : Expr L R) :
    (e.rn_map f).leaves = e.leaves.map (fun lf => (lf.1.map f, rn_pull f lf.2)) := by
  induction e with
  | leaf legs v => rfl
  | dot a b ps iha ihb => simp [rn_map, leaves, iha, ihb]

theorem rn_filter_map (f : L → L') (hf : Function.Injective f) (xs ys : List L) :
    ((xs.map f).filter (fun l => !(ys.map f).contains l)) = (xs.filter (fun l => !ys.contains l)).map f := by
  rw [List.filter_map]
  congr 1
  apply List.filter_congr
  intro x _
  simp only [Function.comp, List.contains_eq_mem, List.mem_map]
  congr 2
  apply propext
  constructor
  · rintro ⟨y, hy, e⟩; exact hf e ▸ hy
  · intro h; exact ⟨x, h, rfl⟩

theorem rn_free_map (f : L → L') (hf : Function.Injective f) (e : Expr L R) : (e.rn_map f).free = e.free.map f := by
  induction e with
  | leaf legs v => rfl
  | dot a b ps iha ihb =>
    simp only [rn_map, free, iha, ihb, rn_pairs_fst, rn_pairs_snd, rn_filter_map f hf, List.map_append]

section value
variable [Add R] [Mul R] [Zero R] [One R]

/-- **The value of a renamed program.** -/
theorem rn_eval_map (f : L → L') (hf : Function.Injective f) (dim : L → Nat) (dim' : L' → Nat)
    (hd : ∀ l, dim' (f l) = dim l) (e : Expr L R) (σ' : Asg L') :
    (e.rn_map f).eval dim' σ' = e.eval dim (fun l => σ' (f l)) := by
  induction e generalizing σ' with
  | leaf legs v => rfl
  | dot a b ps iha ihb =>
    simp only [rn_map, eval]
    rw [← rn_sumPairs_map f hf dim dim' hd]
    congr 1
    funext τ'
    show eval dim' (rn_map f a) τ' * eval dim' (rn_map f b) τ' = _
    rw [iha, ihb]; rfl

theorem rn_eval_pull (f : L → L') (hf : Function.Injective f) (dim : L → Nat) (dim' : L' → Nat)
    (hd : ∀ l, dim' (f l) = dim l) (e : Expr L R) : (e.rn_map f).eval dim' = rn_pull f (e.eval dim) := by
  funext σ'; exact rn_eval_map f hf dim dim' hd e σ'

end value

theorem rn_leavesLocal_map (f : L → L') (e : Expr L R) (h : e.LeavesLocal) : (e.rn_map f).LeavesLocal := by
  intro lf hlf
  rw [rn_leaves_map] at hlf
  obtain ⟨lf0, h0, rfl⟩ := List.mem_map.1 hlf
  exact rn_pull_dependsOn_mem f lf0.1 (h lf0 h0)

section wf
variable [CommSemiring R]

theorem rn_wf_map (f : L → L') (hf : Function.Injective f) (e : Expr L R) (h : e.WF) : (e.rn_map f).WF := by
  induction e with
  | leaf legs v => exact rn_pull_dependsOn_mem f legs h
  | dot a b ps iha ihb =>
    obtain ⟨ha, hb, hdis, hps⟩ := h
    refine ⟨iha ha, ihb hb, ?_, ?_⟩
    · intro l hl hl'
      rw [rn_labels_map] at hl hl'
      obtain ⟨x, hx, rfl⟩ := List.mem_map.1 hl
      obtain ⟨y, hy, e⟩ := List.mem_map.1 hl'
      exact hdis x hx (hf e ▸ hy)
    · intro p hp
      obtain ⟨q, hq, rfl⟩ := List.mem_map.1 hp
      rw [rn_free_map f hf, rn_free_map f hf]
      exact ⟨List.mem_map_of_mem (hps q hq).1, List.mem_map_of_mem (hps q hq).2⟩

/-- **Strong well-formedness is preserved by an injective renaming.** -/
theorem rn_swf_map (f : L → L') (hf : Function.Injective f) (e : Expr L R) (h : e.SWF) : (e.rn_map f).SWF := by
  induction e with
  | leaf legs v => exact ⟨h.1.map hf, rn_pull_dependsOn_mem f legs h.2⟩
  | dot a b ps iha ihb =>
    obtain ⟨ha, hb, hdis, hps, hn1, hn2⟩ := h
    refine ⟨iha ha, ihb hb, ?_, ?_, ?_, ?_⟩
    · intro l hl hl'
      rw [rn_labels_map] at hl hl'
      obtain ⟨x, hx, rfl⟩ := List.mem_map.1 hl
      obtain ⟨y, hy, e⟩ := List.mem_map.1 hl'
      exact hdis x hx (hf e ▸ hy)
    · intro p hp
      obtain ⟨q, hq, rfl⟩ := List.mem_map.1 hp
      rw [rn_free_map f hf, rn_free_map f hf]
      exact ⟨List.mem_map_of_mem (hps q hq).1, List.mem_map_of_mem (hps q hq).2⟩
    · rw [rn_pairs_fst]; exact hn1.map hf
    · rw [rn_pairs_snd]; exact hn2.map hf

end wf

end Expr
end

end Ptn.Ein
