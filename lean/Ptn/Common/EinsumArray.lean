import Mathlib.Algebra.BigOperators.Group.Finset.Basic
import Mathlib.Algebra.BigOperators.Ring.Finset
import Ptn.Common.EinsumNet
import Ptn.C11.TensordotLemmas
/-! Bridge between the array model of C11 (`Ptn.C11.Arr`: shape + flat C-order data, with `transposeBy`,
`reshape`, `arrTensordot` = NumPy's implementation of `tensordot`) and the shared value-level semantics of
labelled tensor networks (`Ptn.Ein`: tensors as functions of index assignments, `sumPairs`).

An array is read as a leaf tensor through a labelling of its axes (`Arr.toLeaf A legs σ = A[legs.map σ]`).
Helper lemmas for

* `Ptn.C11.arr_tensordot_is_sumPairs` - `numpy.tensordot` computes `sumPairs` over the zipped labels of the
  contracted axes; the result carries the remaining labels of `a`, then those of `b`;
* `Ptn.C11.arr_tensordot_is_dot`      - the same as a statement about `Expr.dot` / `Expr.eval` / `Expr.free`;
* `Ptn.C11.arr_transpose_relabel`     - transposing an array and permuting its labels the same way leaves the
  leaf unchanged.

(The theorems themselves are stated in `Ptn/C11/Props.lean`.) -/
namespace Ptn.Ein

open Ptn.C11

set_option linter.unusedSectionVars false
variable {L : Type} [DecidableEq L] {α : Type} [CommSemiring α]

/-! ### `sumPairs` as a nested sum over multi-indices -/

theorem sumPairs_eq_sumIdx (dim : L → Nat) (ps : List (L × L)) (f : Asg L → α) (σ : Asg L) :
    sumPairs dim ps f σ = sumIdx (ps.map (fun p => dim p.1)) (fun ks => f (updPairs σ ps ks)) := by
  induction ps generalizing σ with
  | nil => rfl
  | cons p ps ih =>
    obtain ⟨a, b⟩ := p
    simp only [sumPairs, List.map_cons, sumIdx]
    congr 1
    funext i
    rw [ih]
    rfl

theorem updPairs_of_not_mem (σ : Asg L) (ps : List (L × L)) (ks : List Nat) (l : L)
    (h : l ∉ Expr.pairLegs ps) : updPairs σ ps ks l = σ l := by
  induction ps generalizing σ ks with
  | nil => rfl
  | cons p ps ih =>
    obtain ⟨a, b⟩ := p
    cases ks with
    | nil => rfl
    | cons k ks =>
      have hm := (pairLegs_cons_perm (a, b) ps).mem_iff.not.1 h
      simp only [List.mem_cons, not_or] at hm
      show updPairs (upd (upd σ a k) b k) ps ks l = σ l
      rw [ih _ _ hm.2.2]
      simp [upd, hm.1, hm.2.1]

theorem map_updPairs_fst (σ : Asg L) (ps : List (L × L)) (ks : List Nat)
    (hnd : (Expr.pairLegs ps).Nodup) (hl : ks.length = ps.length) :
    (ps.map Prod.fst).map (updPairs σ ps ks) = ks := by
  induction ps generalizing σ ks with
  | nil =>
    cases ks with
    | nil => rfl
    | cons _ _ => simp at hl
  | cons p ps ih =>
    obtain ⟨a, b⟩ := p
    cases ks with
    | nil => simp at hl
    | cons k ks =>
      have hnd' := (pairLegs_cons_perm (a, b) ps).nodup_iff.1 hnd
      simp only [List.nodup_cons, List.mem_cons, not_or] at hnd'
      obtain ⟨⟨hab, ha⟩, hb, hps⟩ := hnd'
      simp only [List.map_cons, List.cons.injEq]
      refine ⟨?_, ih _ _ hps (by simpa using hl)⟩
      show updPairs (upd (upd σ a k) b k) ps ks a = k
      rw [updPairs_of_not_mem _ _ _ _ ha]
      simp [upd]

theorem map_updPairs_snd (σ : Asg L) (ps : List (L × L)) (ks : List Nat)
    (hnd : (Expr.pairLegs ps).Nodup) (hl : ks.length = ps.length) :
    (ps.map Prod.snd).map (updPairs σ ps ks) = ks := by
  induction ps generalizing σ ks with
  | nil =>
    cases ks with
    | nil => rfl
    | cons _ _ => simp at hl
  | cons p ps ih =>
    obtain ⟨a, b⟩ := p
    cases ks with
    | nil => simp at hl
    | cons k ks =>
      have hnd' := (pairLegs_cons_perm (a, b) ps).nodup_iff.1 hnd
      simp only [List.nodup_cons, List.mem_cons, not_or] at hnd'
      obtain ⟨⟨_, _⟩, hb, hps⟩ := hnd'
      simp only [List.map_cons, List.cons.injEq]
      refine ⟨?_, ih _ _ hps (by simpa using hl)⟩
      show updPairs (upd (upd σ a k) b k) ps ks b = k
      rw [updPairs_of_not_mem _ _ _ _ hb]
      simp [upd]

/-! ### arrays as leaves -/

/-- an array read through `legs` only reads `legs` -/
theorem toLeaf_dependsOn (A : Arr α) (legs : List L) : DependsOn (· ∈ legs) (A.toLeaf legs) := by
  intro σ τ h
  show A.get (legs.map σ) = A.get (legs.map τ)
  rw [List.map_congr_left h]

theorem dimAt_map_range (n : Nat) (g : Nat → Nat) (x : Nat) (hx : x < n) :
    dimAt ((List.range n).map g) x = g x := by
  simp [dimAt, List.getD_eq_getElem?_getD, hx]

/-- the multi-index an assignment gives the labelled axes, seen through any permutation of the axes -/
theorem map_labels_eq_unpermute (n : Nat) (lab : Nat → L) (τ : Asg L) (axes : List Nat)
    (hp : axes.Perm (List.range n)) :
    ((List.range n).map lab).map τ = unpermute axes (axes.map (fun x => τ (lab x))) := by
  have h := unpermute_map axes ((List.range n).map (fun x => τ (lab x))) n hp (by simp)
  have e : axes.map (dimAt ((List.range n).map (fun x => τ (lab x)))) = axes.map (fun x => τ (lab x)) := by
    apply List.map_congr_left
    intro x hx
    exact dimAt_map_range n _ x (perm_range_lt hp x hx)
  rw [e] at h
  rw [h, List.map_map]
  rfl

theorem validIdx_map_map (xs : List Nat) (d g : Nat → Nat) (h : ∀ x ∈ xs, g x < d x) :
    ValidIdx (xs.map d) (xs.map g) := by
  induction xs with
  | nil => simp [ValidIdx]
  | cons x xs ih =>
    exact ⟨h x (by simp), ih (fun y hy => h y (by simp [hy]))⟩

theorem validIdx_length_eq (sh idx : List Nat) (h : ValidIdx sh idx) : idx.length = sh.length :=
  validIdx_length sh idx h

/-! ### labelled arrays -/

/-- `lab x` is the label of axis `x` of an array of shape `sh`: distinct axes carry distinct labels and the
    dimension table `dim` agrees with the shape -/
structure Labelling (dim : L → Nat) (sh : List Nat) (lab : Nat → L) : Prop where
  dim_eq : ∀ x, x < sh.length → dim (lab x) = dimAt sh x
  inj : ∀ x y, x < sh.length → y < sh.length → lab x = lab y → x = y

/-- the labels of the axes `0 … n-1`, in axis order -/
def axisLegs (lab : Nat → L) (n : Nat) : List L := (List.range n).map lab

/-- **Transposition = relabelling.**  The array transposed by `first ++ last`, read through the labels permuted
    the same way, is the same leaf tensor as the input read through its own labels. -/
theorem arrTranspose_relabel (dim : L → Nat) (A At : Arr α) (first last : List Nat) (lab : Nat → L)
    (h : Bipartition A.shape first last) (ht : A.transposeBy first last = some At)
    (hdim : ∀ x, x < A.shape.length → dim (lab x) = dimAt A.shape x)
    (σ : Asg L) (hσ : ∀ x, x < A.shape.length → σ (lab x) < dim (lab x)) :
    At.toLeaf ((first ++ last).map lab) σ = A.toLeaf (axisLegs lab A.shape.length) σ := by
  show At.get (((first ++ last).map lab).map σ) = A.get ((axisLegs lab A.shape.length).map σ)
  have hlt := perm_range_lt h
  rw [axisLegs, map_labels_eq_unpermute A.shape.length lab σ (first ++ last) h, List.map_map]
  apply transposeBy_get_unpermute A At first last h ht
  rw [← List.map_append]
  apply validIdx_map_map
  intro x hx
  rw [← hdim x (hlt x hx)]
  exact hσ x (hlt x hx)

/-- **`numpy.tensordot` computes `sumPairs`.** -/
theorem arrTensordot_sumPairs (dim : L → Nat) (a b : Arr α) (ia ib : List Nat) (la lb : Nat → L)
    (hia : ia.Nodup) (hib : ib.Nodup)
    (hlta : ∀ x ∈ ia, x < a.shape.length) (hltb : ∀ x ∈ ib, x < b.shape.length)
    (hd : ia.map (dimAt a.shape) = ib.map (dimAt b.shape))
    (hLa : Labelling dim a.shape la) (hLb : Labelling dim b.shape lb)
    (hdis : ∀ x y, x < a.shape.length → y < b.shape.length → la x ≠ lb y) :
    ∃ C, arrTensordot a b ia ib = some C ∧
      C.shape = ((notIn a.shape.length ia).map la ++ (notIn b.shape.length ib).map lb).map dim ∧
      ∀ σ : Asg L,
        (∀ l ∈ (notIn a.shape.length ia).map la ++ (notIn b.shape.length ib).map lb, σ l < dim l) →
        C.toLeaf ((notIn a.shape.length ia).map la ++ (notIn b.shape.length ib).map lb) σ =
          sumPairs dim (List.zip (ia.map la) (ib.map lb))
            (fun τ => a.toLeaf (axisLegs la a.shape.length) τ * b.toLeaf (axisLegs lb b.shape.length) τ) σ := by
  obtain ⟨C, hC, hsh, hget⟩ := arrTensordot_get a b ia ib hia hib hlta hltb hd
  have hra_lt : ∀ x ∈ notIn a.shape.length ia, x < a.shape.length := fun x hx => ((mem_notIn _ _ _).1 hx).1
  have hrb_lt : ∀ x ∈ notIn b.shape.length ib, x < b.shape.length := fun x hx => ((mem_notIn _ _ _).1 hx).1
  have hA := bipartition_notIn_left a.shape ia hia hlta
  have hB := bipartition_notIn_right b.shape ib hib hltb
  refine ⟨C, hC, ?_, ?_⟩
  · rw [hsh, List.map_append, List.map_map, List.map_map]
    congr 1 <;> apply List.map_congr_left <;> intro x hx
    · exact (hLa.dim_eq x (hra_lt x hx)).symm
    · exact (hLb.dim_eq x (hrb_lt x hx)).symm
  · intro σ hσ
    have hlen : ia.length = ib.length := by simpa using congrArg List.length hd
    have hfst : (List.zip (ia.map la) (ib.map lb)).map Prod.fst = ia.map la :=
      List.map_fst_zip (by simp [hlen])
    have hsnd : (List.zip (ia.map la) (ib.map lb)).map Prod.snd = ib.map lb :=
      List.map_snd_zip (by simp [hlen])
    have hpl : Expr.pairLegs (List.zip (ia.map la) (ib.map lb)) = ia.map la ++ ib.map lb := by
      simp only [Expr.pairLegs, hfst, hsnd]
    have hnd : (Expr.pairLegs (List.zip (ia.map la) (ib.map lb))).Nodup := by
      rw [hpl, List.nodup_append]
      refine ⟨List.Nodup.map_on (fun x hx y hy hxy => hLa.inj x y (hlta x hx) (hlta y hy) hxy) hia,
        List.Nodup.map_on (fun x hx y hy hxy => hLb.inj x y (hltb x hx) (hltb y hy) hxy) hib, ?_⟩
      intro l hl1 l' hl2 hll
      subst hll
      obtain ⟨x, hx, rfl⟩ := List.mem_map.1 hl1
      obtain ⟨y, hy, hxy⟩ := List.mem_map.1 hl2
      exact hdis x y (hlta x hx) (hltb y hy) hxy.symm
    -- free labels are not bound
    have hfa : ∀ x ∈ notIn a.shape.length ia, la x ∉ Expr.pairLegs (List.zip (ia.map la) (ib.map lb)) := by
      intro x hx hmem
      rw [hpl, List.mem_append] at hmem
      rcases hmem with hm | hm
      · obtain ⟨y, hy, hxy⟩ := List.mem_map.1 hm
        have := hLa.inj y x (hlta y hy) (hra_lt x hx) hxy
        exact ((mem_notIn _ _ _).1 hx).2 (this ▸ hy)
      · obtain ⟨y, hy, hxy⟩ := List.mem_map.1 hm
        exact hdis x y (hra_lt x hx) (hltb y hy) hxy.symm
    have hfb : ∀ x ∈ notIn b.shape.length ib, lb x ∉ Expr.pairLegs (List.zip (ia.map la) (ib.map lb)) := by
      intro x hx hmem
      rw [hpl, List.mem_append] at hmem
      rcases hmem with hm | hm
      · obtain ⟨y, hy, hxy⟩ := List.mem_map.1 hm
        exact hdis y x (hlta y hy) (hrb_lt x hx) hxy
      · obtain ⟨y, hy, hxy⟩ := List.mem_map.1 hm
        have := hLb.inj y x (hltb y hy) (hrb_lt x hx) hxy
        exact ((mem_notIn _ _ _).1 hx).2 (this ▸ hy)
    have hdims : (List.zip (ia.map la) (ib.map lb)).map (fun p => dim p.1) = ia.map (dimAt a.shape) := by
      have : (List.zip (ia.map la) (ib.map lb)).map (fun p => dim p.1) =
          ((List.zip (ia.map la) (ib.map lb)).map Prod.fst).map dim := by rw [List.map_map]; rfl
      rw [this, hfst, List.map_map]
      apply List.map_congr_left
      intro x hx
      exact hLa.dim_eq x (hlta x hx)
    rw [sumPairs_eq_sumIdx, hdims]
    have his : ValidIdx ((notIn a.shape.length ia).map (dimAt a.shape))
        ((notIn a.shape.length ia).map (fun x => σ (la x))) := by
      apply validIdx_map_map
      intro x hx
      rw [← hLa.dim_eq x (hra_lt x hx)]
      exact hσ _ (List.mem_append.2 (Or.inl (List.mem_map.2 ⟨x, hx, rfl⟩)))
    have hjs : ValidIdx ((notIn b.shape.length ib).map (dimAt b.shape))
        ((notIn b.shape.length ib).map (fun x => σ (lb x))) := by
      apply validIdx_map_map
      intro x hx
      rw [← hLb.dim_eq x (hrb_lt x hx)]
      exact hσ _ (List.mem_append.2 (Or.inr (List.mem_map.2 ⟨x, hx, rfl⟩)))
    have hL : C.toLeaf ((notIn a.shape.length ia).map la ++ (notIn b.shape.length ib).map lb) σ =
        C.get ((notIn a.shape.length ia).map (fun x => σ (la x)) ++
          (notIn b.shape.length ib).map (fun x => σ (lb x))) := by
      show C.get _ = _
      rw [List.map_append, List.map_map, List.map_map]
      rfl
    rw [hL, hget _ _ his hjs]
    apply sumIdx_congr
    intro ks hks
    have hkl : ks.length = (List.zip (ia.map la) (ib.map lb)).length := by
      rw [validIdx_length _ _ hks]; simp [hlen]
    have hka := map_updPairs_fst σ _ ks hnd hkl
    have hkb := map_updPairs_snd σ _ ks hnd hkl
    rw [hfst, List.map_map] at hka
    rw [hsnd, List.map_map] at hkb
    show _ = a.get ((axisLegs la a.shape.length).map _) * b.get ((axisLegs lb b.shape.length).map _)
    rw [axisLegs, axisLegs, map_labels_eq_unpermute a.shape.length la _ _ hA,
      map_labels_eq_unpermute b.shape.length lb _ _ hB, List.map_append, List.map_append]
    have e1 : (notIn a.shape.length ia).map
        (fun x => updPairs σ (List.zip (ia.map la) (ib.map lb)) ks (la x)) =
        (notIn a.shape.length ia).map (fun x => σ (la x)) := by
      apply List.map_congr_left
      intro x hx
      exact updPairs_of_not_mem σ _ ks _ (hfa x hx)
    have e2 : (notIn b.shape.length ib).map
        (fun x => updPairs σ (List.zip (ia.map la) (ib.map lb)) ks (lb x)) =
        (notIn b.shape.length ib).map (fun x => σ (lb x)) := by
      apply List.map_congr_left
      intro x hx
      exact updPairs_of_not_mem σ _ ks _ (hfb x hx)
    rw [e1, e2]
    congr 2
    · congr 1
      congr 1
      exact hka.symm
    · congr 1
      congr 1
      exact hkb.symm

theorem filter_axisLegs (n : Nat) (lab : Nat → L) (axes : List Nat)
    (hinj : ∀ x y, x < n → y < n → lab x = lab y → x = y) (hlt : ∀ x ∈ axes, x < n) :
    (axisLegs lab n).filter (fun l => !(axes.map lab).contains l) = (notIn n axes).map lab := by
  unfold axisLegs notIn
  rw [List.filter_map]
  congr 1
  apply List.filter_congr
  intro x hx
  have hx' : x < n := by simpa using hx
  simp only [Function.comp, List.contains_eq_mem, List.mem_map]
  congr 2
  apply propext
  constructor
  · rintro ⟨y, hy, hxy⟩
    exact (hinj y x (hlt y hy) hx' hxy) ▸ hy
  · intro h
    exact ⟨x, h, rfl⟩

/-- the call `numpy.tensordot(a, b, axes=(ia, ib))` as an expression of the network semantics: the two arrays as
    leaves named by their axis labels, contracted over the zipped labels of the listed axes -/
def tensordotExpr (a b : Arr α) (ia ib : List Nat) (la lb : Nat → L) : Expr L α :=
  Expr.dot (Expr.leaf (axisLegs la a.shape.length) (a.toLeaf (axisLegs la a.shape.length)))
    (Expr.leaf (axisLegs lb b.shape.length) (b.toLeaf (axisLegs lb b.shape.length)))
    (List.zip (ia.map la) (ib.map lb))

/-- **`numpy.tensordot` is `Expr.dot`.**  The two labelled arrays as leaves, contracted over the zipped labels of
    the listed axes: the expression is strongly well formed, the result array has the dimensions of the free legs
    in NumPy's order and, read through them, is the value of the expression. -/
theorem arrTensordot_dot (dim : L → Nat) (a b : Arr α) (ia ib : List Nat) (la lb : Nat → L)
    (hia : ia.Nodup) (hib : ib.Nodup)
    (hlta : ∀ x ∈ ia, x < a.shape.length) (hltb : ∀ x ∈ ib, x < b.shape.length)
    (hd : ia.map (dimAt a.shape) = ib.map (dimAt b.shape))
    (hLa : Labelling dim a.shape la) (hLb : Labelling dim b.shape lb)
    (hdis : ∀ x y, x < a.shape.length → y < b.shape.length → la x ≠ lb y) :
    ∃ C, arrTensordot a b ia ib = some C ∧
      (tensordotExpr a b ia ib la lb).SWF ∧
      C.shape = (tensordotExpr a b ia ib la lb).free.map dim ∧
      ∀ σ : Asg L,
        (∀ l ∈ (tensordotExpr a b ia ib la lb).free, σ l < dim l) →
        C.toLeaf (tensordotExpr a b ia ib la lb).free σ =
        (tensordotExpr a b ia ib la lb).eval dim σ := by
  obtain ⟨C, hC, hsh, hval⟩ := arrTensordot_sumPairs dim a b ia ib la lb hia hib hlta hltb hd hLa hLb hdis
  have hlen : ia.length = ib.length := by simpa using congrArg List.length hd
  have hfst : (List.zip (ia.map la) (ib.map lb)).map Prod.fst = ia.map la :=
    List.map_fst_zip (by simp [hlen])
  have hsnd : (List.zip (ia.map la) (ib.map lb)).map Prod.snd = ib.map lb :=
    List.map_snd_zip (by simp [hlen])
  have hfree : (tensordotExpr a b ia ib la lb).free =
      (notIn a.shape.length ia).map la ++ (notIn b.shape.length ib).map lb := by
    simp only [tensordotExpr, Expr.free, hfst, hsnd]
    rw [filter_axisLegs _ la ia hLa.inj hlta, filter_axisLegs _ lb ib hLb.inj hltb]
  have hndA : (axisLegs la a.shape.length).Nodup :=
    List.Nodup.map_on (fun x hx y hy hxy => hLa.inj x y (by simpa using hx) (by simpa using hy) hxy)
      List.nodup_range
  have hndB : (axisLegs lb b.shape.length).Nodup :=
    List.Nodup.map_on (fun x hx y hy hxy => hLb.inj x y (by simpa using hx) (by simpa using hy) hxy)
      List.nodup_range
  refine ⟨C, hC, ?_, ?_, ?_⟩
  · refine ⟨⟨hndA, toLeaf_dependsOn a _⟩, ⟨hndB, toLeaf_dependsOn b _⟩, ?_, ?_, ?_, ?_⟩
    · intro l hl1 hl2
      simp only [Expr.labels, axisLegs, List.mem_map, List.mem_range] at hl1 hl2
      obtain ⟨x, hx, rfl⟩ := hl1
      obtain ⟨y, hy, hxy⟩ := hl2
      exact hdis x y hx hy hxy.symm
    · rintro ⟨p1, p2⟩ hp
      have := List.of_mem_zip hp
      simp only [Expr.free, axisLegs, List.mem_map, List.mem_range]
      obtain ⟨⟨x, hx, rfl⟩, ⟨y, hy, rfl⟩⟩ := this.imp List.mem_map.1 List.mem_map.1
      exact ⟨⟨x, hlta x hx, rfl⟩, ⟨y, hltb y hy, rfl⟩⟩
    · rw [hfst]
      exact List.Nodup.map_on (fun x hx y hy hxy => hLa.inj x y (hlta x hx) (hlta y hy) hxy) hia
    · rw [hsnd]
      exact List.Nodup.map_on (fun x hx y hy hxy => hLb.inj x y (hltb x hx) (hltb y hy) hxy) hib
  · rw [hfree]; exact hsh
  · rw [hfree]
    intro σ hσ
    exact hval σ hσ

/-! ### the driver's leaves (`leafOfData`) are labelled arrays -/

theorem foldl_mul_eq_prod (ds : List Nat) (c : Nat) : ds.foldl (· * ·) c = c * prod ds := by
  induction ds generalizing c with
  | nil => simp [prod]
  | cons d ds ih => simp [List.foldl_cons, ih, prod, Nat.mul_assoc]

theorem ravel_eq_some {L : Type} (dim : L → Nat) (σ : Asg L) : ∀ legs : List L, (∀ l ∈ legs, σ l < dim l) →
    Ptn.Ein.ravel dim σ legs = some (Ptn.C11.ravel (legs.map dim) (legs.map σ))
  | [], _ => rfl
  | l :: ls, h => by
    have ih := ravel_eq_some dim σ ls (fun x hx => h x (by simp [hx]))
    have hl : σ l < dim l := h l (by simp)
    simp only [Ptn.Ein.ravel, hl, if_true, ih, List.map_cons, Ptn.C11.ravel, foldl_mul_eq_prod, Nat.one_mul]

/-- the leaf tensors of the line protocol (`einrec`, `ein`) are arrays of shape `legs.map dim` read through
    `legs`, at every assignment within the dimensions -/
theorem leafOfData_eq_toLeaf {L : Type} (dim : L → Nat) (legs : List L) (data : Array Int) (σ : Asg L)
    (h : ∀ l ∈ legs, σ l < dim l) :
    leafOfData dim legs data σ = (⟨legs.map dim, fun k => data.getD k 0⟩ : Arr Int).toLeaf legs σ := by
  simp only [leafOfData, ravel_eq_some dim σ legs h]
  rfl

/-! ### whole contraction programs on arrays -/

/-- a contraction program on arrays: the leaves carry an array and the labels of its axes -/
inductive Prog (L α : Type) where
  | leaf (legs : List L) (A : Arr α)
  | dot (p q : Prog L α) (pairs : List (L × L))

namespace Prog

/-- the expression of the network semantics the program denotes -/
def expr : Prog L α → Expr L α
  | leaf legs A => Expr.leaf legs (A.toLeaf legs)
  | dot p q ps => Expr.dot p.expr q.expr ps

/-- running the program with `numpy.tensordot`: the axes of a call are the positions of the pair labels among
    the legs of the two operands (`fa.index(x)`); `none` = NumPy raises somewhere -/
def run : Prog L α → Option (Arr α)
  | leaf _ A => some A
  | dot p q ps =>
    match p.run, q.run with
    | some A, some B =>
      arrTensordot A B (ps.map (fun pr => p.expr.free.idxOf pr.1)) (ps.map (fun pr => q.expr.free.idxOf pr.2))
    | _, _ => none

/-- the arrays have the dimensions of their labels, bound legs have equal dimensions -/
def Dims (dim : L → Nat) : Prog L α → Prop
  | leaf legs A => A.shape = legs.map dim
  | dot p q ps => p.Dims dim ∧ q.Dims dim ∧ ∀ pr ∈ ps, dim pr.1 = dim pr.2

end Prog

theorem Expr.free_nodup_of_swf (e : Expr L α) (h : e.SWF) : e.free.Nodup := by
  induction e with
  | leaf legs v => exact h.1
  | dot a b ps iha ihb =>
    obtain ⟨ha, hb, hdis, _, _, _⟩ := h
    simp only [Expr.free]
    rw [List.nodup_append]
    refine ⟨(iha ha).filter _, (ihb hb).filter _, ?_⟩
    intro x hx y hy hxy
    subst hxy
    exact hdis x (Expr.free_sub_labels a x (List.mem_filter.1 hx).1)
      (Expr.free_sub_labels b x (List.mem_filter.1 hy).1)

theorem validIdx_map_map_elim (xs : List L) (d g : L → Nat) (h : ValidIdx (xs.map d) (xs.map g)) :
    ∀ x ∈ xs, g x < d x := by
  induction xs with
  | nil => simp
  | cons x xs ih =>
    intro y hy
    rcases List.mem_cons.1 hy with rfl | hy
    · exact h.1
    · exact ih h.2 y hy

theorem map_getD_range [Inhabited L] (fa : List L) :
    (List.range fa.length).map (fun x => fa.getD x default) = fa := by
  apply List.ext_getElem
  · simp
  · intro i h1 h2
    simp [List.getD_eq_getElem?_getD, h2]

theorem getD_idxOf [Inhabited L] (fa : List L) (l : L) (h : l ∈ fa) : fa.getD (fa.idxOf l) default = l := by
  have hlt := List.idxOf_lt_length_of_mem h
  rw [List.getD_eq_getElem?_getD, List.getElem?_eq_getElem hlt]
  simp [List.getElem_idxOf]

theorem dimAt_map_idxOf (dim : L → Nat) (fa : List L) (l : L) (h : l ∈ fa) :
    dimAt (fa.map dim) (fa.idxOf l) = dim l := by
  have hlt := List.idxOf_lt_length_of_mem h
  simp [dimAt, List.getD_eq_getElem?_getD, hlt, List.getElem_idxOf]

theorem zip_map_fst_snd (ps : List (L × L)) : List.zip (ps.map Prod.fst) (ps.map Prod.snd) = ps :=
  (List.zip_of_prod rfl rfl).symm

/-- **Programs of `numpy.tensordot` calls compute `Expr.eval`.**  For every strongly well-formed contraction
    program on arrays whose arrays have the dimensions of their labels and whose bound legs have equal dimensions:
    running it with `arrTensordot` (axes = positions of the pair labels among the operands' legs) succeeds, the
    result has the dimensions of the free legs in NumPy's order, and read through the free legs it is the value
    `Expr.eval` of the denoted expression at every assignment within the dimensions of the free legs. -/
theorem Prog.run_eq_eval [Inhabited L] (dim : L → Nat) (p : Prog L α) (hswf : p.expr.SWF) (hdim : p.Dims dim) :
    ∃ C, p.run = some C ∧ C.shape = p.expr.free.map dim ∧
      ∀ σ : Asg L, (∀ l ∈ p.expr.free, σ l < dim l) → C.toLeaf p.expr.free σ = p.expr.eval dim σ := by
  induction p with
  | leaf legs A => exact ⟨A, rfl, hdim, fun σ _ => rfl⟩
  | dot p q ps ihp ihq =>
    obtain ⟨hp, hq, hdis, hps, hn1, hn2⟩ := hswf
    obtain ⟨hdp, hdq, hpd⟩ := hdim
    obtain ⟨Ca, hCa, hsa, hva⟩ := ihp hp hdp
    obtain ⟨Cb, hCb, hsb, hvb⟩ := ihq hq hdq
    have hfa := Expr.free_nodup_of_swf p.expr hp
    have hfb := Expr.free_nodup_of_swf q.expr hq
    have hna : Ca.shape.length = p.expr.free.length := by rw [hsa]; simp
    have hnb : Cb.shape.length = q.expr.free.length := by rw [hsb]; simp
    -- the request
    have hia : (ps.map (fun pr => p.expr.free.idxOf pr.1)).Nodup := by
      have : ps.map (fun pr => p.expr.free.idxOf pr.1) = (ps.map Prod.fst).map p.expr.free.idxOf := by
        rw [List.map_map]; rfl
      rw [this]
      apply List.Nodup.map_on _ hn1
      intro x hx y hy hxy
      obtain ⟨pr, hpr, rfl⟩ := List.mem_map.1 hx
      obtain ⟨pr', hpr', rfl⟩ := List.mem_map.1 hy
      rw [← getD_idxOf p.expr.free pr.1 (hps pr hpr).1, ← getD_idxOf p.expr.free pr'.1 (hps pr' hpr').1, hxy]
    have hib : (ps.map (fun pr => q.expr.free.idxOf pr.2)).Nodup := by
      have : ps.map (fun pr => q.expr.free.idxOf pr.2) = (ps.map Prod.snd).map q.expr.free.idxOf := by
        rw [List.map_map]; rfl
      rw [this]
      apply List.Nodup.map_on _ hn2
      intro x hx y hy hxy
      obtain ⟨pr, hpr, rfl⟩ := List.mem_map.1 hx
      obtain ⟨pr', hpr', rfl⟩ := List.mem_map.1 hy
      rw [← getD_idxOf q.expr.free pr.2 (hps pr hpr).2, ← getD_idxOf q.expr.free pr'.2 (hps pr' hpr').2, hxy]
    have hlta : ∀ x ∈ ps.map (fun pr => p.expr.free.idxOf pr.1), x < Ca.shape.length := by
      intro x hx
      obtain ⟨pr, hpr, rfl⟩ := List.mem_map.1 hx
      rw [hna]; exact List.idxOf_lt_length_of_mem (hps pr hpr).1
    have hltb : ∀ x ∈ ps.map (fun pr => q.expr.free.idxOf pr.2), x < Cb.shape.length := by
      intro x hx
      obtain ⟨pr, hpr, rfl⟩ := List.mem_map.1 hx
      rw [hnb]; exact List.idxOf_lt_length_of_mem (hps pr hpr).2
    have hd : (ps.map (fun pr => p.expr.free.idxOf pr.1)).map (dimAt Ca.shape) =
        (ps.map (fun pr => q.expr.free.idxOf pr.2)).map (dimAt Cb.shape) := by
      rw [List.map_map, List.map_map]
      apply List.map_congr_left
      intro pr hpr
      simp only [Function.comp, hsa, hsb]
      rw [dimAt_map_idxOf dim _ _ (hps pr hpr).1, dimAt_map_idxOf dim _ _ (hps pr hpr).2]
      exact hpd pr hpr
    have hLa : Labelling dim Ca.shape (fun x => p.expr.free.getD x default) := by
      constructor
      · intro x hx
        rw [hna] at hx
        simp [hsa, dimAt, List.getD_eq_getElem?_getD, hx]
      · intro x y hx hy hxy
        rw [hna] at hx hy
        simp only [List.getD_eq_getElem?_getD, List.getElem?_eq_getElem hx, List.getElem?_eq_getElem hy,
          Option.getD_some] at hxy
        exact (hfa.getElem_inj_iff).1 hxy
    have hLb : Labelling dim Cb.shape (fun y => q.expr.free.getD y default) := by
      constructor
      · intro x hx
        rw [hnb] at hx
        simp [hsb, dimAt, List.getD_eq_getElem?_getD, hx]
      · intro x y hx hy hxy
        rw [hnb] at hx hy
        simp only [List.getD_eq_getElem?_getD, List.getElem?_eq_getElem hx, List.getElem?_eq_getElem hy,
          Option.getD_some] at hxy
        exact (hfb.getElem_inj_iff).1 hxy
    have hdisj : ∀ x y, x < Ca.shape.length → y < Cb.shape.length →
        (fun x => p.expr.free.getD x default) x ≠ (fun y => q.expr.free.getD y default) y := by
      intro x y hx hy hxy
      rw [hna] at hx
      rw [hnb] at hy
      simp only [List.getD_eq_getElem?_getD, List.getElem?_eq_getElem hx, List.getElem?_eq_getElem hy,
        Option.getD_some] at hxy
      exact hdis _ (Expr.free_sub_labels p.expr _ (List.getElem_mem hx))
        (hxy ▸ Expr.free_sub_labels q.expr _ (List.getElem_mem hy))
    obtain ⟨C, hC, hsh, hval⟩ := arrTensordot_sumPairs dim Ca Cb _ _ _ _ hia hib hlta hltb hd hLa hLb hdisj
    -- translate back to labels
    have eA : axisLegs (fun x => p.expr.free.getD x default) Ca.shape.length = p.expr.free := by
      rw [hna]; exact map_getD_range _
    have eB : axisLegs (fun y => q.expr.free.getD y default) Cb.shape.length = q.expr.free := by
      rw [hnb]; exact map_getD_range _
    have eia : (ps.map (fun pr => p.expr.free.idxOf pr.1)).map (fun x => p.expr.free.getD x default) =
        ps.map Prod.fst := by
      rw [List.map_map]
      apply List.map_congr_left
      intro pr hpr
      exact getD_idxOf _ _ (hps pr hpr).1
    have eib : (ps.map (fun pr => q.expr.free.idxOf pr.2)).map (fun y => q.expr.free.getD y default) =
        ps.map Prod.snd := by
      rw [List.map_map]
      apply List.map_congr_left
      intro pr hpr
      exact getD_idxOf _ _ (hps pr hpr).2
    have efa := filter_axisLegs Ca.shape.length (fun x => p.expr.free.getD x default) _ hLa.inj hlta
    have efb := filter_axisLegs Cb.shape.length (fun y => q.expr.free.getD y default) _ hLb.inj hltb
    rw [eA, eia] at efa
    rw [eB, eib] at efb
    have hfree : (Prog.dot p q ps).expr.free =
        (notIn Ca.shape.length (ps.map (fun pr => p.expr.free.idxOf pr.1))).map
            (fun x => p.expr.free.getD x default) ++
          (notIn Cb.shape.length (ps.map (fun pr => q.expr.free.idxOf pr.2))).map
            (fun y => q.expr.free.getD y default) := by
      simp only [Prog.expr, Expr.free]
      rw [efa, efb]
    refine ⟨C, ?_, ?_, ?_⟩
    · simp only [Prog.run, hCa, hCb]
      exact hC
    · rw [hfree]; exact hsh
    · intro σ hσ
      rw [hfree] at hσ ⊢
      rw [hval σ hσ, eA, eB, eia, eib, zip_map_fst_snd]
      show _ = sumPairs dim ps (fun τ => p.expr.eval dim τ * q.expr.eval dim τ) σ
      rw [sumPairs_eq_sumIdx, sumPairs_eq_sumIdx]
      apply sumIdx_congr
      intro ks hks
      -- the assignments the sum visits are within the dimensions of the operands' free legs
      have hpl : (Expr.pairLegs ps).Nodup := by
        simp only [Expr.pairLegs]
        rw [List.nodup_append]
        refine ⟨hn1, hn2, ?_⟩
        intro x hx y hy hxy
        subst hxy
        obtain ⟨pr, hpr, rfl⟩ := List.mem_map.1 hx
        obtain ⟨pr', hpr', hxy⟩ := List.mem_map.1 hy
        exact hdis _ (Expr.free_sub_labels p.expr _ (hps pr hpr).1)
          (hxy ▸ Expr.free_sub_labels q.expr _ (hps pr' hpr').2)
      have hkl : ks.length = ps.length := by rw [validIdx_length _ _ hks]; simp
      have hk1 := map_updPairs_fst σ ps ks hpl hkl
      have hk2 := map_updPairs_snd σ ps ks hpl hkl
      have hv1 : ∀ l ∈ ps.map Prod.fst, updPairs σ ps ks l < dim l := by
        apply validIdx_map_map_elim
        rw [hk1]
        have : (ps.map Prod.fst).map dim = ps.map (fun p => dim p.1) := by rw [List.map_map]; rfl
        rw [this]; exact hks
      have hv2 : ∀ l ∈ ps.map Prod.snd, updPairs σ ps ks l < dim l := by
        apply validIdx_map_map_elim
        rw [hk2]
        have : (ps.map Prod.snd).map dim = ps.map (fun p => dim p.1) := by
          rw [List.map_map]
          apply List.map_congr_left
          intro pr hpr
          exact (hpd pr hpr).symm
        rw [this]; exact hks
      have hra : ∀ l ∈ p.expr.free, updPairs σ ps ks l < dim l := by
        intro l hl
        by_cases h1 : l ∈ ps.map Prod.fst
        · exact hv1 l h1
        · have hnb' : l ∉ Expr.pairLegs ps := by
            simp only [Expr.pairLegs, List.mem_append, not_or]
            refine ⟨h1, ?_⟩
            intro h2
            obtain ⟨pr, hpr, rfl⟩ := List.mem_map.1 h2
            exact hdis _ (Expr.free_sub_labels p.expr _ hl) (Expr.free_sub_labels q.expr _ (hps pr hpr).2)
          rw [updPairs_of_not_mem σ ps ks l hnb']
          apply hσ
          rw [← efa]
          exact List.mem_append.2 (Or.inl (List.mem_filter.2 ⟨hl, by simpa using h1⟩))
      have hrb : ∀ l ∈ q.expr.free, updPairs σ ps ks l < dim l := by
        intro l hl
        by_cases h2 : l ∈ ps.map Prod.snd
        · exact hv2 l h2
        · have hnb' : l ∉ Expr.pairLegs ps := by
            simp only [Expr.pairLegs, List.mem_append, not_or]
            refine ⟨?_, h2⟩
            intro h1
            obtain ⟨pr, hpr, rfl⟩ := List.mem_map.1 h1
            exact hdis _ (Expr.free_sub_labels p.expr _ (hps pr hpr).1) (Expr.free_sub_labels q.expr _ hl)
          rw [updPairs_of_not_mem σ ps ks l hnb']
          apply hσ
          rw [← efb]
          exact List.mem_append.2 (Or.inr (List.mem_filter.2 ⟨hl, by simpa using h2⟩))
      show Ca.toLeaf p.expr.free _ * Cb.toLeaf q.expr.free _ = _
      rw [hva _ hra, hvb _ hrb]

end Ptn.Ein
