import Mathlib.Tactic.Ring
import Ptn.Common.Einsum
/-! Consequences of `Expr.eval_eq_full` used by the properties (all over an arbitrary commutative
semiring, no size bound):

* `Expr.binds_nodup`        in a strongly well-formed expression no leg is bound twice;
* `Expr.inner_of_record`    a contraction program whose binding record is `pp ++ K.binds ++ B.binds` computes
                            `Σ_pp K·B` — with `K`, `B` the two state vectors and `pp` the physical pairs this is
                            the dense inner product (C04, C16);
* `sumPairs_orient`         the orientation of a pair is irrelevant when both legs have the same dimension;
* `split_leaf_value`        replacing a tensor by two factors that contract to it (QR, SVD, any exact
                            factorisation) leaves the value of the whole network unchanged; read from right to
                            left: contracting two nodes leaves it unchanged (C02, C03);
* `gauge_move_value`        the centre move `A, B ↦ Q, R·B` with `Q·R = A` leaves the network value unchanged (C03);
* `apply_operator_value`    contracting a gate into a physical leg multiplies the state vector by the gate (C08).
-/
namespace Ptn.Ein

open Finset

set_option linter.unusedSectionVars false
variable {L : Type} [DecidableEq L] {R : Type} [CommSemiring R]

namespace Expr

/-- strongly well-formed: `WF`, leaf legs distinct, no leg named twice in the pairs of one contraction -/
def SWF : Expr L R → Prop
  | leaf legs v => legs.Nodup ∧ DependsOn (· ∈ legs) v
  | dot a b ps => a.SWF ∧ b.SWF ∧ (∀ l ∈ a.labels, l ∉ b.labels) ∧ (∀ p ∈ ps, p.1 ∈ a.free ∧ p.2 ∈ b.free) ∧
      (ps.map Prod.fst).Nodup ∧ (ps.map Prod.snd).Nodup

theorem SWF.wf : ∀ {e : Expr L R}, e.SWF → e.WF
  | leaf _ _, h => h.2
  | dot _ _ _, ⟨ha, hb, hd, hp, _, _⟩ => ⟨ha.wf, hb.wf, hd, hp⟩

theorem pairLegs_append (ps qs : List (L × L)) :
    (pairLegs (ps ++ qs)).Perm (pairLegs ps ++ pairLegs qs) := by
  simp only [pairLegs, List.map_append, List.append_assoc]
  apply List.Perm.append_left
  rw [← List.append_assoc, ← List.append_assoc]
  exact List.Perm.append_right _ List.perm_append_comm

theorem mem_pairLegs_append {ps qs : List (L × L)} {l : L} :
    l ∈ pairLegs (ps ++ qs) ↔ l ∈ pairLegs ps ∨ l ∈ pairLegs qs := by
  rw [(pairLegs_append ps qs).mem_iff, List.mem_append]

/-- a free leg is not bound -/
theorem free_not_bound (e : Expr L R) (h : e.SWF) : ∀ l ∈ e.free, l ∉ pairLegs e.binds := by
  induction e with
  | leaf legs v => intro l _ hl; simp [binds, pairLegs] at hl
  | dot a b ps iha ihb =>
    obtain ⟨ha, hb, hdis, hps, _, _⟩ := h
    intro l hl hb'
    simp only [free, List.mem_append, List.mem_filter, Bool.not_eq_true', List.contains_eq_mem,
      decide_eq_false_iff_not] at hl
    simp only [binds, mem_pairLegs_append] at hb'
    have hfa : ∀ p ∈ ps, p.1 ∈ a.labels := fun p hp => free_sub_labels a _ (hps p hp).1
    have hfb : ∀ p ∈ ps, p.2 ∈ b.labels := fun p hp => free_sub_labels b _ (hps p hp).2
    rcases hl with ⟨hla, hnot⟩ | ⟨hlb, hnot⟩
    · rcases hb' with h1 | h1 | h1
      · simp only [pairLegs, List.mem_append, List.mem_map] at h1
        rcases h1 with ⟨p, hp, rfl⟩ | ⟨p, hp, rfl⟩
        · exact hnot (List.mem_map.2 ⟨p, hp, rfl⟩)
        · exact hdis _ (free_sub_labels a _ hla) (hfb p hp)
      · exact iha ha l hla h1
      · exact hdis _ (free_sub_labels a _ hla) (binds_sub_labels b hb.wf l h1)
    · rcases hb' with h1 | h1 | h1
      · simp only [pairLegs, List.mem_append, List.mem_map] at h1
        rcases h1 with ⟨p, hp, rfl⟩ | ⟨p, hp, rfl⟩
        · exact hdis _ (hfa p hp) (free_sub_labels b _ hlb)
        · exact hnot (List.mem_map.2 ⟨p, hp, rfl⟩)
      · exact hdis _ (binds_sub_labels a ha.wf l h1) (free_sub_labels b _ hlb)
      · exact ihb hb l hlb h1

/-- in a strongly well-formed expression no leg is bound twice -/
theorem binds_nodup (e : Expr L R) (h : e.SWF) : (pairLegs e.binds).Nodup := by
  induction e with
  | leaf legs v => simp [binds, pairLegs]
  | dot a b ps iha ihb =>
    obtain ⟨ha, hb, hdis, hps, hn1, hn2⟩ := h
    have hfa : ∀ p ∈ ps, p.1 ∈ a.labels := fun p hp => free_sub_labels a _ (hps p hp).1
    have hfb : ∀ p ∈ ps, p.2 ∈ b.labels := fun p hp => free_sub_labels b _ (hps p hp).2
    have hperm : (pairLegs (dot a b ps).binds).Perm
        (pairLegs ps ++ (pairLegs a.binds ++ pairLegs b.binds)) := by
      simp only [binds]
      exact (pairLegs_append _ _).trans (List.Perm.append_left _ (pairLegs_append _ _))
    rw [hperm.nodup_iff, List.nodup_append, List.nodup_append]
    refine ⟨?_, ⟨iha ha, ihb hb, ?_⟩, ?_⟩
    · simp only [pairLegs, List.nodup_append]
      refine ⟨hn1, hn2, ?_⟩
      intro x hx y hy hxy
      subst hxy
      obtain ⟨p, hp, rfl⟩ := List.mem_map.1 hx
      obtain ⟨q, hq, hpq⟩ := List.mem_map.1 hy
      exact hdis _ (hfa p hp) (hpq ▸ hfb q hq)
    · intro x hx y hy hxy
      subst hxy
      exact hdis _ (binds_sub_labels a ha.wf x hx) (binds_sub_labels b hb.wf x hy)
    · intro x hx y hy hxy
      subst hxy
      simp only [pairLegs, List.mem_append, List.mem_map] at hx
      rcases hx with ⟨p, hp, rfl⟩ | ⟨p, hp, rfl⟩
      · rcases List.mem_append.1 hy with h1 | h1
        · exact free_not_bound a ha _ (hps p hp).1 h1
        · exact hdis _ (hfa p hp) (binds_sub_labels b hb.wf _ h1)
      · rcases List.mem_append.1 hy with h1 | h1
        · exact hdis _ (binds_sub_labels a ha.wf _ h1) (hfb p hp)
        · exact free_not_bound b hb _ (hps p hp).2 h1

/-- **A contraction program with the binding record of `⟨B|K⟩` computes `⟨B|K⟩`.**  `K` and `B` are any
strongly well-formed nestings (the ket network and the — already conjugated — bra network, each contracted
over its own bonds), `pp` joins free legs of `K` with free legs of `B` (the physical pairs).  Every
strongly well-formed program `e` over the same leaf tensors whose binding record is, up to order, `pp`
together with the bonds of `K` and of `B` evaluates to `Σ_pp K·B`: the sum over a common index per
physical pair of the product of the two dense vectors. -/
theorem inner_of_record (dim : L → Nat) (e K B : Expr L R) (he : e.SWF) (hK : K.SWF) (hB : B.SWF)
    (hdis : ∀ l ∈ K.labels, l ∉ B.labels) (pp : List (L × L))
    (hpp : ∀ p ∈ pp, p.1 ∈ K.free ∧ p.2 ∈ B.free)
    (hrec : e.binds.Perm (pp ++ (K.binds ++ B.binds)))
    (hleaf : ∀ σ, e.leafProd σ = K.leafProd σ * B.leafProd σ) (σ : Asg L) :
    e.eval dim σ = sumPairs dim pp (fun τ => K.eval dim τ * B.eval dim τ) σ := by
  have h2 : (dot K B pp).WF := ⟨hK.wf, hB.wf, hdis, hpp⟩
  have := eval_eq_of_perm dim e (dot K B pp) he.wf h2 hrec (binds_nodup e he)
    (fun σ => by rw [hleaf, leafProd_dot]) σ
  simpa [eval] using this

end Expr

/-! ### orientation of a pair -/

theorem upd_pair_swap (σ : Asg L) (a b : L) (i : Nat) : upd (upd σ a i) b i = upd (upd σ b i) a i := by
  funext x; unfold upd; by_cases h1 : x = a <;> by_cases h2 : x = b <;> simp_all

/-- turning pairs around does not change the sum when both legs of every pair have the same dimension -/
theorem sumPairs_orient (dim : L → Nat) (ps : List (L × L)) (hd : ∀ p ∈ ps, dim p.1 = dim p.2)
    (f : Asg L → R) (σ : Asg L) : sumPairs dim (ps.map Prod.swap) f σ = sumPairs dim ps f σ := by
  induction ps generalizing σ with
  | nil => rfl
  | cons p ps ih =>
    obtain ⟨a, b⟩ := p
    have hab : dim a = dim b := hd (a, b) (by simp)
    simp only [List.map_cons, Prod.swap, sumPairs, hab]
    congr 1; funext i
    rw [upd_pair_swap, ih (fun p hp => hd p (by simp [hp]))]

/-! ### flat networks: exact factorisations, centre moves, gates -/

theorem prodL_dependsOn {S : L → Prop} (rest : List (Asg L → R)) (hrest : ∀ f ∈ rest, DependsOn S f) :
    DependsOn S (fun τ => prodL (rest.map (fun f => f τ))) := by
  intro σ₁ σ₂ h
  induction rest with
  | nil => rfl
  | cons f fs ih =>
    show f σ₁ * prodL (fs.map (fun f => f σ₁)) = f σ₂ * prodL (fs.map (fun f => f σ₂))
    rw [hrest f (by simp) σ₁ σ₂ h]
    congr 1
    exact ih (fun g hg => hrest g (by simp [hg]))

/-- **Exact factorisations leave the network unchanged.**  If the tensor `A` is the contraction of `Q` and
`Rm` over a new bond `(q, r)` that nothing else in the network reads — the contract of `split_node_qr`,
`split_node_svd` without truncation, `split_node_replace` — then the network with `A` replaced by the
two factors and the bond added to the binding record has the same value for every assignment of the open
legs.  Read from right to left this is `contract_nodes`. -/
theorem split_leaf_value (dim : L → Nat) (binds : List (L × L)) (A Q Rm : Asg L → R)
    (rest : List (Asg L → R)) (q r : L) {S : L → Prop}
    (hA : ∀ τ, A τ = sumPairs dim [(q, r)] (fun ρ => Q ρ * Rm ρ) τ)
    (hrest : ∀ f ∈ rest, DependsOn S f) (hq : ¬ S q) (hr : ¬ S r) (σ : Asg L) :
    netValue dim (binds ++ [(q, r)]) (Q :: Rm :: rest) σ = netValue dim binds (A :: rest) σ := by
  unfold netValue
  rw [sumPairs_append]
  apply sumPairs_congr
  intro τ
  have hg := prodL_dependsOn rest hrest
  have := sumPairs_mul_right dim [(q, r)] (fun ρ => Q ρ * Rm ρ) _ hg
    (by intro l hl; simp [Expr.pairLegs] at hl; rcases hl with rfl | rfl <;> assumption) τ
  simp only [List.map_cons, prodL] at this ⊢
  rw [hA τ, ← this]
  exact sumPairs_congr dim _ (fun ρ => by rw [mul_assoc]) τ

/-- **A centre move leaves the represented state unchanged.**  `A` and `B` are joined by the bond
`(a, b)`; `A` is split as `Q·R` over a new bond `(q, r)` and `R` is absorbed into `B` over the old bond,
giving `B'`.  GIVEN the two contraction identities (the QR contract and the definition of `tensordot`),
the network in which `A, B` are replaced by `Q, B'` and the bond `(a, b)` by `(q, r)` has the same value
as the original one for every assignment of the open legs, whatever the rest of the network is (`bs`: all
other bonds).  `S₁`: what `B` and the rest read (not the new bond); `S₂`: what `Q` and the rest read (not
the old bond). -/
theorem gauge_move_value (dim : L → Nat) (bs : List (L × L)) (A B Q Rm B' : Asg L → R)
    (rest : List (Asg L → R)) (a b q r : L) {S₁ S₂ : L → Prop}
    (hA : ∀ τ, A τ = sumPairs dim [(q, r)] (fun ρ => Q ρ * Rm ρ) τ)
    (hB' : ∀ τ, B' τ = sumPairs dim [(a, b)] (fun ρ => Rm ρ * B ρ) τ)
    (hrest₁ : ∀ f ∈ rest, DependsOn S₁ f) (hrest₂ : ∀ f ∈ rest, DependsOn S₂ f)
    (hB : DependsOn S₁ B) (hQ : DependsOn S₂ Q)
    (hq : ¬ S₁ q) (hr : ¬ S₁ r) (ha : ¬ S₂ a) (hb : ¬ S₂ b)
    (hnd : (Expr.pairLegs ((bs ++ [(a, b)]) ++ [(q, r)])).Nodup) (σ : Asg L) :
    netValue dim (bs ++ [(q, r)]) (B' :: Q :: rest) σ = netValue dim (bs ++ [(a, b)]) (A :: B :: rest) σ := by
  have h1 := split_leaf_value dim (bs ++ [(a, b)]) A Q Rm (B :: rest) q r hA
      (by intro f hf; rcases List.mem_cons.1 hf with rfl | hf
          · exact hB
          · exact hrest₁ f hf) hq hr σ
  have h2 := split_leaf_value dim (bs ++ [(q, r)]) B' Rm B (Q :: rest) a b hB'
      (by intro f hf; rcases List.mem_cons.1 hf with rfl | hf
          · exact hQ
          · exact hrest₂ f hf) ha hb σ
  rw [← h1, ← h2]
  unfold netValue
  have hp : ((bs ++ [(a, b)]) ++ [(q, r)]).Perm ((bs ++ [(q, r)]) ++ [(a, b)]) := by
    rw [List.append_assoc, List.append_assoc]
    exact List.Perm.append_left _ (List.Perm.swap _ _ _)
  rw [sumPairs_perm dim hp hnd]
  apply sumPairs_congr
  intro τ
  simp only [List.map_cons, prodL]
  ring

/-- **Contracting a gate into a leg multiplies the state vector by the gate.**  The network `ψ` (leaf
tensors `rest`, record `binds`) has the open leg `p`; a gate tensor `G` with input leg `gi` (and any other
legs, e.g. its output leg) is added and `(gi, p)` bound.  If nothing in `ψ` reads the gate's legs and the
gate reads none of the network's bound legs, the new network evaluates to `Σ_k G[…, gi = k] · ψ[…, p = k]`. -/
theorem apply_operator_value (dim : L → Nat) (binds : List (L × L)) (G : Asg L → R)
    (rest : List (Asg L → R)) (gi p : L) {S : L → Prop}
    (hG : DependsOn S G) (hdis : ∀ l ∈ Expr.pairLegs binds, ¬ S l)
    (hnd : (Expr.pairLegs (binds ++ [(gi, p)])).Nodup) (σ : Asg L) :
    netValue dim (binds ++ [(gi, p)]) (G :: rest) σ =
      sumPairs dim [(gi, p)] (fun τ => G τ * netValue dim binds rest τ) σ := by
  unfold netValue
  rw [sumPairs_perm dim (List.perm_append_comm) hnd, sumPairs_append]
  apply sumPairs_congr
  intro τ
  simp only [List.map_cons, prodL]
  exact sumPairs_mul_left dim binds _ G hG hdis τ

end Ptn.Ein
