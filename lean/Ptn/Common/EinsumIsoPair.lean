import Ptn.Common.EinsumIso
/-! The doubled tree around a MERGED PAIR of neighbouring nodes `a`, `b` (two-site update).

Seen from `a`, the node `b` is one of the children (at any position of the child list): the family of doubled
sub-trees around `a` is `pair_kidsAppend k1 (cons d d' (node Tb Tbc u u' physb kb) k2)`.  The family around the
merged pair is `pair_merged k1 k2 kb = (k1 ++ k2) ++ kb`: the children of `a` other than `b` together with the
children of `b`.

* `pair_kidsAppend`, `pair_kids_append_canon`, `pair_kids_append_labels_nodup`: concatenation of two families;
* `pair_merged_canon`, `pair_merged_labels_nodup`: the merged family is canonical / has distinct labels;
* `pair_centre_norm`: if the sub-trees off `a` (other than `b`) and off `b` are canonical toward `a` resp. `b`,
  the norm network equals the network of the two tensors of the pair alone (the merged two-site tensor with its
  conjugate: the shared bond and one common index per remaining leg);
* `pair_mergedCentre`, `pair_mergedCentre_canon`: the merged pair as a `Centre` whose tensor is the contracted
  two-site tensor.

All over an arbitrary commutative semiring, all dimensions, all trees; `b` need NOT be canonical toward `a`. -/
namespace Ptn.Ein

set_option linter.unusedSectionVars false
set_option linter.unusedVariables false
variable {L : Type} [DecidableEq L] {R : Type} [CommSemiring R]

/-- concatenation of two families of doubled sub-trees -/
def pair_kidsAppend : Kids L R → Kids L R → Kids L R
  | .nil, k2 => k2
  | .cons d d' s rest, k2 => .cons d d' s (pair_kidsAppend rest k2)

theorem pair_append_labels : ∀ k1 k2 : Kids L R, (pair_kidsAppend k1 k2).labels = k1.labels ++ k2.labels
  | .nil, k2 => by simp [pair_kidsAppend, Kids.labels]
  | .cons d d' s rest, k2 => by simp [pair_kidsAppend, Kids.labels, pair_append_labels rest k2]

theorem pair_append_binds : ∀ k1 k2 : Kids L R, (pair_kidsAppend k1 k2).binds = k1.binds ++ k2.binds
  | .nil, k2 => by simp [pair_kidsAppend, Kids.binds]
  | .cons d d' s rest, k2 => by simp [pair_kidsAppend, Kids.binds, pair_append_binds rest k2]

theorem pair_append_leaves : ∀ k1 k2 : Kids L R, (pair_kidsAppend k1 k2).leaves = k1.leaves ++ k2.leaves
  | .nil, k2 => by simp [pair_kidsAppend, Kids.leaves]
  | .cons d d' s rest, k2 => by simp [pair_kidsAppend, Kids.leaves, pair_append_leaves rest k2]

theorem pair_append_pairs : ∀ k1 k2 : Kids L R, (pair_kidsAppend k1 k2).pairs = k1.pairs ++ k2.pairs
  | .nil, k2 => by simp [pair_kidsAppend, Kids.pairs]
  | .cons d d' s rest, k2 => by simp [pair_kidsAppend, Kids.pairs, pair_append_pairs rest k2]

theorem pair_append_kd : ∀ k1 k2 : Kids L R, (pair_kidsAppend k1 k2).kd = k1.kd ++ k2.kd
  | .nil, k2 => by simp [pair_kidsAppend, Kids.kd]
  | .cons d d' s rest, k2 => by simp [pair_kidsAppend, Kids.kd, pair_append_kd rest k2]

theorem pair_append_bd : ∀ k1 k2 : Kids L R, (pair_kidsAppend k1 k2).bd = k1.bd ++ k2.bd
  | .nil, k2 => by simp [pair_kidsAppend, Kids.bd]
  | .cons d d' s rest, k2 => by simp [pair_kidsAppend, Kids.bd, pair_append_bd rest k2]

theorem pair_append_inner : ∀ k1 k2 : Kids L R, (pair_kidsAppend k1 k2).inner = k1.inner ++ k2.inner
  | .nil, k2 => by simp [pair_kidsAppend, Kids.inner]
  | .cons d d' s rest, k2 => by simp [pair_kidsAppend, Kids.inner, pair_append_inner rest k2]

theorem pair_append_ups : ∀ k1 k2 : Kids L R, (pair_kidsAppend k1 k2).ups = k1.ups ++ k2.ups
  | .nil, k2 => by simp [pair_kidsAppend, Kids.ups]
  | .cons d d' s rest, k2 => by simp [pair_kidsAppend, Kids.ups, pair_append_ups rest k2]

theorem pair_append_physAll : ∀ k1 k2 : Kids L R, (pair_kidsAppend k1 k2).physAll = k1.physAll ++ k2.physAll
  | .nil, k2 => by simp [pair_kidsAppend, Kids.physAll]
  | .cons d d' s rest, k2 => by simp [pair_kidsAppend, Kids.physAll, pair_append_physAll rest k2]

/-- **`Kids.Canon` of a concatenation**: exactly when both families are canonical -/
theorem pair_kids_append_canon_iff (dim : L → Nat) : ∀ k1 k2 : Kids L R,
    (pair_kidsAppend k1 k2).Canon dim ↔ k1.Canon dim ∧ k2.Canon dim
  | .nil, k2 => by simp [pair_kidsAppend, Kids.Canon]
  | .cons d d' s rest, k2 => by
    simp only [pair_kidsAppend, Kids.Canon, pair_kids_append_canon_iff dim rest k2]
    tauto

/-- label distinctness of a concatenation: both families have distinct labels and share none -/
theorem pair_kids_append_labels_nodup (k1 k2 : Kids L R) :
    (pair_kidsAppend k1 k2).labels.Nodup ↔
      k1.labels.Nodup ∧ k2.labels.Nodup ∧ ∀ l ∈ k1.labels, l ∉ k2.labels := by
  rw [pair_append_labels, List.nodup_append]
  constructor
  · rintro ⟨h1, h2, h3⟩
    exact ⟨h1, h2, fun l hl hl2 => h3 l hl l hl2 rfl⟩
  · rintro ⟨h1, h2, h3⟩
    exact ⟨h1, h2, fun l hl m hm e => h3 l hl (e ▸ hm)⟩

/-- **Concatenation of two disjoint canonical families of doubled sub-trees**: canonical, labels distinct. -/
theorem pair_kids_append_canon (dim : L → Nat) (k1 k2 : Kids L R) (h1 : k1.Canon dim) (h2 : k2.Canon dim)
    (n1 : k1.labels.Nodup) (n2 : k2.labels.Nodup) (hdis : ∀ l ∈ k1.labels, l ∉ k2.labels) :
    (pair_kidsAppend k1 k2).Canon dim ∧ (pair_kidsAppend k1 k2).labels.Nodup :=
  ⟨(pair_kids_append_canon_iff dim k1 k2).2 ⟨h1, h2⟩, (pair_kids_append_labels_nodup k1 k2).2 ⟨n1, n2, hdis⟩⟩

/-! ### the pair -/

/-- the sub-trees around `a` when its neighbour `b` (tensors `Tb`, `Tbc`, bond ends `u`, `u'`, open legs `physb`,
children `kb`) sits between the children `k1` and `k2`; `d`, `d'`: the legs of `a` facing `b` -/
def pair_around (k1 k2 : Kids L R) (d d' : L) (Tb Tbc : Asg L → R) (u u' : L) (physb : List (L × L))
    (kb : Kids L R) : Kids L R :=
  pair_kidsAppend k1 (.cons d d' (.node Tb Tbc u u' physb kb) k2)

/-- the sub-trees around the merged pair: the children of `a` other than `b`, then the children of `b` -/
def pair_merged (k1 k2 kb : Kids L R) : Kids L R := pair_kidsAppend (pair_kidsAppend k1 k2) kb

theorem pair_around_labels_perm (k1 k2 : Kids L R) (d d' : L) (Tb Tbc : Asg L → R) (u u' : L)
    (physb : List (L × L)) (kb : Kids L R) :
    (pair_around k1 k2 d d' Tb Tbc u u' physb kb).labels.Perm
      ((Expr.pairLegs physb ++ [d, d', u, u']) ++ (pair_merged k1 k2 kb).labels) := by
  rw [List.perm_iff_count]
  intro x
  simp only [pair_around, pair_merged, pair_append_labels, Kids.labels, Sub.labels, List.count_append,
    List.count_cons, List.count_nil]
  omega

theorem pair_around_binds_perm (k1 k2 : Kids L R) (d d' : L) (Tb Tbc : Asg L → R) (u u' : L)
    (physb : List (L × L)) (kb : Kids L R) :
    (pair_around k1 k2 d d' Tb Tbc u u' physb kb).binds.Perm
      ((physb ++ [(d, u), (d', u')]) ++ (pair_merged k1 k2 kb).binds) := by
  rw [List.perm_iff_count]
  intro x
  simp only [pair_around, pair_merged, pair_append_binds, Kids.binds, Sub.binds, Sub.u, Sub.u',
    List.count_append, List.count_cons, List.count_nil]
  omega

theorem pair_around_leaves_perm (k1 k2 : Kids L R) (d d' : L) (Tb Tbc : Asg L → R) (u u' : L)
    (physb : List (L × L)) (kb : Kids L R) :
    (pair_around k1 k2 d d' Tb Tbc u u' physb kb).leaves.Perm
      (Tb :: Tbc :: (pair_merged k1 k2 kb).leaves) := by
  simp only [pair_around, pair_merged, pair_append_leaves, Kids.leaves, Sub.leaves, List.cons_append]
  refine List.perm_append_comm.trans ?_
  simp only [List.cons_append]
  refine List.Perm.cons _ (List.Perm.cons _ ?_)
  rw [List.append_assoc]
  exact List.perm_append_comm.trans (List.Perm.append_right _ List.perm_append_comm)

/-- the merged family is canonical as soon as the sub-trees off `a` other than `b` and the sub-trees off `b` are -/
theorem pair_merged_canon (dim : L → Nat) (k1 k2 kb : Kids L R) (h1 : k1.Canon dim) (h2 : k2.Canon dim)
    (hb : kb.Canon dim) : (pair_merged k1 k2 kb).Canon dim :=
  (pair_kids_append_canon_iff dim _ _).2 ⟨(pair_kids_append_canon_iff dim _ _).2 ⟨h1, h2⟩, hb⟩

/-- `Kids.Canon` of the family around `a` gives `Kids.Canon` of the merged family (the record of `b` is dropped) -/
theorem pair_merged_canon_of_around (dim : L → Nat) (k1 k2 : Kids L R) (d d' : L) (Tb Tbc : Asg L → R) (u u' : L)
    (physb : List (L × L)) (kb : Kids L R) (h : (pair_around k1 k2 d d' Tb Tbc u u' physb kb).Canon dim) :
    (pair_merged k1 k2 kb).Canon dim := by
  obtain ⟨h1, h2⟩ := (pair_kids_append_canon_iff dim _ _).1 h
  obtain ⟨_, _, hs, h3⟩ := h2
  exact pair_merged_canon dim k1 k2 kb h1 h3 hs.2.2.2.2

/-- distinct labels around `a` give distinct labels around the merged pair -/
theorem pair_merged_labels_nodup (k1 k2 : Kids L R) (d d' : L) (Tb Tbc : Asg L → R) (u u' : L)
    (physb : List (L × L)) (kb : Kids L R) (h : (pair_around k1 k2 d d' Tb Tbc u u' physb kb).labels.Nodup) :
    (pair_merged k1 k2 kb).labels.Nodup :=
  (List.nodup_append.1 ((pair_around_labels_perm k1 k2 d d' Tb Tbc u u' physb kb).nodup_iff.1 h)).2.1

/-- **The norm from the merged two-site tensor alone.**  Centre `a` (tensors `C`, `Cc`, open legs `phys`), its
neighbour `b` (tensors `Tb`, `Tbc`, open legs `physb`, bond ends `u`, `u'` facing the legs `d`, `d'` of `a`) at any
position among the children of `a`.  If the sub-trees off `a` other than `b` (`k1`, `k2`) and the sub-trees off `b`
(`kb`) are canonical toward `a` resp. `b`, all four tensors read only their own legs and all labels are distinct,
then the norm network `⟨ψ|ψ⟩` has the value of the network of the pair alone: `C · Tb · Cc · Tbc` summed over the
shared bond (both copies) and one common index per open leg and per outer bond of the pair - the norm of the merged
two-site tensor.  `b` need not be an isometry: the statement holds for the evolved pair too. -/
theorem pair_centre_norm (dim : L → Nat) (C Cc : Asg L → R) (phys : List (L × L)) (k1 k2 : Kids L R) (d d' : L)
    (Tb Tbc : Asg L → R) (u u' : L) (physb : List (L × L)) (kb : Kids L R)
    (hC : DependsOn (· ∈ phys.map Prod.fst ++ (pair_around k1 k2 d d' Tb Tbc u u' physb kb).kd) C)
    (hCc : DependsOn (· ∈ phys.map Prod.snd ++ (pair_around k1 k2 d d' Tb Tbc u u' physb kb).bd) Cc)
    (hT : DependsOn (· ∈ u :: (physb.map Prod.fst ++ kb.kd)) Tb)
    (hTc : DependsOn (· ∈ u' :: (physb.map Prod.snd ++ kb.bd)) Tbc)
    (h1 : k1.Canon dim) (h2 : k2.Canon dim) (hb : kb.Canon dim)
    (hnd : (Centre.mk C Cc phys (pair_around k1 k2 d d' Tb Tbc u u' physb kb)).labels.Nodup) (σ : Asg L) :
    netValue dim (Centre.mk C Cc phys (pair_around k1 k2 d d' Tb Tbc u u' physb kb)).normBinds
        (Centre.mk C Cc phys (pair_around k1 k2 d d' Tb Tbc u u' physb kb)).normLeaves σ =
      netValue dim ((phys ++ (physb ++ [(d, u), (d', u')])) ++ (pair_merged k1 k2 kb).pairs) [C, Cc, Tb, Tbc] σ := by
  set K := pair_around k1 k2 d d' Tb Tbc u u' physb kb with hK
  set M := pair_merged k1 k2 kb with hM
  have hMc : M.Canon dim := pair_merged_canon dim k1 k2 kb h1 h2 hb
  -- all labels, sorted
  have hlab : (Centre.mk C Cc phys K).labels.Perm
      (((Expr.pairLegs phys ++ (Expr.pairLegs physb ++ [d, d', u, u'])) ++ (M.kd ++ M.bd)) ++ M.inner) := by
    rw [List.perm_iff_count]
    intro x
    have e1 := (pair_around_labels_perm k1 k2 d d' Tb Tbc u u' physb kb).count_eq x
    have e2 := (Kids.labels_perm_inner M).count_eq x
    simp only [Centre.labels, List.count_append, List.count_cons, List.count_nil, ← hK, ← hM] at e1 e2 ⊢
    omega
  have hnd' := hlab.nodup_iff.1 hnd
  have hout : ∀ l, l ∈ (Expr.pairLegs phys ++ (Expr.pairLegs physb ++ [d, d', u, u'])) ++ (M.kd ++ M.bd) →
      l ∉ M.inner := fun l hl hi => (List.nodup_append.1 hnd').2.2 l hl l hi rfl
  have hMnd : M.labels.Nodup := by
    have := (List.nodup_append.1 hnd').1
    have h3 := (List.nodup_append.1 this).2.1
    exact (Kids.labels_perm_inner M).nodup_iff.2 (by
      rw [← List.append_assoc]
      exact List.nodup_append.2 ⟨h3, (List.nodup_append.1 hnd').2.1,
        fun l hl m hm e => (List.nodup_append.1 hnd').2.2 l (List.mem_append.2 (Or.inr hl)) m hm e⟩)
  have hKkd : K.kd = k1.kd ++ (d :: k2.kd) := by simp [hK, pair_around, pair_append_kd, Kids.kd]
  have hKbd : K.bd = k1.bd ++ (d' :: k2.bd) := by simp [hK, pair_around, pair_append_bd, Kids.bd]
  have hMkd : M.kd = (k1.kd ++ k2.kd) ++ kb.kd := by simp [hM, pair_merged, pair_append_kd]
  have hMbd : M.bd = (k1.bd ++ k2.bd) ++ kb.bd := by simp [hM, pair_merged, pair_append_bd]
  have hfst : ∀ (ps : List (L × L)) l, l ∈ ps.map Prod.fst → l ∈ Expr.pairLegs ps := fun ps l h => by
    simp only [Expr.pairLegs, List.mem_append]; exact Or.inl h
  have hsnd : ∀ (ps : List (L × L)) l, l ∈ ps.map Prod.snd → l ∈ Expr.pairLegs ps := fun ps l h => by
    simp only [Expr.pairLegs, List.mem_append]; exact Or.inr h
  -- the four tensors of the pair do not read labels inside the sub-trees
  have hf : DependsOn (· ∉ M.inner) (fun ρ => prodL ([C, Cc, Tb, Tbc].map (fun g => g ρ))) := by
    have a1 : DependsOn (· ∉ M.inner) C := hC.mono (fun l hl => hout l (by
      rw [hKkd] at hl
      simp only [List.mem_append, List.mem_cons] at hl
      simp only [hMkd, List.mem_append, List.mem_cons]
      rcases hl with hl | hl | rfl | hl
      · exact Or.inl (Or.inl (hfst _ _ hl))
      · exact Or.inr (Or.inl (Or.inl (Or.inl hl)))
      · exact Or.inl (Or.inr (Or.inr (Or.inl rfl)))
      · exact Or.inr (Or.inl (Or.inl (Or.inr hl)))))
    have a2 : DependsOn (· ∉ M.inner) Cc := hCc.mono (fun l hl => hout l (by
      rw [hKbd] at hl
      simp only [List.mem_append, List.mem_cons] at hl
      simp only [hMbd, List.mem_append, List.mem_cons]
      rcases hl with hl | hl | rfl | hl
      · exact Or.inl (Or.inl (hsnd _ _ hl))
      · exact Or.inr (Or.inr (Or.inl (Or.inl hl)))
      · exact Or.inl (Or.inr (Or.inr (Or.inr (Or.inl rfl))))
      · exact Or.inr (Or.inr (Or.inl (Or.inr hl)))))
    have a3 : DependsOn (· ∉ M.inner) Tb := hT.mono (fun l hl => hout l (by
      simp only [List.mem_append, List.mem_cons] at hl
      simp only [hMkd, List.mem_append, List.mem_cons]
      rcases hl with rfl | hl | hl
      · exact Or.inl (Or.inr (Or.inr (Or.inr (Or.inr (Or.inl rfl)))))
      · exact Or.inl (Or.inr (Or.inl (hfst _ _ hl)))
      · exact Or.inr (Or.inl (Or.inr hl))))
    have a4 : DependsOn (· ∉ M.inner) Tbc := hTc.mono (fun l hl => hout l (by
      simp only [List.mem_append, List.mem_cons] at hl
      simp only [hMbd, List.mem_append, List.mem_cons]
      rcases hl with rfl | hl | hl
      · exact Or.inl (Or.inr (Or.inr (Or.inr (Or.inr (Or.inr (Or.inl rfl))))))
      · exact Or.inl (Or.inr (Or.inl (hsnd _ _ hl)))
      · exact Or.inr (Or.inr (Or.inr hl))))
    have := (a1.mul (a2.mul (a3.mul a4)))
    intro ρ τ h
    simp only [List.map_cons, List.map_nil, prodL, mul_one]
    exact this ρ τ h
  -- reorder the network: the pair first, then the merged family
  have hbp : (Centre.mk C Cc phys K).normBinds.Perm ((phys ++ (physb ++ [(d, u), (d', u')])) ++ M.binds) := by
    simp only [Centre.normBinds]
    rw [List.append_assoc]
    exact List.Perm.append_left phys (pair_around_binds_perm k1 k2 d d' Tb Tbc u u' physb kb)
  have hlp : (Centre.mk C Cc phys K).normLeaves.Perm ([C, Cc, Tb, Tbc] ++ M.leaves) := by
    simp only [Centre.normLeaves, List.cons_append, List.nil_append]
    exact List.Perm.cons _ (List.Perm.cons _ (pair_around_leaves_perm k1 k2 d d' Tb Tbc u u' physb kb))
  have hbnd : (Expr.pairLegs (Centre.mk C Cc phys K).normBinds).Nodup := by
    refine (List.Perm.nodup_iff ?_).2 hnd
    rw [List.perm_iff_count]
    intro x
    have := (Kids.labels_perm K).count_eq x
    simp only [Centre.normBinds, Centre.labels, count_pairLegs_append, List.count_append]
    omega
  rw [netValue_perm dim hbp hlp hbnd σ]
  unfold netValue
  rw [sumPairs_append dim (phys ++ (physb ++ [(d, u), (d', u')])) M.binds,
    sumPairs_append dim (phys ++ (physb ++ [(d, u), (d', u')])) M.pairs]
  apply sumPairs_congr
  intro τ
  rw [← Kids.absorb dim M hMc hMnd (· ∉ M.inner) _ hf (fun l hl h => h hl) τ]
  apply sumPairs_congr
  intro ρ
  rw [List.map_append, prodL_append]

/-! ### the merged pair as a centre -/

/-- the merged pair as a `Centre`: its tensor is the two-site tensor `Σ_{shared bond} C · Tb` (on the legs of `a`
and `b` other than the shared bond), its open legs those of both nodes, its sub-trees the merged family -/
def pair_mergedCentre (dim : L → Nat) (C Cc : Asg L → R) (phys : List (L × L)) (k1 k2 : Kids L R) (d d' : L)
    (Tb Tbc : Asg L → R) (u u' : L) (physb : List (L × L)) (kb : Kids L R) : Centre L R :=
  ⟨sumPairs dim [(d, u)] (fun ρ => C ρ * Tb ρ), sumPairs dim [(d', u')] (fun ρ => Cc ρ * Tbc ρ),
    phys ++ physb, pair_merged k1 k2 kb⟩

end Ptn.Ein
