import Mathlib.Algebra.BigOperators.Group.Finset.Basic
import Mathlib.Algebra.BigOperators.Group.Finset.Sigma
import Mathlib.Algebra.BigOperators.Ring.Finset
import Ptn.Common.EinsumModel
/-! Theorems about the value-level semantics of labelled tensor networks (`EinsumModel.lean`), over an
arbitrary commutative semiring:

* `sumPairs_perm`      the big sum does not depend on the order of the binding record (Fubini);
* `Expr.eval_eq_full`  ANY nesting of pairwise contractions (`tensordot` calls) of a well-formed expression
                       evaluates to the one big sum over its binding record of the product of its leaves;
* `Expr.eval_eq_of_perm` two well-formed nestings over the same leaves whose binding records agree up to
                       order (and orientation of the pairs is kept) have the same value: the value of a
                       contraction program is determined by its leg graph.
-/
namespace Ptn.Ein

open Finset

set_option linter.unusedSectionVars false
variable {L : Type} [DecidableEq L] {R : Type} [CommSemiring R]

theorem sumR_eq (n : Nat) (f : Nat → R) : sumR n f = ∑ i ∈ range n, f i := by
  unfold sumR
  induction n with
  | zero => simp
  | succ n ih => rw [List.range_succ, List.map_append, List.sum_append, ih, sum_range_succ]; simp

theorem prodL_append (xs ys : List R) : prodL (xs ++ ys) = prodL xs * prodL ys := by
  induction xs with
  | nil => simp [prodL]
  | cons x xs ih => simp [prodL, ih, mul_assoc]

theorem upd_comm (σ : Asg L) {a b : L} (h : a ≠ b) (i j : Nat) :
    upd (upd σ a i) b j = upd (upd σ b j) a i := by
  funext x; unfold upd; by_cases h1 : x = a <;> by_cases h2 : x = b <;> simp_all

theorem upd_same_of_ne (σ : Asg L) {a x : L} (h : x ≠ a) (i : Nat) : upd σ a i x = σ x := by
  simp [upd, h]

/-! ### congruence and dependence -/

theorem sumPairs_congr (dim : L → Nat) (ps : List (L × L)) {f g : Asg L → R} (h : ∀ σ, f σ = g σ)
    (σ : Asg L) : sumPairs dim ps f σ = sumPairs dim ps g σ := by
  induction ps generalizing σ with
  | nil => exact h σ
  | cons p ps ih => obtain ⟨a, b⟩ := p; simp only [sumPairs]; congr 1; funext i; exact ih _

/-- `f` reads only the labels satisfying `S` -/
def DependsOn (S : L → Prop) (f : Asg L → R) : Prop := ∀ σ τ : Asg L, (∀ l, S l → σ l = τ l) → f σ = f τ

theorem DependsOn.mono {S S' : L → Prop} {f : Asg L → R} (h : DependsOn S f) (hs : ∀ l, S l → S' l) :
    DependsOn S' f := fun σ τ hst => h σ τ (fun l hl => hst l (hs l hl))

theorem DependsOn.mul {S : L → Prop} {f g : Asg L → R} (hf : DependsOn S f) (hg : DependsOn S g) :
    DependsOn S (fun σ => f σ * g σ) := fun σ τ h => by show f σ * g σ = f τ * g τ; rw [hf σ τ h, hg σ τ h]

/-- the sum over the pairs no longer reads the summed labels -/
theorem sumPairs_dependsOn (dim : L → Nat) (ps : List (L × L)) {S : L → Prop} {f : Asg L → R}
    (hf : DependsOn S f) : DependsOn (fun l => S l ∧ l ∉ Expr.pairLegs ps) (sumPairs dim ps f) := by
  induction ps with
  | nil => intro σ τ h; exact hf σ τ (fun l hl => h l ⟨hl, by simp [Expr.pairLegs]⟩)
  | cons p ps ih =>
    obtain ⟨a, b⟩ := p
    intro σ τ h
    simp only [sumPairs]; congr 1; funext i
    apply ih
    intro l ⟨hl, hnot⟩
    by_cases hb : l = b
    · simp [upd, hb]
    · by_cases ha : l = a
      · simp [upd, ha]
      · simp only [upd, hb, ha, if_false]
        apply h l ⟨hl, ?_⟩
        simp only [Expr.pairLegs, List.map_cons, List.mem_append, List.mem_cons] at hnot ⊢
        tauto

/-- a factor that does not read the summed labels can be pulled out of the sum (on the right) -/
theorem sumPairs_mul_right (dim : L → Nat) (ps : List (L × L)) (f g : Asg L → R) {S : L → Prop}
    (hg : DependsOn S g) (hdis : ∀ l ∈ Expr.pairLegs ps, ¬ S l) (σ : Asg L) :
    sumPairs dim ps (fun σ => f σ * g σ) σ = sumPairs dim ps f σ * g σ := by
  induction ps generalizing σ with
  | nil => rfl
  | cons p ps ih =>
    obtain ⟨a, b⟩ := p
    have hdis' : ∀ l ∈ Expr.pairLegs ps, ¬ S l := by
      intro l hl; apply hdis
      simp only [Expr.pairLegs, List.map_cons, List.mem_append, List.mem_cons] at hl ⊢; tauto
    have ha : ¬ S a := hdis a (by simp [Expr.pairLegs])
    have hb : ¬ S b := hdis b (by simp [Expr.pairLegs])
    simp only [sumPairs, sumR_eq]
    rw [sum_mul]
    apply sum_congr rfl
    intro i _
    rw [ih hdis']
    congr 1
    apply hg
    intro l hl
    have h1 : l ≠ b := fun h => hb (h ▸ hl)
    have h2 : l ≠ a := fun h => ha (h ▸ hl)
    simp [upd, h1, h2]

theorem sumPairs_mul_left (dim : L → Nat) (ps : List (L × L)) (f g : Asg L → R) {S : L → Prop}
    (hg : DependsOn S g) (hdis : ∀ l ∈ Expr.pairLegs ps, ¬ S l) (σ : Asg L) :
    sumPairs dim ps (fun σ => g σ * f σ) σ = g σ * sumPairs dim ps f σ := by
  rw [mul_comm, ← sumPairs_mul_right dim ps f g hg hdis]
  exact sumPairs_congr dim ps (fun _ => mul_comm _ _) σ

theorem sumPairs_append (dim : L → Nat) (ps qs : List (L × L)) (f : Asg L → R) (σ : Asg L) :
    sumPairs dim (ps ++ qs) f σ = sumPairs dim ps (sumPairs dim qs f) σ := by
  induction ps generalizing σ with
  | nil => rfl
  | cons p ps ih => obtain ⟨a, b⟩ := p; simp only [List.cons_append, sumPairs]; congr 1; funext i; exact ih _

/-! ### order independence (Fubini) -/

theorem sumPairs_swap (dim : L → Nat) (p q : L × L) (ps : List (L × L)) (f : Asg L → R) (σ : Asg L)
    (h1 : p.1 ≠ q.1) (h2 : p.1 ≠ q.2) (h3 : p.2 ≠ q.1) (h4 : p.2 ≠ q.2) :
    sumPairs dim (p :: q :: ps) f σ = sumPairs dim (q :: p :: ps) f σ := by
  obtain ⟨a, b⟩ := p; obtain ⟨c, d⟩ := q
  simp only at h1 h2 h3 h4
  simp only [sumPairs, sumR_eq]
  rw [sum_comm]
  apply sum_congr rfl; intro j _; apply sum_congr rfl; intro i _
  congr 1
  funext x; unfold upd
  by_cases hd : x = d <;> by_cases hc : x = c <;> by_cases hb : x = b <;> by_cases ha : x = a <;>
    simp_all


theorem pairLegs_cons_perm (p : L × L) (ps : List (L × L)) :
    (Expr.pairLegs (p :: ps)).Perm (p.1 :: p.2 :: Expr.pairLegs ps) := by
  simp only [Expr.pairLegs, List.map_cons, List.cons_append]
  exact List.Perm.cons _ List.perm_middle

theorem pairLegs_perm {ps qs : List (L × L)} (h : ps.Perm qs) :
    (Expr.pairLegs ps).Perm (Expr.pairLegs qs) :=
  List.Perm.append (h.map _) (h.map _)

/-- **Fubini.**  The big sum does not depend on the order of the binding record, as long as no leg is
bound twice. -/
theorem sumPairs_perm (dim : L → Nat) {ps qs : List (L × L)} (h : ps.Perm qs)
    (hnd : (Expr.pairLegs ps).Nodup) (f : Asg L → R) (σ : Asg L) :
    sumPairs dim ps f σ = sumPairs dim qs f σ := by
  induction h generalizing σ with
  | nil => rfl
  | cons p _ ih =>
    obtain ⟨a, b⟩ := p
    have hnd' := ((pairLegs_cons_perm _ _).nodup_iff.1 hnd)
    simp only [sumPairs]; congr 1; funext i
    exact ih (List.Nodup.of_cons (List.Nodup.of_cons hnd')) _
  | swap p q l =>
    have h1 := (pairLegs_cons_perm q (p :: l)).nodup_iff.1 hnd
    have h2 : (q.1 :: q.2 :: p.1 :: p.2 :: Expr.pairLegs l).Nodup :=
      (((pairLegs_cons_perm p l).cons q.2).cons q.1).nodup_iff.1 h1
    simp only [List.nodup_cons, List.mem_cons, not_or] at h2
    obtain ⟨⟨_, hq1p1, hq1p2, _⟩, ⟨hq2p1, hq2p2, _⟩, _⟩ := h2
    exact sumPairs_swap dim q p l f σ hq1p1 hq1p2 hq2p1 hq2p2
  | trans h1 _ ih1 ih2 =>
    rw [ih1 hnd, ih2 ((pairLegs_perm h1).nodup_iff.1 hnd)]

/-! ### nested evaluation = one big sum -/

namespace Expr

/-- well-formed: every leaf reads only its own legs; the two sides of a contraction share no label; each
pair joins a free leg of the left side with a free leg of the right side -/
def WF : Expr L R → Prop
  | leaf legs v => DependsOn (· ∈ legs) v
  | dot a b ps => a.WF ∧ b.WF ∧ (∀ l ∈ a.labels, l ∉ b.labels) ∧ (∀ p ∈ ps, p.1 ∈ a.free ∧ p.2 ∈ b.free)

theorem free_sub_labels (e : Expr L R) : ∀ l ∈ e.free, l ∈ e.labels := by
  induction e with
  | leaf legs v => intro l h; exact h
  | dot a b ps iha ihb =>
    intro l h
    simp only [free, List.mem_append, List.mem_filter] at h
    simp only [labels, List.mem_append]
    rcases h with h | h
    · exact Or.inl (iha l h.1)
    · exact Or.inr (ihb l h.1)

theorem binds_sub_labels (e : Expr L R) (h : e.WF) : ∀ l ∈ pairLegs e.binds, l ∈ e.labels := by
  induction e with
  | leaf legs v => intro l hl; simp [binds, pairLegs] at hl
  | dot a b ps iha ihb =>
    obtain ⟨ha, hb, _, hps⟩ := h
    intro l hl
    simp only [binds, pairLegs, List.map_append, List.mem_append, List.mem_map] at hl
    simp only [labels, List.mem_append]
    have ia := iha ha l; have ib := ihb hb l
    simp only [pairLegs, List.mem_append, List.mem_map] at ia ib
    rcases hl with (⟨p, hp, rfl⟩ | h | h) | (⟨p, hp, rfl⟩ | h | h)
    · exact Or.inl (free_sub_labels a _ (hps p hp).1)
    · exact Or.inl (ia (Or.inl h))
    · exact Or.inr (ib (Or.inl h))
    · exact Or.inr (free_sub_labels b _ (hps p hp).2)
    · exact Or.inl (ia (Or.inr h))
    · exact Or.inr (ib (Or.inr h))

theorem leafProd_dot (a b : Expr L R) (ps : List (L × L)) (σ : Asg L) :
    (dot a b ps).leafProd σ = a.leafProd σ * b.leafProd σ := by
  simp [leafProd, leaves, prodL_append]

theorem leafProd_dependsOn (e : Expr L R) (h : e.WF) : DependsOn (· ∈ e.labels) e.leafProd := by
  induction e with
  | leaf legs v =>
    intro σ τ hst
    simp only [leafProd, leaves, List.map_cons, List.map_nil, prodL, mul_one]
    exact h σ τ hst
  | dot a b ps iha ihb =>
    obtain ⟨ha, hb, _, _⟩ := h
    intro σ τ hst
    rw [leafProd_dot, leafProd_dot]
    rw [iha ha σ τ (fun l hl => hst l (by simp [labels, hl])),
        ihb hb σ τ (fun l hl => hst l (by simp [labels, hl]))]

/-- the product of the two big sums of disjoint sub-networks is the big sum of the joint network -/
theorem full_mul_full (dim : L → Nat) (a b : Expr L R) (ha : a.WF) (hb : b.WF)
    (hdis : ∀ l ∈ a.labels, l ∉ b.labels) (σ : Asg L) :
    a.full dim σ * b.full dim σ =
      sumPairs dim (a.binds ++ b.binds) (fun σ => a.leafProd σ * b.leafProd σ) σ := by
  rw [sumPairs_append]
  have hPa := leafProd_dependsOn a ha
  have hPb := leafProd_dependsOn b hb
  have h1 : ∀ τ, sumPairs dim b.binds (fun σ => a.leafProd σ * b.leafProd σ) τ
      = a.leafProd τ * sumPairs dim b.binds b.leafProd τ := by
    intro τ
    exact sumPairs_mul_left dim b.binds b.leafProd a.leafProd hPa
      (fun l hl hla => hdis l hla (binds_sub_labels b hb l hl)) τ
  rw [sumPairs_congr dim a.binds h1]
  have hg : DependsOn (· ∈ b.labels) (sumPairs dim b.binds b.leafProd) :=
    (sumPairs_dependsOn dim b.binds hPb).mono (fun l hl => hl.1)
  rw [sumPairs_mul_right dim a.binds a.leafProd _ hg
      (fun l hl hlb => hdis l (binds_sub_labels a ha l hl) hlb) σ]
  rfl

/-- **Nested pairwise contraction = one big sum.**  For every well-formed expression — any nesting of
`tensordot` calls over leaf tensors with pairwise distinct labels — evaluating the way the program does
gives the sum, over one common index per bound pair of the binding record, of the product of all leaf
tensors.  No size bound, any commutative semiring. -/
theorem eval_eq_full (dim : L → Nat) (e : Expr L R) (h : e.WF) (σ : Asg L) :
    e.eval dim σ = e.full dim σ := by
  induction e generalizing σ with
  | leaf legs v => simp [eval, full, binds, sumPairs, leafProd, leaves, prodL]
  | dot a b ps iha ihb =>
    obtain ⟨ha, hb, hdis, hps⟩ := h
    simp only [eval, full, binds]
    rw [sumPairs_append]
    apply sumPairs_congr
    intro τ
    rw [iha ha, ihb hb, full_mul_full dim a b ha hb hdis]
    exact sumPairs_congr dim _ (fun ρ => (leafProd_dot a b ps ρ).symm) τ

/-- **The value of a contraction program is determined by its leg graph.**  Two well-formed nestings
whose binding records agree up to order (no leg bound twice) and whose leaf products agree have the same
value — whatever the order and grouping of the `tensordot` calls. -/
theorem eval_eq_of_perm (dim : L → Nat) (e₁ e₂ : Expr L R) (h₁ : e₁.WF) (h₂ : e₂.WF)
    (hb : e₁.binds.Perm e₂.binds) (hnd : (pairLegs e₁.binds).Nodup)
    (hl : ∀ σ, e₁.leafProd σ = e₂.leafProd σ) (σ : Asg L) :
    e₁.eval dim σ = e₂.eval dim σ := by
  rw [eval_eq_full dim e₁ h₁, eval_eq_full dim e₂ h₂]
  simp only [full]
  rw [sumPairs_perm dim hb hnd]
  exact sumPairs_congr dim _ hl σ

end Expr

end Ptn.Ein
