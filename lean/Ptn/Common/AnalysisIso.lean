/-
Abstract linear algebra, part L1 (isometries) and L6 (rank bound).

Everything is stated for matrices over a commutative star ring `R` with arbitrary finite index
types; the instances used by the property proofs are `R = ℂ` and index types `Fin n`.
An *isometry* is a (possibly rectangular) matrix `A` with `Aᴴ * A = 1`.
-/
import Mathlib.LinearAlgebra.Matrix.Kronecker
import Mathlib.LinearAlgebra.Matrix.ConjTranspose
import Mathlib.Data.Matrix.ColumnRowPartitioned
import Mathlib.LinearAlgebra.Matrix.Rank
import Mathlib.Data.Complex.Basic

namespace Ptn.Analysis

open Matrix
open scoped Kronecker

section Iso

variable {R : Type*} [CommRing R] [StarRing R]
variable {l m n p q : Type*}

/-- **L1.** The product of two isometries is an isometry.
Used by C03 (canonical form: contracting orthogonalised tensors along a path keeps the
environment an isometry) and C11 (splitting: `Q` of a QR followed by a further isometry). -/
theorem isometry_mul [Fintype l] [Fintype m] [DecidableEq m] [DecidableEq n]
    (A : Matrix l m R) (B : Matrix m n R)
    (hA : Aᴴ * A = 1) (hB : Bᴴ * B = 1) : (A * B)ᴴ * (A * B) = 1 := by
  rw [conjTranspose_mul, Matrix.mul_assoc, ← Matrix.mul_assoc Aᴴ, hA, Matrix.one_mul, hB]

/-- **L1.** The Kronecker product of two isometries is an isometry.
Used by C03/C11: the environment of a node is the tensor product of the isometries of the
separate subtrees hanging off it. -/
theorem isometry_kronecker [Fintype l] [Fintype p] [DecidableEq m] [DecidableEq q]
    (A : Matrix l m R) (B : Matrix p q R)
    (hA : Aᴴ * A = 1) (hB : Bᴴ * B = 1) : (A ⊗ₖ B)ᴴ * (A ⊗ₖ B) = 1 := by
  rw [conjTranspose_kronecker, ← mul_kronecker_mul, hA, hB, one_kronecker_one]

/-- **L1.** An isometry preserves the (squared) norm of every vector: the norm obtained from
the orthogonality-centre tensor alone equals the norm of the full state vector (C03). -/
theorem isometry_norm [Fintype l] [Fintype m] [DecidableEq m]
    (A : Matrix l m R) (hA : Aᴴ * A = 1) (v : m → R) :
    star (A *ᵥ v) ⬝ᵥ (A *ᵥ v) = star v ⬝ᵥ v := by
  rw [star_mulVec, dotProduct_mulVec, vecMul_vecMul, hA, vecMul_one]

/-- **L1.** More generally an isometry preserves all inner products. -/
theorem isometry_inner [Fintype l] [Fintype m] [DecidableEq m]
    (A : Matrix l m R) (hA : Aᴴ * A = 1) (v w : m → R) :
    star (A *ᵥ v) ⬝ᵥ (A *ᵥ w) = star v ⬝ᵥ w := by
  rw [star_mulVec, dotProduct_mulVec, vecMul_vecMul, hA, vecMul_one]

omit [StarRing R] in
/-- **L1 (KEEP split mode), product part.** Zero-padding the columns of `Q` and the rows of `R`
does not change the product: `[Q 0] * [R; 0] = Q * R`.  Holds for arbitrary `Q`, `R`. Used by
C11 (`SplitMode.KEEP` pads the factors back to the original bond dimension). -/
theorem pad_mul_pad [Fintype m] [Fintype p]
    (Q : Matrix l m R) (T : Matrix m n R) :
    fromCols Q (0 : Matrix l p R) * fromRows T (0 : Matrix p n R) = Q * T := by
  rw [fromCols_mul_fromRows, Matrix.zero_mul, add_zero]

/-- The Gram matrix of a zero-padded isometry is the block projector `diag(1, 0)`. -/
theorem pad_gram [Fintype l] [DecidableEq m]
    (Q : Matrix l m R) (hQ : Qᴴ * Q = 1) :
    (fromCols Q (0 : Matrix l p R))ᴴ * fromCols Q (0 : Matrix l p R)
      = fromBlocks 1 0 0 0 := by
  rw [conjTranspose_fromCols_eq_fromRows_conjTranspose, fromRows_mul_fromCols, hQ]
  simp

/-- **L1 (KEEP split mode).** If `Q` is an isometry then for the zero-padded factors
`Q' = [Q 0]`, `R' = [R; 0]`: `Q' * R' = Q * R`, and `P = Q'ᴴ * Q'` is an orthogonal projector
(`P * P = P`, `Pᴴ = P`), i.e. `Q'` is a partial isometry. Used by C11 (KEEP mode) and by the
partial-isometry version of the local step (C06/C07). -/
theorem partial_isometry_pad [Fintype l] [Fintype m] [Fintype p] [DecidableEq m]
    (Q : Matrix l m R) (T : Matrix m n R) (hQ : Qᴴ * Q = 1) :
    fromCols Q (0 : Matrix l p R) * fromRows T (0 : Matrix p n R) = Q * T ∧
    ((fromCols Q (0 : Matrix l p R))ᴴ * fromCols Q (0 : Matrix l p R)) *
      ((fromCols Q (0 : Matrix l p R))ᴴ * fromCols Q (0 : Matrix l p R))
        = (fromCols Q (0 : Matrix l p R))ᴴ * fromCols Q (0 : Matrix l p R) ∧
    ((fromCols Q (0 : Matrix l p R))ᴴ * fromCols Q (0 : Matrix l p R))ᴴ
        = (fromCols Q (0 : Matrix l p R))ᴴ * fromCols Q (0 : Matrix l p R) := by
  refine ⟨pad_mul_pad Q T, ?_, ?_⟩
  · rw [pad_gram Q hQ, fromBlocks_multiply]
    simp
  · rw [conjTranspose_mul, conjTranspose_conjTranspose]

/-- A padded isometry is a partial isometry in the usual sense `Q' * Q'ᴴ * Q' = Q'`. -/
theorem partial_isometry_pad_mul [Fintype l] [Fintype m] [Fintype p] [DecidableEq m]
    (Q : Matrix l m R) (hQ : Qᴴ * Q = 1) :
    fromCols Q (0 : Matrix l p R) * ((fromCols Q (0 : Matrix l p R))ᴴ *
      fromCols Q (0 : Matrix l p R)) = fromCols Q (0 : Matrix l p R) := by
  rw [pad_gram Q hQ, fromCols_mul_fromBlocks]
  simp

end Iso

section Rank

variable {F : Type*} [Field F]
variable {m k n : Type*} [Fintype k] [Fintype n]

/-- **L6.** The rank of a product is bounded by the inner dimension. Used by C12: any exact
TTNO has bond dimension at least the operator Schmidt rank across that bond, because a bond of
dimension `k` factorises the matricised operator as `A * B` with inner dimension `k`. -/
theorem rank_mul_le_inner (A : Matrix m k F) (B : Matrix k n F) :
    (A * B).rank ≤ Fintype.card k :=
  (rank_mul_le_left A B).trans (rank_le_card_width A)

/-- **L6.** The rank of a product is bounded by the rank of either factor. -/
theorem rank_mul_le_min (A : Matrix m k F) (B : Matrix k n F) :
    (A * B).rank ≤ min A.rank B.rank :=
  rank_mul_le A B

end Rank

/-! ### Non-vacuity: concrete instances over `ℂ` -/

section Examples

/-- The `2 × 1` isometry `e₀`. -/
def e0 : Matrix (Fin 2) (Fin 1) ℂ := !![1; 0]

/-- A `2 × 2` unitary which is not the identity: the swap. -/
def swap2 : Matrix (Fin 2) (Fin 2) ℂ := !![0, 1; 1, 0]

theorem e0_isometry : e0ᴴ * e0 = 1 := by
  ext i j
  fin_cases i; fin_cases j
  simp [e0, Matrix.mul_apply, Fin.sum_univ_two]

theorem swap2_isometry : swap2ᴴ * swap2 = 1 := by
  ext i j
  fin_cases i <;> fin_cases j <;>
  simp [swap2, Matrix.mul_apply, Fin.sum_univ_two]

/-- `e0` is a genuine (non-square) isometry: `e0 * e0ᴴ ≠ 1`. -/
example : e0 * e0ᴴ ≠ 1 := by
  intro h
  have := congrFun (congrFun h 1) 1
  simp [e0, Matrix.mul_apply] at this

example : (swap2 * e0)ᴴ * (swap2 * e0) = 1 :=
  isometry_mul swap2 e0 swap2_isometry e0_isometry

example : (swap2 ⊗ₖ e0)ᴴ * (swap2 ⊗ₖ e0) = 1 :=
  isometry_kronecker swap2 e0 swap2_isometry e0_isometry

example (v : Fin 1 → ℂ) : star (e0 *ᵥ v) ⬝ᵥ (e0 *ᵥ v) = star v ⬝ᵥ v :=
  isometry_norm e0 e0_isometry v

example (T : Matrix (Fin 1) (Fin 3) ℂ) :
    fromCols e0 (0 : Matrix (Fin 2) (Fin 1) ℂ) * fromRows T (0 : Matrix (Fin 1) (Fin 3) ℂ)
      = e0 * T :=
  (partial_isometry_pad e0 T e0_isometry).1

/-- The projector of the padded `e0` is not the identity (so the padded matrix is a *proper*
partial isometry). -/
example : (fromCols e0 (0 : Matrix (Fin 2) (Fin 1) ℂ))ᴴ * fromCols e0 (0 : Matrix (Fin 2) (Fin 1) ℂ)
    ≠ 1 := by
  rw [pad_gram e0 e0_isometry]
  intro h
  have := congrFun (congrFun h (Sum.inr 0)) (Sum.inr 0)
  simp at this

/-- The rank bound is attained: `e0 * e0ᴴ` has inner dimension `1`. -/
example : (e0 * e0ᴴ).rank ≤ 1 := by
  simpa using rank_mul_le_inner e0 e0ᴴ

end Examples

end Ptn.Analysis
