/-
Abstract linear algebra and analysis used by several property proofs (DESIGN 3.4, L1-L4, L6).
This module only re-exports the parts.
-/
import Ptn.Common.AnalysisIso
import Ptn.Common.AnalysisExp
import Ptn.Common.AnalysisLocal
import Ptn.Common.AnalysisTelescope
import Ptn.Common.AnalysisProj
