/-
Abstract analysis, part L4: telescoping bounds for the error of a sequence of truncations.

Three shapes are provided (all used or usable by C10):

* `telescope_seq` / `telescope_orbit`: the error of each step is measured *along the orbit*
  (`‖x_{j-1} - P_j x_{j-1}‖ ≤ δ_j`); then `‖x₀ - x_k‖ ≤ Σ δ_j` (pure triangle inequality);
* `telescope_nonexpansive` / `telescope_contraction`: the error of each map is measured *at the
  initial point* (`‖x - P_j x‖ ≤ δ_j`) and the maps are contractions (`‖P_j‖ ≤ 1`); then
  `‖x - P_k ⋯ P₁ x‖ ≤ Σ δ_j` (the form stated in DESIGN 3.4);
* `telescope_scaled`: each step changes the state by `A_j d_j` with `‖A_j‖ ≤ N`, `‖d_j‖ ≤ δ_j`;
  then the total change is at most `N * Σ δ_j` (the form used by `trunc_error_bound_partial`).
-/
import Mathlib.Analysis.Normed.Operator.Basic
import Mathlib.Algebra.BigOperators.Intervals

namespace Ptn.Analysis

section Seq

variable {E : Type*} [SeminormedAddCommGroup E]

/-- **L4 (sequence form).** If consecutive members of a sequence differ by at most `δ j` then
the first and the `k`-th member differ by at most `Σ_{j<k} δ j`. Used by C10 (sweeping
truncation: `x j` is the state after `j` local truncations). -/
theorem telescope_seq (x : ℕ → E) (δ : ℕ → ℝ) (k : ℕ)
    (h : ∀ j, j < k → ‖x j - x (j + 1)‖ ≤ δ j) :
    ‖x 0 - x k‖ ≤ ∑ j ∈ Finset.range k, δ j := by
  induction k with
  | zero => simp
  | succ k ih =>
    rw [Finset.sum_range_succ]
    calc ‖x 0 - x (k + 1)‖ ≤ ‖x 0 - x k‖ + ‖x k - x (k + 1)‖ :=
          norm_sub_le_norm_sub_add_norm_sub _ _ _
      _ ≤ ∑ j ∈ Finset.range k, δ j + δ k :=
          add_le_add (ih fun j hj => h j (Nat.lt_succ_of_lt hj)) (h k (Nat.lt_succ_self k))

/-- The hypothesis of `telescope_orbit`: along the orbit `x, f₁ x, f₂ (f₁ x), …` the `j`-th map
moves the current point by at most `δ j`. -/
def OrbitBound {ι : Type*} (f : ι → E → E) (δ : ι → ℝ) : List ι → E → Prop
  | [], _ => True
  | i :: rest, x => ‖x - f i x‖ ≤ δ i ∧ OrbitBound f δ rest (f i x)

/-- **L4 (orbit form, for a list of maps).** Maps `f i`, `i ∈ L`, are applied one after the
other (head of the list first). If along the orbit each map moves the current point by at most
`δ i`, the end point is within `Σ δ i` of the start. No linearity or contractivity is needed.
Used by C10 with `f i` = truncation of bond `i`, `δ i` = discarded weight at the time of
truncation. -/
theorem telescope_orbit {ι : Type*} (f : ι → E → E) (δ : ι → ℝ) (L : List ι) (x : E)
    (h : OrbitBound f δ L x) :
    ‖x - L.foldl (fun y i => f i y) x‖ ≤ (L.map δ).sum := by
  induction L generalizing x with
  | nil => simp
  | cons i rest ih =>
    obtain ⟨h1, h2⟩ := h
    rw [List.foldl_cons, List.map_cons, List.sum_cons]
    calc ‖x - rest.foldl (fun y i => f i y) (f i x)‖
        ≤ ‖x - f i x‖ + ‖f i x - rest.foldl (fun y i => f i y) (f i x)‖ :=
          norm_sub_le_norm_sub_add_norm_sub _ _ _
      _ ≤ δ i + (rest.map δ).sum := add_le_add h1 (ih (f i x) h2)

/-- **L4 (initial-point form, non-expansive maps).** If every map `f i` is non-expansive and
moves the *initial* point `x` by at most `δ i`, then the composition of all of them (head of
the list applied first) moves `x` by at most `Σ δ i`. -/
theorem telescope_nonexpansive {ι : Type*} (f : ι → E → E) (δ : ι → ℝ) (L : List ι) (x : E)
    (hf : ∀ i ∈ L, ∀ y z, ‖f i y - f i z‖ ≤ ‖y - z‖)
    (hx : ∀ i ∈ L, ‖x - f i x‖ ≤ δ i) :
    ‖x - L.foldl (fun y i => f i y) x‖ ≤ (L.map δ).sum := by
  induction L using List.reverseRecOn with
  | nil => simp
  | append_singleton L i ih =>
    have hi : i ∈ L ++ [i] := by simp
    have ih' := ih (fun j hj => hf j (List.mem_append_left _ hj))
      (fun j hj => hx j (List.mem_append_left _ hj))
    rw [List.foldl_append, List.foldl_cons, List.foldl_nil, List.map_append, List.sum_append,
      List.map_cons, List.map_nil, List.sum_cons, List.sum_nil, add_zero]
    calc ‖x - f i (L.foldl (fun y i => f i y) x)‖
        ≤ ‖x - f i x‖ + ‖f i x - f i (L.foldl (fun y i => f i y) x)‖ :=
          norm_sub_le_norm_sub_add_norm_sub _ _ _
      _ ≤ δ i + ‖x - L.foldl (fun y i => f i y) x‖ := add_le_add (hx i hi) (hf i hi _ _)
      _ ≤ δ i + (L.map δ).sum := by gcongr
      _ = (L.map δ).sum + δ i := add_comm _ _

end Seq

section Linear

variable {𝕜 : Type*} [NontriviallyNormedField 𝕜]
variable {E : Type*} [SeminormedAddCommGroup E] [NormedSpace 𝕜 E]
variable {F : Type*} [SeminormedAddCommGroup F] [NormedSpace 𝕜 F]

/-- A continuous linear map of norm at most one is non-expansive. -/
theorem contraction_nonexpansive (P : E →L[𝕜] E) (hP : ‖P‖ ≤ 1) (y z : E) :
    ‖P y - P z‖ ≤ ‖y - z‖ := by
  rw [← map_sub]
  exact (P.le_opNorm _).trans (mul_le_of_le_one_left (norm_nonneg _) hP)

/-- **L4 (as stated in DESIGN 3.4).** Contractions `P₁, …, P_k` (`‖P_j‖ ≤ 1`, e.g. orthogonal
projectors onto the kept singular subspaces) each moving `x` by at most `δ_j`
(`‖x - P_j x‖ ≤ δ_j`): then `‖x - P_k ⋯ P₁ x‖ ≤ Σ δ_j`. The list holds pairs `(P_j, δ_j)`, the
head of the list is applied first. Used by C10 (`trunc_error_bound`). -/
theorem telescope_contraction (L : List ((E →L[𝕜] E) × ℝ)) (x : E)
    (h : ∀ Pd ∈ L, ‖Pd.1‖ ≤ 1 ∧ ‖x - Pd.1 x‖ ≤ Pd.2) :
    ‖x - L.foldl (fun y Pd => Pd.1 y) x‖ ≤ (L.map Prod.snd).sum :=
  telescope_nonexpansive (fun Pd : (E →L[𝕜] E) × ℝ => (Pd.1 : E → E)) Prod.snd L x
    (fun Pd hPd => contraction_nonexpansive Pd.1 (h Pd hPd).1) (fun Pd hPd => (h Pd hPd).2)

/-- **L4 (orbit form for continuous linear maps).** Pairs `(P_j, δ_j)`; along the orbit
`x_j = P_j x_{j-1}` each step satisfies `‖x_{j-1} - P_j x_{j-1}‖ ≤ δ_j`; then
`‖x₀ - x_k‖ ≤ Σ δ_j`. -/
theorem telescope_orbit_clm (L : List ((E →L[𝕜] E) × ℝ)) (x : E)
    (h : OrbitBound (fun Pd : (E →L[𝕜] E) × ℝ => (Pd.1 : E → E)) Prod.snd L x) :
    ‖x - L.foldl (fun y Pd => Pd.1 y) x‖ ≤ (L.map Prod.snd).sum :=
  telescope_orbit _ _ L x h

/-- **L4 (scaled form).** If the `j`-th local replacement changes the state by `A_j d_j` with
`‖A_j‖ ≤ N` (the rest of the network, as a linear map of the replaced tensor) and `‖d_j‖ ≤ δ_j`
(the discarded part), then the total change after `k` replacements is at most `N * Σ δ_j`.
Used by C10 (`trunc_error_bound_partial`, `N = max 1 ‖ψ‖`). -/
theorem telescope_scaled (x : ℕ → E) (A : ℕ → F →L[𝕜] E) (d : ℕ → F) (δ : ℕ → ℝ) (N : ℝ)
    (k : ℕ) (hx : ∀ j, j < k → x (j + 1) - x j = A j (d j))
    (hA : ∀ j, j < k → ‖A j‖ ≤ N) (hd : ∀ j, j < k → ‖d j‖ ≤ δ j) :
    ‖x k - x 0‖ ≤ N * ∑ j ∈ Finset.range k, δ j := by
  rw [norm_sub_rev, Finset.mul_sum]
  refine telescope_seq x (fun j => N * δ j) k fun j hj => ?_
  rw [norm_sub_rev, hx j hj]
  exact ((A j).le_opNorm _).trans
    (mul_le_mul (hA j hj) (hd j hj) (norm_nonneg _) ((norm_nonneg _).trans (hA j hj)))

end Linear

/-! ### Non-vacuity -/

section Examples

/-- Halving on `ℝ` as a continuous linear map; it is a contraction. -/
noncomputable def half : ℝ →L[ℝ] ℝ := (1 / 2 : ℝ) • ContinuousLinearMap.id ℝ ℝ

theorem half_apply (y : ℝ) : half y = y / 2 := by
  simp [half]; ring

theorem half_norm_le : ‖half‖ ≤ 1 := by
  refine ContinuousLinearMap.opNorm_le_bound _ zero_le_one fun y => ?_
  rw [half_apply, one_mul, Real.norm_eq_abs, Real.norm_eq_abs, abs_div]
  have : |y| / |(2 : ℝ)| = |y| / 2 := by norm_num
  rw [this]
  linarith [abs_nonneg y]

/-- Two contractions each moving `x = 1` by `1/2`: the composition moves it by `3/4 ≤ 1`. -/
example : ‖(1 : ℝ) - [(half, (1 / 2 : ℝ)), (half, (1 / 2 : ℝ))].foldl (fun y Pd => Pd.1 y) 1‖
    ≤ ([(half, (1 / 2 : ℝ)), (half, (1 / 2 : ℝ))].map Prod.snd).sum := by
  refine telescope_contraction _ 1 fun Pd hPd => ?_
  have : Pd = (half, (1 / 2 : ℝ)) := by simpa using hPd
  subst this
  refine ⟨half_norm_le, ?_⟩
  rw [half_apply]
  norm_num

/-- Orbit form: `1 ↦ 1/2 ↦ 1/4`, step errors `1/2` and `1/4`. -/
example : ‖(1 : ℝ) - [(half, (1 / 2 : ℝ)), (half, (1 / 4 : ℝ))].foldl (fun y Pd => Pd.1 y) 1‖
    ≤ ([(half, (1 / 2 : ℝ)), (half, (1 / 4 : ℝ))].map Prod.snd).sum := by
  refine telescope_orbit_clm _ 1 ?_
  simp only [OrbitBound, half_apply, and_true]
  norm_num

/-- Sequence form with a geometric sequence. -/
example (k : ℕ) : ‖(1 / 2 : ℝ) ^ 0 - (1 / 2 : ℝ) ^ k‖
    ≤ ∑ j ∈ Finset.range k, (1 / 2 : ℝ) ^ (j + 1) := by
  refine telescope_seq (fun j => (1 / 2 : ℝ) ^ j) (fun j => (1 / 2 : ℝ) ^ (j + 1)) k fun j _ => ?_
  rw [pow_succ, Real.norm_eq_abs]
  have h : (0 : ℝ) ≤ (1 / 2) ^ j := by positivity
  rw [abs_of_nonneg (by linarith)]
  linarith

/-- Scaled form: every step adds `half 2 = 1`; `‖half‖ ≤ 1`, `‖2‖ ≤ 2`. -/
example (k : ℕ) : ‖((k : ℕ) : ℝ) - ((0 : ℕ) : ℝ)‖ ≤ 1 * ∑ _j ∈ Finset.range k, (2 : ℝ) := by
  refine telescope_scaled (𝕜 := ℝ) (fun j : ℕ => (j : ℝ)) (fun _ => half) (fun _ => (2 : ℝ))
    (fun _ => (2 : ℝ)) 1 k (fun j _ => ?_) (fun _ _ => half_norm_le) (fun _ _ => ?_)
  · rw [half_apply]; push_cast; ring
  · norm_num

end Examples

end Ptn.Analysis
