import Ptn.Common.EinsumNet
/-! Substitution of an expression for a leaf (B75).

A leaf of a contraction program is addressed by a path (`false`: left operand, `true`: right operand).
`Expr.sb_subst e p x` puts the expression `x` in the place of the leaf at `p`.  If `x` evaluates to the
leaf's tensor, has the leaf's legs as free legs and its other ("inner") labels do not occur in `e`, then

* `Expr.sb_eval_subst`   the value of the program is unchanged (every assignment, no well-formedness needed);
* `Expr.sb_free_subst`   the free legs are unchanged;
* `Expr.sb_binds_subst`  the binding record is the outer record followed by the inner record, up to order;
* `Expr.sb_swf_subst`    strong well-formedness is kept;
* `Expr.sb_eval_dependsOn_free` the value of a well-formed program reads only its free legs;
* `Expr.sb_leafProd_subst` the product of the leaves: the leaf's factor is replaced by the product of `x`'s leaves.

Any commutative semiring, any size. -/
namespace Ptn.Ein

set_option linter.unusedSectionVars false
variable {L : Type} [DecidableEq L] {R : Type} [CommSemiring R]

namespace Expr

/-- the leaf at a path (`none`: the path does not end in a leaf) -/
def sb_at : Expr L R → List Bool → Option (List L × (Asg L → R))
  | leaf legs v, [] => some (legs, v)
  | leaf _ _, _ :: _ => none
  | dot _ _ _, [] => none
  | dot a _ _, false :: p => a.sb_at p
  | dot _ b _, true :: p => b.sb_at p

/-- replace the leaf at a path by an expression (unchanged if the path does not end in a leaf) -/
def sb_subst : Expr L R → List Bool → Expr L R → Expr L R
  | leaf _ _, [], x => x
  | leaf legs v, _ :: _, _ => leaf legs v
  | dot a b ps, [], _ => dot a b ps
  | dot a b ps, false :: p, x => dot (a.sb_subst p x) b ps
  | dot a b ps, true :: p, x => dot a (b.sb_subst p x) ps

/-- **Substitution keeps the value.**  Replacing a leaf by an expression that evaluates to the leaf's
tensor does not change what the program computes. -/
theorem sb_eval_subst (dim : L → Nat) (e x : Expr L R) (p : List Bool) (legs : List L) (v : Asg L → R)
    (hat : e.sb_at p = some (legs, v)) (hx : ∀ σ, x.eval dim σ = v σ) (σ : Asg L) :
    (e.sb_subst p x).eval dim σ = e.eval dim σ := by
  induction e generalizing p σ with
  | leaf lg w =>
    cases p with
    | nil =>
      simp only [sb_at, Option.some.injEq, Prod.mk.injEq] at hat
      obtain ⟨_, rfl⟩ := hat
      simp only [sb_subst, eval]; exact hx σ
    | cons c p => simp [sb_at] at hat
  | dot a b ps iha ihb =>
    cases p with
    | nil => simp [sb_at] at hat
    | cons c p =>
      cases c with
      | false =>
        simp only [sb_at] at hat
        simp only [sb_subst, eval]
        apply sumPairs_congr; intro τ; rw [iha p hat]
      | true =>
        simp only [sb_at] at hat
        simp only [sb_subst, eval]
        apply sumPairs_congr; intro τ; rw [ihb p hat]

/-- the free legs are unchanged when the replacement has the leaf's legs as free legs -/
theorem sb_free_subst (e x : Expr L R) (p : List Bool) (legs : List L) (v : Asg L → R)
    (hat : e.sb_at p = some (legs, v)) (hx : x.free = legs) :
    (e.sb_subst p x).free = e.free := by
  induction e generalizing p with
  | leaf lg w =>
    cases p with
    | nil =>
      simp only [sb_at, Option.some.injEq, Prod.mk.injEq] at hat
      obtain ⟨rfl, _⟩ := hat
      simp only [sb_subst, free]; exact hx
    | cons c p => simp [sb_at] at hat
  | dot a b ps iha ihb =>
    cases p with
    | nil => simp [sb_at] at hat
    | cons c p =>
      cases c with
      | false => simp only [sb_at] at hat; simp only [sb_subst, free, iha p hat]
      | true => simp only [sb_at] at hat; simp only [sb_subst, free, ihb p hat]

/-- **The record gains the inner record.**  The binding record after the substitution is the outer
record followed by the record of the replacement, up to order. -/
theorem sb_binds_subst (e x : Expr L R) (p : List Bool) (legs : List L) (v : Asg L → R)
    (hat : e.sb_at p = some (legs, v)) :
    (e.sb_subst p x).binds.Perm (e.binds ++ x.binds) := by
  induction e generalizing p with
  | leaf lg w =>
    cases p with
    | nil => simp [sb_subst, binds]
    | cons c p => simp [sb_at] at hat
  | dot a b ps iha ihb =>
    cases p with
    | nil => simp [sb_at] at hat
    | cons c p =>
      cases c with
      | false =>
        simp only [sb_at] at hat
        simp only [sb_subst, binds, List.append_assoc]
        apply List.Perm.append_left
        refine ((iha p hat).append_right _).trans ?_
        rw [List.append_assoc]
        exact List.Perm.append_left _ List.perm_append_comm
      | true =>
        simp only [sb_at] at hat
        simp only [sb_subst, binds, List.append_assoc]
        apply List.Perm.append_left
        exact List.Perm.append_left _ (ihb p hat)

/-- the legs of the addressed leaf are labels of the expression -/
theorem sb_at_labels (e : Expr L R) (p : List Bool) (legs : List L) (v : Asg L → R)
    (hat : e.sb_at p = some (legs, v)) : ∀ l ∈ legs, l ∈ e.labels := by
  induction e generalizing p with
  | leaf lg w =>
    cases p with
    | nil =>
      simp only [sb_at, Option.some.injEq, Prod.mk.injEq] at hat
      obtain ⟨rfl, _⟩ := hat
      intro l hl; exact hl
    | cons c p => simp [sb_at] at hat
  | dot a b ps iha ihb =>
    cases p with
    | nil => simp [sb_at] at hat
    | cons c p =>
      cases c with
      | false =>
        simp only [sb_at] at hat
        intro l hl; simp only [labels, List.mem_append]; exact Or.inl (iha p hat l hl)
      | true =>
        simp only [sb_at] at hat
        intro l hl; simp only [labels, List.mem_append]; exact Or.inr (ihb p hat l hl)

/-- labels after the substitution: old labels or labels of the replacement -/
theorem sb_labels_subst (e x : Expr L R) (p : List Bool) :
    ∀ l ∈ (e.sb_subst p x).labels, l ∈ e.labels ∨ l ∈ x.labels := by
  induction e generalizing p with
  | leaf lg w =>
    cases p with
    | nil => intro l hl; exact Or.inr hl
    | cons c p => intro l hl; exact Or.inl hl
  | dot a b ps iha ihb =>
    cases p with
    | nil => intro l hl; exact Or.inl hl
    | cons c p =>
      cases c with
      | false =>
        intro l hl
        simp only [sb_subst, labels, List.mem_append] at hl ⊢
        rcases hl with h | h
        · rcases iha p l h with h' | h'
          · exact Or.inl (Or.inl h')
          · exact Or.inr h'
        · exact Or.inl (Or.inr h)
      | true =>
        intro l hl
        simp only [sb_subst, labels, List.mem_append] at hl ⊢
        rcases hl with h | h
        · exact Or.inl (Or.inl h)
        · rcases ihb p l h with h' | h'
          · exact Or.inl (Or.inr h')
          · exact Or.inr h'

/-- **Substitution keeps strong well-formedness.**  The replacement is strongly well-formed, its free
legs are the leaf's legs, and its inner labels (those that are not legs of the leaf) do not occur in `e`. -/
theorem sb_swf_subst (e x : Expr L R) (p : List Bool) (legs : List L) (v : Asg L → R)
    (hat : e.sb_at p = some (legs, v)) (he : e.SWF) (hx : x.SWF) (hfree : x.free = legs)
    (hfresh : ∀ l ∈ x.labels, l ∉ legs → l ∉ e.labels) :
    (e.sb_subst p x).SWF := by
  induction e generalizing p with
  | leaf lg w =>
    cases p with
    | nil => exact hx
    | cons c p => simp [sb_at] at hat
  | dot a b ps iha ihb =>
    cases p with
    | nil => simp [sb_at] at hat
    | cons c p =>
      obtain ⟨ha, hb, hdis, hps, hn1, hn2⟩ := he
      cases c with
      | false =>
        simp only [sb_at] at hat
        have hfa : ∀ l ∈ x.labels, l ∉ legs → l ∉ a.labels := fun l hl hn hla =>
          hfresh l hl hn (by simp [labels, hla])
        refine ⟨iha p hat ha hfa, hb, ?_, ?_, hn1, hn2⟩
        · intro l hl hlb
          rcases sb_labels_subst a x p l hl with h | h
          · exact hdis l h hlb
          · by_cases hlg : l ∈ legs
            · exact hdis l (sb_at_labels a p legs v hat l hlg) hlb
            · exact hfresh l h hlg (by simp [labels, hlb])
        · intro q hq
          rw [sb_free_subst a x p legs v hat hfree]
          exact hps q hq
      | true =>
        simp only [sb_at] at hat
        have hfb : ∀ l ∈ x.labels, l ∉ legs → l ∉ b.labels := fun l hl hn hlb =>
          hfresh l hl hn (by simp [labels, hlb])
        refine ⟨ha, ihb p hat hb hfb, ?_, ?_, hn1, hn2⟩
        · intro l hla hl
          rcases sb_labels_subst b x p l hl with h | h
          · exact hdis l hla h
          · by_cases hlg : l ∈ legs
            · exact hdis l hla (sb_at_labels b p legs v hat l hlg)
            · exact hfresh l h hlg (by simp [labels, hla])
        · intro q hq
          rw [sb_free_subst b x p legs v hat hfree]
          exact hps q hq

/-- the leaves after the substitution, as a product: the factor of the addressed leaf is replaced by the
product of the leaves of the replacement.  Stated multiplicatively: `leafProd e · leafProd x =
leafProd (subst) · v`. -/
theorem sb_leafProd_subst (e x : Expr L R) (p : List Bool) (legs : List L) (v : Asg L → R)
    (hat : e.sb_at p = some (legs, v)) (σ : Asg L) :
    (e.sb_subst p x).leafProd σ * v σ = e.leafProd σ * x.leafProd σ := by
  induction e generalizing p with
  | leaf lg w =>
    cases p with
    | nil =>
      simp only [sb_at, Option.some.injEq, Prod.mk.injEq] at hat
      obtain ⟨_, rfl⟩ := hat
      simp only [sb_subst, leafProd, leaves, List.map_cons, List.map_nil, prodL, mul_one]
      exact mul_comm _ _
    | cons c p => simp [sb_at] at hat
  | dot a b ps iha ihb =>
    cases p with
    | nil => simp [sb_at] at hat
    | cons c p =>
      cases c with
      | false =>
        simp only [sb_at] at hat
        simp only [sb_subst, leafProd_dot]
        rw [mul_right_comm, iha p hat, mul_right_comm]
      | true =>
        simp only [sb_at] at hat
        simp only [sb_subst, leafProd_dot]
        rw [mul_assoc, ihb p hat, mul_assoc]

/-- every label of an expression is a free leg or a bound leg -/
theorem sb_label_free_or_bound (e : Expr L R) : ∀ l ∈ e.labels, l ∈ e.free ∨ l ∈ pairLegs e.binds := by
  induction e with
  | leaf legs v => intro l hl; exact Or.inl hl
  | dot a b ps iha ihb =>
    intro l hl
    simp only [labels, List.mem_append] at hl
    simp only [free, binds, mem_pairLegs_append, List.mem_append, List.mem_filter, Bool.not_eq_true',
      List.contains_eq_mem, decide_eq_false_iff_not]
    rcases hl with h | h
    · rcases iha l h with h' | h'
      · by_cases hp : l ∈ ps.map Prod.fst
        · exact Or.inr (Or.inl (by simp only [pairLegs, List.mem_append]; exact Or.inl hp))
        · exact Or.inl (Or.inl ⟨h', hp⟩)
      · exact Or.inr (Or.inr (Or.inl h'))
    · rcases ihb l h with h' | h'
      · by_cases hp : l ∈ ps.map Prod.snd
        · exact Or.inr (Or.inl (by simp only [pairLegs, List.mem_append]; exact Or.inr hp))
        · exact Or.inl (Or.inr ⟨h', hp⟩)
      · exact Or.inr (Or.inr (Or.inr h'))

/-- **The value of a well-formed program reads only its free legs** (so it can serve as a leaf with those legs). -/
theorem sb_eval_dependsOn_free (dim : L → Nat) (e : Expr L R) (h : e.WF) :
    DependsOn (· ∈ e.free) (e.eval dim) := by
  intro σ τ hst
  rw [eval_eq_full dim e h, eval_eq_full dim e h]
  refine ((sumPairs_dependsOn dim e.binds (leafProd_dependsOn e h)).mono (S' := (· ∈ e.free)) ?_) σ τ hst
  intro l hl
  rcases sb_label_free_or_bound e l hl.1 with h' | h'
  · exact h'
  · exact absurd h' hl.2

/-- **Substitution, all in one.**  Strongly well-formed outer program `e`, strongly well-formed
replacement `x` for the leaf at `p` with the leaf's legs as free legs, the leaf's value, and fresh inner
labels: the result is strongly well-formed, has the same free legs, the record `e.binds ++ x.binds` up to
order (no leg bound twice), and the same value at every assignment. -/
theorem sb_subst_spec (dim : L → Nat) (e x : Expr L R) (p : List Bool) (legs : List L) (v : Asg L → R)
    (hat : e.sb_at p = some (legs, v)) (he : e.SWF) (hx : x.SWF) (hfree : x.free = legs)
    (hval : ∀ σ, x.eval dim σ = v σ)
    (hfresh : ∀ l ∈ x.labels, l ∉ legs → l ∉ e.labels) :
    (e.sb_subst p x).SWF ∧ (e.sb_subst p x).free = e.free ∧
    (e.sb_subst p x).binds.Perm (e.binds ++ x.binds) ∧
    (pairLegs (e.sb_subst p x).binds).Nodup ∧
    ∀ σ, (e.sb_subst p x).eval dim σ = e.eval dim σ := by
  have hs := sb_swf_subst e x p legs v hat he hx hfree hfresh
  exact ⟨hs, sb_free_subst e x p legs v hat hfree, sb_binds_subst e x p legs v hat,
    binds_nodup _ hs, sb_eval_subst dim e x p legs v hat hval⟩

end Expr

/-! ### non-vacuity: a concrete instance of every hypothesis -/

section Example

/-- inner program: `Q[0,3] · Rm[4,1]` over the bond `(3,4)` -/
private def sbX : Expr Nat Int :=
  .dot (.leaf [0, 3] (fun σ => (σ 0 + 2 * σ 3 + 1 : Nat))) (.leaf [4, 1] (fun σ => (3 * σ 4 + σ 1 + 1 : Nat))) [(3, 4)]

/-- outer program: the leaf `A[0,1]` (the value of `sbX`) contracted with `w[2]` over `(1,2)` -/
private def sbE : Expr Nat Int :=
  .dot (.leaf [0, 1] (sbX.eval (fun _ => 2))) (.leaf [2] (fun σ => (σ 2 + 5 : Nat))) [(1, 2)]

private theorem sbX_swf : sbX.SWF := by
  refine ⟨⟨by decide, ?_⟩, ⟨by decide, ?_⟩, by decide, by decide, by decide, by decide⟩
  · intro σ τ h; simp only; rw [h 0 (by simp), h 3 (by simp)]
  · intro σ τ h; simp only; rw [h 4 (by simp), h 1 (by simp)]

example : let dim : Nat → Nat := fun _ => 2
    (sbE.sb_subst [false] sbX).SWF ∧ (sbE.sb_subst [false] sbX).free = sbE.free ∧
    (sbE.sb_subst [false] sbX).binds.Perm (sbE.binds ++ sbX.binds) ∧
    (Expr.pairLegs (sbE.sb_subst [false] sbX).binds).Nodup ∧
    ∀ σ, (sbE.sb_subst [false] sbX).eval dim σ = sbE.eval dim σ := by
  intro dim
  refine Expr.sb_subst_spec dim sbE sbX [false] [0, 1] (sbX.eval dim) rfl ?_ sbX_swf (by decide)
    (fun _ => rfl) (by decide)
  refine ⟨⟨by decide, ?_⟩, ⟨by decide, ?_⟩, by decide, by decide, by decide, by decide⟩
  · have h := sumPairs_dependsOn (R := Int) dim [(3, 4)]
      (S := fun l => l ∈ [0, 3, 4, 1])
      (f := fun σ => ((σ 0 + 2 * σ 3 + 1 : Nat) : Int) * ((3 * σ 4 + σ 1 + 1 : Nat) : Int))
      (by intro σ τ h; simp only; rw [h 0 (by simp), h 3 (by simp), h 4 (by simp), h 1 (by simp)])
    refine h.mono ?_
    intro l hl
    simp only [Expr.pairLegs, List.map_cons, List.map_nil, List.mem_cons, List.mem_append] at hl ⊢
    tauto
  · intro σ τ h; simp only; rw [h 2 (by simp)]

/-- the substituted program really is the three-leaf program with the two-pair record -/
example : (sbE.sb_subst [false] sbX).binds = [(1, 2), (3, 4)] := by decide

end Example

end Ptn.Ein
