/-
Abstract linear algebra behind the BUG integrators (property C09).

`E : Matrix N d ℂ` with `Eᴴ * E = 1` is an orthonormal basis (as columns) of a subspace of the
full state space; `E * Eᴴ` is the orthogonal projector onto it and `Eᴴ *ᵥ ψ` are the Galerkin
coefficients of a full state `ψ` in that basis.

* (P1) rank-adaptive BUG: the augmented basis contains the old one, so the Galerkin initial
  value reproduces the old state exactly (`galerkin_initial_value`);
* (P2) fixed-rank BUG: projecting onto the new basis never increases the norm
  (`projection_nonexpansive`), hence the whole step is norm non-increasing
  (`fixed_rank_step_nonexpansive`).
-/
import Ptn.Common.AnalysisIso
import Ptn.Common.AnalysisLocal
import Mathlib.LinearAlgebra.Matrix.DotProduct
import Mathlib.Analysis.Complex.Order
import Mathlib.Analysis.RCLike.Basic

namespace Ptn.Analysis

open Matrix NormedSpace

section Galerkin

variable {R : Type*} [CommRing R] [StarRing R]
variable {N d d' : Type*} [Fintype N] [Fintype d] [Fintype d']

/-- **P1 (C09, rank-adaptive BUG).** If the orthogonal projector `Enew * Enewᴴ` onto the range
of the new basis fixes the range of the old basis (`Enew * Enewᴴ * Eold = Eold`, "the new basis
contains the old one"), then the Galerkin initial value `Enewᴴ (Eold φ)` re-expanded in the new
basis is the old state itself: nothing is lost by changing to the augmented basis.
(Only the containment is needed here; `Enewᴴ * Enew = 1` is what makes `Enew * Enewᴴ` the
orthogonal projector and is used in `galerkin_contains_of_factor`.) -/
theorem galerkin_initial_value (Enew : Matrix N d' R) (Eold : Matrix N d R)
    (hcont : Enew * Enewᴴ * Eold = Eold) (φ : d → R) :
    Enew *ᵥ (Enewᴴ *ᵥ (Eold *ᵥ φ)) = Eold *ᵥ φ := by
  rw [mulVec_mulVec, mulVec_mulVec, hcont]

omit [Fintype d] in
/-- **P1, sufficient condition.** If the old basis is expressed in the new one,
`Eold = Enew * M` (this is what the augmentation `Enew = orth [Eold, Eupdated]` provides, with
`M = Enewᴴ * Eold`), and `Enew` is an isometry, then the containment hypothesis of
`galerkin_initial_value` holds. -/
theorem galerkin_contains_of_factor [DecidableEq d'] (Enew : Matrix N d' R) (Eold : Matrix N d R)
    (M : Matrix d' d R) (hE : Enewᴴ * Enew = 1) (hM : Eold = Enew * M) :
    Enew * Enewᴴ * Eold = Eold := by
  rw [hM, Matrix.mul_assoc, ← Matrix.mul_assoc Enewᴴ, hE, Matrix.one_mul]

/-- **P1, factorised form.** `Enewᴴ * Enew = 1` and `Eold = Enew * M` give
`Enew (Enewᴴ (Eold φ)) = Eold φ`. -/
theorem galerkin_initial_value_of_factor [DecidableEq d'] (Enew : Matrix N d' R)
    (Eold : Matrix N d R) (M : Matrix d' d R) (hE : Enewᴴ * Enew = 1) (hM : Eold = Enew * M)
    (φ : d → R) :
    Enew *ᵥ (Enewᴴ *ᵥ (Eold *ᵥ φ)) = Eold *ᵥ φ :=
  galerkin_initial_value Enew Eold (galerkin_contains_of_factor Enew Eold M hE hM) φ

/-- **P1, coefficients.** In the factorised situation the Galerkin coefficients are `M φ`. -/
theorem galerkin_coefficients_of_factor [DecidableEq d'] (Enew : Matrix N d' R)
    (Eold : Matrix N d R) (M : Matrix d' d R) (hE : Enewᴴ * Enew = 1) (hM : Eold = Enew * M)
    (φ : d → R) :
    Enewᴴ *ᵥ (Eold *ᵥ φ) = M *ᵥ φ := by
  rw [hM, mulVec_mulVec, ← Matrix.mul_assoc, hE, Matrix.one_mul]

end Galerkin

section Projection

variable {N d : Type*} [Fintype N] [Fintype d] [DecidableEq d]

/-- **P2, Pythagoras.** For an isometry `E` and any `ψ`, with residual `r = ψ - E (Eᴴ ψ)`:
`‖ψ‖² = ‖Eᴴ ψ‖² + ‖r‖²`. -/
theorem projection_pythagoras (E : Matrix N d ℂ) (hE : Eᴴ * E = 1) (ψ : N → ℂ) :
    star ψ ⬝ᵥ ψ = star (Eᴴ *ᵥ ψ) ⬝ᵥ (Eᴴ *ᵥ ψ)
      + star (ψ - E *ᵥ (Eᴴ *ᵥ ψ)) ⬝ᵥ (ψ - E *ᵥ (Eᴴ *ᵥ ψ)) := by
  have h1 : star (Eᴴ *ᵥ ψ) ⬝ᵥ (Eᴴ *ᵥ ψ) = star ψ ⬝ᵥ (E *ᵥ (Eᴴ *ᵥ ψ)) := by
    rw [star_mulVec, conjTranspose_conjTranspose, ← dotProduct_mulVec]
  have h2 : star (E *ᵥ (Eᴴ *ᵥ ψ)) ⬝ᵥ ψ = star ψ ⬝ᵥ (E *ᵥ (Eᴴ *ᵥ ψ)) := by
    rw [star_mulVec, star_mulVec, conjTranspose_conjTranspose, ← dotProduct_mulVec,
      ← dotProduct_mulVec]
  have h3 : star (E *ᵥ (Eᴴ *ᵥ ψ)) ⬝ᵥ (E *ᵥ (Eᴴ *ᵥ ψ)) = star ψ ⬝ᵥ (E *ᵥ (Eᴴ *ᵥ ψ)) := by
    rw [isometry_norm E hE, h1]
  rw [star_sub, sub_dotProduct, dotProduct_sub, dotProduct_sub, h1, h2, h3]
  ring

/-- **P2 (C09, fixed-rank BUG).** Projecting a state onto an orthonormal basis never increases
its norm: `‖Eᴴ ψ‖² ≤ ‖ψ‖²` (real parts of the squared norms; both are real). -/
theorem projection_nonexpansive (E : Matrix N d ℂ) (hE : Eᴴ * E = 1) (ψ : N → ℂ) :
    RCLike.re (star (Eᴴ *ᵥ ψ) ⬝ᵥ (Eᴴ *ᵥ ψ)) ≤ RCLike.re (star ψ ⬝ᵥ ψ) := by
  open scoped ComplexOrder in
  have hr : 0 ≤ star (ψ - E *ᵥ (Eᴴ *ᵥ ψ)) ⬝ᵥ (ψ - E *ᵥ (Eᴴ *ᵥ ψ)) :=
    dotProduct_star_self_nonneg _
  have hr' := (Complex.nonneg_iff.mp hr).1
  rw [projection_pythagoras E hE ψ]
  simp only [RCLike.re_to_complex, Complex.add_re]
  linarith

/-- **P2.** Same with `Complex.re`. -/
theorem projection_nonexpansive' (E : Matrix N d ℂ) (hE : Eᴴ * E = 1) (ψ : N → ℂ) :
    (star (Eᴴ *ᵥ ψ) ⬝ᵥ (Eᴴ *ᵥ ψ)).re ≤ (star ψ ⬝ᵥ ψ).re := by
  simpa only [RCLike.re_to_complex] using projection_nonexpansive E hE ψ

/-- **P2.** The orthogonal projector `E Eᴴ` itself is non-expansive: `‖E Eᴴ ψ‖² ≤ ‖ψ‖²`. -/
theorem projector_nonexpansive (E : Matrix N d ℂ) (hE : Eᴴ * E = 1) (ψ : N → ℂ) :
    RCLike.re (star (E *ᵥ (Eᴴ *ᵥ ψ)) ⬝ᵥ (E *ᵥ (Eᴴ *ᵥ ψ))) ≤ RCLike.re (star ψ ⬝ᵥ ψ) := by
  rw [isometry_norm E hE]
  exact projection_nonexpansive E hE ψ

/-- **P2, corollary (C09, fixed-rank BUG step).** Project the state `ψ` onto the new basis `E`,
evolve the coefficients with the effective Hamiltonian `Eᴴ H E` (`H` Hermitian, `t` real) and
re-expand: the norm does not increase. (The evolution itself preserves the norm by
`local_flow_norm`; only the projection can lose norm.) -/
theorem fixed_rank_step_nonexpansive (E : Matrix N d ℂ) (H : Matrix N N ℂ)
    (hE : Eᴴ * E = 1) (hH : Hᴴ = H) (t : ℝ) (ψ : N → ℂ) :
    RCLike.re (star (E *ᵥ (exp ((-Complex.I * (t : ℂ)) • (Eᴴ * H * E)) *ᵥ (Eᴴ *ᵥ ψ))) ⬝ᵥ
        (E *ᵥ (exp ((-Complex.I * (t : ℂ)) • (Eᴴ * H * E)) *ᵥ (Eᴴ *ᵥ ψ))))
      ≤ RCLike.re (star ψ ⬝ᵥ ψ) := by
  rw [local_flow_norm E H hE hH t (Eᴴ *ᵥ ψ)]
  exact projector_nonexpansive E hE ψ

/-- **P2, corollary, equality case.** If `ψ` already lies in the range of `E` (`ψ = E φ`) the
fixed-rank step preserves the norm exactly. -/
theorem fixed_rank_step_norm_of_mem (E : Matrix N d ℂ) (H : Matrix N N ℂ)
    (hE : Eᴴ * E = 1) (hH : Hᴴ = H) (t : ℝ) (φ : d → ℂ) :
    star (E *ᵥ (exp ((-Complex.I * (t : ℂ)) • (Eᴴ * H * E)) *ᵥ (Eᴴ *ᵥ (E *ᵥ φ)))) ⬝ᵥ
        (E *ᵥ (exp ((-Complex.I * (t : ℂ)) • (Eᴴ * H * E)) *ᵥ (Eᴴ *ᵥ (E *ᵥ φ))))
      = star (E *ᵥ φ) ⬝ᵥ (E *ᵥ φ) := by
  rw [mulVec_mulVec φ Eᴴ E, hE, one_mulVec, local_flow_norm E H hE hH t φ]

end Projection

/-! ### Non-vacuity -/

section Examples

/-- P1 with a genuinely larger new basis: old basis `e0` (`2 × 1`), new basis `swap2` (`2 × 2`,
a unitary that is not the identity); `e0 = swap2 * (swap2ᴴ * e0)`. -/
example (φ : Fin 1 → ℂ) : swap2 *ᵥ (swap2ᴴ *ᵥ (e0 *ᵥ φ)) = e0 *ᵥ φ := by
  refine galerkin_initial_value_of_factor swap2 e0 (swap2ᴴ * e0) swap2_isometry ?_ φ
  ext i j
  fin_cases i <;> fin_cases j <;> simp [swap2, e0, Matrix.mul_apply, Fin.sum_univ_two]

/-- P1, rectangular new basis: old basis = first column of `emb32`, new basis `emb32`. -/
example (φ : Fin 1 → ℂ) :
    emb32 *ᵥ (emb32ᴴ *ᵥ ((emb32 * e0) *ᵥ φ)) = (emb32 * e0) *ᵥ φ :=
  galerkin_initial_value_of_factor emb32 (emb32 * e0) e0 emb32_isometry rfl φ

/-- The containment hypothesis is not automatic: `e0 e0ᴴ` does not fix the second basis vector. -/
example : e0 * e0ᴴ * swap2 ≠ swap2 := by
  intro h
  rw [Matrix.mul_assoc] at h
  have := congrFun (congrFun h 1) 0
  simp [e0, swap2, Matrix.mul_apply] at this

/-- P2 on the proper isometry `emb32` (its projector is not the identity, so the inequality can
be strict). -/
example (ψ : Fin 3 → ℂ) :
    RCLike.re (star (emb32ᴴ *ᵥ ψ) ⬝ᵥ (emb32ᴴ *ᵥ ψ)) ≤ RCLike.re (star ψ ⬝ᵥ ψ) :=
  projection_nonexpansive emb32 emb32_isometry ψ

/-- The inequality is strict for `ψ = (0,0,1)`: `‖emb32ᴴ ψ‖² = 0 < 1 = ‖ψ‖²`. -/
example : RCLike.re (star (emb32ᴴ *ᵥ ![0, 0, 1]) ⬝ᵥ (emb32ᴴ *ᵥ ![0, 0, 1]))
    < RCLike.re (star (![0, 0, 1] : Fin 3 → ℂ) ⬝ᵥ ![0, 0, 1]) := by
  have h : emb32ᴴ *ᵥ ![0, 0, 1] = 0 := by
    ext i
    fin_cases i <;> simp [emb32, mulVec, dotProduct, Fin.sum_univ_three]
  rw [h]
  simp [dotProduct, Fin.sum_univ_three]

example (t : ℝ) (ψ : Fin 3 → ℂ) :
    RCLike.re (star (emb32 *ᵥ (exp ((-Complex.I * (t : ℂ)) • (emb32ᴴ * ham3 * emb32)) *ᵥ
        (emb32ᴴ *ᵥ ψ))) ⬝ᵥ
        (emb32 *ᵥ (exp ((-Complex.I * (t : ℂ)) • (emb32ᴴ * ham3 * emb32)) *ᵥ (emb32ᴴ *ᵥ ψ))))
      ≤ RCLike.re (star ψ ⬝ᵥ ψ) :=
  fixed_rank_step_nonexpansive emb32 ham3 emb32_isometry ham3_hermitian t ψ

end Examples

end Ptn.Analysis
