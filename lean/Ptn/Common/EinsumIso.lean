import Ptn.Common.EinsumNet
/-! Canonical form at value level: the environment of the orthogonality centre is the identity.

The norm network `⟨ψ|ψ⟩` of a tree tensor network, seen from a centre node: every other node `n` carries
its tensor `T` and the (already conjugated) tensor `Tc` of the bra copy.  `T` has the leg `u` toward the
centre, `Tc` the leg `u'`; the open (physical) legs of `T` are bound to those of `Tc` (`phys`); for every
sub-tree hanging below `n` there is a leg `d` of `T` bound to the up-leg of the sub-tree's ket tensor and a
leg `d'` of `Tc` bound to the up-leg of its bra tensor.  `Sub` / `Kids` is that tree (a mutual inductive: any
number of children, any depth, any number of open legs per node).

The isometry condition toward the centre, in index form (`Sub.Canon`):
`Σ_{phys, (d, d') of every child} T · Tc = δ(u, u')`, for indices within the bond dimension.

* `Kids.absorb`               every canonical sub-tree drops out of any sum it is linked into;
* `Sub.env_eq_delta`          the contracted doubled sub-tree is `δ(u, u')`;
* `environment_is_identity`   the contracted environment of the centre is `Π δ(u_k, u_k')` over the centre's bonds;
* `embedding_isometry_of_canonical`  `Σ_phys E · Ec = Π δ`, `E` / `Ec` the ket / bra half of the environment;
* `centre_norm_eq_full_norm_value`   the norm network equals the norm of the centre tensor alone.

All over an arbitrary commutative semiring, all dimensions, all trees. -/
namespace Ptn.Ein

open Finset

set_option linter.unusedSectionVars false
set_option linter.unusedVariables false
variable {L : Type} [DecidableEq L] {R : Type} [CommSemiring R]

/-! ### generic lemmas on flat networks -/

theorem prodL_perm {xs ys : List R} (h : xs.Perm ys) : prodL xs = prodL ys := by
  induction h with
  | nil => rfl
  | cons x _ ih => simp only [prodL, ih]
  | swap x y l => simp only [prodL]; rw [← mul_assoc, ← mul_assoc, mul_comm y x]
  | trans _ _ ih1 ih2 => rw [ih1, ih2]

/-- the value of a flat network depends neither on the order of the binding record (no leg bound twice) nor
on the order of the leaves -/
theorem netValue_perm (dim : L → Nat) {bs bs' : List (L × L)} {ls ls' : List (Asg L → R)}
    (hb : bs.Perm bs') (hl : ls.Perm ls') (hnd : (Expr.pairLegs bs).Nodup) (σ : Asg L) :
    netValue dim bs ls σ = netValue dim bs' ls' σ := by
  unfold netValue
  rw [sumPairs_perm dim hb hnd]
  exact sumPairs_congr dim _ (fun τ => prodL_perm (hl.map _)) σ

/-- the value of a flat network reads only what its leaves read, minus the bound legs -/
theorem netValue_dependsOn (dim : L → Nat) (bs : List (L × L)) (ls : List (Asg L → R)) {S : L → Prop}
    (hls : ∀ f ∈ ls, DependsOn S f) : DependsOn S (netValue dim bs ls) :=
  (sumPairs_dependsOn dim bs (prodL_dependsOn ls hls)).mono (fun _ h => h.1)

/-- two networks that do not touch each other: the value of the union is the product of the values -/
theorem netValue_append (dim : L → Nat) (as bs : List (L × L)) (la lb : List (Asg L → R))
    {Sa Sb : L → Prop} (ha : ∀ f ∈ la, DependsOn Sa f) (hb : ∀ f ∈ lb, DependsOn Sb f)
    (hab : ∀ l ∈ Expr.pairLegs as, ¬ Sb l) (hba : ∀ l ∈ Expr.pairLegs bs, ¬ Sa l) (σ : Asg L) :
    netValue dim (as ++ bs) (la ++ lb) σ = netValue dim as la σ * netValue dim bs lb σ := by
  unfold netValue
  rw [sumPairs_append]
  have hPa := prodL_dependsOn la ha
  have hPb := prodL_dependsOn lb hb
  have h1 : ∀ τ, sumPairs dim bs (fun τ => prodL ((la ++ lb).map (fun f => f τ))) τ =
      prodL (la.map (fun f => f τ)) * sumPairs dim bs (fun τ => prodL (lb.map (fun f => f τ))) τ := by
    intro τ
    rw [← sumPairs_mul_left dim bs _ _ hPa hba τ]
    exact sumPairs_congr dim bs (fun ρ => by rw [List.map_append, prodL_append]) τ
  rw [sumPairs_congr dim as h1]
  have hg : DependsOn Sb (sumPairs dim bs (fun τ => prodL (lb.map (fun f => f τ)))) :=
    (sumPairs_dependsOn dim bs hPb).mono (fun _ h => h.1)
  exact sumPairs_mul_right dim as _ _ hg hab σ

/-- `Σ_i Σ_j δ_ij f i j = Σ_i f i i` -/
theorem delta_sumR (n : Nat) (f : Nat → Nat → R) :
    sumR n (fun i => sumR n (fun j => (if i = j then (1 : R) else 0) * f i j)) = sumR n (fun i => f i i) := by
  simp only [sumR_eq]
  apply sum_congr rfl
  intro i hi
  simp only [ite_mul, one_mul, zero_mul]
  rw [sum_ite_eq]
  simp [hi]

theorem sumR_congr (n : Nat) {f g : Nat → R} (h : ∀ i, i < n → f i = g i) : sumR n f = sumR n g := by
  unfold sumR
  congr 1
  apply List.map_congr_left
  intro i hi
  exact h i (List.mem_range.1 hi)

/-! ### the doubled tree seen from the centre -/

mutual
/-- a doubled sub-tree hanging off a bond toward the centre: the ket tensor `T` with its up-leg `u`, the bra
tensor `Tc` with its up-leg `u'`, the pairs of open legs, the sub-trees below -/
inductive Sub (L R : Type) where
  | node (T Tc : Asg L → R) (u u' : L) (phys : List (L × L)) (kids : Kids L R)
/-- the sub-trees below a node: the leg `d` of the node's ket tensor and `d'` of its bra tensor that face
the sub-tree `s` -/
inductive Kids (L R : Type) where
  | nil
  | cons (d d' : L) (s : Sub L R) (rest : Kids L R)
end

namespace Sub
def u : Sub L R → L | node _ _ u _ _ _ => u
def u' : Sub L R → L | node _ _ _ u' _ _ => u'
def T : Sub L R → Asg L → R | node T _ _ _ _ _ => T
def Tc : Sub L R → Asg L → R | node _ Tc _ _ _ _ => Tc
def phys : Sub L R → List (L × L) | node _ _ _ _ p _ => p
def kids : Sub L R → Kids L R | node _ _ _ _ _ k => k
end Sub

mutual
/-- all labels of the doubled sub-tree, its up-legs included -/
def Sub.labels : Sub L R → List L
  | .node _ _ u u' phys kids => u :: u' :: (Expr.pairLegs phys ++ kids.labels)
def Kids.labels : Kids L R → List L
  | .nil => []
  | .cons d d' s rest => d :: d' :: (s.labels ++ rest.labels)
end

mutual
/-- the binding record of the doubled sub-tree (its own up-legs stay open): the open-leg pairs of every
node and both bonds to every sub-tree -/
def Sub.binds : Sub L R → List (L × L)
  | .node _ _ _ _ phys kids => phys ++ kids.binds
def Kids.binds : Kids L R → List (L × L)
  | .nil => []
  | .cons d d' s rest => (d, s.u) :: (d', s.u') :: (s.binds ++ rest.binds)
end

mutual
/-- the leaf tensors of the doubled sub-tree -/
def Sub.leaves : Sub L R → List (Asg L → R)
  | .node T Tc _ _ _ kids => T :: Tc :: kids.leaves
def Kids.leaves : Kids L R → List (Asg L → R)
  | .nil => []
  | .cons _ _ s rest => s.leaves ++ rest.leaves
end

namespace Kids
/-- the pairs `(d, d')`: the node's legs facing its sub-trees, ket leg with bra leg -/
def pairs : Kids L R → List (L × L)
  | nil => []
  | cons d d' _ rest => (d, d') :: rest.pairs
/-- the up-legs `(u, u')` of the sub-trees -/
def ups : Kids L R → List (L × L)
  | nil => []
  | cons _ _ s rest => (s.u, s.u') :: rest.ups
/-- all labels inside the sub-trees (their up-legs included, the node's own legs `d`, `d'` not) -/
def inner : Kids L R → List L
  | nil => []
  | cons _ _ s rest => s.labels ++ rest.inner
/-- the binding record inside the sub-trees (the bonds to the node itself not included) -/
def inBinds : Kids L R → List (L × L)
  | nil => []
  | cons _ _ s rest => s.binds ++ rest.inBinds
/-- the legs of the node's ket / bra tensor facing the sub-trees -/
def kd : Kids L R → List L
  | nil => []
  | cons d _ _ rest => d :: rest.kd
def bd : Kids L R → List L
  | nil => []
  | cons _ d' _ rest => d' :: rest.bd
end Kids

mutual
/-- **Canonical toward the centre.**  For every node of the doubled sub-tree: `T` reads only its own legs
(up-leg, open legs, legs facing the sub-trees), `Tc` likewise; bonded legs have equal dimensions and the bra
copy has the dimensions of the ket; and the ISOMETRY CONDITION in index form: summing `T · Tc` over a
common index for every pair of open legs and for every pair `(d, d')` of legs facing a sub-tree gives
`δ(u, u')` — demanded for indices within the bond dimension only. -/
def Sub.Canon (dim : L → Nat) : Sub L R → Prop
  | .node T Tc u u' phys kids =>
    DependsOn (· ∈ u :: (phys.map Prod.fst ++ kids.kd)) T ∧
    DependsOn (· ∈ u' :: (phys.map Prod.snd ++ kids.bd)) Tc ∧
    dim u' = dim u ∧
    (∀ τ : Asg L, τ u < dim u → τ u' < dim u' →
      sumPairs dim (phys ++ kids.pairs) (fun ρ => T ρ * Tc ρ) τ = if τ u = τ u' then 1 else 0) ∧
    kids.Canon dim
def Kids.Canon (dim : L → Nat) : Kids L R → Prop
  | .nil => True
  | .cons d d' s rest => dim d = dim s.u ∧ dim d' = dim s.u' ∧ s.Canon dim ∧ rest.Canon dim
end

/-! ### labels, records, locality -/

theorem mem_pairLegs_cons {p : L × L} {ps : List (L × L)} {l : L} :
    l ∈ Expr.pairLegs (p :: ps) ↔ l = p.1 ∨ l = p.2 ∨ l ∈ Expr.pairLegs ps := by
  simp only [Expr.pairLegs, List.map_cons, List.mem_append, List.mem_cons]
  tauto

theorem Sub.u_mem_labels (s : Sub L R) : s.u ∈ s.labels := by
  cases s; simp [Sub.u, Sub.labels]

theorem Sub.u'_mem_labels (s : Sub L R) : s.u' ∈ s.labels := by
  cases s; simp [Sub.u', Sub.labels]

mutual
theorem Sub.binds_sub : ∀ (s : Sub L R) (l : L), l ∈ Expr.pairLegs s.binds → l ∈ s.labels
  | .node _ _ u u' phys kids, l, h => by
    simp only [Sub.binds, Expr.mem_pairLegs_append] at h
    simp only [Sub.labels, List.mem_cons, List.mem_append]
    rcases h with h | h
    · exact Or.inr (Or.inr (Or.inl h))
    · exact Or.inr (Or.inr (Or.inr (Kids.binds_sub kids l h)))
theorem Kids.binds_sub : ∀ (k : Kids L R) (l : L), l ∈ Expr.pairLegs k.binds → l ∈ k.labels
  | .nil, l, h => by simp [Kids.binds, Expr.pairLegs] at h
  | .cons d d' s rest, l, h => by
    simp only [Kids.binds, mem_pairLegs_cons, Expr.mem_pairLegs_append] at h
    simp only [Kids.labels, List.mem_cons, List.mem_append]
    rcases h with rfl | rfl | rfl | rfl | h | h
    · exact Or.inl rfl
    · exact Or.inr (Or.inr (Or.inl s.u_mem_labels))
    · exact Or.inr (Or.inl rfl)
    · exact Or.inr (Or.inr (Or.inl s.u'_mem_labels))
    · exact Or.inr (Or.inr (Or.inl (Sub.binds_sub s l h)))
    · exact Or.inr (Or.inr (Or.inr (Kids.binds_sub rest l h)))
end

theorem Kids.kd_sub : ∀ (k : Kids L R) (l : L), l ∈ k.kd → l ∈ k.labels
  | .nil, l, h => by simp [Kids.kd] at h
  | .cons d d' s rest, l, h => by
    simp only [Kids.kd, List.mem_cons] at h
    simp only [Kids.labels, List.mem_cons, List.mem_append]
    rcases h with rfl | h
    · exact Or.inl rfl
    · exact Or.inr (Or.inr (Or.inr (Kids.kd_sub rest l h)))

theorem Kids.bd_sub : ∀ (k : Kids L R) (l : L), l ∈ k.bd → l ∈ k.labels
  | .nil, l, h => by simp [Kids.bd] at h
  | .cons d d' s rest, l, h => by
    simp only [Kids.bd, List.mem_cons] at h
    simp only [Kids.labels, List.mem_cons, List.mem_append]
    rcases h with rfl | h
    · exact Or.inr (Or.inl rfl)
    · exact Or.inr (Or.inr (Or.inr (Kids.bd_sub rest l h)))

theorem Kids.inner_sub : ∀ (k : Kids L R) (l : L), l ∈ k.inner → l ∈ k.labels
  | .nil, l, h => by simp [Kids.inner] at h
  | .cons d d' s rest, l, h => by
    simp only [Kids.inner, List.mem_append] at h
    simp only [Kids.labels, List.mem_cons, List.mem_append]
    rcases h with h | h
    · exact Or.inr (Or.inr (Or.inl h))
    · exact Or.inr (Or.inr (Or.inr (Kids.inner_sub rest l h)))

/-- a leg facing a sub-tree is not a label inside the sub-trees -/
theorem Kids.kd_not_inner : ∀ (k : Kids L R), k.labels.Nodup → ∀ l ∈ k.kd, l ∉ k.inner
  | .nil, _, l, h => by simp [Kids.kd] at h
  | .cons d d' s rest, hnd, l, h => by
    simp only [Kids.labels, List.nodup_cons, List.mem_cons, List.mem_append, not_or, List.nodup_append] at hnd
    obtain ⟨⟨_, hds, hdr⟩, ⟨_, _⟩, _, hr, hsr⟩ := hnd
    simp only [Kids.kd, List.mem_cons] at h
    simp only [Kids.inner, List.mem_append, not_or]
    rcases h with rfl | h
    · exact ⟨hds, fun hi => hdr (Kids.inner_sub rest _ hi)⟩
    · exact ⟨fun hs => hsr l hs l (Kids.kd_sub rest l h) rfl, Kids.kd_not_inner rest hr l h⟩

theorem Kids.bd_not_inner : ∀ (k : Kids L R), k.labels.Nodup → ∀ l ∈ k.bd, l ∉ k.inner
  | .nil, _, l, h => by simp [Kids.bd] at h
  | .cons d d' s rest, hnd, l, h => by
    simp only [Kids.labels, List.nodup_cons, List.mem_cons, List.mem_append, not_or, List.nodup_append] at hnd
    obtain ⟨⟨_, _, _⟩, ⟨hds, hdr⟩, _, hr, hsr⟩ := hnd
    simp only [Kids.bd, List.mem_cons] at h
    simp only [Kids.inner, List.mem_append, not_or]
    rcases h with rfl | h
    · exact ⟨hds, fun hi => hdr (Kids.inner_sub rest _ hi)⟩
    · exact ⟨fun hs => hsr l hs l (Kids.bd_sub rest l h) rfl, Kids.bd_not_inner rest hr l h⟩

mutual
/-- every leaf of a canonical doubled sub-tree reads only labels of the sub-tree -/
theorem Sub.leaves_local (dim : L → Nat) : ∀ (s : Sub L R), s.Canon dim →
    ∀ f ∈ s.leaves, DependsOn (· ∈ s.labels) f
  | .node T Tc u u' phys kids, hc, f, hf => by
    obtain ⟨hT, hTc, _, _, hk⟩ := hc
    simp only [Sub.leaves, List.mem_cons] at hf
    rcases hf with rfl | rfl | hf
    · refine hT.mono ?_
      intro l hl
      simp only [List.mem_cons, List.mem_append, List.mem_map] at hl
      simp only [Sub.labels, List.mem_cons, List.mem_append, Expr.pairLegs, List.mem_map]
      rcases hl with rfl | ⟨p, hp, rfl⟩ | hl
      · exact Or.inl rfl
      · exact Or.inr (Or.inr (Or.inl (Or.inl ⟨p, hp, rfl⟩)))
      · exact Or.inr (Or.inr (Or.inr (Kids.kd_sub kids l hl)))
    · refine hTc.mono ?_
      intro l hl
      simp only [List.mem_cons, List.mem_append, List.mem_map] at hl
      simp only [Sub.labels, List.mem_cons, List.mem_append, Expr.pairLegs, List.mem_map]
      rcases hl with rfl | ⟨p, hp, rfl⟩ | hl
      · exact Or.inr (Or.inl rfl)
      · exact Or.inr (Or.inr (Or.inl (Or.inr ⟨p, hp, rfl⟩)))
      · exact Or.inr (Or.inr (Or.inr (Kids.bd_sub kids l hl)))
    · refine (Kids.leaves_local dim kids hk f hf).mono ?_
      intro l hl
      simp only [Sub.labels, List.mem_cons, List.mem_append]
      exact Or.inr (Or.inr (Or.inr (Kids.inner_sub kids l hl)))
theorem Kids.leaves_local (dim : L → Nat) : ∀ (k : Kids L R), k.Canon dim →
    ∀ f ∈ k.leaves, DependsOn (· ∈ k.inner) f
  | .nil, _, f, hf => by simp [Kids.leaves] at hf
  | .cons d d' s rest, hc, f, hf => by
    obtain ⟨_, _, hs, hr⟩ := hc
    simp only [Kids.leaves, List.mem_append] at hf
    rcases hf with hf | hf
    · exact (Sub.leaves_local dim s hs f hf).mono (fun l hl => by simp [Kids.inner, hl])
    · exact (Kids.leaves_local dim rest hr f hf).mono (fun l hl => by simp [Kids.inner, hl])
end

theorem Sub.Canon.dim_u' {dim : L → Nat} {s : Sub L R} (h : s.Canon dim) : dim s.u' = dim s.u := by
  cases s; exact h.2.2.1

theorem Sub.u_ne_u' {s : Sub L R} (h : s.labels.Nodup) : s.u ≠ s.u' := by
  cases s
  simp only [Sub.labels, List.nodup_cons, List.mem_cons, not_or] at h
  exact h.1.1

/-! ### the induction over the tree -/

mutual
/-- **The contracted doubled sub-tree is the identity on its bond toward the centre.** -/
theorem Sub.env_eq_delta (dim : L → Nat) : ∀ (s : Sub L R), s.Canon dim → s.labels.Nodup →
    ∀ σ : Asg L, σ s.u < dim s.u → σ s.u' < dim s.u' →
      netValue dim s.binds s.leaves σ = if σ s.u = σ s.u' then 1 else 0
  | .node T Tc u u' phys kids, hc, hnd, σ, h1, h2 => by
    obtain ⟨hT, hTc, _, hiso, hk⟩ := hc
    simp only [Sub.labels, List.nodup_cons, List.mem_cons, List.mem_append, not_or, List.nodup_append] at hnd
    obtain ⟨⟨_, hu1, hu2⟩, ⟨hu1', hu2'⟩, _, hndk, hpk⟩ := hnd
    have hf : DependsOn (· ∉ kids.inner) (fun ρ => T ρ * Tc ρ) := by
      apply DependsOn.mul
      · refine hT.mono ?_
        intro l hl hi
        have hi' := Kids.inner_sub kids l hi
        simp only [List.mem_cons, List.mem_append, List.mem_map] at hl
        rcases hl with rfl | ⟨p, hp, rfl⟩ | hl
        · exact hu2 hi'
        · exact hpk p.1 (by simp only [Expr.pairLegs, List.mem_append, List.mem_map]; exact Or.inl ⟨p, hp, rfl⟩) p.1 hi' rfl
        · exact Kids.kd_not_inner kids hndk l hl hi
      · refine hTc.mono ?_
        intro l hl hi
        have hi' := Kids.inner_sub kids l hi
        simp only [List.mem_cons, List.mem_append, List.mem_map] at hl
        rcases hl with rfl | ⟨p, hp, rfl⟩ | hl
        · exact hu2' hi'
        · exact hpk p.2 (by simp only [Expr.pairLegs, List.mem_append, List.mem_map]; exact Or.inr ⟨p, hp, rfl⟩) p.2 hi' rfl
        · exact Kids.bd_not_inner kids hndk l hl hi
    have habs : ∀ τ, sumPairs dim kids.binds
        (fun τ => prodL ((T :: Tc :: kids.leaves).map (fun g => g τ))) τ =
        sumPairs dim kids.pairs (fun ρ => T ρ * Tc ρ) τ := by
      intro τ
      rw [← Kids.absorb dim kids hk hndk (· ∉ kids.inner) (fun ρ => T ρ * Tc ρ) hf (fun l hl h => h hl) τ]
      exact sumPairs_congr dim _ (fun ρ => by simp only [List.map_cons, prodL, mul_assoc]) τ
    show netValue dim (phys ++ kids.binds) (T :: Tc :: kids.leaves) σ = _
    unfold netValue
    rw [sumPairs_append, sumPairs_congr dim phys habs, ← sumPairs_append]
    exact hiso σ h1 h2
/-- **Canonical sub-trees drop out of every sum they are linked into.**  `f` is anything that does not read
labels inside the sub-trees (the product of the node's own two tensors, or of the centre's): summing
`f · Π (all tensors of the sub-trees)` over the whole binding record of the sub-trees and their bonds to the
node equals summing `f` alone over one common index per pair `(d, d')`. -/
theorem Kids.absorb (dim : L → Nat) : ∀ (k : Kids L R), k.Canon dim → k.labels.Nodup →
    ∀ (S : L → Prop) (f : Asg L → R), DependsOn S f → (∀ l ∈ k.inner, ¬ S l) → ∀ σ : Asg L,
      sumPairs dim k.binds (fun τ => f τ * prodL (k.leaves.map (fun g => g τ))) σ = sumPairs dim k.pairs f σ
  | .nil, _, _, S, f, _, _, σ => by
    simp [Kids.binds, Kids.leaves, Kids.pairs, sumPairs, prodL]
  | .cons d d' s rest, hc, hnd, S, f, hf, hS, σ => by
    obtain ⟨hd1, hd2, hs, hr⟩ := hc
    have hdd : dim d' = dim d := by rw [hd1, hd2, hs.dim_u']
    simp only [Kids.labels, List.nodup_cons, List.mem_cons, List.mem_append, not_or, List.nodup_append] at hnd
    obtain ⟨⟨hdd', hds, hdr⟩, ⟨hd's, hd'r⟩, hnds, hndr, hsr⟩ := hnd
    have hSs : ∀ l ∈ s.labels, ¬ S l := fun l hl => hS l (by simp [Kids.inner, hl])
    have hSr : ∀ l ∈ rest.inner, ¬ S l := fun l hl => hS l (by simp [Kids.inner, hl])
    set g : Asg L → R := sumPairs dim rest.pairs f with hgdef
    have hg : DependsOn S g := (sumPairs_dependsOn dim rest.pairs hf).mono (fun _ h => h.1)
    have hPs : DependsOn (· ∈ s.labels) (fun τ => prodL (s.leaves.map (fun g => g τ))) :=
      prodL_dependsOn s.leaves (Sub.leaves_local dim s hs)
    -- the sum over everything inside
    have hin : ∀ τ, sumPairs dim (s.binds ++ rest.binds)
        (fun τ => f τ * prodL ((s.leaves ++ rest.leaves).map (fun g => g τ))) τ =
        netValue dim s.binds s.leaves τ * g τ := by
      intro τ
      rw [sumPairs_append]
      have h1 : ∀ ρ, sumPairs dim rest.binds
          (fun τ => f τ * prodL ((s.leaves ++ rest.leaves).map (fun g => g τ))) ρ =
          prodL (s.leaves.map (fun g => g ρ)) * g ρ := by
        intro ρ
        rw [hgdef, ← Kids.absorb dim rest hr hndr S f hf hSr ρ,
          ← sumPairs_mul_left dim rest.binds _ _ hPs
            (fun l hl hls => hsr l hls l (Kids.binds_sub rest l hl) rfl) ρ]
        apply sumPairs_congr
        intro ρ'
        rw [List.map_append, prodL_append]
        ring
      rw [sumPairs_congr dim s.binds h1]
      exact sumPairs_mul_right dim s.binds _ g hg (fun l hl => hSs l (Sub.binds_sub s l hl)) τ
    simp only [Kids.binds, Kids.leaves, Kids.pairs, sumPairs]
    rw [hdd, ← delta_sumR (dim d) (fun i j => g (upd (upd σ d i) d' j))]
    apply sumR_congr
    intro i hi
    apply sumR_congr
    intro j hj
    have hne1 : s.u ≠ d' := fun e => hd's (e ▸ s.u_mem_labels)
    have e1 : upd (upd (upd (upd σ d i) s.u i) d' j) s.u' j s.u = i := by
      simp [upd, Sub.u_ne_u' hnds, hne1]
    have e2 : upd (upd (upd (upd σ d i) s.u i) d' j) s.u' j s.u' = j := by
      simp [upd]
    rw [hin, Sub.env_eq_delta dim s hs hnds _ (by rw [e1, ← hd1]; exact hi) (by rw [e2, ← hd2, hdd]; exact hj),
      e1, e2]
    congr 1
    apply hg
    intro l hl
    have h1 : l ≠ s.u := fun e => hSs _ s.u_mem_labels (e ▸ hl)
    have h2 : l ≠ s.u' := fun e => hSs _ s.u'_mem_labels (e ▸ hl)
    simp [upd, h1, h2]
end

/-! ### every label below the up-legs is bound exactly once -/

theorem count_pairLegs_cons (a : L) (p : L × L) (ps : List (L × L)) :
    (Expr.pairLegs (p :: ps)).count a = [p.1, p.2].count a + (Expr.pairLegs ps).count a := by
  rw [(pairLegs_cons_perm p ps).count_eq]
  simp only [List.count_cons, List.count_nil]
  omega

theorem count_pairLegs_append (a : L) (ps qs : List (L × L)) :
    (Expr.pairLegs (ps ++ qs)).count a = (Expr.pairLegs ps).count a + (Expr.pairLegs qs).count a := by
  rw [(Expr.pairLegs_append ps qs).count_eq, List.count_append]

theorem count_pairLegs_nil (a : L) : (Expr.pairLegs ([] : List (L × L))).count a = 0 := by
  simp [Expr.pairLegs]

mutual
theorem Sub.labels_perm : ∀ s : Sub L R, s.labels.Perm (s.u :: s.u' :: Expr.pairLegs s.binds)
  | .node _ _ u u' phys kids => by
    rw [List.perm_iff_count]
    intro a
    have := (Kids.labels_perm kids).count_eq a
    simp only [Sub.labels, Sub.binds, Sub.u, Sub.u', List.count_cons, List.count_append, count_pairLegs_append]
    omega
theorem Kids.labels_perm : ∀ k : Kids L R, k.labels.Perm (Expr.pairLegs k.binds)
  | .nil => by simp [Kids.labels, Kids.binds, Expr.pairLegs]
  | .cons d d' s rest => by
    rw [List.perm_iff_count]
    intro a
    have h1 := (Sub.labels_perm s).count_eq a
    have h2 := (Kids.labels_perm rest).count_eq a
    simp only [Kids.labels, Kids.binds, List.count_cons, List.count_append, count_pairLegs_cons,
      count_pairLegs_append, List.count_nil] at h1 h2 ⊢
    omega
end

theorem Kids.inner_perm : ∀ k : Kids L R, k.inner.Perm (Expr.pairLegs k.ups ++ Expr.pairLegs k.inBinds)
  | .nil => by simp [Kids.inner, Kids.ups, Kids.inBinds, Expr.pairLegs]
  | .cons d d' s rest => by
    rw [List.perm_iff_count]
    intro a
    have h1 := (Sub.labels_perm s).count_eq a
    have h2 := (Kids.inner_perm rest).count_eq a
    simp only [Kids.inner, Kids.ups, Kids.inBinds, List.count_cons, List.count_append, count_pairLegs_cons,
      count_pairLegs_append, List.count_nil] at h1 h2 ⊢
    omega

theorem Kids.labels_perm_inner : ∀ k : Kids L R, k.labels.Perm (k.kd ++ (k.bd ++ k.inner))
  | .nil => by simp [Kids.labels, Kids.kd, Kids.bd, Kids.inner]
  | .cons d d' s rest => by
    rw [List.perm_iff_count]
    intro a
    have h2 := (Kids.labels_perm_inner rest).count_eq a
    simp only [Kids.labels, Kids.kd, Kids.bd, Kids.inner, List.count_cons, List.count_append] at h2 ⊢
    omega

theorem Kids.inner_nodup {k : Kids L R} (h : k.labels.Nodup) : k.inner.Nodup := by
  have := (Kids.labels_perm_inner k).nodup_iff.1 h
  exact (List.nodup_append.1 (List.nodup_append.1 this).2.1).2.1

theorem Kids.inBinds_nodup {k : Kids L R} (h : k.labels.Nodup) : (Expr.pairLegs k.inBinds).Nodup :=
  (List.nodup_append.1 ((Kids.inner_perm k).nodup_iff.1 (Kids.inner_nodup h))).2.1

theorem Kids.inBinds_sub (k : Kids L R) (l : L) (h : l ∈ Expr.pairLegs k.inBinds) : l ∈ k.inner :=
  (Kids.inner_perm k).mem_iff.2 (List.mem_append.2 (Or.inr h))

theorem Kids.ups_sub (k : Kids L R) (l : L) (h : l ∈ Expr.pairLegs k.ups) : l ∈ k.inner :=
  (Kids.inner_perm k).mem_iff.2 (List.mem_append.2 (Or.inl h))

/-! ### the environment of the centre -/

/-- the identity on the centre's bonds: `Π_k δ(u_k, u_k')` -/
def deltaProd (ups : List (L × L)) (σ : Asg L) : R :=
  prodL (ups.map (fun p => if σ p.1 = σ p.2 then (1 : R) else 0))

/-- **The contracted environment of the centre is the identity.**  `k`: the doubled sub-trees around the
centre, every node canonical toward the centre.  The environment — the sum, over one common index per pair
of open legs and per bond NOT at the centre, of the product of all tensors and conjugated tensors of all
non-centre nodes — as a function of the indices `(u_k, u_k')` of the centre's bonds is `Π_k δ(u_k, u_k')`. -/
theorem environment_is_identity (dim : L → Nat) : ∀ (k : Kids L R), k.Canon dim → k.labels.Nodup →
    ∀ σ : Asg L, (∀ p ∈ k.ups, σ p.1 < dim p.1 ∧ σ p.2 < dim p.2) →
      netValue dim k.inBinds k.leaves σ = deltaProd k.ups σ
  | .nil, _, _, σ, _ => by simp [Kids.inBinds, Kids.leaves, Kids.ups, netValue, sumPairs, prodL, deltaProd]
  | .cons d d' s rest, hc, hnd, σ, hr => by
    obtain ⟨_, _, hs, hrc⟩ := hc
    simp only [Kids.labels, List.nodup_cons, List.mem_cons, List.mem_append, not_or, List.nodup_append] at hnd
    obtain ⟨_, _, hnds, hndr, hsr⟩ := hnd
    have h0 := hr (s.u, s.u') (by simp [Kids.ups])
    simp only [Kids.inBinds, Kids.leaves, Kids.ups, deltaProd, List.map_cons, prodL]
    rw [netValue_append dim s.binds rest.inBinds s.leaves rest.leaves (Sub.leaves_local dim s hs)
      (Kids.leaves_local dim rest hrc)
      (fun l hl hi => hsr l (Sub.binds_sub s l hl) l (Kids.inner_sub rest l hi) rfl)
      (fun l hl hi => hsr l hi l (Kids.inner_sub rest l (Kids.inBinds_sub rest l hl)) rfl) σ,
      Sub.env_eq_delta dim s hs hnds σ h0.1 h0.2,
      environment_is_identity dim rest hrc hndr σ (fun p hp => hr p (by simp [Kids.ups, hp]))]
    rfl

/-! ### the ket half and the bra half of the doubled tree -/

mutual
/-- the bonds of the ket half of the doubled sub-tree -/
def Sub.ketBinds : Sub L R → List (L × L)
  | .node _ _ _ _ _ kids => kids.ketBinds
def Kids.ketBinds : Kids L R → List (L × L)
  | .nil => []
  | .cons d d' s rest => (d, s.u) :: (s.ketBinds ++ rest.ketBinds)
end

mutual
/-- the tensors of the ket half -/
def Sub.ketLeaves : Sub L R → List (Asg L → R)
  | .node T Tc _ _ _ kids => T :: kids.ketLeaves
def Kids.ketLeaves : Kids L R → List (Asg L → R)
  | .nil => []
  | .cons _ _ s rest => s.ketLeaves ++ rest.ketLeaves
end

mutual
/-- the labels of the ket half -/
def Sub.ketLabels : Sub L R → List L
  | .node _ _ u u' phys kids => u :: (phys.map Prod.fst ++ kids.ketLabels)
def Kids.ketLabels : Kids L R → List L
  | .nil => []
  | .cons d d' s rest => d :: (s.ketLabels ++ rest.ketLabels)
end

/-- the ket bonds inside the sub-trees (the bonds to the node itself not included) -/
def Kids.ketIn : Kids L R → List (L × L)
  | .nil => []
  | .cons _ _ s rest => s.ketBinds ++ rest.ketIn
/-- the ket labels inside the sub-trees -/
def Kids.ketInner : Kids L R → List L
  | .nil => []
  | .cons _ _ s rest => s.ketLabels ++ rest.ketInner

theorem Sub.u_mem_ketLabels (s : Sub L R) : s.u ∈ s.ketLabels := by
  cases s; simp [Sub.u, Sub.ketLabels]

theorem Kids.kd_sub_ketLabels : ∀ (k : Kids L R) (l : L), l ∈ k.kd → l ∈ k.ketLabels
  | .nil, l, h => by simp [Kids.kd] at h
  | .cons d d' s rest, l, h => by
    simp only [Kids.kd, List.mem_cons] at h
    simp only [Kids.ketLabels, List.mem_cons, List.mem_append]
    rcases h with rfl | h
    · exact Or.inl rfl
    · exact Or.inr (Or.inr (Kids.kd_sub_ketLabels rest l h))

theorem Kids.ketInner_sub : ∀ (k : Kids L R) (l : L), l ∈ k.ketInner → l ∈ k.ketLabels
  | .nil, l, h => by simp [Kids.ketInner] at h
  | .cons d d' s rest, l, h => by
    simp only [Kids.ketInner, List.mem_append] at h
    simp only [Kids.ketLabels, List.mem_cons, List.mem_append]
    rcases h with h | h
    · exact Or.inr (Or.inl h)
    · exact Or.inr (Or.inr (Kids.ketInner_sub rest l h))

mutual
theorem Sub.ketBinds_sub : ∀ (s : Sub L R) (l : L), l ∈ Expr.pairLegs s.ketBinds → l ∈ s.ketLabels
  | .node _ _ u u' phys kids, l, h => by
    simp only [Sub.ketLabels, List.mem_cons, List.mem_append]
    exact Or.inr (Or.inr (Kids.ketBinds_sub kids l h))
theorem Kids.ketBinds_sub : ∀ (k : Kids L R) (l : L), l ∈ Expr.pairLegs k.ketBinds → l ∈ k.ketLabels
  | .nil, l, h => by simp [Kids.ketBinds, Expr.pairLegs] at h
  | .cons d d' s rest, l, h => by
    simp only [Kids.ketBinds, mem_pairLegs_cons, Expr.mem_pairLegs_append] at h
    simp only [Kids.ketLabels, List.mem_cons, List.mem_append]
    rcases h with rfl | rfl | h | h
    · exact Or.inl rfl
    · exact Or.inr (Or.inl s.u_mem_ketLabels)
    · exact Or.inr (Or.inl (Sub.ketBinds_sub s l h))
    · exact Or.inr (Or.inr (Kids.ketBinds_sub rest l h))
end

theorem Kids.ketIn_sub : ∀ (k : Kids L R) (l : L), l ∈ Expr.pairLegs k.ketIn → l ∈ k.ketInner
  | .nil, l, h => by simp [Kids.ketIn, Expr.pairLegs] at h
  | .cons d d' s rest, l, h => by
    simp only [Kids.ketIn, Expr.mem_pairLegs_append] at h
    simp only [Kids.ketInner, List.mem_append]
    rcases h with h | h
    · exact Or.inl (Sub.ketBinds_sub s l h)
    · exact Or.inr (Kids.ketIn_sub rest l h)

mutual
/-- every tensor of the ket half reads only ket labels -/
theorem Sub.ketLeaves_local (dim : L → Nat) : ∀ (s : Sub L R), s.Canon dim →
    ∀ f ∈ s.ketLeaves, DependsOn (· ∈ s.ketLabels) f
  | .node T Tc u u' phys kids, hc, f, hf => by
    obtain ⟨hT, hTc, _, _, hk⟩ := hc
    simp only [Sub.ketLeaves, List.mem_cons] at hf
    rcases hf with rfl | hf
    · refine hT.mono ?_
      intro l hl
      simp only [List.mem_cons, List.mem_append] at hl
      simp only [Sub.ketLabels, List.mem_cons, List.mem_append]
      rcases hl with rfl | hl | hl
      · exact Or.inl rfl
      · exact Or.inr (Or.inl hl)
      · exact Or.inr (Or.inr (Kids.kd_sub_ketLabels kids l hl))
    · refine (Kids.ketLeaves_local dim kids hk f hf).mono ?_
      intro l hl
      simp only [Sub.ketLabels, List.mem_cons, List.mem_append]
      exact Or.inr (Or.inr (Kids.ketInner_sub kids l hl))
theorem Kids.ketLeaves_local (dim : L → Nat) : ∀ (k : Kids L R), k.Canon dim →
    ∀ f ∈ k.ketLeaves, DependsOn (· ∈ k.ketInner) f
  | .nil, _, f, hf => by simp [Kids.ketLeaves] at hf
  | .cons d d' s rest, hc, f, hf => by
    obtain ⟨_, _, hs, hr⟩ := hc
    simp only [Kids.ketLeaves, List.mem_append] at hf
    rcases hf with hf | hf
    · exact (Sub.ketLeaves_local dim s hs f hf).mono (fun l hl => by simp [Kids.ketInner, hl])
    · exact (Kids.ketLeaves_local dim rest hr f hf).mono (fun l hl => by simp [Kids.ketInner, hl])
end

mutual
/-- the bonds of the bra half of the doubled sub-tree -/
def Sub.braBinds : Sub L R → List (L × L)
  | .node _ _ _ _ _ kids => kids.braBinds
def Kids.braBinds : Kids L R → List (L × L)
  | .nil => []
  | .cons d d' s rest => (d', s.u') :: (s.braBinds ++ rest.braBinds)
end

mutual
/-- the tensors of the bra half -/
def Sub.braLeaves : Sub L R → List (Asg L → R)
  | .node T Tc _ _ _ kids => Tc :: kids.braLeaves
def Kids.braLeaves : Kids L R → List (Asg L → R)
  | .nil => []
  | .cons _ _ s rest => s.braLeaves ++ rest.braLeaves
end

mutual
/-- the labels of the bra half -/
def Sub.braLabels : Sub L R → List L
  | .node _ _ u u' phys kids => u' :: (phys.map Prod.snd ++ kids.braLabels)
def Kids.braLabels : Kids L R → List L
  | .nil => []
  | .cons d d' s rest => d' :: (s.braLabels ++ rest.braLabels)
end

/-- the bra bonds inside the sub-trees (the bonds to the node itself not included) -/
def Kids.braIn : Kids L R → List (L × L)
  | .nil => []
  | .cons _ _ s rest => s.braBinds ++ rest.braIn
/-- the bra labels inside the sub-trees -/
def Kids.braInner : Kids L R → List L
  | .nil => []
  | .cons _ _ s rest => s.braLabels ++ rest.braInner

theorem Sub.u'_mem_braLabels (s : Sub L R) : s.u' ∈ s.braLabels := by
  cases s; simp [Sub.u', Sub.braLabels]

theorem Kids.bd_sub_braLabels : ∀ (k : Kids L R) (l : L), l ∈ k.bd → l ∈ k.braLabels
  | .nil, l, h => by simp [Kids.bd] at h
  | .cons d d' s rest, l, h => by
    simp only [Kids.bd, List.mem_cons] at h
    simp only [Kids.braLabels, List.mem_cons, List.mem_append]
    rcases h with rfl | h
    · exact Or.inl rfl
    · exact Or.inr (Or.inr (Kids.bd_sub_braLabels rest l h))

theorem Kids.braInner_sub : ∀ (k : Kids L R) (l : L), l ∈ k.braInner → l ∈ k.braLabels
  | .nil, l, h => by simp [Kids.braInner] at h
  | .cons d d' s rest, l, h => by
    simp only [Kids.braInner, List.mem_append] at h
    simp only [Kids.braLabels, List.mem_cons, List.mem_append]
    rcases h with h | h
    · exact Or.inr (Or.inl h)
    · exact Or.inr (Or.inr (Kids.braInner_sub rest l h))

mutual
theorem Sub.braBinds_sub : ∀ (s : Sub L R) (l : L), l ∈ Expr.pairLegs s.braBinds → l ∈ s.braLabels
  | .node _ _ u u' phys kids, l, h => by
    simp only [Sub.braLabels, List.mem_cons, List.mem_append]
    exact Or.inr (Or.inr (Kids.braBinds_sub kids l h))
theorem Kids.braBinds_sub : ∀ (k : Kids L R) (l : L), l ∈ Expr.pairLegs k.braBinds → l ∈ k.braLabels
  | .nil, l, h => by simp [Kids.braBinds, Expr.pairLegs] at h
  | .cons d d' s rest, l, h => by
    simp only [Kids.braBinds, mem_pairLegs_cons, Expr.mem_pairLegs_append] at h
    simp only [Kids.braLabels, List.mem_cons, List.mem_append]
    rcases h with rfl | rfl | h | h
    · exact Or.inl rfl
    · exact Or.inr (Or.inl s.u'_mem_braLabels)
    · exact Or.inr (Or.inl (Sub.braBinds_sub s l h))
    · exact Or.inr (Or.inr (Kids.braBinds_sub rest l h))
end

theorem Kids.braIn_sub : ∀ (k : Kids L R) (l : L), l ∈ Expr.pairLegs k.braIn → l ∈ k.braInner
  | .nil, l, h => by simp [Kids.braIn, Expr.pairLegs] at h
  | .cons d d' s rest, l, h => by
    simp only [Kids.braIn, Expr.mem_pairLegs_append] at h
    simp only [Kids.braInner, List.mem_append]
    rcases h with h | h
    · exact Or.inl (Sub.braBinds_sub s l h)
    · exact Or.inr (Kids.braIn_sub rest l h)

mutual
/-- every tensor of the bra half reads only bra labels -/
theorem Sub.braLeaves_local (dim : L → Nat) : ∀ (s : Sub L R), s.Canon dim →
    ∀ f ∈ s.braLeaves, DependsOn (· ∈ s.braLabels) f
  | .node T Tc u u' phys kids, hc, f, hf => by
    obtain ⟨hT, hTc, _, _, hk⟩ := hc
    simp only [Sub.braLeaves, List.mem_cons] at hf
    rcases hf with rfl | hf
    · refine hTc.mono ?_
      intro l hl
      simp only [List.mem_cons, List.mem_append] at hl
      simp only [Sub.braLabels, List.mem_cons, List.mem_append]
      rcases hl with rfl | hl | hl
      · exact Or.inl rfl
      · exact Or.inr (Or.inl hl)
      · exact Or.inr (Or.inr (Kids.bd_sub_braLabels kids l hl))
    · refine (Kids.braLeaves_local dim kids hk f hf).mono ?_
      intro l hl
      simp only [Sub.braLabels, List.mem_cons, List.mem_append]
      exact Or.inr (Or.inr (Kids.braInner_sub kids l hl))
theorem Kids.braLeaves_local (dim : L → Nat) : ∀ (k : Kids L R), k.Canon dim →
    ∀ f ∈ k.braLeaves, DependsOn (· ∈ k.braInner) f
  | .nil, _, f, hf => by simp [Kids.braLeaves] at hf
  | .cons d d' s rest, hc, f, hf => by
    obtain ⟨_, _, hs, hr⟩ := hc
    simp only [Kids.braLeaves, List.mem_append] at hf
    rcases hf with hf | hf
    · exact (Sub.braLeaves_local dim s hs f hf).mono (fun l hl => by simp [Kids.braInner, hl])
    · exact (Kids.braLeaves_local dim rest hr f hf).mono (fun l hl => by simp [Kids.braInner, hl])
end

mutual
/-- all pairs of open legs of the doubled sub-tree -/
def Sub.physAll : Sub L R → List (L × L)
  | .node _ _ _ _ phys kids => phys ++ kids.physAll
def Kids.physAll : Kids L R → List (L × L)
  | .nil => []
  | .cons _ _ s rest => s.physAll ++ rest.physAll
end

mutual
theorem Sub.binds_split : ∀ s : Sub L R, s.binds.Perm (s.physAll ++ (s.ketBinds ++ s.braBinds))
  | .node _ _ u u' phys kids => by
    rw [List.perm_iff_count]
    intro a
    have := (Kids.binds_split kids).count_eq a
    simp only [Sub.binds, Sub.physAll, Sub.ketBinds, Sub.braBinds, List.count_append] at this ⊢
    omega
theorem Kids.binds_split : ∀ k : Kids L R, k.binds.Perm (k.physAll ++ (k.ketBinds ++ k.braBinds))
  | .nil => by simp [Kids.binds, Kids.physAll, Kids.ketBinds, Kids.braBinds]
  | .cons d d' s rest => by
    rw [List.perm_iff_count]
    intro a
    have h1 := (Sub.binds_split s).count_eq a
    have h2 := (Kids.binds_split rest).count_eq a
    simp only [Kids.binds, Kids.physAll, Kids.ketBinds, Kids.braBinds, List.count_cons, List.count_append]
      at h1 h2 ⊢
    omega
end

theorem Kids.inBinds_split : ∀ k : Kids L R, k.inBinds.Perm (k.physAll ++ (k.ketIn ++ k.braIn))
  | .nil => by simp [Kids.inBinds, Kids.physAll, Kids.ketIn, Kids.braIn]
  | .cons d d' s rest => by
    rw [List.perm_iff_count]
    intro a
    have h1 := (Sub.binds_split s).count_eq a
    have h2 := (Kids.inBinds_split rest).count_eq a
    simp only [Kids.inBinds, Kids.physAll, Kids.ketIn, Kids.braIn, List.count_append] at h1 h2 ⊢
    omega

theorem perm_interleave {α : Type} (a b c d : List α) : ((a ++ b) ++ (c ++ d)).Perm ((a ++ c) ++ (b ++ d)) := by
  rw [List.append_assoc, List.append_assoc]
  exact List.Perm.append_left a (List.perm_append_comm_assoc b c d)

mutual
theorem Sub.leaves_split : ∀ s : Sub L R, s.leaves.Perm (s.ketLeaves ++ s.braLeaves)
  | .node T Tc _ _ _ kids => by
    simp only [Sub.leaves, Sub.ketLeaves, Sub.braLeaves, List.cons_append]
    exact List.Perm.cons T (((Kids.leaves_split kids).cons Tc).trans List.perm_middle.symm)
theorem Kids.leaves_split : ∀ k : Kids L R, k.leaves.Perm (k.ketLeaves ++ k.braLeaves)
  | .nil => by simp [Kids.leaves, Kids.ketLeaves, Kids.braLeaves]
  | .cons _ _ s rest => by
    simp only [Kids.leaves, Kids.ketLeaves, Kids.braLeaves]
    exact ((Sub.leaves_split s).append (Kids.leaves_split rest)).trans (perm_interleave _ _ _ _)
end

mutual
theorem Sub.labels_split : ∀ s : Sub L R, s.labels.Perm (s.ketLabels ++ s.braLabels)
  | .node _ _ u u' phys kids => by
    rw [List.perm_iff_count]
    intro a
    have := (Kids.labels_split kids).count_eq a
    simp only [Sub.labels, Sub.ketLabels, Sub.braLabels, Expr.pairLegs, List.count_cons, List.count_append]
      at this ⊢
    omega
theorem Kids.labels_split : ∀ k : Kids L R, k.labels.Perm (k.ketLabels ++ k.braLabels)
  | .nil => by simp [Kids.labels, Kids.ketLabels, Kids.braLabels]
  | .cons d d' s rest => by
    rw [List.perm_iff_count]
    intro a
    have h1 := (Sub.labels_split s).count_eq a
    have h2 := (Kids.labels_split rest).count_eq a
    simp only [Kids.labels, Kids.ketLabels, Kids.braLabels, List.count_cons, List.count_append] at h1 h2 ⊢
    omega
end

theorem Kids.inner_split : ∀ k : Kids L R, k.inner.Perm (k.ketInner ++ k.braInner)
  | .nil => by simp [Kids.inner, Kids.ketInner, Kids.braInner]
  | .cons d d' s rest => by
    rw [List.perm_iff_count]
    intro a
    have h1 := (Sub.labels_split s).count_eq a
    have h2 := (Kids.inner_split rest).count_eq a
    simp only [Kids.inner, Kids.ketInner, Kids.braInner, List.count_append] at h1 h2 ⊢
    omega

/-- ket labels and bra labels inside the sub-trees are disjoint -/
theorem Kids.ket_bra_disjoint {k : Kids L R} (h : k.labels.Nodup) : ∀ l ∈ k.ketInner, l ∉ k.braInner := by
  have := (Kids.inner_split k).nodup_iff.1 (Kids.inner_nodup h)
  intro l h1 h2
  exact (List.nodup_append.1 this).2.2 l h1 l h2 rfl

theorem Kids.ups_fst_sub : ∀ (k : Kids L R) (l : L), l ∈ k.ups.map Prod.fst → l ∈ k.ketInner
  | .nil, l, h => by simp [Kids.ups] at h
  | .cons d d' s rest, l, h => by
    simp only [Kids.ups, List.map_cons, List.mem_cons] at h
    simp only [Kids.ketInner, List.mem_append]
    rcases h with rfl | h
    · exact Or.inl s.u_mem_ketLabels
    · exact Or.inr (Kids.ups_fst_sub rest l h)

theorem Kids.ups_snd_sub : ∀ (k : Kids L R) (l : L), l ∈ k.ups.map Prod.snd → l ∈ k.braInner
  | .nil, l, h => by simp [Kids.ups] at h
  | .cons d d' s rest, l, h => by
    simp only [Kids.ups, List.map_cons, List.mem_cons] at h
    simp only [Kids.braInner, List.mem_append]
    rcases h with rfl | h
    · exact Or.inl s.u'_mem_braLabels
    · exact Or.inr (Kids.ups_snd_sub rest l h)

theorem Kids.ups_nodup {k : Kids L R} (h : k.labels.Nodup) : (Expr.pairLegs k.ups).Nodup :=
  (List.nodup_append.1 ((Kids.inner_perm k).nodup_iff.1 (Kids.inner_nodup h))).1

theorem Kids.Canon.ups_dim {dim : L → Nat} : ∀ {k : Kids L R}, k.Canon dim → ∀ p ∈ k.ups, dim p.2 = dim p.1
  | .nil, _, p, hp => by simp [Kids.ups] at hp
  | .cons d d' s rest, hc, p, hp => by
    obtain ⟨_, _, hs, hr⟩ := hc
    simp only [Kids.ups, List.mem_cons] at hp
    rcases hp with rfl | hp
    · exact hs.dim_u'
    · exact Kids.Canon.ups_dim hr p hp

/-- the ket half of the environment: all ket tensors of the non-centre nodes contracted over the ket bonds
that are not at the centre — `E[phys; u⃗]` -/
def Kids.E (dim : L → Nat) (k : Kids L R) : Asg L → R := netValue dim k.ketIn k.ketLeaves
/-- the bra half: `Ec[phys'; u⃗']` -/
def Kids.Ec (dim : L → Nat) (k : Kids L R) : Asg L → R := netValue dim k.braIn k.braLeaves

theorem Kids.E_dependsOn (dim : L → Nat) (k : Kids L R) (hc : k.Canon dim) :
    DependsOn (· ∈ k.ketInner) (k.E dim) :=
  netValue_dependsOn dim _ _ (Kids.ketLeaves_local dim k hc)

theorem Kids.Ec_dependsOn (dim : L → Nat) (k : Kids L R) (hc : k.Canon dim) :
    DependsOn (· ∈ k.braInner) (k.Ec dim) :=
  netValue_dependsOn dim _ _ (Kids.braLeaves_local dim k hc)

/-- the environment is `Σ_phys E · Ec` -/
theorem Kids.env_eq_E_Ec (dim : L → Nat) (k : Kids L R) (hc : k.Canon dim) (hnd : k.labels.Nodup) (σ : Asg L) :
    netValue dim k.inBinds k.leaves σ = sumPairs dim k.physAll (fun τ => k.E dim τ * k.Ec dim τ) σ := by
  rw [netValue_perm dim (Kids.inBinds_split k) (Kids.leaves_split k) (Kids.inBinds_nodup hnd) σ]
  unfold netValue
  rw [sumPairs_append]
  apply sumPairs_congr
  intro τ
  exact netValue_append dim k.ketIn k.braIn k.ketLeaves k.braLeaves (Kids.ketLeaves_local dim k hc)
    (Kids.braLeaves_local dim k hc)
    (fun l hl hb => Kids.ket_bra_disjoint hnd l (Kids.ketIn_sub k l hl) hb)
    (fun l hl hk => Kids.ket_bra_disjoint hnd l hk (Kids.braIn_sub k l hl)) τ

/-- **The embedding of the centre tensor is an isometry (index form).**  `E[phys; u⃗]`: all ket tensors of the
non-centre nodes contracted over their own bonds — the map that embeds the centre tensor into the full
state; `Ec[phys'; u⃗']`: the same for the conjugated copies.  If every non-centre node is canonical toward the
centre, summing `E · Ec` over one common index per pair of open legs gives `Π_k δ(u_k, u_k')`:
`Σ_phys conj(E[phys; r]) · E[phys; c] = δ_rc`. -/
theorem embedding_isometry_of_canonical (dim : L → Nat) (k : Kids L R) (hc : k.Canon dim)
    (hnd : k.labels.Nodup) (σ : Asg L) (hr : ∀ p ∈ k.ups, σ p.1 < dim p.1 ∧ σ p.2 < dim p.2) :
    sumPairs dim k.physAll (fun τ => k.E dim τ * k.Ec dim τ) σ = deltaProd k.ups σ := by
  rw [← Kids.env_eq_E_Ec dim k hc hnd σ]
  exact environment_is_identity dim k hc hnd σ hr

/-! ### the norm from the centre tensor alone -/

/-- the centre: its tensor `C`, the conjugated copy `Cc`, the pairs of its open legs, the doubled sub-trees
around it -/
structure Centre (L R : Type) where
  C : Asg L → R
  Cc : Asg L → R
  phys : List (L × L)
  kids : Kids L R

namespace Centre
/-- all labels of the norm network -/
def labels (c : Centre L R) : List L := Expr.pairLegs c.phys ++ c.kids.labels
/-- the binding record of the norm network `⟨ψ|ψ⟩` -/
def normBinds (c : Centre L R) : List (L × L) := c.phys ++ c.kids.binds
/-- all tensors of the norm network -/
def normLeaves (c : Centre L R) : List (Asg L → R) := c.C :: c.Cc :: c.kids.leaves
/-- canonical form with centre `c`: the centre's tensors read only their own legs, every other node is
canonical toward the centre -/
def Canon (dim : L → Nat) (c : Centre L R) : Prop :=
  DependsOn (· ∈ c.phys.map Prod.fst ++ c.kids.kd) c.C ∧
  DependsOn (· ∈ c.phys.map Prod.snd ++ c.kids.bd) c.Cc ∧ c.kids.Canon dim
end Centre

/-- **The norm computed from the centre tensor alone equals the full norm.**  For a network in canonical
form with centre `c` the norm network `⟨ψ|ψ⟩` — all tensors and conjugated tensors of all nodes, summed over
every bond of both copies and every pair of open legs — has the value of `Σ C · Cc` over one common index
per leg of the centre tensor. -/
theorem centre_norm_eq_full_norm_value (dim : L → Nat) (c : Centre L R) (hc : c.Canon dim)
    (hnd : c.labels.Nodup) (σ : Asg L) :
    netValue dim c.normBinds c.normLeaves σ = netValue dim (c.phys ++ c.kids.pairs) [c.C, c.Cc] σ := by
  obtain ⟨hC, hCc, hk⟩ := hc
  simp only [Centre.labels, List.nodup_append] at hnd
  obtain ⟨_, hndk, hpk⟩ := hnd
  have hf : DependsOn (· ∉ c.kids.inner) (fun ρ => c.C ρ * c.Cc ρ) := by
    apply DependsOn.mul
    · refine hC.mono ?_
      intro l hl hi
      have hi' := Kids.inner_sub c.kids l hi
      simp only [List.mem_append, List.mem_map] at hl
      rcases hl with ⟨p, hp, rfl⟩ | hl
      · exact hpk p.1 (by simp only [Expr.pairLegs, List.mem_append, List.mem_map]; exact Or.inl ⟨p, hp, rfl⟩) p.1 hi' rfl
      · exact Kids.kd_not_inner c.kids hndk l hl hi
    · refine hCc.mono ?_
      intro l hl hi
      have hi' := Kids.inner_sub c.kids l hi
      simp only [List.mem_append, List.mem_map] at hl
      rcases hl with ⟨p, hp, rfl⟩ | hl
      · exact hpk p.2 (by simp only [Expr.pairLegs, List.mem_append, List.mem_map]; exact Or.inr ⟨p, hp, rfl⟩) p.2 hi' rfl
      · exact Kids.bd_not_inner c.kids hndk l hl hi
  have habs : ∀ τ, sumPairs dim c.kids.binds
      (fun τ => prodL ((c.C :: c.Cc :: c.kids.leaves).map (fun g => g τ))) τ =
      sumPairs dim c.kids.pairs (fun τ => prodL ([c.C, c.Cc].map (fun g => g τ))) τ := by
    intro τ
    have := Kids.absorb dim c.kids hk hndk (· ∉ c.kids.inner) (fun ρ => c.C ρ * c.Cc ρ) hf (fun l hl h => h hl) τ
    rw [sumPairs_congr dim c.kids.pairs (g := fun ρ => c.C ρ * c.Cc ρ)
      (fun ρ => by simp only [List.map_cons, List.map_nil, prodL, mul_one]) τ, ← this]
    exact sumPairs_congr dim _ (fun ρ => by simp only [List.map_cons, prodL, mul_assoc]) τ
  unfold netValue Centre.normBinds Centre.normLeaves
  rw [sumPairs_append, sumPairs_congr dim c.phys habs, ← sumPairs_append]

end Ptn.Ein
