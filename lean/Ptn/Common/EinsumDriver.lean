import Ptn.Common.EinsumModel
/-! Line-protocol handler for the value-level network semantics (core Lean only).

  ein <dims d0,d1,…> <expr>      labels are the indices of the dimension list; `<expr>` in prefix form
        L <legs l,l,…|-> <data v,v,…>     a leaf tensor: its legs in axis order and its entries in C order
        D <pairs a:b,a:b,…|-> <expr> <expr>   `tensordot` of the two sub-expressions over the pairs
     → `free <legs> | eval <table> | full <table>`: the free legs in NumPy's order (`a`'s remaining legs, then
        `b`'s), the table (C order over the free legs) of the nested evaluation and of the one big sum over
        the binding record.  `bad-op` for anything malformed: unknown label, wrong number of entries, a pair
        that does not join a free leg of the left side with a free leg of the right side or joins legs of
        different dimensions (NumPy raises), a label used by two leaves.
  einrec <dims> <free l,…|-> <pairs a:b,…|-> L <legs> <data> L <legs> <data> …
     → `full <table>`: the flat network value `netValue` (one big sum over the given binding record of the product
        of the given leaf tensors), as a table over the listed free legs.  `bad-op` when a leaf is malformed, a
        label is used twice, the pairs do not join legs of equal dimension, or free + bound legs are not exactly
        the legs of the leaves.
-/
namespace Ptn.Ein

def parseNats (s : String) : Option (List Nat) :=
  if s = "-" then some [] else (s.splitOn ",").mapM (·.toNat?)

def parseInts (s : String) : Option (List Int) :=
  if s = "-" then some [] else (s.splitOn ",").mapM (·.toInt?)

def parsePairs (s : String) : Option (List (Nat × Nat)) :=
  if s = "-" then some [] else
    (s.splitOn ",").mapM (fun t => match t.splitOn ":" with
      | [a, b] => (match a.toNat?, b.toNat? with | some a, some b => some (a, b) | _, _ => none)
      | _ => none)

/-- prefix parser; returns the expression and the remaining tokens -/
def parseExpr (dims : Array Nat) : Nat → List String → Option (Expr Nat Int × List String)
  | 0, _ => none
  | _ + 1, "L" :: legs :: data :: rest =>
    match parseNats legs, parseInts data with
    | some legs, some data =>
      let dim := fun l => dims.getD l 0
      if legs.all (· < dims.size) ∧ legs.Nodup ∧ data.length = (legs.map dim).foldl (· * ·) 1 then
        some (Expr.leaf legs (leafOfData dim legs data.toArray), rest)
      else none
    | _, _ => none
  | fuel + 1, "D" :: pairs :: rest =>
    match parsePairs pairs with
    | none => none
    | some ps =>
      match parseExpr dims fuel rest with
      | none => none
      | some (a, rest) =>
        match parseExpr dims fuel rest with
        | none => none
        | some (b, rest) =>
          let dim := fun l => dims.getD l 0
          if ps.all (fun p => a.free.contains p.1 ∧ b.free.contains p.2 ∧ dim p.1 = dim p.2) ∧
              (ps.map Prod.fst).Nodup ∧ (ps.map Prod.snd).Nodup ∧ a.labels.all (fun l => !b.labels.contains l) then
            some (Expr.dot a b ps, rest)
          else none
  | _, _ => none

/-- the leaves of a flat network: `L <legs> <data>` repeated -/
def parseLeaves (dims : Array Nat) : Nat → List String → Option (List (List Nat × (Asg Nat → Int)))
  | _, [] => some []
  | 0, _ => none
  | fuel + 1, "L" :: legs :: data :: rest =>
    match parseNats legs, parseInts data, parseLeaves dims fuel rest with
    | some legs, some data, some more =>
      let dim := fun l => dims.getD l 0
      if legs.all (· < dims.size) ∧ legs.Nodup ∧ data.length = (legs.map dim).foldl (· * ·) 1 then
        some ((legs, leafOfData dim legs data.toArray) :: more)
      else none
    | _, _, _ => none
  | _, _ => none

def showInts (l : List Int) : String := if l.isEmpty then "-" else ",".intercalate (l.map toString)
def showNats (l : List Nat) : String := if l.isEmpty then "-" else ",".intercalate (l.map toString)

def handleEinRec (args : List String) : String :=
  match args with
  | dims :: free :: pairs :: toks =>
    match parseNats dims, parseNats free, parsePairs pairs with
    | some dl, some free, some ps =>
      let dims := dl.toArray
      let dim := fun l => dims.getD l 0
      match parseLeaves dims (toks.length + 1) toks with
      | none => "bad-op"
      | some leaves =>
        let all := (leaves.map (·.1)).flatten
        let used := free ++ ps.map Prod.fst ++ ps.map Prod.snd
        if all.Nodup ∧ used.Nodup ∧ used.all (all.contains ·) ∧ all.all (used.contains ·) ∧
            ps.all (fun p => dim p.1 = dim p.2) then
          "full " ++ showInts (table dim free
            (netValue dim ps (leaves.map (·.2))))
        else "bad-op"
    | _, _, _ => "bad-op"
  | _ => "bad-op"

def handleEin (args : List String) : String :=
  match args with
  | dims :: toks =>
    match parseNats dims with
    | none => "bad-op"
    | some dl =>
      let dims := dl.toArray
      match parseExpr dims (toks.length + 1) toks with
      | some (e, []) =>
        let dim := fun l => dims.getD l 0
        "free " ++ showNats e.free ++ " | eval " ++ showInts (table dim e.free (e.eval dim)) ++
          " | full " ++ showInts (table dim e.free (e.full dim))
      | _ => "bad-op"
  | _ => "bad-op"

end Ptn.Ein
