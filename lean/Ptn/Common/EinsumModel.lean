/-! Value-level semantics of labelled tensor networks (core Lean only, executable).

The leg-label calculi of C02/C04/C05/C08/C16 record WHICH legs a run of `numpy.tensordot` calls binds
(`T.binds`).  This file gives those records a VALUE: a tensor is a function from index assignments
(`Asg L = L → Nat`, one index per leg label) to a scalar; binding a pair of legs `(a, b)` sums over a
common index for both; `Expr` is an arbitrary nesting of pairwise contractions (what a program built
from `tensordot` calls computes), `Expr.eval` evaluates it the way the program does — pair by pair,
inner results first — and `Expr.full` is the one big sum over all bound pairs of the product of all
leaf tensors (what `numpy.einsum` over the binding record computes, and what the dense definitions of
state vectors, inner products and operator sandwiches are).  `Ptn/Common/Einsum.lean` proves
`eval = full` for every well-formed expression over every commutative semiring, and that `full` does not
depend on the order of the binding record.

Everything is generic in the scalar type `R` (only `+`, `*`, `0`, `1` are used); the driver instantiates
`R := Int`. -/
namespace Ptn.Ein

abbrev Asg (L : Type) := L → Nat

/-- `σ[l ↦ i]` -/
def upd {L : Type} [DecidableEq L] (σ : Asg L) (l : L) (i : Nat) : Asg L :=
  fun x => if x = l then i else σ x

section
variable {L : Type} [DecidableEq L] {R : Type} [Add R] [Mul R] [Zero R] [One R]

/-- `Σ_{i < n} f i` -/
def sumR (n : Nat) (f : Nat → R) : R := ((List.range n).map f).sum

/-- product of a list of scalars -/
def prodL : List R → R
  | [] => 1
  | x :: xs => x * prodL xs

/-- sum over a common index for every pair of the list (the first pair is the outermost sum); the range
of the index is the dimension of the FIRST leg of the pair (NumPy rejects a pair of unequal dimensions) -/
def sumPairs (dim : L → Nat) : List (L × L) → (Asg L → R) → Asg L → R
  | [], f, σ => f σ
  | (a, b) :: ps, f, σ => sumR (dim a) (fun i => sumPairs dim ps f (upd (upd σ a i) b i))

/-- value of the flat network with the given leaf tensors and binding record: one big sum over a common
index per bound pair of the product of all leaves -/
def netValue (dim : L → Nat) (binds : List (L × L)) (leaves : List (Asg L → R)) : Asg L → R :=
  sumPairs dim binds (fun τ => prodL (leaves.map (fun f => f τ)))

/-- an arbitrary nesting of pairwise contractions over leaf tensors -/
inductive Expr (L R : Type) where
  | leaf (legs : List L) (val : Asg L → R)
  | dot (a b : Expr L R) (pairs : List (L × L))

namespace Expr

/-- legs of the pairs -/
def pairLegs (ps : List (L × L)) : List L := ps.map Prod.fst ++ ps.map Prod.snd

/-- free legs: `a`'s remaining legs followed by `b`'s (NumPy's `tensordot` order) -/
def free : Expr L R → List L
  | leaf legs _ => legs
  | dot a b ps => (a.free.filter (fun l => !(ps.map Prod.fst).contains l)) ++
                  (b.free.filter (fun l => !(ps.map Prod.snd).contains l))

/-- the binding record: the pairs of the outermost contraction first -/
def binds : Expr L R → List (L × L)
  | leaf _ _ => []
  | dot a b ps => ps ++ (a.binds ++ b.binds)

/-- all leg labels that occur in the leaves -/
def labels : Expr L R → List L
  | leaf legs _ => legs
  | dot a b _ => a.labels ++ b.labels

/-- the leaf tensors, left to right -/
def leaves : Expr L R → List (List L × (Asg L → R))
  | leaf legs v => [(legs, v)]
  | dot a b _ => a.leaves ++ b.leaves

/-- product of all leaf tensors at one assignment -/
def leafProd (e : Expr L R) (σ : Asg L) : R := prodL (e.leaves.map (fun lf => lf.2 σ))

/-- evaluation as the program does it: inner contractions first, then the sum over this node's pairs -/
def eval (dim : L → Nat) : Expr L R → Asg L → R
  | leaf _ v => v
  | dot a b ps => sumPairs dim ps (fun σ => a.eval dim σ * b.eval dim σ)

/-- the one big sum over the whole binding record -/
def full (dim : L → Nat) (e : Expr L R) : Asg L → R := sumPairs dim e.binds e.leafProd

end Expr
end

/-! ### concrete leaf tensors for the driver: shape + C-order data -/

/-- C-order flat index of the assignment restricted to `legs` (`none`: an index is out of range) -/
def ravel {L : Type} (dim : L → Nat) (σ : Asg L) : List L → Option Nat
  | [] => some 0
  | l :: ls =>
    if σ l < dim l then
      match ravel dim σ ls with
      | some r => some (σ l * (ls.map dim).foldl (· * ·) 1 + r)
      | none => none
    else none

def leafOfData {L : Type} (dim : L → Nat) (legs : List L) (data : Array Int) : Asg L → Int :=
  fun σ => match ravel dim σ legs with
    | some k => data.getD k 0
    | none => 0

/-- all assignments of `legs` within `dim`, C order (last leg fastest), as updates of `σ` -/
def allAsg {L : Type} [DecidableEq L] (dim : L → Nat) : List L → Asg L → List (Asg L)
  | [], σ => [σ]
  | l :: ls, σ => (List.range (dim l)).flatMap (fun i => allAsg dim ls (upd σ l i))

/-- the dense table of a tensor-valued function over the given free legs, C order -/
def table {L : Type} [DecidableEq L] (dim : L → Nat) (legs : List L) (f : Asg L → Int) : List Int :=
  (allAsg dim legs (fun _ => 0)).map f

end Ptn.Ein
