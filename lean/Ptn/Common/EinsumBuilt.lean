import Ptn.Common.EinsumNet
/-! Provenance support for the value-level semantics (`Einsum*.lean`): criteria under which an expression
that a contraction program builds is strongly well-formed, and what its value then depends on.

* `Expr.labels_eq_leaves`     the labels of an expression are the legs of its leaves;
* `Expr.free_sublist_labels`  the free legs are a sublist of the labels;
* `Expr.swf_of_clean`         labels pairwise distinct + every leaf reads only its own legs + every pair joins a
                              free leg of the left with a free leg of the right operand (`PairsOK`, what a
                              successful `tensordot` guarantees) ⟹ strongly well-formed;
* `Expr.leafProd_perm`        the product of the leaves does not depend on their order;
* `Expr.eval_unique`          two strongly well-formed programs over the same leaves (in any order) with the same
                              binding record (in any order) have the same value;
* `sumPairs_orient_rel`       pairs may be turned around one by one (equal dimensions);
* `sumPairs_unord`            two records that agree as multisets of UNORDERED pairs give the same sum.
-/
namespace Ptn.Ein

set_option linter.unusedSectionVars false
variable {L : Type} [DecidableEq L] {R : Type} [CommSemiring R]

namespace Expr

theorem labels_eq_leaves (e : Expr L R) : e.labels = e.leaves.flatMap (·.1) := by
  induction e with
  | leaf legs v => simp [labels, leaves]
  | dot a b ps iha ihb => simp [labels, leaves, iha, ihb]

theorem free_sublist_labels (e : Expr L R) : e.free.Sublist e.labels := by
  induction e with
  | leaf legs v => exact List.Sublist.refl _
  | dot a b ps iha ihb =>
    exact List.Sublist.append ((List.filter_sublist).trans iha) ((List.filter_sublist).trans ihb)

theorem free_nodup (e : Expr L R) (h : e.labels.Nodup) : e.free.Nodup :=
  (free_sublist_labels e).nodup h

/-- what a successful `tensordot` guarantees about the pairs of every contraction of the expression -/
def PairsOK : Expr L R → Prop
  | leaf _ _ => True
  | dot a b ps => a.PairsOK ∧ b.PairsOK ∧ (∀ p ∈ ps, p.1 ∈ a.free ∧ p.2 ∈ b.free) ∧
      (ps.map Prod.fst).Nodup ∧ (ps.map Prod.snd).Nodup

/-- every leaf tensor reads only its own legs -/
def LeavesLocal (e : Expr L R) : Prop := ∀ lf ∈ e.leaves, DependsOn (· ∈ lf.1) lf.2

/-- **Criterion for strong well-formedness.**  Pairwise distinct labels, local leaves and admissible pairs. -/
theorem swf_of_clean (e : Expr L R) (hnd : e.labels.Nodup) (hloc : e.LeavesLocal) (hp : e.PairsOK) : e.SWF := by
  induction e with
  | leaf legs v => exact ⟨hnd, hloc (legs, v) (by simp [leaves])⟩
  | dot a b ps iha ihb =>
    obtain ⟨hpa, hpb, hps, hn1, hn2⟩ := hp
    simp only [labels, List.nodup_append] at hnd
    refine ⟨iha hnd.1 (fun lf h => hloc lf (by simp [leaves, h])) hpa,
      ihb hnd.2.1 (fun lf h => hloc lf (by simp [leaves, h])) hpb, ?_, hps, hn1, hn2⟩
    intro l hla hlb
    exact hnd.2.2 l hla l hlb rfl

theorem prodL_perm {xs ys : List R} (h : xs.Perm ys) : prodL xs = prodL ys := by
  induction h with
  | nil => rfl
  | cons x _ ih => simp [prodL, ih]
  | swap x y l => simp only [prodL]; rw [← mul_assoc, ← mul_assoc, mul_comm y x]
  | trans _ _ ih1 ih2 => rw [ih1, ih2]

theorem leafProd_of_leaves (e : Expr L R) (ls : List (List L × (Asg L → R))) (h : e.leaves.Perm ls)
    (σ : Asg L) : e.leafProd σ = prodL (ls.map (fun lf => lf.2 σ)) :=
  prodL_perm (h.map _)

/-- the product of the leaves does not depend on their order -/
theorem leafProd_perm (e₁ e₂ : Expr L R) (h : e₁.leaves.Perm e₂.leaves) (σ : Asg L) :
    e₁.leafProd σ = e₂.leafProd σ :=
  leafProd_of_leaves e₁ _ h σ

/-- **The value is determined by the record and the leaves.**  Two strongly well-formed programs with the same
leaves (any order) and the same binding record (any order) evaluate to the same tensor. -/
theorem eval_unique (dim : L → Nat) (e₁ e₂ : Expr L R) (h₁ : e₁.SWF) (h₂ : e₂.SWF)
    (hb : e₁.binds.Perm e₂.binds) (hl : e₁.leaves.Perm e₂.leaves) (σ : Asg L) :
    e₁.eval dim σ = e₂.eval dim σ :=
  eval_eq_of_perm dim e₁ e₂ h₁.wf h₂.wf hb (binds_nodup e₁ h₁) (leafProd_perm e₁ e₂ hl) σ

end Expr

/-! ### orientation, pair by pair -/

/-- the pairs of `ps` and `qs` agree position by position up to orientation -/
def OrientRel : List (L × L) → List (L × L) → Prop
  | [], [] => True
  | p :: ps, q :: qs => (p = q ∨ p = q.swap) ∧ OrientRel ps qs
  | _, _ => False

theorem sumPairs_orient_rel (dim : L → Nat) : ∀ (ps qs : List (L × L)), OrientRel ps qs →
    (∀ p ∈ qs, dim p.1 = dim p.2) → ∀ (f : Asg L → R) (σ : Asg L), sumPairs dim ps f σ = sumPairs dim qs f σ
  | [], [], _, _, _, _ => rfl
  | [], _ :: _, h, _, _, _ => by simp [OrientRel] at h
  | _ :: _, [], h, _, _, _ => by simp [OrientRel] at h
  | p :: ps, q :: qs, h, hd, f, σ => by
    obtain ⟨hpq, hrest⟩ := h
    obtain ⟨a, b⟩ := q
    have hab : dim a = dim b := hd (a, b) (by simp)
    have ih := sumPairs_orient_rel dim ps qs hrest (fun p hp => hd p (by simp [hp])) f
    rcases hpq with rfl | rfl
    · simp only [sumPairs]; congr 1; funext i; exact ih _
    · simp only [Prod.swap, sumPairs, hab]; congr 1; funext i
      rw [upd_pair_swap]; exact ih _

/-- a pair list together with all its pairs turned around: two records agree as multisets of UNORDERED pairs
iff their `unordL` are permutations of each other -/
def unordL (l : List (L × L)) : List (L × L) := l ++ l.map Prod.swap

theorem unordL_cons_perm (p : L × L) (l : List (L × L)) :
    (unordL (p :: l)).Perm (p :: p.swap :: unordL l) := by
  simp only [unordL, List.map_cons, List.cons_append]
  exact List.Perm.cons _ List.perm_middle

theorem unordL_perm {a b : List (L × L)} (h : a.Perm b) : (unordL a).Perm (unordL b) :=
  List.Perm.append h (h.map _)

/-- records that agree as multisets of unordered pairs agree, after a reordering, pair by pair up to
orientation -/
theorem exists_orient_of_unordL : ∀ (b a : List (L × L)), (unordL a).Perm (unordL b) →
    ∃ c, a.Perm c ∧ OrientRel c b
  | [], a, h => by
    have : a = [] := by
      have h' := h.length_eq
      simp only [unordL, List.length_append, List.length_map, List.length_nil] at h'
      exact List.eq_nil_of_length_eq_zero (by omega)
    subst this
    exact ⟨[], List.Perm.refl _, trivial⟩
  | q :: b', a, h => by
    have hq : q ∈ unordL a := h.mem_iff.2 (by simp [unordL])
    have hb := unordL_cons_perm q b'
    simp only [unordL, List.mem_append, List.mem_map] at hq
    rcases hq with hq | ⟨p, hp, rfl⟩
    · have ha : a.Perm (q :: a.erase q) := List.perm_cons_erase hq
      have h1 := ((unordL_perm ha).symm.trans h).trans hb
      have h2 := (unordL_cons_perm q (a.erase q)).symm.trans h1
      have h3 := List.Perm.cons_inv (List.Perm.cons_inv h2)
      obtain ⟨c', hc1, hc2⟩ := exists_orient_of_unordL b' (a.erase q) h3
      exact ⟨q :: c', ha.trans (hc1.cons q), Or.inl rfl, hc2⟩
    · have ha : a.Perm (p :: a.erase p) := List.perm_cons_erase hp
      have h1 := ((unordL_perm ha).symm.trans h).trans hb
      have h2 := (unordL_cons_perm p (a.erase p)).symm.trans h1
      have h2' : (p :: p.swap :: unordL (a.erase p)).Perm (p :: p.swap :: unordL b') := by
        refine h2.trans ?_
        have : p.swap.swap = p := Prod.swap_swap p
        rw [this]
        exact List.Perm.swap _ _ _
      have h3 := List.Perm.cons_inv (List.Perm.cons_inv h2')
      obtain ⟨c', hc1, hc2⟩ := exists_orient_of_unordL b' (a.erase p) h3
      exact ⟨p :: c', ha.trans (hc1.cons p), Or.inr (Prod.swap_swap p).symm, hc2⟩

theorem pairLegs_perm_of_orientRel : ∀ (ps qs : List (L × L)), OrientRel ps qs →
    (Expr.pairLegs ps).Perm (Expr.pairLegs qs)
  | [], [], _ => List.Perm.refl _
  | [], _ :: _, h => by simp [OrientRel] at h
  | _ :: _, [], h => by simp [OrientRel] at h
  | p :: ps, q :: qs, h => by
    obtain ⟨hpq, hrest⟩ := h
    have ih := pairLegs_perm_of_orientRel ps qs hrest
    refine (pairLegs_cons_perm p ps).trans (List.Perm.trans ?_ (pairLegs_cons_perm q qs).symm)
    rcases hpq with rfl | rfl
    · exact (ih.cons _).cons _
    · exact (List.Perm.swap _ _ _).trans ((ih.cons _).cons _)

/-- "no leg is bound twice" does not depend on the orientation of the pairs -/
theorem nodup_pairLegs_of_unordL (ps qs : List (L × L)) (h : (unordL ps).Perm (unordL qs))
    (hnd : (Expr.pairLegs ps).Nodup) : (Expr.pairLegs qs).Nodup := by
  obtain ⟨c, hc1, hc2⟩ := exists_orient_of_unordL qs ps h
  exact (pairLegs_perm_of_orientRel c qs hc2).nodup_iff.1 ((pairLegs_perm hc1).nodup_iff.1 hnd)

/-- **Records that agree as multisets of unordered pairs give the same sum**, provided both legs of every
pair have the same dimension and no leg is bound twice. -/
theorem sumPairs_unord (dim : L → Nat) (ps qs : List (L × L)) (h : (unordL ps).Perm (unordL qs))
    (hdq : ∀ p ∈ qs, dim p.1 = dim p.2) (hnd : (Expr.pairLegs ps).Nodup) (f : Asg L → R) (σ : Asg L) :
    sumPairs dim ps f σ = sumPairs dim qs f σ := by
  obtain ⟨c, hc1, hc2⟩ := exists_orient_of_unordL qs ps h
  rw [sumPairs_perm dim hc1 hnd]
  exact sumPairs_orient_rel dim c qs hc2 hdq f σ

/-- **A contraction program with the (unoriented) record of `⟨B| O |K⟩` computes `⟨B| O |K⟩`.**  `K`, `O`, `B` are
well-formed nestings (ket network, operator network, bra network, each contracted over its own bonds) with
pairwise disjoint labels; `ppIn` joins free legs of `K` with free legs of `O` (operator inputs), `ppOut` joins
the remaining free legs of `O` with free legs of `B` (operator outputs); `spec` is the specification graph:
these pairs together with the bonds of the three layers.  Every strongly well-formed program `e` over the same
leaf tensors whose binding record agrees with `spec` AS A MULTISET OF UNORDERED PAIRS evaluates — provided both
legs of every pair have the same dimension (NumPy rejects anything else) — to `Σ_out (Σ_in K·O) · B`. -/
theorem Expr.sandwich_of_record (dim : L → Nat) (e K O B : Expr L R) (he : e.SWF) (hK : K.WF) (hO : O.WF)
    (hB : B.WF) (hKO : ∀ l ∈ K.labels, l ∉ O.labels) (hKB : ∀ l ∈ K.labels, l ∉ B.labels)
    (hOB : ∀ l ∈ O.labels, l ∉ B.labels) (ppIn ppOut spec : List (L × L))
    (hin : ∀ p ∈ ppIn, p.1 ∈ K.free ∧ p.2 ∈ O.free)
    (hout : ∀ p ∈ ppOut, (p.1 ∈ O.free ∧ p.1 ∉ ppIn.map Prod.snd) ∧ p.2 ∈ B.free)
    (hspec : (ppOut ++ ((ppIn ++ (K.binds ++ O.binds)) ++ B.binds)).Perm spec)
    (hrec : (unordL e.binds).Perm (unordL spec))
    (hdim : ∀ p ∈ spec, dim p.1 = dim p.2)
    (hleaf : ∀ σ, e.leafProd σ = K.leafProd σ * O.leafProd σ * B.leafProd σ) (σ : Asg L) :
    e.eval dim σ =
      sumPairs dim ppOut (fun τ => sumPairs dim ppIn (fun ρ => K.eval dim ρ * O.eval dim ρ) τ * B.eval dim τ) σ := by
  have h2 : (Expr.dot (Expr.dot K O ppIn) B ppOut).WF := by
    refine ⟨⟨hK, hO, hKO, hin⟩, hB, ?_, ?_⟩
    · intro l hl
      simp only [Expr.labels, List.mem_append] at hl
      rcases hl with hl | hl
      · exact hKB l hl
      · exact hOB l hl
    · intro p hp
      refine ⟨?_, (hout p hp).2⟩
      simp only [Expr.free, List.mem_append, List.mem_filter]
      refine Or.inr ⟨(hout p hp).1.1, ?_⟩
      simpa using (hout p hp).1.2
  have hnd := Expr.binds_nodup e he
  have e2 : (Expr.dot (Expr.dot K O ppIn) B ppOut).eval dim σ =
      sumPairs dim ppOut (fun τ => sumPairs dim ppIn (fun ρ => K.eval dim ρ * O.eval dim ρ) τ * B.eval dim τ) σ := rfl
  rw [← e2, Expr.eval_eq_full dim e he.wf, Expr.eval_eq_full dim _ h2]
  simp only [Expr.full]
  rw [sumPairs_unord dim e.binds spec hrec hdim hnd,
    sumPairs_perm dim hspec.symm (nodup_pairLegs_of_unordL _ _ hrec hnd)]
  apply sumPairs_congr
  intro τ
  rw [hleaf, Expr.leafProd_dot, Expr.leafProd_dot]

end Ptn.Ein
