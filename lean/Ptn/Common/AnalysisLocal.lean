/-
Abstract linear algebra, part L3: conservation laws of one *local step* of a projector-splitting
integrator (TDVP, BUG).

Setting: `E : Matrix N d ℂ` embeds the local tensor `φ : d → ℂ` into the full state space
(`E` is the contraction of all the other, orthogonalised, tensors), `H : Matrix N N ℂ` is the
full Hamiltonian, `K = Eᴴ * H * E` is the effective Hamiltonian handed to the local
time evolution and `U = exp ((-i t) • K)` is the local propagator.  The full state before the
step is `E *ᵥ φ`, after the step it is `E *ᵥ (U *ᵥ φ)`.

The squared norm of `ψ` is written `star ψ ⬝ᵥ ψ`, the energy `star ψ ⬝ᵥ (H *ᵥ ψ)`.
-/
import Ptn.Common.AnalysisIso
import Ptn.Common.AnalysisExp
import Mathlib.LinearAlgebra.Matrix.DotProduct
import Mathlib.Analysis.Complex.Order

namespace Ptn.Analysis

open Matrix NormedSpace

section Local

variable {N d : Type*} [Fintype N] [Fintype d] [DecidableEq d]

omit [Fintype d] [DecidableEq d] in
/-- **L3.** The effective Hamiltonian of a Hermitian Hamiltonian is Hermitian (for *any* `E`).
Used by C05/C06/C07/C09. -/
theorem effective_hermitian (E : Matrix N d ℂ) (H : Matrix N N ℂ) (hH : Hᴴ = H) :
    (Eᴴ * H * E)ᴴ = Eᴴ * H * E := by
  rw [conjTranspose_mul, conjTranspose_mul, conjTranspose_conjTranspose, hH, Matrix.mul_assoc]

omit [DecidableEq d] in
/-- **L3.** The energy of the embedded state is the quadratic form of the effective Hamiltonian
on the local tensor (for *any* `E`). -/
theorem energy_eq_effective (E : Matrix N d ℂ) (H : Matrix N N ℂ) (φ : d → ℂ) :
    star (E *ᵥ φ) ⬝ᵥ (H *ᵥ (E *ᵥ φ)) = star φ ⬝ᵥ ((Eᴴ * H * E) *ᵥ φ) := by
  simp only [star_mulVec, mulVec_mulVec, dotProduct_mulVec, vecMul_vecMul, Matrix.mul_assoc]

omit [Fintype N] in
/-- A unitary that commutes with `K` leaves the quadratic form of `K` invariant. -/
theorem quadratic_form_unitary_commute (K U : Matrix d d ℂ) (hU : Uᴴ * U = 1)
    (hUK : U * K = K * U) (φ : d → ℂ) :
    star (U *ᵥ φ) ⬝ᵥ (K *ᵥ (U *ᵥ φ)) = star φ ⬝ᵥ (K *ᵥ φ) := by
  rw [star_mulVec, mulVec_mulVec, ← hUK, dotProduct_mulVec, vecMul_vecMul, ← Matrix.mul_assoc, hU,
    Matrix.one_mul, ← dotProduct_mulVec]

/-- **L3 (a), abstract propagator.** If `E` is an isometry and `U` is unitary then the local
step preserves the norm of the full state. -/
theorem local_flow_norm_of_unitary (E : Matrix N d ℂ) (U : Matrix d d ℂ)
    (hE : Eᴴ * E = 1) (hU : Uᴴ * U = 1) (φ : d → ℂ) :
    star (E *ᵥ (U *ᵥ φ)) ⬝ᵥ (E *ᵥ (U *ᵥ φ)) = star (E *ᵥ φ) ⬝ᵥ (E *ᵥ φ) := by
  rw [isometry_norm E hE, isometry_norm U hU, isometry_norm E hE]

/-- **L3 (b), abstract propagator.** If `U` is unitary and commutes with the effective
Hamiltonian `K = Eᴴ H E` then the local step preserves the energy of the full state.
(Neither `EᴴE = 1` nor `Hᴴ = H` is needed at this level of generality.) -/
theorem local_flow_energy_of_unitary (E : Matrix N d ℂ) (H : Matrix N N ℂ) (U : Matrix d d ℂ)
    (hU : Uᴴ * U = 1) (hUK : U * (Eᴴ * H * E) = (Eᴴ * H * E) * U) (φ : d → ℂ) :
    star (E *ᵥ (U *ᵥ φ)) ⬝ᵥ (H *ᵥ (E *ᵥ (U *ᵥ φ))) = star (E *ᵥ φ) ⬝ᵥ (H *ᵥ (E *ᵥ φ)) := by
  rw [energy_eq_effective E H (U *ᵥ φ), energy_eq_effective E H φ,
    quadratic_form_unitary_commute _ U hU hUK]

omit [Fintype N] [Fintype d] [DecidableEq d] in
/-- A purely imaginary multiple of a Hermitian matrix is skew-Hermitian. -/
theorem skew_smul_hermitian (K : Matrix d d ℂ) (hK : Kᴴ = K) (c : ℂ) (hc : star c = -c) :
    (c • K)ᴴ = -(c • K) := by
  rw [conjTranspose_smul, hK, hc, neg_smul]

/-- `-i t` is purely imaginary for real `t`. -/
theorem star_neg_I_mul (t : ℝ) : star (-Complex.I * (t : ℂ)) = -(-Complex.I * (t : ℂ)) := by
  simp

/-- `i t` is purely imaginary for real `t`. -/
theorem star_I_mul (t : ℝ) : star (Complex.I * (t : ℂ)) = -(Complex.I * (t : ℂ)) := by
  simp

/-- **L3.** The local propagator `exp (c • K)`, `c` purely imaginary, of a Hermitian Hamiltonian
is unitary. -/
theorem local_propagator_unitary (E : Matrix N d ℂ) (H : Matrix N N ℂ) (hH : Hᴴ = H)
    (c : ℂ) (hc : star c = -c) :
    (exp (c • (Eᴴ * H * E)))ᴴ * exp (c • (Eᴴ * H * E)) = 1 :=
  exp_unitary_of_skewHermitian _ (skew_smul_hermitian _ (effective_hermitian E H hH) c hc)

/-- **L3 (a), purely imaginary coefficient** (covers both `-i t` and `+i t`). -/
theorem local_flow_norm_of_imag (E : Matrix N d ℂ) (H : Matrix N N ℂ)
    (hE : Eᴴ * E = 1) (hH : Hᴴ = H) (c : ℂ) (hc : star c = -c) (φ : d → ℂ) :
    star (E *ᵥ (exp (c • (Eᴴ * H * E)) *ᵥ φ)) ⬝ᵥ (E *ᵥ (exp (c • (Eᴴ * H * E)) *ᵥ φ))
      = star (E *ᵥ φ) ⬝ᵥ (E *ᵥ φ) :=
  local_flow_norm_of_unitary E _ hE (local_propagator_unitary E H hH c hc) φ

/-- **L3 (b), purely imaginary coefficient** (covers both `-i t` and `+i t`). -/
theorem local_flow_energy_of_imag (E : Matrix N d ℂ) (H : Matrix N N ℂ)
    (hH : Hᴴ = H) (c : ℂ) (hc : star c = -c) (φ : d → ℂ) :
    star (E *ᵥ (exp (c • (Eᴴ * H * E)) *ᵥ φ)) ⬝ᵥ
        (H *ᵥ (E *ᵥ (exp (c • (Eᴴ * H * E)) *ᵥ φ)))
      = star (E *ᵥ φ) ⬝ᵥ (H *ᵥ (E *ᵥ φ)) :=
  local_flow_energy_of_unitary E H _ (local_propagator_unitary E H hH c hc)
    (commute_exp _ c).symm φ

/-- **L3 (a).** One local step `φ ↦ exp (-i t K) φ`, `K = Eᴴ H E`, with `E` an isometry and `H`
Hermitian, preserves the norm of the full state `E φ`.
Used by C05/C06/C07 (every site and link update of TDVP) and C09 (BUG). -/
theorem local_flow_norm (E : Matrix N d ℂ) (H : Matrix N N ℂ)
    (hE : Eᴴ * E = 1) (hH : Hᴴ = H) (t : ℝ) (φ : d → ℂ) :
    star (E *ᵥ (exp ((-Complex.I * (t : ℂ)) • (Eᴴ * H * E)) *ᵥ φ)) ⬝ᵥ
        (E *ᵥ (exp ((-Complex.I * (t : ℂ)) • (Eᴴ * H * E)) *ᵥ φ))
      = star (E *ᵥ φ) ⬝ᵥ (E *ᵥ φ) :=
  local_flow_norm_of_imag E H hE hH _ (star_neg_I_mul t) φ

/-- **L3 (b).** One local step `φ ↦ exp (-i t K) φ`, `K = Eᴴ H E`, `H` Hermitian, preserves the
energy `⟨E φ, H E φ⟩` of the full state.  (The isometry hypothesis on `E` is not needed for
the energy.)  Used by C05/C06/C07 and C09. -/
theorem local_flow_energy (E : Matrix N d ℂ) (H : Matrix N N ℂ)
    (hH : Hᴴ = H) (t : ℝ) (φ : d → ℂ) :
    star (E *ᵥ (exp ((-Complex.I * (t : ℂ)) • (Eᴴ * H * E)) *ᵥ φ)) ⬝ᵥ
        (H *ᵥ (E *ᵥ (exp ((-Complex.I * (t : ℂ)) • (Eᴴ * H * E)) *ᵥ φ)))
      = star (E *ᵥ φ) ⬝ᵥ (H *ᵥ (E *ᵥ φ)) :=
  local_flow_energy_of_imag E H hH _ (star_neg_I_mul t) φ

/-- **L3 (a), backward step** `φ ↦ exp (+i t K) φ` (the link update of one-site TDVP). -/
theorem local_flow_norm_backward (E : Matrix N d ℂ) (H : Matrix N N ℂ)
    (hE : Eᴴ * E = 1) (hH : Hᴴ = H) (t : ℝ) (φ : d → ℂ) :
    star (E *ᵥ (exp ((Complex.I * (t : ℂ)) • (Eᴴ * H * E)) *ᵥ φ)) ⬝ᵥ
        (E *ᵥ (exp ((Complex.I * (t : ℂ)) • (Eᴴ * H * E)) *ᵥ φ))
      = star (E *ᵥ φ) ⬝ᵥ (E *ᵥ φ) :=
  local_flow_norm_of_imag E H hE hH _ (star_I_mul t) φ

/-- **L3 (b), backward step** `φ ↦ exp (+i t K) φ`. -/
theorem local_flow_energy_backward (E : Matrix N d ℂ) (H : Matrix N N ℂ)
    (hH : Hᴴ = H) (t : ℝ) (φ : d → ℂ) :
    star (E *ᵥ (exp ((Complex.I * (t : ℂ)) • (Eᴴ * H * E)) *ᵥ φ)) ⬝ᵥ
        (H *ᵥ (E *ᵥ (exp ((Complex.I * (t : ℂ)) • (Eᴴ * H * E)) *ᵥ φ)))
      = star (E *ᵥ φ) ⬝ᵥ (H *ᵥ (E *ᵥ φ)) :=
  local_flow_energy_of_imag E H hH _ (star_I_mul t) φ

/-! ### Partial isometries (zero-padded bonds, KEEP mode)

`Eᴴ * E = P` with `P * P = P` (then `Pᴴ = P` automatically) and the local tensor lives in the
range of `P`: `P *ᵥ φ = φ`. -/

omit [Fintype d] [DecidableEq d] in
/-- The Gram matrix of any matrix is Hermitian. -/
theorem gram_hermitian (E : Matrix N d ℂ) : (Eᴴ * E)ᴴ = Eᴴ * E := by
  rw [conjTranspose_mul, conjTranspose_conjTranspose]

omit [DecidableEq d] in
/-- **L3 (partial).** A partial isometry absorbs its initial projector: `E * P = E`. -/
theorem partial_isometry_absorb (E : Matrix N d ℂ) (P : Matrix d d ℂ)
    (hE : Eᴴ * E = P) (hP : P * P = P) : E * P = E := by
  open scoped ComplexOrder in
  have hPh : Pᴴ = P := by rw [← hE, gram_hermitian]
  have h0 : (E * P - E)ᴴ * (E * P - E) = 0 := by
    have e1 : Eᴴ * (E * P) = P := by rw [← Matrix.mul_assoc, hE, hP]
    rw [conjTranspose_sub, conjTranspose_mul, hPh]
    simp only [Matrix.sub_mul, Matrix.mul_sub, Matrix.mul_assoc, e1, hE, hP, sub_self]
  exact sub_eq_zero.mp (conjTranspose_mul_self_eq_zero.mp h0)

omit [DecidableEq d] in
/-- **L3 (partial).** The effective Hamiltonian lives in the range of the projector:
`P * K = K` and `K * P = K`, hence `K = P * K * P`. -/
theorem effective_projected (E : Matrix N d ℂ) (H : Matrix N N ℂ) (P : Matrix d d ℂ)
    (hE : Eᴴ * E = P) (hP : P * P = P) :
    P * (Eᴴ * H * E) = Eᴴ * H * E ∧ (Eᴴ * H * E) * P = Eᴴ * H * E ∧
      P * (Eᴴ * H * E) * P = Eᴴ * H * E := by
  have hEP := partial_isometry_absorb E P hE hP
  have hPh : Pᴴ = P := by rw [← hE, gram_hermitian]
  have hPE : P * Eᴴ = Eᴴ := by
    have := congrArg conjTranspose hEP
    rwa [conjTranspose_mul, hPh] at this
  have h1 : P * (Eᴴ * H * E) = Eᴴ * H * E := by
    rw [← Matrix.mul_assoc, ← Matrix.mul_assoc, hPE]
  have h2 : (Eᴴ * H * E) * P = Eᴴ * H * E := by
    rw [Matrix.mul_assoc, hEP]
  exact ⟨h1, h2, by rw [h1, h2]⟩

/-- **L3 (partial).** The local flow keeps the tensor in the range of the projector:
`P φ = φ → P (exp (c K) φ) = exp (c K) φ` (zero-padded bond components stay zero). -/
theorem local_flow_range (E : Matrix N d ℂ) (H : Matrix N N ℂ) (P : Matrix d d ℂ)
    (hE : Eᴴ * E = P) (hP : P * P = P) (c : ℂ) (φ : d → ℂ) (hφ : P *ᵥ φ = φ) :
    P *ᵥ (exp (c • (Eᴴ * H * E)) *ᵥ φ) = exp (c • (Eᴴ * H * E)) *ᵥ φ := by
  obtain ⟨h1, h2, -⟩ := effective_projected E H P hE hP
  rw [mulVec_mulVec, commute_exp_of_commute P _ c (h1.trans h2.symm), ← mulVec_mulVec, hφ]

omit [DecidableEq d] in
/-- The squared norm of `E ψ` for a partial isometry and `ψ` in the range of its projector. -/
theorem partial_isometry_norm (E : Matrix N d ℂ) (P : Matrix d d ℂ) (hE : Eᴴ * E = P)
    (ψ : d → ℂ) (hψ : P *ᵥ ψ = ψ) : star (E *ᵥ ψ) ⬝ᵥ (E *ᵥ ψ) = star ψ ⬝ᵥ ψ := by
  rw [star_mulVec, dotProduct_mulVec, vecMul_vecMul, hE, ← dotProduct_mulVec, hψ]

/-- **L3 (a), partial isometry.** Norm conservation of the local step when `E` is only a partial
isometry (`EᴴE = P`, `P² = P`) and `φ` lies in the range of `P`. Used by C06/C07 with
zero-padded bonds (KEEP mode of C11). -/
theorem local_flow_norm_partial (E : Matrix N d ℂ) (H : Matrix N N ℂ) (P : Matrix d d ℂ)
    (hE : Eᴴ * E = P) (hP : P * P = P) (hH : Hᴴ = H) (c : ℂ) (hc : star c = -c)
    (φ : d → ℂ) (hφ : P *ᵥ φ = φ) :
    star (E *ᵥ (exp (c • (Eᴴ * H * E)) *ᵥ φ)) ⬝ᵥ (E *ᵥ (exp (c • (Eᴴ * H * E)) *ᵥ φ))
      = star (E *ᵥ φ) ⬝ᵥ (E *ᵥ φ) := by
  rw [partial_isometry_norm E P hE _ (local_flow_range E H P hE hP c φ hφ),
    partial_isometry_norm E P hE φ hφ,
    isometry_norm _ (local_propagator_unitary E H hH c hc)]

end Local

/-! ### Non-vacuity: a concrete instance -/

section Examples

/-- A `3 × 2` isometry (embedding of the first two coordinates). -/
def emb32 : Matrix (Fin 3) (Fin 2) ℂ := !![1, 0; 0, 1; 0, 0]

/-- A Hermitian `3 × 3` matrix, not diagonal, not commuting with `emb32 * emb32ᴴ`. -/
def ham3 : Matrix (Fin 3) (Fin 3) ℂ := !![0, 1, 0; 1, 0, Complex.I; 0, -Complex.I, 2]

theorem emb32_isometry : emb32ᴴ * emb32 = 1 := by
  ext i j
  fin_cases i <;> fin_cases j <;> simp [emb32, Matrix.mul_apply, Fin.sum_univ_three]

theorem ham3_hermitian : ham3ᴴ = ham3 := by
  ext i j
  fin_cases i <;> fin_cases j <;> simp [ham3]

/-- The effective Hamiltonian of the example is Pauli `X`, so the flow is not trivial. -/
theorem emb32_effective : emb32ᴴ * ham3 * emb32 = pauliX := by
  ext i j
  fin_cases i <;> fin_cases j <;>
    simp [emb32, ham3, pauliX, Matrix.mul_apply, Fin.sum_univ_three]

example (t : ℝ) (φ : Fin 2 → ℂ) :
    star (emb32 *ᵥ (exp ((-Complex.I * (t : ℂ)) • (emb32ᴴ * ham3 * emb32)) *ᵥ φ)) ⬝ᵥ
        (emb32 *ᵥ (exp ((-Complex.I * (t : ℂ)) • (emb32ᴴ * ham3 * emb32)) *ᵥ φ))
      = star (emb32 *ᵥ φ) ⬝ᵥ (emb32 *ᵥ φ) :=
  local_flow_norm emb32 ham3 emb32_isometry ham3_hermitian t φ

example (t : ℝ) (φ : Fin 2 → ℂ) :
    star (emb32 *ᵥ (exp ((-Complex.I * (t : ℂ)) • (emb32ᴴ * ham3 * emb32)) *ᵥ φ)) ⬝ᵥ
        (ham3 *ᵥ (emb32 *ᵥ (exp ((-Complex.I * (t : ℂ)) • (emb32ᴴ * ham3 * emb32)) *ᵥ φ)))
      = star (emb32 *ᵥ φ) ⬝ᵥ (ham3 *ᵥ (emb32 *ᵥ φ)) :=
  local_flow_energy emb32 ham3 ham3_hermitian t φ

/-- A proper partial isometry: `emb32` padded with a zero column; its projector is
`diag(1,1,0) ≠ 1`, and `φ = (a, b, 0)` lies in its range. -/
example (H : Matrix (Fin 3) (Fin 3) ℂ) (hH : Hᴴ = H) (t : ℝ) (a b : ℂ) :
    let E : Matrix (Fin 3) (Fin 2 ⊕ Fin 1) ℂ := fromCols emb32 0
    let φ : Fin 2 ⊕ Fin 1 → ℂ := Sum.elim ![a, b] ![0]
    star (E *ᵥ (exp ((-Complex.I * (t : ℂ)) • (Eᴴ * H * E)) *ᵥ φ)) ⬝ᵥ
        (E *ᵥ (exp ((-Complex.I * (t : ℂ)) • (Eᴴ * H * E)) *ᵥ φ))
      = star (E *ᵥ φ) ⬝ᵥ (E *ᵥ φ) := by
  intro E φ
  have hP := partial_isometry_pad (p := Fin 1) emb32 (1 : Matrix (Fin 2) (Fin 2) ℂ) emb32_isometry
  refine local_flow_norm_partial E H _ rfl hP.2.1 hH _ (star_neg_I_mul t) φ ?_
  rw [pad_gram emb32 emb32_isometry]
  ext i
  rcases i with i | i
  · simp [φ, fromBlocks_mulVec]
  · simp [φ, fromBlocks_mulVec]

end Examples

end Ptn.Analysis
