import Ptn.C05.ProjectedTree
/-! The parent-direction environment block (C05, value level, Goal 3).

A site that is not the root has one more neighbour than its children: its parent `p`.  The cached block from `p`
toward the site is the sandwich of the COMPLEMENT of the site's subtree.  In the code (`update_tree_cache(p, i)` /
`contract_any(p, i, …)`) and in the C04 model (`opContractAnyNodeEnvironmentButOne` with `next = i`) it is the
contraction of `p`'s ket, operator and bra tensors with all blocks toward `p` except the one from `i` — the blocks of
`p`'s other children (leaf-to-root blocks, `soBlock`) and, unless `p` is the root, the block from `p`'s own parent
toward `p`, built the same way one level higher.

`Ctx` is the part of a tree above a hole (a path of frames up to the root: parent, left siblings, right siblings);
`Ctx.blockBinds` is the record of the block from the parent toward the hole, defined by exactly that recursion;
`ctx_block_is_model` shows that the model's call returns a block with this record;
`block_record_is_component_sandwich` shows by induction over the distance from the hole that the record is — as a
multiset of unordered pairs — the sandwich record of the component behind `p`. -/
namespace Ptn.C05.Heff
open Ptn.C04 Ptn.Ein

/-- the part of a tree above a hole: `frame p ls rs up` — the hole is the child of `p` between the subtrees `ls` and
`rs`, and `up` is what lies above `p` -/
inductive Ctx where
  | root
  | frame (p : Nat) (ls rs : List Tree) (up : Ctx)

namespace Ctx

/-- the parent of the hole -/
def parent : Ctx → Option Nat
  | root => none
  | frame p _ _ _ => some p

/-- the whole tree, with `t` in the hole -/
def plug : Ctx → Tree → Tree
  | root, t => t
  | frame p ls rs up, t => up.plug (Tree.node p (ls ++ t :: rs))

/-- the identifiers of the component above the hole (everything but the subtree in the hole) -/
def ids : Ctx → List Nat
  | root => []
  | frame p ls rs up => p :: (Tree.idsL (ls ++ rs) ++ up.ids)

/-- the edges `(parent, child)` inside the component above the hole -/
def compEdges : Ctx → List (Nat × Nat)
  | root => []
  | frame p ls rs up => Tree.edgesL p (ls ++ rs) ++ (up.parent.toList.map (fun q => (q, p)) ++ up.compEdges)

/-- all edges of the tree outside the subtree in the hole `h`: the edge to the hole, then the component's -/
def edges (c : Ctx) (h : Nat) : List (Nat × Nat) := c.parent.toList.map (fun p => (p, h)) ++ c.compEdges

/-- the record of the block from the parent toward the hole, as the model builds it: the parent's neighbours other
than the hole are its own parent (block: one level higher) and the siblings `ls ++ rs` (blocks: `soBlockBinds`), in
the parent's neighbour order -/
def blockBinds : Ctx → List (Leg × Leg)
  | root => []
  | frame p ls rs up =>
    ((up.parent.toList ++ (ls ++ rs).map Tree.id).flatMap
        (fun n => (if up.parent = some n then blockBinds up else soBbOf (ls ++ rs) n) ++ [(Leg.gKet p n, Leg.gKet n p)]) ++
      ((up.parent.toList ++ (ls ++ rs).map Tree.id).map (fun n => (Leg.gOp n p, Leg.gOp p n)) ++ [physIn p])) ++
    ((up.parent.toList ++ (ls ++ rs).map Tree.id).map (fun n => (Leg.gBra n p, Leg.gBra p n)) ++ [physOut p])

/-- the sandwich record of the component above the hole -/
def compSpec (c : Ctx) : List (Leg × Leg) :=
  c.ids.map physOut ++ (c.ids.map physIn ++ ((c.compEdges.map fun e => ketEdge e.1 e.2) ++
    ((c.compEdges.map fun e => opEdge e.1 e.2) ++ (c.compEdges.map fun e => braEdge e.1 e.2))))

/-- structural form of the record (distinct identifiers) -/
theorem blockBinds_frame (p : Nat) (ls rs : List Tree) (up : Ctx) (hk : ((ls ++ rs).map Tree.id).Nodup)
    (hq : ∀ q, up.parent = some q → q ∉ (ls ++ rs).map Tree.id) :
    blockBinds (frame p ls rs up) =
      (((up.blockBinds ++ up.parent.toList.map (fun q => (ketEdge q p).swap)) ++ soKidsBinds p (ls ++ rs)) ++
        ((up.parent.toList.map (fun q => (opEdge q p).swap) ++ (ls ++ rs).map (fun c => opEdge p c.id)) ++
          [physIn p])) ++
      ((up.parent.toList.map (fun q => (braEdge q p).swap) ++ (ls ++ rs).map (fun c => braEdge p c.id)) ++
        [physOut p]) := by
  simp only [blockBinds]
  generalize ls ++ rs = sibs at *
  have hkids : (sibs.map Tree.id).flatMap
      (fun n => (if up.parent = some n then blockBinds up else soBbOf sibs n) ++ [(Leg.gKet p n, Leg.gKet n p)])
      = soKidsBinds p sibs := by
    rw [← soKidsBinds_eq p sibs hk]
    apply flatMap_congr'
    intro n hn
    have : ¬ up.parent = some n := fun h => hq n h hn
    simp [this, ketEdge]
  have hpar : up.parent.toList.flatMap
      (fun n => (if up.parent = some n then blockBinds up else soBbOf sibs n) ++ [(Leg.gKet p n, Leg.gKet n p)])
      = up.blockBinds ++ up.parent.toList.map (fun q => (ketEdge q p).swap) := by
    cases up with
    | root => simp [parent, blockBinds]
    | frame q ls' rs' up' => simp [parent, ketEdge]
  have hop : up.parent.toList.map (fun n => (Leg.gOp n p, Leg.gOp p n)) =
      up.parent.toList.map (fun q => (opEdge q p).swap) := by
    apply List.map_congr_left; intro q _; rfl
  have hbra : up.parent.toList.map (fun n => (Leg.gBra n p, Leg.gBra p n)) =
      up.parent.toList.map (fun q => (braEdge q p).swap) := by
    apply List.map_congr_left; intro q _; rfl
  rw [List.flatMap_append, List.map_append, List.map_append, hkids, hpar, hop, hbra, List.map_map, List.map_map]
  rfl

theorem parent_mem_ids {c : Ctx} {q : Nat} (h : c.parent = some q) : q ∈ c.ids := by
  cases c with
  | root => simp [parent] at h
  | frame p ls rs up =>
    simp only [parent, Option.some.injEq] at h
    subst h
    simp [ids]

theorem count_map_swap' {α : Type} (x : Leg × Leg) (l : List α) (f : α → Leg × Leg) :
    (l.map fun q => (f q).swap).count x = (l.map f).count x.swap := by
  rw [← count_map_swap, List.map_map]
  rfl

/-- the record of the parent-direction block and the sandwich record of the component contain every unordered pair
equally often -/
theorem ucount_blockBinds : ∀ (c : Ctx), c.ids.Nodup → ∀ x : Leg × Leg,
    c.blockBinds.count x + c.blockBinds.count x.swap = c.compSpec.count x + c.compSpec.count x.swap
  | root, _, x => by simp [blockBinds, compSpec, ids, compEdges]
  | frame p ls rs up, hnd, x => by
    simp only [ids, List.nodup_cons, List.nodup_append] at hnd
    have hk : ((ls ++ rs).map Tree.id).Nodup := Tree.nodup_kid_ids _ hnd.2.1
    have hq : ∀ q, up.parent = some q → q ∉ (ls ++ rs).map Tree.id := fun q hq hm =>
      hnd.2.2.2 q (Tree.kid_id_mem _ q hm) q (parent_mem_ids hq) rfl
    rw [blockBinds_frame p ls rs up hk hq]
    have ih := ucount_blockBinds up hnd.2.2.1 x
    have h1 := count_soKidsBinds x p (ls ++ rs)
    have h1' := count_soKidsBinds x.swap p (ls ++ rs)
    have h2 := count_soSpecL_split x p (ls ++ rs)
    have h2' := count_soSpecL_split x.swap p (ls ++ rs)
    simp only [compSpec, ids, compEdges] at ih ⊢
    generalize ls ++ rs = sibs at *
    simp only [List.map_append, List.map_cons, List.count_append, List.count_cons, List.count_nil,
      count_map_swap', Prod.swap_swap, List.map_map, Function.comp_def] at ih ⊢
    omega

theorem count_unordL (x : Leg × Leg) (l : List (Leg × Leg)) : (unordL l).count x = l.count x + l.count x.swap := by
  simp [unordL, List.count_append, count_map_swap]

/-- **The parent-direction block carries the sandwich record of the component behind the parent.**  For every
context with pairwise distinct identifiers — a parent at any depth, any numbers of siblings and ancestors — the record
of the block from the parent toward the hole, built as the model builds it (the parent's three tensors, the
leaf-to-root blocks of the siblings, and the block from the grandparent built the same way), is, as a multiset of
unordered pairs, the sandwich record of the component: the physical pairs of all nodes outside the hole's subtree
and the ket / operator / bra bonds of all edges among them.  Induction over the distance from the hole. -/
theorem block_record_is_component_sandwich (c : Ctx) (hnd : c.ids.Nodup) :
    (unordL c.blockBinds).Perm (unordL c.compSpec) := by
  rw [List.perm_iff_count]
  intro x
  rw [count_unordL, count_unordL]
  exact ucount_blockBinds c hnd x

/-! ### the context and the whole tree -/

theorem idsL_append (a b : List Tree) : Tree.idsL (a ++ b) = Tree.idsL a ++ Tree.idsL b := by
  simp [idsL_eq_flatMap]

theorem idsL_insert_perm (ls rs : List Tree) (t : Tree) :
    (Tree.idsL (ls ++ t :: rs)).Perm (Tree.idsL (ls ++ rs) ++ t.ids) := by
  rw [idsL_append, idsL_append]
  simp only [Tree.idsL]
  rw [List.append_assoc]
  exact List.Perm.append_left _ List.perm_append_comm

theorem edgesL_insert_perm (p : Nat) (ls rs : List Tree) (t : Tree) :
    (Tree.edgesL p (ls ++ t :: rs)).Perm ((p, t.id) :: (Tree.edgesL p (ls ++ rs) ++ t.edges)) := by
  refine (edgesL_perm p _).trans ?_
  refine List.Perm.trans ?_ ((List.Perm.append_right _ (edgesL_perm p (ls ++ rs)).symm).cons _)
  rw [List.perm_iff_count]
  intro x
  simp only [List.map_append, List.map_cons, List.flatMap_append, List.flatMap_cons, List.count_append,
    List.count_cons]
  omega

/-- the identifiers of the whole tree: the component above the hole and the subtree in the hole -/
theorem plug_ids_perm : ∀ (c : Ctx) (t : Tree), (c.plug t).ids.Perm (c.ids ++ t.ids)
  | root, t => by simp [plug, ids]
  | frame p ls rs up, t => by
    refine (plug_ids_perm up _).trans ?_
    simp only [ids, Tree.ids]
    refine List.perm_append_comm.trans ?_
    simp only [List.cons_append]
    refine List.Perm.cons _ ?_
    refine (List.Perm.append_right _ (idsL_insert_perm ls rs t)).trans ?_
    rw [List.append_assoc, List.append_assoc]
    exact List.Perm.append_left _ List.perm_append_comm

/-- the edges of the whole tree: those outside the hole's subtree (the edge to the hole included) and those inside -/
theorem plug_edges_perm : ∀ (c : Ctx) (t : Tree), (c.plug t).edges.Perm (c.edges t.id ++ t.edges)
  | root, t => by simp [plug, edges, compEdges, parent]
  | frame p ls rs up, t => by
    refine (plug_edges_perm up _).trans ?_
    have h := edgesL_insert_perm p ls rs t
    have hid : (Tree.node p (ls ++ t :: rs)).id = p := rfl
    simp only [edges, compEdges, parent, Tree.edges, hid, Option.toList_some, List.map_cons, List.map_nil]
    refine (List.Perm.append_left _ h).trans ?_
    rw [List.perm_iff_count]
    intro x
    simp only [List.count_append, List.count_cons, List.count_nil]
    omega

/-- `c` with `top` put above its topmost frame -/
def atop : Ctx → Ctx → Ctx
  | root, top => top
  | frame p ls rs up, top => frame p ls rs (atop up top)

theorem plug_atop : ∀ (c top : Ctx) (t : Tree), (atop c top).plug t = top.plug (c.plug t)
  | root, _, _ => rfl
  | frame p ls rs up, top, t => by simp only [atop, plug]; exact plug_atop up top _

mutual
/-- **every site of every tree** is a hole of a context: the tree is the context with the site's subtree plugged in -/
theorem exists_ctx : ∀ (t : Tree) (i : Nat), i ∈ t.ids → ∃ (c : Ctx) (ks : List Tree), t = c.plug (Tree.node i ks)
  | .node r kids, i, h => by
    by_cases hir : i = r
    · subst hir; exact ⟨root, kids, rfl⟩
    · have h' : i ∈ Tree.idsL kids := by
        simp only [Tree.ids, List.mem_cons] at h
        rcases h with h | h
        · exact absurd h hir
        · exact h
      obtain ⟨ls, k, rs, c, ks, hsplit, hk⟩ := exists_ctxL kids i h'
      refine ⟨atop c (frame r ls rs root), ks, ?_⟩
      rw [plug_atop, ← hk, hsplit]
      rfl
theorem exists_ctxL : ∀ (ts : List Tree) (i : Nat), i ∈ Tree.idsL ts →
    ∃ (ls : List Tree) (k : Tree) (rs : List Tree) (c : Ctx) (ks : List Tree),
      ts = ls ++ k :: rs ∧ k = c.plug (Tree.node i ks)
  | [], i, h => by simp [Tree.idsL] at h
  | t :: ts, i, h => by
    simp only [Tree.idsL, List.mem_append] at h
    by_cases ht : i ∈ t.ids
    · obtain ⟨c, ks, hc⟩ := exists_ctx t i ht
      exact ⟨[], t, ts, c, ks, rfl, hc⟩
    · have h' : i ∈ Tree.idsL ts := by
        rcases h with h | h
        · exact absurd h ht
        · exact h
      obtain ⟨ls, k, rs, c, ks, hsplit, hk⟩ := exists_ctxL ts i h'
      exact ⟨t :: ls, k, rs, c, ks, by rw [hsplit]; rfl, hk⟩
end

/-! ### the record is the one the model produces -/

/-- **The model builds the parent-direction block with the record `blockBinds`.**  `p` has the parent `up.parent`
(if any) and the children `ls, i, rs` (state node) / `opKids` (operator node, any order).  If the cache of `p` holds,
for `p`'s own parent, a block with the record of one level higher and, for the siblings of `i`, the leaf-to-root
blocks `soKidBlock`, then `contract_any(p, i, …)` — `opContractAnyNodeEnvironmentButOne` with `next = i` — returns
the block `(ket, operator, bra leg of p toward i)` with the record `(frame p ls rs up).blockBinds`. -/
theorem ctx_block_is_model (p i : Nat) (ls rs : List Tree) (up : Ctx) (opKids : List Nat) (cache : Cache)
    (hnd : (up.parent.toList ++ (ls.map Tree.id ++ i :: rs.map Tree.id)).Nodup)
    (hperm : opKids.Perm (ls.map Tree.id ++ i :: rs.map Tree.id))
    (hup : ∀ q, up.parent = some q → cache q = some (gBlock q p up.blockBinds))
    (hkids : ∀ n ∈ (ls ++ rs).map Tree.id, cache n = soKidBlock (ls ++ rs) p (n, p)) :
    opContractAnyNodeEnvironmentButOne i ⟨up.parent, ls.map Tree.id ++ i :: rs.map Tree.id⟩
        (gKetT p ⟨up.parent, ls.map Tree.id ++ i :: rs.map Tree.id⟩) ⟨up.parent, opKids⟩
        (gOpT p ⟨up.parent, opKids⟩) cache ⟨up.parent, ls.map Tree.id ++ i :: rs.map Tree.id⟩
        (gBraT p ⟨up.parent, ls.map Tree.id ++ i :: rs.map Tree.id⟩) id id =
      some (gBlock p i (frame p ls rs up).blockBinds) := by
  have hfilter : (Node.mk up.parent (ls.map Tree.id ++ i :: rs.map Tree.id)).nbrs.filter (· ≠ i) =
      up.parent.toList ++ (ls ++ rs).map Tree.id := by
    have hnd' : ((up.parent.toList ++ ls.map Tree.id) ++ i :: rs.map Tree.id).Nodup := by
      rw [List.append_assoc]; exact hnd
    have hA : i ∉ up.parent.toList ++ ls.map Tree.id := fun h =>
      (List.nodup_append.1 hnd').2.2 i h i (by simp) rfl
    have hB : i ∉ rs.map Tree.id := by
      have := (List.nodup_append.1 hnd').2.1
      exact (List.nodup_cons.1 this).1
    have := filter_ne_mid (up.parent.toList ++ ls.map Tree.id) (rs.map Tree.id) i hA hB
    simp only [Node.nbrs, List.map_append]
    rw [← List.append_assoc, this, List.append_assoc]
  have hpermN : (Node.mk up.parent opKids).nbrs.Perm
      ((Node.mk up.parent (ls.map Tree.id ++ i :: rs.map Tree.id)).nbrs.map id) := by
    simp only [Node.nbrs, List.map_id]
    exact List.Perm.append_left _ hperm
  have hK : (Node.mk up.parent (ls.map Tree.id ++ i :: rs.map Tree.id)).nbrs.Nodup := hnd
  have hO : (Node.mk up.parent opKids).nbrs.Nodup := by
    have := hpermN
    simp only [List.map_id] at this
    exact this.nodup_iff.2 hK
  have hany := op_any_general (Leg.gKet p) (Leg.gOp p) (Leg.gBra p) (fun n => Leg.gKet n p) (fun n => Leg.gOp n p)
    (fun n => Leg.gBra n p) (Leg.gKetPhys p) (Leg.gOpOut p) (Leg.gOpIn p) (Leg.gBraPhys p)
    (fun n => if up.parent = some n then up.blockBinds else soBbOf (ls ++ rs) n) cache
    ⟨up.parent, ls.map Tree.id ++ i :: rs.map Tree.id⟩ ⟨up.parent, opKids⟩
    ⟨up.parent, ls.map Tree.id ++ i :: rs.map Tree.id⟩ i id id hK hO hK (by simp [Node.nbrs]) hpermN
    (by simp) (by simp) (by simp)
    (fun n hn hne => by
      simp only [Node.nbrs, List.mem_append, Option.mem_toList] at hn
      rcases hn with hn | hn
      · rw [hup n hn, if_pos hn]; rfl
      · have hn' : n ∈ (ls ++ rs).map Tree.id := by
          simp only [List.mem_append, List.mem_cons, List.map_append] at hn ⊢
          rcases hn with hn | hn | hn
          · exact Or.inl hn
          · exact absurd hn hne
          · exact Or.inr hn
        have hq : ¬ up.parent = some n := by
          intro h
          have h1 : n ∈ up.parent.toList := by simp [h]
          have h2 : n ∈ ls.map Tree.id ++ i :: rs.map Tree.id := by
            simpa [List.mem_append] using hn
          exact (List.nodup_append.1 hnd).2.2 n h1 n h2 rfl
        rw [hkids n hn', soKidBlock_of_mem _ p n hn', if_neg hq])
  simp only [gKetT, gOpT, gBraT]
  rw [hany, hfilter]
  have hleaf : (Node.mk up.parent (ls.map Tree.id ++ i :: rs.map Tree.id)).isLeaf = false := by
    simp [Node.isLeaf]
  rw [hleaf]
  simp only [Bool.false_eq_true, if_false, id, gBlock, blockBinds, physIn, physOut]

end Ctx
end Ptn.C05.Heff
