import Ptn.C05.ProjectedTreeAll
import Ptn.C05.HeffLoopValue
import Ptn.C04.ValueOp
/-! ONE program from the node tensors to the matrix handed to `time_evolve` (C05, value level, builder B29, Goal 2).

The provenance lemmas of C04 / C05 have the form "inputs built ⟹ output built from the leaves of the inputs"
(`BuiltL`), for ARBITRARY leaf lists of the inputs — composing them along the tree IS the substitution of the built
expressions of the blocks into the built expression of the effective Hamiltonian:

* `soBlock_built_free`  the leaf-to-root block of a subtree is built from the ket / operator / bra tensors of the
                        subtree (C04 `soBlock_built`, freed from the `Net` it is stated with);
* `Ctx.ctx_block_built` the top-down block from the parent toward the hole (record `Ctx.blockBinds`) is built — by the
                        model's `contract_any(parent, hole)`, `Ctx.ctx_block_is_model` — from the three tensors of
                        every node of the component above the hole (induction over the distance from the hole);
* `Ctx.plug_leaves_perm` the node tensors of the whole tree are those of the component above the hole and those of the
                        subtree in the hole;
* `site_heff_whole_program` (in `Props`-level form below) the matrix of `get_effective_single_site_hamiltonian` is
                        built from exactly the operator tensors of all nodes and the ket / bra tensors of all nodes
                        except the site; every such program is strongly well-formed and evaluates to `E† H E`. -/
namespace Ptn.C05.Heff
open Ptn.C04 Ptn.Ein

set_option linter.unusedSectionVars false
variable {R : Type}

/-! ### small list facts (no decidable equality on leaf tensors: permutations by hand / classical counting) -/

theorem perm_kob {α : Type} (k o b : α) (A B : List α) :
    ((([k] ++ (A ++ B)) ++ [o]) ++ [b]).Perm ([k, o, b] ++ (B ++ A)) := by
  classical
  rw [List.perm_iff_count]
  intro z
  simp only [List.count_append, List.count_cons, List.count_nil]
  omega

theorem perm_insert_mid {α : Type} (l1 x l2 : List α) : (l1 ++ (x ++ l2)).Perm ((l1 ++ l2) ++ x) := by
  classical
  rw [List.perm_iff_count]
  intro z
  simp only [List.count_append]
  omega

theorem infoL_append (p : Nat) : ∀ (a b : List Tree), Tree.infoL p (a ++ b) = Tree.infoL p a ++ Tree.infoL p b
  | [], _ => rfl
  | c :: cs, b => by simp [Tree.infoL, infoL_append p cs b]

/-! ### the leaf-to-root block of a subtree, without a `Net` -/

/-- **The cached block of a subtree is built from the node tensors of the subtree** (C04 `soBlock_built` with the
networks instantiated): ket, operator (own child order `opKids`) and bra tensor of every node of `t`. -/
theorem soBlock_built_free (opKids : Nat → List Nat) (kv ov bv : Nat → Asg Leg → R) (t : Tree) (p : Nat)
    (hnd : t.ids.Nodup) (hp : p ∉ t.ids) (hperm : ∀ e ∈ Tree.info (some p) t, (opKids e.1).Perm e.2.2) :
    BuiltL (soBlock t p) (soLeaves opKids kv ov bv (some p) t) := by
  have hnd2 : (Tree.node p [t]).ids.Nodup := by
    simp only [Tree.ids, Tree.idsL, List.append_nil, List.nodup_cons]
    exact ⟨hp, hnd⟩
  have hsub : ∀ e ∈ Tree.info (some p) t, e ∈ Tree.info none (Tree.node p [t]) := fun e he => by
    simp [Tree.info, Tree.infoL, he]
  refine soBlock_built (netOf (Tree.node p [t]) (fun _ ks => ks) gKetT)
    (netOf (Tree.node p [t]) (fun i _ => opKids i) gOpT) opKids kv ov bv t p hnd hp ?_
  intro e he
  have h1 := netOf_node (Tree.node p [t]) (fun _ ks => ks) gKetT hnd2 e (hsub e he)
  have h2 := netOf_node (Tree.node p [t]) (fun i _ => opKids i) gOpT hnd2 e (hsub e he)
  exact ⟨h1.1, h1.2, h2.1, h2.2, hperm e he⟩

namespace Ctx

/-- every node of the component above the hole `h`, with its parent and its ordered children (the hole included) -/
def info : Ctx → Nat → List (Nat × Option Nat × List Nat)
  | root, _ => []
  | frame p ls rs up, h =>
    (p, up.parent, ls.map Tree.id ++ h :: rs.map Tree.id) :: (Tree.infoL p (ls ++ rs) ++ up.info p)

/-- the node tensors of the component above the hole `h` -/
def leavesG (nl : Nat → Option Nat → List Nat → List (LeafT R)) : Ctx → Nat → List (LeafT R)
  | root, _ => []
  | frame p ls rs up, h =>
    nl p up.parent (ls.map Tree.id ++ h :: rs.map Tree.id) ++ (treeLeavesL nl p (ls ++ rs) ++ up.leavesG nl p)

theorem leavesG_of_root (nl : Nat → Option Nat → List Nat → List (LeafT R)) {c : Ctx} (h : c.parent = none) (x : Nat) :
    c.leavesG nl x = [] := by
  cases c with
  | root => rfl
  | frame p ls rs up => simp [parent] at h

/-- the nodes of the component and of the subtree in the hole are nodes of the whole tree -/
theorem mem_info_plug : ∀ (c : Ctx) (t : Tree) (e : Nat × Option Nat × List Nat),
    (e ∈ c.info t.id ∨ e ∈ Tree.info c.parent t) → e ∈ Tree.info none (c.plug t)
  | root, t, e, h => by simpa [info, plug, parent] using h
  | frame p ls rs up, t, e, h => by
    apply mem_info_plug up (Tree.node p (ls ++ t :: rs)) e
    have hid : (Tree.node p (ls ++ t :: rs)).id = p := rfl
    rw [hid]
    simp only [Tree.info, List.mem_cons, infoL_append, Tree.infoL, List.mem_append, List.map_append, List.map_cons]
    simp only [info, parent, List.mem_cons, List.mem_append, infoL_append] at h
    tauto

/-- **the node tensors of the whole tree** are those of the component above the hole and those of the subtree -/
theorem plug_leaves_perm (nl : Nat → Option Nat → List Nat → List (LeafT R)) : ∀ (c : Ctx) (t : Tree),
    (treeLeaves nl none (c.plug t)).Perm (c.leavesG nl t.id ++ treeLeaves nl c.parent t)
  | root, t => by simp [plug, leavesG, parent]
  | frame p ls rs up, t => by
    refine (plug_leaves_perm nl up (Tree.node p (ls ++ t :: rs))).trans ?_
    have hid : (Tree.node p (ls ++ t :: rs)).id = p := rfl
    have hsplit : (treeLeavesL nl p (ls ++ t :: rs)).Perm (treeLeavesL nl p (ls ++ rs) ++ treeLeaves nl (some p) t) := by
      rw [treeLeavesL_eq, treeLeavesL_eq, List.flatMap_append, List.flatMap_cons, List.flatMap_append]
      exact perm_insert_mid _ _ _
    rw [hid]
    simp only [treeLeaves, leavesG, parent, List.map_append, List.map_cons]
    classical
    have hc := fun z => hsplit.count_eq z
    rw [List.perm_iff_count]
    intro z
    have := hc z
    simp only [List.count_append] at this ⊢
    omega

theorem frame_nbrs_nodup (up : Ctx) (ls rs : List Tree) (h : Nat) (hS : (Tree.idsL (ls ++ rs)).Nodup)
    (hdis : ∀ x ∈ Tree.idsL (ls ++ rs), x ∉ up.ids) (hh1 : h ∉ Tree.idsL (ls ++ rs)) (hh2 : h ∉ up.ids) :
    (up.parent.toList ++ (ls.map Tree.id ++ h :: rs.map Tree.id)).Nodup := by
  have hkid : ((ls ++ rs).map Tree.id).Nodup := Tree.nodup_kid_ids _ hS
  rw [List.map_append] at hkid
  have hmem : ∀ n ∈ ls.map Tree.id ++ rs.map Tree.id, n ∈ Tree.idsL (ls ++ rs) := fun n hn =>
    Tree.kid_id_mem _ n (by rw [List.map_append]; exact hn)
  rw [List.nodup_append]
  refine ⟨by cases up.parent <;> simp, ?_, ?_⟩
  · have hp : (ls.map Tree.id ++ h :: rs.map Tree.id).Perm (h :: (ls.map Tree.id ++ rs.map Tree.id)) :=
      List.perm_middle
    rw [hp.nodup_iff, List.nodup_cons]
    exact ⟨fun hm => hh1 (hmem h hm), hkid⟩
  · intro x hx y hy hxy
    subst hxy
    have hq : up.parent = some x := by simpa using hx
    have hxU := parent_mem_ids hq
    rcases List.mem_append.1 hy with hm | hm
    · exact hdis x (hmem x (List.mem_append.2 (Or.inl hm))) hxU
    · rcases List.mem_cons.1 hm with hm | hm
      · exact hh2 (hm ▸ hxU)
      · exact hdis x (hmem x (List.mem_append.2 (Or.inr hm))) hxU

/-- **The top-down block is built from the node tensors of the component above the hole.**  For every context with
distinct identifiers (the hole's identifier `h` not among them) whose operator nodes list their children in the orders
`opKids` (any permutations): the block from the parent `p` toward the hole — record `blockBinds`, returned by the
model's `contract_any(p, h)` (`ctx_block_is_model`) when the cache of `p` holds the leaf-to-root blocks of the siblings
and the block from `p`'s own parent built the same way — is built by these calls from exactly the ket, operator and bra
tensors of all nodes of the component.  Induction over the distance from the hole. -/
theorem ctx_block_built (opKids : Nat → List Nat) (kv ov bv : Nat → Asg Leg → R) :
    ∀ (c : Ctx) (h p : Nat), c.parent = some p → (h :: c.ids).Nodup →
      (∀ e ∈ c.info h, (opKids e.1).Perm e.2.2) →
      BuiltL (gBlock p h c.blockBinds) (c.leavesG (soNodeLeaves opKids kv ov bv) h)
  | root, _, _, hp, _, _ => by simp [parent] at hp
  | frame p ls rs up, h, p', hp, hnd, hinfo => by
    simp only [parent, Option.some.injEq] at hp
    subst hp
    -- identifiers
    have hnd0 := hnd
    simp only [ids, List.nodup_cons, List.mem_cons, List.mem_append, not_or, List.nodup_append] at hnd0
    obtain ⟨⟨hhp, hhS, hhU⟩, ⟨hpS, hpU⟩, hS, hU, hSU⟩ := hnd0
    have hdis : ∀ x ∈ Tree.idsL (ls ++ rs), x ∉ up.ids := fun x hx hxu => hSU x hx x hxu rfl
    have hnbr := frame_nbrs_nodup up ls rs h hS hdis hhS hhU
    have hkid : ((ls ++ rs).map Tree.id).Nodup := Tree.nodup_kid_ids _ hS
    have hnotpar : ∀ n ∈ (ls ++ rs).map Tree.id, ¬ up.parent = some n := fun n hn hq =>
      hdis n (Tree.kid_id_mem _ n hn) (parent_mem_ids hq)
    have hpermP : (opKids p).Perm (ls.map Tree.id ++ h :: rs.map Tree.id) := hinfo (p, up.parent, ls.map Tree.id ++ h :: rs.map Tree.id) (by simp [info])
    -- the model's call
    have hmodel := ctx_block_is_model p h ls rs up (opKids p) (siteCache up (ls ++ rs) p) hnbr hpermP
      (fun q hq => by simp [siteCache, hq])
      (fun n hn => by simp [siteCache, hnotpar n hn])
    -- the blocks it reads are built
    have hb := opContractAnyNodeEnvironmentButOne_built (R := R)
      (ls := [((gKetT p ⟨up.parent, ls.map Tree.id ++ h :: rs.map Tree.id⟩).legs, kv p)])
      (lo := [((gOpT p ⟨up.parent, opKids p⟩).legs, ov p)])
      (lb := [((gBraT p ⟨up.parent, ls.map Tree.id ++ h :: rs.map Tree.id⟩).legs, bv p)])
      (lv := fun n => if up.parent = some n then up.leavesG (soNodeLeaves opKids kv ov bv) p
        else lvOf (soLeaves opKids kv ov bv (some p)) (ls ++ rs) n)
      hmodel (BuiltL.fresh _ _) (BuiltL.fresh _ _) (BuiltL.fresh _ _)
      (fun n hn hne blk hblk => by
        by_cases hq : up.parent = some n
        · simp only [siteCache, if_pos hq, Option.some.injEq] at hblk
          subst hblk
          simp only [if_pos hq]
          refine ctx_block_built opKids kv ov bv up p n hq ?_ (fun e he => hinfo e (by simp [info, he]))
          rw [List.nodup_cons]
          exact ⟨hpU, hU⟩
        · simp only [siteCache, if_neg hq] at hblk
          simp only [if_neg hq]
          have hn' : n ∈ (ls ++ rs).map Tree.id := by
            simp only [Node.nbrs, List.mem_append, Option.mem_toList, List.mem_cons, List.map_append] at hn ⊢
            rcases hn with hn | hn | hn | hn
            · exact absurd hn hq
            · exact Or.inl hn
            · exact absurd hn hne
            · exact Or.inr hn
          obtain ⟨c0, hc0, hcn⟩ := List.mem_map.1 hn'
          have hsome : ((ls ++ rs).find? (fun c => c.id == n)).isSome := by
            rw [List.find?_isSome]; exact ⟨c0, hc0, by simp [hcn]⟩
          obtain ⟨k, hk⟩ := Option.isSome_iff_exists.1 hsome
          obtain ⟨hkm, hkid'⟩ := find_kid hk
          simp only [soKidBlock, hk, if_true, Option.map_some, Option.some.injEq] at hblk
          subst hblk
          simp only [lvOf, hk, Option.map_some, Option.getD_some]
          have hksub : ∀ x ∈ k.ids, x ∈ Tree.idsL (ls ++ rs) := fun x hx => by
            rw [idsL_eq_flatMap]; exact List.mem_flatMap.2 ⟨k, hkm, hx⟩
          refine soBlock_built_free opKids kv ov bv k p ?_ (fun hm => hpS (hksub p hm)) ?_
          · have : k.ids.Sublist (Tree.idsL (ls ++ rs)) := by
              rw [idsL_eq_flatMap, List.flatMap_def]
              exact List.sublist_flatten_of_mem (List.mem_map.2 ⟨k, hkm, rfl⟩)
            exact this.nodup hS
          · intro e he
            apply hinfo e
            simp only [info, List.mem_cons, List.mem_append]
            refine Or.inr (Or.inl ?_)
            obtain ⟨l1, l2, hl⟩ := List.append_of_mem hkm
            rw [hl, infoL_append]
            simp [Tree.infoL, he])
    -- bring the leaves into the canonical order
    have hleaf : (Node.mk up.parent (ls.map Tree.id ++ h :: rs.map Tree.id)).isLeaf = false := by
      simp [Node.isLeaf]
    have hhl : h ∉ ls.map Tree.id := fun hm =>
      hhS (Tree.kid_id_mem _ h (by rw [List.map_append]; exact List.mem_append.2 (Or.inl hm)))
    have hhr : h ∉ rs.map Tree.id := fun hm =>
      hhS (Tree.kid_id_mem _ h (by rw [List.map_append]; exact List.mem_append.2 (Or.inr hm)))
    have hhP : h ∉ up.parent.toList := fun hm => hhU (parent_mem_ids (by simpa using hm))
    have hfilter : (Node.mk up.parent (ls.map Tree.id ++ h :: rs.map Tree.id)).nbrs.filter (· ≠ h) =
        up.parent.toList ++ (ls ++ rs).map Tree.id := by
      have := filter_ne_mid (up.parent.toList ++ ls.map Tree.id) (rs.map Tree.id) h
        (fun hm => (List.mem_append.1 hm).elim hhP hhl) hhr
      simp only [Node.nbrs, List.map_append]
      rw [← List.append_assoc, this, List.append_assoc]
    rw [hleaf, hfilter] at hb
    simp only [Bool.false_eq_true, if_false, List.flatMap_append] at hb
    have hpar : up.parent.toList.flatMap (fun n => if up.parent = some n then
        up.leavesG (soNodeLeaves opKids kv ov bv) p else lvOf (soLeaves opKids kv ov bv (some p)) (ls ++ rs) n) =
        up.leavesG (soNodeLeaves opKids kv ov bv) p := by
      cases hq : up.parent with
      | none => simp [leavesG_of_root _ hq]
      | some q => simp
    have hsib : ((ls ++ rs).map Tree.id).flatMap (fun n => if up.parent = some n then
        up.leavesG (soNodeLeaves opKids kv ov bv) p else lvOf (soLeaves opKids kv ov bv (some p)) (ls ++ rs) n) =
        treeLeavesL (soNodeLeaves opKids kv ov bv) p (ls ++ rs) := by
      rw [treeLeavesL_eq, ← lvOf_flatMap _ (ls ++ rs) hkid]
      apply flatMap_congr'
      intro n hn
      rw [if_neg (hnotpar n hn)]
      rfl
    rw [hpar, hsib] at hb
    refine hb.perm ?_
    simp only [leavesG, soNodeLeaves]
    exact perm_kob _ _ _ _ _

end Ctx

/-- a block found in the table of leaf-to-root blocks is built from the node tensors of its subtree -/
theorem kid_block_built (opKids : Nat → List Nat) (kv ov bv : Nat → Asg Leg → R) (ts : List Tree) (i n : Nat) (blk : T)
    (hS : (Tree.idsL ts).Nodup) (hi : i ∉ Tree.idsL ts) (hinfo : ∀ e ∈ Tree.infoL i ts, (opKids e.1).Perm e.2.2)
    (hblk : soKidBlock ts i (n, i) = some blk) :
    BuiltL blk (lvOf (soLeaves opKids kv ov bv (some i)) ts n) := by
  cases hk : ts.find? (fun c => c.id == n) with
  | none => simp [soKidBlock, hk] at hblk
  | some k =>
    obtain ⟨hkm, _⟩ := find_kid hk
    simp only [soKidBlock, hk, if_true, Option.map_some, Option.some.injEq] at hblk
    subst hblk
    simp only [lvOf, hk, Option.map_some, Option.getD_some]
    have hksub : ∀ x ∈ k.ids, x ∈ Tree.idsL ts := fun x hx => by
      rw [idsL_eq_flatMap]; exact List.mem_flatMap.2 ⟨k, hkm, hx⟩
    refine soBlock_built_free opKids kv ov bv k i ?_ (fun hm => hi (hksub i hm)) ?_
    · have : k.ids.Sublist (Tree.idsL ts) := by
        rw [idsL_eq_flatMap, List.flatMap_def]
        exact List.sublist_flatten_of_mem (List.mem_map.2 ⟨k, hkm, rfl⟩)
      exact this.nodup hS
    · intro e he
      apply hinfo e
      obtain ⟨l1, l2, hl⟩ := List.append_of_mem hkm
      rw [hl, infoL_append]
      simp [Tree.infoL, he]

/-- the leaf tensors of the whole program of the single-site effective Hamiltonian of site `i`: the operator tensor of
`i` and the ket, operator and bra tensors of every other node (component above `i`, subtrees of `i`'s children) -/
def wholeLeaves (opKids : Nat → List Nat) (kv ov bv : Nat → Asg Leg → R) (c : Ctx) (i : Nat) (ks : List Tree) :
    List (LeafT R) :=
  [((gOpT i ⟨c.parent, opKids i⟩).legs, ov i)] ++
    (c.leavesG (soNodeLeaves opKids kv ov bv) i ++ treeLeavesL (soNodeLeaves opKids kv ov bv) i ks)

/-- together with the ket and the bra tensor of the site these are exactly the node tensors of the whole tree -/
theorem wholeLeaves_perm (opKids : Nat → List Nat) (kv ov bv : Nat → Asg Leg → R) (c : Ctx) (i : Nat) (ks : List Tree) :
    ([((gKetT i ⟨c.parent, ks.map Tree.id⟩).legs, kv i), ((gBraT i ⟨c.parent, ks.map Tree.id⟩).legs, bv i)] ++
      wholeLeaves opKids kv ov bv c i ks).Perm (soLeaves opKids kv ov bv none (c.plug (Tree.node i ks))) := by
  have h := Ctx.plug_leaves_perm (soNodeLeaves opKids kv ov bv) c (Tree.node i ks)
  refine List.Perm.trans ?_ h.symm
  have hid : (Tree.node i ks).id = i := rfl
  rw [hid]
  simp only [wholeLeaves, treeLeaves, soNodeLeaves]
  classical
  rw [List.perm_iff_count]
  intro z
  simp only [List.count_append, List.count_cons, List.count_nil]
  omega

section value
variable [CommSemiring R]

/-- **ONE program: from the node tensors of the tree to the matrix handed to `time_evolve`.**  The tree is
`c.plug (node i ks)` (site `i` in the hole of the context `c`: every site of every tree, `Ctx.exists_ctx`), distinct
identifiers; every operator node lists its children in its own order `opKids` (any permutation of the state's order);
`kv`, `ov`, `bv` are ARBITRARY values of the ket, operator and bra tensors of all nodes, each reading only its own
legs.  The cache of the site is the one the code's recursions leave (`siteCache`: leaf-to-root blocks of the children,
top-down block from the parent).  Then
* the model's `get_effective_single_site_hamiltonian_nodes` returns the matrix `m` of `site_heff_graph`;
* `m` is BUILT — by the complete sequence of `tensordot` calls of the model: the leaf-to-root block loop
  (`soBlock_built`), the top-down `contract_any` recursion (`Ctx.ctx_block_built`) and `contract_all_except_node` with
  its transposition (`site_heff_built`) — from `wholeLeaves`, and `wholeLeaves` together with the ket and the bra
  tensor of the site is exactly the list of node tensors of the whole tree: the program reads the operator tensors
  of ALL nodes and the ket / bra tensors of all nodes EXCEPT the site, each once;
* EVERY expression `e` that `m` is built from over these leaves is strongly well-formed, has the record of `m` and
  the free legs `rows ++ cols`, and for every commutative semiring and all dimensions (equal on both legs of every
  bound pair) evaluates to the projected Hamiltonian `Σ_{phys'} (Σ_{phys} E · H) · B = E† H E`, for ANY split of
  the leaves into three well-formed contractions `E` (kets over the ket bonds not at `i`), `H` (the whole TTNO),
  `B` (bras).  No hypothesis about a program, a block or a record is left. -/
theorem site_heff_whole_program (c : Ctx) (i : Nat) (ks : List Tree)
    (hnd : (c.plug (Tree.node i ks)).ids.Nodup) (opKids : Nat → List Nat)
    (hperm : ∀ e ∈ Tree.info none (c.plug (Tree.node i ks)), (opKids e.1).Perm e.2.2)
    (kv ov bv : Nat → Asg Leg → R) (hkv : KetLocal kv (c.plug (Tree.node i ks)))
    (hov : OpLocalK ov opKids (c.plug (Tree.node i ks))) (hbv : BraLocalK bv (c.plug (Tree.node i ks))) :
    ∃ m : Mat, getEffectiveSingleSiteHamiltonianNodes ⟨c.parent, ks.map Tree.id⟩ ⟨c.parent, opKids i⟩
        (gOpT i ⟨c.parent, opKids i⟩) (siteCache c ks i) = some m ∧
      m.rows = (c.parent.toList ++ ks.map Tree.id).map (fun n => Leg.gBra n i) ++ [Leg.gOpOut i] ∧
      m.cols = (c.parent.toList ++ ks.map Tree.id).map (fun n => Leg.gKet n i) ++ [Leg.gOpIn i] ∧
      BuiltL m.toT (wholeLeaves opKids kv ov bv c i ks) ∧
      ([((gKetT i ⟨c.parent, ks.map Tree.id⟩).legs, kv i), ((gBraT i ⟨c.parent, ks.map Tree.id⟩).legs, bv i)] ++
        wholeLeaves opKids kv ov bv c i ks).Perm (soLeaves opKids kv ov bv none (c.plug (Tree.node i ks))) ∧
      ∀ e : Expr Leg R, Built m.toT e → e.leaves.Perm (wholeLeaves opKids kv ov bv c i ks) →
        e.SWF ∧ e.binds.Perm m.binds ∧ e.free.Perm (m.rows ++ m.cols) ∧
        ∀ (dim : Leg → Nat) (E H B : Expr Leg R), E.WF → H.WF → B.WF →
          (E.leaves ++ (H.leaves ++ B.leaves)).Perm (wholeLeaves opKids kv ov bv c i ks) →
          (unordL E.binds).Perm (unordL ((c.compEdges ++ ks.flatMap Tree.edges).map fun e => ketEdge e.1 e.2)) →
          (unordL H.binds).Perm (unordL ((c.plug (Tree.node i ks)).edges.map fun e => opEdge e.1 e.2)) →
          (unordL B.binds).Perm (unordL ((c.compEdges ++ ks.flatMap Tree.edges).map fun e => braEdge e.1 e.2)) →
          (∀ n ∈ c.ids ++ Tree.idsL ks, Leg.gKetPhys n ∈ E.free ∧ Leg.gOpIn n ∈ H.free ∧ Leg.gOpOut n ∈ H.free ∧
            Leg.gBraPhys n ∈ B.free) →
          (∀ p ∈ projSpec ((c.ids ++ Tree.idsL ks).map physOut) ((c.ids ++ Tree.idsL ks).map physIn)
            E.binds H.binds B.binds, dim p.1 = dim p.2) →
          ∀ σ, e.eval dim σ =
            sumPairs dim ((c.ids ++ Tree.idsL ks).map physOut)
              (fun τ => sumPairs dim ((c.ids ++ Tree.idsL ks).map physIn) (fun ρ => E.eval dim ρ * H.eval dim ρ) τ *
                B.eval dim τ) σ := by
  -- identifiers and child orders
  have hnd' : (c.ids ++ (Tree.node i ks).ids).Nodup := (Ctx.plug_ids_perm c _).nodup_iff.1 hnd
  have hcn : c.ids.Nodup := (List.nodup_append.1 hnd').1
  have hin : (i :: Tree.idsL ks).Nodup := (List.nodup_append.1 hnd').2.1
  have hndL : (Tree.idsL ks).Nodup := (List.nodup_cons.1 hin).2
  have hiK : i ∉ Tree.idsL ks := (List.nodup_cons.1 hin).1
  have hdisj : ∀ a ∈ c.ids, ∀ b ∈ i :: Tree.idsL ks, a ≠ b := (List.nodup_append.1 hnd').2.2
  have hic : (i :: c.ids).Nodup := by
    rw [List.nodup_cons]
    exact ⟨fun h => hdisj i h i (by simp) rfl, hcn⟩
  have hkid : (ks.map Tree.id).Nodup := Tree.nodup_kid_ids ks hndL
  have hpk : ∀ q, c.parent = some q → q ∉ ks.map Tree.id := fun q hq hm =>
    hdisj q (Ctx.parent_mem_ids hq) q (by simp [Tree.kid_id_mem ks q hm]) rfl
  have hpermI : (opKids i).Perm (ks.map Tree.id) :=
    hperm (i, c.parent, ks.map Tree.id) (Ctx.mem_info_plug c (Tree.node i ks) _ (Or.inr (by simp [Tree.info])))
  have hinfoC : ∀ e ∈ c.info i, (opKids e.1).Perm e.2.2 := fun e he =>
    hperm e (Ctx.mem_info_plug c (Tree.node i ks) e (Or.inl he))
  have hinfoK : ∀ e ∈ Tree.infoL i ks, (opKids e.1).Perm e.2.2 := fun e he =>
    hperm e (Ctx.mem_info_plug c (Tree.node i ks) e (Or.inr (by simp [Tree.info, he])))
  obtain ⟨m, hm, hr, hc, hval⟩ := site_heff_projected_tree (R := R) c i ks hnd (opKids i) hpermI
  have hwl := wholeLeaves_perm opKids kv ov bv c i ks
  -- provenance
  have hbuilt : BuiltL m.toT (wholeLeaves opKids kv ov bv c i ks) := by
    have hb := site_heff_built (R := R) (lo := [((gOpT i ⟨c.parent, opKids i⟩).legs, ov i)])
      (lv := fun n => if c.parent = some n then c.leavesG (soNodeLeaves opKids kv ov bv) i
        else lvOf (soLeaves opKids kv ov bv (some i)) ks n) hm (BuiltL.fresh _ _)
      (fun n hn blk hblk => by
        by_cases hq : c.parent = some n
        · simp only [siteCache, if_pos hq, Option.some.injEq] at hblk
          subst hblk
          simp only [if_pos hq]
          exact Ctx.ctx_block_built opKids kv ov bv c i n hq hic hinfoC
        · simp only [siteCache, if_neg hq] at hblk
          simp only [if_neg hq]
          exact kid_block_built opKids kv ov bv ks i n blk hndL hiK hinfoK hblk)
    refine hb.perm ?_
    have hnb : (Node.mk c.parent (opKids i)).nbrs = c.parent.toList ++ opKids i := rfl
    rw [hnb, List.flatMap_append]
    have hpar : c.parent.toList.flatMap (fun n => if c.parent = some n then
        c.leavesG (soNodeLeaves opKids kv ov bv) i else lvOf (soLeaves opKids kv ov bv (some i)) ks n) =
        c.leavesG (soNodeLeaves opKids kv ov bv) i := by
      cases hq : c.parent with
      | none => simp [Ctx.leavesG_of_root _ hq]
      | some q => simp
    have hsib : ((opKids i).flatMap (fun n => if c.parent = some n then
        c.leavesG (soNodeLeaves opKids kv ov bv) i else lvOf (soLeaves opKids kv ov bv (some i)) ks n)).Perm
        (treeLeavesL (soNodeLeaves opKids kv ov bv) i ks) := by
      refine (hpermI.flatMap_right _).trans ?_
      rw [treeLeavesL_eq, ← lvOf_flatMap _ ks hkid]
      refine List.Perm.of_eq ?_
      apply flatMap_congr'
      intro n hn
      rw [if_neg (fun hq => hpk n hq hn)]
      rfl
    rw [hpar]
    exact List.Perm.append_left _ (List.Perm.append_left _ hsib)
  refine ⟨m, hm, hr, hc, hbuilt, hwl, ?_⟩
  intro e hbe hleaves
  -- labels and locality
  have hnone : ∀ q, (none : Option Nat) = some q → q ∉ (c.plug (Tree.node i ks)).ids := fun q hq => by simp at hq
  have hnb := info_nbrs_nodup (c.plug (Tree.node i ks)) none hnd hnone
  have hok : ∀ e ∈ Tree.info none (c.plug (Tree.node i ks)), NodeOK (soNodeLeaves opKids kv ov bv) e :=
    fun e he => so_nodeOK kv ov bv opKids e (hnb e he) (hperm e he)
  have hlab := treeLeaves_labels (soNodeLeaves opKids kv ov bv) (c.plug (Tree.node i ks)) none hnd hok
  have hndW : (labelsOf (wholeLeaves opKids kv ov bv c i ks)).Nodup := by
    have h1 := (hwl.flatMap_right (·.1)).nodup_iff.2 hlab.1
    rw [List.flatMap_append] at h1
    exact (List.nodup_append.1 h1).2.1
  have hend : e.labels.Nodup := by
    rw [Expr.labels_eq_leaves]
    exact (hleaves.flatMap_right _).nodup_iff.2 hndW
  have hloc : e.LeavesLocal := by
    intro lf hlf
    have hlf' : lf ∈ soLeaves opKids kv ov bv none (c.plug (Tree.node i ks)) :=
      hwl.mem_iff.1 (List.mem_append.2 (Or.inr (hleaves.mem_iff.1 hlf)))
    obtain ⟨x, hx, h⟩ := treeLeaves_sub _ (c.plug (Tree.node i ks)) none lf hlf'
    simp only [soNodeLeaves, List.mem_cons, List.not_mem_nil, or_false] at h
    rcases h with rfl | rfl | rfl
    · exact hkv x hx
    · exact hov x hx
    · exact hbv x hx
  have hswf := hbe.swf hend hloc
  obtain ⟨hbinds, hlegs, _⟩ := hbe.sound hend
  refine ⟨hswf, hbinds.symm, hlegs.symm, ?_⟩
  intro dim E H B hE hH hB hsplit hEb hHb hBb hfree hdim σ
  have hndAll : (E.labels ++ (H.labels ++ B.labels)).Nodup := by
    have h1 := (hsplit.flatMap_right (·.1)).nodup_iff.2 hndW
    simpa [List.flatMap_append, ← Expr.labels_eq_leaves] using h1
  rw [List.nodup_append] at hndAll
  obtain ⟨_, hndHB, hdisE⟩ := hndAll
  rw [List.nodup_append] at hndHB
  exact hval dim e E H B hswf hE hH hB
    (fun l hl hl' => hdisE l hl l (List.mem_append.2 (Or.inl hl')) rfl)
    (fun l hl hl' => hdisE l hl l (List.mem_append.2 (Or.inr hl')) rfl)
    (fun l hl hl' => hndHB.2.2 l hl l hl' rfl)
    hbinds.symm hEb hHb hBb hfree hdim
    (fun τ => by
      rw [Expr.leafProd_of_leaves e _ (hleaves.trans hsplit.symm) τ, List.map_append, List.map_append, prodL_append,
        prodL_append, mul_assoc]
      rfl) σ

end value

end Ptn.C05.Heff
