import Ptn.C17.Model
/-! Cache-freshness discipline of the TDVP sweeps: the abstract machine and the full event
sequences of the three variants (core Lean only; imported by the C17 driver).

A *block* `(a, b)` (`a`, `b` neighbours) stands for the cached environment
`partial_tree_cache.get_entry(a, b)`: the contracted part of the tree on `a`'s side of the edge
`{a, b}`, open toward `b`.  It is *stale* when a tensor on `a`'s side was written after the block
was built (or the block was never built).  A write of the tensor of `v` makes stale exactly the
blocks pointing away from `v`.

Events (one per call observed on the implementation):
* `site v`   - `_update_site(v)`: reads all blocks `(x, v)`, writes `v`; needs centre = `v`
* `move a b` - one hop of `_move_orth_and_update_cache_for_path`: QR at `a` (writes `a` and `b`),
               centre := `b`, then `update_tree_cache(a, b)` (reads `(z, a)`, `z ≠ b`)
* `link a b` - `_update_link(a, b)`: split `a` (writes `a`), `_update_cache_after_split` rebuilds
               `(a, b)` (reads `(z, a)`, `z ≠ b`), the link Hamiltonian reads `(a, b)` and `(b, a)`,
               contraction into `b` (writes `b`), centre := `b`
* `two a b`  - `_update_two_site_nodes(a, b)`: reads `(z, a)`, `z ≠ b` and `(z, b)`, `z ≠ a`; writes
               `a` and `b`; centre := `b`; `update_tree_cache(a, b)` (reads `(z, a)`, `z ≠ b`)
* `hop a b`  - one QR hop of `state.move_orthogonalization_center` *without* cache update
               (writes `a` and `b`, centre := `b`)
* `init c`   - `init_cache_but_one(…, c)` on a new cache: afterwards exactly the blocks pointing
               toward `c` exist (C17 `init_cache_keys`); needs centre = `c`
-/
namespace Ptn.C05.Disc
open Ptn.C17 Ptn.C17.RTree

inductive DEv where
  | site (v : Nat)
  | move (a b : Nat)
  | link (a b : Nat)
  | two (a b : Nat)
  | hop (a b : Nat)
  | init (c : Nat)
deriving Repr, DecidableEq

abbrev Block := Nat × Nat

structure DSt where
  centre : Nat
  stale : List Block
deriving Repr

/-- all directed blocks of the tree -/
def blocks (t : RTree) : List Block := edges t ++ (edges t).map (fun e => (e.2, e.1))

/-- the block `(x, y)` points away from `v`: `v` lies on `x`'s side -/
def away (t : RTree) (v : Nat) (blk : Block) : Bool :=
  blk.2 != v && firstHop t blk.2 v == some blk.1

/-- stale blocks after the tensor of `v` was written -/
def wrote (t : RTree) (v : Nat) (stale : List Block) : List Block :=
  stale ++ (blocks t).filter (away t v)

def adjB (t : RTree) (a b : Nat) : Bool := (nbrsOf t a).contains b

/-- blocks `(z, a)` for the neighbours `z ≠ b` of `a` -/
def inputs (t : RTree) (a b : Nat) : List Block :=
  ((nbrsOf t a).filter (fun z => z != b)).map (fun z => (z, a))

/-- the blocks an event reads (evaluated in the state before the event; the writes an event
    performs before reading never touch the blocks it reads, see `DiscLemmas`) -/
def reads (t : RTree) : DEv → List Block
  | .site v => (nbrsOf t v).map (fun x => (x, v))
  | .move a b => inputs t a b
  | .link a b => (nbrsOf t a).map (fun z => (z, a))
  | .two a b => inputs t a b ++ inputs t b a
  | .hop _ _ => []
  | .init _ => []

/-- precondition on the centre and on adjacency -/
def pre (t : RTree) (st : DSt) : DEv → Bool
  | .site v => st.centre == v && (ids t).contains v
  | .move a b => st.centre == a && adjB t a b
  | .link a b => st.centre == a && adjB t a b
  | .two a b => st.centre == a && adjB t a b
  | .hop a b => st.centre == a && adjB t a b
  | .init c => st.centre == c && (ids t).contains c

def apply (t : RTree) (st : DSt) : DEv → DSt
  | .site v => ⟨v, wrote t v st.stale⟩
  | .move a b => ⟨b, (wrote t b (wrote t a st.stale)).filter (fun blk => blk != (a, b))⟩
  | .link a b => ⟨b, wrote t b ((wrote t a st.stale).filter (fun blk => blk != (a, b)))⟩
  | .two a b => ⟨b, (wrote t b (wrote t a st.stale)).filter (fun blk => blk != (a, b))⟩
  | .hop a b => ⟨b, wrote t b (wrote t a st.stale)⟩
  | .init c => ⟨c, (blocks t).filter (away t c)⟩

/-- one event: fails (`none`) if the precondition is violated or a stale block is read -/
def step (t : RTree) (st : DSt) (e : DEv) : Option DSt :=
  if pre t st e && (reads t e).all (fun blk => !st.stale.contains blk) then some (apply t st e)
  else none

def run (t : RTree) : DSt → List DEv → Option DSt
  | st, [] => some st
  | st, e :: rest => (step t st e).bind fun st' => run t st' rest

/-- the invariant: every block pointing toward the centre is fresh -/
def Inv (t : RTree) (st : DSt) : Prop :=
  ∀ x h, x ∈ ids t → x ≠ st.centre → firstHop t x st.centre = some h → (x, h) ∉ st.stale

/-! ### The event sequences -/

/-- hops with cache update along a list of nodes -/
def movesAlong : List Nat → List DEv
  | a :: b :: rest => DEv.move a b :: movesAlong (b :: rest)
  | _ => []

def hopsAlong : List Nat → List DEv
  | a :: b :: rest => DEv.hop a b :: hopsAlong (b :: rest)
  | _ => []

/-- `FirstOrderOneSiteTDVP.run_one_time_step` without `_reset_for_next_time_step` -/
def firstBody (t : RTree) : List Nat → Option (List DEv)
  | a :: b :: rest => do
    let p ← pathFromTo t a b
    let h ← p[1]?
    let more ← firstBody t (b :: rest)
    some ([DEv.site a, DEv.link a h] ++ movesAlong (p.drop 1) ++ more)
  | [a] => some [DEv.site a]
  | [] => some []

/-- `_reset_for_next_time_step`: move the centre back to the start, new cache -/
def resetEvents (t : RTree) (last start : Nat) : Option (List DEv) := do
  let p ← pathFromTo t last start
  some (hopsAlong p ++ [DEv.init start])

def eventsFirst (t : RTree) : Option (List DEv) := do
  let u ← updatePath t
  let body ← firstBody t u
  let start ← u.head?
  let last ← u.getLast?
  let reset ← resetEvents t last start
  some (body ++ reset)

/-- `SecondOrderOneSiteTDVP.forward_sweep` and `_final_forward_update` -/
def secondFwd (t : RTree) : List Nat → Option (List DEv)
  | a :: b :: rest => do
    let p ← pathFromTo t a b
    let h ← p[1]?
    let more ← secondFwd t (b :: rest)
    some ([DEv.site a, DEv.link a h] ++ (if rest.isEmpty then [] else movesAlong (p.drop 1)) ++ more)
  | [a] => some [DEv.site a]
  | [] => some []

/-- `_normal_backward_update` for the nodes `b_1 …` of the reversed update path and
    `_final_backward_update` -/
def secondBwdAux (t : RTree) : List Nat → Option (List DEv)
  | a :: b :: rest => do
    let p ← pathFromTo t a b
    let q := p.dropLast
    let c ← q.getLast?
    let more ← secondBwdAux t (b :: rest)
    some ([DEv.site a] ++ movesAlong q ++ [DEv.link c b] ++ more)
  | [a] => some [DEv.site a]
  | [] => some []

/-- `backward_sweep`; `none` for a single node (`backwards_update_path[1]`) -/
def secondBwd (t : RTree) : List Nat → Option (List DEv)
  | b0 :: b1 :: rest => do
    let more ← secondBwdAux t (b1 :: rest)
    some (DEv.link b0 b1 :: more)
  | _ => none

def eventsSecond (t : RTree) : Option (List DEv) := do
  let u ← updatePath t
  let fwd ← secondFwd t u
  let bwd ← secondBwd t u.reverse
  some (fwd ++ bwd)

/-- `SecondOrderTwoSiteTDVP.forward_sweep`; `none` for a single node (`update_path[-2]`) -/
def twoFwd (t : RTree) : List Nat → Option (List DEv)
  | a :: b :: c :: rest => do
    let p ← pathFromTo t a b
    let h ← p[1]?
    let more ← twoFwd t (b :: c :: rest)
    some ([DEv.two a h, DEv.site h] ++ (if rest.isEmpty then [] else movesAlong (p.drop 1)) ++ more)
  | [a, b] => some [DEv.two a b]
  | _ => none

/-- `normal_backwards_update` for `i = 1 …` (`a = b_i`, `b = b_{i+1}` of the reversed path); the
    code walks the *reversed forward* orthogonalisation path -/
def twoBwdAux (t : RTree) : List Nat → Option (List DEv)
  | a :: b :: rest => do
    let p ← pathFromTo t b a
    let q := (p.drop 1).reverse
    let tgt ← q.getLast?
    let more ← twoBwdAux t (b :: rest)
    some (movesAlong q ++ [DEv.site tgt, DEv.two tgt b] ++ more)
  | _ => some []

def twoBwd (t : RTree) : List Nat → Option (List DEv)
  | b0 :: b1 :: rest => do
    let more ← twoBwdAux t (b1 :: rest)
    some (DEv.two b0 b1 :: more)
  | _ => none

def eventsTwoSite (t : RTree) : Option (List DEv) := do
  let u ← updatePath t
  let fwd ← twoFwd t u
  let bwd ← twoBwd t u.reverse
  some (fwd ++ bwd)

/-- the state after the constructor: centre at the start of the update path, fresh cache -/
def initState (t : RTree) : Option DSt :=
  (updatePath t).bind fun u => u.head?.map fun s => ⟨s, (blocks t).filter (away t s)⟩

def showEv : DEv → String
  | .site v => s!"site {v}"
  | .move a b => s!"move {a}>{b}"
  | .link a b => s!"link {a}>{b}"
  | .two a b => s!"two {a}>{b}"
  | .hop a b => s!"hop {a}>{b}"
  | .init c => s!"init {c}"

end Ptn.C05.Disc
