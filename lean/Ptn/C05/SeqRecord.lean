import Ptn.C05.SeqExpr
/-! The record of the canonical contraction program `seqExpr P L` (C05, value level, builder B48).

If no leg is named twice in the record `P`, every leg of `P` is a label of the leaf tensors `L` (pairwise distinct
labels) and no pair of `P` joins two legs of the same leaf, then `seqExpr P L` is strongly well-formed and binds, as
a multiset of unordered pairs, exactly `P`: every pair is bound at the step that adds the later of its two leaves. -/
namespace Ptn.C05.Heff
open Ptn.C04 Ptn.Ein

set_option linter.unusedSectionVars false
variable {R : Type} [CommSemiring R]

theorem mem_pairLegs {P : List (Leg × Leg)} {l : Leg} :
    l ∈ Expr.pairLegs P ↔ ∃ q ∈ P, q.1 = l ∨ q.2 = l := by
  simp only [Expr.pairLegs, List.mem_append, List.mem_map]
  constructor
  · rintro (⟨q, hq, h⟩ | ⟨q, hq, h⟩)
    · exact ⟨q, hq, Or.inl h⟩
    · exact ⟨q, hq, Or.inr h⟩
  · rintro ⟨q, hq, h | h⟩
    · exact Or.inl ⟨q, hq, h⟩
    · exact Or.inr ⟨q, hq, h⟩

/-- no leg named twice: two pairs of the record that share a leg are the same pair, and its two legs differ -/
theorem seq_legs_unique : ∀ (P : List (Leg × Leg)), (Expr.pairLegs P).Nodup → ∀ p ∈ P, ∀ q ∈ P, ∀ l : Leg,
    (p.1 = l ∨ p.2 = l) → (q.1 = l ∨ q.2 = l) → p = q ∧ p.1 ≠ p.2
  | [], _, p, hp, _, _, _, _, _ => by simp at hp
  | a :: P', hnd, p, hp, q, hq, l, hpl, hql => by
    have hnd' := (pairLegs_cons_perm a P').nodup_iff.1 hnd
    simp only [List.nodup_cons, List.mem_cons, not_or] at hnd'
    obtain ⟨⟨ha12, ha1⟩, ha2, hP'⟩ := hnd'
    have hin : ∀ r ∈ P', ∀ x, (r.1 = x ∨ r.2 = x) → x ∈ Expr.pairLegs P' := fun r hr x hx =>
      mem_pairLegs.2 ⟨r, hr, hx⟩
    rcases List.mem_cons.1 hp with rfl | hp' <;> rcases List.mem_cons.1 hq with rfl | hq'
    · exact ⟨rfl, ha12⟩
    · exfalso
      have := hin q hq' l hql
      rcases hpl with h | h
      · exact ha1 (h ▸ this)
      · exact ha2 (h ▸ this)
    · exfalso
      have := hin p hp' l hpl
      rcases hql with h | h
      · exact ha1 (h ▸ this)
      · exact ha2 (h ▸ this)
    · exact seq_legs_unique P' hP' p hp' q hq' l hpl hql

theorem seqPairs_legs_sub {P : List (Leg × Leg)} {fr lg : List Leg} {l : Leg}
    (h : l ∈ Expr.pairLegs (seqPairs P fr lg)) : l ∈ Expr.pairLegs P := by
  obtain ⟨q, hq, hl⟩ := mem_pairLegs.1 h
  rcases (seqPairs_mem hq).2.2 with hm | hm
  · exact mem_pairLegs.2 ⟨q, hm, hl⟩
  · exact mem_pairLegs.2 ⟨q.swap, hm, by simpa [or_comm] using hl⟩

theorem seqPairs_cons (a : Leg × Leg) (P : List (Leg × Leg)) (fr lg : List Leg) :
    seqPairs (a :: P) fr lg = seqPairs P fr lg ∨ seqPairs (a :: P) fr lg = a :: seqPairs P fr lg ∨
      seqPairs (a :: P) fr lg = a.swap :: seqPairs P fr lg := by
  simp only [seqPairs, List.filterMap_cons]
  by_cases h1 : a.1 ∈ fr ∧ a.2 ∈ lg
  · rw [if_pos h1]; exact Or.inr (Or.inl rfl)
  · rw [if_neg h1]
    by_cases h2 : a.2 ∈ fr ∧ a.1 ∈ lg
    · rw [if_pos h2]; exact Or.inr (Or.inr rfl)
    · rw [if_neg h2]; exact Or.inl rfl

/-- no leg is named twice in the pairs of one step -/
theorem seqPairs_legs_nodup : ∀ (P : List (Leg × Leg)) (fr lg : List Leg), (Expr.pairLegs P).Nodup →
    (Expr.pairLegs (seqPairs P fr lg)).Nodup
  | [], _, _, _ => by simp [seqPairs, Expr.pairLegs]
  | a :: P', fr, lg, hnd => by
    have hnd' := (pairLegs_cons_perm a P').nodup_iff.1 hnd
    simp only [List.nodup_cons, List.mem_cons, not_or] at hnd'
    obtain ⟨⟨ha12, ha1⟩, ha2, hP'⟩ := hnd'
    have ih := seqPairs_legs_nodup P' fr lg hP'
    have h1 : a.1 ∉ Expr.pairLegs (seqPairs P' fr lg) := fun h => ha1 (seqPairs_legs_sub h)
    have h2 : a.2 ∉ Expr.pairLegs (seqPairs P' fr lg) := fun h => ha2 (seqPairs_legs_sub h)
    rcases seqPairs_cons a P' fr lg with h | h | h
    · rw [h]; exact ih
    · rw [h, (pairLegs_cons_perm _ _).nodup_iff]
      simp only [List.nodup_cons, List.mem_cons, not_or]
      exact ⟨⟨ha12, h1⟩, h2, ih⟩
    · rw [h, (pairLegs_cons_perm _ _).nodup_iff]
      simp only [List.nodup_cons, List.mem_cons, not_or, Prod.fst_swap, Prod.snd_swap]
      exact ⟨⟨fun h => ha12 h.symm, h2⟩, h1, ih⟩

theorem seqFold_swf (P : List (Leg × Leg)) (hP : (Expr.pairLegs P).Nodup) : ∀ (L : List (LeafT R))
    (acc : Expr Leg R), acc.SWF → (acc.labels ++ labelsOf L).Nodup → (∀ lf ∈ L, DependsOn (· ∈ lf.1) lf.2) →
    (seqFold P acc L).SWF
  | [], acc, h, _, _ => by simpa [seqFold] using h
  | lf :: rest, acc, h, hnd, hloc => by
    rw [seqFold]
    have hnd0 := hnd
    simp only [labelsOf, List.flatMap_cons] at hnd0
    rw [← List.append_assoc] at hnd0
    apply seqFold_swf P hP rest
    · have hpl := seqPairs_legs_nodup P acc.free lf.1 hP
      simp only [Expr.pairLegs, List.nodup_append] at hpl
      refine ⟨h, ⟨?_, hloc lf (by simp)⟩, ?_, ?_, hpl.1, hpl.2.1⟩
      · exact (List.nodup_append.1 (List.nodup_append.1 hnd0).1).2.1
      · intro l hl hl'
        simp only [Expr.labels] at hl'
        exact (List.nodup_append.1 (List.nodup_append.1 hnd0).1).2.2 l hl l hl' rfl
      · intro p hp
        have := seqPairs_mem hp
        exact ⟨this.1, this.2.1⟩
    · simpa [Expr.labels, labelsOf] using hnd0
    · intro lf' hlf'
      exact hloc lf' (by simp [hlf'])

/-- **the canonical program is strongly well-formed** -/
theorem seqExpr_swf (P : List (Leg × Leg)) (hP : (Expr.pairLegs P).Nodup) (L : List (LeafT R))
    (hnd : (labelsOf L).Nodup) (hloc : ∀ lf ∈ L, DependsOn (· ∈ lf.1) lf.2) : (seqExpr P L).SWF := by
  apply seqFold_swf P hP L _ _ (by simpa [Expr.labels] using hnd) hloc
  exact ⟨List.nodup_nil, fun σ τ _ => rfl⟩

theorem mem_seqPairs_of {P : List (Leg × Leg)} {fr lg : List Leg} {p : Leg × Leg} (hp : p ∈ P)
    (h : p.1 ∈ fr ∧ p.2 ∈ lg) : p ∈ seqPairs P fr lg := by
  simp only [seqPairs, List.mem_filterMap]
  exact ⟨p, hp, by rw [if_pos h]⟩

theorem mem_seqPairs_of_swap {P : List (Leg × Leg)} {fr lg : List Leg} {p : Leg × Leg} (hp : p ∈ P)
    (h1 : ¬ (p.1 ∈ fr ∧ p.2 ∈ lg)) (h : p.2 ∈ fr ∧ p.1 ∈ lg) : p.swap ∈ seqPairs P fr lg := by
  simp only [seqPairs, List.mem_filterMap]
  exact ⟨p, hp, by rw [if_neg h1, if_pos h]⟩

/-- every pair of the record whose two legs are labels of the leaves is bound by the canonical program -/
theorem seqFold_cover (P : List (Leg × Leg)) (hP : (Expr.pairLegs P).Nodup) : ∀ (L : List (LeafT R))
    (acc : Expr Leg R), acc.WF → (acc.labels ++ labelsOf L).Nodup → (∀ lf ∈ L, DependsOn (· ∈ lf.1) lf.2) →
    (∀ p ∈ P, ∀ lf ∈ L, ¬ (p.1 ∈ lf.1 ∧ p.2 ∈ lf.1)) →
    (∀ p ∈ P, p.1 ∈ acc.labels → p.2 ∈ acc.labels → p ∈ acc.binds ∨ p.swap ∈ acc.binds) →
    (∀ l ∈ acc.labels, l ∈ acc.free ∨ l ∈ Expr.pairLegs acc.binds) →
    (∀ q ∈ acc.binds, q ∈ P ∨ q.swap ∈ P) →
    ∀ p ∈ P, p.1 ∈ acc.labels ++ labelsOf L → p.2 ∈ acc.labels ++ labelsOf L →
      p ∈ (seqFold P acc L).binds ∨ p.swap ∈ (seqFold P acc L).binds
  | [], acc, _, _, _, _, H1, _, _ => by
    intro p hp h1 h2
    simp only [labelsOf, List.flatMap_nil, List.append_nil] at h1 h2
    simpa [seqFold] using H1 p hp h1 h2
  | lf :: rest, acc, hwf, hnd, hloc, hsame, H1, H2, H3 => by
    rw [seqFold]
    have hnd0 := hnd
    simp only [labelsOf, List.flatMap_cons] at hnd0
    rw [← List.append_assoc] at hnd0
    have hdis : ∀ l ∈ acc.labels, l ∉ lf.1 := fun l hl hl' =>
      (List.nodup_append.1 (List.nodup_append.1 hnd0).1).2.2 l hl l hl' rfl
    have hfreeL : ∀ l ∈ acc.free, l ∈ acc.labels := Expr.free_sub_labels acc
    have hwf' : (Expr.dot acc (Expr.leaf lf.1 lf.2) (seqPairs P acc.free lf.1)).WF := by
      refine ⟨hwf, hloc lf (by simp), ?_, ?_⟩
      · intro l hl hl'
        simp only [Expr.labels] at hl'
        exact hdis l hl hl'
      · intro p hp
        have := seqPairs_mem hp
        exact ⟨this.1, this.2.1⟩
    -- a leg of `acc` paired with a leg of the new leaf is still free
    have hfree : ∀ p ∈ P, ∀ x y : Leg, ((p.1 = x ∧ p.2 = y) ∨ (p.2 = x ∧ p.1 = y)) → x ∈ acc.labels → y ∈ lf.1 →
        x ∈ acc.free := by
      intro p hp x y hxy hx hy
      rcases H2 x hx with h | h
      · exact h
      · exfalso
        obtain ⟨q, hq, hqx⟩ := mem_pairLegs.1 h
        have hpx : p.1 = x ∨ p.2 = x := by rcases hxy with h | h; exact Or.inl h.1; exact Or.inr h.1
        have hpy : p.1 = y ∨ p.2 = y := by rcases hxy with h | h; exact Or.inr h.2; exact Or.inl h.2
        have hyq : q.1 = y ∨ q.2 = y := by
          rcases H3 q hq with hm | hm
          · have := (seq_legs_unique P hP p hp q hm x hpx hqx).1
            rw [← this]; exact hpy
          · have := (seq_legs_unique P hP p hp q.swap hm x hpx (by simpa [or_comm] using hqx)).1
            rw [this] at hpy
            simpa [or_comm] using hpy
        have : y ∈ acc.labels := Expr.binds_sub_labels acc hwf y (mem_pairLegs.2 ⟨q, hq, hyq⟩)
        exact hdis y this hy
    intro p0 hp0 h10 h20
    refine seqFold_cover P hP rest _ hwf' ?_ ?_ ?_ ?_ ?_ ?_ p0 hp0
      (by simpa [Expr.labels, labelsOf, List.append_assoc] using h10)
      (by simpa [Expr.labels, labelsOf, List.append_assoc] using h20)
    · simpa [Expr.labels, labelsOf] using hnd0
    · intro lf' hlf'
      exact hloc lf' (by simp [hlf'])
    · intro p hp lf' hlf'
      exact hsame p hp lf' (by simp [hlf'])
    · intro p hp h1 h2
      simp only [Expr.labels, List.mem_append] at h1 h2
      simp only [Expr.binds, List.append_nil, List.mem_append]
      rcases h1 with h1 | h1 <;> rcases h2 with h2 | h2
      · rcases H1 p hp h1 h2 with h | h
        · exact Or.inl (Or.inr h)
        · exact Or.inr (Or.inr h)
      · have hf := hfree p hp p.1 p.2 (Or.inl ⟨rfl, rfl⟩) h1 h2
        exact Or.inl (Or.inl (mem_seqPairs_of hp ⟨hf, h2⟩))
      · have hf := hfree p hp p.2 p.1 (Or.inr ⟨rfl, rfl⟩) h2 h1
        refine Or.inr (Or.inl (mem_seqPairs_of_swap hp ?_ ⟨hf, h1⟩))
        intro h
        exact hdis p.1 (hfreeL _ h.1) h1
      · exact absurd ⟨h1, h2⟩ (hsame p hp lf (by simp))
    · intro l hl
      simp only [Expr.labels, List.mem_append] at hl
      simp only [Expr.free, Expr.binds, List.append_nil, List.mem_append, List.mem_filter, Bool.not_eq_true',
        List.contains_eq_mem, decide_eq_false_iff_not]
      rcases hl with hl | hl
      · rcases H2 l hl with h | h
        · by_cases hb : l ∈ (seqPairs P acc.free lf.1).map Prod.fst
          · right
            obtain ⟨q, hq, hql⟩ := List.mem_map.1 hb
            exact mem_pairLegs.2 ⟨q, List.mem_append.2 (Or.inl hq), Or.inl hql⟩
          · exact Or.inl (Or.inl ⟨h, hb⟩)
        · right
          obtain ⟨q, hq, hql⟩ := mem_pairLegs.1 h
          exact mem_pairLegs.2 ⟨q, List.mem_append.2 (Or.inr hq), hql⟩
      · by_cases hb : l ∈ (seqPairs P acc.free lf.1).map Prod.snd
        · right
          obtain ⟨q, hq, hql⟩ := List.mem_map.1 hb
          exact mem_pairLegs.2 ⟨q, List.mem_append.2 (Or.inl hq), Or.inr hql⟩
        · exact Or.inl (Or.inr ⟨hl, hb⟩)
    · intro q hq
      simp only [Expr.binds, List.append_nil, List.mem_append] at hq
      rcases hq with hq | hq
      · exact (seqPairs_mem hq).2.2
      · exact H3 q hq

theorem seq_unordL_nodup (l : List (Leg × Leg)) (h : (Expr.pairLegs l).Nodup) : (unordL l).Nodup := by
  have h0 := h
  simp only [Expr.pairLegs, List.nodup_append] at h0
  have hl : l.Nodup := List.Nodup.of_map _ h0.1
  rw [unordL, List.nodup_append]
  refine ⟨hl, hl.map Prod.swap_injective, ?_⟩
  intro a ha b hb hab
  subst hab
  obtain ⟨q, hq, hqa⟩ := List.mem_map.1 hb
  have hu := seq_legs_unique l h a ha q hq a.1 (Or.inl rfl) (Or.inr (by rw [← hqa]; rfl))
  have : a.1 = a.2 := by
    have h1 := hu.1
    rw [← h1] at hqa
    have := congrArg Prod.fst hqa
    simpa using this.symm
  exact hu.2 this

/-- **the record of the canonical program**: no leg named twice in `P`, every leg of `P` a label of the leaves, no
pair of `P` inside one leaf — then `seqExpr P L` binds, as a multiset of unordered pairs, exactly `P` -/
theorem seqExpr_record (P : List (Leg × Leg)) (hP : (Expr.pairLegs P).Nodup) (L : List (LeafT R))
    (hnd : (labelsOf L).Nodup) (hloc : ∀ lf ∈ L, DependsOn (· ∈ lf.1) lf.2)
    (hin : ∀ l ∈ Expr.pairLegs P, l ∈ labelsOf L)
    (hsame : ∀ p ∈ P, ∀ lf ∈ L, ¬ (p.1 ∈ lf.1 ∧ p.2 ∈ lf.1)) :
    (unordL (seqExpr P L).binds).Perm (unordL P) := by
  have hswf := seqExpr_swf P hP L hnd hloc
  have hn1 := seq_unordL_nodup _ (Expr.binds_nodup _ hswf)
  have hn2 := seq_unordL_nodup _ hP
  have hcover := seqFold_cover P hP L (Expr.leaf [] (fun _ => (1 : R))) (fun σ τ _ => rfl)
    (by simpa [Expr.labels] using hnd) hloc hsame (by simp [Expr.labels]) (by simp [Expr.labels])
    (by simp [Expr.binds])
  have hcov : ∀ p ∈ P, p ∈ (seqExpr P L).binds ∨ p.swap ∈ (seqExpr P L).binds := fun p hp =>
    hcover p hp (by simpa [Expr.labels] using hin p.1 (mem_pairLegs.2 ⟨p, hp, Or.inl rfl⟩))
      (by simpa [Expr.labels] using hin p.2 (mem_pairLegs.2 ⟨p, hp, Or.inr rfl⟩))
  rw [List.perm_ext_iff_of_nodup hn1 hn2]
  intro x
  have hm : ∀ l : List (Leg × Leg), x ∈ unordL l ↔ (x ∈ l ∨ x.swap ∈ l) := by
    intro l
    simp only [unordL, List.mem_append, List.mem_map]
    constructor
    · rintro (h | ⟨q, hq, rfl⟩)
      · exact Or.inl h
      · exact Or.inr (by simpa using hq)
    · rintro (h | h)
      · exact Or.inl h
      · exact Or.inr ⟨x.swap, h, by simp⟩
  rw [hm, hm]
  constructor
  · rintro (h | h)
    · exact seqExpr_binds_sub P L x h
    · have := seqExpr_binds_sub P L x.swap h
      simpa [or_comm] using this
  · rintro (h | h)
    · exact hcov x h
    · have := hcov x.swap h
      simpa [or_comm] using this

end Ptn.C05.Heff
