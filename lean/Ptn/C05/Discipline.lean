import Ptn.C05.DiscSweeps
import Ptn.C17.Last3
import Ptn.C17.Examples
/-! **Cache-freshness discipline of the TDVP sweeps** (C05, clause "E is the embedding given all
other *current* tensors").  Machine and event sequences: `DiscModel.lean`.  For every well-formed
tree: the invariant "every block pointing toward the current centre is fresh" holds after the
constructor and after every event of the three sweeps (except between the plain QR hops of the
first-order reset, after which `init_cache_but_one` re-establishes it), every precondition on the
centre holds, and no event reads a stale block.

Facts about trees used (all proved in C17, `HopFacts.lean`, `Last.lean`, `Last3.lean`):
1. `firstHop_adj`      - the first hop toward a neighbour is that neighbour;
2. `toward_not_back`   - if `h` is the first hop from `x` to `v`, `x` is not the first hop from `h` to `v`
                         (a block pointing toward `v` is not invalidated by writing `v`);
3. `firstHop_adj_same` - for neighbours `a`, `b` and `x ∉ {a, b}`: first hop from `x` to `a` = to `b`;
4. consecutive nodes of a way are neighbours (`pathFromTo_isSimplePath`);
5. `updatePath_last_two` / `updatePath_last_three` - the last two nodes of the update path are
   neighbours, and so are the third-last and second-last (needed by the second-order variants, which
   do not move the centre before their last forward update). -/
namespace Ptn.C05.Disc
open Ptn.C17 Ptn.C17.RTree

/-- what the sweeps need to know about the update path -/
theorem updatePath_facts (t : RTree) (hwf : t.WF) :
    ∃ u s, updatePath t = some u ∧ u.head? = some s ∧ (∀ y ∈ u, y ∈ ids t) ∧ u.Nodup ∧
      (∀ l x y z, u = l ++ [x, y, z] → Adj t x y) ∧
      (t.kids ≠ [] → ∃ l y z, u = l ++ [y, z] ∧ Adj t y z) := by
  cases t with
  | node r ks =>
    obtain ⟨p, s, hp, _, hperm, hhead, _, _⟩ := updatePath_spec r ks hwf
    have hperm' : p.Perm (ids (node r ks)) := by simpa using hperm
    obtain ⟨p3, hp3, h3⟩ := updatePath_last_three r ks hwf
    rw [hp] at hp3; simp at hp3; subst hp3
    refine ⟨p, s, hp, hhead, fun y hy => hperm'.subset hy, hperm'.symm.nodup hwf, h3, ?_⟩
    intro hk
    obtain ⟨p2, l, y, z, hp2, e, hadj⟩ := updatePath_last_two r ks hwf hk
    rw [hp] at hp2; simp at hp2; subst hp2
    exact ⟨l, y, z, e, hadj⟩

/-- After the constructor (`canonical_form(u₀)`, `init_cache_but_one(u₀)`) the invariant holds. -/
theorem discipline_init (t : RTree) (hwf : t.WF) :
    ∃ u s st0, updatePath t = some u ∧ u.head? = some s ∧ initState t = some st0 ∧
      st0.centre = s ∧ Inv t st0 := by
  obtain ⟨u, s, hu, hs, hm, _, _, _⟩ := updatePath_facts t hwf
  have hsm : s ∈ ids t := hm s (List.mem_of_head? hs)
  refine ⟨u, s, ⟨s, (blocks t).filter (away t s)⟩, hu, hs, by simp [initState, hu, hs], rfl, ?_⟩
  exact (init_ok hwf (st := ⟨s, []⟩) rfl hsm).2

/-- plain QR hops along a chain of neighbours only need the centre to be at the start -/
theorem hops_run {t : RTree} : ∀ (p : List Nat) (a : Nat) {l : Nat}, Chain (Adj t) (a :: p) →
    (a :: p).getLast? = some l → ∀ st : DSt, st.centre = a →
    ∃ st', run t st (hopsAlong (a :: p)) = some st' ∧ st'.centre = l
  | [], a, l, _, hl, st, hc => by
    simp at hl; subst hl; exact ⟨st, by simp [hopsAlong, run], hc⟩
  | b :: p, a, l, hch, hl, st, hc => by
    have hch' := chain_cons_cons.mp hch
    rw [List.getLast?_cons_cons] at hl
    obtain ⟨s1, h1, c1⟩ := hop_ok (t := t) hc hch'.1
    obtain ⟨s2, h2, c2⟩ := hops_run p b hch'.2 hl s1 c1
    exact ⟨s2, by simp [hopsAlong, run, h1, h2], c2⟩

theorem run_append {t : RTree} : ∀ (l1 l2 : List DEv) (st : DSt),
    run t st (l1 ++ l2) = (run t st l1).bind fun s => run t s l2
  | [], _, _ => by simp [run]
  | e :: l1, l2, st => by
    simp only [List.cons_append, run]
    cases step t st e with
    | none => simp
    | some s => simp [run_append l1 l2 s]

/-- **First-order one-site TDVP.**  One whole time step, started in any state with the invariant
    and the centre at the start of the update path (in particular the state after the constructor):
    the sweep `body` never violates a precondition, never reads a stale block and keeps the
    invariant after every event; the reset (`_reset_for_next_time_step`) then leads back to exactly
    the state after the constructor - so the same holds for every later step. -/
theorem reads_fresh_first (t : RTree) (hwf : t.WF) :
    ∃ u s body reset l, updatePath t = some u ∧ u.head? = some s ∧ u.getLast? = some l ∧
      eventsFirst t = some (body ++ reset) ∧ OK t s body l ∧
      (∀ st : DSt, st.centre = l →
        run t st reset = some ⟨s, (blocks t).filter (away t s)⟩) ∧
      (∀ st, Inv t st → st.centre = s →
        run t st (body ++ reset) = some ⟨s, (blocks t).filter (away t s)⟩) := by
  obtain ⟨u, s, hu, hs, hm, hnd, _, _⟩ := updatePath_facts t hwf
  cases u with
  | nil => simp at hs
  | cons a rest =>
    simp at hs; subst hs
    obtain ⟨body, l, hbody, hlast, hok⟩ := firstBody_ok hwf rest a hm hnd
    have ham := hm a (by simp)
    have hlm : l ∈ ids t := hm l (List.mem_of_getLast? hlast)
    -- the reset
    have hreset : ∃ reset, resetEvents t l a = some reset ∧ ∀ st : DSt, st.centre = l →
        run t st reset = some ⟨a, (blocks t).filter (away t a)⟩ := by
      by_cases hla : l = a
      · subst hla
        refine ⟨[.init l], by simp [resetEvents, pathFromTo, hopsAlong], ?_⟩
        intro st hc
        simp [run, (init_ok hwf hc hlm).1]
      · obtain ⟨h, r, hp, _, hch, hl, _⟩ := path_facts hwf hlm ham hla
        refine ⟨hopsAlong (l :: h :: r) ++ [.init a], by simp [resetEvents, hp], ?_⟩
        intro st hc
        have hl' : (l :: h :: r).getLast? = some a := by rw [List.getLast?_cons_cons]; exact hl
        obtain ⟨s1, h1, c1⟩ := hops_run (h :: r) l hch hl' st hc
        rw [run_append, h1]
        simp [run, (init_ok hwf c1 ham).1]
    obtain ⟨reset, hre, hrun⟩ := hreset
    refine ⟨a :: rest, a, body, reset, l, hu, rfl, hlast, ?_, hok, hrun, ?_⟩
    · simp [eventsFirst, hu, hbody, hlast, hre]
    · intro st hinv hc
      obtain ⟨s1, r1, _, c1⟩ := hok st hinv hc
      rw [run_append, stepsOK_run r1]
      exact hrun s1 c1

/-- **Second-order one-site TDVP** on a tree with at least two nodes: one whole time step (forward
    sweep, full step on the last node, backward sweep) started in any state with the invariant and
    the centre at the start of the update path never violates a precondition, never reads a stale
    block, keeps the invariant after every event and ends with the centre back at the start - so the
    same holds for every later step. -/
theorem reads_fresh_second (t : RTree) (hwf : t.WF) (hk : t.kids ≠ []) :
    ∃ u s evs, updatePath t = some u ∧ u.head? = some s ∧ eventsSecond t = some evs ∧
      OK t s evs s := by
  obtain ⟨u, s, hu, hs, hm, hnd, _, h2⟩ := updatePath_facts t hwf
  obtain ⟨l, y, z, e, hadj⟩ := h2 hk
  have hlast2 : ∀ l' y' z', u = l' ++ [y', z'] → Adj t y' z' := by
    intro l' y' z' e'
    rw [e] at e'
    have := List.append_inj' e' rfl
    simp at this
    obtain ⟨_, rfl, rfl⟩ := this
    exact hadj
  cases u with
  | nil => simp at hs
  | cons a rest =>
    simp at hs; subst hs
    obtain ⟨fwd, lf, hfwd, hlf, hokf⟩ := secondFwd_ok hwf rest a hm hnd hlast2
    have hzl : lf = z := by rw [e] at hlf; simpa using hlf.symm
    subst hzl
    have hrev : (a :: rest).reverse = lf :: y :: l.reverse := by rw [e]; simp
    obtain ⟨bwd, lb, hbwd, hlb, hokb⟩ := secondBwd_ok hwf l.reverse lf y
      (fun x hx => hm x (by rw [← List.mem_reverse, hrev]; exact hx))
      (by rw [← hrev]; exact nodup_reverse.mpr hnd) (adj_symm hadj)
    have hlb' : lb = a := by
      rw [← hrev, List.getLast?_reverse] at hlb; simpa using hlb.symm
    subst hlb'
    refine ⟨lb :: rest, lb, fwd ++ bwd, hu, rfl, ?_, OK_append hokf hokb⟩
    simp only [eventsSecond, hu, Option.bind_eq_bind, Option.bind_some, hfwd, hrev, hbwd]

/-- **Second-order two-site TDVP** on a tree with at least two nodes: as `reads_fresh_second`. -/
theorem reads_fresh_two_site (t : RTree) (hwf : t.WF) (hk : t.kids ≠ []) :
    ∃ u s evs, updatePath t = some u ∧ u.head? = some s ∧ eventsTwoSite t = some evs ∧
      OK t s evs s := by
  obtain ⟨u, s, hu, hs, hm, hnd, h3, h2⟩ := updatePath_facts t hwf
  obtain ⟨l, y, z, e, hadj⟩ := h2 hk
  have hlast2 : ∀ l' y' z', u = l' ++ [y', z'] → Adj t y' z' := by
    intro l' y' z' e'
    rw [e] at e'
    have := List.append_inj' e' rfl
    simp at this
    obtain ⟨_, rfl, rfl⟩ := this
    exact hadj
  cases u with
  | nil => simp at hs
  | cons a rest =>
    simp at hs; subst hs
    cases rest with
    | nil =>
      have := congrArg List.length e
      simp at this
    | cons b rest' =>
      obtain ⟨fwd, lf, hfwd, hlf, hokf⟩ := twoFwd_ok hwf rest' a b hm hnd hlast2 h3
      have hzl : lf = z := by rw [e] at hlf; simpa using hlf.symm
      subst hzl
      have hrev : (a :: b :: rest').reverse = lf :: y :: l.reverse := by rw [e]; simp
      obtain ⟨bwd, lb, hbwd, hlb, hokb⟩ := twoBwd_ok hwf l.reverse lf y
        (fun x hx => hm x (by rw [← List.mem_reverse, hrev]; exact hx))
        (by rw [← hrev]; exact nodup_reverse.mpr hnd) (adj_symm hadj)
      have hlb' : lb = a := by
        rw [← hrev, List.getLast?_reverse] at hlb; simpa using hlb.symm
      subst hlb'
      refine ⟨lb :: b :: rest', lb, fwd ++ bwd, hu, rfl, ?_, OK_append hokf hokb⟩
      simp only [eventsTwoSite, hu, Option.bind_eq_bind, Option.bind_some, hfwd, hrev, hbwd]

/-- **The invariant.**  "Every block pointing toward the current centre is fresh" holds after the
    constructor and is preserved by every event of the sweeps of the three variants (`OK` asserts it
    after every single event); in the first-order variant it is re-established by the reset. -/
theorem discipline_invariant (t : RTree) (hwf : t.WF) :
    (∃ st0, initState t = some st0 ∧ Inv t st0) ∧
    (∃ u s body reset l, updatePath t = some u ∧ u.head? = some s ∧
      eventsFirst t = some (body ++ reset) ∧ OK t s body l ∧
      ∀ st : DSt, st.centre = l → ∃ st', run t st reset = some st' ∧ Inv t st' ∧ st'.centre = s) ∧
    (t.kids ≠ [] → ∃ s evs, eventsSecond t = some evs ∧ OK t s evs s) ∧
    (t.kids ≠ [] → ∃ s evs, eventsTwoSite t = some evs ∧ OK t s evs s) := by
  refine ⟨?_, ?_, ?_, ?_⟩
  · obtain ⟨_, _, st0, _, _, h, _, hinv⟩ := discipline_init t hwf
    exact ⟨st0, h, hinv⟩
  · obtain ⟨u, s, body, reset, l, hu, hs, _, hev, hok, hre, _⟩ := reads_fresh_first t hwf
    refine ⟨u, s, body, reset, l, hu, hs, hev, hok, ?_⟩
    intro st hc
    obtain ⟨_, s', st0, hu', hs', _, _, hinv⟩ := discipline_init t hwf
    rw [hu] at hu'; simp at hu'; subst hu'
    rw [hs] at hs'; simp at hs'; subst hs'
    refine ⟨_, hre st hc, ?_, rfl⟩
    have hsm : s ∈ ids t := by
      obtain ⟨u2, s2, hu2, hs2, hm, _⟩ := updatePath_facts t hwf
      rw [hu] at hu2; simp at hu2; subst hu2
      exact hm s (List.mem_of_head? hs)
    exact (init_ok hwf (st := ⟨s, []⟩) rfl hsm).2
  · intro hk
    obtain ⟨_, s, evs, _, _, hev, hok⟩ := reads_fresh_second t hwf hk
    exact ⟨s, evs, hev, hok⟩
  · intro hk
    obtain ⟨_, s, evs, _, _, hev, hok⟩ := reads_fresh_two_site t hwf hk
    exact ⟨s, evs, hev, hok⟩

/-! ### Non-vacuity: the 8-node tree of the C17 examples -/

example : exTree.WF ∧ exTree.kids ≠ [] := by decide
example : (eventsSecond exTree).map List.length = some 33 := by decide
example : (eventsTwoSite exTree).map (fun l => l.take 5) =
    some [.two 7 6, .site 6, .two 6 5, .site 5, .two 5 0] := by decide
example : ((initState exTree).bind fun st => (eventsFirst exTree).bind (run exTree st)).isSome =
    true := by decide

end Ptn.C05.Disc
