import Ptn.C05.SeqRecord
/-! The canonical environments of a site (C05, value level, builder B48, Goal 2 of B47).

For a layer `Λ` of the tree (ket layer, bra layer) and a site `i` in the hole of the context `c` with the child
subtrees `ks`, `envExpr Λ c i ks` is the canonical contraction (`seqExpr`: leaf after leaf in the fixed order "component
above the site along the `Ctx` decomposition, then the child subtrees") of the tensors of ALL nodes EXCEPT the site
over all bonds of the layer that do not touch the site.  `envExpr_facts`: it is strongly well-formed, its leaves are
those tensors, its record is — as a multiset of unordered pairs — exactly these bonds, and every label of its leaves
that is not a virtual leg (the physical legs) stays free. -/
namespace Ptn.C05.Heff
open Ptn.C04 Ptn.Ein

set_option linter.unusedSectionVars false
variable {R : Type} [CommSemiring R]

mutual
theorem seq_edges_mem_ids : ∀ (t : Tree) (e : Nat × Nat), e ∈ t.edges → e.1 ∈ t.ids ∧ e.2 ∈ t.ids
  | .node i ks, e, h => by
    have := seq_edgesL_mem_ids i ks e (by simpa [Tree.edges] using h)
    simp only [Tree.ids, List.mem_cons]
    exact ⟨this.1.imp id id, Or.inr this.2⟩
theorem seq_edgesL_mem_ids : ∀ (i : Nat) (ts : List Tree) (e : Nat × Nat), e ∈ Tree.edgesL i ts →
    (e.1 = i ∨ e.1 ∈ Tree.idsL ts) ∧ e.2 ∈ Tree.idsL ts
  | i, [], e, h => by simp [Tree.edgesL] at h
  | i, c :: cs, e, h => by
    simp only [Tree.edgesL, List.mem_cons, List.mem_append] at h
    simp only [Tree.idsL, List.mem_append]
    rcases h with rfl | h | h
    · exact ⟨Or.inl rfl, Or.inl (tree_id_mem_ids c)⟩
    · have := seq_edges_mem_ids c e h
      exact ⟨Or.inr (Or.inl this.1), Or.inl this.2⟩
    · have := seq_edgesL_mem_ids i cs e h
      exact ⟨this.1.imp id Or.inr, Or.inr this.2⟩
end

theorem Ctx.compEdges_mem_ids : ∀ (c : Ctx) (e : Nat × Nat), e ∈ c.compEdges → e.1 ∈ c.ids ∧ e.2 ∈ c.ids
  | .root, e, h => by simp [Ctx.compEdges] at h
  | .frame p ls rs up, e, h => by
    simp only [Ctx.compEdges, List.mem_append, List.mem_map] at h
    simp only [Ctx.ids, List.mem_cons, List.mem_append]
    rcases h with h | ⟨q, hq, rfl⟩ | h
    · have := seq_edgesL_mem_ids p (ls ++ rs) e h
      exact ⟨this.1.imp id Or.inl, Or.inr (Or.inl this.2)⟩
    · exact ⟨Or.inr (Or.inr (Ctx.parent_mem_ids (by simpa using hq))), Or.inl rfl⟩
    · have := Ctx.compEdges_mem_ids up e h
      exact ⟨Or.inr (Or.inr this.1), Or.inr (Or.inr this.2)⟩

/-- the tensors of the layer `Λ` at all nodes except the site `i`: component above the site, then the child subtrees -/
def envLeaves (Λ : Layer R) (c : Ctx) (i : Nat) (ks : List Tree) : List (LeafT R) :=
  c.leavesG Λ.nodeLeaves i ++ treeLeavesL Λ.nodeLeaves i ks

/-- the edges of the tree that do not touch the site -/
def envEdges (c : Ctx) (ks : List Tree) : List (Nat × Nat) := c.compEdges ++ ks.flatMap Tree.edges

/-- the bonds of the layer that do not touch the site -/
def envRecord (Λ : Layer R) (c : Ctx) (ks : List Tree) : List (Leg × Leg) :=
  (envEdges c ks).map fun e => Λ.edge e.1 e.2

/-- **the canonical environment of the site in the layer `Λ`** -/
def envExpr (Λ : Layer R) (c : Ctx) (i : Nat) (ks : List Tree) : Expr Leg R :=
  seqExpr (envRecord Λ c ks) (envLeaves Λ c i ks)

theorem layer_edge_legs (Λ : Layer R) (a b : Nat) :
    ((Λ.edge a b).1 = Λ.vleg a b ∧ (Λ.edge a b).2 = Λ.vleg b a) ∨
      ((Λ.edge a b).1 = Λ.vleg b a ∧ (Λ.edge a b).2 = Λ.vleg a b) := by
  unfold Layer.edge
  cases Λ.rev <;> simp

/-- **the canonical environment is admissible.** -/
theorem envExpr_facts (Λ : Layer R) (hs : Λ.Inj) (hnode : ∀ a b, legNode (Λ.vleg a b) = some a)
    (c : Ctx) (i : Nat) (ks : List Tree) (hnd : (c.plug (Tree.node i ks)).ids.Nodup)
    (hh : ∀ e ∈ Tree.info none (c.plug (Tree.node i ks)), Λ.Has e)
    (hok : ∀ e ∈ Tree.info none (c.plug (Tree.node i ks)), NodeOK Λ.nodeLeaves e)
    (hloc : ∀ e ∈ Tree.info none (c.plug (Tree.node i ks)), DependsOn (· ∈ Λ.legs e.1 e.2.1 e.2.2) (Λ.val e.1)) :
    (envExpr Λ c i ks).SWF ∧
      (envExpr Λ c i ks).leaves = ([], fun _ => 1) :: envLeaves Λ c i ks ∧
      (∀ lf ∈ envLeaves Λ c i ks, lf ∈ treeLeaves Λ.nodeLeaves none (c.plug (Tree.node i ks))) ∧
      (unordL (envExpr Λ c i ks).binds).Perm (unordL (envRecord Λ c ks)) ∧
      (∀ l, l ∈ labelsOf (treeLeaves Λ.nodeLeaves none (c.plug (Tree.node i ks))) → legNode l ≠ some i →
        l ∈ labelsOf (envLeaves Λ c i ks)) ∧
      (∀ l, (∀ a b, l ≠ Λ.vleg a b) → l ∈ labelsOf (envLeaves Λ c i ks) → l ∈ (envExpr Λ c i ks).free) := by
  have hnone : ∀ q, (none : Option Nat) = some q → q ∉ (c.plug (Tree.node i ks)).ids := fun q hq => by simp at hq
  -- identifiers
  have hnd' : (c.ids ++ (Tree.node i ks).ids).Nodup := (Ctx.plug_ids_perm c _).nodup_iff.1 hnd
  have hdisj : ∀ a ∈ c.ids, ∀ b ∈ i :: Tree.idsL ks, a ≠ b := (List.nodup_append.1 hnd').2.2
  have hin : (i :: Tree.idsL ks).Nodup := (List.nodup_append.1 hnd').2.1
  have hic : i ∉ c.ids := fun h => hdisj i h i (by simp) rfl
  have hik : i ∉ Tree.idsL ks := (List.nodup_cons.1 hin).1
  -- leaves
  have hplug := Ctx.plug_leaves_perm Λ.nodeLeaves c (Tree.node i ks)
  have hid : (Tree.node i ks).id = i := rfl
  rw [hid] at hplug
  simp only [treeLeaves] at hplug
  have hlabT := (treeLeaves_labels Λ.nodeLeaves (c.plug (Tree.node i ks)) none hnd hok).1
  have hN := (hplug.flatMap_right (·.1)).nodup_iff.1 hlabT
  simp only [List.flatMap_append] at hN
  have hndE : (labelsOf (envLeaves Λ c i ks)).Nodup := by
    simp only [envLeaves, labelsOf, List.flatMap_append]
    exact List.Nodup.sublist ((List.Sublist.refl _).append (List.sublist_append_right _ _)) hN
  have hsub : ∀ lf ∈ envLeaves Λ c i ks, lf ∈ treeLeaves Λ.nodeLeaves none (c.plug (Tree.node i ks)) := by
    intro lf hlf
    apply hplug.mem_iff.2
    simp only [envLeaves, List.mem_append] at hlf ⊢
    rcases hlf with h | h
    · exact Or.inl h
    · exact Or.inr (Or.inr h)
  have hlocE : ∀ lf ∈ envLeaves Λ c i ks, DependsOn (· ∈ lf.1) lf.2 := by
    intro lf hlf
    obtain ⟨x, hx, h⟩ := treeLeaves_sub _ _ none lf (hsub lf hlf)
    simp only [Layer.nodeLeaves, List.mem_singleton] at h
    subst h
    exact hloc x hx
  have hsite : (i, c.parent, ks.map Tree.id) ∈ Tree.info none (c.plug (Tree.node i ks)) :=
    Ctx.mem_info_plug c (Tree.node i ks) _ (Or.inr (by simp [Tree.info]))
  have hmemE : ∀ l, l ∈ labelsOf (treeLeaves Λ.nodeLeaves none (c.plug (Tree.node i ks))) → legNode l ≠ some i →
      l ∈ labelsOf (envLeaves Λ c i ks) := by
    intro l hl hne
    have := (hplug.flatMap_right (·.1)).mem_iff.1 hl
    simp only [List.flatMap_append, List.mem_append] at this
    simp only [envLeaves, labelsOf, List.flatMap_append, List.mem_append]
    rcases this with h | h | h
    · exact Or.inl h
    · exact absurd ((hok _ hsite).2 l h) hne
    · exact Or.inr h
  -- the record
  have hswfT := layExpr_swf Λ hs (c.plug (Tree.node i ks)) none hnd hnone hh hok hloc
  have hbT := layExpr_binds Λ (c.plug (Tree.node i ks)) none
  have hPT : (Expr.pairLegs ((c.plug (Tree.node i ks)).edges.map fun e => Λ.edge e.1 e.2)).Nodup :=
    (pairLegs_perm hbT).nodup_iff.1 (Expr.binds_nodup _ hswfT)
  have hedges : (c.plug (Tree.node i ks)).edges.Perm
      ((c.parent.toList.map (fun p => (p, i)) ++ ks.map (fun k => (i, k.id))) ++ envEdges c ks) := by
    refine (Ctx.plug_edges_perm c (Tree.node i ks)).trans ?_
    have h2 := edgesL_perm i ks
    rw [hid]
    simp only [Ctx.edges, Tree.edges, envEdges]
    rw [List.perm_iff_count]
    intro x
    have := h2.count_eq x
    simp only [List.count_append] at this ⊢
    omega
  have hPTe := (pairLegs_perm (hedges.map fun e => Λ.edge e.1 e.2)).nodup_iff.1 hPT
  have hsubl : (Expr.pairLegs (envRecord Λ c ks)).Sublist
      (Expr.pairLegs (((c.parent.toList.map (fun p => (p, i)) ++ ks.map (fun k => (i, k.id))) ++ envEdges c ks).map
        fun e => Λ.edge e.1 e.2)) := by
    have h0 : (envRecord Λ c ks).Sublist
        (((c.parent.toList.map (fun p => (p, i)) ++ ks.map (fun k => (i, k.id))) ++ envEdges c ks).map
          fun e => Λ.edge e.1 e.2) := by
      rw [List.map_append]
      exact List.sublist_append_right _ _
    exact (h0.map Prod.fst).append (h0.map Prod.snd)
  have hP : (Expr.pairLegs (envRecord Λ c ks)).Nodup := List.Nodup.sublist hsubl hPTe
  have hends : ∀ e ∈ envEdges c ks, e.1 ≠ i ∧ e.2 ≠ i := by
    intro e he
    simp only [envEdges, List.mem_append, List.mem_flatMap] at he
    rcases he with h | ⟨k, hk, h⟩
    · have := Ctx.compEdges_mem_ids c e h
      exact ⟨fun h1 => hic (h1 ▸ this.1), fun h1 => hic (h1 ▸ this.2)⟩
    · have := seq_edges_mem_ids k e h
      have hkk : ∀ x ∈ k.ids, x ∈ Tree.idsL ks := fun x hx => by
        rw [idsL_eq_flatMap]; exact List.mem_flatMap.2 ⟨k, hk, hx⟩
      exact ⟨fun h1 => hik (h1 ▸ hkk _ this.1), fun h1 => hik (h1 ▸ hkk _ this.2)⟩
  have hlegsIn : ∀ l ∈ Expr.pairLegs (envRecord Λ c ks), l ∈ labelsOf (envLeaves Λ c i ks) := by
    intro l hl
    have h1 : l ∈ Expr.pairLegs ((c.plug (Tree.node i ks)).edges.map fun e => Λ.edge e.1 e.2) :=
      (pairLegs_perm (hedges.map fun e => Λ.edge e.1 e.2)).mem_iff.2 (hsubl.subset hl)
    have h2 : l ∈ (layExpr Λ none (c.plug (Tree.node i ks))).labels :=
      Expr.binds_sub_labels _ hswfT.wf l ((pairLegs_perm hbT).mem_iff.2 h1)
    rw [Expr.labels_eq_leaves] at h2
    have h3 := ((layExpr_leaves Λ (c.plug (Tree.node i ks)) none).flatMap_right (·.1)).mem_iff.1 h2
    apply hmemE l h3
    obtain ⟨q, hq, hql⟩ := mem_pairLegs.1 hl
    obtain ⟨e, he, rfl⟩ := List.mem_map.1 hq
    have hne := hends e he
    rcases layer_edge_legs Λ e.1 e.2 with ⟨h1, h2⟩ | ⟨h1, h2⟩ <;> rcases hql with h | h
    · rw [← h, h1, hnode]; exact fun hh => hne.1 (Option.some.inj hh)
    · rw [← h, h2, hnode]; exact fun hh => hne.2 (Option.some.inj hh)
    · rw [← h, h1, hnode]; exact fun hh => hne.2 (Option.some.inj hh)
    · rw [← h, h2, hnode]; exact fun hh => hne.1 (Option.some.inj hh)
  have hsame : ∀ p ∈ envRecord Λ c ks, ∀ lf ∈ envLeaves Λ c i ks, ¬ (p.1 ∈ lf.1 ∧ p.2 ∈ lf.1) := by
    intro p hp lf hlf hboth
    obtain ⟨x, hx, h⟩ := treeLeaves_sub _ _ none lf (hsub lf hlf)
    have hl1 := (hok x hx).2 p.1 (List.mem_flatMap.2 ⟨lf, h, hboth.1⟩)
    have hl2 := (hok x hx).2 p.2 (List.mem_flatMap.2 ⟨lf, h, hboth.2⟩)
    have hne := (seq_legs_unique _ hP p hp p hp p.1 (Or.inl rfl) (Or.inl rfl)).2
    obtain ⟨e, he, rfl⟩ := List.mem_map.1 hp
    rcases layer_edge_legs Λ e.1 e.2 with ⟨h1, h2⟩ | ⟨h1, h2⟩
    · rw [h1, hnode] at hl1
      rw [h2, hnode] at hl2
      have hab : e.1 = e.2 := Option.some.inj (hl1.trans hl2.symm)
      apply hne
      rw [h1, h2, hab]
    · rw [h1, hnode] at hl1
      rw [h2, hnode] at hl2
      have hab : e.2 = e.1 := Option.some.inj (hl1.trans hl2.symm)
      apply hne
      rw [h1, h2, hab]
  refine ⟨seqExpr_swf _ hP _ hndE hlocE, seqExpr_leaves _ _, hsub,
    seqExpr_record _ hP _ hndE hlocE hlegsIn hsame, hmemE, ?_⟩
  intro l hl hmem
  apply seqExpr_free _ _ l _ hmem
  intro hpl
  obtain ⟨q, hq, hql⟩ := mem_pairLegs.1 hpl
  obtain ⟨e, he, rfl⟩ := List.mem_map.1 hq
  rcases layer_edge_legs Λ e.1 e.2 with ⟨h1, h2⟩ | ⟨h1, h2⟩ <;> rcases hql with h | h
  · exact hl _ _ (h.symm.trans h1)
  · exact hl _ _ (h.symm.trans h2)
  · exact hl _ _ (h.symm.trans h1)
  · exact hl _ _ (h.symm.trans h2)

end Ptn.C05.Heff
