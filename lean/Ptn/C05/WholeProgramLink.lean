import Ptn.C05.WholeProgram
import Ptn.C05.ProjectedTreeTwo
/-! ONE program from the node tensors to the matrix handed to `time_evolve`, for the LINK function
`_get_effective_link_hamiltonian` (C05, value level, builder B47, Goal 1, first half).

* `whole_built_facts`   generic glue: an expression built over leaf tensors with pairwise distinct labels, each
                        reading its own legs, is strongly well-formed and has the record / legs of the built tensor;
* `whole_split_facts`   generic glue: any split of such leaves into three expressions has pairwise disjoint labels
                        and the leaf product factorises;
* `linkLeaves`          the node tensors of the whole tree (component above the hole ++ subtree in the hole);
* `link_heff_whole_program` the matrix of the link function (both sweep orientations) is built from exactly the ket,
                        operator and bra tensors of ALL nodes, is SWF and evaluates to `E† H E`. -/
namespace Ptn.C05.Heff
open Ptn.C04 Ptn.Ein

set_option linter.unusedSectionVars false
variable {R : Type} [CommSemiring R]

/-- an expression built over leaf tensors with pairwise distinct labels, each reading only its own legs, is strongly
well-formed, its record is the record of the built tensor and its free legs are the legs of the built tensor -/
theorem whole_built_facts {tt : T} {L : List (LeafT R)} (hndL : (labelsOf L).Nodup)
    (hlocL : ∀ lf ∈ L, DependsOn (· ∈ lf.1) lf.2) {e : Expr Leg R} (hbe : Built tt e) (hleaves : e.leaves.Perm L) :
    e.SWF ∧ e.binds.Perm tt.binds ∧ e.free.Perm tt.legs := by
  have hend : e.labels.Nodup := by
    rw [Expr.labels_eq_leaves]
    exact (hleaves.flatMap_right _).nodup_iff.2 hndL
  have hloc : e.LeavesLocal := fun lf hlf => hlocL lf (hleaves.mem_iff.1 hlf)
  obtain ⟨hbinds, hlegs, _⟩ := hbe.sound hend
  exact ⟨hbe.swf hend hloc, hbinds.symm, hlegs.symm⟩

/-- any split of leaf tensors with pairwise distinct labels into three expressions: the labels of the three are
pairwise disjoint and the product of all leaves factorises -/
theorem whole_split_facts {L : List (LeafT R)} (hndL : (labelsOf L).Nodup) {e E H B : Expr Leg R}
    (hleaves : e.leaves.Perm L) (hsplit : (E.leaves ++ (H.leaves ++ B.leaves)).Perm L) :
    (∀ l ∈ E.labels, l ∉ H.labels) ∧ (∀ l ∈ E.labels, l ∉ B.labels) ∧ (∀ l ∈ H.labels, l ∉ B.labels) ∧
      ∀ σ, e.leafProd σ = E.leafProd σ * H.leafProd σ * B.leafProd σ := by
  have hndAll : (E.labels ++ (H.labels ++ B.labels)).Nodup := by
    have h1 := (hsplit.flatMap_right (·.1)).nodup_iff.2 hndL
    simpa [List.flatMap_append, ← Expr.labels_eq_leaves] using h1
  rw [List.nodup_append] at hndAll
  obtain ⟨_, hndHB, hdisE⟩ := hndAll
  rw [List.nodup_append] at hndHB
  refine ⟨fun l hl hl' => hdisE l hl l (List.mem_append.2 (Or.inl hl')) rfl,
    fun l hl hl' => hdisE l hl l (List.mem_append.2 (Or.inr hl')) rfl,
    fun l hl hl' => hndHB.2.2 l hl l hl' rfl, ?_⟩
  intro τ
  rw [Expr.leafProd_of_leaves e _ (hleaves.trans hsplit.symm) τ, List.map_append, List.map_append, prodL_append,
    prodL_append, mul_assoc]
  rfl

/-- the node tensors of a whole tree have pairwise distinct labels and each reads only its own legs -/
theorem soLeaves_clean (opKids : Nat → List Nat) (kv ov bv : Nat → Asg Leg → R) (T0 : Tree) (hnd : T0.ids.Nodup)
    (hperm : ∀ e ∈ Tree.info none T0, (opKids e.1).Perm e.2.2)
    (hkv : KetLocal kv T0) (hov : OpLocalK ov opKids T0) (hbv : BraLocalK bv T0) :
    (labelsOf (soLeaves opKids kv ov bv none T0)).Nodup ∧
      ∀ lf ∈ soLeaves opKids kv ov bv none T0, DependsOn (· ∈ lf.1) lf.2 := by
  have hnone : ∀ q, (none : Option Nat) = some q → q ∉ T0.ids := fun q hq => by simp at hq
  have hnb := info_nbrs_nodup T0 none hnd hnone
  have hok : ∀ e ∈ Tree.info none T0, NodeOK (soNodeLeaves opKids kv ov bv) e :=
    fun e he => so_nodeOK kv ov bv opKids e (hnb e he) (hperm e he)
  refine ⟨(treeLeaves_labels (soNodeLeaves opKids kv ov bv) T0 none hnd hok).1, ?_⟩
  intro lf hlf
  obtain ⟨x, hx, h⟩ := treeLeaves_sub _ T0 none lf hlf
  simp only [soNodeLeaves, List.mem_cons, List.not_mem_nil, or_false] at h
  rcases h with rfl | rfl | rfl
  · exact hkv x hx
  · exact hov x hx
  · exact hbv x hx

/-- the leaf tensors of the whole program of the link Hamiltonian on the edge into the hole: the ket, operator and
bra tensors of every node of the component above the hole and of the subtree in the hole -/
def linkLeaves (opKids : Nat → List Nat) (kv ov bv : Nat → Asg Leg → R) (c : Ctx) (t : Tree) : List (LeafT R) :=
  c.leavesG (soNodeLeaves opKids kv ov bv) t.id ++ soLeaves opKids kv ov bv c.parent t

/-- these are exactly the node tensors of the whole tree -/
theorem linkLeaves_perm (opKids : Nat → List Nat) (kv ov bv : Nat → Asg Leg → R) (c : Ctx) (t : Tree) :
    (linkLeaves opKids kv ov bv c t).Perm (soLeaves opKids kv ov bv none (c.plug t)) :=
  (Ctx.plug_leaves_perm (soNodeLeaves opKids kv ov bv) c t).symm

/-- **ONE program for the link: from the node tensors of the tree to the matrix handed to `time_evolve`.**  The tree
is `c.plug t`, the link sits on the edge `p — t.id` into the hole (`c.parent = some p`: every edge of every tree,
`Ctx.exists_ctx_edge`), distinct identifiers; operator nodes list their children in their own orders `opKids`;
`kv`, `ov`, `bv` are ARBITRARY values of the node tensors, each reading only its own legs.  The cache holds toward the
link the top-down block of `contract_any(p, t.id)` (record `c.blockBinds`) and the leaf-to-root block `soBlock t p`.
Then
* in BOTH sweep orientations the model's `_get_effective_link_hamiltonian` returns the same matrix `m` (rows the two
  bra legs, columns the two ket legs = the link tensor's own order);
* `m` is BUILT — top-down `contract_any` recursion (`Ctx.ctx_block_built`), leaf-to-root block loop
  (`soBlock_built_free`), the `tensordot` of the two blocks and the transposition (`link_heff_built`) — from
  `linkLeaves`, a permutation of the node tensors of the WHOLE tree: the ket, operator and bra tensor of every node,
  each once; the ket / bra legs `p — t.id` stay free (the bond is opened);
* EVERY expression `e` that `m` is built from over these leaves is strongly well-formed, has the record of `m` and the
  free legs `rows ++ cols`, and evaluates to `Σ_{phys'} (Σ_{phys} E · H) · B = E† H E` for ANY split of the leaves into
  three well-formed contractions `E` (all kets, all ket bonds except `p — t.id`), `H` (the whole TTNO), `B` (bras).
No hypothesis about a program, a block or a record is left. -/
theorem link_heff_whole_program (c : Ctx) (p : Nat) (hpar : c.parent = some p) (t : Tree)
    (hnd : (c.plug t).ids.Nodup) (opKids : Nat → List Nat)
    (hperm : ∀ e ∈ Tree.info none (c.plug t), (opKids e.1).Perm e.2.2)
    (kv ov bv : Nat → Asg Leg → R) (hkv : KetLocal kv (c.plug t))
    (hov : OpLocalK ov opKids (c.plug t)) (hbv : BraLocalK bv (c.plug t))
    (cache : Dict)
    (hp : cache (p, t.id) = some (gBlock p t.id c.blockBinds)) (hc : cache (t.id, p) = some (soBlock t p)) :
    ∃ m : Mat, getEffectiveLinkHamiltonian ⟨some p, [t.id]⟩ t.id p cache = some m ∧
      getEffectiveLinkHamiltonian ⟨some p, [t.id]⟩ p t.id cache = some m ∧
      m.rows = [Leg.gBra p t.id, Leg.gBra t.id p] ∧ m.cols = [Leg.gKet p t.id, Leg.gKet t.id p] ∧
      BuiltL m.toT (linkLeaves opKids kv ov bv c t) ∧
      (linkLeaves opKids kv ov bv c t).Perm (soLeaves opKids kv ov bv none (c.plug t)) ∧
      ∀ e : Expr Leg R, Built m.toT e → e.leaves.Perm (linkLeaves opKids kv ov bv c t) →
        e.SWF ∧ e.binds.Perm m.binds ∧ e.free.Perm (m.rows ++ m.cols) ∧
        ∀ (dim : Leg → Nat) (E H B : Expr Leg R), E.WF → H.WF → B.WF →
          (E.leaves ++ (H.leaves ++ B.leaves)).Perm (linkLeaves opKids kv ov bv c t) →
          (unordL E.binds).Perm (unordL ((c.compEdges ++ t.edges).map fun e => ketEdge e.1 e.2)) →
          (unordL H.binds).Perm (unordL ((c.plug t).edges.map fun e => opEdge e.1 e.2)) →
          (unordL B.binds).Perm (unordL ((c.compEdges ++ t.edges).map fun e => braEdge e.1 e.2)) →
          (∀ n ∈ c.ids ++ t.ids, Leg.gKetPhys n ∈ E.free ∧ Leg.gOpIn n ∈ H.free ∧ Leg.gOpOut n ∈ H.free ∧
            Leg.gBraPhys n ∈ B.free) →
          (∀ q ∈ projSpec ((c.ids ++ t.ids).map physOut) ((c.ids ++ t.ids).map physIn) E.binds H.binds B.binds,
            dim q.1 = dim q.2) →
          ∀ σ, e.eval dim σ =
            sumPairs dim ((c.ids ++ t.ids).map physOut)
              (fun τ => sumPairs dim ((c.ids ++ t.ids).map physIn) (fun ρ => E.eval dim ρ * H.eval dim ρ) τ *
                B.eval dim τ) σ := by
  have hnd' : (c.ids ++ t.ids).Nodup := (Ctx.plug_ids_perm c t).nodup_iff.1 hnd
  have hcn : c.ids.Nodup := (List.nodup_append.1 hnd').1
  have htn : t.ids.Nodup := (List.nodup_append.1 hnd').2.1
  have hdisj : ∀ a ∈ c.ids, ∀ b ∈ t.ids, a ≠ b := (List.nodup_append.1 hnd').2.2
  have hpt : p ∉ t.ids := fun h => hdisj p (Ctx.parent_mem_ids hpar) p h rfl
  have hic : (t.id :: c.ids).Nodup := by
    rw [List.nodup_cons]
    exact ⟨fun h => hdisj t.id h t.id (tree_id_mem_ids t) rfl, hcn⟩
  have hinfoC : ∀ e ∈ c.info t.id, (opKids e.1).Perm e.2.2 := fun e he =>
    hperm e (Ctx.mem_info_plug c t e (Or.inl he))
  have hinfoT : ∀ e ∈ Tree.info (some p) t, (opKids e.1).Perm e.2.2 := fun e he =>
    hperm e (Ctx.mem_info_plug c t e (Or.inr (by rw [hpar]; exact he)))
  obtain ⟨m, h1, h2, hr, hcols, hval⟩ := link_heff_projected_tree (R := R) c p hpar t hnd cache hp hc
  have hwl := linkLeaves_perm opKids kv ov bv c t
  have hbuilt : BuiltL m.toT (linkLeaves opKids kv ov bv c t) := by
    have hb := link_heff_built (R := R) (l1 := c.leavesG (soNodeLeaves opKids kv ov bv) t.id)
      (l2 := soLeaves opKids kv ov bv (some p) t) h2
      (fun blk hblk => by
        rw [hp, Option.some.injEq] at hblk
        subst hblk
        exact Ctx.ctx_block_built opKids kv ov bv c t.id p hpar hic hinfoC)
      (fun blk hblk => by
        rw [hc, Option.some.injEq] at hblk
        subst hblk
        exact soBlock_built_free opKids kv ov bv t p htn hpt hinfoT)
    simpa [linkLeaves, hpar] using hb
  refine ⟨m, h1, h2, hr, hcols, hbuilt, hwl, ?_⟩
  intro e hbe hleaves
  obtain ⟨hndS, hlocS⟩ := soLeaves_clean opKids kv ov bv (c.plug t) hnd hperm hkv hov hbv
  have hndW : (labelsOf (linkLeaves opKids kv ov bv c t)).Nodup := (hwl.flatMap_right (·.1)).nodup_iff.2 hndS
  have hlocW : ∀ lf ∈ linkLeaves opKids kv ov bv c t, DependsOn (· ∈ lf.1) lf.2 := fun lf hlf =>
    hlocS lf (hwl.mem_iff.1 hlf)
  obtain ⟨hswf, hbinds, hfree⟩ := whole_built_facts hndW hlocW hbe hleaves
  refine ⟨hswf, hbinds, hfree, ?_⟩
  intro dim E H B hE hH hB hsplit hEb hHb hBb hfr hdim σ
  obtain ⟨d1, d2, d3, hprod⟩ := whole_split_facts hndW hleaves hsplit
  exact hval dim e E H B hswf hE hH hB d1 d2 d3 hbinds hEb hHb hBb hfr hdim hprod σ

end Ptn.C05.Heff
