import Ptn.C05.ProjectedTreeLink
/-! `H_eff = E† H E` for the TWO-SITE effective Hamiltonian on every adjacent pair of every tree, both orders of
(target, next) (C05, value level, builder B29, Goal 1, second half).

The pair is an edge `a — b` of the tree (`a` the upper node): the tree is `(Ctx.frame a ls rs up).plug (node b ks)`.
The blocks the function reads are: around `a` the block from `a`'s parent (top-down recursion of the code, record
`up.blockBinds`) and the leaf-to-root blocks of `a`'s other children `ls ++ rs`; around `b` the leaf-to-root blocks of
`b`'s children `ks`.  `two_site_tree_core` instantiates the record-level theorem
`two_site_heff_is_projected_hamiltonian` for either order of the pair; the block-record hypotheses are discharged by
`Ctx.block_record_is_component_sandwich` and `soBlockBinds_perm_comp`. -/
namespace Ptn.C05.Heff
open Ptn.C04 Ptn.Ein

set_option linter.unusedSectionVars false
variable {R : Type} [CommSemiring R]

theorem idsL_append' (a b : List Tree) : Tree.idsL (a ++ b) = Tree.idsL a ++ Tree.idsL b := by
  simp [idsL_eq_flatMap]

/-- the record-level two-site theorem with the blocks of a context and a list of subtrees -/
theorem two_site_tree_core (t x : Nat) (hamT hamX twoSite : Node) (cache : Dict) (up : Ctx) (kidsAll : List Tree)
    (NT NX : List Nat) (OB : List (Leg × Leg))
    (hT : hamT.nbrs.Nodup) (hX : hamX.nbrs.Nodup) (hxT : x ∈ hamT.nbrs) (htX : t ∈ hamX.nbrs)
    (hdisj : ∀ n ∈ hamX.nbrs, n ∉ hamT.nbrs)
    (hS : twoSite.nbrs.Perm (hamT.nbrs.filter (· ≠ x) ++ hamX.nbrs.filter (· ≠ t)))
    (hfT : hamT.nbrs.filter (· ≠ x) = NT) (hfX : hamX.nbrs.filter (· ≠ t) = NX)
    (hall : (up.ids ++ Tree.idsL kidsAll).Nodup)
    (hN : (NT ++ NX).Perm (up.parent.toList ++ kidsAll.map Tree.id))
    (hcT : ∀ n ∈ NT, cache (n, t) = some (gBlock n t (selNb up kidsAll up.blockBinds soBlockBinds n)))
    (hcX : ∀ n ∈ NX, cache (n, x) = some (gBlock n x (selNb up kidsAll up.blockBinds soBlockBinds n)))
    (hOb : (unordL OB).Perm (unordL (twoOpPairs t x NT NX ++
      (NT.flatMap (selNb up kidsAll (up.compEdges.map fun e => opEdge e.1 e.2)
          (fun k => k.edges.map fun e => opEdge e.1 e.2)) ++
        NX.flatMap (selNb up kidsAll (up.compEdges.map fun e => opEdge e.1 e.2)
          (fun k => k.edges.map fun e => opEdge e.1 e.2)))))) :
    ∃ m : Mat, getEffectiveTwoSiteHamiltonian hamT hamX twoSite (gOpT t hamT) (gOpT x hamX) t x cache = some m ∧
      m.rows = twoSite.nbrs.map (fun n => if n ∈ hamT.nbrs then Leg.gBra n t else Leg.gBra n x) ++
                [Leg.gOpOut t, Leg.gOpOut x] ∧
      m.cols = twoSite.nbrs.map (fun n => if n ∈ hamT.nbrs then Leg.gKet n t else Leg.gKet n x) ++
                [Leg.gOpIn t, Leg.gOpIn x] ∧
      TreeForm R m.binds (up.ids ++ Tree.idsL kidsAll)
        ((up.compEdges ++ kidsAll.flatMap Tree.edges).map fun e => ketEdge e.1 e.2) OB
        ((up.compEdges ++ kidsAll.flatMap Tree.edges).map fun e => braEdge e.1 e.2) := by
  subst hfT hfX
  have hcn : up.ids.Nodup := (List.nodup_append.1 hall).1
  have hndL : (Tree.idsL kidsAll).Nodup := (List.nodup_append.1 hall).2.1
  have hkid : (kidsAll.map Tree.id).Nodup := Tree.nodup_kid_ids kidsAll hndL
  have hpk : ∀ q, up.parent = some q → q ∉ kidsAll.map Tree.id := fun q hq hm =>
    (List.nodup_append.1 hall).2.2 q (Ctx.parent_mem_ids hq) q (Tree.kid_id_mem kidsAll q hm) rfl
  have hroot : ∀ {β : Type} (g : Nat → β), up.parent = none → up.ids.map g = [] := by
    intro β g h
    cases up with
    | root => rfl
    | frame p ls rs up => simp [Ctx.parent] at h
  have hrootE : ∀ {β : Type} (g : Nat × Nat → β), up.parent = none → up.compEdges.map g = [] := by
    intro β g h
    cases up with
    | root => rfl
    | frame p ls rs up => simp [Ctx.parent] at h
  -- the records of the blocks
  have hrecord : ∀ n ∈ hamT.nbrs.filter (· ≠ x) ++ hamX.nbrs.filter (· ≠ t),
      (unordL (selNb up kidsAll up.blockBinds soBlockBinds n)).Perm
        (unordL (compRecord (selNb up kidsAll (up.ids.map physOut) (fun k => k.ids.map physOut))
          (selNb up kidsAll (up.ids.map physIn) (fun k => k.ids.map physIn))
          (selNb up kidsAll (up.compEdges.map fun e => ketEdge e.1 e.2) (fun k => k.edges.map fun e => ketEdge e.1 e.2))
          (selNb up kidsAll (up.compEdges.map fun e => opEdge e.1 e.2) (fun k => k.edges.map fun e => opEdge e.1 e.2))
          (selNb up kidsAll (up.compEdges.map fun e => braEdge e.1 e.2) (fun k => k.edges.map fun e => braEdge e.1 e.2))
          n)) := by
    intro n hn
    have hn' := hN.mem_iff.1 hn
    by_cases hp : up.parent = some n
    · simp only [compRecord, selNb, if_pos hp]
      exact Ctx.block_record_is_component_sandwich up hcn
    · have hk : n ∈ kidsAll.map Tree.id := by
        rcases List.mem_append.1 hn' with h | h
        · exact absurd (by simpa using h) hp
        · exact h
      obtain ⟨k, _, _, hf⟩ := ofKid_of_mem (β := Leg × Leg) kidsAll n hk
      simp only [compRecord, selNb, if_neg hp, hf]
      exact unordL_perm (soBlockBinds_perm_comp k)
  obtain ⟨m, hm, hr, hc, hval⟩ := two_site_heff_is_projected_hamiltonian (R := R) t x hamT hamX twoSite
    (selNb up kidsAll up.blockBinds soBlockBinds) (selNb up kidsAll up.blockBinds soBlockBinds) cache hT hX hxT htX
    hdisj hS
    (fun n hn hne => hcT n (List.mem_filter.2 ⟨hn, by simpa using hne⟩))
    (fun n hn hne => hcX n (List.mem_filter.2 ⟨hn, by simpa using hne⟩))
    (selNb up kidsAll (up.ids.map physOut) (fun k => k.ids.map physOut))
    (selNb up kidsAll (up.ids.map physIn) (fun k => k.ids.map physIn))
    (selNb up kidsAll (up.compEdges.map fun e => ketEdge e.1 e.2) (fun k => k.edges.map fun e => ketEdge e.1 e.2))
    (selNb up kidsAll (up.compEdges.map fun e => opEdge e.1 e.2) (fun k => k.edges.map fun e => opEdge e.1 e.2))
    (selNb up kidsAll (up.compEdges.map fun e => braEdge e.1 e.2) (fun k => k.edges.map fun e => braEdge e.1 e.2))
    (fun n hn => hrecord n (List.mem_append.2 (Or.inl hn)))
    (fun n hn => hrecord n (List.mem_append.2 (Or.inr hn)))
  refine ⟨m, hm, hr, hc, ?_⟩
  have hflat : ∀ {β : Type} (X : List β) (f : Tree → List β), (up.parent = none → X = []) →
      ((hamT.nbrs.filter (· ≠ x)).flatMap (selNb up kidsAll X f) ++
        (hamX.nbrs.filter (· ≠ t)).flatMap (selNb up kidsAll X f)).Perm (X ++ kidsAll.flatMap f) := by
    intro β X f hX0
    rw [← List.flatMap_append]
    refine (hN.flatMap_right _).trans ?_
    exact flatMap_selNb up kidsAll X f (kidsAll.map Tree.id) hX0 hpk hkid (List.Perm.refl _)
  refine treeForm_of_recForm hall ?_ ?_ ?_ hOb ?_ hval
  · refine (hflat _ _ (hroot physOut)).trans ?_
    rw [List.map_append, idsL_eq_flatMap, List.map_flatMap]
  · refine (hflat _ _ (hroot physIn)).trans ?_
    rw [List.map_append, idsL_eq_flatMap, List.map_flatMap]
  · refine unordL_perm (List.Perm.symm ?_)
    refine (hflat _ _ (hrootE _)).trans ?_
    rw [List.map_append, List.map_flatMap]
  · refine unordL_perm (List.Perm.symm ?_)
    refine (hflat _ _ (hrootE _)).trans ?_
    rw [List.map_append, List.map_flatMap]

/-! ### the two instantiations: the pair `a — b`, `a` the upper node -/

theorem ofKid_append_left {β : Type} (A B : List Tree) (f : Tree → List β) (n : Nat) (h : n ∈ A.map Tree.id) :
    ofKid (A ++ B) f n = ofKid A f n := by
  obtain ⟨c, hc, hcn⟩ := List.mem_map.1 h
  have hsome : (A.find? (fun c => c.id == n)).isSome := by
    rw [List.find?_isSome]; exact ⟨c, hc, by simp [hcn]⟩
  obtain ⟨c', hc'⟩ := Option.isSome_iff_exists.1 hsome
  simp [ofKid, List.find?_append, hc']

theorem ofKid_append_right {β : Type} (A B : List Tree) (f : Tree → List β) (n : Nat) (h : n ∉ A.map Tree.id) :
    ofKid (A ++ B) f n = ofKid B f n := by
  have hnone : A.find? (fun c => c.id == n) = none := by
    rw [List.find?_eq_none]
    intro c hc hcn
    exact h (List.mem_map.2 ⟨c, hc, by simpa using hcn⟩)
  simp [ofKid, List.find?_append, hnone]

/-- the structural facts about the two operator nodes of an adjacent pair that the record-level theorem needs -/
structure TwoSiteFacts (up : Ctx) (a b : Nat) (ls rs ks : List Tree) (opKidsA opKidsB : List Nat) : Prop where
  hall : (up.ids ++ Tree.idsL ((ls ++ rs) ++ ks)).Nodup
  hA : (Node.mk up.parent opKidsA).nbrs.Nodup
  hB : (Node.mk (some a) opKidsB).nbrs.Nodup
  hbA : b ∈ (Node.mk up.parent opKidsA).nbrs
  haB : a ∈ (Node.mk (some a) opKidsB).nbrs
  hdisj : ∀ n ∈ (Node.mk (some a) opKidsB).nbrs, n ∉ (Node.mk up.parent opKidsA).nbrs
  hfA : (Node.mk up.parent opKidsA).nbrs.filter (· ≠ b) = up.parent.toList ++ opKidsA.filter (· ≠ b)
  hfB : (Node.mk (some a) opKidsB).nbrs.filter (· ≠ a) = opKidsB
  hA' : (opKidsA.filter (· ≠ b)).Perm ((ls ++ rs).map Tree.id)
  hN : ((up.parent.toList ++ opKidsA.filter (· ≠ b)) ++ opKidsB).Perm
    (up.parent.toList ++ ((ls ++ rs) ++ ks).map Tree.id)
  hpk : ∀ q, up.parent = some q → q ∉ ((ls ++ rs) ++ ks).map Tree.id
  hkid : (((ls ++ rs) ++ ks).map Tree.id).Nodup
  hSK : ∀ n ∈ ks.map Tree.id, n ∉ (ls ++ rs).map Tree.id

theorem two_site_facts (up : Ctx) (a b : Nat) (ls rs ks : List Tree) (opKidsA opKidsB : List Nat)
    (hnd : ((Ctx.frame a ls rs up).plug (Tree.node b ks)).ids.Nodup)
    (hpermA : opKidsA.Perm (ls.map Tree.id ++ b :: rs.map Tree.id)) (hpermB : opKidsB.Perm (ks.map Tree.id)) :
    TwoSiteFacts up a b ls rs ks opKidsA opKidsB := by
  have h0 := (Ctx.plug_ids_perm (Ctx.frame a ls rs up) (Tree.node b ks)).nodup_iff.1 hnd
  have hperm0 : ((Ctx.frame a ls rs up).ids ++ (Tree.node b ks).ids).Perm
      (a :: b :: (up.ids ++ Tree.idsL ((ls ++ rs) ++ ks))) := by
    rw [List.perm_iff_count]
    intro z
    simp only [Ctx.ids, Tree.ids, idsL_append', List.cons_append, List.count_append, List.count_cons]
    omega
  have h1 := hperm0.nodup_iff.1 h0
  rw [List.nodup_cons, List.nodup_cons] at h1
  obtain ⟨ha, hb, hall⟩ := h1
  have hab : a ≠ b := fun e => ha (by simp [e])
  have ha' : a ∉ up.ids ++ Tree.idsL ((ls ++ rs) ++ ks) := fun h => ha (List.mem_cons_of_mem _ h)
  have hkid : (((ls ++ rs) ++ ks).map Tree.id).Nodup := Tree.nodup_kid_ids _ (List.nodup_append.1 hall).2.1
  have hmemK : ∀ n ∈ ((ls ++ rs) ++ ks).map Tree.id, n ∈ up.ids ++ Tree.idsL ((ls ++ rs) ++ ks) :=
    fun n hn => List.mem_append.2 (Or.inr (Tree.kid_id_mem _ n hn))
  have hqU : ∀ q, up.parent = some q → q ∈ up.ids ++ Tree.idsL ((ls ++ rs) ++ ks) :=
    fun q hq => List.mem_append.2 (Or.inl (Ctx.parent_mem_ids hq))
  have hpk : ∀ q, up.parent = some q → q ∉ ((ls ++ rs) ++ ks).map Tree.id := fun q hq hm =>
    (List.nodup_append.1 hall).2.2 q (Ctx.parent_mem_ids hq) q (Tree.kid_id_mem _ q hm) rfl
  have haK : a ∉ ((ls ++ rs) ++ ks).map Tree.id := fun h => ha' (hmemK a h)
  have hbK : b ∉ ((ls ++ rs) ++ ks).map Tree.id := fun h => hb (hmemK b h)
  have haq : ∀ q, up.parent = some q → q ≠ a := fun q hq e => ha' (e ▸ hqU q hq)
  have hbq : ∀ q, up.parent = some q → q ≠ b := fun q hq e => hb (e ▸ hqU q hq)
  have hmapK : ((ls ++ rs) ++ ks).map Tree.id = (ls.map Tree.id ++ rs.map Tree.id) ++ ks.map Tree.id := by
    simp [List.map_append]
  have hmapS : (ls ++ rs).map Tree.id = ls.map Tree.id ++ rs.map Tree.id := by simp [List.map_append]
  rw [hmapK] at hkid hpk haK hbK
  have hkidS : (ls.map Tree.id ++ rs.map Tree.id).Nodup := (List.nodup_append.1 hkid).1
  have hkidK : (ks.map Tree.id).Nodup := (List.nodup_append.1 hkid).2.1
  have hSK : ∀ n ∈ ks.map Tree.id, n ∉ ls.map Tree.id ++ rs.map Tree.id := fun n hn hm =>
    (List.nodup_append.1 hkid).2.2 n hm n hn rfl
  have hbS : b ∉ ls.map Tree.id ++ rs.map Tree.id := fun h => hbK (List.mem_append.2 (Or.inl h))
  have hbl : b ∉ ls.map Tree.id := fun h => hbS (List.mem_append.2 (Or.inl h))
  have hbr : b ∉ rs.map Tree.id := fun h => hbS (List.mem_append.2 (Or.inr h))
  have haS : a ∉ ls.map Tree.id ++ rs.map Tree.id := fun h => haK (List.mem_append.2 (Or.inl h))
  have haKs : a ∉ ks.map Tree.id := fun h => haK (List.mem_append.2 (Or.inr h))
  have hPnd : up.parent.toList.Nodup := by cases up.parent <;> simp
  have hPmem : ∀ n, n ∈ up.parent.toList ↔ up.parent = some n := fun n => by simp
  -- the neighbours of `a` in the state's order
  have hNA : (up.parent.toList ++ (ls.map Tree.id ++ b :: rs.map Tree.id)).Nodup := by
    rw [List.nodup_append]
    refine ⟨hPnd, ?_, ?_⟩
    · have hp : (ls.map Tree.id ++ b :: rs.map Tree.id).Perm (b :: (ls.map Tree.id ++ rs.map Tree.id)) :=
        List.perm_middle
      rw [hp.nodup_iff, List.nodup_cons]
      exact ⟨hbS, hkidS⟩
    · intro x hx y hy hxy
      subst hxy
      have hq := (hPmem x).1 hx
      rcases List.mem_append.1 hy with h | h
      · exact hpk x hq (List.mem_append.2 (Or.inl (List.mem_append.2 (Or.inl h))))
      · rcases List.mem_cons.1 h with h | h
        · exact hbq x hq h
        · exact hpk x hq (List.mem_append.2 (Or.inl (List.mem_append.2 (Or.inr h))))
  have hA : (up.parent.toList ++ opKidsA).Nodup := (List.Perm.append_left _ hpermA).nodup_iff.2 hNA
  have hBnd : opKidsB.Nodup := hpermB.nodup_iff.2 hkidK
  have haB' : a ∉ opKidsB := fun h => haKs (hpermB.mem_iff.1 h)
  have hfP : up.parent.toList.filter (· ≠ b) = up.parent.toList :=
    List.filter_eq_self.2 (fun q hq => by simpa using hbq q ((hPmem q).1 hq))
  have hA' : (opKidsA.filter (· ≠ b)).Perm (ls.map Tree.id ++ rs.map Tree.id) := by
    have := hpermA.filter (· ≠ b)
    rwa [filter_ne_mid _ _ b hbl hbr] at this
  refine ⟨hall, hA, ?_, ?_, ?_, ?_, ?_, ?_, by rw [hmapS]; exact hA', ?_, by rw [hmapK]; exact hpk,
    by rw [hmapK]; exact hkid, by rw [hmapS]; exact hSK⟩
  · show ((some a).toList ++ opKidsB).Nodup
    simp only [Option.toList_some, List.singleton_append, List.nodup_cons]
    exact ⟨haB', hBnd⟩
  · show b ∈ up.parent.toList ++ opKidsA
    exact List.mem_append.2 (Or.inr (hpermA.mem_iff.2 (by simp)))
  · show a ∈ (some a).toList ++ opKidsB
    simp
  · intro n hn hm
    have hn' : n = a ∨ n ∈ opKidsB := by simpa [Node.nbrs] using hn
    have hm' : n ∈ up.parent.toList ++ opKidsA := hm
    rcases List.mem_append.1 hm' with hm' | hm'
    · have hq := (hPmem n).1 hm'
      rcases hn' with rfl | hn'
      · exact haq _ hq rfl
      · exact hpk n hq (List.mem_append.2 (Or.inr (hpermB.mem_iff.1 hn')))
    · have hm'' := hpermA.mem_iff.1 hm'
      have hcase : n ∈ ls.map Tree.id ++ rs.map Tree.id ∨ n = b := by
        rcases List.mem_append.1 hm'' with h | h
        · exact Or.inl (List.mem_append.2 (Or.inl h))
        · rcases List.mem_cons.1 h with h | h
          · exact Or.inr h
          · exact Or.inl (List.mem_append.2 (Or.inr h))
      rcases hn' with rfl | hn'
      · rcases hcase with h | h
        · exact haS h
        · exact hab h
      · have hnK := hpermB.mem_iff.1 hn'
        rcases hcase with h | h
        · exact hSK n hnK h
        · exact hbK (List.mem_append.2 (Or.inr (h ▸ hnK)))
  · show (up.parent.toList ++ opKidsA).filter (· ≠ b) = _
    rw [List.filter_append, hfP]
  · show ((some a).toList ++ opKidsB).filter (· ≠ a) = _
    simp only [Option.toList_some, List.singleton_append]
    rw [List.filter_cons]
    simp only [ne_eq, not_true_eq_false, decide_false, Bool.false_eq_true, if_false]
    exact List.filter_eq_self.2 (fun n hn => by
      have : n ≠ a := fun e => haB' (e ▸ hn)
      simpa using this)
  · rw [hmapK, List.append_assoc]
    exact List.Perm.append_left _ (List.Perm.append hA' hpermB)

theorem Ctx.compEdges_of_root {c : Ctx} (h : c.parent = none) : c.compEdges = [] := by
  cases c with
  | root => rfl
  | frame p ls rs up => simp [Ctx.parent] at h

/-- the operator bonds of the whole tree, counted as unordered pairs, in the pieces the two-site record is made of -/
theorem two_site_op_ucount (up : Ctx) (a b : Nat) (ls rs ks : List Tree) (opKidsA opKidsB : List Nat)
    (F : TwoSiteFacts up a b ls rs ks opKidsA opKidsB) (hpermB : opKidsB.Perm (ks.map Tree.id)) (z : Leg × Leg) :
    ((((Ctx.frame a ls rs up).plug (Tree.node b ks)).edges.map fun e => opEdge e.1 e.2).count z +
      (((Ctx.frame a ls rs up).plug (Tree.node b ks)).edges.map fun e => opEdge e.1 e.2).count z.swap) =
    ((opPairs a (up.parent.toList ++ opKidsA.filter (· ≠ b))).count z +
      (opPairs a (up.parent.toList ++ opKidsA.filter (· ≠ b))).count z.swap) +
    ((opPairs b opKidsB).count z + (opPairs b opKidsB).count z.swap) +
    ([opEdge a b].count z + [opEdge a b].count z.swap) +
    ((((up.parent.toList ++ opKidsA.filter (· ≠ b)).flatMap
          (selNb up ((ls ++ rs) ++ ks) (up.compEdges.map fun e => opEdge e.1 e.2)
            (fun k => k.edges.map fun e => opEdge e.1 e.2)) ++
        opKidsB.flatMap (selNb up ((ls ++ rs) ++ ks) (up.compEdges.map fun e => opEdge e.1 e.2)
            (fun k => k.edges.map fun e => opEdge e.1 e.2))).count z) +
      (((up.parent.toList ++ opKidsA.filter (· ≠ b)).flatMap
          (selNb up ((ls ++ rs) ++ ks) (up.compEdges.map fun e => opEdge e.1 e.2)
            (fun k => k.edges.map fun e => opEdge e.1 e.2)) ++
        opKidsB.flatMap (selNb up ((ls ++ rs) ++ ks) (up.compEdges.map fun e => opEdge e.1 e.2)
            (fun k => k.edges.map fun e => opEdge e.1 e.2))).count z.swap)) := by
  -- the flattened operator bonds inside the components
  have hflat : (((up.parent.toList ++ opKidsA.filter (· ≠ b)).flatMap
          (selNb up ((ls ++ rs) ++ ks) (up.compEdges.map fun e => opEdge e.1 e.2)
            (fun k => k.edges.map fun e => opEdge e.1 e.2)) ++
        opKidsB.flatMap (selNb up ((ls ++ rs) ++ ks) (up.compEdges.map fun e => opEdge e.1 e.2)
            (fun k => k.edges.map fun e => opEdge e.1 e.2)))).Perm
      ((up.compEdges.map fun e => opEdge e.1 e.2) ++
        (((ls ++ rs).flatMap Tree.edges).map (fun e => opEdge e.1 e.2) ++
          (ks.flatMap Tree.edges).map (fun e => opEdge e.1 e.2))) := by
    rw [← List.flatMap_append]
    refine (F.hN.flatMap_right _).trans ?_
    refine (flatMap_selNb up ((ls ++ rs) ++ ks) _ _ (((ls ++ rs) ++ ks).map Tree.id)
      (fun h => by rw [Ctx.compEdges_of_root h]; rfl) F.hpk F.hkid (List.Perm.refl _)).trans ?_
    rw [List.flatMap_append, List.map_flatMap, List.map_flatMap]
  -- the edges of the tree
  have h1 := (Ctx.plug_edges_frame_perm (Ctx.frame a ls rs up) a rfl (Tree.node b ks)).map
    (fun e => opEdge e.1 e.2)
  have h2 := (edgesL_perm a (ls ++ rs)).map (fun e => opEdge e.1 e.2)
  have h3 := (edgesL_perm b ks).map (fun e => opEdge e.1 e.2)
  have hid : (Tree.node b ks).id = b := rfl
  simp only [Ctx.compEdges, Tree.edges, hid] at h1
  -- the operator legs at `a` and `b` toward the blocks
  have hPa : opPairs a (up.parent.toList ++ opKidsA.filter (· ≠ b)) =
      up.parent.toList.map (fun q => opEdge q a) ++ opPairs a (opKidsA.filter (· ≠ b)) := by
    simp only [opPairs, List.map_append]
    rfl
  have h4 : (opPairs a (opKidsA.filter (· ≠ b))).Perm (((ls ++ rs).map fun k => opEdge a k.id).map Prod.swap) := by
    have := F.hA'.map (fun n => (Leg.gOp a n, Leg.gOp n a))
    simpa [opPairs, opEdge, List.map_map, Function.comp_def] using this
  have h5 : (opPairs b opKidsB).Perm ((ks.map fun k => opEdge b k.id).map Prod.swap) := by
    have := hpermB.map (fun n => (Leg.gOp b n, Leg.gOp n b))
    simpa [opPairs, opEdge, List.map_map, Function.comp_def] using this
  have c1 := h1.count_eq z
  have c1' := h1.count_eq z.swap
  have c2 := h2.count_eq z
  have c2' := h2.count_eq z.swap
  have c3 := h3.count_eq z
  have c3' := h3.count_eq z.swap
  have c4 := h4.count_eq z
  have c4' := h4.count_eq z.swap
  have c5 := h5.count_eq z
  have c5' := h5.count_eq z.swap
  have c6 := hflat.count_eq z
  have c6' := hflat.count_eq z.swap
  rw [count_map_swap] at c4 c4' c5 c5'
  rw [hPa]
  generalize ls ++ rs = S at *
  simp only [List.map_append, List.map_cons, List.map_map, Function.comp_def, List.count_append, List.count_cons,
    List.count_nil, Prod.swap_swap] at c1 c1' c2 c2' c3 c3' c4 c4' c5 c5' c6 c6' ⊢
  omega

set_option linter.unusedVariables false in
/-- the cache entries around the pair, in the form the core needs -/
theorem two_site_cache (up : Ctx) (a b : Nat) (ls rs ks : List Tree)
    (hnd : ((Ctx.frame a ls rs up).plug (Tree.node b ks)).ids.Nodup) (opKidsA opKidsB : List Nat)
    (hpermA : opKidsA.Perm (ls.map Tree.id ++ b :: rs.map Tree.id)) (hpermB : opKidsB.Perm (ks.map Tree.id))
    (twoSite : Node) (hS : twoSite.nbrs.Perm (up.parent.toList ++ ((ls ++ rs) ++ ks).map Tree.id)) (cache : Dict)
    (hcU : ∀ q, up.parent = some q → cache (q, a) = some (gBlock q a up.blockBinds))
    (hcS : ∀ n ∈ (ls ++ rs).map Tree.id, cache (n, a) = soKidBlock (ls ++ rs) a (n, a))
    (hcK : ∀ n ∈ ks.map Tree.id, cache (n, b) = soKidBlock ks b (n, b)) (F : TwoSiteFacts up a b ls rs ks opKidsA opKidsB) :
    (∀ n ∈ up.parent.toList ++ opKidsA.filter (· ≠ b),
      cache (n, a) = some (gBlock n a (selNb up ((ls ++ rs) ++ ks) up.blockBinds soBlockBinds n))) ∧
    (∀ n ∈ opKidsB, cache (n, b) = some (gBlock n b (selNb up ((ls ++ rs) ++ ks) up.blockBinds soBlockBinds n))) := by
  constructor
  · intro n hn
    rcases List.mem_append.1 hn with h | h
    · have hq : up.parent = some n := by simpa using h
      rw [hcU n hq]
      simp [selNb, hq]
    · have hnS : n ∈ (ls ++ rs).map Tree.id := F.hA'.mem_iff.1 h
      have hq : ¬ up.parent = some n := fun hq =>
        F.hpk n hq (by rw [List.map_append]; exact List.mem_append.2 (Or.inl hnS))
      rw [hcS n hnS, soKidBlock_of_mem _ a n hnS]
      simp only [selNb, if_neg hq, ofKid_append_left _ _ _ n hnS]
      rfl
  · intro n hn
    have hnK : n ∈ ks.map Tree.id := hpermB.mem_iff.1 hn
    have hq : ¬ up.parent = some n := fun hq =>
      F.hpk n hq (by rw [List.map_append]; exact List.mem_append.2 (Or.inr hnK))
    rw [hcK n hnK, soKidBlock_of_mem _ b n hnK]
    simp only [selNb, if_neg hq, ofKid_append_right _ _ _ n (F.hSK n hnK)]
    rfl

/-- **`H_eff = E† H E` for the two-site effective Hamiltonian on every adjacent pair of every tree; target = the upper
node.**  The tree is `(Ctx.frame a ls rs up).plug (node b ks)`: `a` (parent `up.parent`, other children `ls`, `rs`) and
its child `b` (children `ks`) are the pair — every edge of every tree has this form (`Ctx.exists_ctx_edge`) — all
identifiers distinct; the operator nodes list the children in any orders `opKidsA`, `opKidsB`; `twoSite` (the state's
contracted node) lists the other neighbours of the pair in any arrangement.  The cache holds, toward `a`, the block
from `a`'s parent that the code's top-down recursion builds (record `up.blockBinds`, `Ctx.ctx_block_is_model`) and the
leaf-to-root blocks of `a`'s other children, and toward `b` the leaf-to-root blocks of `b`'s children.  Then
`_get_effective_two_site_hamiltonian(target = a, next = b)` returns the matrix `m` of `two_site_heff_graph`, and for
every commutative semiring and all dimensions (equal on both legs of every bound pair): let `E` / `B` be ANY
well-formed contraction of the ket / bra tensors of all nodes other than `a`, `b` over all bonds that touch neither,
`H` ANY well-formed contraction of the operator tensors of ALL nodes over ALL operator bonds of the tree (the dense
TTNO).  Every strongly well-formed program `e` over these tensors with the record of `m` evaluates to
`Σ_{phys'} (Σ_{phys} E[phys; c] · H[phys', out_a, out_b; phys, in_a, in_b]) · B[phys'; r]`, the sums running over the
physical legs of all nodes other than `a`, `b`.  No hypothesis about block records is left. -/
theorem two_site_heff_projected_tree (up : Ctx) (a b : Nat) (ls rs ks : List Tree)
    (hnd : ((Ctx.frame a ls rs up).plug (Tree.node b ks)).ids.Nodup) (opKidsA opKidsB : List Nat)
    (hpermA : opKidsA.Perm (ls.map Tree.id ++ b :: rs.map Tree.id)) (hpermB : opKidsB.Perm (ks.map Tree.id))
    (twoSite : Node) (hS : twoSite.nbrs.Perm (up.parent.toList ++ ((ls ++ rs) ++ ks).map Tree.id)) (cache : Dict)
    (hcU : ∀ q, up.parent = some q → cache (q, a) = some (gBlock q a up.blockBinds))
    (hcS : ∀ n ∈ (ls ++ rs).map Tree.id, cache (n, a) = soKidBlock (ls ++ rs) a (n, a))
    (hcK : ∀ n ∈ ks.map Tree.id, cache (n, b) = soKidBlock ks b (n, b)) :
    ∃ m : Mat, getEffectiveTwoSiteHamiltonian ⟨up.parent, opKidsA⟩ ⟨some a, opKidsB⟩ twoSite
        (gOpT a ⟨up.parent, opKidsA⟩) (gOpT b ⟨some a, opKidsB⟩) a b cache = some m ∧
      m.rows = twoSite.nbrs.map (fun n => if n ∈ (Node.mk up.parent opKidsA).nbrs then Leg.gBra n a else Leg.gBra n b) ++
                [Leg.gOpOut a, Leg.gOpOut b] ∧
      m.cols = twoSite.nbrs.map (fun n => if n ∈ (Node.mk up.parent opKidsA).nbrs then Leg.gKet n a else Leg.gKet n b) ++
                [Leg.gOpIn a, Leg.gOpIn b] ∧
      ∀ (dim : Leg → Nat) (e E H B : Expr Leg R), e.SWF → E.WF → H.WF → B.WF →
        (∀ l ∈ E.labels, l ∉ H.labels) → (∀ l ∈ E.labels, l ∉ B.labels) → (∀ l ∈ H.labels, l ∉ B.labels) →
        e.binds.Perm m.binds →
        (unordL E.binds).Perm
          (unordL ((up.compEdges ++ ((ls ++ rs) ++ ks).flatMap Tree.edges).map fun e => ketEdge e.1 e.2)) →
        (unordL H.binds).Perm
          (unordL (((Ctx.frame a ls rs up).plug (Tree.node b ks)).edges.map fun e => opEdge e.1 e.2)) →
        (unordL B.binds).Perm
          (unordL ((up.compEdges ++ ((ls ++ rs) ++ ks).flatMap Tree.edges).map fun e => braEdge e.1 e.2)) →
        (∀ n ∈ up.ids ++ Tree.idsL ((ls ++ rs) ++ ks), Leg.gKetPhys n ∈ E.free ∧ Leg.gOpIn n ∈ H.free ∧
          Leg.gOpOut n ∈ H.free ∧ Leg.gBraPhys n ∈ B.free) →
        (∀ q ∈ projSpec ((up.ids ++ Tree.idsL ((ls ++ rs) ++ ks)).map physOut)
          ((up.ids ++ Tree.idsL ((ls ++ rs) ++ ks)).map physIn) E.binds H.binds B.binds, dim q.1 = dim q.2) →
        (∀ σ, e.leafProd σ = E.leafProd σ * H.leafProd σ * B.leafProd σ) →
        ∀ σ, e.eval dim σ =
          sumPairs dim ((up.ids ++ Tree.idsL ((ls ++ rs) ++ ks)).map physOut)
            (fun τ => sumPairs dim ((up.ids ++ Tree.idsL ((ls ++ rs) ++ ks)).map physIn)
              (fun ρ => E.eval dim ρ * H.eval dim ρ) τ * B.eval dim τ) σ := by
  have F := two_site_facts up a b ls rs ks opKidsA opKidsB hnd hpermA hpermB
  obtain ⟨hcA, hcB⟩ := two_site_cache up a b ls rs ks hnd opKidsA opKidsB hpermA hpermB twoSite hS cache hcU hcS hcK F
  refine two_site_tree_core (R := R) a b ⟨up.parent, opKidsA⟩ ⟨some a, opKidsB⟩ twoSite cache up ((ls ++ rs) ++ ks)
    (up.parent.toList ++ opKidsA.filter (· ≠ b)) opKidsB _ F.hA F.hB F.hbA F.haB F.hdisj
    (by rw [F.hfA, F.hfB]; exact hS.trans F.hN.symm) F.hfA F.hfB F.hall F.hN hcA hcB ?_
  rw [List.perm_iff_count]
  intro z
  rw [Ctx.count_unordL, Ctx.count_unordL]
  have hu := two_site_op_ucount up a b ls rs ks opKidsA opKidsB F hpermB z
  have c1 : [(Leg.gOp a b, Leg.gOp b a)].count z = [opEdge a b].count z.swap := count_map_swap z [opEdge a b]
  have c2 : [(Leg.gOp a b, Leg.gOp b a)].count z.swap = [opEdge a b].count z := by
    have := count_map_swap z.swap [opEdge a b]
    rwa [Prod.swap_swap] at this
  simp only [twoOpPairs, List.count_append] at hu ⊢
  omega

/-- **The same with target = the LOWER node `b` and next = the upper node `a`** (the other direction of the sweep along
the edge): `_get_effective_two_site_hamiltonian(target = b, next = a)` on the same tree with the same cache returns a
matrix with rows / columns `(… , out_b, out_a)` / `(… , in_b, in_a)` whose every program evaluates to the same projected
Hamiltonian `Σ_{phys'} (Σ_{phys} E · H) · B`. -/
theorem two_site_heff_projected_tree_up (up : Ctx) (a b : Nat) (ls rs ks : List Tree)
    (hnd : ((Ctx.frame a ls rs up).plug (Tree.node b ks)).ids.Nodup) (opKidsA opKidsB : List Nat)
    (hpermA : opKidsA.Perm (ls.map Tree.id ++ b :: rs.map Tree.id)) (hpermB : opKidsB.Perm (ks.map Tree.id))
    (twoSite : Node) (hS : twoSite.nbrs.Perm (up.parent.toList ++ ((ls ++ rs) ++ ks).map Tree.id)) (cache : Dict)
    (hcU : ∀ q, up.parent = some q → cache (q, a) = some (gBlock q a up.blockBinds))
    (hcS : ∀ n ∈ (ls ++ rs).map Tree.id, cache (n, a) = soKidBlock (ls ++ rs) a (n, a))
    (hcK : ∀ n ∈ ks.map Tree.id, cache (n, b) = soKidBlock ks b (n, b)) :
    ∃ m : Mat, getEffectiveTwoSiteHamiltonian ⟨some a, opKidsB⟩ ⟨up.parent, opKidsA⟩ twoSite
        (gOpT b ⟨some a, opKidsB⟩) (gOpT a ⟨up.parent, opKidsA⟩) b a cache = some m ∧
      m.rows = twoSite.nbrs.map (fun n => if n ∈ (Node.mk (some a) opKidsB).nbrs then Leg.gBra n b else Leg.gBra n a) ++
                [Leg.gOpOut b, Leg.gOpOut a] ∧
      m.cols = twoSite.nbrs.map (fun n => if n ∈ (Node.mk (some a) opKidsB).nbrs then Leg.gKet n b else Leg.gKet n a) ++
                [Leg.gOpIn b, Leg.gOpIn a] ∧
      ∀ (dim : Leg → Nat) (e E H B : Expr Leg R), e.SWF → E.WF → H.WF → B.WF →
        (∀ l ∈ E.labels, l ∉ H.labels) → (∀ l ∈ E.labels, l ∉ B.labels) → (∀ l ∈ H.labels, l ∉ B.labels) →
        e.binds.Perm m.binds →
        (unordL E.binds).Perm
          (unordL ((up.compEdges ++ ((ls ++ rs) ++ ks).flatMap Tree.edges).map fun e => ketEdge e.1 e.2)) →
        (unordL H.binds).Perm
          (unordL (((Ctx.frame a ls rs up).plug (Tree.node b ks)).edges.map fun e => opEdge e.1 e.2)) →
        (unordL B.binds).Perm
          (unordL ((up.compEdges ++ ((ls ++ rs) ++ ks).flatMap Tree.edges).map fun e => braEdge e.1 e.2)) →
        (∀ n ∈ up.ids ++ Tree.idsL ((ls ++ rs) ++ ks), Leg.gKetPhys n ∈ E.free ∧ Leg.gOpIn n ∈ H.free ∧
          Leg.gOpOut n ∈ H.free ∧ Leg.gBraPhys n ∈ B.free) →
        (∀ q ∈ projSpec ((up.ids ++ Tree.idsL ((ls ++ rs) ++ ks)).map physOut)
          ((up.ids ++ Tree.idsL ((ls ++ rs) ++ ks)).map physIn) E.binds H.binds B.binds, dim q.1 = dim q.2) →
        (∀ σ, e.leafProd σ = E.leafProd σ * H.leafProd σ * B.leafProd σ) →
        ∀ σ, e.eval dim σ =
          sumPairs dim ((up.ids ++ Tree.idsL ((ls ++ rs) ++ ks)).map physOut)
            (fun τ => sumPairs dim ((up.ids ++ Tree.idsL ((ls ++ rs) ++ ks)).map physIn)
              (fun ρ => E.eval dim ρ * H.eval dim ρ) τ * B.eval dim τ) σ := by
  have F := two_site_facts up a b ls rs ks opKidsA opKidsB hnd hpermA hpermB
  obtain ⟨hcA, hcB⟩ := two_site_cache up a b ls rs ks hnd opKidsA opKidsB hpermA hpermB twoSite hS cache hcU hcS hcK F
  refine two_site_tree_core (R := R) b a ⟨some a, opKidsB⟩ ⟨up.parent, opKidsA⟩ twoSite cache up ((ls ++ rs) ++ ks)
    opKidsB (up.parent.toList ++ opKidsA.filter (· ≠ b)) _ F.hB F.hA F.haB F.hbA (fun n hn hm => F.hdisj n hm hn)
    (by rw [F.hfA, F.hfB]; exact hS.trans (List.perm_append_comm.trans F.hN).symm) F.hfB F.hfA F.hall
    (List.perm_append_comm.trans F.hN) hcB hcA ?_
  rw [List.perm_iff_count]
  intro z
  rw [Ctx.count_unordL, Ctx.count_unordL]
  have hu := two_site_op_ucount up a b ls rs ks opKidsA opKidsB F hpermB z
  have c1 : [(Leg.gOp b a, Leg.gOp a b)] = [opEdge a b] := rfl
  simp only [twoOpPairs, c1, List.count_append] at hu ⊢
  omega

end Ptn.C05.Heff
